#!/usr/bin/env python3
"""Shared machinery for the qxmpp property checks (see DESIGN.md section 2.4/2.5).

A check = (1) rebuild libQXmpp from /repo's working tree, (2) run the property's translators,
(3) `lake build` the property's theorems and model driver (the kernel re-checks every theorem
against the regenerated data), (4) hygiene grep + `#print axioms` audit, (5) build the C++
harness against the rebuilt library, run it, feed the same op lines to the Lean model driver and
diff, (6) evaluate the model-independent property oracle lines of the harness, (7) decide,
write evidence, exit.
"""
import fcntl, hashlib, json, os, re, shutil, subprocess, sys, time, contextlib

ROOT = os.path.dirname(os.path.abspath(__file__))
BUILD = os.path.join(ROOT, ".build")
LEAN = os.path.join(ROOT, "lean")
REPO = os.environ.get("VERIF_REPO", "/repo")
REPO_REL = os.path.join(BUILD, "repo-rel")
REPO_ASAN = os.path.join(BUILD, "repo-asan")
ALLOWED_AXIOMS = {"propext", "Classical.choice", "Quot.sound"}
NPROC = str(os.cpu_count() or 8)


def sh(cmd, cwd=None, env=None, timeout=None, stdin=None):
    e = dict(os.environ)
    e.setdefault("QT_QPA_PLATFORM", "offscreen")
    if env:
        e.update(env)
    try:
        p = subprocess.run(cmd, cwd=cwd, env=e, timeout=timeout, input=stdin,
                           stdout=subprocess.PIPE, stderr=subprocess.STDOUT, text=True, errors="replace",
                           shell=isinstance(cmd, str))
        return p.returncode, p.stdout
    except subprocess.TimeoutExpired as ex:
        out = ex.stdout if isinstance(ex.stdout, str) else (ex.stdout or b"").decode("utf8", "replace")
        return 124, out + "\n[timeout]"


@contextlib.contextmanager
def lock(name, shared=False):
    os.makedirs(os.path.join(BUILD, "locks"), exist_ok=True)
    f = open(os.path.join(BUILD, "locks", name), "a")
    fcntl.flock(f, fcntl.LOCK_SH if shared else fcntl.LOCK_EX)
    try:
        yield
    finally:
        fcntl.flock(f, fcntl.LOCK_UN)
        f.close()


# ----------------------------------------------------------------------------- repo build
def build_repo(asan=False):
    """(Re)build the library from /repo's current working tree. Incremental."""
    d = REPO_ASAN if asan else REPO_REL
    flags = "-DQXMPP_VERIF -Wno-error"
    if asan:
        flags += " -fsanitize=address,undefined -fno-sanitize-recover=all -fno-omit-frame-pointer"
    with lock("repo-asan" if asan else "repo-rel"):
        if not os.path.exists(os.path.join(d, "build.ninja")):
            os.makedirs(d, exist_ok=True)
            rc, out = sh(["cmake", "-G", "Ninja", "-S", REPO, "-B", d, "-DCMAKE_BUILD_TYPE=RelWithDebInfo",
                          "-DCMAKE_CXX_FLAGS=" + flags, "-DBUILD_TESTS=OFF", "-DBUILD_EXAMPLES=OFF"])
            if rc != 0:
                return False, out
        # nothing to do (the usual case): do not wait for harnesses of other checks that have the library loaded
        rc, out = sh(["ninja", "-C", d, "-n"])
        if rc == 0 and "no work to do" in out:
            return True, out
        # the library is relinked in place: wait until no harness of another check is running against it
        with lock(("repo-asan" if asan else "repo-rel") + ".use"):
            rc, out = sh(["cmake", "--build", d, "-j", NPROC])
        return rc == 0, out


# ----------------------------------------------------------------------------- lean
def lake_build(targets):
    with lock("lake"):
        rc, out = sh(["lake", "build"] + list(targets), cwd=LEAN, timeout=3000)
    return rc == 0, out


def strip_lean_comments(src):
    # remove nested block comments and line comments (string literals containing "--" are rare in our sources)
    out, i, depth = [], 0, 0
    while i < len(src):
        if src.startswith("/-", i):
            depth += 1; i += 2; continue
        if depth and src.startswith("-/", i):
            depth -= 1; i += 2; continue
        if depth:
            if src[i] == "\n":
                out.append("\n")
            i += 1; continue
        if src.startswith("--", i):
            while i < len(src) and src[i] != "\n":
                i += 1
            continue
        out.append(src[i]); i += 1
    return "".join(out)


HYGIENE = re.compile(r"(?<![.\w])sorry(?![\w.])|(?<![.\w])admit(?![\w.])|^\s*axiom\s|native_decide|bv_decide|implemented_by|(?<![.\w])unsafe\s|maxHeartbeats\s+0|@\[extern|ofReduceBool")


def module_file(mod):
    return os.path.join(LEAN, *mod.split(".")) + ".lean"


def import_closure(mods):
    """project-local modules (Qx.*, Driver.*) transitively imported by `mods`"""
    seen, todo = set(), list(mods)
    while todo:
        m = todo.pop()
        if m in seen or not os.path.exists(module_file(m)):
            continue
        seen.add(m)
        for line in open(module_file(m), encoding="utf8"):
            mm = re.match(r"\s*(?:public\s+)?import\s+((?:Qx|Driver)\.[\w.]+)", line)
            if mm:
                todo.append(mm.group(1))
    return sorted(seen)


def hygiene(mods):
    """grep the sources the property depends on (comments stripped) for constructs that would void a proof"""
    hits = []
    for m in import_closure(mods):
        p = module_file(m)
        txt = strip_lean_comments(open(p, encoding="utf8").read())
        for n, line in enumerate(txt.split("\n"), 1):
            if HYGIENE.search(line):
                hits.append("%s:%d: %s" % (os.path.relpath(p, ROOT), n, line.strip()[:120]))
    return hits


def theorems_in(props_file):
    txt = strip_lean_comments(open(os.path.join(ROOT, props_file), encoding="utf8").read())
    ns = None
    names = []
    for line in txt.split("\n"):
        m = re.match(r"\s*namespace\s+(\S+)", line)
        if m:
            ns = m.group(1)
        m = re.match(r"\s*(?:@\[[^\]]*\]\s*)?(?:private\s+|protected\s+)?theorem\s+([^\s:({\[]+)", line)
        if m:
            names.append((ns + "." if ns else "") + m.group(1))
    return names


def audit(pid, module, names):
    """#print axioms for every property theorem; returns {name: [axioms]} and raw output."""
    os.makedirs(os.path.join(BUILD, "audit"), exist_ok=True)
    f = os.path.join(BUILD, "audit", pid + ".lean")
    with open(f, "w") as fh:
        fh.write("import %s\n" % module)
        for n in names:
            fh.write("#print axioms %s\n" % n)
    with lock("lake"):
        rc, out = sh(["lake", "env", "lean", f], cwd=LEAN, timeout=1200)
    res = {}
    for m in re.finditer(r"'([^']+)' (does not depend on any axioms|depends on axioms: \[([^\]]*)\])", out.replace("\n", " ")):
        res[m.group(1)] = [] if m.group(3) is None else [a.strip() for a in m.group(3).split(",") if a.strip()]
    return rc, res, out


# ----------------------------------------------------------------------------- harness
def build_harness(name, asan=False, tag=None):
    """asan: False | True (harness instrumented, release library) | "lib" (harness AND library instrumented).
    tag: build a private copy .build/harness/<name>.<tag> (checks running side by side share harness sources)."""
    extra = []
    if asan == "lib":
        ok, out = build_repo(asan=True)
        if not ok:
            return False, out
        extra = ["asanlib"]
    elif asan:
        extra = ["asan"]
    # hold the library's lock while linking: another check may be relinking libQXmpp right now
    with lock("repo-asan" if asan == "lib" else "repo-rel"):
        env = {"VERIF_HARNESS_OUT": os.path.join(BUILD, "harness", "%s.%s" % (name, tag))} if tag else None
        return_code, out = sh([os.path.join(ROOT, "harness", "build.sh"), name] + extra, timeout=900, env=env)
    return return_code == 0, out


class HarnessOut:
    def __init__(self):
        self.ops, self.exp = [], []
        self.fails = []      # (key, replay)
        self.passed = 0
        self.stats = {}
        self.samples = []
        self.rc = 0
        self.tail = ""
        self.last_input = ""


def run_harness(name, args, timeout=1500, env=None, tag=None, libkind="repo-rel"):
    exe = os.path.join(BUILD, "harness", "%s.%s" % (name, tag) if tag else name)
    e = {"ASAN_OPTIONS": "detect_leaks=0:abort_on_error=0:exitcode=99", "UBSAN_OPTIONS": "print_stacktrace=1:exitcode=98"}
    if env:
        e.update(env)
    outp, errp = exe + ".out", exe + ".err"
    full_env = dict(os.environ); full_env.setdefault("QT_QPA_PLATFORM", "offscreen"); full_env.update(e)
    # shared lock: the library this harness has loaded must not be relinked by another check meanwhile
    with open(outp, "w") as fo, open(errp, "w") as fe, lock(libkind + ".use", shared=True):
        try:
            rc = subprocess.run([exe] + args, stdout=fo, stderr=fe, env=full_env, timeout=timeout, cwd=BUILD).returncode
        except subprocess.TimeoutExpired:
            rc = 124
    h = HarnessOut()
    h.rc = rc
    with open(outp, encoding="utf8", errors="replace") as fo:
        for line in fo:
            line = line.rstrip("\n")
            if line.startswith("C "):
                op, _, obs = line[2:].partition("\t")
                h.ops.append(op); h.exp.append(obs)
            elif line.startswith("O FAIL "):
                key, _, rep = line[7:].partition("\t")
                h.fails.append((key, rep))
            elif line.startswith("O PASS "):
                h.passed += int(line[7:])
            elif line.startswith("S "):
                k, _, v = line[2:].partition(" ")
                try:
                    h.stats[k] = h.stats.get(k, 0) + int(v)
                except ValueError:
                    h.stats[k] = v
            elif line.startswith("X "):
                if len(h.samples) < 8:
                    h.samples.append(line[2:][:600])
            elif line.startswith("I "):
                h.last_input = line[2:]
    with open(errp, encoding="utf8", errors="replace") as fe:
        err = fe.read()
    h.tail = err[-3000:]
    if tag:   # keep the last output under the plain name for debugging, drop the private binary
        for suffix in (".out", ".err"):
            try:
                os.replace(exe + suffix, os.path.join(BUILD, "harness", name + suffix))
            except OSError:
                pass
        for pth in (exe, ):
            try:
                os.remove(pth)
            except OSError:
                pass
        shutil.rmtree(exe + ".moc.d", ignore_errors=True)
    return h


def run_driver(driver, ops, args=None):
    exe = os.path.join(LEAN, ".lake", "build", "bin", driver)
    p = subprocess.run([exe] + (args or []), input="\n".join(ops) + "\n", stdout=subprocess.PIPE, stderr=subprocess.PIPE,
                       text=True, errors="replace", timeout=3000)
    return p.returncode, p.stdout.split("\n")[:-1] if p.stdout.endswith("\n") else p.stdout.split("\n"), p.stderr


def compare(ops, exp, got, reset_prefix="reset", max_report=5):
    """Line by line; a mismatch is reported with the op sequence since the last reset."""
    mism = []
    n = min(len(exp), len(got))
    start = 0
    nseq, seqs_nontrivial = 0, set()
    cur_obs = set()
    for i in range(n):
        if ops[i].startswith(reset_prefix):
            if i > start and len(cur_obs) >= 2:
                seqs_nontrivial.add(hashlib.md5("\n".join(ops[start:i]).encode()).digest())
            start = i; nseq += 1; cur_obs = set()
        else:
            cur_obs.add(exp[i])
        if exp[i] != got[i]:
            if len(mism) < max_report:
                mism.append({"line": i, "ops": ops[start:i + 1][-60:], "impl": exp[i], "model": got[i]})
            elif len(mism) == max_report:
                mism.append({"more": True})
    if n > start and len(cur_obs) >= 2:
        seqs_nontrivial.add(hashlib.md5("\n".join(ops[start:n]).encode()).digest())
    if len(exp) != len(got):
        mism.append({"line": n, "ops": [], "impl": "<%d lines>" % len(exp), "model": "<%d lines>" % len(got)})
    return mism, nseq, len(seqs_nontrivial)


# ----------------------------------------------------------------------------- findings
def load_findings(pid):
    p = os.path.join(ROOT, "known_findings.json")
    if not os.path.exists(p):
        return {}
    for attempt in range(5):
        try:
            j = json.load(open(p))
            break
        except ValueError:
            time.sleep(0.3)   # being rewritten by tools/add_finding.py
    else:
        raise
    return {f["key"]: f for f in j.get("findings", []) if f.get("property") == pid}


# ----------------------------------------------------------------------------- generic runner
class Check:
    def __init__(self, spec, tier, seed):
        self.spec, self.tier, self.seed = spec, tier, seed
        self.pid = spec["id"]
        self.t0 = time.time()
        self.broken = []         # things that no longer check: {"what":…, "detail":…}
        self.fails = []          # oracle failures on the implementation: (key, replay)
        self.cov = {"evaluations": 0, "distinct_nontrivial": 0, "samples": [], "stats": {}}
        self.obligations = 0
        self.discharged = 0
        self.theorems = {}
        self.notes = []

    def log(self, *a):
        print("[%s %6.1fs]" % (self.pid, time.time() - self.t0), *a, flush=True)

    def infra_fail(self, what, out):
        self.log("INFRASTRUCTURE FAILURE:", what)
        print(out[-4000:])
        sys.exit(2)

    def run(self):
        spec = self.spec
        ok, out = build_repo()
        if not ok:
            self.infra_fail("library does not build from /repo's working tree", out)
        self.log("library rebuilt from", REPO)
        # translators
        for tr in spec.get("translators", []):
            rc, out = sh([sys.executable, os.path.join(ROOT, "translators", tr)], cwd=ROOT, timeout=300)
            if rc != 0:
                self.broken.append({"what": "translator %s lost its anchor in the source" % tr, "detail": out[-2000:]})
            self.log("translator", tr, "rc", rc)
        # lean
        targets = list(spec["lean_modules"]) + [d for d in spec.get("drivers", [])]
        ok, out = lake_build(targets)
        lean_ok = ok
        if not ok:
            errs = [l for l in out.split("\n") if l.startswith("error:")]
            self.broken.append({"what": "lake build failed: a proof obligation no longer checks", "detail": "\n".join(errs[:20]) or out[-3000:]})
        self.log("lake build", "ok" if ok else "FAILED")
        hits = hygiene(list(spec["lean_modules"]) + ["Driver." + d.split("_")[-1].upper() if d.startswith("qxdriver_c") and d[10:].isdigit() else "Driver." + d.split("_")[-1].capitalize() for d in spec.get("drivers", [])])
        if hits:
            self.broken.append({"what": "hygiene grep hit (sorry/axiom/native_decide/...)", "detail": "\n".join(hits[:20])})
        names = []
        for pf in spec["props_files"]:
            names += theorems_in(pf)
        self.obligations = len(names)
        if lean_ok:
            for mod, pf in zip(spec["lean_modules"], spec["props_files"]):
                ns = theorems_in(pf)
                rc, res, raw = audit(self.pid + "_" + mod.split(".")[-1], mod, ns)
                for n in ns:
                    ax = res.get(n)
                    if ax is None:
                        self.broken.append({"what": "audit: no axiom report for " + n, "detail": raw[-1500:]})
                        continue
                    self.theorems[n] = ax
                    bad = [a for a in ax if a not in ALLOWED_AXIOMS]
                    if bad:
                        self.broken.append({"what": "theorem %s depends on non-permitted axioms %s" % (n, bad), "detail": ""})
                    else:
                        self.discharged += 1
            self.log("audit: %d/%d theorems, axioms ok" % (self.discharged, self.obligations))
        if self.tier == "thorough" and lean_ok:
            for mod in spec["lean_modules"]:
                with lock("lake"):
                    rc, out = sh(["lake", "env", "leanchecker", mod], cwd=LEAN, timeout=3000)
                self.log("leanchecker", mod, "rc", rc)
                if rc != 0:
                    self.broken.append({"what": "leanchecker rejected " + mod, "detail": out[-2000:]})
                self.cov.setdefault("leanchecker", {})[mod] = rc
        # harnesses
        for hs in spec.get("harnesses", []):
            self.run_harness(hs, lean_ok)
        for extra in spec.get("extra", []):
            extra(self)
        return self.decide()

    def run_harness(self, hs, lean_ok):
        name = hs["name"]
        tag = "%s.%d" % (self.pid, os.getpid())
        ok, out = build_harness(name, hs.get("asan", False), tag=tag)
        if not ok:
            # the harness is ours; if it stops compiling against the tree the tie is broken
            self.broken.append({"what": "harness %s does not compile against the current tree" % name, "detail": out[-3000:]})
            self.log("harness", name, "BUILD FAILED")
            return
        args = ["--tier", self.tier, "--seed", str(self.seed)] + hs.get("args", [])
        h = run_harness(name, args, timeout=hs.get("timeout", 1500 if self.tier == "quick" else 6000), env=hs.get("env"),
                        tag=tag, libkind="repo-asan" if hs.get("asan") == "lib" else "repo-rel")
        self.log("harness %s rc=%d corr-lines=%d oracle pass=%d fail=%d" % (name, h.rc, len(h.ops), h.passed, len(h.fails)))
        self.cov["stats"][name] = h.stats
        self.cov["samples"] += h.samples
        self.cov["oracle_pass"] = self.cov.get("oracle_pass", 0) + h.passed
        self.fails += h.fails
        if h.rc != 0:
            sanit = ("AddressSanitizer" in h.tail) or ("runtime error" in h.tail) or ("LeakSanitizer" in h.tail)
            key = "%s:%s" % (self.pid, "sanitizer-abort" if sanit else "harness-crash")
            rep = json.dumps({"harness": name, "rc": h.rc, "last_input": h.last_input, "last_ops": h.ops[-40:], "stderr_tail": h.tail[-1500:]})
            if sanit or h.rc in (134, 139, 136, 124, 99, 98) or h.rc < 0:   # negative = killed by a signal
                self.fails.append((key + (":timeout" if h.rc == 124 else ""), rep))
            else:
                self.broken.append({"what": "harness %s exited with %d" % (name, h.rc), "detail": h.tail[-1500:]})
        # coverage floor: a harness that ran to completion but exercised nothing checks nothing
        if h.rc == 0:
            if hs.get("driver") and not h.ops:
                self.broken.append({"what": "harness %s produced no correspondence lines" % name, "detail": h.tail[-800:]})
            elif not hs.get("driver") and h.passed + len(h.fails) == 0:
                self.broken.append({"what": "harness %s evaluated no oracle" % name, "detail": h.tail[-800:]})
        if hs.get("driver") and lean_ok and h.ops:
            rc, got, err = run_driver(hs["driver"], h.ops, hs.get("driver_args"))
            mism, nseq, nontriv = compare(h.ops, h.exp, got, hs.get("reset_prefix", "reset"))
            self.cov["evaluations"] += len(h.ops)
            self.cov["distinct_nontrivial"] += nontriv
            self.cov["sequences"] = self.cov.get("sequences", 0) + nseq
            if not self.cov["samples"] and h.ops:
                self.cov["samples"].append({"ops": h.ops[:8], "obs": h.exp[:8]})
            if rc != 0:
                self.broken.append({"what": "model driver %s failed" % hs["driver"], "detail": err[-1500:]})
            if mism:
                self.broken.append({"what": "correspondence %s vs %s disagrees (%d+ lines)" % (name, hs["driver"], len(mism)), "detail": mism})
            self.log("correspondence %s: %d lines, %d sequences, %d mismatching" % (name, len(h.ops), nseq, len(mism)))
        elif not hs.get("driver"):
            self.cov["evaluations"] += h.passed + len(h.fails)

    def decide(self):
        known = load_findings(self.pid)
        unknown, seen_known = [], {}
        for key, rep in self.fails:
            if key in known:
                seen_known.setdefault(key, rep)
            else:
                unknown.append((key, rep))
        for key in seen_known:
            print("KNOWN-FINDING: property=%s %s [%s]" % (self.pid, known[key]["what"], key))
        violations = 0
        replay_path = None
        if unknown or self.broken:
            os.makedirs(os.path.join(ROOT, "replays"), exist_ok=True)
            body = {"property": self.pid, "tier": self.tier, "seed": self.seed,
                    "failing_inputs": [{"key": k, "replay": r} for k, r in unknown[:20]],
                    "no_longer_checks": self.broken,
                    "replay_cmd": "./check %s --tier %s  (VERIF_SEED=%d)" % (self.pid, self.tier, self.seed)}
            hsh = hashlib.md5(json.dumps(body, sort_keys=True, default=str).encode()).hexdigest()[:10]
            replay_path = os.path.join("replays", "%s-%s.json" % (self.pid, hsh))
            json.dump(body, open(os.path.join(ROOT, replay_path), "w"), indent=1, default=str)
            violations = max(1, len({k for k, _ in unknown}))
        self.write_evidence(violations, sorted(seen_known))
        if unknown:
            for k in sorted({k for k, _ in unknown})[:10]:
                self.log("property fails on the implementation:", k)
            if self.broken:
                for b in self.broken:
                    self.log("also no longer checks:", b["what"])
            print("VIOLATION property=%s replay=%s" % (self.pid, replay_path))
            return 1
        if self.broken:
            for b in self.broken:
                self.log("no longer checks:", b["what"])
                d = b["detail"]
                print(json.dumps(d, indent=1)[:3000] if not isinstance(d, str) else d[:3000])
            print("VIOLATION property=%s replay=%s no-failing-input-found" % (self.pid, replay_path))
            return 1
        self.log("OK: %d/%d obligations discharged, correspondence agrees on %d lines, oracle passed %d" %
                 (self.discharged, self.obligations, self.cov["evaluations"], self.cov.get("oracle_pass", 0)))
        return 0

    def write_evidence(self, violations, known_seen):
        spec = self.spec
        cov = dict(self.cov)
        cov.update({
            "obligations": self.obligations,
            "discharged": self.discharged,
            "checker_cmd": "cd lean && lake build %s && lake env lean ../.build/audit/%s_*.lean   (#print axioms per theorem)" % (" ".join(spec["lean_modules"]), self.pid),
            "trusted_base": spec["trusted_base"],
            "theorems": self.theorems,
            "rule": spec["rule"],
            # never claimed: the theorems cover every input of the MODEL (kernel-checked), but the run's own enumeration
            # (model-to-code correspondence) is exhaustive only to the depth named in `rule` and sampled beyond
            "exhaustive": False,
            "exhaustive_note": "proofs quantify over all inputs/histories of the model; the correspondence run enumerates a finite "
                               "sub-space completely (depths in `rule`%s) and samples beyond it — not exhaustive over the property's quantifier"
                               % ("" if spec.get("exhaustive") else "; no complete enumeration in this run"),
            "known_findings_reproduced": known_seen,
            "no_longer_checks": [b["what"] for b in self.broken],
        })
        if not cov["samples"]:
            cov["samples"] = ["(no sample emitted)"]
        ev = {"property_id": self.pid, "tier": self.tier, "seed": self.seed, "level": "proof", "coverage": cov,
              "assumptions": spec.get("assumptions", []), "wall_s": round(time.time() - self.t0, 2), "violations": violations}
        os.makedirs(os.path.join(ROOT, "evidence"), exist_ok=True)
        json.dump(ev, open(os.path.join(ROOT, "evidence", self.pid + ".json"), "w"), indent=1, default=str)
