import Qx.Driver.Proto
import Qx.Model.C07Iq
open Qx.Driver Qx.C07

/-- driver state: which of the two machines the current sequence drives -/
inductive DSt
  | iq (s : St)
  | mam (s : Mam.St)
  | neg (s : Neg.St)
  | blk (s : Blocklist.St)
  | sens (s : Sensitive.St)

def parseId (w : String) : Id :=
  if w = "-" then .named ""
  else match w.toList with
    | 'g' :: r =>
      match (String.ofList r).toNat? with
      | some n => .gen n
      | none => .named w
    | _ => .named w

def showId : Id → String
  | .named s => if s = "" then "-" else s
  | .gen n => s!"g{n}"

def parseStr (w : String) : String := if w = "-" then "" else w
def showStr (w : String) : String := if w = "" then "-" else w

def parseKind : String → Option Kind
  | "iq" => some .iq | "message" => some .message | "presence" => some .presence | _ => none

def parseTy : String → Option Ty
  | "get" => some .get | "set" => some .set | "result" => some .result | "error" => some .error
  | "none" => some .other | _ => none

def showTy : Ty → String
  | .get => "get" | .set => "set" | .result => "result" | .error => "error" | .other => "none"

def showHow : How → String
  | .reply t f => s!"reply:{showTy t}:{showStr f}"
  | .sendError => "senderr"
  | .cancelled => "cancelled"
  | .refusedId => "refused-id"
  | .refusedTo => "refused-to"

def insertBy {α : Type} (le : α → α → Bool) (x : α) : List α → List α
  | [] => [x]
  | y :: ys => if le x y then x :: y :: ys else y :: insertBy le x ys

def sortBy {α : Type} (le : α → α → Bool) (l : List α) : List α := l.foldr (insertBy le) []

def dash (l : List String) : String := if l.isEmpty then "-" else ",".intercalate l

def obsIq (s : St) (outs : List Done) : String :=
  let ds := sortBy (fun (a b : Done) => a.req ≤ b.req) outs
  let pend := sortBy (fun (a b : String) => decide (a ≤ b)) (s.tbl.map fun e => showId e.id)
  dash (ds.map fun d => s!"{d.req}:{showHow d.how}") ++ "|" ++ dash pend

def showMamEv : Mam.Ev → String
  | .finishedOk n => s!"ok:{n}"
  | .finishedErr => "err"
  | .signalled => "sig"

def bit (w : String) : Option Bool :=
  if w = "1" then some true else if w = "0" then some false else none

def iqOp (ws : List String) : Option Op :=
  match ws with
  | ["send", id, to] => some (.send (parseId id) (parseStr to))
  | ["sendraw", id, to] => some (.sendRaw (parseId id) (parseStr to))
  | ["fail", id] => some (.sendFails (parseId id))
  | ["failall"] => some .failAll
  | ["ackall"] => some .ackAll
  | ["ensm"] => some .enableSm
  | ["recv", k, t, id, f] =>
    match parseKind k, parseTy t with
    | some k, some t => some (.recv ⟨k, t, parseId id, parseStr f⟩)
    | _, _ => none
  | ["opened", r, e] =>
    match bit r, bit e with
    | some r, some e => some (.sessionOpened r e)
    | _, _ => none
  | ["sock", b] => (bit b).map .setSock
  | ["closed", b] => (bit b).map .sessionClosed
  | ["destroy"] => some .destroy
  | _ => none

def negOp (ws : List String) : Option Neg.Op :=
  match ws with
  | ["nconn", sm, rn, r] =>
    match bit sm, bit rn, bit r with
    | some sm, some rn, some r => some (.connect sm rn r)
    | _, _, _ => none
  | ["nloss"] => some .loss
  | ["ndisc"] => some .disconnect
  | _ => (iqOp ws).map .base

def blkOp (ws : List String) : Option Blocklist.Op :=
  match ws with
  | ["fetch"] => some .fetch
  | ["iqok"] => some (.iqDone true)
  | ["iqerr"] => some (.iqDone false)
  | ["newsess"] => some .newSession
  | ["resumed"] => some .resumedSession
  | _ => none

def sensOp (ws : List String) : Option Sensitive.Op :=
  match ws with
  | ["start"] => some .start
  | ["enc", b] => (bit b).map .encDone
  | ["iq", b] => (bit b).map .iqDone
  | ["dec", "ok"] => some (.decDone .decrypted)
  | ["dec", "ne"] => some (.decDone .notEncrypted)
  | ["dec", "err"] => some (.decDone .error)
  | ["dropext"] => some .dropExtension
  | _ => none

def showSensEv : Sensitive.Ev → String
  | .finishedOk d => if d then "ok:1" else "ok:0"
  | .finishedErr => "err"

def mamOp (ws : List String) : Option Mam.Op :=
  match ws with
  | ["start"] => some .start
  | ["msg", m, e] =>
    match bit m, bit e with
    | some m, some e => some (.collect m e)
    | _, _ => none
  | ["fin"] => some .iqResult
  | ["err"] => some .iqError
  | ["dec", i] => i.toNat?.map .decrypted
  | _ => none

def stepLine (d : DSt) (line : String) : DSt × String :=
  let ws := words line
  match ws with
  | ["reset", "iq", own, sock, sm] =>
    match bit sock, bit sm with
    | some sock, some sm => (.iq (init (parseStr own) sock sm), "ok")
    | _, _ => (d, "bad-op")
  | ["reset", "blk"] => (.blk Blocklist.init, "ok")
  | ["reset", "sens"] => (.sens Sensitive.init, "ok")
  | ["reset", "neg", own] => (.neg (Neg.init (parseStr own)), "ok")
  | ["reset", "mam", e, i] =>
    match bit e, bit i with
    | some e, some i => (.mam (Mam.init e i), "ok")
    | _, _ => (d, "bad-op")
  | _ =>
    match d with
    | .iq s =>
      -- `seq a ;; b ;; …`: the ops in order, outputs merged; observation = completions + number of pending requests
      if ws.head? = some "seq" then
        let parts := (" ".intercalate ws.tail).splitOn " ;; "
        match parts.mapM (fun p => iqOp (words p)) with
        | some ops =>
          let r := Qx.C07.run s ops
          let ds := sortBy (fun (a b : Done) => a.req ≤ b.req) r.2
          (.iq r.1, dash (ds.map fun d => s!"{d.req}:{showHow d.how}") ++ s!"|n={r.1.tbl.length}")
        | none => (d, "bad-op")
      else
      match iqOp ws with
      | some op => let r := step s op; (.iq r.1, obsIq r.1 r.2)
      | none => (d, "bad-op")
    | .neg s =>
      match negOp ws with
      | some op => let r := Neg.step s op; (.neg r.1, obsIq r.1.base r.2)
      | none => (d, "bad-op")
    | .blk s =>
      match blkOp ws with
      | some op =>
        let r := Blocklist.step s op
        (.blk r.1, dash (r.2.map fun e => s!"{e.call}:{if e.ok then "ok" else "err"}") ++ (if r.1.cached then "|c=1" else "|c=0"))
      | none => (d, "bad-op")
    | .sens s =>
      match sensOp ws with
      | some op => let r := Sensitive.step s op; (.sens r.1, dash (r.2.map showSensEv))
      | none => (d, "bad-op")
    | .mam s =>
      match mamOp ws with
      | some op => let r := Mam.step s op; (.mam r.1, dash (r.2.map showMamEv))
      | none => (d, "bad-op")

def main : IO Unit := run (DSt.iq (init "" false true)) stepLine
