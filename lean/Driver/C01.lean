import Qx.Driver.Proto
import Qx.Driver.XmlOps
import Qx.Driver.ScalarOps
import Qx.Driver.CodecOps
/-! C01/C02 driver: dispatches op lines by prefix to the tier stepper that owns them. -/
open Qx.Driver

def stepLine (s : Unit) (line : String) : Unit × String :=
  match XmlOps.step line with
  | some out => (s, out)
  | none =>
    match ScalarOps.step line with
    | some out => (s, out)
    | none =>
      match CodecOps.step line with
      | some out => (s, out)
      | none => (s, "bad-op")

def main : IO Unit := run () stepLine
