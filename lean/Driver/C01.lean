import Qx.Driver.Proto
import Qx.Driver.XmlOps
/-! C01/C02 driver: dispatches op lines by prefix to the tier stepper that owns them. -/
open Qx.Driver

def stepLine (s : Unit) (line : String) : Unit × String :=
  match XmlOps.step line with
  | some out => (s, out)
  | none => (s, "bad-op")

def main : IO Unit := run () stepLine
