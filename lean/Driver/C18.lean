import Qx.Driver.Proto
import Qx.Model.C18Atm
open Qx.Driver Qx.C18

/-- "-" or comma separated naturals -/
def parseList (s : String) : Option (List Nat) :=
  if s = "-" then some [] else (s.splitOn ",").mapM (·.toNat?)

/-- "-" or `owner:trusted:distrusted` items separated by ';' -/
def parseOwners (s : String) : Option (List KeyOwner) :=
  if s = "-" then some [] else
  (s.splitOn ";").mapM fun item =>
    match item.splitOn ":" with
    | [o, a, d] =>
      match o.toNat?, parseList a, parseList d with
      | some o, some a, some d => some ⟨o, a, d⟩
      | _, _, _ => none
    | _ => none

def levelOfNat : Nat → Option Level
  | 0 => some .undecided | 1 => some .autoDistrusted | 2 => some .manDistrusted
  | 3 => some .autoTrusted | 4 => some .manTrusted | 5 => some .authenticated
  | _ => none

def natOfLevel : Level → Nat
  | .undecided => 0 | .autoDistrusted => 1 | .manDistrusted => 2
  | .autoTrusted => 3 | .manTrusted => 4 | .authenticated => 5

def sortPairs (l : List (Nat × Nat)) : List (Nat × Nat) :=
  l.mergeSort fun a b => a.1 < b.1 || (a.1 == b.1 && a.2 ≤ b.2)

def showPairs (l : List (Nat × Nat)) : String :=
  ",".intercalate ((sortPairs l).map fun r => s!"{r.1}:{r.2}")

def showTrust (t : List ((Nat × Nat) × Level)) : String :=
  let l := t.mergeSort fun a b => a.1.1 < b.1.1 || (a.1.1 == b.1.1 && a.1.2 ≤ b.1.2)
  ",".intercalate (l.map fun e => s!"{e.1.1}:{e.1.2}={natOfLevel e.2}")

def showPostponed (p : List Entry) : String :=
  let l := p.mergeSort fun a b =>
    a.sender < b.sender || (a.sender == b.sender && (a.owner < b.owner || (a.owner == b.owner && a.key ≤ b.key)))
  ",".intercalate (l.map fun e => s!"{e.sender}>{e.owner}:{e.key}{if e.trust then "+" else "-"}")

def showEvs (evs : List Ev) : String :=
  "|".intercalate (evs.filterMap fun
    | .changed ks => some (showPairs ks)
    | .fuelExhausted => some "LOOP!"
    | _ => none)

def obs (s : St) (evs : List Ev) : String :=
  let e0 := s.stores 0
  let e1 := s.stores 1
  s!"e0 t={showTrust e0.trust} p={showPostponed e0.postponed} e1 t={showTrust e1.trust} p={showPostponed e1.postponed} chg={showEvs evs}"

def parseOp : List String → Option EOp
  | ["pol", e, p] =>
    match e.toNat?, p.toNat? with
    | some e, some 0 => some ⟨e, .setPolicy .none⟩
    | some e, some 1 => some ⟨e, .setPolicy .toakafa⟩
    | _, _ => none
  | ["seed", e, o, k, l] =>
    match e.toNat?, o.toNat?, k.toNat?, l.toNat?.bind levelOfNat with
    | some e, some o, some k, some l => some ⟨e, .seed o k l⟩
    | _, _, _, _ => none
  | ["man", e, o, a, d] =>
    match e.toNat?, o.toNat?, parseList a, parseList d with
    | some e, some o, some a, some d => some ⟨e, .manual o a d⟩
    | _, _, _, _ => none
  -- optional 8th field: message type / delivery route flags of the harness; handleMessage looks at neither
  | ["msg", e, acc, res, sk, usage, owners, _flags] => parseOp ["msg", e, acc, res, sk, usage, owners]
  | ["msg", e, acc, res, sk, usage, owners] =>
    match e.toNat?, acc.toNat?, res.toNat?, sk.toNat?, usage.toNat?, parseOwners owners with
    | some e, some acc, some res, some sk, some usage, some owners =>
      some ⟨e, .message ⟨acc, res, sk, usage == 0, owners⟩⟩
    | _, _, _, _, _, _ => none
  | _ => none

def stepLine (s : St) (line : String) : St × String :=
  match words line with
  | ["reset", own, res] =>
    match own.toNat?, res.toNat? with
    | some own, some res => (init own res, "ok")
    | _, _ => (s, "bad-op")
  | ws =>
    match parseOp ws with
    | some op => let r := step s op; (r.1, obs r.1 r.2)
    | none => (s, "bad-op")

def main : IO Unit := run (init 0 0) stepLine
