import Qx.Driver.Proto
import Qx.Model.C14Stun
open Qx Qx.Driver Qx.C14

/-! Line protocol of the C14 driver (see harness/cxx/stun.cpp):
  reset                                  → ok
  enc <msg> <keyhex|-> <0|1>             → hex of encode
  dec <hex> <keyhex|->                   → fail | ok fits=<0|1> <msg>   (indeterminate fields masked when fits=0)
  hmac <keyhex|-> <texthex|->            → hex of the code's HMAC-SHA1
  hmacrfc <keyhex|-> <texthex|->         → hex of RFC 2104 HMAC-SHA1
  encsz <n> <fill> <key|-> <0|1>         → length and CRC-32 of encode of a message with DATA = n bytes `fill`
  decsz <n> <fill> <key|-> <0|1>         → refused | fail | ok | other: decode of that encoding compared with the message
  token <hex|->                          → hex of reservationToken() after setReservationToken
  crc <hex|->                            → decimal CRC-32 by the generated table
  crcspec <hex|->                        → decimal CRC-32 by the bitwise definition
<msg> = `k=v;…` in the fixed order of `showMsg`. -/

def hexArg (s : String) : Option Bytes := if s = "-" then some [] else fromHex s

def showHost (mask : Bool) : Host → String
  | .null => "n"
  | .v4 a => s!"4.{a}"
  | .v6 b => if mask then "6.?" else s!"6.{toHex b}"

def showAddr (mask : Bool) (a : Addr) : String := s!"{showHost mask a.host}:{a.port}"

def showON : Option Nat → String
  | none => "-"
  | some n => toString n

def showOB (mask : Bool) : Option Bytes → String
  | none => "-"
  | some b => if mask then s!"x?{b.length}" else "x" ++ toHex b

def showB (mask : Bool) (b : Bytes) : String := if mask then s!"?{b.length}" else toHex b

def showMsg (mask : Bool) (m : Msg) : String :=
  ";".intercalate [
    s!"ty={m.type}", s!"ck={m.cookie}", s!"id={toHex m.id}",
    s!"ma={showAddr mask m.mapped}", s!"cr={showON m.changeRequest}", s!"so={showAddr mask m.source}",
    s!"ch={showAddr mask m.changed}", s!"ot={showAddr mask m.other}", s!"xm={showAddr mask m.xorMapped}",
    s!"xp={showAddr mask m.xorPeer}", s!"xr={showAddr mask m.xorRelayed}",
    s!"ec={m.errorCode}", s!"ep={toHex m.errorPhrase}", s!"pr={showON m.priority}",
    s!"uc={if m.useCandidate then 1 else 0}", s!"cn={showON m.channelNumber}", s!"da={showOB mask m.data}",
    s!"lt={showON m.lifetime}", s!"no={showOB mask m.nonce}", s!"re={showOB false m.realm}",
    s!"rt={showON m.requestedTransport}", s!"tk={showOB mask m.reservationToken}",
    s!"sw={showOB false m.software}", s!"un={showOB false m.username}",
    s!"ig={showB mask m.iceControlling}", s!"id2={showB mask m.iceControlled}"]

def parseHost (s : String) : Option Host :=
  if s = "n" then some .null
  else match s.splitOn "." with
    | ["4", a] => a.toNat?.map .v4
    | ["6", h] => (fromHex h).map .v6
    | _ => none

def parseAddr (s : String) : Option Addr :=
  match s.splitOn ":" with
  | [h, p] => do
    let h ← parseHost h
    let p ← p.toNat?
    pure { host := h, port := p }
  | _ => none

def parseON (s : String) : Option (Option Nat) :=
  if s = "-" then some none else s.toNat?.map some

def parseOB (s : String) : Option (Option Bytes) :=
  if s = "-" then some none
  else match s.toList with
    | 'x' :: r => (fromHex (String.ofList r)).map some
    | _ => none

def parseMsg (s : String) : Option Msg := do
  let kv := (s.splitOn ";").map fun f =>
    match f.splitOn "=" with
    | [k, v] => (k, v)
    | _ => ("", "")
  let get (k : String) : Option String := (kv.find? (·.1 = k)).map (·.2)
  pure {
    type := ← (← get "ty").toNat?
    cookie := ← (← get "ck").toNat?
    id := ← fromHex (← get "id")
    mapped := ← parseAddr (← get "ma")
    changeRequest := ← parseON (← get "cr")
    source := ← parseAddr (← get "so")
    changed := ← parseAddr (← get "ch")
    other := ← parseAddr (← get "ot")
    xorMapped := ← parseAddr (← get "xm")
    xorPeer := ← parseAddr (← get "xp")
    xorRelayed := ← parseAddr (← get "xr")
    errorCode := ← (← get "ec").toInt?
    errorPhrase := ← fromHex (← get "ep")
    priority := ← parseON (← get "pr")
    useCandidate := (← get "uc") = "1"
    channelNumber := ← parseON (← get "cn")
    data := ← parseOB (← get "da")
    lifetime := ← parseON (← get "lt")
    nonce := ← parseOB (← get "no")
    realm := ← parseOB (← get "re")
    requestedTransport := ← parseON (← get "rt")
    reservationToken := ← parseOB (← get "tk")
    software := ← parseOB (← get "sw")
    username := ← parseOB (← get "un")
    iceControlling := ← fromHex (← get "ig")
    iceControlled := ← fromHex (← get "id2") }

def sha1 : Bytes → Bytes := Qx.Crypto.sha1

def stepLine (_ : Unit) (line : String) : Unit × String :=
  ((), match words line with
  | ["reset"] => "ok"
  | ["enc", m, k, fp] =>
    match parseMsg m, hexArg k with
    | some m, some k => toHex (encode sha1 m k (fp = "1"))
    | _, _ => "bad-op"
  | ["dec", b, k] =>
    match hexArg b, hexArg k with
    | some b, some k =>
      match decode sha1 b k with
      | none => "fail"
      | some m => let fits := tlvFits b; s!"ok fits={if fits then 1 else 0} {showMsg (!fits) m}"
    | _, _ => "bad-op"
  | ["encsz", n, fill, k, fp] =>
    match n.toNat?, fill.toNat?, hexArg k with
    | some n, some fill, some k =>
      let b := encode sha1 (dataOnlyMsg (List.replicate n (UInt8.ofNat fill))) k (fp = "1")
      s!"{b.length} {(Qx.Crypto.crc32Bitwise b).toNat}"
    | _, _, _ => "bad-op"
  | ["decsz", n, fill, k, fp] =>
    match n.toNat?, fill.toNat?, hexArg k with
    | some n, some fill, some k =>
      let m := dataOnlyMsg (List.replicate n (UInt8.ofNat fill))
      let b := encode sha1 m k (fp = "1")
      if b.isEmpty then "refused"
      else match decode sha1 b k with
        | none => "fail"
        | some d => if d = m then "ok" else "other"
    | _, _, _ => "bad-op"
  | ["token", t] =>
    match hexArg t with
    | some t => toHex (setReservationToken t)
    | none => "bad-op"
  | ["hmac", k, t] =>
    match hexArg k, hexArg t with
    | some k, some t => toHex (hmacCode sha1 64 k t)
    | _, _ => "bad-op"
  | ["hmacrfc", k, t] =>
    match hexArg k, hexArg t with
    | some k, some t => toHex (hmacRfc sha1 64 k t)
    | _, _ => "bad-op"
  | ["crc", b] =>
    match hexArg b with
    | some b => toString (crcCode b)
    | none => "bad-op"
  | ["crcspec", b] =>
    match hexArg b with
    | some b => toString (Qx.Crypto.crc32Bitwise b).toNat
    | none => "bad-op"
  | _ => "bad-op")

def main : IO Unit := run () stepLine
