import Qx.Driver.Proto
import Qx.Model.C08Dispatch
open Qx.Driver Qx.C08

/-
Line protocol of the C08 model driver.
  reset <mgr>,<mgr>,…|-                             extension list in registration order            → ok
  iq <s|e|x> <S|N> <type> <from> <id> <kids>        one incoming IQ: s = from the stream, e = injectIq with e2ee metadata,
                                                    x = encrypted on the stream, decrypted by the e2ee extension;
                                                    S = session established, N = a negotiation manager is the listener
       kids = - | tag|ns|flags;…                    the children exactly as the real DOM reports them; flags = flag + 2*flag2
  → by=<who decided> n=<number of IQ replies> r=<kind/to/id/enc,…|-> disc=<0|1>
       kind = result | error:<type>:<condition>
-/

def mgrNames : List (String × Mgr) :=
  [("archive", .archive), ("blocking", .blocking), ("blocking+sub", .blockingSub), ("bookmark", .bookmark),
   ("carbon", .carbon), ("carbonV2", .carbonV2), ("discovery", .discovery), ("entityTime", .entityTime),
   ("mam", .mam), ("muc", .muc), ("pubsub", .pubsub), ("registration", .registration),
   ("roster", .roster), ("rpc", .rpc), ("transfer", .transfer), ("transfer+accept", .transferAccept),
   ("transfer+decline", .transferDecline), ("transfer+job", .transferJob), ("transfer+jobopen", .transferJobOpen),
   ("transfer+acceptro", .transferAcceptRO), ("transfer+jobopen-fail", .transferJobOpenFail),
   ("transfer+jobopen-short", .transferJobOpenShort), ("transfer+jobfailed", .transferJobFailed),
   ("muc+room", .mucRoom), ("app", .app), ("app-old", .appOld), ("uploadRequest", .uploadRequest),
   ("vcard", .vcard), ("version", .version), ("accountMigration", .accountMigration),
   ("attention", .attention), ("callInvite", .callInvite), ("externalService", .externalService),
   ("httpUpload", .httpUpload), ("jmi", .jmi), ("messageReceipt", .messageReceipt), ("mix", .mix),
   ("moved", .moved), ("userLocation", .userLocation), ("userTune", .userTune), ("atm", .atm),
   ("fileSharing", .fileSharing)]

def mgrOfName (n : String) : Option Mgr := (mgrNames.find? (·.1 = n)).map (·.2)
def mgrName (m : Mgr) : String :=
  match mgrNames.find? (·.2 = m) with
  | some p => p.1
  | none => "?"

def tagOf : String → Tag
  | "vCard" => .vCard | "query" => .query | "time" => .time | "chat" => .chat | "list" => .list
  | "pref" => .pref | "fin" => .fin | "block" => .block | "unblock" => .unblock
  | "request" => .request | "slot" => .slot | "open" => .openT | "close" => .close | "data" => .data
  | "si" => .si | "error" => .error
  | t => if t.startsWith "app-fresh" then .appFresh else if t.startsWith "app-echo" then .appEcho
    else if t.startsWith "app-result" then .appResult else if t.startsWith "app-erroriq" then .appErrorIq
    else if t.startsWith "app-error" then .appError else .other

def nsOf : String → Ns
  | "vcard-temp" => .vcard
  | "jabber:iq:roster" => .roster
  | "http://jabber.org/protocol/disco#info" => .discoInfo
  | "http://jabber.org/protocol/disco#items" => .discoItems
  | "jabber:iq:version" => .version
  | "urn:xmpp:time" => .time
  | "urn:xmpp:archive" => .archive
  | "jabber:iq:private" => .priv
  | "jabber:iq:rpc" => .rpc
  | "urn:xmpp:mam:2" => .mam
  | "urn:xmpp:blocking" => .blocking
  | "urn:xmpp:http:upload:0" => .upload
  | "jabber:iq:register" => .register
  | "http://jabber.org/protocol/ibb" => .ibb
  | "http://jabber.org/protocol/bytestreams" => .bytestreams
  | "http://jabber.org/protocol/si" => .si
  | "http://jabber.org/protocol/muc#admin" => .mucAdmin
  | "http://jabber.org/protocol/muc#owner" => .mucOwner
  | "urn:example:app" => .app
  | _ => .other

def typeOf : String → Option IqType
  | "get" => some .get | "set" => some .set | "result" => some .result | "error" => some .error
  | "absent" => some .absent | "garbage" => some .garbage | _ => none

def fromOf : String → Option From
  | "none" => some .none | "domain" => some .domain | "ownBare" => some .ownBare
  | "ownFull" => some .ownFull | "ownOther" => some .ownOther | "other" => some .other
  | "stranger" => some .stranger | _ => none

def idOf : String → Option IdC
  | "absent" => some .absent | "fresh" => some .fresh | "table" => some .table | "reg" => some .reg | "bm" => some .bm | "muc" => some .muc
  | _ => none

def kidOf (w : String) : Option Kid :=
  match w.splitOn "|" with
  | [t, n, f] => some ⟨tagOf t, nsOf n, f = "1" || f = "3", f = "2" || f = "3"⟩
  | _ => none

def kidsOf (w : String) : Option (List Kid) :=
  if w = "-" then some [] else (w.splitOn ";").mapM kidOf

def showDecider : Decider → String
  | .table => "table" | .ext m => mgrName m | .fallback => "fallback" | .rejected => "rejected"
  | .negotiation => "negotiation"

def showEType : EType → String
  | .cancel => "cancel" | .modify => "modify" | .auth => "auth" | .wait => "wait"

def showECond : ECond → String
  | .featureNotImplemented => "feature-not-implemented" | .serviceUnavailable => "service-unavailable"
  | .badRequest => "bad-request" | .itemNotFound => "item-not-found" | .forbidden => "forbidden"
  | .unexpectedRequest => "unexpected-request" | .notAcceptable => "not-acceptable"
  | .resourceConstraint => "resource-constraint"

def showRep (r : Rep) : String :=
  (match r.kind with
   | .result => "result"
   | .error t c => "error:" ++ showEType t ++ ":" ++ showECond c) ++ "/" ++
  (match r.to with | .sender => "sender" | .none => "none") ++ "/" ++
  (if r.idSame then "same" else "differs") ++ "/" ++ (if r.e2ee then "enc" else "plain")

def showOutcome (o : Outcome) : String :=
  let rs := if o.sent.isEmpty then "-" else ",".intercalate (o.sent.map showRep)
  s!"by={showDecider o.by_} n={replies o} r={rs} disc={if o.disconnect then 1 else 0}" ++
    (if o.other > 0 then s!" x={o.other}" else "")

def stepLine (exts : List Row) (line : String) : List Row × String :=
  match words line with
  | ["reset", l] =>
    if l = "-" then ([], "ok") else
    match (l.splitOn ",").mapM mgrOfName with
    | some ms => (ms.map rowOf, "ok")
    | none => (exts, "bad-op")
  | ["iq", e, ph, t, f, i, k] =>
    match typeOf t, fromOf f, idOf i, kidsOf k with
    | some t, some f, some i, some k =>
      let entry : Option Entry := if e = "s" then some .stream else if e = "e" then some .inject
        else if e = "x" then some .e2ee else none
      let phase : Option Phase := if ph = "S" then some .session else if ph = "N" then some .negotiating else none
      match entry, phase with
      | some entry, some phase => (exts, showOutcome (dispatch exts ⟨t, f, i, k, entry, phase⟩))
      | _, _ => (exts, "bad-op")
    | _, _, _, _ => (exts, "bad-op")
  | _ => (exts, "bad-op")

def main : IO Unit := run ([] : List Row) stepLine
