import Qx.Driver.Proto
import Qx.Model.C03Framing
import Qx.Model.C03Xml
import Qx.Model.C03Check
open Qx.Driver Qx.C03

/-- percent-encoding of an observation field: bytes 0x21..0x7e except `%` and `|` stay -/
def pct (s : String) : String :=
  String.ofList (s.toUTF8.toList.flatMap fun b =>
    if 0x21 ≤ b.toNat ∧ b.toNat ≤ 0x7e ∧ b.toNat ≠ 37 ∧ b.toNat ≠ 124 then [Char.ofNat b.toNat]
    else ['%', hexDigit (b.toNat / 16), hexDigit (b.toNat % 16)])

def showEv : Ev String → String
  | .streamOpen r => "open:" ++ pct r
  | .stanza e => "stanza:" ++ pct e
  | .streamClose => "close"
  | .keepAlive => "ka"

def obs (s : St) (evs : List (Ev String)) : String :=
  let e := if evs.isEmpty then "-" else "|".intercalate (evs.map showEv)
  s!"{e} buf={s.buf.length} tag={s.openTag.length}"

def P : Parser String := Qx.C03.Xml.parse

def textOfHex (h : String) : Option (List Char) :=
  (fromHex h).map fun bs => toChars (Qx.Utf8.decodeLossy bs)

/-- `h<hex>` header, `s<hex>` stanza, `w<hex>` one whitespace character, `c<hex>` closing tag; the events of an item
come from parsing the whole stream at once -/
def buildItems (ws : List String) : Option (List (Item String)) := do
  let raw ← ws.mapM fun w =>
    match w.toList with
    | k :: h => (textOfHex (String.ofList h)).map fun t => (k, t)
    | [] => none
  let whole := raw.flatMap (·.2)
  let doc ← P (wrapOf [] whole)
  let rec go : List (Char × List Char) → List String → Option (List (Item String))
    | [], [] => some []
    | [], _ :: _ => none
    | (k, t) :: rest, kids =>
      if k = 'h' then (go rest kids).map fun l => { text := t, tag := some t, evs := [.streamOpen doc.root] } :: l
      else if k = 'w' then (go rest kids).map fun l => { text := t, ws := true, evs := [] } :: l
      else if k = 'c' then (go rest kids).map fun l => { text := t, evs := [.streamClose] } :: l
      else match kids with
        | e :: kids' => (go rest kids').map fun l => { text := t, evs := [.stanza e] } :: l
        | [] => none
  go raw doc.children

/-- `feedBytes` = `feedBytesCode P` (the code as it is) unless the driver is started with the argument `perchunk`
(the per-read decoding the code used before repo commit 49994ec; for comparing against an old library build) -/
def stepLine (feedBytes : BSt → Qx.Bytes → BSt × List (Ev String)) (s : BSt) (line : String) : BSt × String :=
  match words line with
  | ["reset"] => (binit, "ok")
  | ["connect"] => let r := stepOp P s .connect; (r.1, s!"started buf={r.1.st.buf.length} tag={r.1.st.openTag.length}")
  | ["peerLost"] => let r := stepOp P s .peerLost; (r.1, s!"- buf={r.1.st.buf.length} tag={r.1.st.openTag.length}")
  | ["localDisconnect"] =>
    let r := stepOp P s .localDisconnect; (r.1, s!"- buf={r.1.st.buf.length} tag={r.1.st.openTag.length}")
  | "b" :: rest =>
    match fromHex (String.join rest) with
    | some bs => let r := feedBytes s bs; (r.1, obs r.1.st r.2)
    | none => (s, "bad-op")
  | "t" :: rest =>
    match textOfHex (String.join rest) with
    | some t => let r := feedText P s.st t; ({ s with st := r.1 }, obs r.1 r.2)
    | none => (s, "bad-op")
  | "oracleS" :: t0 :: items =>
    -- one session of a connection with stream restarts; `t0` = the header cached when it starts (`-` = none)
    match (if t0 = "-" then some [] else textOfHex t0), buildItems items with
    | some t, some its => (s, if checkOracleFrom t P its then "ok" else "violated")
    | _, _ => (s, "violated")
  | "oracle" :: items =>
    match buildItems items with
    | some its => (s, if checkOracle P its then "ok" else "violated")
    | none => (s, "violated")
  | _ => (s, "bad-op")

def main (args : List String) : IO Unit :=
  run binit (stepLine (if args.contains "perchunk" then feedBytesPerChunk P else feedBytesCode P))
