import Qx.Driver.Proto
import Qx.Model.C04Ops
/-! C04 driver: one harness op per line (see `Qx/Model/C04Ops.lean`), prints the model's observation. -/
open Qx.C04

def stepLine (s : St) (line : String) : St × String :=
  match Qx.Driver.words line with
  | "reset" :: toks =>
    match parseCfg toks with
    | some c => (init c, "ok")
    | none => (s, "bad-op")
  | toks =>
    match applyOp s toks with
    | some r => (r.1, showObs r)
    | none => (s, "bad-op")

def main : IO Unit := Qx.Driver.run (init {}) stepLine
