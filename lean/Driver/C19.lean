import Qx.Driver.Proto
import Qx.Crypto.Md5
import Qx.Crypto.Base64
import Qx.Model.C19Ibb
open Qx.Driver Qx.C19

/-!
Line protocol of the C19 driver (words separated by single spaces).  The file hash parameter `H` of the model is
instantiated with the executable MD5 of `Qx.Crypto.Md5` (cross-checked against hashlib by tools/crypto_selftest.py).

  reset ibb <bsS> <bsR> <hash 0|1> <size 0|1> <dev> <content>      → ok|R …|S …|P …
      (size = 0: the offer carries no size attribute, as for a sequential source of unknown length)
      bsS / bsR = `ibbBlockSize` of the sending / receiving manager; the offer announces size = |content| and, with
      hash = 1, MD5(content).   content := hex:<hex> | zero:<n> | ff:<n> | pat:<n>
      dev = the receiver's output device: buf (takes everything) | pw:<k> (≤ k bytes per write) |
            full:<m> (holds m bytes, then takes 0) | fail:<m> (a write beyond byte m fails with -1)
  deliver | drop | dup | swap | flip <bit> | eclose | wsid | wsender [<which other JID>]
  inj <sender> <sid> (open <bs> | data <seq> <hex|-> | rawdata <seq> <hex of element text> | close)
  lose | rinj <origin> <back> ok|<condition> | pclose | timeout (the inactivity timers of the jobs in TransferState fire)
  pathrun <bs> <hex of the previous file content|-> <content>   → R <state> <error> <len> <digest> of the FILE ON DISK after the honest transfer
  ssend <scenario>   → final error of the SOCKS5 sending job (`ssendOutcome`)
      → <replies>|R <state> <error> <len> <digest> d<job's byte counter> f<finished signals> e<error signals>
          (len / digest: what the DEVICE holds)
                 |S <state> <error> <bytes read> f<…> e<…>|P <pending request>
        replies := `-` | r,r…   r := [@]ok | [@]e:<condition>     (@ = addressed to a third party)
        digest  := `-` (empty) | hex (≤ 24 bytes) | md5:<hex>
        pending := `-` | open:<bs> | data:<seq>:<len>:<digest> | close
  run <n>     n honest deliveries (stops when nothing is pending) → ok<k>,err<m>|R …|S …|P …

  reset socks <hash 0|1> <size announced 0|1> <dev> hex:<announced content>   → ok|R <state> <error> <len> <digest> d<n> f<n>
  chunk <hex|->  |  disc                                                 → R <state> <error> <len> <digest> d<n> f<n>
-/

def H : List UInt8 → List UInt8 := Qx.Crypto.md5

def patByte (i : Nat) : UInt8 := UInt8.ofNat ((i * 131 + (i / 256) * 17 + 7) % 256)

def parseContent (s : String) : Option (List UInt8) :=
  match s.splitOn ":" with
  | ["hex", h] => fromHex h
  | ["zero", n] => n.toNat?.map fun n => List.replicate n 0
  | ["ff", n] => n.toNat?.map fun n => List.replicate n 255
  | ["pat", n] => n.toNat?.map fun n => (List.range n).map patByte
  | _ => none

def parseDev (s : String) : Option Dev :=
  match s.splitOn ":" with
  | ["buf"] => some .unlimited
  | ["pw", k] => k.toNat?.map Dev.perWrite
  | ["full", m] => m.toNat?.map Dev.fullAfter
  | ["fail", m] => m.toNat?.map Dev.failAt
  | _ => none

def hexOrDash (s : String) : Option (List UInt8) := if s = "-" then some [] else fromHex s

def digest (b : List UInt8) : String :=
  if b.isEmpty then "-" else if b.length ≤ 24 then toHex b else "md5:" ++ toHex (H b)

def showState : JState → String
  | .offer => "offer" | .start => "start" | .transfer => "transfer" | .finished => "finished"

def showErr : JError → String
  | .none => "none" | .abort => "abort" | .access => "access" | .corrupt => "corrupt" | .protocol => "protocol"

def showCond : Cond → String
  | .itemNotFound => "item-not-found" | .unexpectedRequest => "unexpected-request" | .resourceConstraint => "resource-constraint"

def showReply (r : Reply) : String :=
  (if r.to ≠ 0 then "@" else "") ++ (match r.err with | none => "ok" | some c => "e:" ++ showCond c)

def showPending : Option Stanza → String
  | none => "-"
  | some p =>
    match p.kind with
    | .open bs => s!"open:{bs}"
    | .data seq pl => s!"data:{seq.toNat}:{pl.length}:{digest pl}"
    | .close => "close"

structure D where
  st : St
  total : Nat
  socks : Recv

def showR (r : Recv) : String :=
  s!"R {showState r.state} {showErr r.error} {r.acc.length} {digest r.acc} d{r.fed.length} f{r.finishedSignals} e{r.errorSignals}"

def showTail (d : D) : String :=
  let s := d.st.s
  s!"|{showR d.st.r}|S {showState s.state} {showErr s.error} {d.total - s.rest.length} f{s.finishedSignals} e{s.errorSignals}|P {showPending d.st.pending}"

def obs (d : D) (rs : List Reply) : String :=
  (if rs.isEmpty then "-" else ",".intercalate (rs.map showReply)) ++ showTail d

def showSocks (r : Recv) : String :=
  s!"R {showState r.state} {showErr r.error} {r.acc.length} {digest r.acc} d{r.fed.length} f{r.finishedSignals}"

def apply (d : D) (op : Op) : D × String :=
  let x := step H d.st op
  let d' := { d with st := x.1 }
  (d', obs d' x.2)

/-- `n` honest deliveries, iterating the model's `step` (= `run H st (honest n)`, written as a loop) -/
def runLoop : Nat → St → Nat → Nat → St × Nat × Nat
  | 0, st, ok, bad => (st, ok, bad)
  | n + 1, st, ok, bad =>
    match st.pending with
    | none => (st, ok, bad)
    | some _ =>
      let x := step H st .deliver
      let ok' := ok + (x.2.filter fun r => r.err.isNone).length
      let bad' := bad + (x.2.filter fun r => r.err.isSome).length
      runLoop n x.1 ok' bad'

def parseKind : List String → Option Kind
  | ["open", bs] => bs.toNat?.map Kind.open
  | ["data", seq, hx] =>
    match seq.toNat?, hexOrDash hx with
    | some q, some pl => if q < 65536 then some (.data (UInt16.ofNat q) pl) else none
    | _, _ => none
  -- `rawdata <seq> <hex of the text of the <data/> element>`: decoded as QByteArray::fromBase64 does (invalid
  -- characters are skipped, no error)
  | ["rawdata", seq, hx] =>
    match seq.toNat?, hexOrDash hx with
    | some q, some txt => if q < 65536 then some (.data (UInt16.ofNat q) (Qx.Crypto.Base64.decodeLenient txt)) else none
    | _, _ => none
  | ["close"] => some .close
  | _ => none

def parseCond : String → Option (Option Cond)
  | "ok" => some none
  | "item-not-found" => some (some .itemNotFound)
  | "unexpected-request" => some (some .unexpectedRequest)
  | "resource-constraint" => some (some .resourceConstraint)
  | _ => none

def flag (s : String) : Option Bool := if s = "1" then some true else if s = "0" then some false else none

def stepLine (d : D) (line : String) : D × String :=
  match words line with
  | ["reset", "ibb", bsS, bsR, h, sz, dev, content] =>
    match bsS.toNat?, bsR.toNat?, flag h, flag sz, parseDev dev, parseContent content with
    | some bS, some bR, some h, some sz, some dev, some data =>
      let d' : D := { d with st := initDev dev bS bR (if sz then data.length else 0) (if h then some (H data) else none) data,
                             total := data.length }
      (d', "ok" ++ showTail d')
    | _, _, _, _, _, _ => (d, "bad-op")
  | ["reset", "socks", h, sz, dev, content] =>
    match flag h, flag sz, parseDev dev, parseContent content with
    | some h, some sz, some dev, some data =>
      let r := sinitDev dev (if sz then data.length else 0) (if h then some (H data) else none)
      ({ d with socks := r }, "ok|" ++ showSocks r)
    | _, _, _, _ => (d, "bad-op")
  | ["chunk", hx] =>
    match hexOrDash hx with
    | some b => let r := sstep H d.socks (.chunk b); ({ d with socks := r }, showSocks r)
    | none => (d, "bad-op")
  | ["disc"] => let r := sstep H d.socks .disconnect; ({ d with socks := r }, showSocks r)
  | ["deliver"] => apply d .deliver
  -- the same delivery with the base64 text of the element broken up by white space: the code's decoder skips it
  | ["deliverws"] => apply d .deliver
  | ["drop"] => apply d .drop
  | ["dup"] => apply d .dup
  | ["swap"] => apply d .swap
  | ["flip", b] => match b.toNat? with | some b => apply d (.flip b) | none => (d, "bad-op")
  | ["eclose"] => apply d .earlyClose
  | ["wsid"] => apply d .wrongSid
  | ["wsender"] => apply d .wrongSender
  -- the number only selects which JID string the harness uses (another account, another resource of the sender's
  -- account, its bare JID, a case variant, a look-alike domain): for the code and the model each is "not the sender"
  | ["wsender", _] => apply d .wrongSender
  | "inj" :: snd :: sid :: k =>
    match snd.toNat?, sid.toNat?, parseKind k with
    | some a, some b, some k => apply d (.inject a b k)
    | _, _, _ => (d, "bad-op")
  -- SOCKS5 sending side: one line per scenario, the answer is the job's final error
  | ["ssend", sc] =>
    let o : Option JError :=
      match sc with
      | "direct-honest" => some (ssendOutcome .ownConnected 1 1)
      | "direct-early-close" => some (ssendOutcome .ownConnected 1 0)
      | "direct-not-connected" => some (ssendOutcome .ownNotConnected 1 1)
      | "unknown-host-used" => some (ssendOutcome .unknown 1 1)
      | "proxy-honest" => some (ssendOutcome .proxyActivated 1 1)
      | "proxy-activation-refused" => some (ssendOutcome .proxyRefused 1 1)
      | _ => none
    (d, match o with | some e => showErr e | none => "bad-op")
  -- accept(filePath) into a path that already holds <previous>: the whole honest transfer, then what is on disk
  | ["pathrun", bs, prev, content] =>
    match bs.toNat?, hexOrDash prev, parseContent content with
    | some bs, some prev, some data =>
      let st0 := initPath acceptOpenMode prev bs bs data.length (some (H data)) data
      let x := runLoop (data.length + 4) st0 0 0
      let r := x.1.r
      (d, s!"R {showState r.state} {showErr r.error} {r.disk.length} {digest r.disk}")
    | _, _, _ => (d, "bad-op")
  | ["lose"] => apply d .lose
  | ["timeout"] => apply d .timeout
  -- a response IQ reaches the sending client: rinj <origin: 0 = the peer> <back: 0 = id of its last request> ok|<condition>
  | ["rinj", o, b, c] =>
    match o.toNat?, b.toNat?, parseCond c with
    | some o, some b, some c => apply d (.injectReply o b c)
    | _, _, _ => (d, "bad-op")
  | ["pclose"] =>
    let x := step H d.st .peerClose
    let d' := { d with st := x.1 }
    (d', "s:" ++ ",".intercalate (x.2.map fun r => match r.err with | none => "ok" | some c => "e:" ++ showCond c) ++ showTail d')
  | ["run", n] =>
    match n.toNat? with
    | some n =>
      let x := runLoop n d.st 0 0
      let d' := { d with st := x.1 }
      (d', s!"ok{x.2.1},err{x.2.2}" ++ showTail d')
    | none => (d, "bad-op")
  | _ => (d, "bad-op")

def main : IO Unit :=
  run { st := init 0 0 0 none [], total := 0, socks := sinit 0 none } stepLine
