import Qx.Driver.Proto
import Qx.Model.C16Server
open Qx.Driver Qx.C16

/-! Line-protocol stepper for the C16 model.  Connection 0 is the victim (logged in by `reset`), every op
line is an element sent by connection 1 (the attacker) or `deliver i`. -/

/-- the last account is what a registration-open / pass-through checker would accept: a name with '@' and '/' -/
def table : List (String × String) :=
  [("victim", "vpw"), ("mallory", "mpw"), ("eve", "epw"), ("victim@example.org/x", "xpw"),
   -- legal but awkward account names: format place markers, quotes, blanks, non-ASCII, very long
   ("ops.%2", "opw"), ("%1", "p1"), ("100%", "p2"), ("a%%b", "p3"), ("{0}", "p4"), ("back\\slash", "p5"),
   ("q'uo\"te", "p6"), ("sp ace", "p7"), ("jürgen", "p8"), (String.ofList (List.replicate 300 'x'), "p9")]

def lookupPw (u : List Char) : Option (List Char) :=
  (table.find? (fun e => e.1.toList = u)).map (·.2.toList)

/-- digest token of (user, password): `user:password` (stands for MD5(user:domain:password)) -/
def md5tok (u pw : List Char) : List Char := u ++ ':' :: pw

/-- the harness' own table checker (overrides checkPassword and getDigest itself): `tempuser` → temporary
error, unknown user → authorization error -/
def cfgOwn : Cfg :=
  { domain := "example.org".toList
    check := fun u p =>
      if u = "tempuser".toList then .temp
      else match lookupPw u with
        | some pw => if pw = p then .ok else .bad
        | none => .bad
    digestOf := fun u =>
      if u = "tempuser".toList then .temp
      else match lookupPw u with
        | some pw => .digest (md5tok u pw)
        | none => .nouser }

/-- the harness' `getPassword`-only checker: checkPassword/getDigest are the library defaults -/
def getPw (u : List Char) : PwRes :=
  if u = "tempuser".toList then .temp
  else match lookupPw u with
    | some pw => .ok pw
    | none => .nouser

def cfgStock : Cfg := Cfg.ofGetPassword "example.org".toList getPw md5tok

/-- addresses are printed like the harness prints them: bytes outside a small safe set as `~xx` -/
def escByte (b : UInt8) : String :=
  let c := Char.ofNat b.toNat
  if c.isAlphanum ∨ "@./_%{}-".toList.contains c then String.singleton c
  else "~" ++ String.singleton (hexDigit (b.toNat / 16)) ++ String.singleton (hexDigit (b.toNat % 16))

def str (l : List Char) : String :=
  String.join ((String.ofList l).toUTF8.toList.map escByte)

/-- op words: `~XX` = the byte XX (hex), `~LONG` = 300 times 'x' -/
def decBytes : List Char → List UInt8
  | '~' :: 'L' :: 'O' :: 'N' :: 'G' :: rest => List.replicate 300 (120 : UInt8) ++ decBytes rest
  | '~' :: a :: b :: rest =>
    match hexVal a, hexVal b with
    | some x, some y => UInt8.ofNat (x * 16 + y) :: decBytes rest
    | _, _ => (String.singleton '~').toUTF8.toList ++ decBytes (a :: b :: rest)
  | c :: rest => (String.singleton c).toUTF8.toList ++ decBytes rest
  | [] => []
termination_by l => l.length

def dec (w : String) : List Char :=
  match String.fromUTF8? (ByteArray.mk (decBytes w.toList).toArray) with
  | some s => s.toList
  | none => w.toList

def parsePayload (w : String) : Option Payload :=
  if w = "-" ∨ w = "x" then some .empty
  else if w = "m" then some .junk
  else match w.splitOn ":" with
    | ["c", u, p] => some (.creds (dec u) (dec p))
    -- `authzid\0authcid\0password`: the authorization identity is not looked at
    | ["z", _, u, p] => some (.creds (dec u) (dec p))
    -- a DIGEST-MD5 response that also carries authzid="victim@example.org": not looked at either
    | ["a", claimed, su, sp] => some (.dresp (dec claimed) (md5tok (dec su) (dec sp)) true)
    | ["d", claimed, su, sp, q] => some (.dresp (dec claimed) (md5tok (dec su) (dec sp)) (q = "a"))
    -- a recorded response replayed verbatim: computed over a stale nonce, so it is computed from no digest at all
    | ["r", claimed, _, _] => some (.dresp (dec claimed) "!stale-nonce".toList true)
    | _ => none

def optStr (w : String) : List Char := if w = "-" then [] else dec w

/-- a `from` / `to` word: "-" = attribute absent, `""` = present and empty -/
def optAttr (w : String) : Option (List Char) :=
  if w = "-" then none else if w = "\"\"" then some [] else some (dec w)

def parseIq : String → Option IqType
  | "get" => some .get | "set" => some .set | "result" => some .result | "error" => some .error | _ => none

def parseEv : List String → Option Ev
  | ["open", d] => some (.openStream d.toList)
  | ["auth1", m, p] => (parsePayload p).map fun p => .auth false m.toList p false
  | ["auth2", m, p, b] => (parsePayload p).map fun p => .auth true m.toList p (b ≠ "-")
  | ["resp1", p] => (parsePayload p).map fun p => .response false p
  | ["resp2", p] => (parsePayload p).map fun p => .response true p
  | ["abort1"] => some (.abort false)
  | ["abort2"] => some (.abort true)
  | ["bind", r] => some (.bind (optStr r))
  | ["session"] => some .session
  | ["msg", f, t] => some (.stanza { kind := .message, sender := optAttr f, to := optAttr t })
  | ["pres", ty, f, t] => some (.stanza { kind := .presence (optStr ty), sender := optAttr f, to := optAttr t })
  | ["iq", ty, f, t] => (parseIq ty).map fun ty => .stanza { kind := .iq ty, sender := optAttr f, to := optAttr t, id := "q1".toList }
  | ["close"] => some .closeStream
  | ["deliver", i] => i.toNat?.map .deliver
  | _ => none

def showCond : Cond → String
  | .none => "-" | .invalidMechanism => "invalid-mechanism" | .notAuthorized => "not-authorized"
  | .temporaryAuthFailure => "temporary-auth-failure" | .aborted => "aborted" | .hostUnknown => "host-unknown"
  | .conflict => "conflict" | .streamNotAuthorized => "not-authorized"
  | .featureNotImplemented => "feature-not-implemented" | .serviceUnavailable => "service-unavailable"

def showChal : Chal → String
  | .empty => "-" | .nonce => "n" | .rspauth => "r"

def showIq : IqType → String
  | .get => "get" | .set => "set" | .result => "result" | .error => "error"

def showStanza (st : Stanza) : String :=
  match st.kind with
  | .message => s!"message({str st.sender},{str st.to})"
  | .presence t => s!"presence({str t},{str st.sender},{str st.to})"
  | .iq t => s!"iq({showIq t},{str st.id},{str st.sender},{str st.to},{if t = .error then "err=-" else "query"})"

def showRouted (st : Stanza) : String :=
  let tag := match st.kind with | .message => "message" | .presence _ => "presence" | .iq _ => "iq"
  s!"{tag}({str st.sender},{str st.to})"

def showElem : Elem → String
  | .hdr => "hdr"
  | .features b s m a =>
    let l := (if b then ["b"] else []) ++ (if s then ["s"] else []) ++ (if m then ["m"] else []) ++
      (match a with | some true => ["a+"] | some false => ["a"] | none => [])
    "feat(" ++ ",".intercalate l ++ ")"
  | .chal v2 c => s!"chal{if v2 then 2 else 1}({showChal c})"
  | .success1 => "succ1"
  | .success2 j b => s!"succ2({str j}{if b then ",bound" else ""})"
  | .failure v2 c => s!"fail{if v2 then 2 else 1}({showCond c})"
  | .streamError c => s!"err({showCond c})"
  | .streamEnd => "end"
  | .bindResult j => s!"iq(result,b1,,,bind={str j})"
  | .sessionResult t => s!"iq(result,s1,,{str t},-)"
  | .stanza st => showStanza st
  | .iqError id f t c => s!"iq(error,{str id},{str f},{str t},err={showCond c})"

def toSocket (c : Nat) : Out → Option String
  | .send d e => if d = c then some (showElem e) else none
  | .deliver _ d st => if d = c then some (showStanza st) else none
  | .reply _ d e => if d = c then some (showElem e) else none
  | _ => none

def joinOrDash (l : List String) : String := if l.isEmpty then "-" else ";".intercalate l

def showJid (x : Conn) : String := if x.closed ∨ x.jid = [] then "-" else str x.jid
def openFlag (x : Conn) : String := if x.closed then "0" else "1"

/-- observation of a step performed by connection `c` (1 or 2 = attackers, 0 = victim) -/
def obs (s : Server) (c : Nat) (outs : List Out) : String :=
  if outs.any (fun o => match o with | .ub _ => true | _ => false) then "ub" else
  let a := outs.filterMap (toSocket 1)
  let b := outs.filterMap (toSocket 2)
  let v := outs.filterMap (toSocket 0)
  let r := outs.filterMap fun o => match o with | .routed c' st => if c' = c then some (showRouted st) else none | _ => none
  let sg := outs.filterMap fun o => match o with
    | .connected _ j => some s!"conn({str j})" | .disconnected _ j => some s!"disc({str j})" | _ => none
  let au := outs.filterMap fun o => match o with | .authed c' j => if c' = c then some s!"auth({str j})" else none | _ => none
  s!"A={joinOrDash a} B={joinOrDash b} V={joinOrDash v} R={joinOrDash r} S={joinOrDash sg} U={joinOrDash au} J={showJid (s.conns 1)} K={showJid (s.conns 2)} a={openFlag (s.conns 1)} b={openFlag (s.conns 2)} v={openFlag (s.conns 0)}"

/-- the victim's login, as the harness performs it on connection 0 -/
def victimLogin : List (Nat × Ev) :=
  [(0, .openStream "example.org".toList),
   (0, .auth false "PLAIN".toList (.creds "victim".toList "vpw".toList) false),
   (0, .deliver 0),   -- (with the stock checker this is the next event-loop turn)
   (0, .bind "v".toList),
   (0, .stanza { kind := .presence [] })]

structure DS where
  stock : Bool := false
  s : Server

def cfgOf (stock : Bool) : Cfg := if stock then cfgStock else cfgOwn

/-- with the stock checker every reply finishes on the next event-loop turn, i.e. before the next element -/
def deliverAll (cfg : Cfg) (c : Nat) : Nat → Server → List Out → Server × List Out
  | 0, s, acc => (s, acc)
  | n + 1, s, acc =>
    if (s.conns c).pending.isEmpty then (s, acc)
    else let r := step cfg s (c, .deliver 0); deliverAll cfg c n r.1 (acc ++ r.2)

def startOf (stock : Bool) : DS := { stock := stock, s := (run (cfgOf stock) init victimLogin).1 }

/-- split a word list at the "+" tokens -/
def splitPlus (ws : List String) : List (List String) :=
  let r := ws.foldl (fun (acc : List (List String) × List String) w =>
    if w = "+" then (acc.1 ++ [acc.2], []) else (acc.1, acc.2 ++ [w])) ([], [])
  r.1 ++ [r.2]

def runEvs (cfg : Cfg) (c : Nat) : List Ev → Server → List Out → Server × List Out
  | [], s, acc => (s, acc)
  | ev :: evs, s, acc => let r := step cfg s (c, ev); runEvs cfg c evs r.1 (acc ++ r.2)

/-- op lines: `reset` / `reset stock`, otherwise `<connection> <element…>` with connection 1 or 2;
`<connection> e1 + e2 + …` = several elements in one TCP write (one read on the server side) -/
def stepLine (d : DS) (line : String) : DS × String :=
  match words line with
  | ["reset"] => (startOf false, "ok")
  | ["reset", "stock"] => (startOf true, "ok")
  | cw :: ws =>
    match cw.toNat?, (splitPlus ws).mapM parseEv with
    | some c, some (ev :: more) =>
      if c = 1 ∨ c = 2 then
        let cfg := cfgOf d.stock
        let r := runEvs cfg c (ev :: more.map .sameRead) d.s []
        let r2 := if d.stock then deliverAll cfg c 8 r.1 r.2 else r
        ({ d with s := r2.1 }, obs r2.1 c r2.2)
      else (d, "bad-op")
    | _, _ => (d, "bad-op")
  | [] => (d, "bad-op")

def main : IO Unit := Qx.Driver.run (startOf false) stepLine
