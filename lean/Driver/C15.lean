import Qx.Driver.Proto
import Qx.Model.C15Ice
open Qx.Driver Qx.C15

/-
Op lines (space separated):
  reset ctl=<0|1> comp=<n> stun=<number of STUN servers configured before bind>
  close | rpass2      (close(); setRemotePassword with a NEW password)
  creds | ruser | rpass
  rtx <tx>            (the retransmission timer of that transaction fires once)
  addr <addr> <prio>
  connect
  tick
  timeout <tx>
  send <hex|->
  dg <src> app <hex|->
  dg <src> <req|ind|rsp|err> <b|o> <txid> <layout> <uc 0|1> <role n|g|d> <prio> <user> [m<addr>]
     txid 500+k = the k-th STUN-server discovery transaction; m<addr> = XOR-MAPPED-ADDRESS of a response (address id)
     <layout> = "-" (no integrity-relevant attribute) or tokens joined by "+", in wire order:
        loc rem bad trunc   a MESSAGE-INTEGRITY attribute (valid under the local / remote password, wrong key, length != 20)
        old                 … valid under the remote password that `rpass2` has replaced
        fp fpbad            a FINGERPRINT attribute with a right / wrong CRC
        u                   some other attribute (unknown comprehension-optional)
        sw                  an attribute whose length field runs past the end of the datagram (it swallows whatever follows)
        uc  pr<N>           a USE-CANDIDATE / PRIORITY(N) attribute at this position (in front of or behind MESSAGE-INTEGRITY)
Observation: a=… w=… r=… c=… p=… s=… k=… C=… d=… t=…
-/

def kv (w : String) (key : String) : Option Nat :=
  match w.splitOn "=" with
  | [k, v] => if k = key then v.toNat? else none
  | _ => none

def parseHex (s : String) : Option (List UInt8) := if s = "-" then some [] else fromHex s
def showHex (b : List UInt8) : String := if b.isEmpty then "-" else toHex b

def parseCls : String → Option Cls
  | "req" => some .request | "ind" => some .indication | "rsp" => some .response | "err" => some .error | _ => none
def parseMethod : String → Option Method
  | "b" => some .binding | "o" => some .other | _ => none
def parseAttr : String → Option Attr
  | "loc" => some (.mi .validLocal) | "rem" => some (.mi .validRemote) | "bad" => some (.mi .wrongKey)
  | "trunc" => some (.mi .truncated) | "fp" => some (.fingerprint true) | "fpbad" => some (.fingerprint false)
  | "old" => some (.mi .validOldRemote) | "u" => some .other | "sw" => some .overrun | "uc" => some .useCandidate
  | t => if t.startsWith "pr" then (t.drop 2).toString.toNat?.map Attr.priority else none

/-- the attribute list in wire order -/
def parseLayout (s : String) : Option (List Attr) :=
  if s = "-" then some [] else
  (s.splitOn "+").mapM parseAttr

def parseRole : String → Option RoleAttr
  | "n" => some .none | "g" => some .controlling | "d" => some .controlled | _ => none
def parseBool : String → Option Bool
  | "0" => some false | "1" => some true | _ => none

def stateName : PState → String
  | .frozen => "frozen" | .waiting => "waiting" | .inProgress => "in-progress" | .succeeded => "succeeded" | .failed => "failed"

def joinOr (l : List String) : String := if l.isEmpty then "-" else ",".intercalate l

def obs (s : St) (outs : List Out) : String :=
  let acc := if outs.any (· == .accepted) then "1" else "0"
  let w := joinOr (outs.filterMap fun | .warnBadMi => some "mi" | .warnNoMi => some "nomi" | .warnBadFp => some "fp" | .warnTruncAttr => some "ta" | .warnMissingMi => some "nomi2" | .warnNoReflexive => some "noref" | .roleConflict => some "rc" | _ => none)
  let r := joinOr (outs.filterMap fun | .bindingResponse to t => some s!"{to}:{t}" | _ => none)
  let c := joinOr (outs.filterMap fun | .checkSent to t uc => some s!"{to}:{t}:{if uc then 1 else 0}" | _ => none)
  let p := joinOr (outs.filterMap fun | .pairState a st => some s!"{a}:{stateName st}" | _ => none)
  let sel := joinOr (outs.filterMap fun | .selected a pr => some s!"{a}:{pr}" | _ => none)
  let k := (outs.filter (· == .connectedSig)).length
  let d := joinOr (outs.filterMap fun | .appData b => some (showHex b) | _ => none)
  let t := joinOr (outs.filterMap fun | .appSent to b => some s!"{to}:{showHex b}" | .appNoRoute => some "noroute" | _ => none)
  let l := joinOr (outs.filterMap fun | .localCandidate a => some s!"{a}" | _ => none)
  let g := if outs.any (· == .gatheringComplete) then 1 else 0
  s!"a={acc} w={w} r={r} c={c} p={p} s={sel} k={k} C={if s.connected then 1 else 0} d={d} t={t} l={l} g={g}"

def doStep (s : St) (op : Op) : St × String :=
  let r := step s op
  (r.1, obs r.1 r.2)

def stepLine (s : St) (line : String) : St × String :=
  match words line with
  | ["reset", c, k, n] =>
    match kv c "ctl", kv k "comp", kv n "stun" with
    | some c, some k, some n => (init (c != 0) k n, "ok")
    | _, _, _ => (s, "bad-op")
  | ["close"] => doStep s .close
  | ["rpass2"] => doStep s .setRemotePassword
  | ["creds"] => doStep s .setRemoteCreds
  | ["ruser"] => doStep s .setRemoteUser
  | ["rpass"] => doStep s .setRemotePassword
  | ["rtx", t] =>
    match t.toNat? with
    | some t => doStep s (.retransmit t)
    | none => (s, "bad-op")
  | ["addr", a, p] =>
    match a.toNat?, p.toNat? with
    | some a, some p => doStep s (.addRemote a p)
    | _, _ => (s, "bad-op")
  | ["connect"] => doStep s .connect
  | ["tick"] => doStep s .tick
  | ["timeout", t] =>
    match t.toNat? with
    | some t => doStep s (.txTimeout t)
    | none => (s, "bad-op")
  | ["send", h] =>
    match parseHex h with
    | some b => doStep s (.sendApp b)
    | none => (s, "bad-op")
  | ["dg", src, "app", h] =>
    match src.toNat?, parseHex h with
    | some src, some b =>
      -- raw bytes: the model's own demultiplexing rule decides; the harness never sends bytes that ARE a STUN message this way
      if isStun b then (s, "stun-shaped-payload-not-supported-as-app-op")
      else let r := receive (fun _ => { cls := .indication, txid := 0, attrs := [] }) s src b; (r.1, obs r.1 r.2)
    | _, _ => (s, "bad-op")
  | "dg" :: src :: cls :: meth :: tx :: mi :: uc :: role :: prio :: user :: rest =>
    let mapped : Option (Option Nat) := match rest with
      | [] => some none
      | [t] => if t.startsWith "m" then (t.drop 1).toString.toNat?.map some else none
      | _ => none
    match src.toNat?, parseCls cls, parseMethod meth, tx.toNat?, parseLayout mi, parseBool uc, parseRole role, prio.toNat?, user.toNat?, mapped with
    | some src, some cls, some meth, some tx, some mi, some uc, some role, some prio, some user, some mapped =>
      let m : Stun := { cls := cls, method := meth, txid := tx, attrs := mi, useCandidate := uc, roleAttr := role,
                        priority := prio, username := user, mapped := mapped }
      doStep s (.dgram { src := src, kind := .stun m })
    | _, _, _, _, _, _, _, _, _, _ => (s, "bad-op")
  | _ => (s, "bad-op")

def main : IO Unit := run (init false) stepLine
