import Qx.Driver.Proto
import Qx.Model.C17Sce
import Qx.Generated.SceTable
open Qx.Driver Qx.C17

/-
Line protocol of the C17 model driver (table = the generated one):
  reset <spec>          spec = `-` | item(;item)*   item = row | row*N | row=tag1,tag2   -> `ok` | `unknown-field <row>`
                        (row `extensions` = application-supplied unknown extensions: elements `app-ext{verif:app}`)
  w pub|sens|all        children of toXml(mode)                                          -> `tag{ns} …` | `-`
  w content             children of serializeExtensions(SceSensitive, "jabber:client")
  p <part> <mode>       parse(toXml(part), mode) into a fresh message                    -> `fields | unknown`
  r real                parse(toXml(pub), pub) then parseExtensions(content, sens)       -> `fields | unknown`
  r toxml               parse(toXml(pub), pub) then parse(toXml(sens), sens)             -> `fields | unknown`
  h cycle               history: msg := parse(toXml(msg, SceAll), SceAll) into a fresh object      -> `fields | unknown`
  h resplit             history: msg := the object of the receive path (parse public, parseExtensions content)
  h orig                back to the message built by `reset`                                      -> `ok`
  c send                children handed to the stream by QXmppClient::sendSensitive = toXml(sendPathMode)
  c recv                client receive path: parse(wire, receiveOuterMode); e2ee extension clears the fallback markers and
                        runs parseExtensions(content(envelopeContentMode), receiveContentMode)    -> `fields | unknown`
  c recvinj tag{ns} …   the same with extra plaintext elements appended to the wire stanza
  wf                    offending rows of the generated table (for the check's report)
-/

def T : Table := Qx.Generated.SceTable.table

structure DSt where
  msg : Msg
  orig : Msg := msg        -- the message as built by `reset` (histories replace `msg`)
  deriving Inhabited

def rowOf (name : String) : Option Row := T.rows.find? fun r => r.name == name

def mkElems (r : Row) (tags : List String) : List Elem :=
  (List.range tags.length).zip tags |>.map fun (i, t) =>
    { tag := t, ns := if r.catchAll then "verif:app" else r.nss.headD "", val := s!"{r.name}#{i}" }

/-- one item of a reset spec -/
def parseItem (item : String) : Except String (Row × List String) :=
  let (name, tags?) : String × Option (List String) :=
    match item.splitOn "=" with
    | [n, ts] => (n, some (ts.splitOn ","))
    | _ => (item, none)
  let (name, count) : String × Nat :=
    match name.splitOn "*" with
    | [n, c] => (n, c.toNat?.getD 1)
    | _ => (name, 1)
  match rowOf name with
  | none => .error name
  | some r =>
    match tags? with
    | some ts => .ok (r, ts)
    | none => .ok (r, List.replicate count (if r.catchAll then "app-ext" else r.tags.headD "?"))

def parseSpec (spec : String) : Except String Msg :=
  if spec == "-" then .ok Msg.empty else
  (spec.splitOn ";").foldlM (init := Msg.empty) fun m item => do
    let (r, tags) ← parseItem item
    pure (m.set r.name (mkElems r tags))

def showInv (es : List Elem) : String :=
  if es.isEmpty then "-" else " ".intercalate (es.map fun e => s!"{e.tag}\{{e.ns}}")

def showField (r : Row) (es : List Elem) : String :=
  match r.name.splitOn ":" with
  | [p, _] => s!"{p}=set"
  | _ => s!"{r.name}={",".intercalate (es.map (·.tag))}"

def showFields (m : Msg) : String :=
  let fs := T.rows.filterMap fun r => if (m r.name).isEmpty then none else some (showField r (m r.name))
  let fs := fs.mergeSort (fun a b => decide (a ≤ b))
  if fs.isEmpty then "-" else " ".intercalate fs

def showPSt (s : PSt) : String := s!"{showFields s.msg} | {showInv s.unknown}"

def modeOf : String → Option Mode
  | "pub" => some .pub
  | "sens" => some .sens
  | "all" => some .all
  | _ => none

def content (m : Msg) : List Elem := writeExt T (rebase T "jabber:client" m) .sens

/-- `tag{ns}` -/
def parseElem (w : String) : Elem :=
  match w.splitOn "{" with
  | [t, r] => { tag := t, ns := (r.dropEnd 1).toString, val := "injected" }
  | _ => { tag := w, ns := "", val := "injected" }

open Qx.Generated.SceTable in
/-- the receive path through the client, with the modes the translator read off QXmppClient.cpp / QXmppOmemoManager_p.cpp -/
def clientReceive (m : Msg) (extra : List Elem) : PSt :=
  let wire := writeMode T m sendPathMode ++ extra
  let s1 := parseMode T wire receiveOuterMode true Msg.empty
  let cont := writeExt T (rebase T "jabber:client" m) envelopeContentMode
  parseMode T cont receiveContentMode false (s1.msg.set "fallbackMarkers" [])

def stepLine (s : DSt) (line : String) : DSt × String :=
  match words line with
  | ["reset", spec] =>
    match parseSpec spec with
    | .ok m => ({ msg := m, orig := m }, "ok")
    | .error n => (s, s!"unknown-field {n}")
  | ["w", "content"] => (s, showInv (content s.msg))
  | ["w", md] =>
    match modeOf md with
    | some md => (s, showInv (writeMode T s.msg md))
    | none => (s, "bad-op")
  | ["p", part, md] =>
    match modeOf part, modeOf md with
    | some part, some md => (s, showPSt (parseMode T (writeMode T s.msg part) md true Msg.empty))
    | _, _ => (s, "bad-op")
  | ["r", "real"] =>
    let s1 := parseMode T (writeMode T s.msg .pub) .pub true Msg.empty
    (s, showPSt (parseMode T (content s.msg) .sens false s1.msg))
  | ["r", "toxml"] => (s, showPSt (recoverToXml T s.msg))
  -- histories: the current message is replaced by the object a parse produced
  | ["h", "cycle"] =>
    let ps := parseMode T (writeMode T s.msg .all) .all true Msg.empty
    ({ s with msg := ofPSt T ps }, showPSt ps)
  | ["h", "resplit"] =>
    let s1 := parseMode T (writeMode T s.msg .pub) .pub true Msg.empty
    let ps := parseMode T (content s.msg) .sens false s1.msg
    ({ s with msg := ofPSt T ps }, showPSt ps)
  | ["h", "orig"] => ({ s with msg := s.orig }, "ok")
  | ["c", "send"] => (s, showInv (writeMode T s.msg Qx.Generated.SceTable.sendPathMode))
  | ["c", "recv"] => (s, showPSt (clientReceive s.msg []))
  | "c" :: "recvinj" :: es => (s, showPSt (clientReceive s.msg (es.map parseElem)))
  | ["wf"] =>
    (s, s!"write={offendingWrite T} parse={offendingParse T} clash={offendingClash T} toxml={offendingToXml T} spec={specDisagreements T.rows} unknown-to-spec={specUnknown T.rows} rows={T.rows.length}")
  | _ => (s, "bad-op")

def main : IO Unit := run ({ msg := Msg.empty } : DSt) stepLine
