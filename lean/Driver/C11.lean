import Qx.Driver.Proto
import Qx.Model.C11Carbons
open Qx.Driver Qx.C11

/-!
Line protocol of the C11 driver (tokens separated by single spaces; every string is written as `=` followed
by its UTF-8 bytes percent-encoded, an absent attribute as `-`):

  reset (v1|v2) <own>                                           → ok     (new client + manager)
  config <own>                                                  → ok     (the SAME client is reconfigured: account switch)
  jid <full jid>                                                → own=<bare>   (the own full JID becomes this: server-bound at
                                                                  login, or QXmppConfiguration::setJid; the implementation side
                                                                  prints configuration().jidBare(), the model `bareOf jid`)
  msg <tag> <id?> <from?> <to?> <type?> <junk 0|1> <n> child{n} → h=<0|1> w=<0|1> <events>
    child := c <tag> <ns> <text> <n> fwd{n}
    fwd   := f <tag> <ns> <n> inner{n}
    inner := m <tag> <ns> <id?> <from?> <to?> <type?> <body?> <nested 0|1> <extras mask>
  events := `-` | ev;ev…   ev := (H|R|S|V)|id|from|to|body|type|<fwd 0|1>
    H = message handler, R = QXmppClient::messageReceived, S/V = V1 messageSent / messageReceived

`junk` (text and comment nodes between the children), `nested` and `extras` (further payload inside an inner element)
are parsed and ignored: the modelled code only walks
element children.
-/

def safeByte (b : UInt8) : Bool :=
  (48 ≤ b && b ≤ 57) || (65 ≤ b && b ≤ 90) || (97 ≤ b && b ≤ 122) ||
  b == 46 || b == 95 || b == 64 || b == 47 || b == 45 || b == 58

def hexUp (n : Nat) : Char :=
  if n < 10 then Char.ofNat (48 + n) else Char.ofNat (55 + n)

def pctEncode (s : String) : String :=
  String.ofList (s.toUTF8.toList.flatMap fun b =>
    if safeByte b then [Char.ofNat b.toNat] else ['%', hexUp (b.toNat / 16), hexUp (b.toNat % 16)])

def pctDecodeBytes : List Char → List UInt8 → Option (List UInt8)
  | [], acc => some acc.reverse
  | '%' :: a :: b :: rest, acc =>
    match hexVal a, hexVal b with
    | some x, some y => pctDecodeBytes rest (UInt8.ofNat (x * 16 + y) :: acc)
    | _, _ => none
  | '%' :: _, _ => none
  | c :: rest, acc => if c.toNat < 128 then pctDecodeBytes rest (UInt8.ofNat c.toNat :: acc) else none

def pctDecode (s : String) : Option String :=
  match pctDecodeBytes s.toList [] with
  | some bs => String.fromUTF8? (ByteArray.mk bs.toArray)
  | none => none

/-- `=enc` → string -/
def reqStr (t : String) : Option String :=
  match t.toList with
  | '=' :: r => pctDecode (String.ofList r)
  | _ => none

/-- `-` → absent, `=enc` → present -/
def optStr (t : String) : Option (Option String) :=
  if t = "-" then some none else (reqStr t).map some

def flag (t : String) : Option Bool :=
  if t = "1" then some true else if t = "0" then some false else none

abbrev P (α : Type) := List String → Option (α × List String)

def many {α : Type} (p : P α) : Nat → P (List α)
  | 0, ts => some ([], ts)
  | n + 1, ts =>
    match p ts with
    | none => none
    | some (a, ts) =>
      match many p n ts with
      | none => none
      | some (as, ts) => some (a :: as, ts)

def pInner : P MsgNode
  | "m" :: tag :: ns :: i :: f :: t :: ty :: b :: n :: x :: rest =>
    match reqStr tag, reqStr ns, optStr i, optStr f, optStr t, optStr ty, optStr b, flag n, x.toNat? with
    | some tag, some ns, some i, some f, some t, some ty, some b, some n, some x =>
      some ({ tag := tag, ns := ns, id := i, sender := f, to := t, body := b, typ := ty, nested := n, extras := x }, rest)
    | _, _, _, _, _, _, _, _, _ => none
  | _ => none

def pFwd : P FwdNode
  | "f" :: tag :: ns :: n :: rest =>
    match reqStr tag, reqStr ns, n.toNat? with
    | some tag, some ns, some n =>
      match many pInner n rest with
      | some (ks, rest) => some ({ tag := tag, ns := ns, kids := ks }, rest)
      | none => none
    | _, _, _ => none
  | _ => none

def pChild : P Child
  | "c" :: tag :: ns :: text :: n :: rest =>
    match reqStr tag, reqStr ns, reqStr text, n.toNat? with
    | some tag, some ns, some text, some n =>
      match many pFwd n rest with
      | some (ks, rest) => some ({ tag := tag, ns := ns, text := text, kids := ks }, rest)
      | none => none
    | _, _, _, _ => none
  | _ => none

def pOuter : List String → Option Outer
  | tag :: i :: f :: t :: ty :: junk :: n :: rest =>
    match reqStr tag, optStr i, optStr f, optStr t, optStr ty, flag junk, n.toNat? with
    | some tag, some i, some f, some t, some ty, some _, some n =>
      match many pChild n rest with
      | some (ks, []) => some { tag := tag, id := i, sender := f, to := t, typ := ty, kids := ks }
      | _ => none
    | _, _, _, _, _, _, _ => none
  | _ => none

def showMsg (k : String) (m : Msg) : String :=
  s!"{k}|{pctEncode m.id}|{pctEncode m.sender}|{pctEncode m.to}|{pctEncode m.body}|{pctEncode m.type}|{if m.carbonForwarded then 1 else 0}"

def showEv : Ev → String
  | .handler m => showMsg "H" m
  | .clientReceived m => showMsg "R" m
  | .v1Sent m => showMsg "S" m
  | .v1Received m => showMsg "V" m

def showRes (r : Res) : String :=
  let e := if r.events.isEmpty then "-" else ";".intercalate (r.events.map showEv)
  s!"h={if r.consumed then 1 else 0} w={if r.warned then 1 else 0} {e}"

def stepLine (s : St) (line : String) : St × String :=
  let l := if line.endsWith "\n" then (line.dropEnd 1).toString else line
  match l.splitOn " " with
  | ["reset", g, own] =>
    match reqStr own with
    | some own =>
      if g = "v1" then ((step s (.configure .v1 own)).1, "ok")
      else if g = "v2" then ((step s (.configure .v2 own)).1, "ok")
      else (s, "bad-op")
    | none => (s, "bad-op")
  | ["config", own] =>
    match reqStr own with
    | some own => ((step s (.configure s.gen own)).1, "ok")
    | none => (s, "bad-op")
  | ["jid", j] =>
    match reqStr j with
    | some j => let r := step s (.bound j); (r.1, s!"own={pctEncode r.1.own}")
    | none => (s, "bad-op")
  | "msg" :: rest =>
    match pOuter rest with
    | some o =>
      let r := step s (.stanza o)
      (r.1, " ".intercalate (r.2.map showRes))
    | none => (s, "bad-op")
  | _ => (s, "bad-op")

def main : IO Unit := run init stepLine
