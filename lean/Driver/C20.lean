import Qx.Driver.Proto
import Qx.Model.C20Caps
open Qx.Driver Qx.C20

/-!
Line protocol of the C20 driver (tokens separated by single spaces; every string is the lower-case hex of its
UTF-8 bytes, the empty string is `-`):

  reset                                   → ok
  ver  <info>                             → base64(SHA-1(UTF-8(verStringCode info)))      (the C++)
  spec <info>                             → base64(SHA-1(UTF-8(verStringSpec info)))      (XEP-0115 §5.1)
  str  <info>                             → hex of UTF-8(verStringCode info)              (debugging aid)
  caps <node> <querynode> <cat> <type> <name> B<n> feat{n} E<k> ext{k} <form>
                                          → <advertised ver>|<XEP hash of the answered info set as read from the wire, or not-found>
  config <node> <cat> <type> <name> B<n> feat{n} E<k> ext{k} <form>     (stateful: the configuration from now on) → ok
  publish (fresh|derived)                 setClientPresence on a connected client → caps of the emitted presence
  connect (fresh|derived)                 connectToServer: recompute + store, nothing sent → -
  emit (session|disconnect|muc)           a site sending the stored presence → caps of the emitted presence
                                          caps := <hex node>|<ver>  or  no-caps (empty capabilities node)
  query <node>                            → XEP hash of the answered info set as read from the wire, or not-found
  info := I<n> (cat type lang name){n} F<m> feat{m} <form>
  form := X- | X<k> (key kind <c> value{c}){k}         kind := t (QString; count 0 = null string) | l (QStringList) | b (bool: 31 / 30)
  ext  := F<m> feat{m} I<n> (cat type lang name){n}
-/

abbrev P (α : Type) := List String → Option (α × List String)

def pStr : P Str
  | [] => none
  | t :: rest =>
    if t = "-" then some ([], rest) else
    match fromHex t with
    | none => none
    | some bs =>
      match Qx.Utf8.decode? bs with
      | none => none
      | some cs => some (cs.map Char.ofNat, rest)

/-- `<tag><n>` e.g. `I3` -/
def pCount (tag : Char) : P Nat
  | [] => none
  | t :: rest =>
    match t.toList with
    | c :: ds => if c = tag then (String.ofList ds).toNat?.map (·, rest) else none
    | [] => none

def pMany {α : Type} (p : P α) : Nat → P (List α)
  | 0, ts => some ([], ts)
  | n + 1, ts =>
    match p ts with
    | none => none
    | some (a, ts) =>
      match pMany p n ts with
      | none => none
      | some (as, ts) => some (a :: as, ts)

def pIdentity : P Identity := fun ts =>
  match pStr ts with
  | none => none
  | some (c, ts) =>
  match pStr ts with
  | none => none
  | some (t, ts) =>
  match pStr ts with
  | none => none
  | some (l, ts) =>
  match pStr ts with
  | none => none
  | some (n, ts) => some ({ category := c, type := t, lang := l, name := n }, ts)

def pField : P Field := fun ts =>
  match pStr ts with
  | none => none
  | some (key, ts) =>
    match ts with
    | kind :: cnt :: ts =>
      match cnt.toNat? with
      | none => none
      | some c =>
        match pMany pStr c ts with
        | none => none
        | some (vs, ts) =>
          if kind = "t" then
            match vs with
            | [v] => some ({ key := key, value := .text v }, ts)
            | [] => some ({ key := key, value := .null }, ts)
            | _ => none
          else if kind = "l" then some ({ key := key, value := .list vs }, ts)
          else if kind = "b" then
            match vs with
            | [v] => some ({ key := key, value := .bool (v = ['1']) }, ts)
            | _ => none
          else none
    | _ => none

def pForm : P (Option (List Field))
  | [] => none
  | t :: rest =>
    if t = "X-" then some (none, rest) else
    match pCount 'X' (t :: rest) with
    | none => none
    | some (k, ts) => (pMany pField k ts).map fun r => (some r.1, r.2)

def pIds : P (List Identity) := fun ts =>
  match pCount 'I' ts with
  | none => none
  | some (n, ts) => pMany pIdentity n ts

def pFeats (tag : Char) : P (List Str) := fun ts =>
  match pCount tag ts with
  | none => none
  | some (n, ts) => pMany pStr n ts

def pInfo : P Info := fun ts =>
  match pIds ts with
  | none => none
  | some (ids, ts) =>
  match pFeats 'F' ts with
  | none => none
  | some (fs, ts) =>
  match pForm ts with
  | none => none
  | some (form, ts) => some ({ ids := ids, feats := fs, form := form }, ts)

def pExt : P (List Str × List Identity) := fun ts =>
  match pFeats 'F' ts with
  | none => none
  | some (fs, ts) =>
  match pIds ts with
  | none => none
  | some (ids, ts) => some ((fs, ids), ts)

def pCfg (node : Str) : P ClientCfg := fun ts =>
  match pStr ts with
  | none => none
  | some (cat, ts) =>
  match pStr ts with
  | none => none
  | some (type, ts) =>
  match pStr ts with
  | none => none
  | some (name, ts) =>
  match pFeats 'B' ts with
  | none => none
  | some (base, ts) =>
  match pCount 'E' ts with
  | none => none
  | some (k, ts) =>
  match pMany pExt k ts with
  | none => none
  | some (exts, ts) =>
  match pForm ts with
  | none => none
  | some (form, ts) =>
    some ({ category := cat, type := type, name := name, baseFeatures := base,
            extFeatures := exts.map (·.1), extIdentities := exts.map (·.2),
            infoForm := form, node := node }, ts)

def pCaps : P (ClientCfg × Str) := fun ts =>
  match pStr ts with
  | none => none
  | some (node, ts) =>
  match pStr ts with
  | none => none
  | some (q, ts) =>
  match pCfg node ts with
  | none => none
  | some (c, ts) => some ((c, q), ts)

def pConfig : P ClientCfg := fun ts =>
  match pStr ts with
  | none => none
  | some (node, ts) => pCfg node ts

def strHex (s : Str) : String :=
  let bs := Qx.Utf8.encode (cps s)
  if bs.isEmpty then "-" else toHex bs

def showOuts (outs : List (ClientOut String)) : String :=
  match outs with
  | [] => "-"
  | [.presence (some (n, v))] => strHex n ++ "|" ++ v
  | [.presence none] => "no-caps"
  | [.answer (some v)] => v
  | [.answer none] => "not-found"
  | _ => "?"

def stepLine (s : ClientSt String) (line : String) : ClientSt String × String :=
  match words line with
  | ["reset"] => ({ cfg := emptyCfg }, "ok")
  | "config" :: ts =>
    match pConfig ts with
    | some (c, []) => ((clientStep sha1b64 s (.configure c)).1, "ok")
    | _ => (s, "bad-op")
  | ["publish", how] =>
    if how = "fresh" ∨ how = "derived" then
      let r := clientStep sha1b64 s (.setClientPresence (how = "derived"))
      (r.1, showOuts r.2)
    else (s, "bad-op")
  | ["connect", how] =>
    if how = "fresh" ∨ how = "derived" then
      let r := clientStep sha1b64 s (.connectToServer (how = "derived"))
      (r.1, showOuts r.2)
    else (s, "bad-op")
  | ["emit", site] =>
    let st : Option Site := if site = "session" then some .sessionStart else if site = "disconnect" then some .disconnect
      else if site = "muc" then some .mucJoin else none
    match st with
    | some st => let r := clientStep sha1b64 s (.emitStored st); (r.1, showOuts r.2)
    | none => (s, "bad-op")
  | ["query", n] =>
    match pStr [n] with
    | some (node, []) => let r := clientStep sha1b64 s (.query node); (r.1, showOuts r.2)
    | _ => (s, "bad-op")
  | "ver" :: ts =>
    match pInfo ts with
    | some (i, []) => (s, ver sha1b64 i)
    | _ => (s, "bad-op")
  | "spec" :: ts =>
    match pInfo ts with
    | some (i, []) => (s, sha1b64 (verStringSpec i))
    | _ => (s, "bad-op")
  | "str" :: ts =>
    match pInfo ts with
    | some (i, []) => (s, strHex (verStringCode i))
    | _ => (s, "bad-op")
  | "caps" :: ts =>
    match pCaps ts with
    | some ((c, q), []) =>
      let answered := match answeredInfo c q with
        | some i => sha1b64 (verStringSpec i)
        | none => "not-found"
      (s, advertisedVer sha1b64 c ++ "|" ++ answered)
    | _ => (s, "bad-op")
  | _ => (s, "bad-op")

def main : IO Unit := run { cfg := emptyCfg } stepLine
