import Qx.Driver.Proto
import Qx.Model.C09Sm
open Qx.Driver Qx.C09

def showReport : Report → String
  | .sent => "sent"
  | .acked => "ack"
  | .writeError => "ewrite"
  | .disconnected => "edisc"

def showOut : Out → String
  | .wire (.pkt i) => s!"P{i}"
  | .wire .r => "r"
  | .wire (.a h) => s!"a{h}"
  | .wire (.resume h) => s!"resume{h}"
  | .report i r => s!"P{i}!{showReport r}"
  | .written b => if b then "w1" else "w0"

def obs (s : St) (o : List Out) : String :=
  let e := if o.isEmpty then "-" else ",".intercalate (o.map showOut)
  s!"{e}|e{if s.enabled then 1 else 0} i{s.lastIn}"

def parseUp : String → Option Bool
  | "u" => some true
  | "d" => some false
  | _ => none

/-- `r0.2.5` / `r-`: ids of the packets whose report continuation sends a stanza -/
def parseRe (s : String) : Option (List Nat) :=
  match s.toList with
  | 'r' :: rest =>
    let t := String.ofList rest
    if t = "-" then some [] else (t.splitOn ".").mapM String.toNat?
  | _ => none

def parseOp : List String → Option Op
  | ["send", k, u] =>
    match k, parseUp u with
    | "s", some u => some (.send true u)
    | "n", some u => some (.send false u)
    | _, _ => none
  | ["ack", h] => h.toNat?.map fun h => Op.ack h [] true
  | ["ack", h, r, u] =>
    match h.toNat?, parseRe r, parseUp u with
    | some h, some r, some u => some (.ack h r u)
    | _, _, _ => none
  | ["resumed", h, u] =>
    match h.toNat?, parseUp u with
    | some h, some u => some (.resumed h [] u)
    | _, _ => none
  | ["resumed", h, r, u] =>
    match h.toNat?, parseRe r, parseUp u with
    | some h, some r, some u => some (.resumed h r u)
    | _, _, _ => none
  | ["resumeFailed", "-"] => some (.resumeFailed none)
  | ["resumeFailed", h] => h.toNat?.map fun h => Op.resumeFailed (some h)
  | ["req", u] => (parseUp u).map Op.ackReq
  | ["recv", "m"] => some (.recv .message)
  | ["recv", "p"] => some (.recv .presence)
  | ["recv", "i"] => some (.recv .iq)
  | ["recv", "x"] => some (.recv .nonza)
  | ["closed"] => some .sessionClosed
  | ["enabledNew", u] => (parseUp u).map (Op.enabledNew [])
  | ["enabledNew", r, u] =>
    match parseRe r, parseUp u with
    | some r, some u => some (.enabledNew r u)
    | _, _ => none
  | ["resumeReq", u] => (parseUp u).map Op.resumeReq
  | ["clearCache"] => some (.resetCache [] true)
  | ["clearCache", r, u] =>
    match parseRe r, parseUp u with
    | some r, some u => some (.resetCache r u)
    | _, _ => none
  | _ => none

/-- driver state: the model state plus the ids of packets created by `sendIq` (tracked requests).
Their delivery report is consumed inside the client by the IQ manager and `sendIq` does not return the
written flag, so those events are not observable on the implementation and are left out of the printed
observation; for the model a tracked request is an ordinary `send` of a stanza. -/
structure DSt where
  s : St
  iqIds : List Nat

def visible (iqIds : List Nat) : Out → Bool
  | .report i _ => !iqIds.contains i
  | _ => true

def stepLine (d : DSt) (line : String) : DSt × String :=
  match words line with
  | ["reset"] => (⟨init, []⟩, "ok")
  | ["sendIq", u] =>
    match parseUp u with
    | some u =>
      let ids := d.s.nextId :: d.iqIds
      let r := step d.s (.send true u)
      (⟨r.1, ids⟩, obs r.1 (r.2.filter fun o => visible ids o && o != .written u))
    | none => (d, "bad-op")
  | ["auto", u] =>
    -- a stanza the client sends by itself (initial presence): the same numbered path as `send`; its report is not observable
    match parseUp u with
    | some u =>
      let ids := d.s.nextId :: d.iqIds
      let r := step d.s (.send true u)
      (⟨r.1, ids⟩, obs r.1 (r.2.filter fun o => visible ids o && o != .written u))
    | none => (d, "bad-op")
  | ["recvReq", u] =>
    -- an IQ request is received (counted like any iq stanza) and the client answers it by itself (`autoReply` = `send`)
    match parseUp u with
    | some u =>
      let r0 := step d.s (.recv .iq)
      let ids := r0.1.nextId :: d.iqIds
      let r := step r0.1 (.send true u)
      (⟨r.1, ids⟩, obs r.1 ((r0.2 ++ r.2).filter fun o => visible ids o && o != .written u))
    | none => (d, "bad-op")
  | ["recv", "iqr"] | ["recv", "iqe"] =>
    let r := step d.s (.recv .iq)
    (⟨r.1, d.iqIds⟩, obs r.1 (r.2.filter (visible d.iqIds)))
  | ws =>
    match parseOp ws with
    | some op => let r := step d.s op; (⟨r.1, d.iqIds⟩, obs r.1 (r.2.filter (visible d.iqIds)))
    | none => (d, "bad-op")

def main : IO Unit := run (⟨init, []⟩ : DSt) stepLine
