import Qx.Driver.Proto
import Qx.Model.C09Sm
open Qx.Driver Qx.C09

def showReport : Report → String
  | .sent => "sent"
  | .acked => "ack"
  | .writeError => "ewrite"
  | .disconnected => "edisc"

def showOut : Out → String
  | .wire (.pkt i) => s!"P{i}"
  | .wire .r => "r"
  | .wire (.a h) => s!"a{h}"
  | .wire (.resume h) => s!"resume{h}"
  | .report i r => s!"P{i}!{showReport r}"
  | .written b => if b then "w1" else "w0"

def obs (s : St) (o : List Out) : String :=
  let e := if o.isEmpty then "-" else ",".intercalate (o.map showOut)
  s!"{e}|e{if s.enabled then 1 else 0} i{s.lastIn}"

def parseUp : String → Option Bool
  | "u" => some true
  | "d" => some false
  | _ => none

def parseOp : List String → Option Op
  | ["send", k, u] =>
    match k, parseUp u with
    | "s", some u => some (.send true u)
    | "n", some u => some (.send false u)
    | _, _ => none
  | ["ack", h] => h.toNat?.map Op.ack
  | ["req", u] => (parseUp u).map Op.ackReq
  | ["recv", "m"] => some (.recv .message)
  | ["recv", "p"] => some (.recv .presence)
  | ["recv", "i"] => some (.recv .iq)
  | ["recv", "x"] => some (.recv .nonza)
  | ["closed"] => some .sessionClosed
  | ["enabledNew", u] => (parseUp u).map Op.enabledNew
  | ["resumeReq", u] => (parseUp u).map Op.resumeReq
  | ["resumed", h, u] =>
    match h.toNat?, parseUp u with
    | some h, some u => some (.resumed h u)
    | _, _ => none
  | ["clearCache"] => some .resetCache
  | _ => none

def stepLine (s : St) (line : String) : St × String :=
  match words line with
  | ["reset"] => (init, "ok")
  | ws =>
    match parseOp ws with
    | some op => let r := step s op; (r.1, obs r.1 r.2)
    | none => (s, "bad-op")

def main : IO Unit := run init stepLine
