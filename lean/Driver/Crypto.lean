/-
qxdriver_crypto: line-protocol front end of the shared spec libraries (Qx.Crypto.*, Qx.Base.Utf8, Qx.Base.Jid).
Used by /verif/tools/crypto_selftest.py (cross-check against python hashlib/hmac/zlib/base64) and by harnesses
that want the independent oracle for a hash.

One request per stdin line, words separated by single spaces; one answer line per request.
Byte strings are lower- or upper-case hex; the EMPTY byte string is written `-` (in requests and answers).

  sha1|sha256|sha512|sha3-256|sha3-512|md5 <hex>            -> digest hex
  hmac-sha1|hmac-sha256|hmac-sha512|hmac-sha3-256|hmac-sha3-512|hmac-md5 <keyhex> <msghex> -> mac hex
  pbkdf2-sha1|pbkdf2-sha256|pbkdf2-sha512|pbkdf2-sha3-512 <pwhex> <salthex> <iter> <dklen>  -> derived key hex
  crc32 <hex>        -> 8 hex digits (table-driven, standard table)
  crc32bit <hex>     -> 8 hex digits (bitwise definition)
  b64enc <hex>       -> base64 text (`-` when empty)
  b64dec <hex of the ascii text>      -> decoded hex, or `none` when not canonical RFC 4648
  b64lenient <hex of the ascii text>  -> decoded hex with Qt's lenient rule
  utf8lossy <hex>    -> code points (hex, space separated, `-` when none) of `Utf8.decodeLossy`
  utf8qt <hex>       -> same for `Utf8.qtFromUtf8` (NUL cut + BOM strip + lossy)
  utf8strict <hex>   -> code points of `Utf8.decode?`, or `none`
  utf8enc <cp> <cp>… -> hex of `Utf8.encode` (code points in hex)
  utf8chunks <hex> <hex> … -> code points of `Utf8.Dec.decodeChunks` (stateful decoder, then flush)
  jid <hex of utf8>  -> bare|resource|user|domain, each as hex of utf8 (empty parts are empty)
Anything else answers `bad-op`.
-/
import Qx.Driver.Proto
import Qx.Base.Bytes
import Qx.Base.Utf8
import Qx.Base.Jid
import Qx.Crypto.Sha1
import Qx.Crypto.Sha256
import Qx.Crypto.Sha512
import Qx.Crypto.Sha3
import Qx.Crypto.Md5
import Qx.Crypto.Hmac
import Qx.Crypto.Pbkdf2
import Qx.Crypto.Crc32
import Qx.Crypto.Base64

open Qx Qx.Driver Qx.Crypto

def hexArg (s : String) : Option Bytes := if s = "-" then some [] else fromHex s

def hexOut (bs : Bytes) : String := if bs.isEmpty then "-" else toHex bs

def natHex (n : Nat) : String := String.ofList (Nat.toDigits 16 n)

def cpsOut (cs : List Nat) : String :=
  if cs.isEmpty then "-" else " ".intercalate (cs.map natHex)

def parseHexNat (s : String) : Option Nat :=
  if s.isEmpty then none else
  s.toList.foldlM (fun acc c => (hexVal c).map fun v => acc * 16 + v) 0

def hashByName : String → Option (Bytes → Bytes)
  | "sha1" => some sha1
  | "sha256" => some sha256
  | "sha512" => some sha512
  | "sha3-256" => some sha3_256
  | "sha3-512" => some sha3_512
  | "md5" => some md5
  | _ => none

def hmacByName : String → Option (Bytes → Bytes → Bytes)
  | "hmac-sha1" => some hmacSha1
  | "hmac-sha256" => some hmacSha256
  | "hmac-sha512" => some hmacSha512
  | "hmac-sha3-256" => some hmacSha3_256
  | "hmac-sha3-512" => some hmacSha3_512
  | "hmac-md5" => some hmacMd5
  | _ => none

def pbkdf2ByName : String → Option (Bytes → Bytes → Nat → Nat → Bytes)
  | "pbkdf2-sha1" => some pbkdf2HmacSha1
  | "pbkdf2-sha256" => some pbkdf2HmacSha256
  | "pbkdf2-sha512" => some pbkdf2HmacSha512
  | "pbkdf2-sha3-512" => some pbkdf2HmacSha3_512
  | _ => none

def answer (ws : List String) : String :=
  match ws with
  | ["crc32", a] => (hexArg a).elim "bad-op" fun b => toHex (crc32Bytes b)
  | ["crc32bit", a] => (hexArg a).elim "bad-op" fun b => toHex (Bytes.ofU32be (crc32Bitwise b))
  | ["b64enc", a] => (hexArg a).elim "bad-op" fun b =>
      let r := Base64.encodeStr b
      if r.isEmpty then "-" else r
  | ["b64dec", a] => (hexArg a).elim "bad-op" fun b => (Base64.decode? b).elim "none" hexOut
  | ["b64lenient", a] => (hexArg a).elim "bad-op" fun b => hexOut (Base64.decodeLenient b)
  | ["utf8lossy", a] => (hexArg a).elim "bad-op" fun b => cpsOut (Utf8.decodeLossy b)
  | ["utf8qt", a] => (hexArg a).elim "bad-op" fun b => cpsOut (Utf8.qtFromUtf8 b)
  | ["utf8strict", a] => (hexArg a).elim "bad-op" fun b => (Utf8.decode? b).elim "none" cpsOut
  | "utf8enc" :: cps => (cps.mapM parseHexNat).elim "bad-op" fun cs => hexOut (Utf8.encode cs)
  | "utf8chunks" :: chunks => (chunks.mapM hexArg).elim "bad-op" fun cs => cpsOut (Utf8.Dec.decodeChunks cs)
  | ["jid", a] => (hexArg a).elim "bad-op" fun b =>
      match Bytes.bytesStr? b with
      | none => "bad-op"
      | some j =>
        let h (s : String) : String := toHex (Bytes.strBytes s)
        s!"{h (Jid.bare j)}|{h (Jid.resource j)}|{h (Jid.user j)}|{h (Jid.domain j)}"
  | [op, a] =>
    match hashByName op, hexArg a with
    | some f, some b => toHex (f b)
    | _, _ => "bad-op"
  | [op, k, m] =>
    match hmacByName op, hexArg k, hexArg m with
    | some f, some k, some m => toHex (f k m)
    | _, _, _ => "bad-op"
  | [op, p, s, c, dk] =>
    match pbkdf2ByName op, hexArg p, hexArg s, c.toNat?, dk.toNat? with
    | some f, some p, some s, some c, some dk => hexOut (f p s c dk)
    | _, _, _, _, _ => "bad-op"
  | _ => "bad-op"

def stepLine (s : Unit) (line : String) : Unit × String := (s, answer (words line))

def main : IO Unit := run () stepLine
