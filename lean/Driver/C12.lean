import Qx.Driver.Proto
import Qx.Model.C12Roster
open Qx.Driver Qx.C12

/-- `=text` → `text` (strings that may be empty are written with a leading `=`; blank and `%` percent-encoded) -/
def unPct : List Char → List Char
  | '%' :: '2' :: '0' :: t => ' ' :: unPct t
  | '%' :: '2' :: '5' :: t => '%' :: unPct t
  | c :: t => c :: unPct t
  | [] => []

def unEq (w : String) : Option String :=
  match w.toList with
  | '=' :: r => some (String.ofList (unPct r))
  | _ => none

def parseItem (w : String) : Option Item :=
  match w.splitOn "|" with
  | [j, n, s, g] =>
    some { jid := j, name := n, sub := Sub.ofAttr (if s = "-" then "" else s),
           groups := if g = "" then [] else g.splitOn ";" }
  | _ => none

def parseItems (w : String) : Option (List Item) :=
  if w = "-" then some [] else (w.splitOn ",").mapM parseItem

def sortStr (l : List String) : List String := l.mergeSort (fun a b => !(b < a))

def dedup : List String → List String
  | a :: b :: t => if a = b then dedup (b :: t) else a :: dedup (b :: t)
  | l => l

def joinOr (sep : String) (l : List String) : String := if l.isEmpty then "-" else sep.intercalate l

def showSub : Sub → String
  | .notSet => "-" | .none_ => "none" | .both => "both" | .from_ => "from" | .to_ => "to" | .remove => "remove"

def showOut : Out → Option String
  | .rosterReceived => some "recv"
  | .itemAdded j => some s!"add:{j}"
  | .itemChanged j => some s!"chg:{j}"
  | .itemRemoved j => some s!"rem:{j}"
  | .presenceChanged b r => some s!"pc:{b}/{r}"
  | _ => none

def showSent : Out → Option String
  | .sentGet k => some s!"get#{k}"
  | .sentResult id to => some s!"result={id}>{to}"
  | .sentError id => some s!"error={id}"
  | .sentSet k it => some s!"set#{k}:{it.jid}|{it.name}|{showSub it.sub}|{";".intercalate (dedup (sortStr it.groups))}"
  | .sentPresence t to => some s!"p:{t}>{to}"
  | _ => none

def showView (e : Entries) : String :=
  let sorted := e.mergeSort (fun a b => !(b.1 < a.1))
  joinOr "," (sorted.map fun p =>
    s!"{p.1}|{p.2.name}|{showSub p.2.sub}|{";".intercalate (dedup (sortStr p.2.groups))}")

def showPres (p : PresTable) : String :=
  let sorted := (p.filter (fun x => !x.2.isEmpty)).mergeSort (fun a b => !(b.1 < a.1))
  joinOr "," (sorted.map fun x =>
    let rs := x.2.mergeSort (fun a b => !(b.1 < a.1))
    s!"{x.1}={"+".intercalate (rs.map fun r => s!"{r.1}:{r.2}")}")

def obs (s : St) (outs : List Out) : String :=
  s!"{joinOr ";" (outs.filterMap showOut)} | {joinOr ";" (outs.filterMap showSent)} | r={if s.received then 1 else 0} | {showView s.entries} | {showPres s.presences}"

def parseOp (ws : List String) : Option Op :=
  match ws with
  | ["conn", sm, a] =>
    let sm? := if sm = "none" then some Sm.none_ else if sm = "new" then some Sm.new else if sm = "resumed" then some Sm.resumed else none
    sm?.map fun m => Op.connected m (a = "1")
  | ["disc", e, c] => some (.disconnected (e = "1") (c = "1"))
  | ["res", k, f, items] => do
    let k ← k.toNat?; let f ← unEq f; let items ← parseItems items
    pure (.response k f true items)
  | ["err", k, f] => do
    let k ← k.toNat?; let f ← unEq f
    pure (.response k f false [])
  | ["iq", t, f, id, items] => do
    let t ← (if t = "get" then some IqType.get else if t = "set" then some IqType.set
             else if t = "result" then some IqType.result else if t = "error" then some IqType.error else none)
    let f ← unEq f; let id ← unEq id; let items ← parseItems items
    pure (.rosterIq t f id items)
  | ["pres", f, t, st] => do
    let f ← unEq f; let st ← unEq st
    let t := if t = "available" then PType.available else if t = "unavailable" then PType.unavailable else PType.other
    pure (.presence f t st)
  | "api" :: tr :: rest => do
    let call ← (match rest with
      | ["add", j, n, g] => do
        let j ← unEq j; let n ← unEq n
        pure (Api.addItem j n (if g = "-" then [] else g.splitOn ";"))
      | ["rm", j] => (unEq j).map Api.removeItem
      | ["ren", j, n] => do let j ← unEq j; let n ← unEq n; pure (Api.renameItem j n)
      | ["sub", j] => (unEq j).map Api.subscribe
      | ["unsub", j] => (unEq j).map Api.unsubscribe
      | ["acc", j] => (unEq j).map Api.accept
      | ["ref", j] => (unEq j).map Api.refuse
      | _ => none)
    pure (.api call (tr = "t"))
  | ["setjid", j] => (unEq j).map Op.setJid
  | _ => none

/-- driver state: currently configured own bare JID + model state -/
def stepLine (st : String × St) (line : String) : (String × St) × String :=
  -- split on single spaces WITHOUT dropping empty words: tokens never are empty (`=` prefix), but be strict
  let l := if line.endsWith "\n" then (line.dropEnd 1).toString else line
  let ws := l.splitOn " "
  match ws with
  | ["reset", own] => ((own, init), "ok")
  | _ =>
    match parseOp ws with
    | some op => let r := step st.1 st.2 op; ((nextOwn st.1 op, r.1), obs r.1 r.2)
    | none => (st, "bad-op")

def main : IO Unit := run ("", init) stepLine
