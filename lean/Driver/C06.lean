/-
qxdriver_c06: line-protocol stepper of the C06 model (SASL mechanism clients + the two managers), with the
hash parameters of the model instantiated by the executable specs in Qx.Crypto.

  reset c <mech> <user> <pass> <cnonce> <host> <service> <token>   -> ok     (a bare mechanism client)
  reset m <sasl|sasl2> <mech> <user> <pass> <cnonce> <host> <token> -> ok    (a manager; service type is "xmpp")
        mech   SCRAM-SHA-1 | SCRAM-SHA-256 | SCRAM-SHA-512 | SCRAM-SHA3-512 | DIGEST-MD5 | PLAIN | HT-<hash>-NONE
        token  - | <HT mechanism name>/<secret hex>
  r <challenge>          -> (none | some <response>) v=<0|1>  (QXmppSaslClient::respond, then serverVerified())
  start                  -> <outs> <result>                   (authenticate(): initial response)
  el c <data> | el s - | el s <data> | el f <0|1> | el k | el x
                         -> <A|R|F> <outs> <result>           (handleElement)
  dparse <bytes>         -> <map>                             (QXmppSaslDigestMd5::parseMessage)
  dser <map>             -> <bytes>                           (QXmppSaslDigestMd5::serializeMessage)
  reset f <user> <pass>  -> ok     (one client object / FastTokenManager over several connections; Sasl2Manager per login)
  setcreds <0|1> <token> | login <fastEnabled 0|1> <!|-|HT names,…> | success <tokensecret|-> | fail
                         -> <what was sent: plain <initial> req=<name|-> / ht <name> <initial> req=… / error / -> tok=<name/hex|-> ch=<0|1>
All byte strings are hex, the empty one is `-`.  <map> = `{}` or `k:v;k:v…`.  <outs> = `-` or `auth:<hex>` /
`resp:<hex>` / `abort` joined by `,`.  <result> = `-` | success | cannot-respond | auth-failed | required-tasks | not-proved.
-/
import Qx.Driver.Proto
import Qx.Model.C06Sasl
import Qx.Crypto.Hmac
import Qx.Crypto.Pbkdf2

open Qx Qx.Driver Qx.Crypto Qx.C06

def hexArg (s : String) : Option Bytes := if s = "-" then some [] else fromHex s
def hexOut (bs : Bytes) : String := if bs.isEmpty then "-" else toHex bs

def noCrypto : Crypto := ⟨fun _ => [], fun _ _ => [], fun _ _ _ => []⟩

def cryptoOfHash : String → Option Crypto
  | "SHA-1" => some ⟨sha1, hmacSha1, fun p s c => pbkdf2HmacSha1 p s c 20⟩
  | "SHA-256" => some ⟨sha256, hmacSha256, fun p s c => pbkdf2HmacSha256 p s c 32⟩
  | "SHA-512" => some ⟨sha512, hmacSha512, fun p s c => pbkdf2HmacSha512 p s c 64⟩
  | "SHA3-512" => some ⟨sha3_512, hmacSha3_512, fun p s c => pbkdf2HmacSha3_512 p s c 64⟩
  | "SHA3-256" => some ⟨sha3_256, hmacSha3_256, fun _ _ _ => []⟩
  | _ => none

/-- identifies an HT mechanism (hash and channel-binding type) by its name -/
def htNames : List String :=
  ["HT-SHA-256-NONE", "HT-SHA-512-NONE", "HT-SHA3-256-NONE", "HT-SHA3-512-NONE",
   "HT-SHA-256-ENDP", "HT-SHA-256-UNIQ", "HT-SHA-256-EXPR", "HT-SHA-512-ENDP", "HT-SHA3-512-EXPR"]

def htId (name : String) : Nat := htNames.idxOf name

def mechOf (name : String) : Option (MechKind × Crypto × Nat) :=
  if name = "PLAIN" then some (.plain, noCrypto, 0)
  else if name = "DIGEST-MD5" then some (.digest, noCrypto, 0)
  else if name.startsWith "SCRAM-" then (cryptoOfHash (name.drop 6).toString).map fun c => (.scram, c, 0)
  else if name.startsWith "HT-" ∧ name.endsWith "-NONE" then
    (cryptoOfHash ((name.drop 3).dropEnd 5).toString).map fun c => (.ht, c, htId name)
  else none

def tokenOf (s : String) : Option (Option (Nat × Bytes)) :=
  if s = "-" then some none
  else match s.splitOn "/" with
    | [n, sec] => (hexArg sec).map fun b => some (htId n, b)
    | _ => none

def fastNames : List String := ["HT-SHA-256-NONE", "HT-SHA-512-NONE", "HT-SHA3-256-NONE", "HT-SHA3-512-NONE"]

def fastFam (m : Nat) : Crypto :=
  match m with
  | 0 => ⟨sha256, hmacSha256, fun _ _ _ => []⟩
  | 1 => ⟨sha512, hmacSha512, fun _ _ _ => []⟩
  | 2 => ⟨sha3_256, hmacSha3_256, fun _ _ _ => []⟩
  | _ => ⟨sha3_512, hmacSha3_512, fun _ _ _ => []⟩

def fastName (m : Nat) : String := fastNames.getD m "?"

def fastTok (s : String) : Option (Option (Nat × Bytes)) :=
  if s = "-" then some none
  else match s.splitOn "/" with
    | [n, sec] => if fastNames.contains n then (hexArg sec).map fun b => some (fastNames.idxOf n, b) else none
    | _ => none

def fastOffer (s : String) : Option (List Nat) :=
  if s = "!" then none
  else if s = "-" then some []
  else some ((s.splitOn ",").filterMap fun n => if fastNames.contains n then some (fastNames.idxOf n) else none)

def showReq : Option Nat → String
  | none => "-"
  | some m => fastName m

def showFastOut : FastOut → String
  | .sent none i r => s!"plain {hexOut i} req={showReq r}"
  | .sent (some m) i r => s!"ht {fastName m} {hexOut i} req={showReq r}"
  | .error => "error"
  | .nothing => "-"

def showFastSt (st : FastSt) : String :=
  (match st.token with
    | none => "tok=-"
    | some t => s!"tok={fastName t.1}/{hexOut t.2}") ++ (if st.tokenChanged then " ch=1" else " ch=0")

structure DSt where
  C : Crypto := noCrypto
  cr : Cred := {}
  kind : MechKind := .plain
  mech : MechSt := .plain 0
  mgr : MgrSt := {}
  sasl2 : Bool := false
  fast : FastSt := {}

def doFast (s : DSt) (op : FastOp) : DSt × String :=
  let r := fastStep fastFam s.fast op
  ({ s with fast := r.1 }, showFastOut r.2 ++ " " ++ showFastSt r.1)

def showOut : Out → String
  | .auth b => "auth:" ++ hexOut b
  | .response b => "resp:" ++ hexOut b
  | .abort => "abort"

def showOuts (o : List Out) : String := if o.isEmpty then "-" else ",".intercalate (o.map showOut)

def showRes : Option Res → String
  | none => "-"
  | some .success => "success"
  | some .cannotRespond => "cannot-respond"
  | some .authFailed => "auth-failed"
  | some .requiredTasks => "required-tasks"
  | some .notProved => "not-proved"

def showHandled : Handled → String
  | .accepted => "A" | .rejected => "R" | .finished => "F"

def showMap (m : DMap) : String :=
  if m.isEmpty then "{}" else ";".intercalate (m.map fun e => hexOut e.1 ++ ":" ++ hexOut e.2)

def parseMapArg (s : String) : Option DMap :=
  if s = "{}" then some [] else
  (s.splitOn ";").mapM fun e =>
    match e.splitOn ":" with
    | [k, v] => match hexArg k, hexArg v with
      | some k, some v => some (k, v)
      | _, _ => none
    | _ => none

def mkCred (user pass cnonce host service : String) (htMech : Nat) (token : String) : Option Cred :=
  match hexArg user, hexArg pass, hexArg cnonce, hexArg host, hexArg service, tokenOf token with
  | some u, some p, some n, some h, some sv, some t =>
    some { user := u, pass := p, cnonce := n, host := h, service := sv, htMech := htMech, token := t }
  | _, _, _, _, _, _ => none

def doEl (s : DSt) (el : El) : DSt × String :=
  let r := mgrStep s.C md5 s.cr s.mgr el
  ({ s with mgr := r.1 }, s!"{showHandled r.2.2} {showOuts r.2.1} {showRes r.1.result}")

def stepLine (s : DSt) (line : String) : DSt × String :=
  match words line with
  | ["reset", "c", mech, user, pass, cnonce, host, service, token] =>
    match mechOf mech with
    | some (k, c, hid) =>
      match mkCred user pass cnonce host service hid token with
      | some cr => ({ C := c, cr := cr, kind := k, mech := mechInit k }, "ok")
      | none => (s, "bad-op")
    | none => (s, "bad-op")
  | ["reset", "m", mode, mech, user, pass, cnonce, host, token] =>
    match mechOf mech with
    | some (k, c, hid) =>
      match mkCred user pass cnonce host "786d7070" hid token with
      | some cr => ({ C := c, cr := cr, kind := k, mech := mechInit k, sasl2 := mode = "sasl2" }, "ok")
      | none => (s, "bad-op")
    | none => (s, "bad-op")
  | ["reset", "f", user, pass] =>
    match hexArg user, hexArg pass with
    | some u, some p => ({ fast := { user := u, pass := p } }, "ok")
    | _, _ => (s, "bad-op")
  | ["setcreds", pw, tok] =>
    match fastTok tok with
    | some t => doFast s (.setCreds (pw = "1") t)
    | none => (s, "bad-op")
  | ["login", en, offer] => doFast s (.login (en = "1") (fastOffer offer))
  | ["success", tok] =>
    match hexArg tok with
    | some b => doFast s (.success (if tok = "-" then none else some b))
    | none => (s, "bad-op")
  | ["fail"] => doFast s .fail
  | ["r", ch] =>
    match hexArg ch with
    | some ch =>
      let r := mechRespond s.C md5 s.cr s.mech ch
      ({ s with mech := r.1 },
       (match r.2 with | none => "none" | some b => "some " ++ hexOut b) ++ (if mechVerified r.1 then " v=1" else " v=0"))
    | none => (s, "bad-op")
  | ["start"] =>
    let r := mgrStart s.C md5 s.cr s.sasl2 s.kind
    ({ s with mgr := r.1 }, s!"{showOuts r.2} {showRes r.1.result}")
  | ["el", "c", d] =>
    match hexArg d with
    | some d => doEl s (.challenge d)
    | none => (s, "bad-op")
  | ["el", "s", d] =>
    match hexArg d with
    | some b => doEl s (.success (if d = "-" then none else some b))
    | none => (s, "bad-op")
  | ["el", "f", a] => doEl s (.failure (a = "1"))
  | ["el", "k"] => doEl s .continue_
  | ["el", "x"] => doEl s .unknown
  | ["dparse", b] =>
    match hexArg b with
    | some b => (s, showMap (parseMessage b))
    | none => (s, "bad-op")
  | ["dser", m] =>
    match parseMapArg m with
    | some m => (s, hexOut (serializeMessage m))
    | none => (s, "bad-op")
  | _ => (s, "bad-op")

def main : IO Unit := run ({} : DSt) stepLine
