import Qx.Driver.Proto
import Qx.Model.C05Sasl
/-!
Line-protocol stepper for C05 (protocol described at the top of `harness/cxx/saslchoice.cpp`).
State = the configuration of the current case group; every `m`/`l` line is one independent call of
`authenticate` / `sasl2Authenticate`.
-/
open Qx.Driver Qx.C05

structure DSt where
  cfg : Cfg := {}
  sasl2 : Bool := false
  fastOn : Bool := false
  univ : Array String := #[]

def decName (s : String) : String := if s = "%" then "" else s
def decList (s : String) : List String := if s = "-" then [] else (s.splitOn ",").map decName
def encName (s : String) : String := if s = "" then "%" else s
def encList (l : List String) : String := if l.isEmpty then "-" else ",".intercalate (l.map encName)

def parseCreds (s : String) : Option Creds :=
  (decList s).foldlM (init := ({} : Creds)) fun c w =>
    if w = "pw" then some { c with password := .nonEmpty }
    else if w = "pw0" then some { c with password := .empty }
    else if w = "fbt" then some { c with fbToken := .nonEmpty }
    else if w = "fbt0" then some { c with fbToken := .empty }
    else if w = "fba" then some { c with fbAppId := .nonEmpty }
    else if w = "fba0" then some { c with fbAppId := .empty }
    else if w = "goo" then some { c with google := .nonEmpty }
    else if w = "goo0" then some { c with google := .empty }
    else if w = "wl" then some { c with windowsLive := .nonEmpty }
    else if w = "wl0" then some { c with windowsLive := .empty }
    else match w.splitOn "=" with
      | ["ht", v] =>
        -- optional third component: state of the token's secret string (s0 = empty, sn = null); not looked at by the code
        match v.splitOn ":" with
        | h :: cb :: rest =>
          if rest = [] ∨ rest = ["s0"] ∨ rest = ["sn"] then
            match h.toNat?, cbOfCxx cb with
            | some h, some cb => some { c with htToken := some (h, cb) }
            | _, _ => none
          else none
        | _ => none
      | _ => none

def parseMode (s : String) : Option (Bool × Bool) :=
  if s = "sasl" then some (false, false)
  else match s.splitOn ":" with
    | ["sasl2", u, a] => some (true, fastEnabled (u = "1") (a = "1"))
    | _ => none

def hexNat (s : String) : Option Nat :=
  s.toList.foldlM (init := 0) fun acc c => (hexVal c).map (acc * 16 + ·)

def maskNames (u : Array String) (m : Nat) : List String :=
  (List.range u.size).filterMap fun i => if m.testBit i then u[i]? else none

def showOutcome : Outcome → String
  | .sent m f => s!"sent {encName m} {if f then 1 else 0}"
  | .mismatch d => s!"mismatch {encList d}"

def runCase (s : DSt) (offer : List String) (fast : Option (List String)) : String :=
  if s.sasl2 then showOutcome (sasl2Authenticate s.cfg s.fastOn offer fast)
  else match fast with
    | none => showOutcome (authenticate s.cfg offer)
    | some _ => "bad-op"

def stepLine (s : DSt) (line : String) : DSt × String :=
  match words line with
  | ["reset", mode, dis, pref, creds, univ] =>
    match parseMode mode, parseCreds creds with
    | some md, some cr =>
      let disabled := if dis = "default" then Qx.SaslOrder.defaultDisabled else decList dis
      ({ cfg := { disabled := disabled, preferred := if pref = "-" then "" else pref, creds := cr },
         sasl2 := md.1, fastOn := md.2, univ := (decList univ).toArray }, "ok")
    | _, _ => (s, "bad-op")
  | ["m", mask, fast] =>
    match hexNat mask, (if fast = "!" then some none else (hexNat fast).map some) with
    | some m, some fm => (s, runCase s (maskNames s.univ m) (fm.map (maskNames s.univ)))
    | _, _ => (s, "bad-op")
  | ["l", offer, fast] =>
    (s, runCase s (decList offer) (if fast = "!" then none else some (decList fast)))
  | _ => (s, "bad-op")

def main : IO Unit := run ({} : DSt) stepLine
