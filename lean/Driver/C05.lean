import Qx.Driver.Proto
import Qx.Model.C05Sasl
/-!
Line-protocol stepper for C05 (protocol described at the top of `harness/cxx/saslchoice.cpp`).
State = the configuration of the current case group; every `m`/`l` line is one independent call of
`authenticate` / `sasl2Authenticate`.
-/
open Qx.Driver Qx.C05

structure DSt where
  cfg : Cfg := {}
  sasl2 : Bool := false
  fastOn : Bool := false
  univ : Array String := #[]
  useSasl2 : Bool := true
  useSasl : Bool := true
  useNonSasl : Bool := true

def decName (s : String) : String := if s = "%" then "" else s
def decList (s : String) : List String := if s = "-" then [] else (s.splitOn ",").map decName
def encName (s : String) : String := if s = "" then "%" else s
def encList (l : List String) : String := if l.isEmpty then "-" else ",".intercalate (l.map encName)

def parseCreds (s : String) : Option Creds :=
  (decList s).foldlM (init := ({} : Creds)) fun c w =>
    if w = "pw" then some { c with password := .nonEmpty }
    else if w = "pw0" then some { c with password := .empty }
    else if w = "fbt" then some { c with fbToken := .nonEmpty }
    else if w = "fbt0" then some { c with fbToken := .empty }
    else if w = "fba" then some { c with fbAppId := .nonEmpty }
    else if w = "fba0" then some { c with fbAppId := .empty }
    else if w = "goo" then some { c with google := .nonEmpty }
    else if w = "goo0" then some { c with google := .empty }
    else if w = "wl" then some { c with windowsLive := .nonEmpty }
    else if w = "wl0" then some { c with windowsLive := .empty }
    else match w.splitOn "=" with
      | ["ht", v] =>
        -- optional third component: state of the token's secret string (s0 = empty, sn = null); not looked at by the code
        match v.splitOn ":" with
        | h :: cb :: rest =>
          if rest = [] ∨ rest = ["s0"] ∨ rest = ["sn"] then
            match h.toNat?, cbOfCxx cb with
            | some h, some cb => some { c with htToken := some (h, cb) }
            | _, _ => none
          else none
        | _ => none
      | _ => none

def parseMode (s : String) : Option (Bool × Bool) :=
  if s = "sasl" then some (false, false)
  else match s.splitOn ":" with
    | ["sasl2", u, a] => some (true, fastEnabled (u = "1") (a = "1"))
    | _ => none

def hexNat (s : String) : Option Nat :=
  s.toList.foldlM (init := 0) fun acc c => (hexVal c).map (acc * 16 + ·)

def maskNames (u : Array String) (m : Nat) : List String :=
  (List.range u.size).filterMap fun i => if m.testBit i then u[i]? else none

def showOutcome : Outcome → String
  | .sent m f => s!"sent {encName m} {if f then 1 else 0}"
  | .mismatch d => s!"mismatch {encList d}"

def runCase (s : DSt) (offer : List String) (fast : Option (List String)) : String :=
  if s.sasl2 then showOutcome (sasl2Authenticate s.cfg s.fastOn offer fast)
  else match fast with
    | none => showOutcome (authenticate s.cfg offer)
    | some _ => "bad-op"

def showClient (o : ClientOutcome) : String :=
  let d := if o.disconnects then "1" else "0"
  match o with
  | .sasl (.sent m _) => s!"sasl {encName m} {d}"
  | .sasl2 (.sent m f) => s!"sasl2 {encName m} {if f then 1 else 0} {d}"
  | .sasl (.mismatch l) => s!"mismatch {encList l} {d}"
  | .sasl2 (.mismatch l) => s!"mismatch {encList l} {d}"
  | .legacyAuth => s!"legacy {d}"
  | .bind => s!"bind {d}"
  | .session => s!"session {d}"

def runClient (s : DSt) (mechs : List String) (legacy bind : String) (m2 fast : Option (List String)) : String :=
  let c : ClientCfg := { cfg := s.cfg, useSasl2 := s.useSasl2, useSasl := s.useSasl, useNonSasl := s.useNonSasl, fastOn := s.fastOn }
  let f : Features := { mechanisms := mechs, legacyAuth := legacy = "1", bind := bind = "1", sasl2 := m2,
                        fast := match m2 with | some _ => fast | none => none }
  showClient (clientChoice c f)

/-- `<useSasl2><useSASL><useNonSASL>:<useFast>:<userAgent>` -/
def parseClientFlags (s : String) : Option (Bool × Bool × Bool × Bool) :=
  match s.splitOn ":" with
  | [f, u, a] =>
    match f.toList with
    | [x, y, z] => some (x = '1', y = '1', z = '1', fastEnabled (u = "1") (a = "1"))
    | _ => none
  | _ => none

def stepLine (s : DSt) (line : String) : DSt × String :=
  match words line with
  | ["resetc", flags, dis, pref, creds, univ] =>
    match parseClientFlags flags, parseCreds creds with
    | some fl, some cr =>
      let disabled := if dis = "default" then Qx.SaslOrder.defaultDisabled else decList dis
      ({ cfg := { disabled := disabled, preferred := if pref = "-" then "" else pref, creds := cr },
         sasl2 := false, fastOn := fl.2.2.2, univ := (decList univ).toArray,
         useSasl2 := fl.1, useSasl := fl.2.1, useNonSasl := fl.2.2.1 }, "ok")
    | _, _ => (s, "bad-op")
  | ["c", mask, legacy, bind, m2, fm] =>
    match hexNat mask, (if m2 = "!" then some none else (hexNat m2).map some),
          (if fm = "!" then some none else (hexNat fm).map some) with
    | some m, some m2, some fm =>
      (s, runClient s (maskNames s.univ m) legacy bind (m2.map (maskNames s.univ)) (fm.map (maskNames s.univ)))
    | _, _, _ => (s, "bad-op")
  | ["k", mechs, legacy, bind, m2, fm] =>
    (s, runClient s (decList mechs) legacy bind (if m2 = "!" then none else some (decList m2))
          (if fm = "!" then none else some (decList fm)))
  | ["reset", mode, dis, pref, creds, univ] =>
    match parseMode mode, parseCreds creds with
    | some md, some cr =>
      let disabled := if dis = "default" then Qx.SaslOrder.defaultDisabled else decList dis
      ({ cfg := { disabled := disabled, preferred := if pref = "-" then "" else pref, creds := cr },
         sasl2 := md.1, fastOn := md.2, univ := (decList univ).toArray }, "ok")
    | _, _ => (s, "bad-op")
  | ["m", mask, fast] =>
    match hexNat mask, (if fast = "!" then some none else (hexNat fast).map some) with
    | some m, some fm => (s, runCase s (maskNames s.univ m) (fm.map (maskNames s.univ)))
    | _, _ => (s, "bad-op")
  | ["l", offer, fast] =>
    (s, runCase s (decList offer) (if fast = "!" then none else some (decList fast)))
  | _ => (s, "bad-op")

def main : IO Unit := run ({} : DSt) stepLine
