import Qx.Driver.Proto
import Qx.Model.C13Task
open Qx.Driver Qx.C13

def parseInner (s : String) : Option (List Inner) :=
  if s = "-" then some [] else
  (s.splitOn ",").mapM fun w =>
    match w.toList with
    | 't' :: r => (String.ofList r).toNat?.map Inner.thenI
    | 'd' :: r => (String.ofList r).toNat?.map Inner.destroyCtx
    | ['x'] => some Inner.dropAll
    | _ => none

def showDelivered : Delivered → String
  | none => "-"
  | some v => toString v

def showEv : Ev → String
  | .ran k c v => s!"ran {k} {c} {showDelivered v}"
  | .released => "released"

def obs (s : St) (evs : List Ev) : String :=
  let e := if evs.isEmpty then "-" else ";".intercalate (evs.map showEv)
  s!"{e}|f={if s.finished then 1 else 0} r={if s.result.isSome then 1 else 0} refs={s.refs} cl={if s.cont.isSome then 1 else 0}"

def stepLine (s : St) (line : String) : St × String :=
  match words line with
  | ["reset", "void"] => (init .void, "ok")
  | ["reset", "value"] => (init .value, "ok")
  | ["then", c, b] =>
    match c.toNat?, parseInner b with
    | some c, some b => let r := step s (.thenOp c b); (r.1, obs r.1 r.2)
    | _, _ => (s, "bad-op")
  | ["finish", v] =>
    match v.toNat? with
    | some v => let r := step s (.finish v); (r.1, obs r.1 r.2)
    | none => (s, "bad-op")
  | ["finishk", c, v] =>
    match c.toNat?, v.toNat? with
    | some c, some v => let r := step s (.finishK c v); (r.1, obs r.1 r.2)
    | _, _ => (s, "bad-op")
  | ["take"] =>
    -- the value handed to the caller is printed by the driver from the state before the step
    let took := if s.refs ≠ 0 ∧ s.finished then (match s.result with | some r => s!"took {r}" | none => "took -") else "took -"
    let r := step s .take
    -- `take` emits no event of its own: replace the "-" of the empty event list by what was handed out
    (r.1, took ++ ((obs r.1 r.2).drop 1).toString)
  | ["destroy", c] =>
    match c.toNat? with
    | some c => let r := step s (.destroyCtx c); (r.1, obs r.1 r.2)
    | none => (s, "bad-op")
  | ["copy"] => let r := step s .copyHandle; (r.1, obs r.1 r.2)
  | ["drop"] => let r := step s .dropHandle; (r.1, obs r.1 r.2)
  | _ => (s, "bad-op")

def main : IO Unit := run (init .void) stepLine
