/-
SHA-1 (FIPS 180-4 §6.1), executable spec.  Core Lean only; total functions.
Interface over `Bytes`; the compression function works on `UInt32`.
Cross-checked against python `hashlib` by /verif/tools/crypto_selftest.py.
-/
import Qx.Base.Bytes

namespace Qx.Crypto.Sha1
open Qx Qx.Bytes

@[inline] def rotl (x : UInt32) (n : UInt32) : UInt32 := (x <<< n) ||| (x >>> (32 - n))

/-- message schedule W[0..79] of the block starting at word `off` (§6.1.2 step 1) -/
def extend : Nat → Nat → Array UInt32 → Array UInt32
  | 0, _, w => w
  | n + 1, t, w =>
    extend n (t + 1)
      (w.push (rotl (w.getD (t - 3) 0 ^^^ w.getD (t - 8) 0 ^^^ w.getD (t - 14) 0 ^^^ w.getD (t - 16) 0) 1))

def schedule (m : Array UInt32) (off : Nat) : Array UInt32 :=
  extend 64 16 (m.extract off (off + 16))

structure St where
  a : UInt32
  b : UInt32
  c : UInt32
  d : UInt32
  e : UInt32

/-- initial hash value (§5.3.1) -/
def iv : St := ⟨0x67452301, 0xefcdab89, 0x98badcfe, 0x10325476, 0xc3d2e1f0⟩

/-- f_t and K_t (§4.1.1, §4.2.1) -/
@[inline] def f (t : Nat) (b c d : UInt32) : UInt32 :=
  if t < 20 then (b &&& c) ||| (~~~b &&& d)
  else if t < 40 then b ^^^ c ^^^ d
  else if t < 60 then (b &&& c) ||| (b &&& d) ||| (c &&& d)
  else b ^^^ c ^^^ d

@[inline] def k (t : Nat) : UInt32 :=
  if t < 20 then 0x5a827999 else if t < 40 then 0x6ed9eba1 else if t < 60 then 0x8f1bbcdc else 0xca62c1d6

/-- `n` rounds starting at round `t` (§6.1.2 step 3) -/
def rounds (w : Array UInt32) : Nat → Nat → UInt32 → UInt32 → UInt32 → UInt32 → UInt32 → St
  | 0, _, a, b, c, d, e => ⟨a, b, c, d, e⟩
  | n + 1, t, a, b, c, d, e =>
    rounds w n (t + 1) (rotl a 5 + f t b c d + e + k t + w.getD t 0) a (rotl b 30) c d

def compress (h : St) (m : Array UInt32) (off : Nat) : St :=
  let r := rounds (schedule m off) 80 0 h.a h.b h.c h.d h.e
  ⟨h.a + r.a, h.b + r.b, h.c + r.c, h.d + r.d, h.e + r.e⟩

def blocks (m : Array UInt32) : Nat → Nat → St → St
  | 0, _, h => h
  | n + 1, off, h => blocks m n (off + 16) (compress h m off)

/-- padding §5.1.1: 0x80, zeros, 64-bit big-endian bit length; multiple of 64 bytes -/
def pad (msg : Bytes) : Bytes := mdPad 64 (putU64 (8 * msg.length)) msg

def digestOf (h : St) : Bytes :=
  ofU32be h.a ++ ofU32be h.b ++ ofU32be h.c ++ ofU32be h.d ++ ofU32be h.e

/-- SHA-1 of a byte string (20 bytes) -/
def hash (msg : Bytes) : Bytes :=
  let m := be32Words (pad msg)
  digestOf (blocks m (m.size / 16) 0 iv)

end Qx.Crypto.Sha1

namespace Qx.Crypto
/-- SHA-1, 20-byte digest, 64-byte block -/
def sha1 (msg : Bytes) : Bytes := Sha1.hash msg
end Qx.Crypto
