/-
PBKDF2 (RFC 8018 §5.2) over a generic PRF.  Core Lean only; total.

  DK = (T_1 ‖ T_2 ‖ … ‖ T_l) truncated to dkLen,   l = ceil(dkLen / hLen)
  T_i = U_1 xor U_2 xor … xor U_c,   U_1 = PRF(P, S ‖ INT_32_BE(i)),   U_j = PRF(P, U_{j-1})

The iteration count `c` must be ≥ 1 (RFC); `c = 0` is treated like `c = 1` here.
-/
import Qx.Base.Bytes
import Qx.Crypto.Hmac

namespace Qx.Crypto
open Qx Qx.Bytes

/-- U_2 … : `n` further applications of the keyed PRF, xor-accumulated -/
def pbkdf2Loop (prfK : Bytes → Bytes) : Nat → Bytes → Bytes → Bytes
  | 0, _, acc => acc
  | n + 1, u, acc =>
    let u' := prfK u
    pbkdf2Loop prfK n u' (xorBytes acc u')

/-- the block function F(P, S, c, i) with the password already bound into `prfK` -/
def pbkdf2Block (prfK : Bytes → Bytes) (salt : Bytes) (c i : Nat) : Bytes :=
  let u1 := prfK (salt ++ putU32 i)
  pbkdf2Loop prfK (c - 1) u1 u1

/-- PBKDF2 with a PRF already keyed with the password; `hLen` = PRF output length in bytes -/
def pbkdf2K (prfK : Bytes → Bytes) (hLen : Nat) (salt : Bytes) (c dkLen : Nat) : Bytes :=
  let l := (dkLen + hLen - 1) / hLen
  ((List.range l).flatMap fun i => pbkdf2Block prfK salt c (i + 1)).take dkLen

/-- RFC 8018 PBKDF2 with PRF `prf key msg` of output length `hLen` -/
def pbkdf2 (prf : Bytes → Bytes → Bytes) (hLen : Nat) (password salt : Bytes) (c dkLen : Nat) : Bytes :=
  pbkdf2K (prf password) hLen salt c dkLen

/-- PBKDF2 with HMAC over `H` (block size `block`, digest length `hLen`); equals
`pbkdf2 (hmac H block) hLen …` by unfolding, but prepares the two HMAC key blocks only once. -/
def pbkdf2Hmac (H : Bytes → Bytes) (block hLen : Nat) (password salt : Bytes) (c dkLen : Nat) : Bytes :=
  let k0 := hmacKey0 H block password
  let ik := hmacIpad k0
  let ok := hmacOpad k0
  pbkdf2K (hmacKeyed H ik ok) hLen salt c dkLen

def pbkdf2HmacSha1 (password salt : Bytes) (c dkLen : Nat) : Bytes := pbkdf2Hmac sha1 64 20 password salt c dkLen
def pbkdf2HmacSha256 (password salt : Bytes) (c dkLen : Nat) : Bytes := pbkdf2Hmac sha256 64 32 password salt c dkLen
def pbkdf2HmacSha512 (password salt : Bytes) (c dkLen : Nat) : Bytes := pbkdf2Hmac sha512 128 64 password salt c dkLen
def pbkdf2HmacSha3_512 (password salt : Bytes) (c dkLen : Nat) : Bytes := pbkdf2Hmac sha3_512 72 64 password salt c dkLen

/-- the fast variant is the generic one (definitional unfolding) -/
theorem pbkdf2Hmac_eq (H : Bytes → Bytes) (block hLen : Nat) (password salt : Bytes) (c dkLen : Nat) :
    pbkdf2Hmac H block hLen password salt c dkLen = pbkdf2 (hmac H block) hLen password salt c dkLen := rfl

end Qx.Crypto
