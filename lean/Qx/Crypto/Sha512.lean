/-
SHA-512 (FIPS 180-4 §6.4), executable spec.  Core Lean only; total functions.
Cross-checked against python `hashlib` by /verif/tools/crypto_selftest.py.
-/
import Qx.Base.Bytes

namespace Qx.Crypto.Sha512
open Qx Qx.Bytes

@[inline] def rotr (x : UInt64) (n : UInt64) : UInt64 := (x >>> n) ||| (x <<< (64 - n))

/-- round constants §4.2.3: first 64 bits of the fractional parts of the cube roots of the first 80 primes -/
def K : Array UInt64 := #[
  0x428a2f98d728ae22, 0x7137449123ef65cd, 0xb5c0fbcfec4d3b2f, 0xe9b5dba58189dbbc,
  0x3956c25bf348b538, 0x59f111f1b605d019, 0x923f82a4af194f9b, 0xab1c5ed5da6d8118,
  0xd807aa98a3030242, 0x12835b0145706fbe, 0x243185be4ee4b28c, 0x550c7dc3d5ffb4e2,
  0x72be5d74f27b896f, 0x80deb1fe3b1696b1, 0x9bdc06a725c71235, 0xc19bf174cf692694,
  0xe49b69c19ef14ad2, 0xefbe4786384f25e3, 0x0fc19dc68b8cd5b5, 0x240ca1cc77ac9c65,
  0x2de92c6f592b0275, 0x4a7484aa6ea6e483, 0x5cb0a9dcbd41fbd4, 0x76f988da831153b5,
  0x983e5152ee66dfab, 0xa831c66d2db43210, 0xb00327c898fb213f, 0xbf597fc7beef0ee4,
  0xc6e00bf33da88fc2, 0xd5a79147930aa725, 0x06ca6351e003826f, 0x142929670a0e6e70,
  0x27b70a8546d22ffc, 0x2e1b21385c26c926, 0x4d2c6dfc5ac42aed, 0x53380d139d95b3df,
  0x650a73548baf63de, 0x766a0abb3c77b2a8, 0x81c2c92e47edaee6, 0x92722c851482353b,
  0xa2bfe8a14cf10364, 0xa81a664bbc423001, 0xc24b8b70d0f89791, 0xc76c51a30654be30,
  0xd192e819d6ef5218, 0xd69906245565a910, 0xf40e35855771202a, 0x106aa07032bbd1b8,
  0x19a4c116b8d2d0c8, 0x1e376c085141ab53, 0x2748774cdf8eeb99, 0x34b0bcb5e19b48a8,
  0x391c0cb3c5c95a63, 0x4ed8aa4ae3418acb, 0x5b9cca4f7763e373, 0x682e6ff3d6b2b8a3,
  0x748f82ee5defb2fc, 0x78a5636f43172f60, 0x84c87814a1f0ab72, 0x8cc702081a6439ec,
  0x90befffa23631e28, 0xa4506cebde82bde9, 0xbef9a3f7b2c67915, 0xc67178f2e372532b,
  0xca273eceea26619c, 0xd186b8c721c0c207, 0xeada7dd6cde0eb1e, 0xf57d4f7fee6ed178,
  0x06f067aa72176fba, 0x0a637dc5a2c898a6, 0x113f9804bef90dae, 0x1b710b35131c471b,
  0x28db77f523047d84, 0x32caab7b40c72493, 0x3c9ebe0a15c9bebc, 0x431d67c49c100d4c,
  0x4cc5d4becb3e42b6, 0x597f299cfc657e2a, 0x5fcb6fab3ad6faec, 0x6c44198c4a475817]

@[inline] def ssig0 (x : UInt64) : UInt64 := rotr x 1 ^^^ rotr x 8 ^^^ (x >>> 7)
@[inline] def ssig1 (x : UInt64) : UInt64 := rotr x 19 ^^^ rotr x 61 ^^^ (x >>> 6)
@[inline] def bsig0 (x : UInt64) : UInt64 := rotr x 28 ^^^ rotr x 34 ^^^ rotr x 39
@[inline] def bsig1 (x : UInt64) : UInt64 := rotr x 14 ^^^ rotr x 18 ^^^ rotr x 41
@[inline] def ch (x y z : UInt64) : UInt64 := (x &&& y) ^^^ (~~~x &&& z)
@[inline] def maj (x y z : UInt64) : UInt64 := (x &&& y) ^^^ (x &&& z) ^^^ (y &&& z)

/-- message schedule W[16..79] (§6.4.2 step 1) -/
def extend : Nat → Nat → Array UInt64 → Array UInt64
  | 0, _, w => w
  | n + 1, t, w =>
    extend n (t + 1)
      (w.push (ssig1 (w.getD (t - 2) 0) + w.getD (t - 7) 0 + ssig0 (w.getD (t - 15) 0) + w.getD (t - 16) 0))

def schedule (m : Array UInt64) (off : Nat) : Array UInt64 :=
  extend 64 16 (m.extract off (off + 16))

structure St where
  a : UInt64
  b : UInt64
  c : UInt64
  d : UInt64
  e : UInt64
  f : UInt64
  g : UInt64
  h : UInt64

/-- initial hash value §5.3.5 -/
def iv : St := ⟨
  0x6a09e667f3bcc908, 0xbb67ae8584caa73b, 0x3c6ef372fe94f82b, 0xa54ff53a5f1d36f1,
  0x510e527fade682d1, 0x9b05688c2b3e6c1f, 0x1f83d9abfb41bd6b, 0x5be0cd19137e2179⟩

/-- `n` rounds starting at round `t` (§6.4.2 step 3) -/
def rounds (w : Array UInt64) :
    Nat → Nat → UInt64 → UInt64 → UInt64 → UInt64 → UInt64 → UInt64 → UInt64 → UInt64 → St
  | 0, _, a, b, c, d, e, f, g, h => ⟨a, b, c, d, e, f, g, h⟩
  | n + 1, t, a, b, c, d, e, f, g, h =>
    let t1 := h + bsig1 e + ch e f g + K.getD t 0 + w.getD t 0
    let t2 := bsig0 a + maj a b c
    rounds w n (t + 1) (t1 + t2) a b c (d + t1) e f g

def compress (s : St) (m : Array UInt64) (off : Nat) : St :=
  let r := rounds (schedule m off) 80 0 s.a s.b s.c s.d s.e s.f s.g s.h
  ⟨s.a + r.a, s.b + r.b, s.c + r.c, s.d + r.d, s.e + r.e, s.f + r.f, s.g + r.g, s.h + r.h⟩

def blocks (m : Array UInt64) : Nat → Nat → St → St
  | 0, _, s => s
  | n + 1, off, s => blocks m n (off + 16) (compress s m off)

/-- padding §5.1.2: 0x80, zeros, 128-bit big-endian bit length; multiple of 128 bytes -/
def pad (msg : Bytes) : Bytes := mdPad 128 (putU64 0 ++ putU64 (8 * msg.length)) msg

def digestOf (s : St) : Bytes :=
  ofU64be s.a ++ ofU64be s.b ++ ofU64be s.c ++ ofU64be s.d ++
  ofU64be s.e ++ ofU64be s.f ++ ofU64be s.g ++ ofU64be s.h

/-- SHA-512 of a byte string (64 bytes) -/
def hash (msg : Bytes) : Bytes :=
  let m := be64Words (pad msg)
  digestOf (blocks m (m.size / 16) 0 iv)

end Qx.Crypto.Sha512

namespace Qx.Crypto
/-- SHA-512, 64-byte digest, 128-byte block -/
def sha512 (msg : Bytes) : Bytes := Sha512.hash msg
end Qx.Crypto
