/-
HMAC (RFC 2104), generic over the hash function and its block size.  Core Lean only; total.

  HMAC(K, text) = H((K0 xor opad) ‖ H((K0 xor ipad) ‖ text))
  K0 = K padded with zeros to the block size B, or H(K) padded when K is longer than B.

Block sizes: MD5/SHA-1/SHA-256: 64, SHA-512: 128, SHA3-256: 136, SHA3-512: 72 (the sponge rate, as in
python's `hashlib` / Qt's QMessageAuthenticationCode).
-/
import Qx.Base.Bytes
import Qx.Crypto.Sha1
import Qx.Crypto.Sha256
import Qx.Crypto.Sha512
import Qx.Crypto.Sha3
import Qx.Crypto.Md5

namespace Qx.Crypto
open Qx Qx.Bytes

/-- K0: the key brought to exactly `block` bytes (hashed first when longer than a block) -/
def hmacKey0 (H : Bytes → Bytes) (block : Nat) (key : Bytes) : Bytes :=
  let k := if key.length > block then H key else key
  k ++ zeros (block - k.length)

/-- K0 xor ipad (0x36 repeated) -/
def hmacIpad (k0 : Bytes) : Bytes := k0.map (· ^^^ 0x36)
/-- K0 xor opad (0x5c repeated) -/
def hmacOpad (k0 : Bytes) : Bytes := k0.map (· ^^^ 0x5c)

/-- HMAC with the two key blocks already prepared (lets PBKDF2 prepare them once) -/
def hmacKeyed (H : Bytes → Bytes) (ik ok : Bytes) (msg : Bytes) : Bytes :=
  H (ok ++ H (ik ++ msg))

/-- RFC 2104 HMAC over hash `H` with block size `block` bytes -/
def hmac (H : Bytes → Bytes) (block : Nat) (key msg : Bytes) : Bytes :=
  let k0 := hmacKey0 H block key
  hmacKeyed H (hmacIpad k0) (hmacOpad k0) msg

def hmacMd5 (key msg : Bytes) : Bytes := hmac md5 64 key msg
def hmacSha1 (key msg : Bytes) : Bytes := hmac sha1 64 key msg
def hmacSha256 (key msg : Bytes) : Bytes := hmac sha256 64 key msg
def hmacSha512 (key msg : Bytes) : Bytes := hmac sha512 128 key msg
def hmacSha3_256 (key msg : Bytes) : Bytes := hmac sha3_256 136 key msg
def hmacSha3_512 (key msg : Bytes) : Bytes := hmac sha3_512 72 key msg

end Qx.Crypto
