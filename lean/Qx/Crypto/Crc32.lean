/-
CRC-32 (ISO 3309 / zlib / PNG): reflected polynomial 0xEDB88320, initial value and final xor 0xFFFFFFFF.
Core Lean only; total.

* `crcBit`, `crc32Bitwise`: the bit-by-bit definition (the specification).
* `crc32Table t`: the table-driven algorithm of `QXmppUtils::generateCrc32`, parametric in the table `t`
  (the C++ `crctable` is extracted by a translator and passed here); `stdTable` is the table computed
  from `crcBit`.
-/
import Qx.Base.Bytes

namespace Qx.Crypto
open Qx Qx.Bytes

/-- one shift of the reflected CRC register -/
def crcBit (c : UInt32) : UInt32 :=
  if c &&& 1 = 1 then (c >>> 1) ^^^ 0xEDB88320 else c >>> 1

/-- eight shifts -/
def crcBit8 (c : UInt32) : UInt32 := crcBit (crcBit (crcBit (crcBit (crcBit (crcBit (crcBit (crcBit c)))))))

/-- feed one byte, bit by bit -/
def crcByteBitwise (c : UInt32) (b : UInt8) : UInt32 := crcBit8 (c ^^^ b.toUInt32)

/-- CRC-32 by the bitwise definition -/
def crc32Bitwise (bs : Bytes) : UInt32 := (bs.foldl crcByteBitwise 0xFFFFFFFF) ^^^ 0xFFFFFFFF

/-- the table entry for byte value `i` -/
def crcTableEntry (i : Nat) : UInt32 := crcBit8 (UInt32.ofNat i)

/-- the standard 256-entry table as a list (for `decide`-style comparison with an extracted table) -/
def stdTableList : List UInt32 := (List.range 256).map crcTableEntry

/-- the standard 256-entry table -/
def stdTable : Array UInt32 := stdTableList.toArray

/-- feed one byte through table `t`: `(c >> 8) ^ t[(c & 0xff) ^ b]` -/
def crcByteTable (t : Array UInt32) (c : UInt32) (b : UInt8) : UInt32 :=
  (c >>> 8) ^^^ t.getD ((c &&& 0xff) ^^^ b.toUInt32).toNat 0

/-- table-driven CRC-32 exactly as `QXmppUtils::generateCrc32`, over an arbitrary table -/
def crc32Table (t : Array UInt32) (bs : Bytes) : UInt32 :=
  (bs.foldl (crcByteTable t) 0xFFFFFFFF) ^^^ 0xFFFFFFFF

/-- same, table given as a list -/
def crc32TableList (t : List UInt32) (bs : Bytes) : UInt32 := crc32Table t.toArray bs

/-- CRC-32 (table-driven with the standard table) -/
def crc32 (bs : Bytes) : UInt32 := crc32Table stdTable bs

/-- CRC-32 as 4 big-endian bytes -/
def crc32Bytes (bs : Bytes) : Bytes := ofU32be (crc32 bs)

end Qx.Crypto
