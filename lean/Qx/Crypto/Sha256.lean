/-
SHA-256 (FIPS 180-4 §6.2), executable spec.  Core Lean only; total functions.
Cross-checked against python `hashlib` by /verif/tools/crypto_selftest.py.
-/
import Qx.Base.Bytes

namespace Qx.Crypto.Sha256
open Qx Qx.Bytes

@[inline] def rotr (x : UInt32) (n : UInt32) : UInt32 := (x >>> n) ||| (x <<< (32 - n))

/-- round constants §4.2.2: first 32 bits of the fractional parts of the cube roots of the first 64 primes -/
def K : Array UInt32 := #[
  0x428a2f98, 0x71374491, 0xb5c0fbcf, 0xe9b5dba5, 0x3956c25b, 0x59f111f1, 0x923f82a4, 0xab1c5ed5,
  0xd807aa98, 0x12835b01, 0x243185be, 0x550c7dc3, 0x72be5d74, 0x80deb1fe, 0x9bdc06a7, 0xc19bf174,
  0xe49b69c1, 0xefbe4786, 0x0fc19dc6, 0x240ca1cc, 0x2de92c6f, 0x4a7484aa, 0x5cb0a9dc, 0x76f988da,
  0x983e5152, 0xa831c66d, 0xb00327c8, 0xbf597fc7, 0xc6e00bf3, 0xd5a79147, 0x06ca6351, 0x14292967,
  0x27b70a85, 0x2e1b2138, 0x4d2c6dfc, 0x53380d13, 0x650a7354, 0x766a0abb, 0x81c2c92e, 0x92722c85,
  0xa2bfe8a1, 0xa81a664b, 0xc24b8b70, 0xc76c51a3, 0xd192e819, 0xd6990624, 0xf40e3585, 0x106aa070,
  0x19a4c116, 0x1e376c08, 0x2748774c, 0x34b0bcb5, 0x391c0cb3, 0x4ed8aa4a, 0x5b9cca4f, 0x682e6ff3,
  0x748f82ee, 0x78a5636f, 0x84c87814, 0x8cc70208, 0x90befffa, 0xa4506ceb, 0xbef9a3f7, 0xc67178f2]

@[inline] def ssig0 (x : UInt32) : UInt32 := rotr x 7 ^^^ rotr x 18 ^^^ (x >>> 3)
@[inline] def ssig1 (x : UInt32) : UInt32 := rotr x 17 ^^^ rotr x 19 ^^^ (x >>> 10)
@[inline] def bsig0 (x : UInt32) : UInt32 := rotr x 2 ^^^ rotr x 13 ^^^ rotr x 22
@[inline] def bsig1 (x : UInt32) : UInt32 := rotr x 6 ^^^ rotr x 11 ^^^ rotr x 25
@[inline] def ch (x y z : UInt32) : UInt32 := (x &&& y) ^^^ (~~~x &&& z)
@[inline] def maj (x y z : UInt32) : UInt32 := (x &&& y) ^^^ (x &&& z) ^^^ (y &&& z)

/-- message schedule W[16..63] (§6.2.2 step 1) -/
def extend : Nat → Nat → Array UInt32 → Array UInt32
  | 0, _, w => w
  | n + 1, t, w =>
    extend n (t + 1)
      (w.push (ssig1 (w.getD (t - 2) 0) + w.getD (t - 7) 0 + ssig0 (w.getD (t - 15) 0) + w.getD (t - 16) 0))

def schedule (m : Array UInt32) (off : Nat) : Array UInt32 :=
  extend 48 16 (m.extract off (off + 16))

structure St where
  a : UInt32
  b : UInt32
  c : UInt32
  d : UInt32
  e : UInt32
  f : UInt32
  g : UInt32
  h : UInt32

/-- initial hash value §5.3.3 -/
def iv : St := ⟨
  0x6a09e667, 0xbb67ae85, 0x3c6ef372, 0xa54ff53a, 0x510e527f, 0x9b05688c, 0x1f83d9ab, 0x5be0cd19⟩

/-- `n` rounds starting at round `t` (§6.2.2 step 3) -/
def rounds (w : Array UInt32) :
    Nat → Nat → UInt32 → UInt32 → UInt32 → UInt32 → UInt32 → UInt32 → UInt32 → UInt32 → St
  | 0, _, a, b, c, d, e, f, g, h => ⟨a, b, c, d, e, f, g, h⟩
  | n + 1, t, a, b, c, d, e, f, g, h =>
    let t1 := h + bsig1 e + ch e f g + K.getD t 0 + w.getD t 0
    let t2 := bsig0 a + maj a b c
    rounds w n (t + 1) (t1 + t2) a b c (d + t1) e f g

def compress (s : St) (m : Array UInt32) (off : Nat) : St :=
  let r := rounds (schedule m off) 64 0 s.a s.b s.c s.d s.e s.f s.g s.h
  ⟨s.a + r.a, s.b + r.b, s.c + r.c, s.d + r.d, s.e + r.e, s.f + r.f, s.g + r.g, s.h + r.h⟩

def blocks (m : Array UInt32) : Nat → Nat → St → St
  | 0, _, s => s
  | n + 1, off, s => blocks m n (off + 16) (compress s m off)

/-- padding §5.1.1 -/
def pad (msg : Bytes) : Bytes := mdPad 64 (putU64 (8 * msg.length)) msg

def digestOf (s : St) : Bytes :=
  ofU32be s.a ++ ofU32be s.b ++ ofU32be s.c ++ ofU32be s.d ++
  ofU32be s.e ++ ofU32be s.f ++ ofU32be s.g ++ ofU32be s.h

/-- SHA-256 of a byte string (32 bytes) -/
def hash (msg : Bytes) : Bytes :=
  let m := be32Words (pad msg)
  digestOf (blocks m (m.size / 16) 0 iv)

end Qx.Crypto.Sha256

namespace Qx.Crypto
/-- SHA-256, 32-byte digest, 64-byte block -/
def sha256 (msg : Bytes) : Bytes := Sha256.hash msg
end Qx.Crypto
