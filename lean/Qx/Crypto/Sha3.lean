/-
SHA-3 (FIPS 202): Keccak-f[1600], sponge, SHA3-256 and SHA3-512.  Executable spec, core Lean only, total.
Cross-checked against python `hashlib` by /verif/tools/crypto_selftest.py.

State: 25 lanes of 64 bits, lane (x, y) at index x + 5*y, lanes are little-endian in the byte string.
-/
import Qx.Base.Bytes

namespace Qx.Crypto.Sha3
open Qx Qx.Bytes

@[inline] def rotl (x : UInt64) (n : UInt64) : UInt64 := (x <<< n) ||| (x >>> (64 - n))

/-- round constants (§3.2.5 iota) -/
def RC : Array UInt64 := #[
  0x0000000000000001, 0x0000000000008082, 0x800000000000808a, 0x8000000080008000,
  0x000000000000808b, 0x0000000080000001, 0x8000000080008081, 0x8000000000008009,
  0x000000000000008a, 0x0000000000000088, 0x0000000080008009, 0x000000008000000a,
  0x000000008000808b, 0x800000000000008b, 0x8000000000008089, 0x8000000000008003,
  0x8000000000008002, 0x8000000000000080, 0x000000000000800a, 0x800000008000000a,
  0x8000000080008081, 0x8000000000008080, 0x0000000080000001, 0x8000000080008008]

/-- rotation offsets of rho (§3.2.2), index x + 5*y -/
def ROT : Array UInt64 := #[
  0, 1, 62, 28, 27, 36, 44, 6, 55, 20, 3, 10, 43, 25, 39, 41, 45, 15, 21, 8, 18, 2, 61, 56, 14]

@[inline] def ln (a : Array UInt64) (i : Nat) : UInt64 := a.getD i 0

/-- `n` rounds of Keccak-f[1600] starting with round index `r` on the 25 lanes a0..a24 (lane (x,y) = a(x+5y)).
One round (§3.2), written out lane by lane so that the compiled code keeps the state in registers:
  theta: c_x = xor of column x;  d_x = c_(x-1) xor rotl(c_(x+1), 1);  every lane (x,y) is xored with d_x
  rho+pi: b(x',y') = rotl(lane(x,y), ROT(x,y)) where (x',y') = (y, 2x+3y), i.e. x = (x'+3y') mod 5, y = x'
  chi: e(x,y) = b(x,y) xor (not b(x+1,y) and b(x+2,y))
  iota: e(0,0) is xored with RC[r]
(The lane-by-lane text below is generated from these formulas; the rotation amounts are the entries of `ROT`.) -/
def rounds : Nat → Nat →
    UInt64 → UInt64 → UInt64 → UInt64 → UInt64 → UInt64 → UInt64 → UInt64 → UInt64 → UInt64 →
    UInt64 → UInt64 → UInt64 → UInt64 → UInt64 → UInt64 → UInt64 → UInt64 → UInt64 → UInt64 →
    UInt64 → UInt64 → UInt64 → UInt64 → UInt64 → Array UInt64
  | 0, _, a0, a1, a2, a3, a4, a5, a6, a7, a8, a9, a10, a11, a12, a13, a14, a15, a16, a17, a18, a19, a20, a21, a22, a23, a24 =>
    #[a0, a1, a2, a3, a4, a5, a6, a7, a8, a9, a10, a11, a12, a13, a14, a15, a16, a17, a18, a19, a20, a21, a22, a23, a24]
  | n + 1, r, a0, a1, a2, a3, a4, a5, a6, a7, a8, a9, a10, a11, a12, a13, a14, a15, a16, a17, a18, a19, a20, a21, a22, a23, a24 =>
    let c0 := a0 ^^^ a5 ^^^ a10 ^^^ a15 ^^^ a20
    let c1 := a1 ^^^ a6 ^^^ a11 ^^^ a16 ^^^ a21
    let c2 := a2 ^^^ a7 ^^^ a12 ^^^ a17 ^^^ a22
    let c3 := a3 ^^^ a8 ^^^ a13 ^^^ a18 ^^^ a23
    let c4 := a4 ^^^ a9 ^^^ a14 ^^^ a19 ^^^ a24
    let d0 := c4 ^^^ rotl c1 1
    let d1 := c0 ^^^ rotl c2 1
    let d2 := c1 ^^^ rotl c3 1
    let d3 := c2 ^^^ rotl c4 1
    let d4 := c3 ^^^ rotl c0 1
    let b0 := a0 ^^^ d0
    let b1 := rotl (a6 ^^^ d1) 44
    let b2 := rotl (a12 ^^^ d2) 43
    let b3 := rotl (a18 ^^^ d3) 21
    let b4 := rotl (a24 ^^^ d4) 14
    let b5 := rotl (a3 ^^^ d3) 28
    let b6 := rotl (a9 ^^^ d4) 20
    let b7 := rotl (a10 ^^^ d0) 3
    let b8 := rotl (a16 ^^^ d1) 45
    let b9 := rotl (a22 ^^^ d2) 61
    let b10 := rotl (a1 ^^^ d1) 1
    let b11 := rotl (a7 ^^^ d2) 6
    let b12 := rotl (a13 ^^^ d3) 25
    let b13 := rotl (a19 ^^^ d4) 8
    let b14 := rotl (a20 ^^^ d0) 18
    let b15 := rotl (a4 ^^^ d4) 27
    let b16 := rotl (a5 ^^^ d0) 36
    let b17 := rotl (a11 ^^^ d1) 10
    let b18 := rotl (a17 ^^^ d2) 15
    let b19 := rotl (a23 ^^^ d3) 56
    let b20 := rotl (a2 ^^^ d2) 62
    let b21 := rotl (a8 ^^^ d3) 55
    let b22 := rotl (a14 ^^^ d4) 39
    let b23 := rotl (a15 ^^^ d0) 41
    let b24 := rotl (a21 ^^^ d1) 2
    let e0 := b0 ^^^ (~~~b1 &&& b2)
    let e1 := b1 ^^^ (~~~b2 &&& b3)
    let e2 := b2 ^^^ (~~~b3 &&& b4)
    let e3 := b3 ^^^ (~~~b4 &&& b0)
    let e4 := b4 ^^^ (~~~b0 &&& b1)
    let e5 := b5 ^^^ (~~~b6 &&& b7)
    let e6 := b6 ^^^ (~~~b7 &&& b8)
    let e7 := b7 ^^^ (~~~b8 &&& b9)
    let e8 := b8 ^^^ (~~~b9 &&& b5)
    let e9 := b9 ^^^ (~~~b5 &&& b6)
    let e10 := b10 ^^^ (~~~b11 &&& b12)
    let e11 := b11 ^^^ (~~~b12 &&& b13)
    let e12 := b12 ^^^ (~~~b13 &&& b14)
    let e13 := b13 ^^^ (~~~b14 &&& b10)
    let e14 := b14 ^^^ (~~~b10 &&& b11)
    let e15 := b15 ^^^ (~~~b16 &&& b17)
    let e16 := b16 ^^^ (~~~b17 &&& b18)
    let e17 := b17 ^^^ (~~~b18 &&& b19)
    let e18 := b18 ^^^ (~~~b19 &&& b15)
    let e19 := b19 ^^^ (~~~b15 &&& b16)
    let e20 := b20 ^^^ (~~~b21 &&& b22)
    let e21 := b21 ^^^ (~~~b22 &&& b23)
    let e22 := b22 ^^^ (~~~b23 &&& b24)
    let e23 := b23 ^^^ (~~~b24 &&& b20)
    let e24 := b24 ^^^ (~~~b20 &&& b21)
    rounds n (r + 1) (e0 ^^^ RC.getD r 0) e1 e2 e3 e4 e5 e6 e7 e8 e9 e10 e11 e12 e13 e14 e15 e16 e17 e18 e19 e20 e21 e22 e23 e24

/-- Keccak-f[1600]: 24 rounds -/
def keccakF (a : Array UInt64) : Array UInt64 :=
  rounds 24 0 (ln a 0) (ln a 1) (ln a 2) (ln a 3) (ln a 4) (ln a 5) (ln a 6) (ln a 7) (ln a 8) (ln a 9) (ln a 10) (ln a 11) (ln a 12) (ln a 13) (ln a 14) (ln a 15) (ln a 16) (ln a 17) (ln a 18) (ln a 19) (ln a 20) (ln a 21) (ln a 22) (ln a 23) (ln a 24)

/-- xor `n` message lanes starting at lane `off` of `m` into the state, lanes 0..n-1 -/
def absorbLanes (m : Array UInt64) (off : Nat) : Nat → Nat → Array UInt64 → Array UInt64
  | 0, _, a => a
  | n + 1, i, a => absorbLanes m off n (i + 1) (a.setIfInBounds i (ln a i ^^^ ln m (off + i)))

/-- absorb `nblocks` blocks of `rate/8` lanes -/
def absorb (m : Array UInt64) (lanes : Nat) : Nat → Nat → Array UInt64 → Array UInt64
  | 0, _, a => a
  | n + 1, off, a => absorb m lanes n (off + lanes) (keccakF (absorbLanes m off lanes 0 a))

/-- pad10*1 with the SHA-3 domain bits 01 (§B.2): first pad byte 0x06, last 0x80 (0x86 if they coincide) -/
def pad (rate : Nat) (msg : Bytes) : Bytes :=
  let q := rate - msg.length % rate
  if q = 1 then msg ++ [0x86] else msg ++ (0x06 :: (zeros (q - 2) ++ [0x80]))

/-- SHA-3 with the given rate (bytes, multiple of 8) and digest length (bytes, ≤ rate) -/
def sponge (rate outLen : Nat) (msg : Bytes) : Bytes :=
  let m := le64Words (pad rate msg)
  let lanes := rate / 8
  let a := absorb m lanes (m.size / lanes) 0 (Array.replicate 25 0)
  (a.toList.flatMap ofU64le).take outLen

end Qx.Crypto.Sha3

namespace Qx.Crypto
/-- SHA3-256: 32-byte digest, rate (= HMAC block size) 136 bytes -/
def sha3_256 (msg : Bytes) : Bytes := Sha3.sponge 136 32 msg
/-- SHA3-512: 64-byte digest, rate (= HMAC block size) 72 bytes -/
def sha3_512 (msg : Bytes) : Bytes := Sha3.sponge 72 64 msg
end Qx.Crypto
