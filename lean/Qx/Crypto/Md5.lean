/-
MD5 (RFC 1321), executable spec.  Core Lean only; total functions.
Cross-checked against python `hashlib` by /verif/tools/crypto_selftest.py.
-/
import Qx.Base.Bytes

namespace Qx.Crypto.Md5
open Qx Qx.Bytes

@[inline] def rotl (x : UInt32) (n : UInt32) : UInt32 := (x <<< n) ||| (x >>> (32 - n))

/-- T[i] = floor(2^32 * |sin(i+1)|) (RFC 1321 §3.4) -/
def K : Array UInt32 := #[
  0xd76aa478, 0xe8c7b756, 0x242070db, 0xc1bdceee, 0xf57c0faf, 0x4787c62a, 0xa8304613, 0xfd469501,
  0x698098d8, 0x8b44f7af, 0xffff5bb1, 0x895cd7be, 0x6b901122, 0xfd987193, 0xa679438e, 0x49b40821,
  0xf61e2562, 0xc040b340, 0x265e5a51, 0xe9b6c7aa, 0xd62f105d, 0x02441453, 0xd8a1e681, 0xe7d3fbc8,
  0x21e1cde6, 0xc33707d6, 0xf4d50d87, 0x455a14ed, 0xa9e3e905, 0xfcefa3f8, 0x676f02d9, 0x8d2a4c8a,
  0xfffa3942, 0x8771f681, 0x6d9d6122, 0xfde5380c, 0xa4beea44, 0x4bdecfa9, 0xf6bb4b60, 0xbebfbc70,
  0x289b7ec6, 0xeaa127fa, 0xd4ef3085, 0x04881d05, 0xd9d4d039, 0xe6db99e5, 0x1fa27cf8, 0xc4ac5665,
  0xf4292244, 0x432aff97, 0xab9423a7, 0xfc93a039, 0x655b59c3, 0x8f0ccc92, 0xffeff47d, 0x85845dd1,
  0x6fa87e4f, 0xfe2ce6e0, 0xa3014314, 0x4e0811a1, 0xf7537e82, 0xbd3af235, 0x2ad7d2bb, 0xeb86d391]

/-- per-round left-rotation amounts -/
def S : Array UInt32 := #[
  7, 12, 17, 22, 7, 12, 17, 22, 7, 12, 17, 22, 7, 12, 17, 22, 5, 9, 14, 20, 5, 9, 14, 20, 5, 9, 14, 20, 5, 9, 14, 20, 4, 11, 16, 23, 4, 11, 16, 23, 4, 11, 16, 23, 4, 11, 16, 23, 6, 10, 15, 21, 6, 10, 15, 21, 6, 10, 15, 21, 6, 10, 15, 21]

structure St where
  a : UInt32
  b : UInt32
  c : UInt32
  d : UInt32

/-- §3.3 -/
def iv : St := ⟨0x67452301, 0xefcdab89, 0x98badcfe, 0x10325476⟩

/-- the auxiliary function of round `i` (F, G, H, I of §3.4) -/
@[inline] def aux (i : Nat) (b c d : UInt32) : UInt32 :=
  if i < 16 then (b &&& c) ||| (~~~b &&& d)
  else if i < 32 then (d &&& b) ||| (~~~d &&& c)
  else if i < 48 then b ^^^ c ^^^ d
  else c ^^^ (b ||| ~~~d)

/-- index of the message word used in round `i` -/
@[inline] def widx (i : Nat) : Nat :=
  if i < 16 then i
  else if i < 32 then (5 * i + 1) % 16
  else if i < 48 then (3 * i + 5) % 16
  else (7 * i) % 16

/-- `n` operations starting at operation `i` on the block at word offset `off` -/
def rounds (m : Array UInt32) (off : Nat) : Nat → Nat → UInt32 → UInt32 → UInt32 → UInt32 → St
  | 0, _, a, b, c, d => ⟨a, b, c, d⟩
  | n + 1, i, a, b, c, d =>
    let f := aux i b c d + a + K.getD i 0 + m.getD (off + widx i) 0
    rounds m off n (i + 1) d (b + rotl f (S.getD i 0)) b c

def compress (s : St) (m : Array UInt32) (off : Nat) : St :=
  let r := rounds m off 64 0 s.a s.b s.c s.d
  ⟨s.a + r.a, s.b + r.b, s.c + r.c, s.d + r.d⟩

def blocks (m : Array UInt32) : Nat → Nat → St → St
  | 0, _, s => s
  | n + 1, off, s => blocks m n (off + 16) (compress s m off)

/-- §3.1-3.2: 0x80, zeros, 64-bit little-endian bit length -/
def pad (msg : Bytes) : Bytes := mdPad 64 (putU64le (8 * msg.length)) msg

def digestOf (s : St) : Bytes := ofU32le s.a ++ ofU32le s.b ++ ofU32le s.c ++ ofU32le s.d

/-- MD5 of a byte string (16 bytes) -/
def hash (msg : Bytes) : Bytes :=
  let m := le32Words (pad msg)
  digestOf (blocks m (m.size / 16) 0 iv)

end Qx.Crypto.Md5

namespace Qx.Crypto
/-- MD5, 16-byte digest, 64-byte block -/
def md5 (msg : Bytes) : Bytes := Md5.hash msg
end Qx.Crypto
