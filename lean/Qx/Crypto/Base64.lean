/-
Base64 (RFC 4648 §4, standard alphabet, '=' padding).  Core Lean only; total.

* `encode`      : canonical encoding.
* `decode?`     : strict decoder: length multiple of 4, alphabet characters only, padding only as the last one or
                  two characters, unused trailing bits zero (RFC 4648 §3.5).  Hence `decode? s = some b` exactly
                  when `s = encode b`.
* `decodeLenient`: `QByteArray::fromBase64` of Qt 5.15 with default options: every character outside the alphabet
                  (including '=' anywhere) is skipped, leftover bits are dropped, never fails.
All three work on ASCII bytes; `…Str` variants on `String`.
-/
import Qx.Base.Bytes

namespace Qx.Crypto.Base64
open Qx Qx.Bytes

/-- alphabet character (as ASCII code) of a 6-bit value -/
def encChar (v : Nat) : UInt8 :=
  if v < 26 then UInt8.ofNat (65 + v)
  else if v < 52 then UInt8.ofNat (97 + (v - 26))
  else if v < 62 then UInt8.ofNat (48 + (v - 52))
  else if v = 62 then 43 else 47

/-- 6-bit value of an alphabet character -/
def decChar (c : UInt8) : Option Nat :=
  let n := c.toNat
  if 65 ≤ n ∧ n ≤ 90 then some (n - 65)
  else if 97 ≤ n ∧ n ≤ 122 then some (n - 97 + 26)
  else if 48 ≤ n ∧ n ≤ 57 then some (n - 48 + 52)
  else if n = 43 then some 62
  else if n = 47 then some 63
  else none

def padChar : UInt8 := 61

/-- RFC 4648 §4 encoding (ASCII bytes) -/
def encode : Bytes → Bytes
  | a :: b :: c :: rest =>
    let n := a.toNat * 65536 + b.toNat * 256 + c.toNat
    encChar (n / 262144) :: encChar (n / 4096 % 64) :: encChar (n / 64 % 64) :: encChar (n % 64) :: encode rest
  | [a, b] =>
    let n := a.toNat * 65536 + b.toNat * 256
    [encChar (n / 262144), encChar (n / 4096 % 64), encChar (n / 64 % 64), padChar]
  | [a] =>
    let n := a.toNat * 65536
    [encChar (n / 262144), encChar (n / 4096 % 64), padChar, padChar]
  | [] => []

/-- strict decoder (see header) -/
def decode? : Bytes → Option Bytes
  | [] => some []
  | [c0, c1, c2, c3] =>
    match decChar c0, decChar c1 with
    | some v0, some v1 =>
      if c2 = padChar then
        if c3 = padChar ∧ v1 % 16 = 0 then some [UInt8.ofNat (v0 * 4 + v1 / 16)] else none
      else
        match decChar c2 with
        | none => none
        | some v2 =>
          if c3 = padChar then
            if v2 % 4 = 0 then some [UInt8.ofNat (v0 * 4 + v1 / 16), UInt8.ofNat (v1 % 16 * 16 + v2 / 4)] else none
          else
            match decChar c3 with
            | none => none
            | some v3 =>
              some [UInt8.ofNat (v0 * 4 + v1 / 16), UInt8.ofNat (v1 % 16 * 16 + v2 / 4), UInt8.ofNat (v2 % 4 * 64 + v3)]
    | _, _ => none
  | c0 :: c1 :: c2 :: c3 :: rest =>
    match decChar c0, decChar c1, decChar c2, decChar c3 with
    | some v0, some v1, some v2, some v3 =>
      (decode? rest).map fun t =>
        UInt8.ofNat (v0 * 4 + v1 / 16) :: UInt8.ofNat (v1 % 16 * 16 + v2 / 4) :: UInt8.ofNat (v2 % 4 * 64 + v3) :: t
    | _, _, _, _ => none
  | _ => none

/-- worker of `decodeLenient`: `buf` holds `nbits` (< 8) pending bits -/
def lenientGo : Bytes → Nat → Nat → Bytes
  | [], _, _ => []
  | c :: rest, buf, nbits =>
    match decChar c with
    | none => lenientGo rest buf nbits
    | some d =>
      let buf' := buf * 64 + d
      let nb := nbits + 6
      if nb ≥ 8 then
        UInt8.ofNat (buf' / 2 ^ (nb - 8)) :: lenientGo rest (buf' % 2 ^ (nb - 8)) (nb - 8)
      else lenientGo rest buf' nb

/-- `QByteArray::fromBase64` (Qt 5.15, default options) -/
def decodeLenient (s : Bytes) : Bytes := lenientGo s 0 0

def encodeStr (bs : Bytes) : String := asciiStr (encode bs)
def decodeStr? (s : String) : Option Bytes := decode? (strBytes s)
def decodeLenientStr (s : String) : Bytes := decodeLenient (strBytes s)

end Qx.Crypto.Base64
