import Qx.Xml.Codec.Schema
/-!
Schemas of qxmpp stanza / nonza classes, transcribed from the C++ `toXml` + `fromDom`/`parse` pairs
(file and line of the pair given with each schema; /repo at the pinned tree).  Field order = the
order in which `toXml` writes, so `encode` reproduces the library's own output form.

Where the code differs from what C01 demands the convention is a second schema ending in `Code` that models the code as it
is (not well-formed) next to the repaired one.  Several C++ classes behave
differently depending on a query type or on the namespace they are found in (PubSub IQ, service discovery, PubSub
subscription): they have one schema per variant, each valid for the documents of that variant (the harness leaves the
others out of that schema's correspondence and counts them).
No proofs here, no Mathlib.
-/
namespace Qx.Xml.Codec.Classes
open Qx.Xml Qx.Xml.Codec

def s (x : String) : Str := x.toList

/-! namespaces (src/base/QXmppConstants_p.h) -/
def nsSm := s "urn:xmpp:sm:3"
def nsStanza := s "urn:ietf:params:xml:ns:xmpp-stanzas"
def nsSasl := s "urn:ietf:params:xml:ns:xmpp-sasl"
def nsSasl2 := s "urn:xmpp:sasl:2"
def nsBind := s "urn:ietf:params:xml:ns:xmpp-bind"
def nsBind2 := s "urn:xmpp:bind:0"
def nsFast := s "urn:xmpp:fast:0"
def nsCsi := s "urn:xmpp:csi:0"
def nsCarbons := s "urn:xmpp:carbons:2"
def nsTls := s "urn:ietf:params:xml:ns:xmpp-tls"
def nsVersion := s "jabber:iq:version"
def nsIbb := s "http://jabber.org/protocol/ibb"
def nsClient := s "jabber:client"
def nsOob := s "jabber:x:oob"
def nsMixMisc := s "urn:xmpp:mix:misc:0"
def nsHashes := s "urn:xmpp:hashes:2"
def nsTm := s "urn:xmpp:tm:1"
def nsRtcpFb := s "urn:xmpp:jingle:apps:rtp:rtcp-fb:0"

/-- element written with `writeDefaultNamespace`, looked up by tag and namespace -/
def declHead (tag : String) (ns : Str) : Head := { tag := s tag, ns := ns, decl := true, anyNs := false, anyTag := false, nsAfter := false }
/-- element written without namespace declaration (inherits `ns` from its parent), looked up by tag
and namespace -/
def inhHead (tag : String) (ns : Str) : Head := { tag := s tag, ns := ns, decl := false, anyNs := false, anyTag := false, nsAfter := false }
/-- element written without namespace declaration, looked up by tag only -/
def anyHead (tag : String) (ns : Str) : Head := { tag := s tag, ns := ns, decl := false, anyNs := true, anyTag := false, nsAfter := false }

/-- `x == u"true" || x == u"1"` / `parseBoolean(x).value_or(false)`; written as `true` -/
def boolTrue1 : FTy := .flag [s "true", s "1"]

/-- `QXmppStanza::Error::Condition`, index = enum value (src/base/QXmppStanza.h:110-139,
strings src/base/QXmppStanza.cpp:29-140) -/
def stanzaConditions : List Str := [
  "bad-request", "conflict", "feature-not-implemented", "forbidden", "gone", "internal-server-error",
  "item-not-found", "jid-malformed", "not-acceptable", "not-allowed", "not-authorized", "payment-required",
  "recipient-unavailable", "redirect", "registration-required", "remote-server-not-found",
  "remote-server-timeout", "resource-constraint", "service-unavailable", "subscription-required",
  "undefined-condition", "unexpected-request", "policy-violation"].map s

/-- `SASL_ERROR_CONDITIONS` (src/base/QXmppSasl.cpp:37-49) -/
def saslConditions : List Str := [
  "aborted", "account-disabled", "credentials-expired", "encryption-required", "incorrect-encoding",
  "invalid-authzid", "invalid-mechanism", "malformed-request", "mechanism-too-weak", "not-authorized",
  "temporary-auth-failure"].map s

def nonza (h : Head) (fields : List Field) : Schema := { head := h, fields := fields, check := .strict, inh := [] }
/-- IQ payload: parsed by `parseElementFromChild(iq)` = `firstChildElement(iq, tag)`, the `<iq/>`
wrapper is in `jabber:client` -/
def iqPayload (h : Head) (fields : List Field) : Schema :=
  { head := h, fields := fields, check := .tagElseNull, inh := nsClient }

/-! ### XEP-0198 stream management (src/base/QXmppStreamManagement.cpp:17-165) -/

def smEnableFields : List Field := [.attr (s "resume") boolTrue1 true, .attr (s "max") (.nat 64) true]
def SmEnable := nonza (declHead "enable" nsSm) smEnableFields

def smEnabledFields : List Field := [
  .attr (s "resume") boolTrue1 true, .attr (s "id") .str true,
  .attr (s "max") (.nat 64) true, .attr (s "location") .str true]
def SmEnabled := nonza (declHead "enabled" nsSm) smEnabledFields

def smResumeFields : List Field := [.attr (s "h") (.nat 32) false, .attr (s "previd") .str false]
def SmResume := nonza (declHead "resume" nsSm) smResumeFields
def SmResumed := nonza (declHead "resumed" nsSm) smResumeFields

/-- `h` (stanzas handled on the session that could not be resumed) since /repo 29f1a4c: `toUInt(&ok)`, unset when absent or
unparsable, written when set -/
def smFailedFields : List Field := [.enumChild nsStanza true false stanzaConditions false, .attr (s "h") (.optNat 32) true]
def SmFailed := nonza (declHead "failed" nsSm) smFailedFields

def SmAck := nonza (declHead "a" nsSm) [.attr (s "h") (.nat 32) false]
def SmRequest := nonza (declHead "r" nsSm) []

/-! ### SASL, STARTTLS (src/base/QXmppSasl.cpp:187-200, src/base/Stream.cpp:41-65) -/

def SaslSuccess := nonza (declHead "success" nsSasl) []
def StarttlsRequest := nonza (declHead "starttls" nsTls) []
def StarttlsProceed := nonza (declHead "proceed" nsTls) []

/-! ### Bind 2, FAST, SASL 2 (src/base/QXmppSasl.cpp:203-650) -/

def bind2FeatureFields : List Field := [
  .child (inhHead "inline" nsBind2) [.many (inhHead "feature" nsBind2) [.attr (s "var") .str false] false] .wrapOmit]
def Bind2Feature := nonza (declHead "bind" nsBind2) bind2FeatureFields

def bind2RequestFields : List Field := [
  .textChild (inhHead "tag" nsBind2) .str true,
  .flagChild (declHead "inactive" nsCsi),
  .flagChild (declHead "enable" nsCarbons),
  .child (declHead "enable" nsSm) smEnableFields .optional]
def Bind2Request := nonza (declHead "bind" nsBind2) bind2RequestFields

def bind2BoundFields : List Field := [
  .child (declHead "failed" nsSm) smFailedFields .optional,
  .child (declHead "enabled" nsSm) smEnabledFields .optional]
def Bind2Bound := nonza (declHead "bound" nsBind2) bind2BoundFields

def fastMechanisms : Field := .many (inhHead "mechanism" nsFast) [.text .str] false
/-- `FastFeature` (src/base/QXmppSasl.cpp:289-318); `tls-0rtt` is written when set (since /repo e3c2af8,
before that `toXml` dropped it: fixed finding C01:field-mismatch:FastFeature:tls0rtt) -/
def fastFeatureFields : List Field := [fastMechanisms, .attr (s "tls-0rtt") boolTrue1 true]
def FastFeature := nonza (declHead "fast" nsFast) fastFeatureFields

def FastTokenRequest := nonza (declHead "request-token" nsFast) [.attr (s "mechanism") .str false]

def FastRequest := nonza (declHead "fast" nsFast) [
  .attr (s "count") (.optNat 64) true, .attr (s "invalidate") boolTrue1 true]

def sasl2StreamFeatureFieldsWith (fast : List Field) : List Field := [
  .many (inhHead "mechanism" nsSasl2) [.text .str] false,
  .child (inhHead "inline" nsSasl2) [
    .child (declHead "bind" nsBind2) bind2FeatureFields .optional,
    .child (declHead "fast" nsFast) fast .optional,
    .flagChild (declHead "sm" nsSm)] .wrapOmit]
def Sasl2StreamFeature := nonza (declHead "authentication" nsSasl2) (sasl2StreamFeatureFieldsWith fastFeatureFields)

def Sasl2Failure := nonza (declHead "failure" nsSasl2) [
  .enumChild nsSasl true false saslConditions true,
  .textChild (inhHead "text" nsSasl2) .str true]

def Sasl2Abort := nonza (declHead "abort" nsSasl2) [.textChild (inhHead "text" nsSasl2) .str true]

/-! ### plain value classes and IQ payloads -/

/-- `QXmppExtendedAddress` (src/base/QXmppStanza.cpp:281-301): no type check, no namespace written -/
def ExtendedAddress : Schema := {
  head := { tag := s "address", ns := [], decl := false, anyNs := false, anyTag := false, nsAfter := false }, check := .unchecked, inh := [],
  fields := [.attr (s "delivered") (.flag [s "true"]) true, .attr (s "desc") .str true,
    .attr (s "jid") .str false, .attr (s "type") .str false] }

/-- `QXmppBindIq` payload (src/base/QXmppBindIq.cpp:58-78) -/
def BindIq := iqPayload (declHead "bind" nsBind) [
  .textChild (anyHead "jid" nsBind) .str true, .textChild (anyHead "resource" nsBind) .str true]

/-- `QXmppVersionIq` payload (src/base/QXmppVersionIq.cpp:77-103) -/
def VersionIq := iqPayload (declHead "query" nsVersion) [
  .textChild (anyHead "name" nsVersion) .str true, .textChild (anyHead "os" nsVersion) .str true,
  .textChild (anyHead "version" nsVersion) .str true]

/-- `QXmppIbbCloseIq` payload (src/base/QXmppIbbIq.cpp:127-139) -/
def IbbCloseIq := iqPayload (declHead "close" nsIbb) [.attr (s "sid") .str false]

/-! ### SASL / SASL 2 elements with Base64 bodies (src/base/QXmppSasl.cpp:81-186, 455-495, 581-630) -/

def SaslAuth := nonza (declHead "auth" nsSasl) [.attr (s "mechanism") .str false, .text .b64]
def SaslChallenge := nonza (declHead "challenge" nsSasl) [.text .b64]
def SaslResponse := nonza (declHead "response" nsSasl) [.text .b64]
def Sasl2Challenge := nonza (declHead "challenge" nsSasl2) [.text .b64]
def Sasl2Response := nonza (declHead "response" nsSasl2) [.text .b64]

/-- `<continue/>`: tasks are every child element of `<tasks/>` whatever its name; at least one is
mandatory -/
def Sasl2Continue := nonza (declHead "continue" nsSasl2) [
  .textChild (inhHead "additional-data" nsSasl2) .b64 true,
  .child (inhHead "tasks" nsSasl2)
    [.many { tag := s "task", ns := nsSasl2, decl := false, anyNs := true, anyTag := true } [.text .str] true]
    .wrapAlways,
  .textChild (inhHead "text" nsSasl2) .str true]

/-! ### further value classes -/

/-- `QXmpp::HashAlgorithm` without `Unknown` (= absent / unknown string), src/base/QXmppHash.cpp:20-100 -/
def hashAlgorithms : List Str := ["md2", "md5", "shake128", "shake256", "sha-1", "sha-224", "sha-256", "sha-384",
  "sha-512", "sha3-256", "sha3-512", "blake2b-256", "blake2b-512"].map s

/-- `QXmppHash` (src/base/QXmppHash.cpp:117-142): `algo` is always written, empty for `Unknown` -/
def Hash := nonza (declHead "hash" nsHashes) [.attr (s "algo") (.enum hashAlgorithms) false, .text .b64]

def unchecked (h : Head) (fields : List Field) : Schema := { head := h, fields := fields, check := .unchecked, inh := [] }

/-- `QXmppMixInvitation` (src/base/QXmppMixInvitation.cpp:137-156) -/
def MixInvitation := unchecked (declHead "invitation" nsMixMisc) [
  .textChild (anyHead "inviter" nsMixMisc) .str true, .textChild (anyHead "invitee" nsMixMisc) .str true,
  .textChild (anyHead "channel" nsMixMisc) .str true, .textChild (anyHead "token" nsMixMisc) .str true]

/-- `QXmppOutOfBandUrl` (src/base/QXmppOutOfBandUrl.cpp:72-92): `<url/>` always written, `<desc/>` is a
`std::optional<QString>` -/
def OutOfBandUrl := unchecked (declHead "x" nsOob) [
  .textChild (anyHead "url" nsOob) .str false, .child (anyHead "desc" nsOob) [.text .str] .optional]

/-- `QXmppPubSubAffiliation` (src/base/QXmppPubSubAffiliation.cpp:29-36, 147-162) -/
def PubSubAffiliation := unchecked { tag := s "affiliation", ns := [], decl := false, anyNs := false, anyTag := false, nsAfter := false } [
  .attr (s "affiliation") (.enumD (["none", "member", "outcast", "owner", "publisher", "publish-only"].map s) 0) false,
  .attr (s "node") .str true, .attr (s "jid") .str true]

/-- `QXmppSdpParameter` (src/base/QXmppJingleData.cpp:2192-2208) -/
def SdpParameter := unchecked { tag := s "parameter", ns := [], decl := false, anyNs := false, anyTag := false, nsAfter := false } [
  .attr (s "name") .str true, .attr (s "value") .str true]

/-- `QXmppJingleRtpFeedbackInterval` (src/base/QXmppJingleData.cpp:2651-2662) -/
def RtpFeedbackInterval := unchecked (declHead "rtcp-fb-trr-int" nsRtcpFb) [.attr (s "value") (.nat 32) false]

/-- `QXmppTrustMessageKeyOwner` (src/base/QXmppTrustMessages.cpp:266-300) -/
def trustKeyOwnerFields : List Field := [
  .attr (s "jid") .str false,
  .many (anyHead "trust" nsTm) [.text .b64] false, .many (anyHead "distrust" nsTm) [.text .b64] false]
def TrustMessageKeyOwner : Schema :=
  { head := inhHead "key-owner" nsTm, fields := trustKeyOwnerFields, check := .unchecked, inh := nsTm }

/-- `QXmppTrustMessageElement` (src/base/QXmppTrustMessages.cpp:126-152) -/
def TrustMessageElement := unchecked (declHead "trust-message" nsTm) [
  .attr (s "usage") .str false, .attr (s "encryption") .str false,
  .many (inhHead "key-owner" nsTm) trustKeyOwnerFields false]

/-! ### stream features (src/base/QXmppStreamFeatures.cpp:291-386) -/

def nsSession := s "urn:ietf:params:xml:ns:xmpp-session"
def nsAuthFeature := s "http://jabber.org/features/iq-auth"
def nsRegisterFeature := s "http://jabber.org/features/iq-register"
def nsPreApproval := s "urn:xmpp:features:pre-approval"
def nsRosterVer := s "urn:xmpp:features:rosterver"
def nsCompressFeature := s "http://jabber.org/features/compress"

/-- `QXmppStreamFeatures::Mode`: absent = Disabled, `<x xmlns=…/>` = Enabled, with `<required/>` inside = Required -/
def modeFeature (tag : String) (ns : Str) : Field :=
  .child (declHead tag ns) [.flagChild (anyHead "required" ns)] .optional

/-- the same shape without a namespace declaration, both elements looked up by tag alone -/
def modeFeatureInh (tag : String) (ns : Str) : Field :=
  .child (anyHead tag ns) [.flagChild (anyHead "required" ns)] .optional

def streamFeaturesFieldsWith (sasl2 : List Field) : List Field := [
  modeFeature "bind" nsBind, modeFeature "session" nsSession, modeFeature "auth" nsAuthFeature,
  modeFeature "starttls" nsTls, modeFeature "sm" nsSm, modeFeature "csi" nsCsi, modeFeature "register" nsRegisterFeature,
  .flagChild (declHead "sub" nsPreApproval), .flagChild (declHead "ver" nsRosterVer),
  .child (declHead "compression" nsCompressFeature) [.many (anyHead "method" nsCompressFeature) [.text .str] false] .wrapOmit,
  .child (declHead "mechanisms" nsSasl) [.many (anyHead "mechanism" nsSasl) [.text .str] false] .wrapOmit,
  .child (declHead "authentication" nsSasl2) sasl2 .optional]

/-- `<stream:features/>` is written with the stream's prefix and no declaration of its own: it is parsed
inside `<stream:stream xmlns="jabber:client" xmlns:stream=…>`; `head.ns` is the default namespace in
scope for its children.  `parse` has no type check. -/
def streamFeaturesWith (sasl2 : List Field) : Schema :=
  { head := { tag := s "stream:features", ns := nsClient, decl := false, anyNs := false, anyTag := false, nsAfter := false }, fields := streamFeaturesFieldsWith sasl2,
    check := .unchecked, inh := nsClient }
def StreamFeatures := streamFeaturesWith (sasl2StreamFeatureFieldsWith fastFeatureFields)

/-! ### FAST token and SASL 2 success (src/base/QXmppSasl.cpp:331-350, 497-545); date-times: tier B -/

def fastTokenFields : List Field := [.attr (s "expiry") .dateTime false, .attr (s "token") .str false]
def FastToken := nonza (declHead "token" nsFast) fastTokenFields

def Sasl2Success := nonza (declHead "success" nsSasl2) [
  .child (inhHead "additional-data" nsSasl2) [.text .b64] .optional,
  .textChild (inhHead "authorization-identifier" nsSasl2) .str false,
  .child (declHead "bound" nsBind2) bind2BoundFields .optional,
  .child (declHead "resumed" nsSm) smResumeFields .optional,
  .child (declHead "failed" nsSm) smFailedFields .optional,
  .child (declHead "token" nsFast) fastTokenFields .optional]

/-! ### XEP-0059 result sets (src/base/QXmppResultSet.cpp:96-133, 210-247)

`parse(el)` takes `el` itself when it is called `set`, else `el.firstChildElement("set")` (by tag alone), and
reads it only if its namespace is the RSM one; `toXml` writes nothing when every part is unset.  Modelled as
the `<set/>` child of an enclosing element (the harness supplies `<x>…</x>`); a root element that is
itself called `set` is outside the model (the harness skips those documents).  The `int` members mean "value
or unset" and are carried as `Option Nat`, every negative number being "unset": `toXml` tests `>= 0` and, since
/repo 4885fb5, `isNull()` tests `< 0` (before that `== -1`: fixed finding C02:not-fixpoint:ResultSetQuery). -/

def nsRsm := s "http://jabber.org/protocol/rsm"
def rsmSet : Head := { tag := s "set", ns := nsRsm, decl := true, anyNs := true, nsAfter := true }
def rsmHolder (fields : List Field) (mode : ChildMode) : Schema :=
  { head := { tag := s "x", ns := [], decl := false, anyNs := false, anyTag := false, nsAfter := false }, fields := [.child rsmSet fields mode],
    check := .unchecked, inh := [] }
def rsmInt (tag : String) (ty : FTy) : Field := .child (anyHead tag nsRsm) [.text ty] .wrapOmit
/-- `QString` that is written when not null: absent ⇔ null -/
def rsmStr (tag : String) : Field := .child (anyHead tag nsRsm) [.text .str] .optional

/-- `<set/>` is written iff some part is set, and an absent `<set/>` reads like an empty one -/
def ResultSetQuery := rsmHolder [rsmInt "max" (.optInt 31), rsmStr "after", rsmStr "before", rsmInt "index" (.optInt 31)] .wrapOmit

def rsmFirst : Field := .child (anyHead "first" nsRsm) [.attr (s "index") (.optInt 31) true, .text .str] .optional
/-- `QXmppResultSetReply`; `<count/>` is read like the other integers since /repo 4885fb5 (before that with
`toInt()` and no fallback: fixed findings C01:field-mismatch:ResultSetReply:set.2.0 and relatives) -/
def ResultSetReply := rsmHolder [rsmFirst, rsmStr "last", rsmInt "count" (.optInt 31)] .wrapOmit

/-! ### XEP-0060 PubSub IQ, one schema per query type (src/base/QXmppPubSubIq.cpp:421-634)

`PubSubIqBase::parseElementFromChild` takes `iq.firstChildElement("pubsub")` (any namespace), then the FIRST element
child of that as the query element; its tag selects the query type (`PUBSUB_QUERIES`), the namespace only separates
the owner variants.  Each schema below describes ONE query type: which attributes of the query element are read and
written (`jid`, `node` always; `subid` only for items / unsubscribe / options).  A document whose first child selects
another query type is outside that schema (the harness leaves it out of the correspondence of that schema); so is an
object carrying a data form (`<options/>`, `<configure/>` siblings), which these schemas do not describe. -/

def nsPubsub := s "http://jabber.org/protocol/pubsub"
def nsPubsubOwner := s "http://jabber.org/protocol/pubsub#owner"

def pubsubQuery (ns : Str) (tag : String) (attrs : List String) : Schema :=
  iqPayload (declHead "pubsub" ns) [.child (anyHead tag ns) (attrs.map fun a => .attr (s a) .str true) .wrapAlways]

def PubSubIqUnsubscribe := pubsubQuery nsPubsub "unsubscribe" ["jid", "node", "subid"]
def PubSubIqSubscribe := pubsubQuery nsPubsub "subscribe" ["jid", "node"]
def PubSubIqOptions := pubsubQuery nsPubsub "options" ["jid", "node", "subid"]
def PubSubIqCreate := pubsubQuery nsPubsub "create" ["jid", "node"]
def PubSubIqDelete := pubsubQuery nsPubsubOwner "delete" ["jid", "node"]
def PubSubIqPurge := pubsubQuery nsPubsubOwner "purge" ["jid", "node"]
def PubSubIqConfigure := pubsubQuery nsPubsubOwner "configure" ["jid", "node"]
def PubSubIqDefault := pubsubQuery nsPubsub "default" ["jid", "node"]
def PubSubIqOwnerDefault := pubsubQuery nsPubsubOwner "default" ["jid", "node"]

/-! ### `QXmppStanza::Error` (src/base/QXmppStanza.cpp:557-640)

`parse(errorElement)` loops over ALL children: in namespace `ns_stanza` a `<text/>` sets the text, any other tag sets the
condition (unknown tag ⇒ `NoCondition`), so the LAST such child wins; the redirection URI is the text of a `gone` /
`redirect` condition and `toXml` writes it only for those two.  `toXml` writes nothing at all when neither type nor
condition is set.  `code` is an `int` written when `> 0`.  The `<text/>` carries a constant `xml:lang="en"`.
Modelled as the `<error/>` child of a holder `<iq xmlns="jabber:client">` (what `QXmppStanza::parse` hands over is
`firstChildElement(stanza, "error")`).
Canonical values: the URI is empty unless the condition is gone/redirect (the getter may still return an URI parsed from an
EARLIER `<gone/>`; it is never written), and `by`, `code`, text are unset when both type and condition are (`wrapGuard`:
such an object is "no error" for the class, it serializes to nothing; the harness reports an error without type and
condition as all-unset accordingly).  Outside the model (left out of the correspondence by the harness, still under the
model-independent oracles): the XEP-0363 children `<file-too-large/>` / `<retry/>`. -/

def errorTypes : List Str := ["cancel", "continue", "modify", "auth", "wait"].map s

def stanzaErrorFields : List Field := [
  .attr (s "by") .str true, .attr (s "type") (.enum errorTypes) true, .attr (s "code") (.posInt 31) true,
  .tagChild nsStanza true false stanzaConditions [s "text"] false true [4, 13],
  .child { tag := s "text", ns := nsStanza, decl := true, anyNs := false, last := true, extra := [(s "xml:lang", s "en")] }
    [.text .str] .wrapOmit]

def StanzaError : Schema :=
  { head := declHead "iq" nsClient, check := .unchecked, inh := [],
    fields := [.child (anyHead "error" nsClient) stanzaErrorFields (.wrapGuard [false, true, false, true])] }

/-! ### XEP-0045 `QXmppMucItem`, `QXmppMucAdminIq` (src/base/QXmppMucIq.cpp:179-245): affiliation and role are
lower-cased before the lookup -/

def nsMucAdmin := s "http://jabber.org/protocol/muc#admin"
def mucItemFields : List Field := [
  .attr (s "affiliation") (.enumL (["outcast", "none", "member", "admin", "owner"].map s)) true,
  .attr (s "jid") .str true, .attr (s "nick") .str true,
  .attr (s "role") (.enumL (["none", "visitor", "participant", "moderator"].map s)) true,
  .child (anyHead "actor" []) [.attr (s "jid") .str true] .wrapOmit,
  .textChild (anyHead "reason" []) .str true]
def MucItem := unchecked { tag := s "item", ns := [], decl := false, anyNs := false } mucItemFields
def MucAdminIq := iqPayload (declHead "query" nsMucAdmin) [
  .many (anyHead "item" nsMucAdmin) [
    .attr (s "affiliation") (.enumL (["outcast", "none", "member", "admin", "owner"].map s)) true,
    .attr (s "jid") .str true, .attr (s "nick") .str true,
    .attr (s "role") (.enumL (["none", "visitor", "participant", "moderator"].map s)) true,
    .child (anyHead "actor" nsMucAdmin) [.attr (s "jid") .str true] .wrapOmit,
    .textChild (anyHead "reason" nsMucAdmin) .str true] false]

/-! ### `QXmppJingleReason` (src/base/QXmppJingleData.cpp:1091-1134)

`parse` takes the first `<text/>`, the reason whose name comes FIRST IN THE ENUM among the children present, and the first
child in the RTP-errors namespace.  The schema takes the first child (document order) bearing a known reason name; a
`<reason/>` with two different reason names is outside the model (harness).  `toXml` writes nothing without a reason type
(`wrapGuard`: canonical values have text and RTP condition unset then). -/

def nsJingle := s "urn:xmpp:jingle:1"
def nsJingleRtpErrors := s "urn:xmpp:jingle:apps:rtp:errors:1"
def jingleReasons : List Str := ["alternative-session", "busy", "cancel", "connectivity-error", "decline", "expired",
  "failed-application", "failed-transport", "general-error", "gone", "incompatible-parameters", "media-error",
  "security-error", "success", "timeout", "unsupported-applications", "unsupported-transports"].map s
def jingleReasonFields : List Field := [
  .textChild (anyHead "text" nsJingle) .str true,
  .tagChild nsJingle false true jingleReasons [] true false [],
  .enumChild nsJingleRtpErrors true false (["invalid-crypto", "crypto-required"].map s) false]
def JingleReason : Schema :=
  { head := { tag := s "x", ns := [], decl := false, anyNs := false }, check := .unchecked, inh := [],
    fields := [.child { tag := s "reason", ns := nsJingle, decl := true, anyNs := true } jingleReasonFields (.wrapGuard [false, true])] }

/-! ### further small classes -/

/-- `QXmppIbbDataIq` payload (src/base/QXmppIbbIq.cpp:213-238): `seq` via `parseInt<uint16_t>(…).value_or(0)` -/
def IbbDataIq := iqPayload (declHead "data" nsIbb) [.attr (s "sid") .str false, .attr (s "seq") (.nat 16) false, .text .b64]

/-- `QXmppHashUsed` (src/base/QXmppHash.cpp:164-180) -/
def HashUsed := nonza (declHead "hash-used" nsHashes) [.attr (s "algo") (.enum hashAlgorithms) false]

/-- `QXmppMamResultIq` payload (src/base/QXmppMamIq.cpp:241-262): `<fin/>` looked up by tag alone; the result-set reply
inside as in `ResultSetReply` -/
def nsMam := s "urn:xmpp:mam:2"
def MamResultIq := iqPayload (declHead "fin" nsMam) [
  .attr (s "complete") (.flag [s "true"]) true,
  .child rsmSet [rsmFirst, rsmStr "last", rsmInt "count" (.optInt 31)] .wrapOmit]

/-! ### `QXmppRosterIq` and its items (src/base/QXmppRosterIq.cpp:122-160, 409-470)

Groups are a `QSet<QString>`: duplicates collapse and `toXml` writes them in hash order, so the value is the sorted set and
documents are compared up to the order of the `<group/>` siblings.  An unknown `subscription` string leaves the type unset. -/

def nsRoster := s "jabber:iq:roster"
def nsMixRoster := s "urn:xmpp:mix:roster:0"
def rosterItemFields (ns : Str) : List Field := [
  .attr (s "jid") .str true, .attr (s "name") .str true,
  .attr (s "subscription") (.enum (["none", "both", "from", "to", "remove"].map s)) true,
  .attr (s "ask") .str true, .attr (s "approved") boolTrue1 true,
  .strSet (anyHead "group" ns),
  .child (declHead "channel" nsMixRoster) [.attr (s "participant-id") .str true] .optional]
def RosterItem := unchecked { tag := s "item", ns := [], decl := false, anyNs := false } (rosterItemFields [])
def RosterIq := iqPayload (declHead "query" nsRoster) [
  .attr (s "ver") .str true, .flagChild (declHead "annotate" nsMixRoster),
  .many (anyHead "item" nsRoster) (rosterItemFields nsRoster) false]

/-! ### XEP-0004 `QXmppDataForm` (src/base/QXmppDataForm.cpp:792-1005)

`parse` ignores an element whose `type` is not a known form type (the form stays null) and `toXml` writes nothing for a
null form: `wrapGuard` on `type`.  How a `<field/>` reads and writes its `<value/>` / `<option/>` children DEPENDS on the
field type (`formValue`): boolean = first value ∈ {"1","true"}, always written as 1/0; `*-multi` = all values in order;
the others = the first value, a `QString` that is null when there is no `<value/>`; options only for `list-*`.
Since /repo 06b3045 `toXml` writes a single value whenever it is non-null (`<value/>` for the empty string); before
that it wrote it only when non-EMPTY, so an empty non-null value came back null (fixed findings
C01:field-mismatch:DataForm:form.3.*.0.1 and relatives, and the `…:x/field:lost` keys of the classes built on data forms,
for which a null value means "field absent").  `dataFormFieldsWith true` is that old behaviour (not well-formed), kept
to state what the defect was.
Fields with `<media/>` sources (QUrl / QMimeType) are OUTSIDE the model.  Modelled as the `<x/>` child of a holder. -/

def nsData := s "jabber:x:data"
def formFieldTypes : List Str := ["boolean", "fixed", "hidden", "jid-multi", "jid-single", "list-multi", "list-single",
  "text-multi", "text-private", "text-single"].map s
def formFieldKinds : List Nat := [1, 0, 0, 2, 0, 2, 0, 2, 0, 0]
def dataFormFieldsWith (dropsEmpty : Bool) : List Field := [
  .attr (s "type") (.enum (["form", "submit", "cancel", "result"].map s)) true,
  .textChild (anyHead "title" nsData) .str true, .textChild (anyHead "instructions" nsData) .str true,
  .many (anyHead "field" nsData) [
    .formValue (s "type") formFieldTypes 9 (anyHead "value" nsData) formFieldKinds dropsEmpty
      (anyHead "option" nsData) [.attr (s "label") .str true, .textChild (anyHead "value" nsData) .str false] [5, 6],
    .attr (s "label") .str true, .attr (s "var") .str true,
    .textChild (anyHead "description" nsData) .str true, .flagChild (anyHead "required" nsData)] false]
/-- the class before /repo 06b3045 (not well-formed) -/
def dataFormFieldsCode := dataFormFieldsWith true
def dataFormFieldsFixed := dataFormFieldsWith false
/-- what the classes below embed: the code as it is now -/
def dataFormFields := dataFormFieldsFixed
/-- the form as a child: `exact` = looked up by tag and namespace, else by tag alone -/
def dataFormChild (exact : Bool) : Field :=
  .child { tag := s "x", ns := nsData, decl := true, anyNs := !exact } dataFormFields (.wrapGuard [true, false, false, false])
def DataForm : Schema :=
  { head := { tag := s "holder", ns := [], decl := false, anyNs := false }, check := .unchecked, inh := [],
    fields := [dataFormChild true] }
/-- the class before /repo 06b3045 -/
def DataFormOld : Schema :=
  { DataForm with fields := [.child { tag := s "x", ns := nsData, decl := true, anyNs := false } dataFormFieldsCode
      (.wrapGuard [true, false, false, false])] }

/-- `QXmppMucOwnerIq` payload (src/base/QXmppMucIq.cpp:265-282): the form is `query.firstChildElement("x")` -/
def nsMucOwner := s "http://jabber.org/protocol/muc#owner"
def MucOwnerIq := iqPayload (declHead "query" nsMucOwner) [dataFormChild false]

/-! ### XEP-0030 `QXmppDiscoveryIq` (src/base/QXmppDiscoveryIq.cpp:439-510), one schema per query type

The namespace of `<query/>` selects info or items; every child is read whatever the query type (by tag name alone), but
identities / features are written only for info, items only for items.  A `<query/>` of the other type is outside the
respective schema, and so is one with several `<x xmlns="jabber:x:data"/>` children (each is parsed into the SAME form
object, whose field list grows). -/

def nsDiscoInfo := s "http://jabber.org/protocol/disco#info"
def nsDiscoItems := s "http://jabber.org/protocol/disco#items"
def DiscoInfoIq := iqPayload (declHead "query" nsDiscoInfo) [
  .attr (s "node") .str true,
  .many (anyHead "identity" nsDiscoInfo) [.attr (s "xml:lang") .str true, .attr (s "category") .str true,
    .attr (s "name") .str true, .attr (s "type") .str true] false,
  .many (anyHead "feature" nsDiscoInfo) [.attr (s "var") .str true] false,
  dataFormChild true]
def DiscoItemsIq := iqPayload (declHead "query" nsDiscoItems) [
  .attr (s "node") .str true,
  .many (anyHead "item" nsDiscoItems) [.attr (s "jid") .str true, .attr (s "name") .str true, .attr (s "node") .str true] false,
  dataFormChild true]

/-! ### vcard-temp value classes (src/base/QXmppVCardIq.cpp:150-210, 274-315, 378-466): type flags are empty child elements,
looked up by tag alone; no type check, no namespace written -/

def vcardHead (tag : String) : Head := { tag := s tag, ns := [], decl := false, anyNs := false }
def vflag (tag : String) : Field := .flagChild (anyHead tag [])
def VCardAddress := unchecked (vcardHead "ADR") [
  vflag "HOME", vflag "WORK", vflag "POSTAL", vflag "PREF",
  .textChild (anyHead "CTRY" []) .str true, .textChild (anyHead "LOCALITY" []) .str true,
  .textChild (anyHead "PCODE" []) .str true, .textChild (anyHead "REGION" []) .str true,
  .textChild (anyHead "STREET" []) .str true]
def VCardEmail := unchecked (vcardHead "EMAIL") [
  vflag "HOME", vflag "WORK", vflag "INTERNET", vflag "PREF", vflag "X400", .textChild (anyHead "USERID" []) .str false]
def VCardPhone := unchecked (vcardHead "TEL") [
  vflag "HOME", vflag "WORK", vflag "VOICE", vflag "FAX", vflag "PAGER", vflag "MSG", vflag "CELL", vflag "VIDEO",
  vflag "BBS", vflag "MODEM", vflag "ISDN", vflag "PCS", vflag "PREF", .textChild (anyHead "NUMBER" []) .str false]

/-! ### `QXmppMamQueryIq` payload (src/base/QXmppMamIq.cpp:130-158)

The query id is the attribute `queryid` (XEP-0313); read under that name since /repo dfee378 (before that `parse` read
`queryId`: fixed findings C01:field-mismatch:MamQueryIq:queryId, C01:own-form-roundtrip:MamQueryIq,
C02:not-fixpoint:MamQueryIq). -/

def MamQueryIq := iqPayload (declHead "query" nsMam) [
  .attr (s "node") .str true, .attr (s "queryid") .str true, dataFormChild false,
  .child rsmSet [rsmInt "max" (.optInt 31), rsmStr "after", rsmStr "before", rsmInt "index" (.optInt 31)] .wrapOmit]

/-! ### `QXmppPubSubSubscription` (src/base/QXmppPubSubSubscription.cpp:258-317), one schema per namespace

WHAT `parse` reads depends on the namespace the `<subscription/>` element is in: in `…/pubsub` node, subid and the
`<subscribe-options/>` child (absent = unavailable, present = available, with `<required/>` = required), in
`…/pubsub#event` node, subid and `expiry`, in `…/pubsub#owner` only jid and state.  `toXml` writes whatever is set, without
a namespace of its own.  One schema per context; an element that is in another namespace is outside the schema. -/

def nsPubsubEvent := s "http://jabber.org/protocol/pubsub#event"
def subscriptionStates : List Str := ["none", "pending", "subscribed", "unconfigured"].map s
def subscriptionIn (ns : Str) (fields : List Field) : Schema :=
  { head := { tag := s "subscription", ns := ns, decl := false, anyNs := false }, fields := fields, check := .unchecked, inh := ns }
def PubSubSubscription := subscriptionIn nsPubsub [
  .attr (s "jid") .str false, .attr (s "node") .str true, .attr (s "subscription") (.enum subscriptionStates) true,
  .attr (s "subid") .str true, modeFeatureInh "subscribe-options" nsPubsub]
def PubSubSubscriptionEvent := subscriptionIn nsPubsubEvent [
  .attr (s "jid") .str false, .attr (s "node") .str true, .attr (s "subscription") (.enum subscriptionStates) true,
  .attr (s "subid") .str true, .attr (s "expiry") .dateTime true]
def PubSubSubscriptionOwner := subscriptionIn nsPubsubOwner [
  .attr (s "jid") .str false, .attr (s "subscription") (.enum subscriptionStates) true]


/-! ### stanza envelopes: typed fields + the REST (unknown children kept as `QXmppElement`s)

`QXmppIq` (src/base/QXmppIq.cpp:82-130, QXmppStanza::parse): `id`, `to`, `from`, `type` (unknown / absent ⇒ get, always
written), every child except `<error/>` elements as an extension (since /repo c75793d ALL of them are skipped), then the
error (first `<error/>`, `StanzaError` above).  `xml:lang` is read (QDom finds it under the name `lang`) and, since /repo fc1d2c5,
written like message and presence do (before: fixed finding C01:field-mismatch:Iq:lang).
The stanza has no namespace declaration of its own: it lives in the stream's `jabber:client`. -/

def iqTypes : List Str := ["error", "get", "set", "result"].map s
def errorGuard : ChildMode := .wrapGuard [false, true, false, true]
def Iq : Schema :=
  { head := inhHead "iq" nsClient, check := .unchecked, inh := nsClient,
    fields := [.attr (s "xml:lang") .str true, .attr (s "id") .str true, .attr (s "to") .str true, .attr (s "from") .str true,
      .attr (s "type") (.enumD iqTypes 1) false,
      .rest nsClient [⟨some (s "error"), none⟩],
      .child (anyHead "error" nsClient) stanzaErrorFields errorGuard] }

/-! `QXmppPresence` (src/base/QXmppPresence.cpp:438-646).  `parse` loops over ALL children, by tag name alone for show /
status / priority (last one wins), by tag and namespace for the extensions (last one wins); what it does not know goes to
the extensions.  Typed here: type (absent / unknown ⇒ available), `xml:lang`, id, to, from; show, status, priority
(`toInt()`, written when ≠ 0); error; MUC `<x/>` (password) and MUC-user `<x/>` (item, status codes); entity capabilities
`<c/>` (written only when hash, node and ver are ALL set: `wrapAll`; `ext` is read and never written); XEP-0283 moved;
XEP-0319 idle; MIX presence; XEP-0033 addresses (only addresses with jid and type: `attrReq`).  Claimed by the class but
NOT modelled (documents with them are outside the schema): vCard update `<x/>` (hex hash), Muji (Jingle contents). -/

def nsMuc := s "http://jabber.org/protocol/muc"
def nsMucUser := s "http://jabber.org/protocol/muc#user"
def nsCaps := s "http://jabber.org/protocol/caps"
def nsVCardUpdate := s "vcard-temp:x:update"
def nsMuji := s "urn:xmpp:jingle:muji:0"
def nsMoved := s "urn:xmpp:moved:1"
def nsIdle := s "urn:xmpp:idle:1"
def nsMixPresence := s "urn:xmpp:presence:0"
def nsAddresses := s "http://jabber.org/protocol/address"

/-- looked up by tag alone, the LAST one counts (`for (child : children) if (tag == …) x = …`) -/
def lastTag (tag : String) (ns : Str) : Head := { tag := s tag, ns := ns, decl := false, anyNs := true, last := true }
/-- an extension element: own namespace, looked up by tag and namespace, the last one counts -/
def lastExt (tag : String) (ns : Str) : Head := { tag := s tag, ns := ns, decl := true, anyNs := false, last := true }

def mucItemFieldsIn (ns : Str) : List Field := [
  .attr (s "affiliation") (.enumL (["outcast", "none", "member", "admin", "owner"].map s)) true,
  .attr (s "jid") .str true, .attr (s "nick") .str true,
  .attr (s "role") (.enumL (["none", "visitor", "participant", "moderator"].map s)) true,
  .child (anyHead "actor" ns) [.attr (s "jid") .str true] .wrapOmit,
  .textChild (anyHead "reason" ns) .str true]

/-- XEP-0033 `<addresses/>` as `QXmppStanza` reads and writes it: only addresses with a jid and a type are kept -/
def addressesField : Field :=
  .child (declHead "addresses" nsAddresses) [
    .many (anyHead "address" nsAddresses) [.attr (s "delivered") (.flag [s "true"]) true, .attr (s "desc") .str true,
      .attrReq (s "jid") .str, .attrReq (s "type") .str] false] .wrapOmit

def presenceTypes : List Str := ["error", "unavailable", "subscribe", "subscribed", "unsubscribe", "unsubscribed", "probe"].map s
def presenceShows : List Str := ["away", "xa", "dnd", "chat", "invisible"].map s

def Presence : Schema :=
  { head := inhHead "presence" nsClient, check := .unchecked, inh := nsClient,
    fields := [
      .attr (s "xml:lang") .str true, .attr (s "id") .str true, .attr (s "to") .str true, .attr (s "from") .str true,
      .attr (s "type") (.enum presenceTypes) true,
      .child (lastTag "show" nsClient) [.text (.enum presenceShows)] .wrapOmit,
      .child (lastTag "status" nsClient) [.text .str] .wrapOmit,
      .child (lastTag "priority" nsClient) [.text (.sint 31 true)] .wrapOmit,
      .child (anyHead "error" nsClient) stanzaErrorFields errorGuard,
      .child (lastExt "x" nsMuc) [.textChild (anyHead "password" nsMuc) .str true] .optional,
      .child (lastExt "x" nsMucUser) [
        .child (anyHead "item" nsMucUser) (mucItemFieldsIn nsMucUser) .wrapOmit,
        .many (anyHead "status" nsMucUser) [.attr (s "code") (.sint 31 false) false] false] .wrapOmit,
      .child (lastExt "c" nsCaps) [.attr (s "hash") .str true, .attr (s "node") .str true, .attr (s "ver") .b64 true]
        (.wrapAll [true, true, true]),
      .child (lastExt "moved" nsMoved) [.textChild (anyHead "old-jid" nsMoved) .str true] .wrapOmit,
      .child (lastExt "idle" nsIdle) [.attr (s "since") .dateTime true] .wrapOmit,
      .child (lastExt "mix" nsMixPresence) [.textChild (anyHead "jid" nsMixPresence) .str true,
        .textChild (anyHead "nick" nsMixPresence) .str true] .wrapOmit,
      addressesField,
      .rest nsClient [⟨some (s "show"), none⟩, ⟨some (s "status"), none⟩, ⟨some (s "priority"), none⟩, ⟨some (s "error"), none⟩,
        ⟨some (s "x"), some nsMuc⟩, ⟨some (s "x"), some nsMucUser⟩, ⟨some (s "c"), some nsCaps⟩, ⟨none, some nsVCardUpdate⟩,
        ⟨some (s "muji"), some nsMuji⟩, ⟨some (s "moved"), some nsMoved⟩, ⟨some (s "idle"), some nsIdle⟩,
        ⟨some (s "mix"), some nsMixPresence⟩, ⟨some (s "addresses"), some nsAddresses⟩]] }

/-! `QXmppMessage`, core (src/base/QXmppMessage.cpp:1558-2160).  `parse` hands every child except `<error/>` and the XEP-0033
`<addresses/>` to `parseExtension`, a chain of `if (tag/namespace …)`; what no branch takes is an unknown extension.
Typed here, in the order `toXml` writes: `xml:lang`, id, to, from, type (absent / unknown ⇒ normal, always written); error;
carbons `<private/>`; the four processing hints (one flag each); stanza ids; origin id (a `QString` written when non-NULL);
subject, body, thread + parent (by tag alone, last one wins; parent only with a thread); out-of-band URLs; chat state (ANY tag
in the chat-states namespace, unknown ⇒ none); receipt request; attention; direct MUC invitation (written with a jid);
replace id; markable; attach-to id; spoiler (+ hint); MIX invitation; trust message; reply; XEP-0033 addresses; the rest.
Claimed by `parseExtension` but NOT modelled — documents containing them are outside the schema (harness): MIX `<mix/>`
(both children always written), EME (the name is derived from the namespace), XHTML-IM (raw markup), delay / legacy delay,
`<received/>` (falls back to the message id, excludes `<request/>`), BoB data, chat markers other than `<markable/>`, JMI,
reactions, file sharing / sources, call invites, fallback markers. -/

def nsHints := s "urn:xmpp:hints"
def nsSid := s "urn:xmpp:sid:0"
def nsMixCore := s "urn:xmpp:mix:core:1"
def nsEme := s "urn:xmpp:eme:0"
def nsXhtmlIm := s "http://jabber.org/protocol/xhtml-im"
def nsChatStates := s "http://jabber.org/protocol/chatstates"
def nsLegacyDelay := s "jabber:x:delay"
def nsConference := s "jabber:x:conference"
def nsDelay := s "urn:xmpp:delay"
def nsReceipts := s "urn:xmpp:receipts"
def nsAttention := s "urn:xmpp:attention:0"
def nsBob := s "urn:xmpp:bob"
def nsCorrect := s "urn:xmpp:message-correct:0"
def nsMarkers := s "urn:xmpp:chat-markers:0"
def nsJmi := s "urn:xmpp:jingle-message:0"
def nsAttaching := s "urn:xmpp:message-attaching:1"
def nsSpoiler := s "urn:xmpp:spoiler:0"
def nsReactions := s "urn:xmpp:reactions:0"
def nsSfs := s "urn:xmpp:sfs:0"
def nsReply := s "urn:xmpp:reply:0"
def nsCallInvites := s "urn:xmpp:call-invites:0"
def nsFallback := s "urn:xmpp:fallback:0"

def messageTypes : List Str := ["error", "normal", "chat", "groupchat", "headline"].map s
def chatStates : List Str := ["active", "inactive", "gone", "composing", "paused"].map s
def pat (tag : String) (ns : Str) : Pat := ⟨some (s tag), some ns⟩
def patTag (tag : String) : Pat := ⟨some (s tag), none⟩
def patNs (ns : Str) : Pat := ⟨none, some ns⟩

def Message : Schema :=
  { head := inhHead "message" nsClient, check := .unchecked, inh := nsClient,
    fields := [
      .attr (s "xml:lang") .str true, .attr (s "id") .str true, .attr (s "to") .str true, .attr (s "from") .str true,
      .attr (s "type") (.enumD messageTypes 1) false,
      .child (anyHead "error" nsClient) stanzaErrorFields errorGuard,
      .flagChild (lastExt "private" nsCarbons),
      .flagChild (lastExt "no-permanent-store" nsHints), .flagChild (lastExt "no-store" nsHints),
      .flagChild (lastExt "no-copy" nsHints), .flagChild (lastExt "store" nsHints),
      .many (declHead "stanza-id" nsSid) [.attr (s "id") .str false, .attr (s "by") .str true] false,
      .child (lastExt "origin-id" nsSid) [.attr (s "id") .str false] .optional,
      .child (lastTag "subject" nsClient) [.text .str] .wrapOmit,
      .child (lastTag "body" nsClient) [.text .str] .wrapOmit,
      .child (lastTag "thread" nsClient) [.attr (s "parent") .str true, .text .str] (.wrapGuard [false, true]),
      .many (declHead "x" nsOob) [.textChild (anyHead "url" nsOob) .str false, .child (anyHead "desc" nsOob) [.text .str] .optional] false,
      -- (`<body/>`, `<subject/>`, `<thread/>` are taken by tag alone before the namespace is looked at, `<error/>` is never handed over)
      .tagChild nsChatStates true false chatStates [s "body", s "subject", s "thread", s "error"] false true [],
      .flagChild (lastExt "request" nsReceipts),
      .flagChild (lastExt "attention" nsAttention),
      .child (lastExt "x" nsConference) [.attr (s "jid") .str true, .attr (s "password") .str true, .attr (s "reason") .str true]
        (.wrapGuard [true, false, false]),
      .child (lastExt "replace" nsCorrect) [.attr (s "id") .str true] .wrapOmit,
      .flagChild (lastExt "markable" nsMarkers),
      .child (lastExt "attach-to" nsAttaching) [.attr (s "id") .str true] .wrapOmit,
      .child (lastExt "spoiler" nsSpoiler) [.text .str] .optional,
      .child (lastExt "invitation" nsMixMisc) MixInvitation.fields .optional,
      .child (lastExt "trust-message" nsTm) TrustMessageElement.fields .optional,
      .child (lastExt "reply" nsReply) [.attr (s "to") .str true, .attr (s "id") .str false] .optional,
      addressesField,
      .rest nsClient [patTag "error", pat "addresses" nsAddresses, pat "private" nsCarbons,
        pat "no-permanent-store" nsHints, pat "no-store" nsHints, pat "no-copy" nsHints, pat "store" nsHints,
        pat "stanza-id" nsSid, pat "origin-id" nsSid, pat "mix" nsMixCore, pat "encryption" nsEme,
        patTag "subject", patTag "body", patTag "thread", pat "x" nsLegacyDelay, pat "x" nsConference, pat "x" nsOob,
        pat "html" nsXhtmlIm, patNs nsChatStates, pat "received" nsReceipts, pat "request" nsReceipts, pat "delay" nsDelay,
        pat "attention" nsAttention, pat "data" nsBob, pat "replace" nsCorrect, patNs nsMarkers, patNs nsJmi,
        pat "attach-to" nsAttaching, pat "spoiler" nsSpoiler, pat "invitation" nsMixMisc, pat "trust-message" nsTm,
        pat "reactions" nsReactions, pat "file-sharing" nsSfs, pat "sources" nsSfs, pat "reply" nsReply, patNs nsCallInvites,
        pat "fallback" nsFallback]] }

/-! ### `QXmppJingleRtpEncryption` / `QXmppJingleRtpCryptoElement` (src/base/QXmppJingleData.cpp:2330-2470)

A `<crypto/>` is written only with BOTH `crypto-suite` and `key-params` (`attrReq`); since /repo 74a3584 `parse` skips the
`<crypto/>` children (any namespace) that lack one of them, and `<encryption/>` is written only when a crypto element is left
(`wrapGuard` on the list; `required` alone is not written).  Before that an invalid `<crypto/>` was kept, `<encryption/>`
written empty and nothing on the next pass (fixed findings …:QXmppJingleRtpEncryption, …:QXmppJingleIq::Content).
Modelled as the `<encryption/>` child of a holder. -/

def nsJingleRtp := s "urn:xmpp:jingle:apps:rtp:1"
def jingleCryptoFields : List Field := [
  .attr (s "tag") (.nat 32) false, .attrReq (s "crypto-suite") .str, .attrReq (s "key-params") .str,
  .attr (s "session-params") .str true]
def JingleRtpEncryption : Schema :=
  { head := { tag := s "x", ns := [], decl := false, anyNs := false }, check := .unchecked, inh := [],
    fields := [.child (declHead "encryption" nsJingleRtp) [
      .attr (s "required") (.flag [s "1", s "true"]) true,
      .many (anyHead "crypto" nsJingleRtp) jingleCryptoFields false] (.wrapGuard [false, true])] }

/-- every modelled class by the name the harness uses -/
def all : List (String × Schema) := [
  ("SmEnable", SmEnable), ("SmEnabled", SmEnabled), ("SmResume", SmResume), ("SmResumed", SmResumed),
  ("SmFailed", SmFailed), ("SmAck", SmAck), ("SmRequest", SmRequest),
  ("SaslSuccess", SaslSuccess), ("StarttlsRequest", StarttlsRequest), ("StarttlsProceed", StarttlsProceed),
  ("Bind2Feature", Bind2Feature), ("Bind2Request", Bind2Request), ("Bind2Bound", Bind2Bound),
  ("FastFeature", FastFeature), ("FastTokenRequest", FastTokenRequest), ("FastRequest", FastRequest),
  ("Sasl2StreamFeature", Sasl2StreamFeature), ("Sasl2Failure", Sasl2Failure), ("Sasl2Abort", Sasl2Abort),
  ("ExtendedAddress", ExtendedAddress), ("BindIq", BindIq), ("VersionIq", VersionIq), ("IbbCloseIq", IbbCloseIq),
  ("SaslAuth", SaslAuth), ("SaslChallenge", SaslChallenge), ("SaslResponse", SaslResponse),
  ("Sasl2Challenge", Sasl2Challenge), ("Sasl2Response", Sasl2Response), ("Sasl2Continue", Sasl2Continue),
  ("Hash", Hash), ("MixInvitation", MixInvitation), ("OutOfBandUrl", OutOfBandUrl),
  ("PubSubAffiliation", PubSubAffiliation), ("SdpParameter", SdpParameter),
  ("RtpFeedbackInterval", RtpFeedbackInterval),
  ("TrustMessageKeyOwner", TrustMessageKeyOwner), ("TrustMessageElement", TrustMessageElement),
  ("StreamFeatures", StreamFeatures), ("ResultSetQuery", ResultSetQuery), ("ResultSetReply", ResultSetReply),
  ("FastToken", FastToken), ("Sasl2Success", Sasl2Success),
  ("PubSubIqUnsubscribe", PubSubIqUnsubscribe), ("PubSubIqSubscribe", PubSubIqSubscribe),
  ("PubSubIqOptions", PubSubIqOptions), ("PubSubIqCreate", PubSubIqCreate), ("PubSubIqDelete", PubSubIqDelete),
  ("PubSubIqPurge", PubSubIqPurge), ("PubSubIqConfigure", PubSubIqConfigure), ("PubSubIqDefault", PubSubIqDefault),
  ("PubSubIqOwnerDefault", PubSubIqOwnerDefault),
  ("StanzaError", StanzaError), ("MucItem", MucItem), ("MucAdminIq", MucAdminIq), ("JingleReason", JingleReason),
  ("IbbDataIq", IbbDataIq), ("HashUsed", HashUsed), ("MamResultIq", MamResultIq),
  ("RosterItem", RosterItem), ("RosterIq", RosterIq),
  ("DataForm", DataForm), ("MucOwnerIq", MucOwnerIq), ("DiscoInfoIq", DiscoInfoIq), ("DiscoItemsIq", DiscoItemsIq),
  ("VCardAddress", VCardAddress), ("VCardEmail", VCardEmail), ("VCardPhone", VCardPhone),
  ("MamQueryIq", MamQueryIq),
  ("PubSubSubscription", PubSubSubscription), ("PubSubSubscriptionEvent", PubSubSubscriptionEvent),
  ("PubSubSubscriptionOwner", PubSubSubscriptionOwner),
  ("Iq", Iq), ("Presence", Presence), ("Message", Message),
  ("JingleRtpEncryption", JingleRtpEncryption)]

def find (name : String) : Option Schema := (all.find? (·.1 == name)).map (·.2)

end Qx.Xml.Codec.Classes
