import Qx.Xml.Codec.Schema
/-!
Schemas of qxmpp stanza / nonza classes, transcribed from the C++ `toXml` + `fromDom`/`parse` pairs
(file and line of the pair given with each schema; /repo at the pinned tree).  Field order = the
order in which `toXml` writes, so `encode` reproduces the library's own output form.

A schema ending in `Code` models today's code where it differs from what C01 demands; the matching
schema without the suffix is the code with the fix under /verif/fixes applied.
No proofs here, no Mathlib.
-/
namespace Qx.Xml.Codec.Classes
open Qx.Xml Qx.Xml.Codec

def s (x : String) : Str := x.toList

/-! namespaces (src/base/QXmppConstants_p.h) -/
def nsSm := s "urn:xmpp:sm:3"
def nsStanza := s "urn:ietf:params:xml:ns:xmpp-stanzas"
def nsSasl := s "urn:ietf:params:xml:ns:xmpp-sasl"
def nsSasl2 := s "urn:xmpp:sasl:2"
def nsBind := s "urn:ietf:params:xml:ns:xmpp-bind"
def nsBind2 := s "urn:xmpp:bind:0"
def nsFast := s "urn:xmpp:fast:0"
def nsCsi := s "urn:xmpp:csi:0"
def nsCarbons := s "urn:xmpp:carbons:2"
def nsTls := s "urn:ietf:params:xml:ns:xmpp-tls"
def nsVersion := s "jabber:iq:version"
def nsIbb := s "http://jabber.org/protocol/ibb"
def nsClient := s "jabber:client"

/-- element written with `writeDefaultNamespace`, looked up by tag and namespace -/
def declHead (tag : String) (ns : Str) : Head := ⟨s tag, ns, true, false⟩
/-- element written without namespace declaration (inherits `ns` from its parent), looked up by tag
and namespace -/
def inhHead (tag : String) (ns : Str) : Head := ⟨s tag, ns, false, false⟩
/-- element written without namespace declaration, looked up by tag only -/
def anyHead (tag : String) (ns : Str) : Head := ⟨s tag, ns, false, true⟩

/-- `x == u"true" || x == u"1"` / `parseBoolean(x).value_or(false)`; written as `true` -/
def boolTrue1 : FTy := .flag [s "true", s "1"]

/-- `QXmppStanza::Error::Condition`, index = enum value (src/base/QXmppStanza.h:110-139,
strings src/base/QXmppStanza.cpp:29-140) -/
def stanzaConditions : List Str := [
  "bad-request", "conflict", "feature-not-implemented", "forbidden", "gone", "internal-server-error",
  "item-not-found", "jid-malformed", "not-acceptable", "not-allowed", "not-authorized", "payment-required",
  "recipient-unavailable", "redirect", "registration-required", "remote-server-not-found",
  "remote-server-timeout", "resource-constraint", "service-unavailable", "subscription-required",
  "undefined-condition", "unexpected-request", "policy-violation"].map s

/-- `SASL_ERROR_CONDITIONS` (src/base/QXmppSasl.cpp:37-49) -/
def saslConditions : List Str := [
  "aborted", "account-disabled", "credentials-expired", "encryption-required", "incorrect-encoding",
  "invalid-authzid", "invalid-mechanism", "malformed-request", "mechanism-too-weak", "not-authorized",
  "temporary-auth-failure"].map s

def nonza (h : Head) (fields : List Field) : Schema := { head := h, fields := fields, check := .strict, inh := [] }
/-- IQ payload: parsed by `parseElementFromChild(iq)` = `firstChildElement(iq, tag)`, the `<iq/>`
wrapper is in `jabber:client` -/
def iqPayload (h : Head) (fields : List Field) : Schema :=
  { head := h, fields := fields, check := .tagElseNull, inh := nsClient }

/-! ### XEP-0198 stream management (src/base/QXmppStreamManagement.cpp:17-165) -/

def smEnableFields : List Field := [.attr (s "resume") boolTrue1 true, .attr (s "max") (.nat 64) true]
def SmEnable := nonza (declHead "enable" nsSm) smEnableFields

def smEnabledFields : List Field := [
  .attr (s "resume") boolTrue1 true, .attr (s "id") .str true,
  .attr (s "max") (.nat 64) true, .attr (s "location") .str true]
def SmEnabled := nonza (declHead "enabled" nsSm) smEnabledFields

def smResumeFields : List Field := [.attr (s "h") (.nat 32) false, .attr (s "previd") .str false]
def SmResume := nonza (declHead "resume" nsSm) smResumeFields
def SmResumed := nonza (declHead "resumed" nsSm) smResumeFields

def smFailedFields : List Field := [.enumChild nsStanza true false stanzaConditions false]
def SmFailed := nonza (declHead "failed" nsSm) smFailedFields

def SmAck := nonza (declHead "a" nsSm) [.attr (s "h") (.nat 32) false]
def SmRequest := nonza (declHead "r" nsSm) []

/-! ### SASL, STARTTLS (src/base/QXmppSasl.cpp:187-200, src/base/Stream.cpp:41-65) -/

def SaslSuccess := nonza (declHead "success" nsSasl) []
def StarttlsRequest := nonza (declHead "starttls" nsTls) []
def StarttlsProceed := nonza (declHead "proceed" nsTls) []

/-! ### Bind 2, FAST, SASL 2 (src/base/QXmppSasl.cpp:203-650) -/

def bind2FeatureFields : List Field := [
  .child (inhHead "inline" nsBind2) [.many (inhHead "feature" nsBind2) [.attr (s "var") .str false]] .wrapOmit]
def Bind2Feature := nonza (declHead "bind" nsBind2) bind2FeatureFields

def bind2RequestFields : List Field := [
  .textChild (inhHead "tag" nsBind2) .str true,
  .flagChild (declHead "inactive" nsCsi),
  .flagChild (declHead "enable" nsCarbons),
  .child (declHead "enable" nsSm) smEnableFields .optional]
def Bind2Request := nonza (declHead "bind" nsBind2) bind2RequestFields

def bind2BoundFields : List Field := [
  .child (declHead "failed" nsSm) smFailedFields .optional,
  .child (declHead "enabled" nsSm) smEnabledFields .optional]
def Bind2Bound := nonza (declHead "bound" nsBind2) bind2BoundFields

def fastMechanisms : Field := .many (inhHead "mechanism" nsFast) [.text .str]
/-- today's `FastFeature`: `fromDom` reads `tls-0rtt`, `toXml` never writes it
(src/base/QXmppSasl.cpp:278-301) -/
def fastFeatureFieldsCode : List Field := [fastMechanisms, .attrReadOnly (s "tls-0rtt") boolTrue1]
def FastFeatureCode := nonza (declHead "fast" nsFast) fastFeatureFieldsCode
/-- with /verif/fixes/C01-fastfeature-tls0rtt.diff: the attribute is written when set -/
def fastFeatureFields : List Field := [fastMechanisms, .attr (s "tls-0rtt") boolTrue1 true]
def FastFeature := nonza (declHead "fast" nsFast) fastFeatureFields

def FastTokenRequest := nonza (declHead "request-token" nsFast) [.attr (s "mechanism") .str false]

def FastRequest := nonza (declHead "fast" nsFast) [
  .attr (s "count") (.optNat 64) true, .attr (s "invalidate") boolTrue1 true]

def sasl2StreamFeatureFieldsWith (fast : List Field) : List Field := [
  .many (inhHead "mechanism" nsSasl2) [.text .str],
  .child (inhHead "inline" nsSasl2) [
    .child (declHead "bind" nsBind2) bind2FeatureFields .optional,
    .child (declHead "fast" nsFast) fast .optional,
    .flagChild (declHead "sm" nsSm)] .wrapOmit]
def Sasl2StreamFeatureCode := nonza (declHead "authentication" nsSasl2) (sasl2StreamFeatureFieldsWith fastFeatureFieldsCode)
def Sasl2StreamFeature := nonza (declHead "authentication" nsSasl2) (sasl2StreamFeatureFieldsWith fastFeatureFields)

def Sasl2Failure := nonza (declHead "failure" nsSasl2) [
  .enumChild nsSasl true false saslConditions true,
  .textChild (inhHead "text" nsSasl2) .str true]

def Sasl2Abort := nonza (declHead "abort" nsSasl2) [.textChild (inhHead "text" nsSasl2) .str true]

/-! ### plain value classes and IQ payloads -/

/-- `QXmppExtendedAddress` (src/base/QXmppStanza.cpp:281-301): no type check, no namespace written -/
def ExtendedAddress : Schema := {
  head := ⟨s "address", [], false, false⟩, check := .unchecked, inh := [],
  fields := [.attr (s "delivered") (.flag [s "true"]) true, .attr (s "desc") .str true,
    .attr (s "jid") .str false, .attr (s "type") .str false] }

/-- `QXmppBindIq` payload (src/base/QXmppBindIq.cpp:58-78) -/
def BindIq := iqPayload (declHead "bind" nsBind) [
  .textChild (anyHead "jid" nsBind) .str true, .textChild (anyHead "resource" nsBind) .str true]

/-- `QXmppVersionIq` payload (src/base/QXmppVersionIq.cpp:77-103) -/
def VersionIq := iqPayload (declHead "query" nsVersion) [
  .textChild (anyHead "name" nsVersion) .str true, .textChild (anyHead "os" nsVersion) .str true,
  .textChild (anyHead "version" nsVersion) .str true]

/-- `QXmppIbbCloseIq` payload (src/base/QXmppIbbIq.cpp:127-139) -/
def IbbCloseIq := iqPayload (declHead "close" nsIbb) [.attr (s "sid") .str false]

/-- every modelled class by the name the harness uses; `Code` variants are what runs today -/
def all : List (String × Schema) := [
  ("SmEnable", SmEnable), ("SmEnabled", SmEnabled), ("SmResume", SmResume), ("SmResumed", SmResumed),
  ("SmFailed", SmFailed), ("SmAck", SmAck), ("SmRequest", SmRequest),
  ("SaslSuccess", SaslSuccess), ("StarttlsRequest", StarttlsRequest), ("StarttlsProceed", StarttlsProceed),
  ("Bind2Feature", Bind2Feature), ("Bind2Request", Bind2Request), ("Bind2Bound", Bind2Bound),
  ("FastFeature", FastFeatureCode), ("FastTokenRequest", FastTokenRequest), ("FastRequest", FastRequest),
  ("Sasl2StreamFeature", Sasl2StreamFeatureCode), ("Sasl2Failure", Sasl2Failure), ("Sasl2Abort", Sasl2Abort),
  ("ExtendedAddress", ExtendedAddress), ("BindIq", BindIq), ("VersionIq", VersionIq), ("IbbCloseIq", IbbCloseIq)]

def find (name : String) : Option Schema := (all.find? (·.1 == name)).map (·.2)

end Qx.Xml.Codec.Classes
