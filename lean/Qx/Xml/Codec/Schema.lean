import Qx.Xml.Tree
import Qx.Xml.Codec.Scalar
/-!
Tier C of C01/C02: schema-driven codecs.

A class's wire format is *data* (`Schema`): which attributes, text, child elements, nested records
and repeated items its `toXml` writes and its `parse`/`fromDom` reads, with the exact omission
rules (`writeOptionalXmlAttribute`, `if (max > 0)`, …), namespace declarations
(`writeDefaultNamespace`) and lookup rules (`firstChildElement(el, tag, ns)`, any-namespace
lookups, `iterChildElements`).  `decodeFields`/`decode` is total on EVERY tree (absent or
invalid input gives the default the C++ produces: `toUInt()` of garbage is 0, an unknown enum
string is `nullopt`, …), `encode` produces the library's own output form, `parse` adds the
class's own type check (tag / namespace test of `fromDom`).

Everything works on `Node` trees (namespaces are plain `xmlns` attributes, resolved with
`Node.nsOf` the way `QDomElement::namespaceURI()` does).  No proofs here, no Mathlib: the
driver links this file.  Proofs: `Qx/Proofs/Codec.lean`; theorems: `Qx/Props/C01Codec.lean`,
`Qx/Props/C02Codec.lean`.
-/
namespace Qx.Xml.Codec
open Qx.Xml

/-! ## integers: own decimal printer and Qt's lenient parser -/

def digitChar (d : Nat) : Char := Char.ofNat (48 + d)

/-- decimal digits, most significant first; `fuel` bounds the number of digits -/
def natToStrF : Nat → Nat → Str
  | 0, _ => []
  | f + 1, n => if n < 10 then [digitChar n] else natToStrF f (n / 10) ++ [digitChar (n % 10)]

/-- `QString::number(n)` for unsigned `n` -/
def natToStr (n : Nat) : Str := natToStrF (n + 1) n

def digitVal (c : Char) : Option Nat :=
  if 48 ≤ c.toNat ∧ c.toNat ≤ 57 then some (c.toNat - 48) else none

def digitStep (acc : Option Nat) (c : Char) : Option Nat :=
  match acc, digitVal c with
  | some a, some d => some (a * 10 + d)
  | _, _ => none

/-- value of a string made of ASCII digits only (`none` when any other character occurs) -/
def parseDigits (s : Str) : Option Nat := s.foldl digitStep (some 0)

/-- `QChar::isSpace` (Qt 5.15, Unicode 13) on a UTF-16 code unit: TAB..CR, SPACE, NEL, NBSP and
the categories Zs, Zl, Zp.  Non-BMP characters are surrogate pairs in a `QString`, never spaces. -/
def isSpaceQt (c : Char) : Bool :=
  let n := c.toNat
  n = 0x20 || (9 ≤ n && n ≤ 13) || n = 0x85 || n = 0xA0 || n = 0x1680 || (0x2000 ≤ n && n ≤ 0x200A)
    || n = 0x2028 || n = 0x2029 || n = 0x202F || n = 0x205F || n = 0x3000

/-- leading and trailing whitespace removed (`QLocaleData::numberToCLocale` does this first) -/
def trimQt (s : Str) : Str := ((s.dropWhile isSpaceQt).reverse.dropWhile isSpaceQt).reverse

def dropPlus : Str → Str
  | [] => []
  | c :: r => if c = '+' then r else c :: r

/-- `QString::toULongLong(&ok)` followed by the narrowing test of `toUInt`/`toUShort`:
blanks around, one optional `+`, then ASCII digits only; the value must fit `bits` bits.
(`-`, group separators, exponents, other scripts' digits, inner blanks all fail.) -/
def strictNat (bits : Nat) (s : Str) : Option Nat :=
  let u := dropPlus (trimQt s)
  if u.isEmpty then none
  else match parseDigits u with
    | some n => if n < 2 ^ bits then some n else none
    | none => none

/-- `QString::toUInt()` / `toULongLong()` with the `ok` flag ignored: failure yields 0 -/
def lenientNat (bits : Nat) (s : Str) : Nat :=
  match strictNat bits s with
  | some n => n
  | none => 0

/-- sign and rest: one optional `+`, `-` or U+2212 (`QLocaleData::digitToCLocale` maps the latter to `-`) -/
def dropSign : Str → Bool × Str
  | [] => (false, [])
  | c :: r => if c = '+' then (false, r) else if c = '-' ∨ c.toNat = 0x2212 then (true, r) else (false, c :: r)

/-- `QString::toInt(&ok)` and friends: blanks around, one optional sign, ASCII digits; the value must
lie in `[-2^bits, 2^bits)`.  Result: (negative, magnitude). -/
def strictInt (bits : Nat) (s : Str) : Option (Bool × Nat) :=
  let r := dropSign (trimQt s)
  if r.2.isEmpty then none
  else match parseDigits r.2 with
    | some m =>
      if r.1 then (if m ≤ 2 ^ bits then some (true, m) else none)
      else (if m < 2 ^ bits then some (false, m) else none)
    | none => none

/-- a signed C++ integer used as "count or unset": every negative value means unset (the writers test
`>= 0`), so it is carried as `Option Nat`; `garbage` is what an unparsable string yields -/
def countOfSigned (garbage : Option Nat) : Option (Bool × Nat) → Option Nat
  | some (neg, m) => if neg && m != 0 then none else some m
  | none => garbage

/-! ## Base64 as Qt does it

`QByteArray::toBase64()` (standard alphabet, `=` padding) and `QByteArray::fromBase64Encoding(…)`
with the default options = *ignore* decoding errors (`parseBase64` in QXmppUtils.cpp calls it that
way): every character outside the alphabet, `=` included, is skipped; the remaining sextets are
concatenated and cut into whole bytes, left-over bits are dropped. -/

def b64Char (d : Nat) : Char :=
  if d < 26 then Char.ofNat (65 + d)
  else if d < 52 then Char.ofNat (71 + d)
  else if d < 62 then Char.ofNat (d - 4)
  else if d = 62 then '+' else '/'

def b64Val (c : Char) : Option Nat :=
  let n := c.toNat
  if 65 ≤ n ∧ n ≤ 90 then some (n - 65)
  else if 97 ≤ n ∧ n ≤ 122 then some (n - 71)
  else if 48 ≤ n ∧ n ≤ 57 then some (n + 4)
  else if n = 43 then some 62
  else if n = 47 then some 63
  else none

def b64enc : List Nat → Str
  | [] => []
  | [a] => [b64Char (a / 4), b64Char (a % 4 * 16), '=', '=']
  | [a, b] => [b64Char (a / 4), b64Char (a % 4 * 16 + b / 16), b64Char (b % 16 * 4), '=']
  | a :: b :: c :: rest =>
    b64Char (a / 4) :: b64Char (a % 4 * 16 + b / 16) :: b64Char (b % 16 * 4 + c / 64) :: b64Char (c % 64)
      :: b64enc rest

/-- sextets → bytes -/
def regroup : List Nat → List Nat
  | d0 :: d1 :: d2 :: d3 :: rest =>
    (d0 * 4 + d1 / 16) :: (d1 % 16 * 16 + d2 / 4) :: (d2 % 4 * 64 + d3) :: regroup rest
  | [d0, d1, d2] => [d0 * 4 + d1 / 16, d1 % 16 * 16 + d2 / 4]
  | [d0, d1] => [d0 * 4 + d1 / 16]
  | _ => []

def b64dec (s : Str) : List Nat := regroup (s.filterMap b64Val)

/-- a `QByteArray` is carried as the string of its bytes (Latin-1) -/
def bytesOf (s : Str) : List Nat := s.map Char.toNat
def strOfBytes (bs : List Nat) : Str := bs.map Char.ofNat

/-! ## scalar field types -/

/-- position of `s` in `names` (`enumFromString`) -/
def idxOf (s : Str) : List Str → Option Nat
  | [] => none
  | n :: ns => if s == n then some 0 else (idxOf s ns).map (· + 1)

/-- `names[i]` (empty when out of range; `Canon` keeps indices in range) -/
def nth : List Str → Nat → Str
  | [], _ => []
  | n :: _, 0 => n
  | _ :: ns, i + 1 => nth ns i

/-- all entries distinct -/
def nodupB : List Str → Bool
  | [] => true
  | x :: xs => !xs.contains x && nodupB xs

inductive FTy
  /-- `QString`, any content -/
  | str
  /-- unsigned integer read with `toUInt()`/`toULongLong()` (garbage, out of range ⇒ 0) -/
  | nat (bits : Nat)
  /-- `std::optional<uintN_t>` read with `parseInt<uintN_t>` (garbage, out of range, absent ⇒ nullopt) -/
  | optNat (bits : Nat)
  /-- `int` meaning "count, or unset when negative", read with `toInt(&ok)`, `!ok ⇒ -1`; written when `>= 0` -/
  | optInt (bits : Nat)
  /-- the same read with `toInt()` and no `ok` test: an unparsable or absent string yields 0, not "unset".
  (Not a well-formed type: "unset" does not survive a round trip.) -/
  | optIntZ (bits : Nat)
  /-- `int` meaning "value, or unset when not positive": read with `toInt()` (garbage ⇒ 0), written when `> 0`
  (`QXmppStanza::Error::code`).  Every non-positive number is the one value "unset". -/
  | posInt (bits : Nat)
  /-- a signed `int` read with `toInt()` (garbage, out of range ⇒ 0) and printed with `QString::number`; range
  `[-2^bits, 2^bits)` (presence priority, MUC status codes); `zeroEmpty`: 0 is printed as nothing (`if (priority != 0)`) -/
  | sint (bits : Nat) (zeroEmpty : Bool)
  /-- `bool`: true iff the string is one of `trues`; written as the first of them -/
  | flag (trues : List Str)
  /-- `std::optional<Enum>` via `enumFromString`: index into `names`, unknown ⇒ nullopt -/
  | enum (names : List Str)
  /-- `Enum` via `enumFromString(…).value_or(names[dflt])`: unknown or absent ⇒ the default member -/
  | enumD (names : List Str) (dflt : Nat)
  /-- like `enum`, but the string is lower-cased before the lookup (`attribute(…).toLower()`, QXmppMucItem); the
  names must be lower-case themselves (`FTy.wf`) -/
  | enumL (names : List Str)
  /-- `QDateTime` as XEP-0082 text (`QXmppUtils::datetimeFromString` / `datetimeToString`, modelled by tier B in
  `Qx/Xml/Codec/Scalar.lean`).  The value is the UTC date-time, or nothing for an invalid one; a date-time
  that `datetimeToString` cannot print (year outside 1..9999) counts as nothing: the class writes an empty
  string for it -/
  | dateTime
  /-- `QByteArray` carried as Base64 text (`parseBase64` / `toBase64`); the value is the Latin-1
  string of the bytes -/
  | b64
  deriving Repr, BEq, DecidableEq

/-- field values.  `absent` = absent optional record, `record` = nested record, `list` = repeated items
(each a `record`). -/
inductive Val
  | str (s : Str)
  | nat (n : Nat)
  | flag (b : Bool)
  | opt (i : Option Nat)
  | dt (d : Option Scalar.Dt)
  | absent
  | record (vs : List Val)
  | list (items : List Val)
  /-- an uninterpreted child tree (`QXmppElement`) -/
  | node (t : Node)
  /-- a signed C++ integer: sign and magnitude (`neg` only with a non-zero magnitude) -/
  | int (neg : Bool) (mag : Nat)
  deriving Repr, BEq, Inhabited

/-- `QString::toLower()` as far as it matters for a comparison with an all-ASCII lower-case name: `A`–`Z` and
U+212A KELVIN SIGN are the only characters whose lower-case form is an ASCII character -/
def lowerChar (c : Char) : Char :=
  if 65 ≤ c.toNat ∧ c.toNat ≤ 90 then Char.ofNat (c.toNat + 32) else if c.toNat = 0x212A then 'k' else c
def lowerStr (s : Str) : Str := s.map lowerChar

def posOfSigned : Option (Bool × Nat) → Option Nat
  | some (neg, m) => if neg || m == 0 then none else some m
  | none => none

/-- string → value; `[]` stands for "absent" as well (`QDomElement::attribute` of a missing
attribute and `text()` of a null element are both empty) -/
def FTy.parse : FTy → Str → Val
  | .str, s => .str s
  | .nat b, s => .nat (lenientNat b s)
  | .optNat b, s => .opt (strictNat b s)
  | .optInt b, s => .opt (countOfSigned none (strictInt b s))
  | .optIntZ b, s => .opt (countOfSigned (some 0) (strictInt b s))
  | .posInt b, s => .opt (posOfSigned (strictInt b s))
  | .sint b _, s => match strictInt b s with
    | some (neg, m) => .int (neg && m != 0) m
    | none => .int false 0
  | .flag ts, s => .flag (ts.contains s)
  | .enum ns, s => .opt (idxOf s ns)
  | .enumD ns d, s => .nat (match idxOf s ns with | some i => i | none => d)
  | .enumL ns, s => .opt (idxOf (lowerStr s) ns)
  | .b64, s => .str (strOfBytes (b64dec s))
  | .dateTime, s => .dt ((Scalar.dtParseCode s).filter fun d => decide (Scalar.ValidDt d))

/-- value → string as the class prints it; `[]` for values that are never printed -/
def FTy.show : FTy → Val → Str
  | .str, .str s => s
  | .nat _, .nat n => natToStr n
  | .optNat _, .opt (some n) => natToStr n
  | .optInt _, .opt (some n) => natToStr n
  | .optIntZ _, .opt (some n) => natToStr n
  | .posInt _, .opt (some n) => natToStr n
  | .sint _ ze, .int neg m => if ze && m == 0 then [] else if neg then '-' :: natToStr m else natToStr m
  | .flag ts, .flag true => ts.headD []
  | .enum ns, .opt (some i) => nth ns i
  | .enumD ns _, .nat i => nth ns i
  | .enumL ns, .opt (some i) => nth ns i
  | .b64, .str s => b64enc (bytesOf s)
  | .dateTime, .dt (some d) => Scalar.dtToStr d
  | _, _ => []

/-- the value for which an omitting writer (`writeOptionalXmlAttribute`, `if (x > 0)`,
`if (flag)`, `if (opt)`) writes nothing -/
def FTy.isDefault : FTy → Val → Bool
  | .str, .str s => s.isEmpty
  | .nat _, .nat n => n == 0
  | .optNat _, .opt i => i.isNone
  | .optInt _, .opt i => i.isNone
  | .optIntZ _, .opt i => i.isNone
  | .posInt _, .opt i => i.isNone
  | .sint _ _, .int _ m => m == 0
  | .flag _, .flag b => !b
  | .enum _, .opt i => i.isNone
  | .enumD _ d, .nat i => i == d
  | .enumL _, .opt i => i.isNone
  | .b64, .str s => s.isEmpty
  | .dateTime, .dt d => d.isNone
  | _, _ => true

/-- values of the right shape and range -/
def FTy.canon : FTy → Val → Bool
  | .str, .str _ => true
  | .nat b, .nat n => n < 2 ^ b
  | .optNat _, .opt Option.none => true
  | .optNat b, .opt (some n) => n < 2 ^ b
  | .optInt _, .opt Option.none => true
  | .optInt b, .opt (some n) => n < 2 ^ b
  | .optIntZ _, .opt Option.none => true
  | .optIntZ b, .opt (some n) => n < 2 ^ b
  | .posInt _, .opt Option.none => true
  | .posInt b, .opt (some n) => 0 < n && n < 2 ^ b
  | .sint b _, .int neg m => if neg then 0 < m && m ≤ 2 ^ b else m < 2 ^ b
  | .flag _, .flag _ => true
  | .enum _, .opt Option.none => true
  | .enum ns, .opt (some i) => i < ns.length
  | .enumD ns d, .nat i => i < ns.length || i == d
  | .enumL _, .opt Option.none => true
  | .enumL ns, .opt (some i) => i < ns.length
  | .b64, .str s => s.all fun c => c.toNat < 256
  | .dateTime, .dt Option.none => true
  | .dateTime, .dt (some d) => decide (Scalar.ValidDt d)
  | _, _ => false

/-- a scalar type is usable: flag spellings non-empty, enum names non-empty and distinct -/
def FTy.wf : FTy → Bool
  | .flag ts => !ts.isEmpty && !ts.contains []
  | .enum ns => !ns.contains [] && nodupB ns
  | .enumD ns _ => !ns.contains [] && nodupB ns
  | .enumL ns => !ns.contains [] && nodupB ns && ns.all fun n => lowerStr n == n
  | .optIntZ _ => false
  | _ => true

/-! ## sets of strings (`QSet<QString>`): canonical form = strictly increasing by code point -/

def ltStr : Str → Str → Bool
  | [], [] => false
  | [], _ :: _ => true
  | _ :: _, [] => false
  | a :: as, b :: bs => a.toNat < b.toNat || (a.toNat == b.toNat && ltStr as bs)

def insertSet (x : Str) : List Str → List Str
  | [] => [x]
  | y :: ys => if ltStr x y then x :: y :: ys else if x == y then y :: ys else y :: insertSet x ys

/-- sorted, duplicates removed -/
def mkSet (l : List Str) : List Str := l.foldr insertSet []

def sortedB : List Str → Bool
  | [] => true
  | [_] => true
  | x :: y :: r => ltStr x y && sortedB (y :: r)

/-! ## trees -/

mutual
  /-- `QDomElement::text()`: the text of all descendant text nodes, in document order -/
  def deepText : Node → Str
    | .text s => s
    | .elem _ _ ks => deepTextList ks
  def deepTextList : List Node → Str
    | [] => []
    | k :: ks => deepText k ++ deepTextList ks
end

/-! ## uninterpreted children (`QXmppElement`, `QXmppElementList`)

What a stanza does not understand it keeps as `QXmppElement`s and writes back.  `QXmppElement(QDomElement)` is not the
identity on trees: it keeps the tag, an `xmlns` attribute exactly when the element's namespace differs from its
parent's, every other attribute with a NON-EMPTY value, the concatenation of the direct text children (written FIRST)
and the child elements, recursively.  `normE pns` is that function for an element found where the namespace `pns` is in
scope.  (Since /repo 5969ee4; the code before it dropped an `xmlns=""` that un-declares the parent's namespace, so the
element changed namespace — fixed findings `…:input-has-xmlns-undeclaration`.) -/

def directText : List Node → Str
  | [] => []
  | .text s :: ks => s ++ directText ks
  | .elem .. :: ks => directText ks

def keptAttrs (as : List (Str × Str)) : List (Str × Str) := as.filter fun kv => kv.1 != "xmlns".toList && !kv.2.isEmpty

mutual
  def normE (pns : Str) : Node → Node
    | .text s => .text s
    | .elem n as ks =>
      let ns := (Node.elem n as []).nsOf pns
      .elem n ((if ns == pns then [] else [("xmlns".toList, ns)]) ++ keptAttrs as)
        ((if (directText ks).isEmpty then [] else [.text (directText ks)]) ++ normEs ns ks)
  def normEs (pns : Str) : List Node → List Node
    | [] => []
    | .text _ :: ks => normEs pns ks
    | .elem n as ks' :: ks => normE pns (.elem n as ks') :: normEs pns ks
end

mutual
  /-- decidable equality of trees (the derived `BEq` of `Node` has no lawfulness proof) -/
  def nodeEq : Node → Node → Bool
    | .text a, .text b => a == b
    | .elem n as ks, .elem m bs ls => n == m && as == bs && nodesEq ks ls
    | _, _ => false
  def nodesEq : List Node → List Node → Bool
    | [], [] => true
    | a :: as, b :: bs => nodeEq a b && nodesEq as bs
    | _, _ => false
end

/-- a pattern of child elements: tag and / or namespace fixed -/
structure Pat where
  tag : Option Str
  ns : Option Str
  deriving Repr, BEq, DecidableEq

def Pat.matches (p : Pat) (pns : Str) (k : Node) : Bool :=
  k.isElem && (match p.tag with | none => true | some t => k.name == t)
    && (match p.ns with | none => true | some n => k.nsOf pns == n)

/-- the pattern matches every element with this (tag, namespace) -/
def Pat.covers (p : Pat) (hd : Str × Str) : Bool :=
  (match p.tag with | none => true | some t => hd.1 == t) && (match p.ns with | none => true | some n => hd.2 == n)

def exclAny (excl : List Pat) (pns : Str) (k : Node) : Bool := excl.any fun p => p.matches pns k

/-- how a child element is written and looked up -/
structure Head where
  tag : Str
  /-- namespace the element is in -/
  ns : Str
  /-- the writer calls `writeDefaultNamespace` (explicit `xmlns` attribute); otherwise the element
  inherits its parent's namespace -/
  decl : Bool
  /-- the parser looks the child up by tag only (`firstChildElement(el, tag)` without namespace) -/
  anyNs : Bool
  /-- the parser takes child elements of any name (`iterChildElements(el)` without tag) -/
  anyTag : Bool := false
  /-- the parser finds the child by tag alone and THEN tests its namespace; a child with the right tag in
  another namespace hides later ones and reads as absent (`el.firstChildElement("set")` followed by
  `if (set.namespaceURI() == ns_rsm)`); only meaningful with `anyNs` on a `child` field -/
  nsAfter : Bool := false
  /-- the parser loops over ALL matching children and keeps what the last one says (`for (… : iterChildElements(el))
  { if (tag == …) x = …; }`); otherwise the first match counts (`firstChildElement`) -/
  last : Bool := false
  /-- constant attributes the writer adds and the parser never reads (`xml:lang="en"` on the error text) -/
  extra : List (Str × Str) := []
  deriving Repr, BEq, DecidableEq

def xmlnsKey : Str := "xmlns".toList

def nsAttr (decl : Bool) (ns : Str) : List (Str × Str) := if decl then [(xmlnsKey, ns)] else []

def Head.mk' (h : Head) (as : List (Str × Str)) (ks : List Node) : Node :=
  .elem h.tag ((nsAttr h.decl h.ns ++ h.extra) ++ as) ks

/-- the child a lookup settles on: the first match, or the last one for "last match wins" loops -/
def pickChild (last : Bool) (p : Node → Bool) (kids : List Node) : Option Node :=
  if last then (kids.filter p).getLast? else kids.find? p

/-- `firstChildElement(parent, tag, ns)`'s test on one child; `pns` = namespace of the parent -/
def Head.matches (h : Head) (pns : Str) (k : Node) : Bool :=
  k.isElem && (h.anyTag || k.name == h.tag) && (h.anyNs || k.nsOf pns == h.ns)

/-- the pattern claims at least every element a lookup "tag `tag` (any when `anyTag`), namespace `ns` (any when `anyNs`)" can see -/
def Pat.coversLookup (p : Pat) (anyTag : Bool) (tag : Str) (anyNs : Bool) (ns : Str) : Bool :=
  (match p.tag with | none => true | some t => !anyTag && tag == t) && (match p.ns with | none => true | some n => !anyNs && ns == n)

/-- `firstChildElement(parent, {}, ns)`'s test (any tag) -/
def matchesNs (ns : Str) (anyNs : Bool) (pns : Str) (k : Node) : Bool :=
  k.isElem && (anyNs || k.nsOf pns == ns)

/-- the children a `tagChild` field considers -/
def tagCand (ns : Str) (anyNs : Bool) (names skip : List Str) (knownOnly : Bool) (pns : Str) (k : Node) : Bool :=
  k.isElem && (anyNs || k.nsOf pns == ns) && !skip.contains k.name && (!knownOnly || names.contains k.name)

/-- a null `QDomElement` -/
def nullNode : Node := .elem [] [] []

inductive ChildMode
  /-- `std::optional<T>`: written iff set, `T::fromDom(firstChildElement(…))` -/
  | optional
  /-- wrapper element written only when something is inside (`if (!features.empty())`,
  `writeOptionalXmlTextElement`); an absent wrapper reads as all defaults -/
  | wrapOmit
  /-- wrapper element always written -/
  | wrapAlways
  /-- element written only when one of the fields marked `true` in `mask` writes something (`if (type == NoType &&
  condition == NoCondition) return;`); without them the class treats the element as absent, so it also READS as absent
  (all defaults) — canonical values have all fields unset when the marked ones are -/
  | wrapGuard (mask : List Bool)
  /-- the conjunctive variant: the element is written only when EVERY field marked in `mask` writes something
  (`if (!node.isEmpty() && !ver.isEmpty() && !hash.isEmpty())`), and reads as absent otherwise -/
  | wrapAll (mask : List Bool)
  deriving Repr, BEq, DecidableEq

def ChildMode.isGuard : ChildMode → Bool
  | .wrapGuard _ => true
  | _ => false

def ChildMode.isAll : ChildMode → Bool
  | .wrapAll _ => true
  | _ => false

def ChildMode.guardN : ChildMode → List Bool
  | .wrapGuard m => m
  | .wrapAll m => m
  | _ => []

inductive Field
  /-- attribute; `omitD`: not written when the value is the default -/
  | attr (name : Str) (ty : FTy) (omitD : Bool)
  /-- attribute the parser reads but the writer never writes (a defect of the class: the schema is
  not well-formed, `wfF` is false) -/
  | attrReadOnly (name : Str) (ty : FTy)
  /-- attribute that the parser reads under one name and the writer writes under ANOTHER (a defect of the class:
  `attribute("queryId")` / `writeAttribute("queryid", …)`; never well-formed, `wfF` is false) -/
  | attrRW (rname wname : Str) (ty : FTy) (omitD : Bool)
  /-- MANDATORY attribute: always written; an element where it reads as the default (absent, empty, unknown) is rejected
  by `fromDom`, or skipped when it is a repeated item (`isValid()`) -/
  | attrReq (name : Str) (ty : FTy)
  /-- the element's own text content -/
  | text (ty : FTy)
  /-- optional child whose TAG is the value (`<failed><item-not-found xmlns=…/></failed>`): the first
  child element in namespace `ns` (any namespace when `anyNs`) is looked up in `names`;
  `mandatory`: `fromDom` rejects the element when no known name is found -/
  | enumChild (ns : Str) (decl anyNs : Bool) (names : List Str) (mandatory : Bool)
  /-- optional child whose TAG is a value, with more lookup rules than `enumChild` and an optional text payload
  (`<error><gone xmlns=…>uri</gone></error>`, `<reason><success/></reason>`).  Candidates are the child elements in
  namespace `ns` (any namespace when `anyNs`) whose tag is not in `skip` and, when `knownOnly`, is one of `names`; the
  first candidate counts, or the last one when `last`.  Its tag is looked up in `names` (unknown ⇒ unset); its text is
  kept when the value is one of `textFor` (indices into `names`).  Value: `.record [.opt index, .str text]`. -/
  | tagChild (ns : Str) (decl anyNs : Bool) (names skip : List Str) (knownOnly last : Bool) (textFor : List Nat)
  /-- nested record / wrapper -/
  | child (h : Head) (fields : List Field) (mode : ChildMode)
  /-- repeated items (`iterChildElements(el, tag, ns)`); `nonEmpty`: `fromDom` rejects the element
  when there is no item -/
  | many (h : Head) (fields : List Field) (nonEmpty : Bool)
  /-- a SET of strings, one `<tag>text</tag>` child each (`QSet<QString>`: roster groups).  The value is the list of
  the members in strictly increasing order (by code point); the class writes them in hash order, so documents are
  compared up to the order of these siblings (the harness sorts them). -/
  | strSet (h : Head)
  /-- XEP-0004 `<field/>` content whose reading and writing DEPEND on an enumerated attribute (the field type):
  the attribute `attr` (index into `names`, unknown / absent ⇒ `dflt`, always written), the value children `vh` and the
  repeated option records `oh` / `ofs`.  `kinds[i]` says how type `i` treats its value children: 0 = the first one is the
  value, a `QString` that may be null (no child) — written when non-null (`dropsEmpty`: today's code writes it only when
  non-EMPTY, so an empty non-null value comes back null; not well-formed); 1 = boolean, the first one ∈ {"1","true"},
  always written as "1"/"0"; 2 = all of them, in order.  Options are read and written only for the types in `optFor`.
  Value: `.record [.nat type, V, .list options]`, V = `.absent | .str s` / `.flag b` / `.list [.str …]`. -/
  | formValue (attr : Str) (names : List Str) (dflt : Nat) (vh : Head) (kinds : List Nat) (dropsEmpty : Bool)
      (oh : Head) (ofs : List Field) (optFor : List Nat)
  /-- the REST: every child element that no sibling field claims, kept as an uninterpreted tree in document order
  (`QXmppElementList extensions`).  `excl` lists what the siblings claim (`if (tag == … ) … else unknown << child`);
  well-formedness demands that it covers every sibling's lookup and everything a sibling writes, so the children are
  PARTITIONED between the typed fields and the rest.  `pns` is the namespace in scope inside the element.
  Value: `.list [.node t, …]`; canonical: each `t` an element outside `excl` with `normE pns t = t`. -/
  | rest (pns : Str) (excl : List Pat)
  deriving Repr

/-- `<tag>text</tag>` child (`writeXmlTextElement` / `writeOptionalXmlTextElement`) -/
def Field.textChild (h : Head) (ty : FTy) (omitWhenEmpty : Bool) : Field :=
  .child h [.text ty] (if omitWhenEmpty then .wrapOmit else .wrapAlways)

/-- `<tag xmlns=…/>` present iff true -/
def Field.flagChild (h : Head) : Field := .child h [] .optional

def textNode (s : Str) : List Node := if s.isEmpty then [] else [.text s]

def Val.isSomeOpt : Val → Bool
  | .opt (some _) => true
  | _ => false

/-- the value of a `tagChild` field: (index of the tag, text payload) -/
def Val.tagParts : Val → Option (Option Nat × Str)
  | .record [.opt i, .str t] => some (i, t)
  | _ => none

def Val.getNode : Val → Node
  | .node t => t
  | _ => .text []

def Val.isNode : Val → Bool
  | .node _ => true
  | _ => false

def Val.getStr : Val → Str
  | .str s => s
  | _ => []

def Val.isStr : Val → Bool
  | .str _ => true
  | _ => false

def Val.recVals : Val → List Val
  | .record vs => vs
  | _ => []

/-- `enumFromString(…).value_or(names[dflt])` as an index -/
def enumIdxD (s : Str) (names : List Str) (dflt : Nat) : Nat :=
  match idxOf s names with
  | some i => i
  | none => dflt

/-- the parts of a `formValue` value -/
def Val.formParts : Val → Option (Nat × Val × List Val)
  | .record [.nat i, v, .list os] => some (i, v, os)
  | _ => none

def boolTrues : List Str := ["1".toList, "true".toList]

/-- value children written for a type of kind `k` -/
def formValueKids (vh : Head) (k : Nat) (dropsEmpty : Bool) : Val → List Node
  | .str s => if k == 1 || k == 2 then [] else (if dropsEmpty && s.isEmpty then [] else [vh.mk' [] (textNode s)])
  | .flag b => if k == 1 then [vh.mk' [] (textNode (if b then "1".toList else "0".toList))] else []
  | .list items => if k == 2 then items.map fun it => vh.mk' [] (textNode it.getStr) else []
  | _ => []

/-- value read from the texts of the value children for a type of kind `k` -/
def formValueOf (k : Nat) (ts : List Str) : Val :=
  if k == 1 then .flag (boolTrues.contains (ts.headD []))
  else if k == 2 then .list (ts.map Val.str)
  else match ts with
    | [] => .absent
    | t :: _ => .str t

def formValueCanon (k : Nat) : Val → Bool
  | .absent => k != 1 && k != 2
  | .str _ => k != 1 && k != 2
  | .flag _ => k == 1
  | .list items => k == 2 && items.all Val.isStr
  | _ => false

/-! ## encode -/

mutual
  /-- attributes and children one field contributes -/
  def encF : Field → Val → List (Str × Str) × List Node
    | .attr name ty omitD, v => (if omitD && ty.isDefault v then [] else [(name, ty.show v)], [])
    | .attrReadOnly _ _, _ => ([], [])
    | .attrRW _ wname ty omitD, v => (if omitD && ty.isDefault v then [] else [(wname, ty.show v)], [])
    | .attrReq name ty, v => ([(name, ty.show v)], [])
    | .text ty, v => ([], textNode (ty.show v))
    | .enumChild ns decl _ names _, v =>
      match v with
      | .opt (some i) => ([], [.elem (nth names i) (nsAttr decl ns) []])
      | _ => ([], [])
    | .tagChild ns decl _ names _ _ _ _, v =>
      match v.tagParts with
      | some (some i, t) => ([], [.elem (nth names i) (nsAttr decl ns) (textNode t)])
      | _ => ([], [])
    | .child h fs mode, v =>
      match v with
      | .record vs =>
        let r := encFs fs vs
        if mode == .wrapOmit && r.1.isEmpty && r.2.isEmpty then ([], [])
        else if (mode.isGuard && guardEmpty mode.guardN fs vs) || (mode.isAll && guardSome mode.guardN fs vs) then ([], [])
        else ([], [h.mk' r.1 r.2])
      | _ => ([], [])
    | .many h fs _, v =>
      match v with
      | .list items => ([], items.map fun it => let r := encFs fs it.recVals; h.mk' r.1 r.2)
      | _ => ([], [])
    | .strSet h, v =>
      match v with
      | .list items => ([], items.map fun it => h.mk' [] (textNode it.getStr))
      | _ => ([], [])
    | .formValue a names _ vh kinds de oh ofs optFor, v =>
      match v.formParts with
      | some (i, w, os) =>
        ([(a, nth names i)], formValueKids vh (kinds.getD i 0) de w ++
          (if optFor.contains i then os.map fun it => let r := encFs ofs it.recVals; oh.mk' r.1 r.2 else []))
      | none => ([], [])
    | .rest _ _, v =>
      match v with
      | .list items => ([], items.map Val.getNode)
      | _ => ([], [])
  def encFs : List Field → List Val → List (Str × Str) × List Node
    | [], _ => ([], [])
    | _ :: _, [] => ([], [])
    | f :: fs, v :: vs =>
      let a := encF f v
      let b := encFs fs vs
      (a.1 ++ b.1, a.2 ++ b.2)
  /-- the fields marked in the mask write nothing -/
  def guardEmpty : List Bool → List Field → List Val → Bool
    | [], _, _ => true
    | _ :: _, [], _ => true
    | _ :: _, _ :: _, [] => true
    | b :: bs, f :: fs, v :: vs =>
      let a := encF f v
      (!b || (a.1.isEmpty && a.2.isEmpty)) && guardEmpty bs fs vs
  /-- some field marked in the mask writes nothing -/
  def guardSome : List Bool → List Field → List Val → Bool
    | [], _, _ => false
    | _ :: _, [], _ => false
    | _ :: _, _ :: _, [] => false
    | b :: bs, f :: fs, v :: vs =>
      let a := encF f v
      (b && a.1.isEmpty && a.2.isEmpty) || guardSome bs fs vs
end

def guardOff (mode : ChildMode) (fs : List Field) (vs : List Val) : Bool :=
  (mode.isGuard && guardEmpty mode.guardN fs vs) || (mode.isAll && guardSome mode.guardN fs vs)

/-- the mask marks at least one field -/
def maskHits : List Bool → List Field → Bool
  | b :: bs, _ :: fs => b || maskHits bs fs
  | _, _ => false

/-! mandatory parts: `fromDom` rejects the element when they are missing; a repeated item whose mandatory parts are missing is
SKIPPED (`if (address.isValid()) list << address`). -/
mutual
  /-- mandatory parts carry a value -/
  def mandF : Field → Val → Bool
    | .enumChild _ _ _ _ m, v => !m || v.isSomeOpt
    | .attrReq _ ty, v => !ty.isDefault v
    | .many _ _ ne, v =>
      match v with
      | .list items => !ne || !items.isEmpty
      | _ => true
    | .child _ fs mode, v =>
      match v with
      | .record vs => mode == .optional || mandOK fs vs
      | _ => true
    | _, _ => true
  def mandOK : List Field → List Val → Bool
    | f :: fs, v :: vs => mandF f v && mandOK fs vs
    | _, _ => true
end

/-! ## decode (total on every tree) -/

mutual
  /-- value of one field read from element `x` whose namespace is `pns` -/
  def decF (pns : Str) (x : Node) : Field → Val
    | .attr name ty _ => ty.parse (attr x.attrs name)
    | .attrReadOnly name ty => ty.parse (attr x.attrs name)
    | .attrRW rname _ ty _ => ty.parse (attr x.attrs rname)
    | .attrReq name ty => ty.parse (attr x.attrs name)
    | .text ty => ty.parse (deepText x)
    | .enumChild ns _ anyNs names _ =>
      match x.kids.find? (matchesNs ns anyNs pns) with
      | some k => .opt (idxOf k.name names)
      | none => .opt none
    | .tagChild ns _ anyNs names skip knownOnly last textFor =>
      match pickChild last (tagCand ns anyNs names skip knownOnly pns) x.kids with
      | some k =>
        match idxOf k.name names with
        | some i => .record [.opt (some i), .str (if textFor.contains i then deepText k else [])]
        | none => .record [.opt none, .str []]
      | none => .record [.opt none, .str []]
    | .child h fs mode =>
      match (pickChild h.last (h.matches pns) x.kids).filter (fun k => !h.nsAfter || k.nsOf pns == h.ns) with
      | some k =>
        if guardOff mode fs (decFs (k.nsOf pns) k fs) then .record (decFs h.ns nullNode fs)
        else .record (decFs (k.nsOf pns) k fs)
      | none => if mode == .optional then .absent else .record (decFs h.ns nullNode fs)
    | .many h fs _ =>
      .list ((x.kids.filter (h.matches pns)).filterMap fun k =>
        if mandOK fs (decFs (k.nsOf pns) k fs) then some (.record (decFs (k.nsOf pns) k fs)) else none)
    | .strSet h => .list ((mkSet ((x.kids.filter (h.matches pns)).map deepText)).map Val.str)
    | .formValue a names dflt vh kinds _ oh ofs optFor =>
      let i := enumIdxD (attr x.attrs a) names dflt
      .record [.nat i, formValueOf (kinds.getD i 0) ((x.kids.filter (vh.matches pns)).map deepText),
        .list (if optFor.contains i then (x.kids.filter (oh.matches pns)).map fun k => .record (decFs (k.nsOf pns) k ofs) else [])]
    | .rest p excl => .list ((x.kids.filter fun k => k.isElem && !exclAny excl p k).map fun k => .node (normE p k))
  def decFs (pns : Str) (x : Node) : List Field → List Val
    | [] => []
    | f :: fs => decF pns x f :: decFs pns x fs
end

/-! ## canonical values: what a decode can produce -/

mutual
  def canonF : Field → Val → Bool
    | .attr _ ty _, v => ty.canon v
    | .attrReadOnly _ ty, v => ty.canon v
    | .attrRW _ _ ty _, v => ty.canon v
    | .attrReq _ ty, v => ty.canon v
    | .text ty, v => ty.canon v
    | .enumChild _ _ _ names _, v =>
      match v with
      | .opt none => true
      | .opt (some i) => i < names.length
      | _ => false
    | .tagChild _ _ _ names _ _ _ textFor, v =>
      match v.tagParts with
      | some (none, t) => t.isEmpty
      | some (some i, t) => i < names.length && (t.isEmpty || textFor.contains i)
      | none => false
    | .child _ fs mode, v =>
      match v with
      | .absent => mode == .optional
      | .record vs => canonFs fs vs &&
          (!guardOff mode fs vs || ((encFs fs vs).1.isEmpty && (encFs fs vs).2.isEmpty))
      | _ => false
    | .many _ fs _, v =>
      match v with
      | .list items => items.all fun it => match it with
        | .record vs => canonFs fs vs && mandOK fs vs
        | _ => false
      | _ => false
    | .strSet _, v =>
      match v with
      | .list items => items.all Val.isStr && sortedB (items.map Val.getStr)
      | _ => false
    | .formValue _ names _ _ kinds _ _ ofs optFor, v =>
      match v.formParts with
      | some (i, w, os) =>
        i < names.length && formValueCanon (kinds.getD i 0) w &&
          (if optFor.contains i then os.all fun it => match it with
            | .record vs => canonFs ofs vs
            | _ => false
           else os.isEmpty)
      | none => false
    | .rest p excl, v =>
      match v with
      | .list items => items.all fun it => it.isNode && it.getNode.isElem && !exclAny excl p it.getNode
          && nodeEq (normE p it.getNode) it.getNode
      | _ => false
  def canonFs : List Field → List Val → Bool
    | [], [] => true
    | f :: fs, v :: vs => canonF f v && canonFs fs vs
    | _, _ => false
end

/-! ## well-formed schemas (decidable, syntactic) -/

/-- (tag, namespace) pairs of the child elements a field can emit -/
def Field.heads : Field → List (Str × Str)
  | .attr .. => []
  | .attrReadOnly .. => []
  | .attrRW .. => []
  | .attrReq .. => []
  | .text _ => []
  | .enumChild ns _ _ names _ => names.map fun n => (n, ns)
  | .tagChild ns _ _ names _ _ _ _ => names.map fun n => (n, ns)
  | .child h _ _ => [(h.tag, h.ns)]
  | .many h _ _ => [(h.tag, h.ns)]
  | .strSet h => [(h.tag, h.ns)]
  | .formValue _ _ _ vh _ _ oh _ _ => [(vh.tag, vh.ns), (oh.tag, oh.ns)]
  | .rest .. => []

def Field.isRest : Field → Bool
  | .rest .. => true
  | _ => false

def Field.emitsKids : Field → Bool
  | .attr .. => false
  | .attrReadOnly .. => false
  | .attrRW .. => false
  | .attrReq .. => false
  | _ => true

/-- the children of the element that influence what field `f` reads -/
def Field.sees (pns : Str) : Field → Node → Bool
  | .attr .., _ => false
  | .attrReadOnly .., _ => false
  | .attrRW .., _ => false
  | .attrReq .., _ => false
  | .text _, _ => true
  | .enumChild ns _ anyNs _ _, k => matchesNs ns anyNs pns k
  | .tagChild ns _ anyNs names skip knownOnly _ _, k => tagCand ns anyNs names skip knownOnly pns k
  | .child h _ _, k => h.matches pns k
  | .many h _ _, k => h.matches pns k
  | .strSet h, k => h.matches pns k
  | .formValue _ _ _ vh _ _ oh _ _, k => vh.matches pns k || oh.matches pns k
  | .rest p excl, k => k.isElem && !exclAny excl p k

/-- the attribute names field `f` reads -/
def Field.reads : Field → Str → Bool
  | .attr n _ _, k => n == k
  | .attrReadOnly n _, k => n == k
  | .attrRW r _ _ _, k => r == k
  | .attrReq n _, k => n == k
  | .formValue a .., k => a == k
  | _, _ => false

/-- the attribute names field `f` writes -/
def Field.writes : Field → Str → Bool
  | .attr n _ _, k => n == k
  | .attrRW _ w _ _, k => w == k
  | .attrReq n _, k => n == k
  | .formValue a .., k => a == k
  | _, _ => false

/-- the one attribute name a field writes, if any -/
def Field.wname : Field → Option Str
  | .attr n _ _ => some n
  | .attrRW _ w _ _ => some w
  | .attrReq n _ => some n
  | .formValue a .. => some a
  | _ => none

/-- attributes: `g` writes nothing that `f` reads -/
def indepA (f g : Field) : Bool :=
  match g.wname with
  | some w => !f.reads w
  | none => true

/-- the rest's exclusion list claims at least every child that field `f` can see -/
def Field.covered (excl : List Pat) : Field → Bool
  | .attr .. => true
  | .attrReadOnly .. => true
  | .attrRW .. => true
  | .attrReq .. => true
  | .text _ => false
  | .enumChild ns _ anyNs _ _ => excl.any fun e => e.coversLookup true [] anyNs ns
  | .tagChild ns _ anyNs _ _ _ _ _ => excl.any fun e => e.coversLookup true [] anyNs ns
  | .child h _ _ => excl.any fun e => e.coversLookup h.anyTag h.tag h.anyNs h.ns
  | .many h _ _ => excl.any fun e => e.coversLookup h.anyTag h.tag h.anyNs h.ns
  | .strSet h => excl.any fun e => e.coversLookup h.anyTag h.tag h.anyNs h.ns
  | .formValue _ _ _ vh _ _ oh _ _ =>
    (excl.any fun e => e.coversLookup vh.anyTag vh.tag vh.anyNs vh.ns) && (excl.any fun e => e.coversLookup oh.anyTag oh.tag oh.anyNs oh.ns)
  | .rest .. => false

/-- child elements: nothing that `g` writes is visible to the way `f` reads -/
def indepK (f g : Field) : Bool :=
  match g with
  | .rest _ excl => f.covered excl
  | _ =>
  match f with
  | .attr .. => true
  | .attrReadOnly .. => true
  | .attrRW .. => true
  | .attrReq .. => true
  | .text _ => !g.emitsKids
  | .enumChild ns _ anyNs _ _ =>
    match g with
    | .text _ => false
    | _ => g.heads.all fun hd => !(anyNs || hd.2 == ns)
  | .tagChild ns _ anyNs names skip knownOnly _ _ =>
    match g with
    | .text _ => true
    | _ => g.heads.all fun hd =>
      !((anyNs || hd.2 == ns) && !skip.contains hd.1 && (!knownOnly || names.contains hd.1))
  | .child h _ _ =>
    match g with
    | .text _ => true
    | _ => g.heads.all fun hd => !((h.anyTag || hd.1 == h.tag) && (h.anyNs || hd.2 == h.ns))
  | .many h _ _ =>
    match g with
    | .text _ => true
    | _ => g.heads.all fun hd => !((h.anyTag || hd.1 == h.tag) && (h.anyNs || hd.2 == h.ns))
  | .strSet h =>
    match g with
    | .text _ => true
    | _ => g.heads.all fun hd => !((h.anyTag || hd.1 == h.tag) && (h.anyNs || hd.2 == h.ns))
  | .formValue _ _ _ vh _ _ oh _ _ =>
    match g with
    | .text _ => true
    | _ => g.heads.all fun hd => !(((vh.anyTag || hd.1 == vh.tag) && (vh.anyNs || hd.2 == vh.ns))
        || ((oh.anyTag || hd.1 == oh.tag) && (oh.anyNs || hd.2 == oh.ns)))
  | .rest _ excl =>
    match g with
    | .text _ => true
    | _ => g.heads.all fun hd => excl.any fun e => e.covers hd

/-- `indep f g`: nothing that `g` writes is visible to the way `f` reads -/
def indep (f g : Field) : Bool := indepA f g && indepK f g

/-- the child ends up in namespace `h.ns` when written inside an element of namespace `pns` -/
def Head.ok (pns : Str) (h : Head) : Bool := h.decl || h.ns == pns

/-- the constant attributes are not `xmlns` and no field of the element reads them -/
def Head.extraOk (h : Head) (fs : List Field) : Bool :=
  h.extra.all fun kv => kv.1 != xmlnsKey && fs.all fun f => !f.reads kv.1

/-! `quietFs fs`: decoding an absent element and encoding the result writes nothing (every field omits its default) -/
mutual
  def quietF : Field → Bool
    | .attr _ ty omitD => omitD && ty.isDefault (ty.parse [])
    | .attrReadOnly _ _ => true
    | .attrRW _ _ ty omitD => omitD && ty.isDefault (ty.parse [])
    | .attrReq .. => false
    | .text ty => (ty.show (ty.parse [])).isEmpty
    | .enumChild .. => true
    | .tagChild .. => true
    | .child _ fs mode =>
      match mode with
      | .optional => true
      | .wrapAlways => false
      | .wrapAll m => quietFs fs && maskHits m fs
      | _ => quietFs fs
    | .many .. => true
    | .strSet _ => true
    | .formValue .. => false
    | .rest .. => true
  def quietFs : List Field → Bool
    | [] => true
    | f :: fs => quietF f && quietFs fs
end

mutual
  def wfF (pns : Str) : Field → Bool
    | .attr name ty _ => name != xmlnsKey && ty.wf
    | .attrReadOnly _ _ => false
    | .attrRW .. => false
    | .attrReq name ty => name != xmlnsKey && ty.wf
    | .text ty => ty.wf
    | .enumChild ns decl _ names _ => (decl || ns == pns) && !names.contains [] && nodupB names
    | .tagChild ns decl _ names skip _ _ _ =>
      (decl || ns == pns) && !names.contains [] && nodupB names && names.all fun n => !skip.contains n
    | .child h fs mode => h.ok pns && h.extraOk fs && wfFs h.ns fs && (!mode.isGuard || quietFs fs)
        && (!mode.isAll || (quietFs fs && maskHits mode.guardN fs))
    | .many h fs _ => h.ok pns && h.extraOk fs && wfFs h.ns fs
    | .strSet h => h.ok pns && h.extraOk []
    | .formValue a names dflt vh _ de oh ofs _ =>
      a != xmlnsKey && !names.contains [] && nodupB names && dflt < names.length && !de
        && vh.ok pns && vh.extraOk [] && oh.ok pns && oh.extraOk ofs && wfFs oh.ns ofs
        && !((vh.anyTag || oh.tag == vh.tag) && (vh.anyNs || oh.ns == vh.ns))
        && !((oh.anyTag || vh.tag == oh.tag) && (oh.anyNs || vh.ns == oh.ns))
    | .rest p _ => p == pns
  def wfFs (pns : Str) : List Field → Bool
    | [] => true
    | f :: fs => wfF pns f && fs.all (fun g => indep f g && indep g f) && wfFs pns fs
end

/-! schemas without mandatory parts at the top level / inside wrappers (`mandPlaced`: not inside optional records) -/
mutual
  def noMandF : Field → Bool
    | .enumChild _ _ _ _ m => !m
    | .child _ fs _ => noMandFs fs
    | .many _ _ ne => !ne
    | .attrReq .. => false
    | _ => true
  def noMandFs : List Field → Bool
    | [] => true
    | f :: fs => noMandF f && noMandFs fs
end

mutual
  def mandPlacedF : Field → Bool
    | .child _ fs mode => if mode == .optional || mode.isGuard || mode.isAll then noMandFs fs else mandPlacedFs fs
    | _ => true
  def mandPlacedFs : List Field → Bool
    | [] => true
    | f :: fs => mandPlacedF f && mandPlacedFs fs
end

/-! ## classes -/

/-- how `parse`/`fromDom` tests the element it is handed -/
inductive Check
  /-- `if (el.tagName() != tag || el.namespaceURI() != ns) return {};` -/
  | strict
  /-- no test at all (`parse(const QDomElement &)` of a plain value class) -/
  | unchecked
  /-- IQ payloads: `firstChildElement(iq, tag)`; when the child handed over has another tag the
  payload element is a null element -/
  | tagElseNull
  deriving Repr, BEq, DecidableEq

structure Schema where
  head : Head
  fields : List Field
  check : Check
  /-- inherited default namespace at the place the element is parsed in the harness -/
  inh : Str

def Schema.WF (S : Schema) : Prop :=
  S.head.ok S.inh = true ∧ S.head.tag ≠ [] ∧ wfFs S.head.ns S.fields = true
    ∧ mandPlacedFs S.fields = true ∧ S.head.extraOk S.fields = true

instance (S : Schema) : Decidable S.WF := by unfold Schema.WF; infer_instance

/-- values `decode` can produce and `encode` preserves -/
def Schema.Canon (S : Schema) (v : List Val) : Prop :=
  canonFs S.fields v = true ∧ mandOK S.fields v = true

instance (S : Schema) (v : List Val) : Decidable (S.Canon v) := by unfold Schema.Canon; infer_instance

/-- the library's own output form -/
def Schema.encode (S : Schema) (v : List Val) : Node :=
  let r := encFs S.fields v
  S.head.mk' r.1 r.2

/-- field values of any tree (no type check) -/
def Schema.decode (S : Schema) (x : Node) : List Val :=
  decFs (x.nsOf S.inh) x S.fields

/-- the element the field readers run on, or `none` when the type check rejects -/
def Schema.admit (S : Schema) (x : Node) : Option Node :=
  match S.check with
  | .strict => if x.isElem && x.name == S.head.tag && x.nsOf S.inh == S.head.ns then some x else none
  | .unchecked => some x
  | .tagElseNull => if x.isElem && x.name == S.head.tag then some x else some nullNode

/-- `fromDom`: type check, field readers, mandatory parts -/
def Schema.parse (S : Schema) (x : Node) : Option (List Val) :=
  match S.admit x with
  | some y =>
    let v := S.decode y
    if mandOK S.fields v then some v else none
  | none => none

/-- one parse/serialize pass -/
def Schema.norm (S : Schema) (x : Node) : Option Node := (S.parse x).map S.encode

end Qx.Xml.Codec
