import Qx.Xml.Codec.Classes
import Qx.Generated.CodecLiterals
import Qx.Generated.NsConstants
/-!
Literal-drift tie of the hand-written schemas (C01, tier C) to the C++ source.

`translators/codec_literals.py` regenerates, on every check run, the string literals and `ns_*` constants that occur
inside the `toXml` / `parse` / `fromDom` bodies of every modelled class (`Qx.Generated.CodecLiterals.table`).
`checkClass` demands, per class:

* every tag name, attribute name, boolean spelling and constant attribute of the schema occurs among the source literals,
  except the names listed under `schemaOnly` (holder elements of the harness, tags that come from a table outside the
  bodies);
* every source literal is one of those names, except the literals listed under `srcOnly` (enum spellings compared inline,
  log messages, values such as `"en"`);
* the same for namespaces, with the `ns_*` constants resolved through `Qx.Generated.Ns.constants`.

So a renamed attribute, a new field, a dropped field or a changed namespace in the C++ breaks `codec_literals_tied`
(Qx/Props/C01Codec.lean) after regeneration.  No proofs here, no Mathlib.
-/
namespace Qx.Xml.Codec.Literals
open Qx.Xml Qx.Xml.Codec

def FTy.spellings : FTy → List Str
  | .flag ts => ts
  | _ => []

mutual
  /-- tag names, attribute names, boolean spellings, constant attributes -/
  def namesF : Field → List Str
    | .attr n ty _ => n :: FTy.spellings ty
    | .attrReadOnly n ty => n :: FTy.spellings ty
    | .attrRW r w ty _ => r :: w :: FTy.spellings ty
    | .attrReq n ty => n :: FTy.spellings ty
    | .text ty => FTy.spellings ty
    | .enumChild .. => []
    | .tagChild _ _ _ _ skip _ _ _ => skip
    | .child h fs _ => h.tag :: (h.extra.map (·.1) ++ h.extra.map (·.2) ++ namesFs fs)
    | .many h fs _ => h.tag :: (h.extra.map (·.1) ++ h.extra.map (·.2) ++ namesFs fs)
    | .strSet h => [h.tag]
    | .formValue a _ _ vh _ _ oh ofs _ => a :: vh.tag :: oh.tag :: (boolTrues ++ ["0".toList] ++ namesFs ofs)
    | .rest _ excl => excl.filterMap (·.tag)
  def namesFs : List Field → List Str
    | [] => []
    | f :: fs => namesF f ++ namesFs fs
end

mutual
  def nssF : Field → List Str
    | .enumChild ns .. => [ns]
    | .tagChild ns .. => [ns]
    | .child h fs _ => h.ns :: nssFs fs
    | .many h fs _ => h.ns :: nssFs fs
    | .strSet h => [h.ns]
    | .formValue _ _ _ vh _ _ oh ofs _ => vh.ns :: oh.ns :: nssFs ofs
    | .rest _ excl => excl.filterMap (·.ns)
    | _ => []
  def nssFs : List Field → List Str
    | [] => []
    | f :: fs => nssF f ++ nssFs fs
end

def names (S : Schema) : List Str := (S.head.tag :: namesFs S.fields).eraseDups
def nss (S : Schema) : List Str := ((S.head.ns :: nssFs S.fields).filter fun n => !n.isEmpty).eraseDups

structure Ignore where
  /-- schema names that do not occur in the bodies -/
  schemaOnly : List String := []
  /-- source literals that are not names of the schema -/
  srcOnly : List String := []
  nsSchemaOnly : List String := []
  nsSrcOnly : List String := []

def resolveNs (n : String) : Option Str := (Qx.Generated.Ns.constants.find? (·.1 == n)).map (·.2.toList)

def checkWith (lits nsNames : List String) (ig : Ignore) (S : Schema) : Bool :=
  let srcL := lits.map String.toList
  let srcNs := nsNames.filterMap resolveNs
  (nsNames.all fun n => (resolveNs n).isSome)
  && ((names S).all fun n => srcL.contains n || (ig.schemaOnly.map String.toList).contains n)
  && (srcL.all fun l => (names S).contains l || (ig.srcOnly.map String.toList).contains l)
  && ((nss S).all fun n => srcNs.contains n || (ig.nsSchemaOnly.map String.toList).contains n)
  && (srcNs.all fun n => (nss S).contains n || (ig.nsSrcOnly.map String.toList).contains n)

/-- literals of QXmppDataForm::parse / toXml that belong to what the schema does NOT model (`<media/>`), a log message
and two default values -/
def formSrcOnly : List String := ["Unknown form type", "", "-1", "media", "height", "width", "uri"]

/-- the explicit per-class exceptions (reviewed by hand; everything not listed must match exactly) -/
def ignoreTable : List (String × Ignore) := [
  -- <x/> is the holder element of the harness
  ("JingleRtpEncryption", { schemaOnly := ["x"] }),
  -- schemaOnly: the hint tags come from the HINT_TYPES table, BoB / reactions / JMI / call invites are claimed through is…() predicates of
  -- other classes; srcOnly: parts of extensions that are claimed but not modelled (MIX nick, EME, delay, XHTML-IM), `lang` (= xml:lang for QDom)
  ("Message", { schemaOnly := ["no-permanent-store", "no-store", "no-copy", "store", "data", "reactions"],
                srcOnly := ["nick", "namespace", "name", "stamp", "yyyyMMddThh:mm:ss", "</body>", " xmlns=\"http://www.w3.org/1999/xhtml\"", "lang",
                            "file-too-large", "max-file-size", "retry"],
                nsSchemaOnly := ["jabber:client", "urn:xmpp:bob", "urn:xmpp:jingle-message:0", "urn:xmpp:reactions:0", "urn:xmpp:call-invites:0"],
                nsSrcOnly := ["http://www.w3.org/1999/xhtml", "urn:xmpp:http:upload:0"] }),
  -- read and never written (`ext`, `lang` = how QDom finds xml:lang), claimed but not modelled (vCard update photo, Muji), XEP-0363 error children
  ("Presence", { srcOnly := ["ext", "photo", "preparing", "content", "lang", "file-too-large", "max-file-size", "retry", "stamp"],
                 nsSchemaOnly := ["jabber:client"], nsSrcOnly := ["urn:xmpp:http:upload:0"] }),
  -- QXmppStanza::parse reads `lang` (finds nothing) and the XEP-0033 addresses, which QXmppIq never writes (they stay in the
  -- rest); the XEP-0363 children of the error are not modelled; jabber:client is the stream's namespace
  ("Iq", { srcOnly := ["lang", "addresses", "address", "file-too-large", "max-file-size", "retry", "stamp"],
           nsSchemaOnly := ["jabber:client"], nsSrcOnly := ["urn:xmpp:http:upload:0"] }),
  -- QXmppPubSubSubscription::parse / toXml serve three namespaces; each schema describes one of them
  ("PubSubSubscription", { srcOnly := ["expiry"], nsSrcOnly := ["http://jabber.org/protocol/pubsub#event"] }),
  ("PubSubSubscriptionEvent", { srcOnly := ["subscribe-options", "required"], nsSrcOnly := ["http://jabber.org/protocol/pubsub"] }),
  -- (…#owner is recognised as "neither pubsub nor event": its constant does not occur in the bodies)
  ("PubSubSubscriptionOwner", { srcOnly := ["node", "subid", "expiry", "subscribe-options", "required"],
                                nsSchemaOnly := ["http://jabber.org/protocol/pubsub#owner"],
                                nsSrcOnly := ["http://jabber.org/protocol/pubsub", "http://jabber.org/protocol/pubsub#event"] }),
  -- <holder/> is the holder element of the harness
  ("DataForm", { schemaOnly := ["holder"], srcOnly := formSrcOnly, nsSrcOnly := ["urn:xmpp:media-element"] }),
  ("MucOwnerIq", { srcOnly := formSrcOnly, nsSrcOnly := ["urn:xmpp:media-element"] }),
  ("MamQueryIq", { srcOnly := formSrcOnly, nsSrcOnly := ["urn:xmpp:media-element"] }),
  -- the two functions serve both query types: the other type's children and namespace
  ("DiscoInfoIq", { srcOnly := ["item", "jid"] ++ formSrcOnly,
                    nsSrcOnly := ["http://jabber.org/protocol/disco#items", "urn:xmpp:media-element"] }),
  ("DiscoItemsIq", { srcOnly := ["feature", "identity", "xml:lang", "category"] ++ formSrcOnly,
                     nsSrcOnly := ["http://jabber.org/protocol/disco#info", "urn:xmpp:media-element"] }),
  -- the MIX children are written with writeAttribute("xmlns", …); ns_roster is written only by the `external` overload
  ("RosterItem", { srcOnly := ["xmlns"], nsSrcOnly := ["jabber:iq:roster"] }),
  ("RosterIq", { srcOnly := ["xmlns"] }),
  -- `tls-0rtt` is read with parseBoolean (spelling "1" lives in QXmppUtils.cpp)
  ("FastFeature", { schemaOnly := ["1"] }),
  -- `invalidate` is read with parseBoolean
  ("FastRequest", { schemaOnly := ["1"] }),
  -- nested FastFeature
  ("Sasl2StreamFeature", { schemaOnly := ["1"] }),
  -- the element inherits the namespace of the enclosing <trust-message/>
  ("TrustMessageKeyOwner", { nsSchemaOnly := ["urn:xmpp:tm:1"] }),
  -- nested FastFeature; jabber:client is the namespace of the enclosing stream
  ("StreamFeatures", { schemaOnly := ["1"], nsSchemaOnly := ["jabber:client"] }),
  -- <x/> is the holder element of the harness
  ("ResultSetQuery", { schemaOnly := ["x"] }),
  -- <x/> is the holder element of the harness
  ("ResultSetReply", { schemaOnly := ["x"] }),
  -- the query tag comes from the PUBSUB_QUERIES table; the other literals belong to the other query types handled by the same two functions
  ("PubSubIqUnsubscribe", { schemaOnly := ["unsubscribe"], srcOnly := ["x", "options", "affiliation", "set", "max_items", "publish-options", "configure"], nsSrcOnly := ["jabber:x:data", "http://jabber.org/protocol/rsm", "http://jabber.org/protocol/pubsub#owner"] }),
  -- the query tag comes from the PUBSUB_QUERIES table; the other literals belong to the other query types handled by the same two functions
  ("PubSubIqSubscribe", { schemaOnly := ["subscribe"], srcOnly := ["x", "options", "subid", "affiliation", "set", "max_items", "publish-options", "configure"], nsSrcOnly := ["jabber:x:data", "http://jabber.org/protocol/rsm", "http://jabber.org/protocol/pubsub#owner"] }),
  -- the query tag comes from the PUBSUB_QUERIES table; the other literals belong to the other query types handled by the same two functions
  ("PubSubIqOptions", { srcOnly := ["x", "affiliation", "set", "max_items", "publish-options", "configure"], nsSrcOnly := ["jabber:x:data", "http://jabber.org/protocol/rsm", "http://jabber.org/protocol/pubsub#owner"] }),
  -- the query tag comes from the PUBSUB_QUERIES table; the other literals belong to the other query types handled by the same two functions
  ("PubSubIqCreate", { schemaOnly := ["create"], srcOnly := ["x", "options", "subid", "affiliation", "set", "max_items", "publish-options", "configure"], nsSrcOnly := ["jabber:x:data", "http://jabber.org/protocol/rsm", "http://jabber.org/protocol/pubsub#owner"] }),
  -- the query tag comes from the PUBSUB_QUERIES table; the other literals belong to the other query types handled by the same two functions
  ("PubSubIqDelete", { schemaOnly := ["delete"], srcOnly := ["x", "options", "subid", "affiliation", "set", "max_items", "publish-options", "configure"], nsSrcOnly := ["jabber:x:data", "http://jabber.org/protocol/rsm", "http://jabber.org/protocol/pubsub"] }),
  -- the query tag comes from the PUBSUB_QUERIES table; the other literals belong to the other query types handled by the same two functions
  ("PubSubIqPurge", { schemaOnly := ["purge"], srcOnly := ["x", "options", "subid", "affiliation", "set", "max_items", "publish-options", "configure"], nsSrcOnly := ["jabber:x:data", "http://jabber.org/protocol/rsm", "http://jabber.org/protocol/pubsub"] }),
  -- the query tag comes from the PUBSUB_QUERIES table; the other literals belong to the other query types handled by the same two functions
  ("PubSubIqConfigure", { srcOnly := ["x", "options", "subid", "affiliation", "set", "max_items", "publish-options"], nsSrcOnly := ["jabber:x:data", "http://jabber.org/protocol/rsm", "http://jabber.org/protocol/pubsub"] }),
  -- the query tag comes from the PUBSUB_QUERIES table; the other literals belong to the other query types handled by the same two functions
  ("PubSubIqDefault", { schemaOnly := ["default"], srcOnly := ["x", "options", "subid", "affiliation", "set", "max_items", "publish-options", "configure"], nsSrcOnly := ["jabber:x:data", "http://jabber.org/protocol/rsm", "http://jabber.org/protocol/pubsub#owner"] }),
  -- the query tag comes from the PUBSUB_QUERIES table; the other literals belong to the other query types handled by the same two functions
  ("PubSubIqOwnerDefault", { schemaOnly := ["default"], srcOnly := ["x", "options", "subid", "affiliation", "set", "max_items", "publish-options", "configure"], nsSrcOnly := ["jabber:x:data", "http://jabber.org/protocol/rsm", "http://jabber.org/protocol/pubsub"] }),
  -- <iq xmlns="jabber:client"/> is the holder of the harness; the XEP-0363 children are NOT modelled (outside the model)
  ("StanzaError", { schemaOnly := ["iq"], srcOnly := ["file-too-large", "max-file-size", "retry", "stamp"], nsSchemaOnly := ["jabber:client"], nsSrcOnly := ["urn:xmpp:http:upload:0"] }),
  -- <x/> is the holder element of the harness
  ("JingleReason", { schemaOnly := ["x"] })]

def ignoreOf (name : String) : Ignore :=
  match ignoreTable.find? (·.1 == name) with
  | some (_, ig) => ig
  | none => {}

def checkClass (name : String) (S : Schema) : Bool :=
  match Qx.Generated.CodecLiterals.table.find? (·.1 == name) with
  | some (_, lits, nsNames) => checkWith lits nsNames (ignoreOf name) S
  | none => false

/-- every modelled class is tied -/
def checkAll : Bool := Classes.all.all fun c => checkClass c.1 c.2

/-- the classes whose tie fails (for diagnostics in the driver) -/
def failing : List String := (Classes.all.filter fun c => !checkClass c.1 c.2).map (·.1)

end Qx.Xml.Codec.Literals
