/-
Typed scalar helpers, tier B of C01 ("typed fields over their whole lexical range"):
the model of `src/base/QXmppUtils.cpp` / `QXmppUtils_p.h`

  parseInt<T> / serializeInt<T>         (QStringView::toShort … toULongLong + range tests, QString::number)
  parseBoolean / serializeBoolean
  parseBase64 / serializeBase64         (QByteArray::fromBase64Encoding, default options / toBase64)
  QXmppUtils::datetimeFromString / datetimeToString   (XEP-0082, QDateTime Qt::ISODate[WithMs])
  QXmppUtils::timezoneOffsetFromString / ToString
  enumFromString

Every `…Code` function models what the C++ (with Qt 5.15.8 underneath) does TODAY on every input
string, not only on the library's own output; the lexical details were measured on the real
functions and are re-checked by `harness/cxx/scalars.cpp` on every run (driver ops `scalar-*` in
Qx/Driver/ScalarOps.lean).  Two things are taken as given and stated where they matter: strings are
well-formed UTF-16 (no lone surrogates), and the reading process's zone has ONE offset from UTC for
all dates (`loc`, a parameter of `dtParseCodeAt`/`splitZone`: 0 for a process in UTC, 19800 for the
zone harness/cxx/scalars.cpp runs in, Asia/Kolkata) — it matters only for date-times WITHOUT zone
designator, which Qt reads as local time.  `Stamp`/`stampToStr` model `datetimeToString` on a
QDateTime of any time spec (UTC, local, fixed offset, time zone).  `…Spec` functions are the
strict lexical forms (what the XEPs / XML Schema allow).  Strings are `List Char` (code points);
where Qt indexes UTF-16 code units (`units`) that is modelled explicitly.

Core Lean only, no proofs (the file is linked into `qxdriver_c01`).
-/
import Qx.Xml.Tree
import Qx.Base.Bytes

namespace Qx.Xml.Codec.Scalar
open Qx.Xml (Str)
open Qx (Bytes)

/-! ## Character classes of `QChar` (Qt 5.15.8, Unicode 13) -/

/-- `QChar::isSpace`: TAB..CR, SPACE, NEL, NBSP and the categories Zs, Zl, Zp -/
def isSpace (c : Char) : Bool :=
  c.toNat = 0x20 || (0x09 ≤ c.toNat && c.toNat ≤ 0x0D) || c.toNat = 0x85 || c.toNat = 0xA0 ||
  c.toNat = 0x1680 || (0x2000 ≤ c.toNat && c.toNat ≤ 0x200A) || c.toNat = 0x2028 ||
  c.toNat = 0x2029 || c.toNat = 0x202F || c.toNat = 0x205F || c.toNat = 0x3000

/-- ASCII digit `0`..`9` (the only digits the C locale converts) -/
def isDigit (c : Char) : Bool := 48 ≤ c.toNat && c.toNat ≤ 57

/-- value of an ASCII digit -/
def digitVal (c : Char) : Nat := c.toNat - 48

/-- the ASCII digit for `d < 10` -/
def digitChar (d : Nat) : Char := Char.ofNat (48 + d)

/-- `-` or U+2212 MINUS SIGN: both are a minus sign to `QLocale::c()` in Qt 5.15 -/
def isMinus (c : Char) : Bool := c.toNat = 0x2D || c.toNat = 0x2212

/-- code points of `QChar::isPunct` (categories Pc Pd Ps Pe Pi Pf Po) in the BMP, as inclusive
ranges; measured on Qt 5.15.8 and compared code point by code point on every run -/
def punctRanges : List (Nat × Nat) := [
   (0x21, 0x23), (0x25, 0x2A), (0x2C, 0x2F), (0x3A, 0x3B), (0x3F, 0x40), (0x5B, 0x5D),
   (0x5F, 0x5F), (0x7B, 0x7B), (0x7D, 0x7D), (0xA1, 0xA1), (0xA7, 0xA7), (0xAB, 0xAB),
   (0xB6, 0xB7), (0xBB, 0xBB), (0xBF, 0xBF), (0x37E, 0x37E), (0x387, 0x387), (0x55A, 0x55F),
   (0x589, 0x58A), (0x5BE, 0x5BE), (0x5C0, 0x5C0), (0x5C3, 0x5C3), (0x5C6, 0x5C6), (0x5F3, 0x5F4),
   (0x609, 0x60A), (0x60C, 0x60D), (0x61B, 0x61B), (0x61E, 0x61F), (0x66A, 0x66D), (0x6D4, 0x6D4),
   (0x700, 0x70D), (0x7F7, 0x7F9), (0x830, 0x83E), (0x85E, 0x85E), (0x964, 0x965), (0x970, 0x970),
   (0x9FD, 0x9FD), (0xA76, 0xA76), (0xAF0, 0xAF0), (0xC77, 0xC77), (0xC84, 0xC84), (0xDF4, 0xDF4),
   (0xE4F, 0xE4F), (0xE5A, 0xE5B), (0xF04, 0xF12), (0xF14, 0xF14), (0xF3A, 0xF3D), (0xF85, 0xF85),
   (0xFD0, 0xFD4), (0xFD9, 0xFDA), (0x104A, 0x104F), (0x10FB, 0x10FB), (0x1360, 0x1368), (0x1400, 0x1400),
   (0x166E, 0x166E), (0x169B, 0x169C), (0x16EB, 0x16ED), (0x1735, 0x1736), (0x17D4, 0x17D6), (0x17D8, 0x17DA),
   (0x1800, 0x180A), (0x1944, 0x1945), (0x1A1E, 0x1A1F), (0x1AA0, 0x1AA6), (0x1AA8, 0x1AAD), (0x1B5A, 0x1B60),
   (0x1BFC, 0x1BFF), (0x1C3B, 0x1C3F), (0x1C7E, 0x1C7F), (0x1CC0, 0x1CC7), (0x1CD3, 0x1CD3), (0x2010, 0x2027),
   (0x2030, 0x2043), (0x2045, 0x2051), (0x2053, 0x205E), (0x207D, 0x207E), (0x208D, 0x208E), (0x2308, 0x230B),
   (0x2329, 0x232A), (0x2768, 0x2775), (0x27C5, 0x27C6), (0x27E6, 0x27EF), (0x2983, 0x2998), (0x29D8, 0x29DB),
   (0x29FC, 0x29FD), (0x2CF9, 0x2CFC), (0x2CFE, 0x2CFF), (0x2D70, 0x2D70), (0x2E00, 0x2E2E), (0x2E30, 0x2E4F),
   (0x2E52, 0x2E52), (0x3001, 0x3003), (0x3008, 0x3011), (0x3014, 0x301F), (0x3030, 0x3030), (0x303D, 0x303D),
   (0x30A0, 0x30A0), (0x30FB, 0x30FB), (0xA4FE, 0xA4FF), (0xA60D, 0xA60F), (0xA673, 0xA673), (0xA67E, 0xA67E),
   (0xA6F2, 0xA6F7), (0xA874, 0xA877), (0xA8CE, 0xA8CF), (0xA8F8, 0xA8FA), (0xA8FC, 0xA8FC), (0xA92E, 0xA92F),
   (0xA95F, 0xA95F), (0xA9C1, 0xA9CD), (0xA9DE, 0xA9DF), (0xAA5C, 0xAA5F), (0xAADE, 0xAADF), (0xAAF0, 0xAAF1),
   (0xABEB, 0xABEB), (0xFD3E, 0xFD3F), (0xFE10, 0xFE19), (0xFE30, 0xFE52), (0xFE54, 0xFE61), (0xFE63, 0xFE63),
   (0xFE68, 0xFE68), (0xFE6A, 0xFE6B), (0xFF01, 0xFF03), (0xFF05, 0xFF0A), (0xFF0C, 0xFF0F), (0xFF1A, 0xFF1B),
   (0xFF1F, 0xFF20), (0xFF3B, 0xFF3D), (0xFF3F, 0xFF3F), (0xFF5B, 0xFF5B), (0xFF5D, 0xFF5D), (0xFF5F, 0xFF65)]

def isPunct (c : Char) : Bool := punctRanges.any fun r => r.1 ≤ c.toNat && c.toNat ≤ r.2

/-- A `QString` is a sequence of UTF-16 code units: a code point above U+FFFF occupies two
positions (a surrogate pair), neither of which is a digit, sign, space or punctuation.  The pair
is represented by two copies of U+E000 (private use: no class either), which keeps every index
and every classification as in Qt. -/
def units (s : Str) : Str :=
  s.flatMap fun c => if c.toNat < 0x10000 then [c] else [Char.ofNat 0xE000, Char.ofNat 0xE000]

/-! ## Integers -/

/-- decimal digits of `n`, most significant first, no leading zeros (`"0"` for 0) -/
def natToStr (n : Nat) : Str :=
  if n < 10 then [digitChar n] else natToStr (n / 10) ++ [digitChar (n % 10)]
termination_by n
decreasing_by omega

/-- `QString::number(v)`: `-` and the decimal digits of the magnitude -/
def intToStr : Int → Str
  | .ofNat n => natToStr n
  | .negSucc n => '-' :: natToStr (n + 1)

/-- value of a string of ASCII digits read left to right starting from `acc`; `none` as soon
as any other character occurs -/
def digitsVal : Str → Nat → Option Nat
  | [], acc => some acc
  | c :: cs, acc => if isDigit c then digitsVal cs (acc * 10 + digitVal c) else none

/-- `[+-−]? digit+` → (negative?, magnitude); what `qstrtoll`/`qstrtoull` make of the C-locale
form of the number: one optional sign, at least one digit, nothing else (no `0x`, no exponent,
no group separator, no inner blank) -/
def signMag (s : Str) : Option (Bool × Nat) :=
  match s with
  | [] => none
  | c :: cs =>
    if isMinus c then (if cs.isEmpty then none else (digitsVal cs 0).map fun m => (true, m))
    else if c = '+' then (if cs.isEmpty then none else (digitsVal cs 0).map fun m => (false, m))
    else (digitsVal (c :: cs) 0).map fun m => (false, m)

def trimStart (s : Str) : Str := s.dropWhile isSpace
def trimEnd (s : Str) : Str := (s.reverse.dropWhile isSpace).reverse
/-- `QStringView::trimmed()` / the blank skipping of `QLocaleData::numberToCLocale` -/
def trim (s : Str) : Str := trimEnd (trimStart s)

/-- the value range of a two's complement (`signed`) or unsigned integer type of `bits` bits -/
def inRange (bits : Nat) (signed : Bool) (v : Int) : Prop :=
  if signed then -(2 ^ (bits - 1) : Int) ≤ v ∧ v < (2 ^ (bits - 1) : Int)
  else 0 ≤ v ∧ v < (2 ^ bits : Int)

instance (bits : Nat) (signed : Bool) (v : Int) : Decidable (inRange bits signed v) := by
  unfold inRange; cases signed <;> infer_instance

/-- the Qt conversion `stringToInt<T>` calls: `toShort`/`toUShort` for the 8-bit types -/
def nativeBits (bits : Nat) : Nat := if bits = 8 then 16 else bits

/-- `parseInt<T>` for `T` = `intN_t` (`signed`) / `uintN_t`, N = `bits`:
blanks (QChar::isSpace) trimmed at both ends; `[+-−]?digits` (unsigned: any leading minus is
refused, even `-0`); the value must fit 64 bits (`qstrtoll`/`qstrtoull` overflow ⇒ not ok), then
the type Qt converts to (`T(val) != val` ⇒ not ok), then the explicit range test of the 8-bit
branches. -/
def parseIntCode (bits : Nat) (signed : Bool) (s : Str) : Option Int :=
  match signMag (trim s) with
  | none => none
  | some (neg, mag) =>
    if !signed && neg then none
    else
      let v : Int := if neg then -(mag : Int) else (mag : Int)
      if inRange 64 signed v then
        if inRange (nativeBits bits) signed v then
          if inRange bits signed v then some v else none
        else none
      else none

/-- strict lexical form: `-?digits` (signed) / `digits` (unsigned), value in range -/
def parseIntSpec (bits : Nat) (signed : Bool) (s : Str) : Option Int :=
  match s with
  | [] => none
  | c :: cs =>
    if c = '-' then
      (if signed && !cs.isEmpty then
        (match digitsVal cs 0 with
         | some m => if inRange bits signed (-(m : Int)) then some (-(m : Int)) else none
         | none => none)
       else none)
    else
      match digitsVal (c :: cs) 0 with
      | some m => if inRange bits signed (m : Int) then some (m : Int) else none
      | none => none

/-- a natural number in strict lexical form (`digits`), no bound -/
def parseNat (s : Str) : Option Nat :=
  if s.isEmpty then none else digitsVal s 0

/-! ## Booleans -/

/-- `parseBoolean`: exactly `1`, `true`, `0`, `false` -/
def parseBoolCode (s : Str) : Option Bool :=
  if s = ['1'] ∨ s = ['t', 'r', 'u', 'e'] then some true
  else if s = ['0'] ∨ s = ['f', 'a', 'l', 's', 'e'] then some false
  else none

/-- `serializeBoolean` -/
def boolToStr (b : Bool) : Str := if b then ['t', 'r', 'u', 'e'] else ['f', 'a', 'l', 's', 'e']

/-! ## Base64 -/

def b64alphabet : Str :=
  ['A', 'B', 'C', 'D', 'E', 'F', 'G', 'H', 'I', 'J', 'K', 'L', 'M', 'N', 'O', 'P', 'Q', 'R', 'S', 'T',
  'U', 'V', 'W', 'X', 'Y', 'Z', 'a', 'b', 'c', 'd', 'e', 'f', 'g', 'h', 'i', 'j', 'k', 'l', 'm', 'n',
  'o', 'p', 'q', 'r', 's', 't', 'u', 'v', 'w', 'x', 'y', 'z', '0', '1', '2', '3', '4', '5', '6', '7',
  '8', '9', '+', '/']

/-- the character for a 6-bit value -/
def b64char (n : Nat) : Char := b64alphabet.getD n 'A'

/-- the 6-bit value of an alphabet character (standard alphabet: `+` and `/`) -/
def b64val (c : Char) : Option Nat :=
  if 65 ≤ c.toNat && c.toNat ≤ 90 then some (c.toNat - 65)
  else if 97 ≤ c.toNat && c.toNat ≤ 122 then some (c.toNat - 97 + 26)
  else if 48 ≤ c.toNat && c.toNat ≤ 57 then some (c.toNat - 48 + 52)
  else if c = '+' then some 62
  else if c = '/' then some 63
  else none

/-- `QByteArray::toBase64()`: RFC 4648 with `=` padding -/
def b64encode : Bytes → Str
  | [] => []
  | [a] => [b64char (a.toNat / 4), b64char (a.toNat % 4 * 16), '=', '=']
  | [a, b] => [b64char (a.toNat / 4), b64char (a.toNat % 4 * 16 + b.toNat / 16),
               b64char (b.toNat % 16 * 4), '=']
  | a :: b :: c :: rest =>
    b64char (a.toNat / 4) :: b64char (a.toNat % 4 * 16 + b.toNat / 16) ::
    b64char (b.toNat % 16 * 4 + c.toNat / 64) :: b64char (c.toNat % 64) :: b64encode rest

/-- the loop of Qt's `fromBase64_helper` without `AbortOnBase64DecodingErrors`: every character
outside the alphabet (padding, blanks, anything) is skipped; alphabet characters shift 6 bits
into `buf`; a byte is emitted whenever 8 bits are available; left-over bits are dropped. -/
def b64go : Str → Nat → Nat → Bytes
  | [], _, _ => []
  | c :: cs, buf, nbits =>
    match b64val c with
    | none => b64go cs buf nbits
    | some d =>
      if nbits + 6 ≥ 8 then
        UInt8.ofNat ((buf * 64 + d) / 2 ^ (nbits + 6 - 8)) ::
          b64go cs ((buf * 64 + d) % 2 ^ (nbits + 6 - 8)) (nbits + 6 - 8)
      else b64go cs (buf * 64 + d) (nbits + 6)

/-- `parseBase64` = `QByteArray::fromBase64Encoding(text.toUtf8())` with the DEFAULT options
(`Base64Encoding | IgnoreBase64DecodingErrors`): never fails.  UTF-8 bytes of non-ASCII
characters are all ≥ 0x80, outside the alphabet, hence skipped like any other foreign character,
so the loop can run on code points. -/
def b64decodeCode (s : Str) : Option Bytes := some (b64go s 0 0)

/-- strict RFC 4648 decoding: groups of four alphabet characters, `=` padding only in the last
group, unused bits zero -/
def b64decodeSpec : Str → Option Bytes
  | [] => some []
  | [c1, c2, '=', '='] =>
    match b64val c1, b64val c2 with
    | some v1, some v2 => if v2 % 16 = 0 then some [UInt8.ofNat (v1 * 4 + v2 / 16)] else none
    | _, _ => none
  | [c1, c2, c3, '='] =>
    match b64val c1, b64val c2, b64val c3 with
    | some v1, some v2, some v3 =>
      if v3 % 4 = 0 then some [UInt8.ofNat (v1 * 4 + v2 / 16), UInt8.ofNat (v2 % 16 * 16 + v3 / 4)]
      else none
    | _, _, _ => none
  | c1 :: c2 :: c3 :: c4 :: rest =>
    match b64val c1, b64val c2, b64val c3, b64val c4, b64decodeSpec rest with
    | some v1, some v2, some v3, some v4, some tl =>
      some (UInt8.ofNat (v1 * 4 + v2 / 16) :: UInt8.ofNat (v2 % 16 * 16 + v3 / 4) ::
            UInt8.ofNat (v3 % 4 * 64 + v4) :: tl)
    | _, _, _, _, _ => none
  | _ => none

/-! ## Binary floating point, exactly

Qt computes milliseconds with `double`/`float` arithmetic (`qRound(msecInt / pow(10, n) * 1000.0)`),
which is NOT the same as exact rounding (`.5005` s gives 500 ms).  Values are positive rationals
`(num, den)`; each IEEE operation is the exact rational result rounded to the nearest value with
`p` significant bits, ties to even (no overflow/subnormals in the ranges used here). -/

/-- nearest `p`-bit binary floating point value to `num/den` -/
def roundBits (p : Nat) (num den : Nat) : Nat × Nat :=
  if num = 0 ∨ den = 0 then (0, 1)
  else
    let ln := Nat.log2 num
    let ld := Nat.log2 den
    -- scale by 2^(p-1-(ln-ld)): the scaled value lies in (2^(p-2), 2^p)
    let up0 := if p - 1 + ld ≥ ln then p - 1 + ld - ln else 0
    let down0 := if p - 1 + ld ≥ ln then 0 else ln - (p - 1 + ld)
    let q0 := (num * 2 ^ up0) / (den * 2 ^ down0)
    let small := decide (q0 < 2 ^ (p - 1))
    let up := if small && down0 = 0 then up0 + 1 else up0
    let down := if small && down0 ≠ 0 then down0 - 1 else down0
    let n := num * 2 ^ up
    let d := den * 2 ^ down
    let q := n / d
    let r := n % d
    let q' := if 2 * r > d ∨ (2 * r = d ∧ q % 2 = 1) then q + 1 else q
    (q' * 2 ^ down, 2 ^ up)

def fdiv (p : Nat) (a b : Nat × Nat) : Nat × Nat := roundBits p (a.1 * b.2) (a.2 * b.1)
def fmul (p : Nat) (a b : Nat × Nat) : Nat × Nat := roundBits p (a.1 * b.1) (a.2 * b.2)
def fadd (p : Nat) (a b : Nat × Nat) : Nat × Nat := roundBits p (a.1 * b.2 + b.1 * a.2) (a.2 * b.2)
def ffloor (a : Nat × Nat) : Nat := a.1 / a.2

/-- `qMin(qRound(msecInt / std::pow(double(10), k) * 1000.0), 999)` in IEEE double -/
def msRound (k n : Nat) : Nat :=
  let frac := fdiv 53 (n, 1) (10 ^ k, 1)
  let x := fmul 53 frac (1000, 1)
  min (ffloor (fadd 53 x (1, 2))) 999

/-- the `HH:mm.fffff` form: `float secondWithMs = double(n) / pow(10, k) * 60` (division in double,
converted to float, multiplied in float), `second = floor`, `msec = qMin(qRound(frac * 1000.0), 999)` -/
def minuteFraction (k n : Nat) : Nat × Nat :=
  let frac := fdiv 53 (n, 1) (10 ^ k, 1)
  let f := roundBits 24 frac.1 frac.2
  let sw := fmul 24 f (60, 1)
  let sec := ffloor sw
  let fr : Nat × Nat := (sw.1 - sec * sw.2, sw.2)
  let x := fmul 53 fr (1000, 1)
  (sec, min (ffloor (fadd 53 x (1, 2))) 999)

/-! ## XEP-0082 date-times -/

/-- a date-time in UTC (what `datetimeFromString` returns after `.toUTC()`); `year` follows
`QDate`: proleptic Gregorian, no year 0 (-1 is the year before 1) -/
structure Dt where
  year : Int
  month : Nat
  day : Nat
  hour : Nat
  minute : Nat
  second : Nat
  msec : Nat
  deriving DecidableEq, Repr

/-- `QDate::isLeapYear` -/
def isLeap (y : Int) : Bool :=
  let y' := if y < 1 then y + 1 else y
  (y' % 4 = 0 && y' % 100 ≠ 0) || y' % 400 = 0

def daysIn (y : Int) (m : Nat) : Nat :=
  if m = 2 then (if isLeap y then 29 else 28)
  else if m = 4 ∨ m = 6 ∨ m = 9 ∨ m = 11 then 30
  else 31

/-- `QDate::isValid(y, m, d)` -/
def validDate (y : Int) (m d : Nat) : Prop :=
  y ≠ 0 ∧ 1 ≤ m ∧ m ≤ 12 ∧ 1 ≤ d ∧ d ≤ daysIn y m

instance (y : Int) (m d : Nat) : Decidable (validDate y m d) := by unfold validDate; infer_instance

/-- a value of the XEP-0082 lexical range: a valid calendar date with a four-digit year 1..9999,
a valid time of day with milliseconds -/
def ValidDt (d : Dt) : Prop :=
  1 ≤ d.year ∧ d.year ≤ 9999 ∧ 1 ≤ d.month ∧ d.month ≤ 12 ∧ 1 ≤ d.day ∧ d.day ≤ daysIn d.year d.month ∧
  d.hour < 24 ∧ d.minute < 60 ∧ d.second < 60 ∧ d.msec < 1000

instance (d : Dt) : Decidable (ValidDt d) := by unfold ValidDt; infer_instance

/-- a record that is a `QDateTime` at all: valid date (any year but 0) and valid time -/
def CivilDt (d : Dt) : Prop :=
  validDate d.year d.month d.day ∧ d.hour < 24 ∧ d.minute < 60 ∧ d.second < 60 ∧ d.msec < 1000

instance (d : Dt) : Decidable (CivilDt d) := by unfold CivilDt; infer_instance

def pad2 (n : Nat) : Str := [digitChar (n / 10), digitChar (n % 10)]
def pad3 (n : Nat) : Str := [digitChar (n / 100), digitChar (n / 10 % 10), digitChar (n % 10)]
def pad4 (n : Nat) : Str :=
  [digitChar (n / 1000), digitChar (n / 100 % 10), digitChar (n / 10 % 10), digitChar (n % 10)]

/-- `datetimeToString` of the UTC date-time `d`: `yyyy-MM-ddTHH:mm:ss[.zzz]Z`, the fraction only
when the milliseconds are not 0.  Qt prints the EMPTY string when the year is outside 1..9999
(and for an invalid QDateTime). -/
def dtToStr (d : Dt) : Str :=
  if CivilDt d ∧ 1 ≤ d.year ∧ d.year ≤ 9999 then
    pad4 d.year.toNat ++ '-' :: pad2 d.month ++ '-' :: pad2 d.day ++ 'T' :: pad2 d.hour ++ ':' ::
      pad2 d.minute ++ ':' :: pad2 d.second ++ (if d.msec ≠ 0 then '.' :: pad3 d.msec else []) ++ ['Z']
  else []

/-- `QLocale::c().toInt` on the short fields of a date-time (at most 5 code units): blanks trimmed at
both ends, optional sign, ASCII digits.  The C locale's group separator `,` is accepted by Qt only
in well-formed groups, which needs at least `d,ddd`: impossible in the fields of up to 4 units,
and handled by `groupedVal` for the one 5-unit field (fraction of a minute). -/
def cToInt (s : Str) : Option Int :=
  match signMag (trim s) with
  | none => none
  | some (neg, mag) => some (if neg then -(mag : Int) else (mag : Int))

/-- Qt's `readInt` (qdatetime.cpp): like `cToInt` but a blank anywhere makes it fail -/
def readInt (s : Str) : Option Int :=
  if s.any isSpace then none else cToInt s

def nextDay (y : Int) (m d : Nat) : Int × Nat × Nat :=
  if d < daysIn y m then (y, m, d + 1)
  else if m < 12 then (y, m + 1, 1)
  else (if y = -1 then 1 else y + 1, 1, 1)

def prevDay (y : Int) (m d : Nat) : Int × Nat × Nat :=
  if 1 < d then (y, m, d - 1)
  else if 1 < m then (y, m - 1, daysIn y (m - 1))
  else (if y = 1 then -1 else y - 1, 12, 31)

def iterDays (f : Int → Nat → Nat → Int × Nat × Nat) : Nat → Int × Nat × Nat → Int × Nat × Nat
  | 0, t => t
  | k + 1, t => iterDays f k (f t.1 t.2.1 t.2.2)

/-- `QDate::addDays` -/
def addDays (n : Int) (y : Int) (m d : Nat) : Int × Nat × Nat :=
  match n with
  | .ofNat k => iterDays nextDay k (y, m, d)
  | .negSucc k => iterDays prevDay (k + 1) (y, m, d)

/-- `QDate::fromString(s, Qt::ISODate)` on exactly 10 code units: punctuation (any `QChar::isPunct`)
at 4 and 7, `readInt` fields, year 1..9999, valid calendar date -/
def parseIsoDate (s : Str) : Option (Int × Nat × Nat) :=
  match s with
  | [y1, y2, y3, y4, p1, m1, m2, p2, d1, d2] =>
    if isPunct p1 && isPunct p2 then
      match readInt [y1, y2, y3, y4], readInt [m1, m2], readInt [d1, d2] with
      | some y, some m, some d =>
        if 0 < y ∧ y ≤ 9999 ∧ 0 ≤ m ∧ 0 ≤ d ∧ validDate y m.toNat d.toNat then some (y, m.toNat, d.toNat)
        else none
      | _, _, _ => none
    else none
  | _ => none

/-- hour, minute, second, millisecond and the "24:00:00 = next day" flag -/
structure Tm where
  hour : Nat
  minute : Nat
  second : Nat
  msec : Nat
  midnight24 : Bool
  deriving DecidableEq, Repr

def isFracSep (c : Char) : Bool := c = ',' || c = '.'

/-- the `d,ddd` shape: the only way a C-locale group separator can be accepted in 5 code units -/
def groupedVal (s : Str) : Option Nat :=
  match s with
  | [a, ',', b, c, d] =>
    if isDigit a && isDigit b && isDigit c && isDigit d then
      some (digitVal a * 1000 + digitVal b * 100 + digitVal c * 10 + digitVal d)
    else none
  | _ => none

/-- seconds and milliseconds of the part after `HH:mm`, when there is one -/
def parseSecPart (t : Str) : Option (Int × Nat) :=
  match t.drop 5 with
  | [] => some (0, 0)
  | c5 :: rest =>
    if isFracSep c5 then
      -- HH:mm.fffff : at most 5 code units, a whole non-negative number, fraction of a minute
      let f := rest.take 5
      let v : Option Int := if f.any isSpace then none else
        match groupedVal f with
        | some n => some (n : Int)
        | none => cToInt f
      match v with
      | some n => if n < 0 then none else
          let r := minuteFraction f.length n.toNat
          some ((r.1 : Int), r.2)
      | none => none
    else if c5 ≠ ':' then none
    else
      -- HH:mm:ss[.zzz] ; what follows the seconds is ignored unless it is `.`/`,`
      match readInt (rest.take 2) with
      | none => none
      | some sec =>
        match rest.drop 2 with
        | [] => some (sec, 0)
        | c8 :: frac =>
          if isFracSep c8 then
            let m := frac.take 4
            match m with
            | [] => some (sec, 0)
            | m0 :: _ =>
              if !isDigit m0 then none
              else
                let m' := trimEnd m
                match digitsVal m' 0 with
                | some n => some (sec, msRound m'.length n)
                | none => none
          else some (sec, 0)

/-- `fromIsoTimeString` (Qt 5.15, ISODate) followed by the `QTime(h, m, s, ms)` validity test -/
def parseIsoTime (t : Str) : Option Tm :=
  if t.length < 5 then none
  else if t[2]? ≠ some ':' then none
  else
    match readInt (t.take 2), readInt ((t.drop 3).take 2), parseSecPart t with
    | some h, some mi, some (s, ms) =>
      let mid := decide (h = 24 ∧ mi = 0 ∧ s = 0 ∧ ms = 0)
      let h' : Int := if mid then 0 else h
      if 0 ≤ h' ∧ h' < 24 ∧ 0 ≤ mi ∧ mi < 60 ∧ 0 ≤ s ∧ s < 60 then
        some ⟨h'.toNat, mi.toNat, s.toNat, ms, mid⟩
      else none
    | _, _, _ => none

/-- `fromOffsetString`: `[+-]HH[:mm]`, `[+-]HHmm`, 2..6 code units; hour at most 23 (no lower
bound: a U+2212 after the sign makes it negative), minute 0..59; seconds east of UTC -/
def parseOffset (o : Str) : Option Int :=
  if o.length < 2 ∨ o.length > 6 then none
  else
    match o with
    | [] => none
    | sg :: time =>
      if sg ≠ '+' ∧ sg ≠ '-' then none
      else
        let hh := match time.idxOf? ':' with | some i => time.take i | none => time.take 2
        let mm := match time.idxOf? ':' with | some i => time.drop (i + 1) | none => time.drop 2
        match cToInt hh with
        | none => none
        | some hour =>
          if hour > 23 then none
          else
            let minute : Option Int := if mm.isEmpty then some 0 else cToInt mm
            match minute with
            | none => none
            | some mi =>
              if mi < 0 ∨ mi > 59 then none
              else some ((if sg = '+' then 1 else -1) * ((hour * 60 + mi) * 60))

def isSignChar (c : Char) : Bool := c = '+' || c = '-'

/-- split at the LAST `+` or `-`: (text before it, text from it on) -/
def splitLastSign (t : Str) : Option (Str × Str) :=
  let r := t.reverse
  let suf := r.takeWhile fun c => !isSignChar c
  match r.drop suf.length with
  | [] => none
  | sg :: before => some (before.reverse, sg :: suf.reverse)

/-- time zone of the text after `T`: a final `Z`/`z` (UTC), else the last sign starts an offset,
else LOCAL time: `loc` is the offset (seconds east of UTC) of the process's time zone, taken to
be one constant for all dates (true of UTC and of the zone the harness runs in, Asia/Kolkata).
Result: (time text, offset seconds east of UTC). -/
def splitZone (loc : Int) (t : Str) : Option (Str × Int) :=
  match t.reverse with
  | [] => some (t, loc)
  | l :: r =>
    if l = 'Z' ∨ l = 'z' then some (r.reverse, 0)
    else
      match splitLastSign t with
      | none => some (t, loc)
      | some (before, off) =>
        match parseOffset off with
        | none => none
        | some secs => some (before, secs)

/-- C++ `int` arithmetic as observed (two's complement wrap-around; formally undefined behaviour) -/
def wrap32 (v : Int) : Int := (v + 2147483648) % 4294967296 - 2147483648

/-- the UTC civil date-time of the wall-clock reading `date`, `tm` taken `offMs` milliseconds east of UTC -/
def shiftUtc (date : Int × Nat × Nat) (tm : Tm) (offMs : Int) : Dt :=
  let d0 := if tm.midnight24 then nextDay date.1 date.2.1 date.2.2 else date
  let ms : Int := ((tm.hour * 3600 + tm.minute * 60 + tm.second) * 1000 + tm.msec : Nat) - offMs
  let d1 := addDays (ms / 86400000) d0.1 d0.2.1 d0.2.2
  let r := (ms % 86400000).toNat
  ⟨d1.1, d1.2.1, d1.2.2, r / 3600000, r / 60000 % 60, r / 1000 % 60, r % 1000⟩

/-- assemble parsed date + time + offset into the UTC civil date-time.  Qt keeps the offset in
milliseconds in an `int` (`offset * 1000`), which wraps for offsets beyond ±596 h — reachable only
through the `+−hhh:` form with a three-digit negative hour. -/
def toUtc (date : Int × Nat × Nat) (tm : Tm) (offset : Int) : Dt :=
  shiftUtc date tm (wrap32 (offset * 1000))

/-- `QXmppUtils::datetimeFromString(s)` = `QDateTime::fromString(s, Qt::ISODate).toUTC()` in a
process whose local time is `loc` seconds east of UTC; `none` = invalid QDateTime -/
def dtParseCodeAt (loc : Int) (s0 : Str) : Option Dt :=
  let s := units s0
  if s.length < 10 then none
  else
    match parseIsoDate (s.take 10) with
    | none => none
    | some date =>
      match s.drop 10 with
      | [] => some (toUtc date ⟨0, 0, 0, 0, false⟩ loc)   -- `date.startOfDay()`, local time
      | sep :: t =>
        if t.isEmpty then none
        else if sep ≠ 'T' ∧ sep ≠ 't' ∧ sep ≠ ' ' then none
        else
          match splitZone loc t with
          | none => none
          | some (tt, off) =>
            match parseIsoTime tt with
            | none => none
            | some tm => some (toUtc date tm off)

/-- `datetimeFromString` in a process running in UTC -/
def dtParseCode (s0 : Str) : Option Dt := dtParseCodeAt 0 s0

/-- A `QDateTime` as an application hands it to the library: the wall-clock reading `wall` in the
value's own time spec, and `offset`, what that spec is ahead of UTC at that moment in seconds
(`QDateTime::offsetFromUtc()`: 0 for Qt::UTC, the fixed offset for Qt::OffsetFromUTC, the zone's or
the system's offset at that moment for Qt::TimeZone / Qt::LocalTime). -/
structure Stamp where
  wall : Dt
  offset : Int
  deriving DecidableEq, Repr

/-- the instant, as UTC civil fields (`QDateTime::toUTC()`) -/
def utcOf (x : Stamp) : Dt :=
  shiftUtc (x.wall.year, x.wall.month, x.wall.day) ⟨x.wall.hour, x.wall.minute, x.wall.second, x.wall.msec, false⟩
    (x.offset * 1000)

/-- `datetimeToString(x)` for a value of ANY time spec: both branches (with and without
milliseconds) convert to UTC first, so the text is the `Z` form of the instant -/
def stampToStr (x : Stamp) : Str := dtToStr (utcOf x)

/-- strict XEP-0082 DateTime profile: `CCYY-MM-DDThh:mm:ss[.sss]Z` (UTC only, exactly three
fraction digits when present) -/
def dtParseSpec (s : Str) : Option Dt :=
  match s with
  | y1 :: y2 :: y3 :: y4 :: '-' :: m1 :: m2 :: '-' :: d1 :: d2 :: 'T' :: h1 :: h2 :: ':' :: n1 :: n2 :: ':' :: s1 :: s2 :: rest =>
    if [y1, y2, y3, y4, m1, m2, d1, d2, h1, h2, n1, n2, s1, s2].all isDigit then
      let dv := digitVal
      let ms : Option Nat :=
        match rest with
        | ['Z'] => some 0
        | ['.', f1, f2, f3, 'Z'] =>
          if isDigit f1 && isDigit f2 && isDigit f3 then some (dv f1 * 100 + dv f2 * 10 + dv f3) else none
        | _ => none
      match ms with
      | none => none
      | some ms =>
        let d : Dt := ⟨(dv y1 * 1000 + dv y2 * 100 + dv y3 * 10 + dv y4 : Nat), dv m1 * 10 + dv m2, dv d1 * 10 + dv d2,
                       dv h1 * 10 + dv h2, dv n1 * 10 + dv n2, dv s1 * 10 + dv s2, ms⟩
        if ValidDt d then some d else none
    else none
  | _ => none

/-! ## Time zone offsets (`timezoneOffsetFromString` / `timezoneOffsetToString`) -/

/-- does `Z` or `[+-]dd:dd` start here?  (the alternatives of the unanchored regular expression
`(Z|([+-])([0-9]{2}):([0-9]{2}))`) -/
def tzoAt (s : Str) : Option Int :=
  match s with
  | 'Z' :: _ => some 0
  | sg :: h1 :: h2 :: ':' :: m1 :: m2 :: _ =>
    if isSignChar sg && isDigit h1 && isDigit h2 && isDigit m1 && isDigit m2 then
      let v : Int := ((digitVal h1 * 10 + digitVal h2) * 3600 + (digitVal m1 * 10 + digitVal m2) * 60 : Nat)
      some (if sg = '-' then -v else v)
    else none
  | _ => none

/-- `timezoneOffsetFromString`: the first match anywhere in the string, 0 when there is none -/
def tzoParseCode : Str → Int
  | [] => 0
  | c :: cs =>
    match tzoAt (c :: cs) with
    | some v => v
    | none => tzoParseCode cs

/-- `timezoneOffsetToString`: `Z` for 0, else sign and `QTime(0,0,0).addSecs(|secs|)` as `hh:mm`
(wraps at 24 h, drops the seconds) -/
def tzoToStr (secs : Int) : Str :=
  if secs = 0 then ['Z']
  else
    let a := secs.natAbs % 86400
    (if secs < 0 then '-' else '+') :: pad2 (a / 3600) ++ ':' :: pad2 (a / 60 % 60)

/-! ## Enumerations -/

/-- `enumFromString(values, str)`: index of the first equal entry (`std::find`) -/
def enumFromString (names : List Str) (s : Str) : Option Nat := names.idxOf? s

/-- the string of enumerator `i` (`values[i]`), where the table has one -/
def enumToString (names : List Str) (i : Nat) : Option Str := names[i]?

end Qx.Xml.Codec.Scalar
