import Qx.Xml.Tree
import Qx.Xml.Canon
/-!
XML text layer, tier A of C01: the read side.

* `unesc` — inverse of the writer's escaping (the five named entities, decimal `&#N;` and hex
  `&#xH;` character references; anything else passes through unchanged).
* `parse : Str → Option Node` — a total parser for exactly the output language of
  `QXmlStreamWriter` as used by qxmpp: `<name attr="value" …>`, `/>`, `</name>`, text.  No XML
  declaration, comments, PIs, CDATA sections, DTDs, single-quoted attributes or white space
  inside tags: the writer never produces them and the parser rejects them (`none`).
* `view` — what a tree looks like after one write/read cycle.

What the parser does with the *payloads* follows what was measured on Qt 5.15.8's
`QDomDocument::setContent(bytes, true)` (harness/cxx/xmllayer.cpp re-measures it on every run):
  - CR, LF, TAB in text and in attribute values are kept as they are (no line-end or
    attribute-value normalisation);
  - a text run consisting only of white space (`QChar::isSpace`: U+0009–000D, 0020, 0085, 00A0,
    1680, 2000–200A, 2028, 2029, 202F, 205F, 3000) produces no text node at all — the
    run is tested *after* entity decoding (`<a>&#32;</a>` has no child);
  - `]]>` in text, a bare `&`, `<` in an attribute value and the non-characters U+FFFE/U+FFFF
    are errors; control characters are accepted; `>` is accepted in text and values.
  - namespace declarations are ordinary attributes for the parser and for `render`.
Names are XML 1.0 names restricted to ASCII (`:` is an ordinary name character at this layer;
`qdomView` models what namespace processing does with prefixes and `xmlns` attributes).

Everything here is computable, structurally recursive (fuel for the parser) and proof-free; no Mathlib.
-/
namespace Qx.Xml

/-! ### character classes -/

def isNameStart (c : Char) : Bool := c.isAlpha || c = '_' || c = ':'
def isNameChar (c : Char) : Bool := c.isAlphanum || c = '_' || c = ':' || c = '-' || c = '.'

/-- a non-empty ASCII XML name -/
def okName : Str → Bool
  | [] => false
  | c :: r => isNameStart c && r.all isNameChar

/-- `QChar::isSpace` (Qt 5.15 / Unicode 13): what `QDomDocument::setContent` treats as white space
when it decides whether a text run is "whitespace only" -/
def isQtSpace (c : Char) : Bool :=
  let n := c.toNat
  (9 ≤ n && n ≤ 13) || n = 0x20 || n = 0x85 || n = 0xA0 || n = 0x1680 || (0x2000 ≤ n && n ≤ 0x200A)
    || n = 0x2028 || n = 0x2029 || n = 0x202F || n = 0x205F || n = 0x3000

/-- a string QDom drops when it is the whole content of a text run (the empty string included) -/
def blank (s : Str) : Bool := s.all isQtSpace

/-- U+FFFE / U+FFFF: rejected by the reader when they occur literally -/
def isNonChar (c : Char) : Bool := c.toNat = 0xFFFE || c.toNat = 0xFFFF

/-- longest prefix whose characters satisfy `p`, and the rest -/
def _root_.List.spanW {α} (l : List α) (p : α → Bool) : List α × List α := (l.takeWhile p, l.dropWhile p)

/-! ### character references -/

def digitVal (c : Char) : Option Nat :=
  if '0' ≤ c ∧ c ≤ '9' then some (c.toNat - 48) else none

def hexDigitVal (c : Char) : Option Nat :=
  if '0' ≤ c ∧ c ≤ '9' then some (c.toNat - 48)
  else if 'a' ≤ c ∧ c ≤ 'f' then some (c.toNat - 87)
  else if 'A' ≤ c ∧ c ≤ 'F' then some (c.toNat - 55)
  else none

/-- digits up to the terminating `;`: value and number of characters consumed (the `;` included);
`none` when there is no digit, no `;`, or a foreign character -/
def scanNum (base : Nat) (dv : Char → Option Nat) : Str → Nat → Nat → Option (Nat × Nat)
  | [], _, _ => none
  | c :: r, acc, n =>
    if c = ';' then (if n = 0 then none else some (acc, n + 1))
    else match dv c with
      | some d => scanNum base dv r (acc * base + d) (n + 1)
      | none => none

/-- the character with code point `v`, if `v` is a Unicode scalar value -/
def charOf (v : Nat) : Option Char :=
  if v < 0xD800 ∨ (0xDFFF < v ∧ v < 0x110000) then some (Char.ofNat v) else none

/-- decode the reference whose `&` has just been read: the character and the number of characters
after the `&` that belong to it -/
def decodeRef (r : Str) : Option (Char × Nat) :=
  if "lt;".toList.isPrefixOf r then some ('<', 3)
  else if "gt;".toList.isPrefixOf r then some ('>', 3)
  else if "amp;".toList.isPrefixOf r then some ('&', 4)
  else if "quot;".toList.isPrefixOf r then some ('"', 5)
  else if "apos;".toList.isPrefixOf r then some ('\'', 5)
  else if "#x".toList.isPrefixOf r then
    match scanNum 16 hexDigitVal (r.drop 2) 0 0 with
    | some p => match charOf p.1 with
      | some c => some (c, p.2 + 2)
      | none => none
    | none => none
  else if "#".toList.isPrefixOf r then
    match scanNum 10 digitVal (r.drop 1) 0 0 with
    | some p => match charOf p.1 with
      | some c => some (c, p.2 + 1)
      | none => none
    | none => none
  else none

/-- lenient un-escaping; first argument: characters still to skip (tail of a decoded reference) -/
def unescGo : Nat → Str → Str
  | _, [] => []
  | k + 1, _ :: r => unescGo k r
  | 0, c :: r =>
    if c = '&' then
      match decodeRef r with
      | some p => p.1 :: unescGo p.2 r
      | none => '&' :: unescGo 0 r
    else c :: unescGo 0 r

/-- inverse of `escText`/`escAttr`: named entities and numeric character references are decoded,
everything else (an `&` that starts no reference included) is copied -/
def unesc (s : Str) : Str := unescGo 0 s

/-- strict un-escaping as the parser does it: an `&` that starts no reference, a literal `<`
and the non-characters are errors -/
def unescStrictGo : Nat → Str → Option Str
  | 0, [] => some []
  | _ + 1, [] => none
  | k + 1, _ :: r => unescStrictGo k r
  | 0, c :: r =>
    if c = '&' then
      match decodeRef r with
      | some p => match unescStrictGo p.2 r with
        | some t => some (p.1 :: t)
        | none => none
      | none => none
    else if c = '<' || isNonChar c then none
    else match unescStrictGo 0 r with
      | some t => some (c :: t)
      | none => none

def unescStrict (s : Str) : Option Str := unescStrictGo 0 s

/-! ### the parser -/

/-- does a raw text run contain `]]>` (not allowed in character data) -/
def hasCdataEnd : Str → Bool
  | [] => false
  | c :: r => "]]>".toList.isPrefixOf (c :: r) || hasCdataEnd r

/-- zero or more ` name="value"`; returns the attributes and the input after the last one -/
def parseAttrs : Nat → Str → Option (List (Str × Str) × Str)
  | 0, _ => none
  | f + 1, s =>
    match s with
    | [] => some ([], [])
    | c :: s1 =>
      if c = ' ' then
        let nm := s1.spanW isNameChar
        if okName nm.1 then
          match nm.2 with
          | e :: q :: s2 =>
            if e = '=' ∧ q = '"' then
              let v := s2.spanW (fun x => x != '"')
              match v.2, unescStrict v.1 with
              | _ :: s3, some val =>
                match parseAttrs f s3 with
                | some r => some ((nm.1, val) :: r.1, r.2)
                | none => none
              | _, _ => none
            else none
          | _ => none
        else none
      else some ([], c :: s1)

mutual
  /-- one element; the input must start with `<name` -/
  def parseElem : Nat → Str → Option (Node × Str)
    | 0, _ => none
    | f + 1, s =>
      match s with
      | [] => none
      | c :: s1 =>
        if c = '<' then
          let nm := s1.spanW isNameChar
          if okName nm.1 then
            match parseAttrs s1.length nm.2 with
            | some r =>
              match r.2 with
              | [] => none
              | d :: s2 =>
                if d = '>' then
                  match parseKids f s2 with
                  | some q =>
                    let cn := q.2.spanW isNameChar
                    if cn.1 = nm.1 then
                      match cn.2 with
                      | [] => none
                      | g :: s4 => if g = '>' then some (.elem nm.1 r.1 q.1, s4) else none
                    else none
                  | none => none
                else if d = '/' then
                  match s2 with
                  | [] => none
                  | g :: s3 => if g = '>' then some (.elem nm.1 r.1 [], s3) else none
                else none
            | none => none
          else none
        else none
  /-- content of an element up to and including the `</` of its end tag; returns the children
  and the input after `</` -/
  def parseKids : Nat → Str → Option (List Node × Str)
    | 0, _ => none
    | f + 1, s =>
      match s with
      | [] => none
      | c :: s1 =>
        if c = '<' then
          match s1 with
          | [] => none
          | d :: s2 =>
            if d = '/' then some ([], s2)
            else match parseElem f s with
              | some r =>
                match parseKids f r.2 with
                | some q => some (r.1 :: q.1, q.2)
                | none => none
              | none => none
        else
          let run := s.spanW (fun x => x != '<')
          if hasCdataEnd run.1 then none
          else match unescStrict run.1 with
            | some txt =>
              match parseKids f run.2 with
              | some q => some ((if blank txt then [] else [Node.text txt]) ++ q.1, q.2)
              | none => none
            | none => none
end

/-- a document: exactly one element, nothing before or after it -/
def parse (doc : Str) : Option Node :=
  match parseElem (doc.length + 1) doc with
  | some r => if r.2.isEmpty then some r.1 else none
  | none => none

/-! ### what a tree looks like after one write/read cycle -/

/-- the text node a pending run of character data becomes: none when it is blank -/
def flushText (p : Str) : List Node := if blank p then [] else [Node.text p]

mutual
  /-- the tree `parse (render t)` returns: characters the writer drops removed, adjacent text
  nodes merged, blank text runs gone -/
  def view : Node → Node
    | .text s => .text (s.filter legalChar)
    | .elem n as ks => .elem n (as.map fun kv => (kv.1, kv.2.filter legalChar)) (viewKids [] ks)
  /-- children with `p` the character data collected since the last element -/
  def viewKids (p : Str) : List Node → List Node
    | [] => flushText p
    | k :: ks =>
      match k with
      | .text s => viewKids (p ++ s.filter legalChar) ks
      | .elem .. => flushText p ++ view k :: viewKids [] ks
end

mutual
  /-- the tree with every character the writer drops removed from text and attribute values -/
  def legalize : Node → Node
    | .text s => .text (s.filter legalChar)
    | .elem n as ks => .elem n (as.map fun kv => (kv.1, kv.2.filter legalChar)) (legalizeList ks)
  def legalizeList : List Node → List Node
    | [] => []
    | k :: ks => legalize k :: legalizeList ks
end

mutual
  /-- blank text nodes removed at every level (what QDom does to white-space-only character data) -/
  def dropBlank : Node → Node
    | .text s => .text s
    | .elem n as ks => .elem n as (dropBlankList ks)
  def dropBlankList : List Node → List Node
    | [] => []
    | k :: ks =>
      match k with
      | .text s => if blank s then dropBlankList ks else .text s :: dropBlankList ks
      | .elem .. => dropBlank k :: dropBlankList ks
end

mutual
  /-- element structure only: element names, attribute names, nesting; text nodes and all values erased -/
  def skeleton : Node → Node
    | .text _ => .text []
    | .elem n as ks => .elem n (as.map fun kv => (kv.1, [])) (skeletonList ks)
  def skeletonList : List Node → List Node
    | [] => []
    | k :: ks =>
      match k with
      | .text _ => skeletonList ks
      | .elem .. => skeleton k :: skeletonList ks
end

/-! ### decidable side conditions -/

mutual
  /-- element and attribute NAMES are names; says nothing about values or text -/
  def namesOK : Node → Bool
    | .text _ => true
    | .elem n as ks => okName n && as.all (fun kv => okName kv.1) && namesOKList ks
  def namesOKList : List Node → Bool
    | [] => true
    | k :: ks => namesOK k && namesOKList ks
end

/-- characters `escAttr` copies unchanged: XML-legal and none of `< > & "` TAB LF CR -/
def plainAttrChar (c : Char) : Bool :=
  legalChar c && c != '<' && c != '>' && c != '&' && c != '"' && c != '\t' && c != '\n' && c != '\r'

def Node.isText : Node → Bool
  | .text _ => true
  | .elem .. => false

def headIsText : List Node → Bool
  | [] => false
  | k :: _ => k.isText

/-- no two adjacent text nodes -/
def noAdjText : List Node → Bool
  | [] => true
  | k :: ks => !(k.isText && headIsText ks) && noAdjText ks

mutual
  /-- trees that survive a write/read cycle unchanged: names are names, every character is one the
  writer lets through, text nodes are non-blank (QDom drops white-space-only text; CR/LF/TAB inside
  a non-blank text are kept by Qt 5.15.8 and therefore allowed here), no two adjacent text nodes -/
  def wellFormed : Node → Bool
    | .text s => s.all legalChar && !blank s
    | .elem n as ks =>
      okName n && as.all (fun kv => okName kv.1 && kv.2.all legalChar) && wellFormedList ks && noAdjText ks
  def wellFormedList : List Node → Bool
    | [] => true
    | k :: ks => wellFormed k && wellFormedList ks
end

/-- an attribute value that survives write + read unchanged: every character XML-legal (`legalChar`:
TAB, LF, CR, U+0020–U+D7FF, U+E000–U+FFFD, U+10000–U+10FFFF).  Exactly this set: the harness sweeps the
code points through the real writer and QDom; the others (U+0000–U+001F except TAB/LF/CR, U+FFFE, U+FFFF) are
silently dropped by `QXmlStreamWriter` (no setter rejects them) -/
def xmlSafeAttr (s : Str) : Bool := s.all legalChar
/-- a text node that survives: XML-legal characters and not white space only (QDom drops blank text) -/
def xmlSafeText (s : Str) : Bool := s.all legalChar && !blank s
/-- trees that survive write + read unchanged — the same predicate as `wellFormed`, under the name the
codec tier uses: names are ASCII XML names, attribute values `xmlSafeAttr`, text nodes `xmlSafeText`,
no two adjacent text nodes (`wellFormed_text` / `wellFormed_elem` in Qx/Proofs/Xml.lean spell it out) -/
abbrev XmlSafe (t : Node) : Prop := wellFormed t = true

/-- only element and attribute NAMES are constrained (non-empty ASCII XML names); values and text are arbitrary -/
abbrev NamesOK (t : Node) : Prop := namesOK t = true
/-- see `wellFormed` -/
abbrev WellFormed (t : Node) : Prop := wellFormed t = true

/-- `s` begins with one of the seven references `QXmlStreamWriter` emits -/
def startsEntity (s : Str) : Bool :=
  ["&lt;", "&gt;", "&amp;", "&quot;", "&#9;", "&#10;", "&#13;"].any fun e => e.toList.isPrefixOf s

/-! ### QDom's namespace processing (used by the driver for the comparison with `QDomDocument`) -/

/-- local part of a qualified name: after the first `:` (`qt_split_namespace`) -/
def localName (n : Str) : Str :=
  match n.dropWhile (fun c => c != ':') with
  | [] => n
  | _ :: l => l

mutual
  /-- `QDomDocument::setContent(…, namespaceProcessing = true)` as seen through `tagName()` and
  `attributes()`: names lose their prefix, namespace declarations are not attributes -/
  def qdomView : Node → Node
    | .text s => .text s
    | .elem n as ks =>
      .elem (localName n) ((as.filter fun kv => !isNsDecl kv.1).map fun kv => (localName kv.1, kv.2)) (qdomViewList ks)
  def qdomViewList : List Node → List Node
    | [] => []
    | k :: ks => qdomView k :: qdomViewList ks
end

end Qx.Xml
