import Qx.Xml.Tree
import Qx.Xml.Parse
/-!
XML text layer, tier A of C01: the writer CALLS qxmpp makes, one level below `Node`.

Since repo commit 6d0fec7 there are two ways a text node reaches the wire:
  * `QXmlStreamWriter::writeCharacters` / `writeTextElement` (most classes, `QXmppElement::toXml`,
    `writeXmlTextElement(w, name, xmlns, value)`, `writeOptionalXmlTextElement`): CR is written literally;
  * `QXmpp::Private::writeXmlTextElement(w, name, value)`: every CR is written as the character
    reference `&#13;` (`writeEntityReference("#13")`), everything else through `writeCharacters`.
Both are read back as the same text by QDom (and the second one also by readers that apply the
line-end normalisation of XML 1.0 §2.11, which turn a literal CR into LF).

`WNode` is a tree whose text nodes say which of the two calls wrote them; `renderW` is the output
form; `WNode.erase` forgets the mark.  `render t = renderW (WNode.plain t)` (Qx/Proofs/Xml.lean), so
`render` is the special case "everything through writeCharacters".  No proofs here, no Mathlib.
-/
namespace Qx.Xml

inductive WNode
  | elem (name : Str) (attrs : List (Str × Str)) (kids : List WNode)
  /-- `crRef = true`: written by `writeXmlTextElement(w, name, value)` (CR as `&#13;`) -/
  | text (crRef : Bool) (s : Str)
  deriving Repr, Inhabited

/-- characters of a text node with the escaping mode each one gets: `true` = "as in an attribute",
which for CR is the character reference; used for CR only -/
def markText (crRef : Bool) (s : Str) : List (Bool × Char) := s.map fun c => (crRef && c == '\r', c)

/-- escaped form of marked characters -/
def escMarked (l : List (Bool × Char)) : Str := l.flatMap fun x => escChar x.1 x.2

/-- text as `writeXmlTextElement(w, name, value)` writes it: `escText` except that CR becomes `&#13;` -/
def escTextCr (s : Str) : Str := escMarked (markText true s)

mutual
  def renderW : WNode → Str
    | .text b s => escMarked (markText b s)
    | .elem n as [] => '<' :: n ++ renderAttrs as ++ ['/', '>']
    | .elem n as (k :: ks) =>
      '<' :: n ++ renderAttrs as ++ '>' :: (renderW k ++ renderWList ks) ++ '<' :: '/' :: n ++ ['>']
  def renderWList : List WNode → Str
    | [] => []
    | k :: ks => renderW k ++ renderWList ks
end

mutual
  /-- forget which call wrote a text node -/
  def WNode.erase : WNode → Node
    | .text _ s => .text s
    | .elem n as ks => .elem n as (WNode.eraseList ks)
  def WNode.eraseList : List WNode → List Node
    | [] => []
    | k :: ks => k.erase :: WNode.eraseList ks
end

mutual
  /-- every text node through `writeCharacters` -/
  def WNode.plain : Node → WNode
    | .text s => .text false s
    | .elem n as ks => .elem n as (WNode.plainList ks)
  def WNode.plainList : List Node → List WNode
    | [] => []
    | k :: ks => WNode.plain k :: WNode.plainList ks
end

/-! ### a reader that applies XML 1.0 §2.11 (QXmlStreamReader, expat, libxml2, …)

Qt 5.15's QDom (the reader qxmpp uses, `parse`) keeps a literal CR.  A conforming reader first turns
every literal CR LF and every lone CR into LF; a CR written as `&#13;` is not touched. -/

def normEolGo : Bool → Str → Str
  | _, [] => []
  | afterCr, c :: r =>
    if c = '\r' then '\n' :: normEolGo true r
    else if afterCr && c = '\n' then normEolGo false r
    else c :: normEolGo false r

/-- line-end normalisation of the document text -/
def normEol (doc : Str) : Str := normEolGo false doc

/-- `parse` behind line-end normalisation -/
def parseStd (doc : Str) : Option Node := parse (normEol doc)

mutual
  /-- no text node puts a literal CR on the wire: it was written by `writeXmlTextElement(w, name, value)`
  or contains no CR -/
  def crSafe : WNode → Bool
    | .text b s => b || !s.contains '\r'
    | .elem _ _ ks => crSafeList ks
  def crSafeList : List WNode → Bool
    | [] => true
    | k :: ks => crSafe k && crSafeList ks
end

end Qx.Xml
