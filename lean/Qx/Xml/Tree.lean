/-
XML text layer, tier A of C01/C02: the tree type shared by every codec model, the escaping
functions of Qt 5.15's `QXmlStreamWriter` (all qxmpp text/attribute output goes through it,
src/base/QXmppUtils.cpp:322-362) and `render`, the writer's output form.

characters are `Char` (code points); strings are `List Char` in models and proofs (String only
at driver boundaries).  Namespaces are plain `xmlns` attributes at this layer; `nsOf` resolves
them the way `QDomElement::namespaceURI()` does for un-prefixed names.
No proofs here, no Mathlib.
-/
namespace Qx.Xml

abbrev Str := List Char

inductive Node
  | elem (name : Str) (attrs : List (Str × Str)) (kids : List Node)
  | text (s : Str)
  deriving Repr, BEq, Inhabited

/-- characters `QXmlStreamWriter` (Qt 5.15 `writeEscaped`) lets through: TAB, LF, CR and
everything in 0x20..0xFFFD; the rest is dropped and flags an encoding error. -/
def legalChar (c : Char) : Bool :=
  c = '\t' || c = '\n' || c = '\r' || (0x1f < c.toNat && c.toNat < 0xFFFE) || 0xFFFF < c.toNat

/-- `writeCharacters`: escapes `< > & "`; illegal characters are dropped -/
def escChar (attr : Bool) (c : Char) : Str :=
  if c = '<' then "&lt;".toList
  else if c = '>' then "&gt;".toList
  else if c = '&' then "&amp;".toList
  else if c = '"' then "&quot;".toList
  else if c = '\t' then (if attr then "&#9;".toList else [c])
  else if c = '\n' then (if attr then "&#10;".toList else [c])
  else if c = '\r' then (if attr then "&#13;".toList else [c])
  else if legalChar c then [c] else []

def escText (s : Str) : Str := s.flatMap (escChar false)
/-- `writeAttribute`: additionally escapes TAB/LF/CR as character references -/
def escAttr (s : Str) : Str := s.flatMap (escChar true)

/-- namespace declarations: `xmlns` and `xmlns:prefix` -/
def isNsDecl (k : Str) : Bool := k = "xmlns".toList || "xmlns:".toList.isPrefixOf k

/-- attributes as qxmpp writes them: every value escaped (`writeAttribute`).
Namespace declarations with a DATA value are written with `writeAttribute("xmlns", …)` since the fix
of finding `C01:markup-injection:xmlns` (repo commit 04d18dd).  Constant namespaces still go through
`writeDefaultNamespace` / `writeNamespace`, which write the URI verbatim (Qt 5.15, measured by
harness/cxx/xmllayer.cpp); for them verbatim = escaped, because no constant contains a character
`escAttr` changes: `ns_constants_ok` (Qx/Props/C01Xml.lean) over the list regenerated from the source by
translators/ns_constants.py, which also fails when any call passes something other than a constant. -/
def renderAttrs : List (Str × Str) → Str
  | [] => []
  | (k, v) :: rest => ' ' :: k ++ '=' :: '"' :: escAttr v ++ '"' :: renderAttrs rest

mutual
  /-- the writer's output form: `<n a="v"/>` for childless elements, `<n a="v">…</n>` otherwise -/
  def render : Node → Str
    | .text s => escText s
    | .elem n as [] => '<' :: n ++ renderAttrs as ++ ['/', '>']
    | .elem n as (k :: ks) =>
      '<' :: n ++ renderAttrs as ++ '>' :: (render k ++ renderList ks) ++ '<' :: '/' :: n ++ ['>']
  def renderList : List Node → Str
    | [] => []
    | k :: ks => render k ++ renderList ks
end

mutual
  /-- the tree with every string payload (attribute values, text) erased: element names,
  attribute names and nesting only -/
  def shape : Node → Node
    | .text _ => .text []
    | .elem n as ks => .elem n (as.map fun kv => (kv.1, [])) (shapeList ks)
  def shapeList : List Node → List Node
    | [] => []
    | k :: ks => shape k :: shapeList ks
end

/-- value of attribute `k` (first match), `[]` when absent — `QDomElement::attribute` -/
def attr (as : List (Str × Str)) (k : Str) : Str :=
  match as.find? (fun kv => kv.1 == k) with
  | some kv => kv.2
  | none => []

def Node.name : Node → Str
  | .elem n _ _ => n
  | .text _ => []
def Node.attrs : Node → List (Str × Str)
  | .elem _ as _ => as
  | .text _ => []
def Node.kids : Node → List Node
  | .elem _ _ ks => ks
  | .text _ => []
def Node.isElem : Node → Bool
  | .elem .. => true
  | .text _ => false

/-- concatenated text children — `QDomElement::text()` restricted to direct text nodes -/
def Node.textOf (n : Node) : Str :=
  n.kids.flatMap fun | .text s => s | .elem .. => []

/-- namespace of an un-prefixed element given the inherited default namespace -/
def Node.nsOf (inherited : Str) : Node → Str
  | .elem _ as _ => match as.find? (fun kv => kv.1 == "xmlns".toList) with
    | some kv => kv.2
    | none => inherited
  | .text _ => inherited

end Qx.Xml
