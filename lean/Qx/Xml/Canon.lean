import Qx.Xml.Tree
import Qx.Driver.Proto
/-!
Canonical tree encoding shared by the Lean drivers and the C++ harnesses (harness/cxx/xmlcanon.h):

  node  := (E <hex name> (<attr>*) (<node>*)) | (T <hex text>)
  attr  := (<hex name> <hex value>)

hex = lower-case hex of the UTF-8 bytes ("-" for the empty string); attributes sorted by the hex
of their name (QDom does not keep attribute order); adjacent text nodes merged, empty text
nodes dropped; no whitespace other than the single separating blanks shown.
-/
namespace Qx.Xml

def hexOf (s : Str) : String :=
  let h := Qx.Driver.toHex (String.ofList s).toUTF8.toList
  if h.isEmpty then "-" else h

def insertSorted (x : String × String) : List (String × String) → List (String × String)
  | [] => [x]
  | y :: ys => if x.1 ≤ y.1 then x :: y :: ys else y :: insertSorted x ys

def sortAttrs (as : List (String × String)) : List (String × String) :=
  as.foldr insertSorted []

/-- merge adjacent text nodes and drop empty ones -/
def mergeText : List Node → List Node
  | [] => []
  | .text a :: rest =>
    match mergeText rest with
    | .text b :: rest' => .text (a ++ b) :: rest'
    | rest' => if a.isEmpty then rest' else .text a :: rest'
  | n :: rest => n :: mergeText rest

mutual
  /-- parser's view of a tree: text merged/dropped at every level -/
  def normalize : Node → Node
    | .text s => .text s
    | .elem n as ks => .elem n as (mergeText (normalizeList ks))
  def normalizeList : List Node → List Node
    | [] => []
    | k :: ks => normalize k :: normalizeList ks
end

mutual
  def canonRaw : Node → String
    | .text s => "(T " ++ hexOf s ++ ")"
    | .elem n as ks =>
      let as' := sortAttrs (as.map fun kv => (hexOf kv.1, hexOf kv.2))
      "(E " ++ hexOf n ++ " (" ++ " ".intercalate (as'.map fun kv => "(" ++ kv.1 ++ " " ++ kv.2 ++ ")") ++ ") ("
        ++ canonRawList ks ++ "))"
  def canonRawList : List Node → String
    | [] => ""
    | [k] => canonRaw k
    | k :: k2 :: ks => canonRaw k ++ " " ++ canonRawList (k2 :: ks)
end

def canon (n : Node) : String := canonRaw (normalize n)

end Qx.Xml
