import Qx.Proofs.C10
/-!
# C10 — `bindAvail` / `smAvail` are overwritten before they are used

`withAvail s a b` is `s` with arbitrary (stale) values in the two fields.  Outside the bind / resume listeners no function of
the model reads them, and those listeners are only entered by the features handler in the very step that writes both fields.
-/
namespace Qx.C10
open Qx.C04

def withAvail (s : St) (a b : Bool) : St := { s with bindAvail := a, smAvail := b }

/-- the listener is not one of the two that read `bindAvail` / `smAvail` -/
def Safe (s : St) : Prop := s.listener ≠ .bind ∧ s.listener ≠ .smResume

macro "av_crush" : tactic => `(tactic| ((repeat' split) <;> simp_all [withAvail]))

@[simp] theorem link_av (s : St) (a b : Bool) : link (withAvail s a b) = link s := rfl
@[simp] theorem send_av (s : St) (a b : Bool) (k : Kind) : send (withAvail s a b) k = send s k := rfl

theorem sendStanza_av (s : St) (a b : Bool) (k : Kind) :
    sendStanza (withAvail s a b) k = (withAvail (sendStanza s k).1 a b, (sendStanza s k).2) := by
  unfold sendStanza; av_crush
theorem enableAck_av (s : St) (a b : Bool) : enableAck (withAvail s a b) = (withAvail (enableAck s).1 a b, (enableAck s).2) := by
  unfold enableAck; simp [withAvail, send, link]
theorem closeSession_av (s : St) (a b : Bool) :
    closeSession (withAvail s a b) = (withAvail (closeSession s).1 a b, (closeSession s).2) := by
  unfold closeSession; simp [withAvail]
theorem onSocketDisconnected_av (s : St) (a b : Bool) :
    onSocketDisconnected (withAvail s a b) = (withAvail (onSocketDisconnected s).1 a b, (onSocketDisconnected s).2) := by
  unfold onSocketDisconnected closeSession; dsimp only; av_crush
theorem socketClose_av (s : St) (a b : Bool) :
    socketClose (withAvail s a b) = (withAvail (socketClose s).1 a b, (socketClose s).2) := by
  unfold socketClose
  have h := onSocketDisconnected_av { s with conn := .disconnected } a b
  simp only [withAvail] at h ⊢
  split
  · rename_i hc
    have hc' : s.conn = .connected := hc
    simp [hc', h, send, link]
  · rename_i hc
    have hc' : ¬ s.conn = .connected := hc
    simp [hc']
theorem disconnectFromHost_av (s : St) (a b : Bool) :
    disconnectFromHost (withAvail s a b) = (withAvail (disconnectFromHost s).1 a b, (disconnectFromHost s).2) := by
  unfold disconnectFromHost
  exact socketClose_av { s with canResume := false } a b
theorem reject_av (s : St) (a b : Bool) : reject (withAvail s a b) = (withAvail (reject s).1 a b, (reject s).2) := by
  unfold reject; rw [disconnectFromHost_av]
theorem failAuth_av (s : St) (a b : Bool) : failAuth (withAvail s a b) = (withAvail (failAuth s).1 a b, (failAuth s).2) := by
  unfold failAuth; rw [disconnectFromHost_av]; rfl

end Qx.C10
