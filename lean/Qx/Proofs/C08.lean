import Qx.Model.C08Dispatch
/-! Helper lemmas for C08 (property theorems live in Qx/Props/C08.lean). -/
namespace Qx.C08

theorem isReq_not_isResp {t : IqType} (h : isReq t = true) : isResp t = false := by
  cases t <;> simp_all [isReq, isResp]

theorem isResp_not_isReq {t : IqType} (h : isResp t = true) : isReq t = false := by
  cases t <;> simp_all [isReq, isResp]

/-- what the extension chain does when every installed row is good at `s`, for a request -/
theorem chain_req (exts : List Row) (s : Stanza) (hreq : isReq s.type = true)
    (h : ∀ r ∈ exts, r.good s = true) :
    ((chain exts s).handledBy.isSome = true → answeredRight s (chain exts s).sent = true) ∧
    ((chain exts s).handledBy = none → (chain exts s).sent = []) := by
  induction exts with
  | nil => simp [chain]
  | cons r rs ih =>
    have hr : r.good s = true := h r (by simp)
    have ih' := ih (fun r' hr' => h r' (by simp [hr']))
    simp only [Row.good, Beh.goodFor, goodTF, hreq, if_true] at hr
    simp only [chain]
    cases hb : (r.run s).handled with
    | true =>
      simp only [hb, if_true] at hr
      simp [answeredRight, answeredTF, hreq, hr]
    | false =>
      simp only [hb] at hr
      have hs : (r.run s).sent = [] := by simpa using hr
      simp only [Bool.false_eq_true, if_false, hs, List.nil_append]
      exact ih'

/-- … and for a response: nothing is sent at all -/
theorem chain_resp (exts : List Row) (s : Stanza) (hresp : isResp s.type = true)
    (h : ∀ r ∈ exts, r.good s = true) : (chain exts s).sent = [] := by
  have hnreq := isResp_not_isReq hresp
  induction exts with
  | nil => simp [chain]
  | cons r rs ih =>
    have hr : r.good s = true := h r (by simp)
    have ih' := ih (fun r' hr' => h r' (by simp [hr']))
    simp only [Row.good, Beh.goodFor, goodTF, hnreq, hresp, if_true, Bool.false_eq_true, if_false] at hr
    have hs : (r.run s).sent = [] := by simpa using hr
    simp only [chain]
    cases hb : (r.run s).handled with
    | true => simp [hs]
    | false => simp [hs, ih']

theorem fallbackReply_ok (f : From) : okOne f [fallbackReply] = true := by
  simp [fallbackReply, okOne, ToC.okFor]

/-- the lifting lemma: good rows ⇒ the whole pipeline answers right, for EVERY extension list -/
theorem dispatch_good (exts : List Row) (s : Stanza) (h : ∀ r ∈ exts, r.good s = true) :
    answeredRight s (dispatch exts s).sent = true := by
  by_cases hreq : isReq s.type = true
  · have hnresp := isReq_not_isResp hreq
    have hc := chain_req exts s hreq h
    have ht : tableConsumes s = false := by simp [tableConsumes, hnresp]
    simp only [dispatch, ht, Bool.and_false, Bool.false_eq_true, if_false]
    cases hb : (chain exts s).handledBy with
    | some m => simp only; exact hc.1 (by simp [hb])
    | none =>
      simp only [hreq, if_true]
      rw [hc.2 hb]
      simp [answeredRight, answeredTF, hreq, fallbackReply_ok]
  · by_cases hresp : isResp s.type = true
    · have hc := chain_resp exts s hresp h
      have hreq' : isReq s.type = false := by simpa using hreq
      simp only [dispatch]
      split
      · simp [answeredRight, answeredTF, hreq', hresp]
      · cases hb : (chain exts s).handledBy with
        | some m => simp [answeredRight, answeredTF, hreq', hresp, hc]
        | none => simp [answeredRight, answeredTF, hreq', hresp, hc]
    · have hreq' : isReq s.type = false := by simpa using hreq
      have hresp' : isResp s.type = false := by simpa using hresp
      simp [answeredRight, answeredTF, hreq', hresp']

/-! ### Row by row: every bundled handler is good at every stanza -/

theorem run_pass (m : Mgr) (s : Stanza) (h : (rowOf m).beh = passBeh) : (rowOf m).good s = true := by
  simp only [Row.good, Row.run, h, passBeh]
  split <;> cases hr : isReq s.type <;> cases hp : isResp s.type <;>
    simp [Beh.goodFor, goodTF, Beh.pass, hr, hp]

/-
Pattern: unfold the handler, abstract every look at the children (`headIs …`, `namedHasNs …`, flags) into an
arbitrary Bool, abstract type / sender / id / entry, and decide the remaining finite case split.  Nothing
about the list of children is assumed, so each case holds for stanzas with any number of children.
-/
local macro "finish_cases" : tactic => `(tactic| (
  generalize Stanza.type _ = t
  generalize Stanza.enc _ = e
  generalize Stanza.frm _ = f
  cases t <;> cases e <;> cases f <;> decide))

theorem row_good (m : Mgr) (s : Stanza) : (rowOf m).good s = true := by
  cases m
  case vcard =>
    simp only [rowOf, Row.good, Row.run, vcardBeh, Beh.goodFor]
    generalize headIs s .vCard .vcard = a
    cases a <;> finish_cases
  case roster =>
    simp only [rowOf, Row.good, Row.run, rosterBeh, Beh.goodFor]
    generalize headIs s .query .roster = a
    cases a <;> finish_cases
  case version =>
    simp only [rowOf, Row.good, Row.run, versionBeh, Beh.goodFor]
    generalize headIs s .query .version = a
    cases a <;> finish_cases
  case entityTime =>
    simp only [rowOf, Row.good, Row.run, timeBeh, Beh.goodFor]
    generalize headIs s .time .time = a
    cases a <;> finish_cases
  case discovery =>
    simp only [rowOf, Row.good, Row.run, discoBeh, Beh.goodFor]
    generalize headIs s .query .discoInfo = a
    generalize headIs s .query .discoItems = b
    generalize headFlag s = c
    cases a <;> cases b <;> cases c <;> finish_cases
  case archive =>
    simp only [rowOf, Row.good, Row.run, archiveBeh, Beh.goodFor]
    generalize namedNsFlag s .chat .archive = a
    generalize headIs s .list .archive = b
    generalize headIs s .pref .archive = c
    cases a <;> cases b <;> cases c <;> finish_cases
  case blocking =>
    simp only [rowOf, Row.good, Row.run, blockingBeh, Beh.goodFor]
    generalize headIs s .block .blocking = a
    generalize headIs s .unblock .blocking = b
    cases a <;> cases b <;> finish_cases
  case blockingSub =>
    simp only [rowOf, Row.good, Row.run, blockingBeh, Beh.goodFor]
    generalize headIs s .block .blocking = a
    generalize headIs s .unblock .blocking = b
    cases a <;> cases b <;> finish_cases
  case bookmark =>
    simp only [rowOf, Row.good, Row.run, bookmarkBeh, Beh.goodFor]
    generalize headIs s .query .priv = a
    generalize headFlag s = b
    generalize s.id = i
    cases a <;> cases b <;> cases i <;> finish_cases
  case mam =>
    simp only [rowOf, Row.good, Row.run, mamBeh, Beh.goodFor]
    generalize namedHasNs s .fin .mam = a
    cases a <;> finish_cases
  case muc =>
    simp only [rowOf, Row.good, Row.run, mucBeh, Beh.goodFor]
    generalize namedHasNs s .query .mucAdmin = a
    generalize namedHasNs s .query .mucOwner = b
    cases a <;> cases b <;> finish_cases
  case mucRoom =>
    simp only [rowOf, Row.good, Row.run, mucBeh, Beh.goodFor]
    generalize namedHasNs s .query .mucAdmin = a
    generalize namedHasNs s .query .mucOwner = b
    cases a <;> cases b <;> finish_cases
  case registration =>
    simp only [rowOf, Row.good, Row.run, registrationBeh, Beh.goodFor]
    generalize headIs s .query .register = a
    generalize s.id = i
    cases a <;> cases i <;> finish_cases
  case rpc =>
    simp only [rowOf, Row.good, Row.run, rpcBeh, Beh.goodFor]
    generalize namedHasNs s .query .rpc = a
    generalize (named s .error).isSome = b
    cases a <;> cases b <;> finish_cases
  case transfer =>
    simp only [rowOf, Row.good, Row.run, transferBeh, Beh.goodFor]
    generalize headIs s .close .ibb = a
    generalize headIs s .data .ibb = b
    generalize headIs s .openT .ibb = c
    generalize headIs s .query .bytestreams = d
    generalize namedHasNs s .si .si = g
    cases a <;> cases b <;> cases c <;> cases d <;> cases g <;> finish_cases
  case uploadRequest =>
    simp only [rowOf, Row.good, Row.run, uploadRequestBeh, Beh.goodFor]
    generalize headIs s .slot .upload = a
    generalize headIs s .request .upload = b
    cases a <;> cases b <;> finish_cases
  all_goals exact run_pass _ s rfl

end Qx.C08
