import Qx.Model.C08Dispatch
/-! Helper lemmas for C08 (property theorems live in Qx/Props/C08.lean). -/
namespace Qx.C08

theorem isReq_not_isResp {t : IqType} (h : isReq t = true) : isResp t = false := by
  cases t <;> simp_all [isReq, isResp]

theorem isResp_not_isReq {t : IqType} (h : isResp t = true) : isReq t = false := by
  cases t <;> simp_all [isReq, isResp]

/-- what the extension chain does when every installed row is good at `s`, for a request -/
theorem chain_req (exts : List Row) (s : Stanza) (hreq : isReq s.type = true)
    (h : ∀ r ∈ exts, r.good s = true) :
    ((chain exts s).handledBy.isSome = true → answeredRight s (chain exts s).sent = true) ∧
    ((chain exts s).handledBy = none → (chain exts s).sent = []) := by
  induction exts with
  | nil => simp [chain]
  | cons r rs ih =>
    have hr : r.good s = true := h r (by simp)
    have ih' := ih (fun r' hr' => h r' (by simp [hr']))
    simp only [Row.good, Beh.goodFor, goodTF, hreq, if_true] at hr
    simp only [chain]
    cases hb : (r.run s).handled with
    | true =>
      simp only [hb, if_true] at hr
      simp [answeredRight, answeredTF, hreq, hr]
    | false =>
      simp only [hb] at hr
      have hs : (r.run s).sent = [] := by simpa using hr
      simp only [Bool.false_eq_true, if_false, hs, List.nil_append]
      exact ih'

/-- … and for a response: nothing is sent at all -/
theorem chain_resp (exts : List Row) (s : Stanza) (hresp : isResp s.type = true)
    (h : ∀ r ∈ exts, r.good s = true) : (chain exts s).sent = [] := by
  have hnreq := isResp_not_isReq hresp
  induction exts with
  | nil => simp [chain]
  | cons r rs ih =>
    have hr : r.good s = true := h r (by simp)
    have ih' := ih (fun r' hr' => h r' (by simp [hr']))
    simp only [Row.good, Beh.goodFor, goodTF, hnreq, hresp, if_true, Bool.false_eq_true, if_false] at hr
    have hs : (r.run s).sent = [] := by simpa using hr
    simp only [chain]
    cases hb : (r.run s).handled with
    | true => simp [hs]
    | false => simp [hs, ih']

theorem fallbackReply_ok (f : From) (e : Entry) : okOne f [fallbackReply e] = true := by
  simp [fallbackReply, okOne, ToC.okFor]

/-- before the session is established nothing is ever sent: the stream is closed instead -/
theorem dispatch_negotiating (exts : List Row) (s : Stanza) (hp : s.phase = .negotiating)
    (he : s.entry ≠ .inject) : dispatch exts s = { by_ := .negotiation, sent := [], disconnect := true } := by
  have h1 : (s.entry != .inject) = true := by simpa using he
  simp [dispatch, hp, h1]

/-- the lifting lemma: good rows ⇒ the whole pipeline answers right, for EVERY extension list
(session established, or the direct injectIq entry, which does not look at the stream's state) -/
theorem dispatch_good (exts : List Row) (s : Stanza) (h : ∀ r ∈ exts, r.good s = true)
    (hs : s.phase = .session ∨ s.entry = .inject) :
    answeredRight s (dispatch exts s).sent = true := by
  have hneg : (s.entry != .inject && decide (s.phase = .negotiating)) = false := by
    rcases hs with h1 | h1 <;> simp [h1]
  by_cases hreq : isReq s.type = true
  · have hnresp := isReq_not_isResp hreq
    have hc := chain_req exts s hreq h
    have ht : tableConsumes s = false := by simp [tableConsumes, hnresp]
    simp only [dispatch, hneg, ht, Bool.and_false, Bool.false_eq_true, if_false]
    cases hb : (chain exts s).handledBy with
    | some m => simp only; exact hc.1 (by simp [hb])
    | none =>
      simp only [hreq, if_true]
      rw [hc.2 hb]
      simp [answeredRight, answeredTF, hreq, fallbackReply_ok]
  · by_cases hresp : isResp s.type = true
    · have hc := chain_resp exts s hresp h
      have hreq' : isReq s.type = false := by simpa using hreq
      simp only [dispatch, hneg, Bool.false_eq_true, if_false]
      split
      · simp [answeredRight, answeredTF, hreq', hresp]
      · cases hb : (chain exts s).handledBy with
        | some m => simp [answeredRight, answeredTF, hreq', hresp, hc]
        | none => simp [answeredRight, answeredTF, hreq', hresp, hc]
    · have hreq' : isReq s.type = false := by simpa using hreq
      have hresp' : isResp s.type = false := by simpa using hresp
      simp [answeredRight, answeredTF, hreq', hresp']

/-! ### Row by row: every bundled handler, in every modelled state, is good at every stanza -/

theorem run_pass (m : Mgr) (s : Stanza) (h : (rowOf m).beh = passBeh) : (rowOf m).good s = true := by
  simp only [Row.good, Row.run, h, passBeh]
  split <;> cases hr : isReq s.type <;> cases hp : isResp s.type <;>
    simp [Beh.goodFor, goodTF, Beh.pass, hr, hp]

/-
Pattern: unfold the handler, abstract every look at the children (`headIs …`, `namedHasNs …`, flags) into an
arbitrary Bool, abstract type / sender / id / entry, and decide the remaining finite case split.  Nothing
about the list of children is assumed, so each case holds for stanzas with any number of children.
-/
theorem transfer_good (l : Lsn) (j : Job) (m : Mgr) (s : Stanza) :
    Row.good ⟨m, false, transferBeh l j⟩ s = true := by
  simp only [Row.good, Row.run, transferBeh, Beh.goodFor]
  -- the reply kinds do not matter for goodness: abstract them
  generalize ibbCloseKind j s = k1
  generalize ibbDataKind j s = k2
  generalize ibbOpenKind j s = k3
  generalize siSetKind l s = k4
  generalize proxyMatch j s = pm
  generalize headIs s .close .ibb = a
  generalize headIs s .data .ibb = b
  generalize headIs s .openT .ibb = c
  generalize headIs s .query .bytestreams = d
  generalize namedHasNs s .si .si = g
  generalize s.type = t
  generalize s.dec = e
  generalize s.frm = f
  cases a <;> cases b <;> cases c <;> cases d <;> cases g <;> cases pm <;> cases e <;> cases t <;> rfl

theorem row_good (m : Mgr) (s : Stanza) : (rowOf m).good s = true := by
  cases m
  case vcard =>
    simp only [rowOf, Row.good, Row.run, vcardBeh, Beh.goodFor]
    generalize headIs s .vCard .vcard = a
    generalize s.type = t
    generalize s.dec = e
    generalize s.frm = f
    cases a <;> cases t <;> cases e <;> cases f <;> decide
  case roster =>
    simp only [rowOf, Row.good, Row.run, rosterBeh, Beh.goodFor]
    generalize headIs s .query .roster = a
    generalize s.type = t
    generalize s.dec = e
    generalize s.frm = f
    cases a <;> cases t <;> cases e <;> cases f <;> decide
  case version =>
    simp only [rowOf, Row.good, Row.run, versionBeh, Beh.goodFor]
    generalize headIs s .query .version = a
    generalize s.type = t
    generalize s.dec = e
    generalize s.frm = f
    cases a <;> cases t <;> cases e <;> cases f <;> decide
  case entityTime =>
    simp only [rowOf, Row.good, Row.run, timeBeh, Beh.goodFor]
    generalize headIs s .time .time = a
    generalize s.type = t
    generalize s.dec = e
    generalize s.frm = f
    cases a <;> cases t <;> cases e <;> cases f <;> decide
  case discovery =>
    simp only [rowOf, Row.good, Row.run, discoBeh, Beh.goodFor]
    generalize headIs s .query .discoInfo = a
    generalize headIs s .query .discoItems = b
    generalize headFlag s = c
    generalize s.type = t
    generalize s.dec = e
    generalize s.frm = f
    cases a <;> cases b <;> cases c <;> cases t <;> cases e <;> cases f <;> decide
  case archive =>
    simp only [rowOf, Row.good, Row.run, archiveBeh, Beh.goodFor]
    generalize namedNsFlag s .chat .archive = a
    generalize headIs s .list .archive = b
    generalize headIs s .pref .archive = c
    generalize s.type = t
    generalize s.dec = e
    generalize s.frm = f
    cases a <;> cases b <;> cases c <;> cases t <;> cases e <;> cases f <;> decide
  case blocking =>
    simp only [rowOf, Row.good, Row.run, blockingBeh, Beh.goodFor]
    generalize headIs s .block .blocking = a
    generalize headIs s .unblock .blocking = b
    generalize s.type = t
    generalize s.dec = e
    generalize s.frm = f
    cases a <;> cases b <;> cases t <;> cases e <;> cases f <;> decide
  case blockingSub =>
    simp only [rowOf, Row.good, Row.run, blockingBeh, Beh.goodFor]
    generalize headIs s .block .blocking = a
    generalize headIs s .unblock .blocking = b
    generalize s.type = t
    generalize s.dec = e
    generalize s.frm = f
    cases a <;> cases b <;> cases t <;> cases e <;> cases f <;> decide
  case bookmark =>
    simp only [rowOf, Row.good, Row.run, bookmarkBeh, Beh.goodFor]
    generalize headIs s .query .priv = a
    generalize headFlag s = b
    generalize s.id = i
    generalize s.type = t
    generalize s.dec = e
    generalize s.frm = f
    cases a <;> cases b <;> cases i <;> cases t <;> cases e <;> cases f <;> decide
  case mam =>
    simp only [rowOf, Row.good, Row.run, mamBeh, Beh.goodFor]
    generalize namedHasNs s .fin .mam = a
    generalize s.type = t
    generalize s.dec = e
    generalize s.frm = f
    cases a <;> cases t <;> cases e <;> cases f <;> decide
  case muc =>
    simp only [rowOf, Row.good, Row.run, mucBeh, Beh.goodFor]
    generalize namedHasNs s .query .mucAdmin = a
    generalize namedHasNs s .query .mucOwner = b
    generalize namedFlag s .query = c
    generalize s.id = i
    generalize s.type = t
    generalize s.dec = e
    generalize s.frm = f
    cases a <;> cases b <;> cases c <;> cases i <;> cases t <;> cases e <;> cases f <;> decide
  case mucRoom =>
    simp only [rowOf, Row.good, Row.run, mucBeh, Beh.goodFor]
    generalize namedHasNs s .query .mucAdmin = a
    generalize namedHasNs s .query .mucOwner = b
    generalize namedFlag s .query = c
    generalize s.id = i
    generalize s.type = t
    generalize s.dec = e
    generalize s.frm = f
    cases a <;> cases b <;> cases c <;> cases i <;> cases t <;> cases e <;> cases f <;> decide
  case registration =>
    simp only [rowOf, Row.good, Row.run, registrationBeh, Beh.goodFor]
    generalize headIs s .query .register = a
    generalize s.id = i
    generalize s.type = t
    generalize s.dec = e
    generalize s.frm = f
    cases a <;> cases i <;> cases t <;> cases e <;> cases f <;> decide
  case rpc =>
    simp only [rowOf, Row.good, Row.run, rpcBeh, Beh.goodFor]
    generalize namedHasNs s .query .rpc = a
    generalize (named s .error).isSome = b
    generalize namedFlag s .query = c
    generalize s.type = t
    generalize s.dec = e
    generalize s.frm = f
    cases a <;> cases b <;> cases c <;> cases t <;> cases e <;> cases f <;> decide
  case transfer => exact transfer_good _ _ _ s
  case transferAccept => exact transfer_good _ _ _ s
  case transferDecline => exact transfer_good _ _ _ s
  case transferJob => exact transfer_good _ _ _ s
  case transferJobOpen => exact transfer_good _ _ _ s
  case transferAcceptRO => exact transfer_good _ _ _ s
  case transferJobOpenFail => exact transfer_good _ _ _ s
  case transferJobOpenShort => exact transfer_good _ _ _ s
  case transferJobFailed => exact transfer_good _ _ _ s
  case app =>
    simp only [rowOf, Row.good, Row.run, appBeh, Beh.goodFor]
    generalize returnedFor s = r
    generalize s.type = t
    generalize s.dec = e
    generalize s.frm = f
    rcases r with _ | r
    · cases t <;> cases e <;> rfl
    · cases r <;> cases t <;> cases e <;> rfl
  case appOld =>
    simp only [rowOf, Row.good, Row.run, appBeh, Beh.goodFor]
    generalize returnedFor s = r
    generalize s.type = t
    generalize s.dec = e
    generalize s.frm = f
    rcases r with _ | r
    · cases t <;> cases e <;> rfl
    · cases r <;> cases t <;> cases e <;> rfl
  case uploadRequest =>
    simp only [rowOf, Row.good, Row.run, uploadRequestBeh, Beh.goodFor]
    generalize headIs s .slot .upload = a
    generalize headIs s .request .upload = b
    generalize s.type = t
    generalize s.dec = e
    generalize s.frm = f
    cases a <;> cases b <;> cases t <;> cases e <;> cases f <;> decide
  all_goals exact run_pass _ s rfl

end Qx.C08
