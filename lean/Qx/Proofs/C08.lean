import Qx.Model.C08Dispatch
/-! Helper lemmas for C08 (property theorems live in Qx/Props/C08.lean). -/
namespace Qx.C08

theorem isReq_not_isResp {t : IqType} (h : isReq t = true) : isResp t = false := by
  cases t <;> simp_all [isReq, isResp]

theorem isResp_not_isReq {t : IqType} (h : isResp t = true) : isReq t = false := by
  cases t <;> simp_all [isReq, isResp]

/-- what the extension chain does when every installed row is good at `s`, for a request -/
theorem chain_req (exts : List Row) (s : Stanza) (hreq : isReq s.type = true)
    (h : ∀ r ∈ exts, r.good s = true) :
    ((chain exts s).handledBy.isSome = true → answeredRight s (chain exts s).sent = true) ∧
    ((chain exts s).handledBy = none → (chain exts s).sent = []) := by
  induction exts with
  | nil => simp [chain]
  | cons r rs ih =>
    have hr : r.good s = true := h r (by simp)
    have ih' := ih (fun r' hr' => h r' (by simp [hr']))
    simp only [Row.good, Beh.goodFor, goodTF, hreq, if_true] at hr
    simp only [chain]
    cases hb : (r.run s).handled with
    | true =>
      simp only [hb, if_true] at hr
      simp [answeredRight, answeredTF, hreq, hr]
    | false =>
      simp only [hb] at hr
      have hs : (r.run s).sent = [] := by simpa using hr
      simp only [Bool.false_eq_true, if_false, hs, List.nil_append]
      exact ih'

/-- … and for a response: nothing is sent at all -/
theorem chain_resp (exts : List Row) (s : Stanza) (hresp : isResp s.type = true)
    (h : ∀ r ∈ exts, r.good s = true) : (chain exts s).sent = [] := by
  have hnreq := isResp_not_isReq hresp
  induction exts with
  | nil => simp [chain]
  | cons r rs ih =>
    have hr : r.good s = true := h r (by simp)
    have ih' := ih (fun r' hr' => h r' (by simp [hr']))
    simp only [Row.good, Beh.goodFor, goodTF, hnreq, hresp, if_true, Bool.false_eq_true, if_false] at hr
    have hs : (r.run s).sent = [] := by simpa using hr
    simp only [chain]
    cases hb : (r.run s).handled with
    | true => simp [hs]
    | false => simp [hs, ih']

theorem fallbackReply_ok (f : From) : okOne f [fallbackReply] = true := by
  simp [fallbackReply, okOne, ToC.okFor]

/-- the lifting lemma: good rows ⇒ the whole pipeline answers right, for EVERY extension list -/
theorem dispatch_good (exts : List Row) (s : Stanza) (h : ∀ r ∈ exts, r.good s = true) :
    answeredRight s (dispatch exts s).sent = true := by
  by_cases hreq : isReq s.type = true
  · have hnresp := isReq_not_isResp hreq
    have hc := chain_req exts s hreq h
    have ht : tableConsumes s = false := by simp [tableConsumes, hnresp]
    simp only [dispatch, ht, Bool.and_false, Bool.false_eq_true, if_false]
    cases hb : (chain exts s).handledBy with
    | some m => simp only; exact hc.1 (by simp [hb])
    | none =>
      simp only [hreq, if_true]
      rw [hc.2 hb]
      simp [answeredRight, answeredTF, hreq, fallbackReply_ok]
  · by_cases hresp : isResp s.type = true
    · have hc := chain_resp exts s hresp h
      have hreq' : isReq s.type = false := by simpa using hreq
      simp only [dispatch]
      split
      · simp [answeredRight, answeredTF, hreq', hresp]
      · cases hb : (chain exts s).handledBy with
        | some m => simp [answeredRight, answeredTF, hreq', hresp, hc]
        | none => simp [answeredRight, answeredTF, hreq', hresp, hc]
    · have hreq' : isReq s.type = false := by simpa using hreq
      have hresp' : isResp s.type = false := by simpa using hresp
      simp [answeredRight, answeredTF, hreq', hresp']

/-- one configuration and stanza that is not answered right refutes the full statement -/
theorem refute (ms : List Mgr) (s : Stanza)
    (h : answeredRight s (dispatch (ms.map rowOf) s).sent = false) : ¬ FullC08 := by
  intro hf; have := hf ms s; rw [h] at this; exact Bool.noConfusion this

/-! ### Row by row: good exactly outside the defect cells, for every stanza -/

theorem run_pass (m : Mgr) (s : Stanza) (h : (rowOf m).beh = passBeh) : (rowOf m).good s = true := by
  simp only [Row.good, Row.run, h, passBeh]
  split <;> cases hr : isReq s.type <;> cases hp : isResp s.type <;>
    simp [Beh.goodFor, goodTF, Beh.pass, hr, hp]


/-
Pattern: unfold the handler and the defect predicate, abstract every look at the children
(`headIs …`, `namedHasNs …`, flags) into an arbitrary Bool, abstract type / sender / id / entry, and decide
the remaining finite case split.  Nothing about the list of children is assumed, so each lemma
holds for stanzas with any number of children.
-/
local macro "finish_cases" : tactic => `(tactic| (
  generalize Stanza.type _ = t
  generalize Stanza.enc _ = e
  generalize Stanza.frm _ = f
  cases t <;> cases e <;> cases f <;> decide))

theorem vcard_exact (s : Stanza) : (rowOf .vcard).good s = !(rowOf .vcard).defect s := by
  simp only [rowOf, Row.good, Row.run, Row.defect, defectCell, vcardBeh, Beh.goodFor]
  generalize headIs s .vCard .vcard = a
  cases a <;> finish_cases

theorem roster_exact (s : Stanza) : (rowOf .roster).good s = !(rowOf .roster).defect s := by
  simp only [rowOf, Row.good, Row.run, Row.defect, defectCell, rosterBeh, Beh.goodFor]
  generalize headIs s .query .roster = a
  cases a <;> finish_cases

theorem version_exact (s : Stanza) : (rowOf .version).good s = !(rowOf .version).defect s := by
  simp only [rowOf, Row.good, Row.run, Row.defect, defectCell, versionBeh, Beh.goodFor]
  generalize headIs s .query .version = a
  cases a <;> finish_cases

theorem time_exact (s : Stanza) : (rowOf .entityTime).good s = !(rowOf .entityTime).defect s := by
  simp only [rowOf, Row.good, Row.run, Row.defect, defectCell, timeBeh, Beh.goodFor]
  generalize headIs s .time .time = a
  cases a <;> finish_cases

theorem disco_exact (s : Stanza) : (rowOf .discovery).good s = !(rowOf .discovery).defect s := by
  simp only [rowOf, Row.good, Row.run, Row.defect, defectCell, discoBeh, Beh.goodFor]
  generalize headIs s .query .discoInfo = a
  generalize headIs s .query .discoItems = b
  generalize headFlag s = c
  cases a <;> cases b <;> cases c <;> finish_cases

theorem archive_exact (s : Stanza) : (rowOf .archive).good s = !(rowOf .archive).defect s := by
  simp only [rowOf, Row.good, Row.run, Row.defect, defectCell, archiveBeh, Beh.goodFor]
  generalize namedNsFlag s .chat .archive = a
  generalize headIs s .list .archive = b
  generalize headIs s .pref .archive = c
  cases a <;> cases b <;> cases c <;> finish_cases

theorem blocking_exact (sub : Bool) (s : Stanza) :
    (rowOf (if sub then .blockingSub else .blocking)).good s
      = !(rowOf (if sub then .blockingSub else .blocking)).defect s := by
  cases sub <;>
  · simp only [rowOf, Row.good, Row.run, Row.defect, defectCell, blockingBeh, Beh.goodFor,
      Bool.false_eq_true, if_false, if_true]
    generalize headIs s .block .blocking = a
    generalize headIs s .unblock .blocking = b
    cases a <;> cases b <;> finish_cases

theorem bookmark_exact (s : Stanza) : (rowOf .bookmark).good s = !(rowOf .bookmark).defect s := by
  simp only [rowOf, Row.good, Row.run, Row.defect, defectCell, bookmarkBeh, Beh.goodFor]
  generalize headIs s .query .priv = a
  generalize headFlag s = b
  generalize s.id = i
  cases a <;> cases b <;> cases i <;> finish_cases

theorem mam_exact (s : Stanza) : (rowOf .mam).good s = !(rowOf .mam).defect s := by
  simp only [rowOf, Row.good, Row.run, Row.defect, defectCell, mamBeh, Beh.goodFor]
  generalize namedHasNs s .fin .mam = a
  cases a <;> finish_cases

theorem muc_exact (room : Bool) (s : Stanza) :
    (rowOf (if room then .mucRoom else .muc)).good s = !(rowOf (if room then .mucRoom else .muc)).defect s := by
  cases room <;>
  · simp only [rowOf, Row.good, Row.run, Row.defect, defectCell, mucBeh, Beh.goodFor,
      Bool.false_eq_true, if_false, if_true]
    generalize namedHasNs s .query .mucAdmin = a
    generalize namedHasNs s .query .mucOwner = b
    cases a <;> cases b <;> finish_cases

theorem registration_exact (s : Stanza) :
    (rowOf .registration).good s = !(rowOf .registration).defect s := by
  simp only [rowOf, Row.good, Row.run, Row.defect, defectCell, registrationBeh, Beh.goodFor]
  generalize headIs s .query .register = a
  generalize s.id = i
  cases a <;> cases i <;> finish_cases

theorem rpc_exact (s : Stanza) : (rowOf .rpc).good s = !(rowOf .rpc).defect s := by
  simp only [rowOf, Row.good, Row.run, Row.defect, defectCell, rpcBeh, Beh.goodFor]
  generalize namedHasNs s .query .rpc = a
  generalize (named s .error).isSome = b
  generalize namedFlag s .query = c
  cases a <;> cases b <;> cases c <;> finish_cases

theorem transfer_exact (s : Stanza) : (rowOf .transfer).good s = !(rowOf .transfer).defect s := by
  simp only [rowOf, Row.good, Row.run, Row.defect, defectCell, transferBeh, Beh.goodFor]
  generalize headIs s .close .ibb = a
  generalize headIs s .data .ibb = b
  generalize headIs s .openT .ibb = c
  generalize headIs s .query .bytestreams = d
  generalize namedHasNs s .si .si = g
  cases a <;> cases b <;> cases c <;> cases d <;> cases g <;> finish_cases

theorem uploadRequest_exact (s : Stanza) :
    (rowOf .uploadRequest).good s = !(rowOf .uploadRequest).defect s := by
  simp only [rowOf, Row.good, Row.run, Row.defect, defectCell, uploadRequestBeh, Beh.goodFor]
  generalize headIs s .slot .upload = a
  generalize headIs s .request .upload = b
  cases a <;> cases b <;> finish_cases

theorem pass_exact (m : Mgr) (s : Stanza) (h : (rowOf m).beh = passBeh)
    (hd : ∀ s, defectCell (rowOf m).mgr s = false) :
    (rowOf m).good s = !(rowOf m).defect s := by
  rw [run_pass m s h]
  simp only [Row.defect, hd]
  cases s.enc <;> cases (rowOf m).newStyle <;> rfl

/-- every row is good exactly outside its defect cells — for every stanza, any number of children -/
theorem good_iff_not_defect (m : Mgr) (s : Stanza) : (rowOf m).good s = !(rowOf m).defect s := by
  cases m
  case vcard => exact vcard_exact s
  case roster => exact roster_exact s
  case version => exact version_exact s
  case entityTime => exact time_exact s
  case discovery => exact disco_exact s
  case archive => exact archive_exact s
  case blocking => exact blocking_exact false s
  case blockingSub => exact blocking_exact true s
  case bookmark => exact bookmark_exact s
  case mam => exact mam_exact s
  case muc => exact muc_exact false s
  case mucRoom => exact muc_exact true s
  case registration => exact registration_exact s
  case rpc => exact rpc_exact s
  case transfer => exact transfer_exact s
  case uploadRequest => exact uploadRequest_exact s
  all_goals exact pass_exact _ s rfl (fun _ => rfl)

/-! ### The handlers with /verif/fixes/C08-*.diff applied are good everywhere -/

theorem fixed_good (m : Mgr) (s : Stanza) : (rowOfFixed m).good s = true := by
  have hbase : ∀ m', (rowOf m').defect s = false → (rowOf m').good s = true := by
    intro m' h; rw [good_iff_not_defect, h]; rfl
  have hnd : ∀ m', (∀ s', defectCell (rowOf m').mgr s' = false) → (rowOf m').good s = true := by
    intro m' h; apply hbase; simp only [Row.defect, h]; cases s.enc <;> cases (rowOf m').newStyle <;> rfl
  cases m
  case vcard =>
    simp only [rowOfFixed, Row.good, Row.run, vcardFixedBeh, Beh.goodFor]
    generalize headIs s .vCard .vcard = a
    cases a <;> finish_cases
  case roster =>
    simp only [rowOfFixed, Row.good, Row.run, rosterFixedBeh, Beh.goodFor]
    generalize headIs s .query .roster = a
    cases a <;> finish_cases
  case archive =>
    simp only [rowOfFixed, Row.good, Row.run, archiveFixedBeh, archiveBeh, Beh.goodFor]
    generalize namedNsFlag s .chat .archive = a
    generalize headIs s .list .archive = b
    generalize headIs s .pref .archive = c
    cases a <;> cases b <;> cases c <;> finish_cases
  case bookmark =>
    simp only [rowOfFixed, Row.good, Row.run, bookmarkFixedBeh, bookmarkBeh, Beh.goodFor]
    generalize headIs s .query .priv = a
    generalize headFlag s = b
    generalize s.id = i
    cases a <;> cases b <;> cases i <;> finish_cases
  case mam =>
    simp only [rowOfFixed, Row.good, Row.run, mamFixedBeh, mamBeh, Beh.goodFor]
    generalize namedHasNs s .fin .mam = a
    cases a <;> finish_cases
  case uploadRequest =>
    simp only [rowOfFixed, Row.good, Row.run, uploadRequestFixedBeh, uploadRequestBeh, Beh.goodFor]
    generalize headIs s .slot .upload = a
    generalize headIs s .request .upload = b
    cases a <;> cases b <;> finish_cases
  case registration =>
    simp only [rowOfFixed, Row.good, Row.run, registrationFixedBeh, registrationBeh, Beh.goodFor]
    generalize headIs s .query .register = a
    generalize s.id = i
    cases a <;> cases i <;> finish_cases
  case rpc =>
    simp only [rowOfFixed, Row.good, Row.run, rpcFixedBeh, Beh.goodFor]
    generalize namedHasNs s .query .rpc = a
    generalize (named s .error).isSome = b
    cases a <;> cases b <;> finish_cases
  case transfer =>
    simp only [rowOfFixed, Row.good, Row.run, transferFixedBeh, transferBeh, Beh.goodFor]
    generalize headIs s .close .ibb = a
    generalize headIs s .data .ibb = b
    generalize headIs s .openT .ibb = c
    generalize headIs s .query .bytestreams = d
    generalize namedHasNs s .si .si = g
    cases a <;> cases b <;> cases c <;> cases d <;> cases g <;> finish_cases
  all_goals exact hnd _ (fun _ => rfl)

end Qx.C08
