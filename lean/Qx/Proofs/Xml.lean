import Qx.Xml.Parse
import Qx.Xml.Writer
/-!
Helper lemmas for the XML text layer (tier A of C01).  The property theorems are in
`Qx/Props/C01Xml.lean`.
-/
namespace Qx.Xml

/-! ### escaping -/

/-- the nine shapes of `escChar` -/
theorem escChar_cases (a : Bool) (c : Char) :
    (c = '<' ∧ escChar a c = ['&','l','t',';']) ∨
    (c = '>' ∧ escChar a c = ['&','g','t',';']) ∨
    (c = '&' ∧ escChar a c = ['&','a','m','p',';']) ∨
    (c = '"' ∧ escChar a c = ['&','q','u','o','t',';']) ∨
    (c = '\t' ∧ a = true ∧ escChar a c = ['&','#','9',';']) ∨
    (c = '\n' ∧ a = true ∧ escChar a c = ['&','#','1','0',';']) ∨
    (c = '\r' ∧ a = true ∧ escChar a c = ['&','#','1','3',';']) ∨
    (legalChar c = true ∧ c ≠ '<' ∧ c ≠ '>' ∧ c ≠ '&' ∧ c ≠ '"' ∧ escChar a c = [c]) ∨
    (legalChar c = false ∧ escChar a c = []) := by
  unfold escChar
  by_cases h1 : c = '<'
  · subst h1; simp
  by_cases h2 : c = '>'
  · subst h2; simp
  by_cases h3 : c = '&'
  · subst h3; simp
  by_cases h4 : c = '"'
  · subst h4; simp
  by_cases h5 : c = '\t'
  · subst h5; cases a <;> simp [legalChar]
  by_cases h6 : c = '\n'
  · subst h6; cases a <;> simp [legalChar]
  by_cases h7 : c = '\r'
  · subst h7; cases a <;> simp [legalChar]
  by_cases h8 : legalChar c = true
  · simp [h1, h2, h3, h4, h5, h6, h7, h8]
  · simp [h1, h2, h3, h4, h5, h6, h7, h8]

theorem unescGo_escChar (a : Bool) (c : Char) (rest : Str) :
    unescGo 0 (escChar a c ++ rest) = (if legalChar c then [c] else []) ++ unescGo 0 rest := by
  rcases escChar_cases a c with ⟨rfl, h⟩ | ⟨rfl, h⟩ | ⟨rfl, h⟩ | ⟨rfl, h⟩ | ⟨rfl, _, h⟩ | ⟨rfl, _, h⟩ | ⟨rfl, _, h⟩ | ⟨hl, _, _, h3, _, h⟩ | ⟨hl, h⟩
  all_goals rw [h]
  · simp [unescGo, decodeRef, legalChar]
  · simp [unescGo, decodeRef, legalChar]
  · simp [unescGo, decodeRef, legalChar]
  · simp [unescGo, decodeRef, legalChar]
  · simp [unescGo, decodeRef, legalChar, scanNum, digitVal, charOf]
  · simp [unescGo, decodeRef, legalChar, scanNum, digitVal, charOf]
  · simp [unescGo, decodeRef, legalChar, scanNum, digitVal, charOf]
  · simp [unescGo, h3, hl]
  · simp [hl]
theorem legalChar_not_nonChar {c : Char} (h : legalChar c = true) : isNonChar c = false := by
  simp only [legalChar, isNonChar, Bool.or_eq_true, Bool.and_eq_true, decide_eq_true_eq, Bool.or_eq_false_iff, decide_eq_false_iff_not] at *
  rcases h with (((h | h) | h) | h) | h
  · subst h; decide
  · subst h; decide
  · subst h; decide
  · omega
  · omega

theorem unescStrictGo_escChar (a : Bool) (c : Char) (rest t : Str) (hr : unescStrictGo 0 rest = some t) :
    unescStrictGo 0 (escChar a c ++ rest) = some ((if legalChar c then [c] else []) ++ t) := by
  rcases escChar_cases a c with ⟨rfl, h⟩ | ⟨rfl, h⟩ | ⟨rfl, h⟩ | ⟨rfl, h⟩ | ⟨rfl, _, h⟩ | ⟨rfl, _, h⟩ | ⟨rfl, _, h⟩ | ⟨hl, h1, _, h3, _, h⟩ | ⟨hl, h⟩
  all_goals rw [h]
  · simp [unescStrictGo, decodeRef, legalChar, hr]
  · simp [unescStrictGo, decodeRef, legalChar, hr]
  · simp [unescStrictGo, decodeRef, legalChar, hr]
  · simp [unescStrictGo, decodeRef, legalChar, hr]
  · simp [unescStrictGo, decodeRef, legalChar, scanNum, digitVal, charOf, hr]
  · simp [unescStrictGo, decodeRef, legalChar, scanNum, digitVal, charOf, hr]
  · simp [unescStrictGo, decodeRef, legalChar, scanNum, digitVal, charOf, hr]
  · simp [unescStrictGo, h3, h1, hl, hr, legalChar_not_nonChar hl]
  · simp [hl, hr]

theorem escChar_no_meta (a : Bool) (c x : Char) (hx : x = '<' ∨ x = '>' ∨ x = '"') : x ∉ escChar a c := by
  rcases escChar_cases a c with ⟨rfl, h⟩ | ⟨rfl, h⟩ | ⟨rfl, h⟩ | ⟨rfl, h⟩ | ⟨rfl, _, h⟩ | ⟨rfl, _, h⟩ | ⟨rfl, _, h⟩ | ⟨hl, h1, h2, h3, h4, h⟩ | ⟨hl, h⟩
  all_goals rw [h]
  all_goals rcases hx with rfl | rfl | rfl
  all_goals first | decide | (simp; intro e; exact absurd e.symm (by assumption))

/-- every `&` in the string starts one of the seven references the writer emits -/
def ampOK : Str → Bool
  | [] => true
  | c :: r => (c != '&' || startsEntity (c :: r)) && ampOK r

theorem ampOK_escChar (a : Bool) (c : Char) (rest : Str) (hr : ampOK rest = true) : ampOK (escChar a c ++ rest) = true := by
  rcases escChar_cases a c with ⟨rfl, h⟩ | ⟨rfl, h⟩ | ⟨rfl, h⟩ | ⟨rfl, h⟩ | ⟨rfl, _, h⟩ | ⟨rfl, _, h⟩ | ⟨rfl, _, h⟩ | ⟨hl, h1, h2, h3, h4, h⟩ | ⟨hl, h⟩
  all_goals rw [h]
  all_goals simp [ampOK, startsEntity, hr]
  exact Or.inl h3

theorem escText_cons (c : Char) (s : Str) : escText (c :: s) = escChar false c ++ escText s := by
  simp [escText]
theorem escAttr_cons (c : Char) (s : Str) : escAttr (c :: s) = escChar true c ++ escAttr s := by
  simp [escAttr]
theorem escText_append (a b : Str) : escText (a ++ b) = escText a ++ escText b := by
  simp [escText]
@[simp] theorem escText_nil : escText [] = [] := rfl
@[simp] theorem escAttr_nil : escAttr [] = [] := rfl

theorem filter_legal_cons (c : Char) (s : Str) :
    (c :: s).filter legalChar = (if legalChar c then [c] else []) ++ s.filter legalChar := by
  by_cases h : legalChar c = true <;> simp [h]

theorem unescGo_flatMap (a : Bool) (s : Str) :
    unescGo 0 (s.flatMap (escChar a)) = s.filter legalChar := by
  induction s with
  | nil => simp [unescGo]
  | cons c s ih => rw [List.flatMap_cons, unescGo_escChar, ih, filter_legal_cons]

theorem unescStrictGo_flatMap (a : Bool) (s : Str) :
    unescStrictGo 0 (s.flatMap (escChar a)) = some (s.filter legalChar) := by
  induction s with
  | nil => simp [unescStrictGo]
  | cons c s ih => rw [List.flatMap_cons, unescStrictGo_escChar a c _ _ ih, filter_legal_cons]

theorem unescStrict_escText (s : Str) : unescStrict (escText s) = some (s.filter legalChar) :=
  unescStrictGo_flatMap false s
theorem unescStrict_escAttr (s : Str) : unescStrict (escAttr s) = some (s.filter legalChar) :=
  unescStrictGo_flatMap true s

theorem filter_legal_of_all {s : Str} (h : ∀ c ∈ s, legalChar c = true) : s.filter legalChar = s :=
  List.filter_eq_self.mpr h

theorem flatMap_escChar_no_meta (a : Bool) (s : Str) (x : Char) (hx : x = '<' ∨ x = '>' ∨ x = '"') :
    x ∉ s.flatMap (escChar a) := by
  intro h
  rcases List.mem_flatMap.mp h with ⟨c, _, hc⟩
  exact escChar_no_meta a c x hx hc

theorem ampOK_flatMap (a : Bool) (s : Str) : ampOK (s.flatMap (escChar a)) = true := by
  induction s with
  | nil => rfl
  | cons c s ih => rw [List.flatMap_cons]; exact ampOK_escChar a c _ ih

/-- `ampOK` says what it should: wherever an `&` occurs, the suffix starting there begins with one of the seven references -/
theorem ampOK_suffix {l : Str} (h : ampOK l = true) (pre suf : Str) (e : l = pre ++ '&' :: suf) :
    startsEntity ('&' :: suf) = true := by
  induction pre generalizing l with
  | nil => subst e; simp [ampOK] at h; exact h.1
  | cons p pre ih =>
    subst e
    simp only [List.cons_append, ampOK, Bool.and_eq_true] at h
    exact ih h.2 rfl

/-! ### scanning -/

theorem span_append_stop {α} (p : α → Bool) (a : List α) (c : α) (b : List α)
    (ha : ∀ x ∈ a, p x = true) (hc : p c = false) : (a ++ c :: b).spanW p = (a, c :: b) := by
  unfold List.spanW
  induction a with
  | nil => simp [hc]
  | cons x a ih =>
    have hx : p x = true := ha x (by simp)
    have ih' := ih (fun y hy => ha y (by simp [hy]))
    simp only [Prod.mk.injEq] at ih'
    simp [hx, ih'.1, ih'.2]

theorem hasCdataEnd_of_no_gt (l : Str) (h : '>' ∉ l) : hasCdataEnd l = false := by
  induction l with
  | nil => rfl
  | cons c r ih =>
    have h1 : '>' ∉ r := fun m => h (by simp [m])
    simp only [hasCdataEnd, ih h1, Bool.or_false]
    cases hp : List.isPrefixOf "]]>".toList (c :: r) with
    | false => rfl
    | true =>
      exfalso
      have := List.isPrefixOf_iff_prefix.mp hp
      exact h (this.subset (by decide))

theorem isNameStart_isNameChar {c : Char} (h : isNameStart c = true) : isNameChar c = true := by
  simp only [isNameStart, isNameChar, Char.isAlphanum, Bool.or_eq_true, decide_eq_true_eq] at *
  rcases h with (h | h) | h <;> simp [h]

theorem okName_all {n : Str} (h : okName n = true) : ∀ x ∈ n, isNameChar x = true := by
  cases n with
  | nil => simp [okName] at h
  | cons c r =>
    simp only [okName, Bool.and_eq_true, List.all_eq_true] at h
    intro x hx
    rcases List.mem_cons.mp hx with rfl | hx
    · exact isNameStart_isNameChar h.1
    · exact h.2 x hx

theorem spanW_name (n : Str) (hn : okName n = true) (c : Char) (hc : isNameChar c = false) (b : Str) :
    (n ++ c :: b).spanW isNameChar = (n, c :: b) :=
  span_append_stop _ _ _ _ (okName_all hn) hc

theorem spanW_escAttr (v : Str) (b : Str) :
    (escAttr v ++ '"' :: b).spanW (fun x => x != '"') = (escAttr v, '"' :: b) := by
  apply span_append_stop
  · intro x hx
    have : x ≠ '"' := fun e => flatMap_escChar_no_meta true v x (by simp [e]) hx
    simpa using this
  · simp

theorem spanW_escText (s : Str) (b : Str) :
    (escText s ++ '<' :: b).spanW (fun x => x != '<') = (escText s, '<' :: b) := by
  apply span_append_stop
  · intro x hx
    have : x ≠ '<' := fun e => flatMap_escChar_no_meta false s x (by simp [e]) hx
    simpa using this
  · simp

/-- a value made of characters the escaper copies is written unchanged (used for the constant namespaces) -/
theorem escAttr_plain (v : Str) (h : ∀ c ∈ v, plainAttrChar c = true) : escAttr v = v := by
  induction v with
  | nil => rfl
  | cons c v ih =>
    have hc := h c (by simp)
    simp only [plainAttrChar, Bool.and_eq_true, bne_iff_ne, ne_eq] at hc
    obtain ⟨⟨⟨⟨⟨⟨⟨hl, h1⟩, h2⟩, h3⟩, h4⟩, h5⟩, h6⟩, h7⟩ := hc
    rw [escAttr_cons, ih (fun x hx => h x (by simp [hx]))]
    simp [escChar, h1, h2, h3, h4, h5, h6, h7, hl]

/-! ### attributes -/

theorem parseAttrs_render (as : List (Str × Str)) (hn : ∀ kv ∈ as, okName kv.1 = true)
    (rest : Str) (hrest : ∀ c r, rest = c :: r → c ≠ ' ') (f : Nat) (hf : as.length < f) :
    parseAttrs f (renderAttrs as ++ rest) =
      some (as.map (fun kv => (kv.1, kv.2.filter legalChar)), rest) := by
  induction as generalizing f with
  | nil =>
    obtain ⟨f, rfl⟩ : ∃ g, f = g + 1 := ⟨f - 1, by simp at hf; omega⟩
    cases rest with
    | nil => simp [parseAttrs, renderAttrs]
    | cons c r =>
      have : c ≠ ' ' := hrest c r rfl
      simp [parseAttrs, renderAttrs, this]
  | cons kv as ih =>
    obtain ⟨k, v⟩ := kv
    obtain ⟨f, rfl⟩ : ∃ g, f = g + 1 := ⟨f - 1, by simp at hf; omega⟩
    have hk : okName k = true := hn (k, v) (by simp)
    have ih' := ih (fun kv h => hn kv (by simp [h])) f (by simp at hf; omega)
    have e : renderAttrs ((k, v) :: as) ++ rest =
        ' ' :: (k ++ '=' :: '"' :: (escAttr v ++ '"' :: (renderAttrs as ++ rest))) := by
      simp [renderAttrs, List.append_assoc]
    rw [e]
    simp only [parseAttrs, if_true]
    rw [spanW_name k hk '=' (by decide)]
    simp only [hk, if_true, and_self]
    rw [spanW_escAttr, unescStrict_escAttr]
    simp [ih']

theorem length_renderAttrs (as : List (Str × Str)) : as.length ≤ (renderAttrs as).length := by
  induction as with
  | nil => simp
  | cons kv as ih => obtain ⟨k, v⟩ := kv; simp [renderAttrs]; omega

/-- what follows an element name in the writer's output never continues the name -/
theorem renderAttrs_append_head (as : List (Str × Str)) (c : Char) (b : Str) (hc : isNameChar c = false) :
    ∃ c' b', renderAttrs as ++ c :: b = c' :: b' ∧ isNameChar c' = false := by
  cases as with
  | nil => exact ⟨c, b, rfl, hc⟩
  | cons kv as => obtain ⟨k, v⟩ := kv; exact ⟨' ', k ++ '=' :: '"' :: escAttr v ++ '"' :: renderAttrs as ++ c :: b, by simp [renderAttrs], by decide⟩

/-! ### elements -/

/-- the start tag of a childless element -/
theorem parseElem_empty (n : Str) (as : List (Str × Str)) (hn : okName n = true)
    (has : ∀ kv ∈ as, okName kv.1 = true) (rest : Str) (f : Nat) :
    parseElem (f + 1) ('<' :: (n ++ (renderAttrs as ++ '/' :: '>' :: rest))) =
      some (.elem n (as.map fun kv => (kv.1, kv.2.filter legalChar)) [], rest) := by
  obtain ⟨c', b', e1, hc'⟩ := renderAttrs_append_head as '/' ('>' :: rest) (by decide)
  have e2 : (n ++ (renderAttrs as ++ '/' :: '>' :: rest)).spanW isNameChar
      = (n, renderAttrs as ++ '/' :: '>' :: rest) := by
    rw [e1]; exact spanW_name n hn c' hc' b'
  have e3 := parseAttrs_render as has ('/' :: '>' :: rest) (by intro c r h; cases h; decide)
    (n ++ (renderAttrs as ++ '/' :: '>' :: rest)).length
    (by have := length_renderAttrs as; simp; omega)
  simp only [parseElem, if_true]
  rw [e2]
  simp only [hn, if_true]
  rw [e3]
  simp

/-- the start tag of an element with content: the parser goes on with the content and then
checks the end tag -/
theorem parseElem_open (n : Str) (as : List (Str × Str)) (hn : okName n = true)
    (has : ∀ kv ∈ as, okName kv.1 = true) (inner : Str) (f : Nat) :
    parseElem (f + 1) ('<' :: (n ++ (renderAttrs as ++ '>' :: inner))) =
      match parseKids f inner with
      | some q =>
        if (q.2.spanW isNameChar).1 = n then
          match (q.2.spanW isNameChar).2 with
          | [] => none
          | g :: s4 =>
            if g = '>' then some (.elem n (as.map fun kv => (kv.1, kv.2.filter legalChar)) q.1, s4) else none
        else none
      | none => none := by
  obtain ⟨c', b', e1, hc'⟩ := renderAttrs_append_head as '>' inner (by decide)
  have e2 : (n ++ (renderAttrs as ++ '>' :: inner)).spanW isNameChar
      = (n, renderAttrs as ++ '>' :: inner) := by
    rw [e1]; exact spanW_name n hn c' hc' b'
  have e3 := parseAttrs_render as has ('>' :: inner) (by intro c r h; cases h; decide)
    (n ++ (renderAttrs as ++ '>' :: inner)).length
    (by have := length_renderAttrs as; simp; omega)
  simp only [parseElem, if_true]
  rw [e2]
  simp only [hn, if_true]
  rw [e3]
  simp only [if_true]
  cases parseKids f inner <;> rfl

/-! ### element content

Stated for `WNode` (text nodes marked with the call that wrote them, Qx/Xml/Writer.lean); the
statements about `render` are the special case `WNode.plain`. -/

theorem flushText_nil : flushText [] = [] := rfl

/-- the characters of a pending run, as they are read back -/
def plainOf (p : List (Bool × Char)) : Str := (p.map (·.2)).filter legalChar

@[simp] theorem escMarked_nil : escMarked [] = [] := rfl
theorem escMarked_cons (x : Bool × Char) (p : List (Bool × Char)) :
    escMarked (x :: p) = escChar x.1 x.2 ++ escMarked p := by simp [escMarked]
theorem escMarked_append (a b : List (Bool × Char)) : escMarked (a ++ b) = escMarked a ++ escMarked b := by
  simp [escMarked]
theorem plainOf_append (a b : List (Bool × Char)) : plainOf (a ++ b) = plainOf a ++ plainOf b := by
  simp [plainOf]
theorem plainOf_markText (b : Bool) (s : Str) : plainOf (markText b s) = s.filter legalChar := by
  simp [plainOf, markText, Function.comp_def]
theorem plainOf_cons (x : Bool × Char) (p : List (Bool × Char)) :
    plainOf (x :: p) = (if legalChar x.2 then [x.2] else []) ++ plainOf p := by
  simp only [plainOf, List.map_cons]; exact filter_legal_cons _ _

theorem escMarked_markText_false (s : Str) : escMarked (markText false s) = escText s := by
  induction s with
  | nil => rfl
  | cons c s ih =>
    have : markText false (c :: s) = (false, c) :: markText false s := by simp [markText]
    rw [this, escMarked_cons, ih, escText_cons]

theorem escMarked_no_meta (p : List (Bool × Char)) (x : Char) (hx : x = '<' ∨ x = '>' ∨ x = '"') :
    x ∉ escMarked p := by
  intro h
  rcases List.mem_flatMap.mp h with ⟨c, _, hc⟩
  exact escChar_no_meta c.1 c.2 x hx hc

theorem unescGo_escMarked (p : List (Bool × Char)) : unescGo 0 (escMarked p) = plainOf p := by
  induction p with
  | nil => simp [unescGo, plainOf]
  | cons x p ih => rw [escMarked_cons, unescGo_escChar, ih, plainOf_cons]

theorem unescStrict_escMarked (p : List (Bool × Char)) : unescStrict (escMarked p) = some (plainOf p) := by
  show unescStrictGo 0 (escMarked p) = some (plainOf p)
  induction p with
  | nil => simp [unescStrictGo, plainOf]
  | cons x p ih => rw [escMarked_cons, unescStrictGo_escChar x.1 x.2 _ _ ih, plainOf_cons]

/-- what `writeXmlTextElement(w, name, value)` writes is read back like what `writeCharacters` writes -/
theorem unesc_escTextCr (s : Str) : unesc (escTextCr s) = s.filter legalChar := by
  show unescGo 0 (escMarked (markText true s)) = _
  rw [unescGo_escMarked, plainOf_markText]

theorem plainOf_of_escMarked_nil {p : List (Bool × Char)} (h : escMarked p = []) : plainOf p = [] := by
  have := unescGo_escMarked p
  rw [h] at this
  simpa [unescGo] using this.symm

theorem spanW_escMarked (p : List (Bool × Char)) (b : Str) :
    (escMarked p ++ '<' :: b).spanW (fun x => x != '<') = (escMarked p, '<' :: b) := by
  apply span_append_stop
  · intro x hx
    have : x ≠ '<' := fun e => escMarked_no_meta p x (by simp [e]) hx
    simpa using this
  · simp

/-- a non-empty run of character data followed by markup -/
theorem parseKids_text (p : List (Bool × Char)) (hne : escMarked p ≠ []) (tail : Str) (f : Nat) :
    parseKids (f + 1) (escMarked p ++ '<' :: tail) =
      match parseKids f ('<' :: tail) with
      | some q => some (flushText (plainOf p) ++ q.1, q.2)
      | none => none := by
  obtain ⟨c0, r0, he⟩ : ∃ c0 r0, escMarked p = c0 :: r0 := by
    cases h : escMarked p with
    | nil => exact absurd h hne
    | cons c r => exact ⟨c, r, rfl⟩
  have hc0 : c0 ≠ '<' := by
    intro e
    exact escMarked_no_meta p '<' (by simp) (by rw [he, e]; simp)
  have e1 : escMarked p ++ '<' :: tail = c0 :: (r0 ++ '<' :: tail) := by rw [he]; rfl
  have e2 : (c0 :: (r0 ++ '<' :: tail)).spanW (fun x => x != '<') = (escMarked p, '<' :: tail) := by
    rw [← e1]; exact spanW_escMarked p tail
  have e3 : hasCdataEnd (escMarked p) = false :=
    hasCdataEnd_of_no_gt _ (escMarked_no_meta p '>' (by simp))
  rw [e1]
  simp only [parseKids, hc0, if_false]
  rw [e2]
  simp only [e3, unescStrict_escMarked, flushText]
  cases parseKids f ('<' :: tail) <;> simp

theorem parseKids_close (rest : Str) (f : Nat) : parseKids (f + 1) ('<' :: '/' :: rest) = some ([], rest) := by
  simp [parseKids]

theorem parseKids_elem_step (d : Char) (s2 : Str) (hd : d ≠ '/') (f : Nat) :
    parseKids (f + 1) ('<' :: d :: s2) =
      match parseElem f ('<' :: d :: s2) with
      | some r =>
        match parseKids f r.2 with
        | some q => some (r.1 :: q.1, q.2)
        | none => none
      | none => none := by
  simp only [parseKids, hd, if_false]
  simp
  rfl

theorem okName_head {n : Str} (h : okName n = true) : ∃ d r, n = d :: r ∧ d ≠ '/' := by
  cases n with
  | nil => simp [okName] at h
  | cons d r =>
    refine ⟨d, r, rfl, ?_⟩
    rintro rfl
    simp [okName, isNameStart] at h

theorem renderW_elem_nil (n : Str) (as : List (Str × Str)) :
    renderW (.elem n as []) = '<' :: (n ++ (renderAttrs as ++ ['/', '>'])) := by
  simp [renderW]
theorem renderW_elem_cons (n : Str) (as : List (Str × Str)) (k : WNode) (ks : List WNode) :
    renderW (.elem n as (k :: ks)) =
      '<' :: (n ++ (renderAttrs as ++ '>' :: (renderWList (k :: ks) ++ '<' :: '/' :: (n ++ ['>'])))) := by
  simp [renderW, renderWList]
theorem renderWList_cons (k : WNode) (ks : List WNode) : renderWList (k :: ks) = renderW k ++ renderWList ks := rfl
theorem renderW_text (b : Bool) (s : Str) : renderW (.text b s) = escMarked (markText b s) := by simp [renderW]

theorem render_elem_nil (n : Str) (as : List (Str × Str)) :
    render (.elem n as []) = '<' :: (n ++ (renderAttrs as ++ ['/', '>'])) := by
  simp [render]
theorem render_elem_cons (n : Str) (as : List (Str × Str)) (k : Node) (ks : List Node) :
    render (.elem n as (k :: ks)) =
      '<' :: (n ++ (renderAttrs as ++ '>' :: (renderList (k :: ks) ++ '<' :: '/' :: (n ++ ['>'])))) := by
  simp [render, renderList]
theorem renderList_cons (k : Node) (ks : List Node) : renderList (k :: ks) = render k ++ renderList ks := rfl
theorem render_text (s : Str) : render (.text s) = escText s := by simp [render]

theorem view_elem (n : Str) (as : List (Str × Str)) (ks : List Node) :
    view (.elem n as ks) = .elem n (as.map fun kv => (kv.1, kv.2.filter legalChar)) (viewKids [] ks) := by
  simp [view]

theorem erase_elem (n : Str) (as : List (Str × Str)) (ks : List WNode) :
    WNode.erase (.elem n as ks) = .elem n as (WNode.eraseList ks) := by simp [WNode.erase]

theorem namesOK_elem {n : Str} {as : List (Str × Str)} {ks : List Node} (h : namesOK (.elem n as ks) = true) :
    okName n = true ∧ (∀ kv ∈ as, okName kv.1 = true) ∧ namesOKList ks = true := by
  simp only [namesOK, Bool.and_eq_true, List.all_eq_true] at h
  exact ⟨h.1.1, h.1.2, h.2⟩

mutual
  theorem parseElem_renderW (n : Str) (as : List (Str × Str)) (ks : List WNode)
      (h : namesOK (WNode.erase (.elem n as ks)) = true) (rest : Str) (f : Nat)
      (hf : (renderW (.elem n as ks)).length ≤ f) :
      parseElem f (renderW (.elem n as ks) ++ rest) = some (view (WNode.erase (.elem n as ks)), rest) := by
    rw [erase_elem] at h ⊢
    obtain ⟨hn, has, hks⟩ := namesOK_elem h
    cases ks with
    | nil =>
      obtain ⟨f, rfl⟩ : ∃ g, f = g + 1 := ⟨f - 1, by rw [renderW_elem_nil] at hf; simp at hf; omega⟩
      rw [renderW_elem_nil, view_elem]
      have := parseElem_empty n as hn has rest f
      simpa [WNode.eraseList, viewKids, flushText_nil, List.append_assoc] using this
    | cons k ks =>
      rw [renderW_elem_cons] at hf ⊢
      obtain ⟨f, rfl⟩ : ∃ g, f = g + 1 := ⟨f - 1, by simp at hf; omega⟩
      have hk := parseKids_renderW (k :: ks) hks [] (n ++ '>' :: rest) f (by simp at hf ⊢; omega)
      have e : ('<' :: (n ++ (renderAttrs as ++ '>' :: (renderWList (k :: ks) ++ '<' :: '/' :: (n ++ ['>']))))) ++ rest
          = '<' :: (n ++ (renderAttrs as ++ '>' :: (escMarked [] ++ (renderWList (k :: ks) ++ '<' :: '/' :: (n ++ '>' :: rest))))) := by
        simp [List.append_assoc]
      rw [e, parseElem_open n as hn has, hk, view_elem]
      simp [spanW_name n hn '>' (by decide) rest, plainOf]
  termination_by 2 * sizeOf ks + 1
  decreasing_by all_goals (subst_vars; simp_wf)
  theorem parseKids_renderW (ks : List WNode) (h : namesOKList (WNode.eraseList ks) = true)
      (p : List (Bool × Char)) (rest : Str) (f : Nat)
      (hf : (escMarked p).length + (renderWList ks).length + 1 ≤ f) :
      parseKids f (escMarked p ++ (renderWList ks ++ '<' :: '/' :: rest)) =
        some (viewKids (plainOf p) (WNode.eraseList ks), rest) := by
    cases ks with
    | nil =>
      simp only [renderWList, List.nil_append, WNode.eraseList, viewKids]
      obtain ⟨f, rfl⟩ : ∃ g, f = g + 1 := ⟨f - 1, by omega⟩
      by_cases hne : escMarked p = []
      · rw [hne, plainOf_of_escMarked_nil hne]; simp [parseKids_close, flushText_nil]
      · obtain ⟨f, rfl⟩ : ∃ g, f = g + 1 := ⟨f - 1, by
          have : (escMarked p).length ≠ 0 := by simpa using hne
          simp [renderWList] at hf; omega⟩
        rw [parseKids_text p hne, parseKids_close]; simp
    | cons k ks =>
      simp only [WNode.eraseList, namesOKList, Bool.and_eq_true] at h
      cases k with
      | text b s =>
        have e : escMarked p ++ (renderWList (WNode.text b s :: ks) ++ '<' :: '/' :: rest)
            = escMarked (p ++ markText b s) ++ (renderWList ks ++ '<' :: '/' :: rest) := by
          simp [renderWList_cons, renderW_text, escMarked_append, List.append_assoc]
        rw [e]
        have := parseKids_renderW ks h.2 (p ++ markText b s) rest f (by
          simp [renderWList_cons, renderW_text, escMarked_append] at hf ⊢; omega)
        simpa [WNode.eraseList, WNode.erase, viewKids, plainOf_append, plainOf_markText] using this
      | elem n as ks' =>
        have h1' := h.1
        rw [erase_elem] at h1'
        obtain ⟨hn, _, _⟩ := namesOK_elem h1'
        obtain ⟨d, r, rfl, hd⟩ := okName_head hn
        -- the element itself and what follows it
        have hlen : 1 ≤ (renderW (.elem (d :: r) as ks')).length := by
          cases ks' <;> simp [renderW]
        have step : ∀ g, (renderW (.elem (d :: r) as ks')).length + (renderWList ks).length + 1 ≤ g + 1 →
            parseKids (g + 1) (renderW (.elem (d :: r) as ks') ++ (renderWList ks ++ '<' :: '/' :: rest))
              = some (view (WNode.erase (.elem (d :: r) as ks')) :: viewKids [] (WNode.eraseList ks), rest) := by
          intro g hg
          have h1 := parseElem_renderW (d :: r) as ks' h.1 (renderWList ks ++ '<' :: '/' :: rest) g (by omega)
          have h2 := parseKids_renderW ks h.2 [] rest g (by simp; omega)
          obtain ⟨s2, es⟩ : ∃ s2, renderW (.elem (d :: r) as ks') ++ (renderWList ks ++ '<' :: '/' :: rest) = '<' :: d :: s2 := by
            cases ks' <;> simp [renderW]
          rw [es] at h1 ⊢
          rw [parseKids_elem_step d s2 hd, h1]
          simp [plainOf] at h2
          simp [h2]
        obtain ⟨f, rfl⟩ : ∃ g, f = g + 1 := ⟨f - 1, by omega⟩
        have e : escMarked p ++ (renderWList (WNode.elem (d :: r) as ks' :: ks) ++ '<' :: '/' :: rest)
            = escMarked p ++ (renderW (.elem (d :: r) as ks') ++ (renderWList ks ++ '<' :: '/' :: rest)) := by
          simp [renderWList_cons, List.append_assoc]
        rw [e]
        have ev : viewKids (plainOf p) (WNode.eraseList (WNode.elem (d :: r) as ks' :: ks))
            = flushText (plainOf p) ++ view (WNode.erase (.elem (d :: r) as ks')) :: viewKids [] (WNode.eraseList ks) := by
          simp [WNode.eraseList, WNode.erase, viewKids]
        rw [ev]
        by_cases hne : escMarked p = []
        · rw [hne, plainOf_of_escMarked_nil hne, flushText_nil]
          simp only [List.nil_append]
          exact step f (by simp [hne, renderWList_cons] at hf; omega)
        · obtain ⟨f, rfl⟩ : ∃ g, f = g + 1 := ⟨f - 1, by
            have : (escMarked p).length ≠ 0 := by simpa using hne
            omega⟩
          obtain ⟨s2, es⟩ : ∃ s2, renderW (.elem (d :: r) as ks') ++ (renderWList ks ++ '<' :: '/' :: rest) = '<' :: s2 := by
            cases ks' <;> simp [renderW]
          have hs := step f (by
            have : (escMarked p).length ≠ 0 := by simpa using hne
            simp [renderWList_cons] at hf; omega)
          rw [es] at hs ⊢
          rw [parseKids_text p hne, hs]
  termination_by 2 * sizeOf ks
  decreasing_by all_goals (subst_vars; simp_wf; try omega)
end

/-- character level, whole document, either way of writing text: the parser reads back what the writer wrote -/
theorem parse_renderW_view (n : Str) (as : List (Str × Str)) (ks : List WNode)
    (h : namesOK (WNode.erase (.elem n as ks)) = true) :
    parse (renderW (.elem n as ks)) = some (view (WNode.erase (.elem n as ks))) := by
  have := parseElem_renderW n as ks h [] ((renderW (.elem n as ks)).length + 1) (by omega)
  rw [List.append_nil] at this
  simp [parse, this]

mutual
  theorem renderW_plain (t : Node) : renderW (WNode.plain t) = render t := by
    cases t with
    | text s => simp [WNode.plain, renderW, render, escMarked_markText_false]
    | elem n as ks =>
      cases ks with
      | nil => simp [WNode.plain, WNode.plainList, renderW, render]
      | cons k ks =>
        have h1 := renderW_plain k
        have h2 := renderWList_plain ks
        simp [WNode.plain, WNode.plainList, renderW, render, h1, h2]
  theorem renderWList_plain (ks : List Node) : renderWList (WNode.plainList ks) = renderList ks := by
    cases ks with
    | nil => rfl
    | cons k ks => simp [WNode.plainList, renderWList, renderList, renderW_plain k, renderWList_plain ks]
end

mutual
  theorem erase_plain (t : Node) : (WNode.plain t).erase = t := by
    cases t with
    | text s => simp [WNode.plain, WNode.erase]
    | elem n as ks => simp [WNode.plain, WNode.erase, eraseList_plainList ks]
  theorem eraseList_plainList (ks : List Node) : WNode.eraseList (WNode.plainList ks) = ks := by
    cases ks with
    | nil => rfl
    | cons k ks => simp [WNode.plainList, WNode.eraseList, erase_plain k, eraseList_plainList ks]
end

/-- character level, whole document: the parser reads back what the writer wrote -/
theorem parse_render_view (n : Str) (as : List (Str × Str)) (ks : List Node)
    (h : namesOK (.elem n as ks) = true) :
    parse (render (.elem n as ks)) = some (view (.elem n as ks)) := by
  have e1 := renderW_plain (.elem n as ks)
  have e2 := erase_plain (.elem n as ks)
  simp only [WNode.plain] at e1 e2
  have := parse_renderW_view n as (WNode.plainList ks) (by rw [e2]; exact h)
  rw [e1, e2] at this
  exact this

/-! ### `view` on well-formed trees, and what it never touches -/

mutual
  theorem namesOK_of_wellFormed (t : Node) (h : wellFormed t = true) : namesOK t = true := by
    cases t with
    | text s => rfl
    | elem n as ks =>
      simp only [wellFormed, Bool.and_eq_true, List.all_eq_true] at h
      simp only [namesOK, Bool.and_eq_true, List.all_eq_true]
      exact ⟨⟨h.1.1.1, fun kv hkv => (h.1.1.2 kv hkv).1⟩, namesOKList_of_wellFormedList ks h.1.2⟩
  theorem namesOKList_of_wellFormedList (ks : List Node) (h : wellFormedList ks = true) :
      namesOKList ks = true := by
    cases ks with
    | nil => rfl
    | cons k ks =>
      simp only [wellFormedList, Bool.and_eq_true] at h
      simp only [namesOKList, Bool.and_eq_true]
      exact ⟨namesOK_of_wellFormed k h.1, namesOKList_of_wellFormedList ks h.2⟩
end

mutual
  theorem view_of_wellFormed (t : Node) (h : wellFormed t = true) : view t = t := by
    cases t with
    | text s =>
      simp only [wellFormed, Bool.and_eq_true, List.all_eq_true] at h
      simp [view, filter_legal_of_all h.1]
    | elem n as ks =>
      simp only [wellFormed, Bool.and_eq_true, List.all_eq_true] at h
      have e1 : as.map (fun kv => (kv.1, kv.2.filter legalChar)) = as := by
        conv => rhs; rw [← List.map_id as]
        apply List.map_congr_left
        intro kv hkv
        have := (h.1.1.2 kv hkv).2
        simp [filter_legal_of_all this]
      rw [view_elem, e1, viewKids_of_wellFormed ks h.1.2 h.2]
  theorem viewKids_of_wellFormed (ks : List Node) (h : wellFormedList ks = true)
      (h2 : noAdjText ks = true) : viewKids [] ks = ks := by
    cases ks with
    | nil => rfl
    | cons k ks =>
      simp only [wellFormedList, Bool.and_eq_true] at h
      simp only [noAdjText, Bool.and_eq_true] at h2
      cases k with
      | elem n as ks' =>
        simp only [viewKids, flushText_nil, List.nil_append]
        rw [view_of_wellFormed _ h.1, viewKids_of_wellFormed ks h.2 h2.2]
      | text s =>
        have hs := h.1
        simp only [wellFormed, Bool.and_eq_true, List.all_eq_true, Bool.not_eq_true'] at hs
        simp only [viewKids, List.nil_append, filter_legal_of_all hs.1]
        cases ks with
        | nil => simp [viewKids, flushText, hs.2]
        | cons k2 ks2 =>
          cases k2 with
          | text s2 => simp [Node.isText, headIsText] at h2
          | elem n as ks' =>
            simp only [wellFormedList, Bool.and_eq_true] at h
            simp only [noAdjText, Bool.and_eq_true] at h2
            simp only [viewKids, flushText, hs.2]
            rw [view_of_wellFormed _ h.2.1, viewKids_of_wellFormed ks2 h.2.2 h2.2.2]
            simp
end

theorem skeletonList_flushText (p : Str) : skeletonList (flushText p) = [] := by
  unfold flushText; split <;> simp [skeletonList]

theorem skeletonList_append (a b : List Node) : skeletonList (a ++ b) = skeletonList a ++ skeletonList b := by
  induction a with
  | nil => rfl
  | cons k a ih => cases k <;> simp [skeletonList, ih]

mutual
  /-- the element structure is the same before and after the write/read cycle, whatever the payloads -/
  theorem skeleton_view (t : Node) : skeleton (view t) = skeleton t := by
    cases t with
    | text s => simp [view, skeleton]
    | elem n as ks =>
      rw [view_elem]
      simp only [skeleton, List.map_map]
      rw [skeletonList_viewKids [] ks]
      rfl
  theorem skeletonList_viewKids (p : Str) (ks : List Node) :
      skeletonList (viewKids p ks) = skeletonList ks := by
    cases ks with
    | nil => simp [viewKids, skeletonList_flushText, skeletonList]
    | cons k ks =>
      cases k with
      | text s => simp only [viewKids, skeletonList]; exact skeletonList_viewKids _ ks
      | elem n as ks' =>
        simp only [viewKids, skeletonList_append, skeletonList_flushText, List.nil_append]
        rw [view_elem]
        simp only [skeletonList]
        rw [← view_elem, skeleton_view, skeletonList_viewKids [] ks]
end

/-! ### a reader with line-end normalisation (XML 1.0 §2.11) -/

theorem normEolGo_of_no_cr (l : Str) (h : '\r' ∉ l) : normEolGo false l = l := by
  induction l with
  | nil => rfl
  | cons c r ih =>
    have hc : c ≠ '\r' := fun e => h (by simp [e])
    have hr : '\r' ∉ r := fun m => h (by simp [m])
    simp [normEolGo, hc, ih hr]

theorem cr_mem_escChar {a : Bool} {c : Char} (h : '\r' ∈ escChar a c) : a = false ∧ c = '\r' := by
  rcases escChar_cases a c with ⟨rfl, e⟩ | ⟨rfl, e⟩ | ⟨rfl, e⟩ | ⟨rfl, e⟩ | ⟨rfl, _, e⟩ | ⟨rfl, _, e⟩ | ⟨rfl, ha, e⟩ | ⟨hl, _, _, _, _, e⟩ | ⟨hl, e⟩
  all_goals rw [e] at h
  all_goals first | (exfalso; revert h; decide) | skip
  · simp at h
    subst h
    cases a with
    | false => exact ⟨rfl, rfl⟩
    | true => exfalso; simp [escChar] at e

theorem no_cr_escAttr (v : Str) : '\r' ∉ escAttr v := by
  intro h
  rcases List.mem_flatMap.mp h with ⟨c, _, hc⟩
  exact absurd (cr_mem_escChar hc).1 (by simp)

theorem no_cr_escMarked_markText (b : Bool) (s : Str) (h : (b || !s.contains '\r') = true) :
    '\r' ∉ escMarked (markText b s) := by
  intro hm
  rcases List.mem_flatMap.mp hm with ⟨x, hx, hc⟩
  obtain ⟨h1, h2⟩ := cr_mem_escChar hc
  simp only [markText, List.mem_map] at hx
  obtain ⟨c, hcs, rfl⟩ := hx
  simp only at h1 h2
  subst h2
  cases b with
  | true => simp at h1
  | false =>
    simp at h
    exact h hcs

theorem no_cr_name {n : Str} (h : okName n = true) : '\r' ∉ n := by
  intro hm
  have := okName_all h _ hm
  revert this; decide

theorem no_cr_renderAttrs (as : List (Str × Str)) (h : ∀ kv ∈ as, okName kv.1 = true) : '\r' ∉ renderAttrs as := by
  induction as with
  | nil => simp [renderAttrs]
  | cons kv as ih =>
    obtain ⟨k, v⟩ := kv
    have hk := no_cr_name (h (k, v) (by simp))
    have hv := no_cr_escAttr v
    have ih' := ih (fun kv hkv => h kv (by simp [hkv]))
    simp [renderAttrs, hk, hv, ih']

mutual
  theorem no_cr_renderW (w : WNode) (hn : namesOK w.erase = true) (hc : crSafe w = true) : '\r' ∉ renderW w := by
    cases w with
    | text b s => rw [renderW_text]; exact no_cr_escMarked_markText b s (by simpa [crSafe] using hc)
    | elem n as ks =>
      rw [erase_elem] at hn
      obtain ⟨h1, h2, h3⟩ := namesOK_elem hn
      have a1 := no_cr_name h1
      have a2 := no_cr_renderAttrs as h2
      cases ks with
      | nil => simp [renderW, a1, a2]
      | cons k ks =>
        have a3 := no_cr_renderWList (k :: ks) h3 (by simpa [crSafe] using hc)
        rw [renderW_elem_cons]
        simp [a1, a2, a3]
  theorem no_cr_renderWList (ks : List WNode) (hn : namesOKList (WNode.eraseList ks) = true)
      (hc : crSafeList ks = true) : '\r' ∉ renderWList ks := by
    cases ks with
    | nil => simp [renderWList]
    | cons k ks =>
      simp only [WNode.eraseList, namesOKList, Bool.and_eq_true] at hn
      simp only [crSafeList, Bool.and_eq_true] at hc
      have a1 := no_cr_renderW k hn.1 hc.1
      have a2 := no_cr_renderWList ks hn.2 hc.2
      simp [renderWList, a1, a2]
end

theorem parseStd_renderW_view (n : Str) (as : List (Str × Str)) (ks : List WNode)
    (h : namesOK (WNode.erase (.elem n as ks)) = true) (hc : crSafe (.elem n as ks) = true) :
    parseStd (renderW (.elem n as ks)) = some (view (WNode.erase (.elem n as ks))) := by
  unfold parseStd normEol
  rw [normEolGo_of_no_cr _ (no_cr_renderW _ h hc)]
  exact parse_renderW_view n as ks h
/-! ### for composition with the codec tier -/

theorem wellFormed_text (s : Str) : wellFormed (.text s) = xmlSafeText s := by
  simp [wellFormed, xmlSafeText]

theorem wellFormed_elem (n : Str) (as : List (Str × Str)) (ks : List Node) :
    wellFormed (.elem n as ks) =
      (okName n && as.all (fun kv => okName kv.1 && xmlSafeAttr kv.2) && wellFormedList ks && noAdjText ks) := by
  simp [wellFormed, xmlSafeAttr]

/-- character level: every `XmlSafe` tree whose root is an element is read back exactly -/
theorem parse_render_xmlSafe (t : Node) (he : t.isElem = true) (h : XmlSafe t) : parse (render t) = some t := by
  cases t with
  | text s => simp [Node.isElem] at he
  | elem n as ks => rw [parse_render_view n as ks (namesOK_of_wellFormed _ h), view_of_wellFormed _ h]

/-- without any condition on the strings: what comes back is `view t` -/
theorem parse_render_any (t : Node) (he : t.isElem = true) (h : NamesOK t) : parse (render t) = some (view t) := by
  cases t with
  | text s => simp [Node.isElem] at he
  | elem n as ks => exact parse_render_view n as ks h

/-! ### `view` in terms of the shared `normalize` (Qx/Xml/Canon.lean) -/

theorem mergeText_text (a : Str) (L : List Node) :
    mergeText (.text a :: L) =
      match mergeText L with
      | .text b :: r => .text (a ++ b) :: r
      | r => if a.isEmpty then r else .text a :: r := by
  rw [mergeText]
  rfl

theorem mergeText_elem (n : Str) (as : List (Str × Str)) (ks : List Node) (L : List Node) :
    mergeText (.elem n as ks :: L) = .elem n as ks :: mergeText L := by
  simp [mergeText]

theorem mergeText_text_nil (L : List Node) : mergeText (.text [] :: L) = mergeText L := by
  rw [mergeText_text]
  split <;> simp_all

theorem mergeText_text_text (a b : Str) (L : List Node) :
    mergeText (.text a :: .text b :: L) = mergeText (.text (a ++ b) :: L) := by
  rw [mergeText_text a, mergeText_text b, mergeText_text (a ++ b)]
  cases h : mergeText L with
  | nil => by_cases hb : b = [] <;> by_cases ha : a = [] <;> simp [ha, hb]
  | cons x r =>
    cases x with
    | text c => simp [List.append_assoc]
    | elem n as ks => by_cases hb : b = [] <;> by_cases ha : a = [] <;> simp [ha, hb]

theorem dropBlankList_append (a b : List Node) : dropBlankList (a ++ b) = dropBlankList a ++ dropBlankList b := by
  induction a with
  | nil => rfl
  | cons k a ih =>
    cases k with
    | text s => simp only [List.cons_append, dropBlankList, ih]; split <;> simp
    | elem n as ks => simp [dropBlankList, ih]

theorem dropBlankList_pending (p : Str) (X : List Node) :
    dropBlankList ((if p.isEmpty then [] else [Node.text p]) ++ X) = flushText p ++ dropBlankList X := by
  by_cases hp : p = []
  · subst hp; simp [flushText, blank]
  · have : p.isEmpty = false := by cases p <;> simp_all
    simp only [this, Bool.false_eq_true, if_false, List.cons_append, List.nil_append, dropBlankList, flushText]
    split <;> simp

mutual
  theorem view_eq (t : Node) : view t = dropBlank (normalize (legalize t)) := by
    cases t with
    | text s => simp [view, legalize, normalize, dropBlank]
    | elem n as ks =>
      rw [view_elem, legalize, normalize, dropBlank, viewKids_eq [] ks, mergeText_text_nil]
  theorem viewKids_eq (p : Str) (ks : List Node) :
      viewKids p ks = dropBlankList (mergeText (.text p :: normalizeList (legalizeList ks))) := by
    cases ks with
    | nil =>
      simp only [viewKids, legalizeList, normalizeList, mergeText]
      have := dropBlankList_pending p []
      simpa [dropBlankList] using this.symm
    | cons k ks =>
      cases k with
      | text s =>
        simp only [viewKids, legalizeList, legalize, normalizeList, normalize]
        rw [mergeText_text_text, viewKids_eq (p ++ s.filter legalChar) ks]
      | elem n as ks' =>
        simp only [viewKids]
        rw [view_eq (.elem n as ks'), viewKids_eq [] ks, mergeText_text_nil]
        simp only [legalizeList, normalizeList]
        rw [mergeText_text]
        have e : ∃ n' as' ks'', normalize (legalize (.elem n as ks')) = .elem n' as' ks'' := by
          simp [legalize, normalize]
        obtain ⟨n', as', ks'', he⟩ := e
        rw [he, mergeText_elem]
        have := dropBlankList_pending p (.elem n' as' ks'' :: mergeText (normalizeList (legalizeList ks)))
        simp only [dropBlankList] at this
        rw [← this]
        by_cases hp : p.isEmpty = true <;> simp [hp]
end
/-! ### decidable equality of trees (for `decide`-checked examples) -/

mutual
  def Node.decEq : (a b : Node) → Decidable (a = b)
    | .text s, .text s' =>
      if h : s = s' then isTrue (by rw [h]) else isFalse (by intro e; cases e; exact h rfl)
    | .text _, .elem .. => isFalse (by intro e; cases e)
    | .elem .., .text _ => isFalse (by intro e; cases e)
    | .elem n as ks, .elem n' as' ks' =>
      if h1 : n = n' then
        if h2 : as = as' then
          match Node.decEqList ks ks' with
          | isTrue h3 => isTrue (by rw [h1, h2, h3])
          | isFalse h3 => isFalse (by intro e; cases e; exact h3 rfl)
        else isFalse (by intro e; cases e; exact h2 rfl)
      else isFalse (by intro e; cases e; exact h1 rfl)
  def Node.decEqList : (a b : List Node) → Decidable (a = b)
    | [], [] => isTrue rfl
    | [], _ :: _ => isFalse (by intro e; cases e)
    | _ :: _, [] => isFalse (by intro e; cases e)
    | a :: as, b :: bs =>
      match Node.decEq a b, Node.decEqList as bs with
      | isTrue h1, isTrue h2 => isTrue (by rw [h1, h2])
      | isFalse h1, _ => isFalse (by intro e; cases e; exact h1 rfl)
      | _, isFalse h2 => isFalse (by intro e; cases e; exact h2 rfl)
end

instance : DecidableEq Node := Node.decEq
end Qx.Xml
