/-
Helper lemmas for the typed scalar codecs (C01 tier B): Qx/Xml/Codec/Scalar.lean.
Property theorems are in Qx/Props/C01Scalar.lean.
-/
import Qx.Xml.Codec.Scalar

namespace Qx.Xml.Codec.Scalar
open Qx.Xml (Str)
open Qx (Bytes)

/-! ### digits -/

theorem digitChar_facts : ∀ d, d < 10 →
    (isDigit (digitChar d) = true ∧ digitVal (digitChar d) = d ∧ isSpace (digitChar d) = false ∧
     isMinus (digitChar d) = false ∧ digitChar d ≠ '+' ∧ (digitChar d).toNat < 0x10000 ∧
     isFracSep (digitChar d) = false ∧ digitChar d ≠ ':' ∧ isSignChar (digitChar d) = false) := by
  decide

theorem isDigit_digitChar {d : Nat} (h : d < 10) : isDigit (digitChar d) = true := (digitChar_facts d h).1
theorem digitVal_digitChar {d : Nat} (h : d < 10) : digitVal (digitChar d) = d := (digitChar_facts d h).2.1
theorem isSpace_digitChar {d : Nat} (h : d < 10) : isSpace (digitChar d) = false := (digitChar_facts d h).2.2.1

theorem isDigit_not_space {c : Char} (h : isDigit c = true) : isSpace c = false := by
  simp only [isDigit, Bool.and_eq_true, decide_eq_true_eq] at h
  simp only [isSpace, Bool.or_eq_false_iff, Bool.and_eq_false_iff, decide_eq_false_iff_not]
  omega

theorem isDigit_not_minus {c : Char} (h : isDigit c = true) : isMinus c = false := by
  simp only [isDigit, Bool.and_eq_true, decide_eq_true_eq] at h
  simp only [isMinus, Bool.or_eq_false_iff, decide_eq_false_iff_not]
  omega

theorem isDigit_ne_plus {c : Char} (h : isDigit c = true) : c ≠ '+' := by
  intro e; subst e; revert h; decide

theorem natToStr_ne_nil (n : Nat) : natToStr n ≠ [] := by
  rw [natToStr]; split <;> simp

theorem natToStr_digits (n : Nat) : ∀ c ∈ natToStr n, isDigit c = true := by
  induction n using Nat.strongRecOn with
  | _ n ih =>
    rw [natToStr]
    split
    · rename_i h; intro c hc; simp only [List.mem_singleton] at hc; subst hc; exact isDigit_digitChar h
    · rename_i h
      intro c hc
      simp only [List.mem_append, List.mem_singleton] at hc
      rcases hc with hc | hc
      · exact ih (n / 10) (by omega) c hc
      · subst hc; exact isDigit_digitChar (by omega)

theorem digitsVal_append (xs ys : Str) (acc : Nat) :
    digitsVal (xs ++ ys) acc = (digitsVal xs acc).bind fun a => digitsVal ys a := by
  induction xs generalizing acc with
  | nil => simp [digitsVal]
  | cons c cs ih =>
    simp only [List.cons_append, digitsVal]
    split
    · exact ih _
    · simp

theorem digitsVal_natToStr (n : Nat) : digitsVal (natToStr n) 0 = some n := by
  induction n using Nat.strongRecOn with
  | _ n ih =>
    rw [natToStr]
    split
    · rename_i h; simp [digitsVal, isDigit_digitChar h, digitVal_digitChar h]
    · rename_i h
      have hd : n % 10 < 10 := by omega
      rw [digitsVal_append, ih (n / 10) (by omega)]
      simp only [Option.bind_some, digitsVal, isDigit_digitChar hd, digitVal_digitChar hd, if_true]
      congr 1; omega

/-! ### trimming -/

theorem dropWhile_self_of_all_false {p : Char → Bool} : ∀ {s : Str}, (∀ c ∈ s, p c = false) → s.dropWhile p = s
  | [], _ => rfl
  | c :: cs, h => by
    have : p c = false := h c (by simp)
    simp [List.dropWhile, this]

theorem trim_of_no_space {s : Str} (h : ∀ c ∈ s, isSpace c = false) : trim s = s := by
  unfold trim trimEnd trimStart
  rw [dropWhile_self_of_all_false h, dropWhile_self_of_all_false (by simpa using h)]
  simp

/-! ### sign and magnitude -/

theorem signMag_digits {s : Str} (hne : s ≠ []) (hd : ∀ c ∈ s, isDigit c = true) :
    signMag s = (digitsVal s 0).map fun m => (false, m) := by
  cases s with
  | nil => exact absurd rfl hne
  | cons c cs =>
    have hc := hd c (by simp)
    simp [signMag, isDigit_not_minus hc, isDigit_ne_plus hc]

theorem intToStr_no_space (v : Int) : ∀ c ∈ intToStr v, isSpace c = false := by
  cases v with
  | ofNat n => intro c hc; exact isDigit_not_space (natToStr_digits n c hc)
  | negSucc n =>
    intro c hc
    simp only [intToStr, List.mem_cons] at hc
    rcases hc with hc | hc
    · subst hc; decide
    · exact isDigit_not_space (natToStr_digits _ c hc)

theorem signMag_intToStr (v : Int) : signMag (intToStr v) = some (decide (v < 0), v.natAbs) := by
  cases v with
  | ofNat n =>
    simp only [intToStr]
    rw [signMag_digits (natToStr_ne_nil n) (natToStr_digits n), digitsVal_natToStr]
    simp
  | negSucc n =>
    have hne : (natToStr (n + 1)).isEmpty = false := by
      cases h : natToStr (n + 1) with
      | nil => exact absurd h (natToStr_ne_nil _)
      | cons _ _ => rfl
    simp only [intToStr, signMag]
    rw [if_pos (by decide), hne, digitsVal_natToStr]
    simp

/-! ### parseInt -/

theorem sign_natAbs (v : Int) : (if decide (v < 0) = true then -(v.natAbs : Int) else (v.natAbs : Int)) = v := by
  split
  · rename_i h; simp only [decide_eq_true_eq] at h; omega
  · rename_i h; simp only [decide_eq_true_eq] at h; omega

/-- what `parseInt<T>` does with the canonical decimal form of `v` -/
theorem parseIntCode_intToStr (bits : Nat) (signed : Bool) (v : Int) :
    parseIntCode bits signed (intToStr v) =
      if (!signed && decide (v < 0)) = true then none
      else if inRange 64 signed v then
        (if inRange (nativeBits bits) signed v then (if inRange bits signed v then some v else none) else none)
      else none := by
  unfold parseIntCode
  rw [trim_of_no_space (intToStr_no_space v), signMag_intToStr]
  simp only [sign_natAbs]

theorem inRange_mono {bits : Nat} {signed : Bool} {v : Int}
    (hb : bits = 8 ∨ bits = 16 ∨ bits = 32 ∨ bits = 64) (h : inRange bits signed v) :
    inRange (nativeBits bits) signed v ∧ inRange 64 signed v := by
  rcases hb with hb | hb | hb | hb <;> subst hb <;> cases signed <;>
    simp [inRange, nativeBits] at h ⊢ <;> omega

theorem parseSpec_intToStr (bits : Nat) (signed : Bool) (v : Int) :
    parseIntSpec bits signed (intToStr v) =
      if (!signed && decide (v < 0)) = true then none
      else if inRange bits signed v then some v else none := by
  cases v with
  | ofNat n =>
    have hne := natToStr_ne_nil n
    have hd := natToStr_digits n
    cases hs : natToStr n with
    | nil => exact absurd hs hne
    | cons c cs =>
      have hc : isDigit c = true := hd c (by simp [hs])
      have hm : c ≠ '-' := by intro e; subst e; revert hc; decide
      have hv := digitsVal_natToStr n
      rw [hs] at hv
      simp only [intToStr, hs, parseIntSpec, hm, if_false, hv]
      have hnn : ¬ ((n : Int) < 0) := by omega
      simp only [Int.ofNat_eq_natCast, hnn, decide_false, Bool.and_false, Bool.false_eq_true, if_false]
  | negSucc n =>
    have hne : (natToStr (n + 1)).isEmpty = false := by
      cases h : natToStr (n + 1) with
      | nil => exact absurd h (natToStr_ne_nil _)
      | cons _ _ => rfl
    have hneg : Int.negSucc n < 0 := Int.negSucc_lt_zero n
    have hval : -((n + 1 : Nat) : Int) = Int.negSucc n := by omega
    simp only [intToStr, parseIntSpec, if_true, hne, digitsVal_natToStr, hval]
    cases signed <;> simp [hneg]

theorem digitsVal_some_digits : ∀ {s : Str} {acc m : Nat}, digitsVal s acc = some m → ∀ c ∈ s, isDigit c = true
  | [], _, _, _ => by simp
  | c :: cs, acc, m, h => by
    simp only [digitsVal] at h
    split at h
    · rename_i hc
      intro x hx
      simp only [List.mem_cons] at hx
      rcases hx with hx | hx
      · subst hx; exact hc
      · exact digitsVal_some_digits h x hx
    · exact absurd h (by simp)

/-- every string of the strict lexical form is accepted by today's `parseInt<T>`, with the same value -/
theorem parseIntCode_of_spec {bits : Nat} {signed : Bool} {s : Str} {v : Int}
    (hb : bits = 8 ∨ bits = 16 ∨ bits = 32 ∨ bits = 64) (h : parseIntSpec bits signed s = some v) :
    parseIntCode bits signed s = some v := by
  cases s with
  | nil => simp [parseIntSpec] at h
  | cons c cs =>
    simp only [parseIntSpec] at h
    split at h
    · rename_i hc
      subst hc
      split at h
      · rename_i hsg
        simp only [Bool.and_eq_true, Bool.not_eq_true', List.isEmpty_eq_false_iff] at hsg
        obtain ⟨hs, hne⟩ := hsg
        subst hs
        cases hdv : digitsVal cs 0 with
        | none => simp [hdv] at h
        | some m =>
          simp only [hdv] at h
          split at h
          · rename_i hr
            simp only [Option.some.injEq] at h
            subst h
            have hd := digitsVal_some_digits hdv
            have hns : ∀ x ∈ ('-' :: cs), isSpace x = false := by
              intro x hx
              simp only [List.mem_cons] at hx
              rcases hx with hx | hx
              · subst hx; decide
              · exact isDigit_not_space (hd x hx)
            have hm := inRange_mono hb hr
            have hce : cs.isEmpty = false := by cases cs <;> simp_all
            unfold parseIntCode
            rw [trim_of_no_space hns]
            simp only [signMag, show isMinus '-' = true by decide, if_true, hce, Bool.false_eq_true, if_false, hdv,
              Option.map_some, Bool.not_true, Bool.false_and, if_true, hm.1, hm.2, hr]
          · exact absurd h (by simp)
      · exact absurd h (by simp)
    · rename_i hc
      cases hdv : digitsVal (c :: cs) 0 with
      | none => simp [hdv] at h
      | some m =>
        simp only [hdv] at h
        split at h
        · rename_i hr
          simp only [Option.some.injEq] at h
          subst h
          have hd := digitsVal_some_digits hdv
          have hm := inRange_mono hb hr
          unfold parseIntCode
          rw [trim_of_no_space (fun x hx => isDigit_not_space (hd x hx)), signMag_digits (by simp) hd, hdv]
          simp only [Option.map_some, Bool.and_false, Bool.false_eq_true, if_false, hm.1, hm.2, hr, if_true]
        · exact absurd h (by simp)

/-! ### Base64 -/

theorem b64val_b64char : ∀ n, n < 64 → b64val (b64char n) = some n := by decide

theorem b64go_char {n : Nat} (h : n < 64) (cs : Str) (buf nbits : Nat) :
    b64go (b64char n :: cs) buf nbits =
      if nbits + 6 ≥ 8 then
        UInt8.ofNat ((buf * 64 + n) / 2 ^ (nbits + 6 - 8)) ::
          b64go cs ((buf * 64 + n) % 2 ^ (nbits + 6 - 8)) (nbits + 6 - 8)
      else b64go cs (buf * 64 + n) (nbits + 6) := by
  simp only [b64go, b64val_b64char n h]

theorem b64go_pad (cs : Str) (buf nbits : Nat) : b64go ('=' :: cs) buf nbits = b64go cs buf nbits := by
  have : b64val '=' = none := by decide
  simp only [b64go, this]

/-- four alphabet characters starting from the empty state give three bytes and the empty state -/
theorem b64go_quad {x1 x2 x3 x4 : Nat} (h1 : x1 < 64) (h2 : x2 < 64) (h3 : x3 < 64) (h4 : x4 < 64) (cs : Str) :
    b64go (b64char x1 :: b64char x2 :: b64char x3 :: b64char x4 :: cs) 0 0 =
      UInt8.ofNat ((x1 * 64 + x2) / 16) :: UInt8.ofNat (((x1 * 64 + x2) % 16 * 64 + x3) / 4) ::
        UInt8.ofNat (((x1 * 64 + x2) % 16 * 64 + x3) % 4 * 64 + x4) :: b64go cs 0 0 := by
  rw [b64go_char h1, if_neg (by omega), b64go_char h2, if_pos (by omega), b64go_char h3, if_pos (by omega),
    b64go_char h4, if_pos (by omega)]
  simp [Nat.mod_one]

theorem ofNat_eq_of_toNat {a : UInt8} {n : Nat} (h : n = a.toNat) : UInt8.ofNat n = a := by
  subst h; exact UInt8.ofNat_toNat

theorem b64go_encode (bs : Bytes) : b64go (b64encode bs) 0 0 = bs := by
  fun_induction b64encode bs with
  | case1 => simp [b64go]
  | case2 a =>
    have ha := a.toNat_lt
    rw [b64go_char (by omega), if_neg (by omega), b64go_char (by omega), if_pos (by omega), b64go_pad, b64go_pad]
    simp only [b64go]
    congr 1
    apply ofNat_eq_of_toNat
    simp; omega
  | case3 a b =>
    have ha := a.toNat_lt
    have hb := b.toNat_lt
    rw [b64go_char (by omega), if_neg (by omega), b64go_char (by omega), if_pos (by omega),
      b64go_char (by omega), if_pos (by omega), b64go_pad]
    simp only [b64go]
    congr 1
    · apply ofNat_eq_of_toNat; simp; omega
    · congr 1; apply ofNat_eq_of_toNat; simp; omega
  | case4 a b c rest ih =>
    have ha := a.toNat_lt
    have hb := b.toNat_lt
    have hc := c.toNat_lt
    rw [b64go_quad (by omega) (by omega) (by omega) (by omega), ih]
    congr 1
    · apply ofNat_eq_of_toNat; omega
    · congr 1
      · apply ofNat_eq_of_toNat; omega
      · congr 1; apply ofNat_eq_of_toNat; omega

theorem b64spec_encode (bs : Bytes) : b64decodeSpec (b64encode bs) = some bs := by
  fun_induction b64encode bs with
  | case1 => simp [b64decodeSpec]
  | case2 a =>
    have ha := a.toNat_lt
    simp only [b64decodeSpec, b64val_b64char _ (show a.toNat / 4 < 64 by omega),
      b64val_b64char _ (show a.toNat % 4 * 16 < 64 by omega)]
    rw [if_pos (by omega)]
    congr 2
    apply ofNat_eq_of_toNat; omega
  | case3 a b =>
    have ha := a.toNat_lt
    have hb := b.toNat_lt
    have e3 : b64char (b.toNat % 16 * 4) ≠ '=' := by
      have : ∀ n, n < 64 → b64char n ≠ '=' := by decide
      exact this _ (by omega)
    simp only [b64decodeSpec, b64val_b64char _ (show a.toNat / 4 < 64 by omega),
      b64val_b64char _ (show a.toNat % 4 * 16 + b.toNat / 16 < 64 by omega),
      b64val_b64char _ (show b.toNat % 16 * 4 < 64 by omega)]
    rw [if_pos (by omega)]
    congr 2
    · apply ofNat_eq_of_toNat; omega
    · congr 1; apply ofNat_eq_of_toNat; omega
  | case4 a b c rest ih =>
    have ha := a.toNat_lt
    have hb := b.toNat_lt
    have hc := c.toNat_lt
    have hne : ∀ n, n < 64 → b64char n ≠ '=' := by decide
    have e3 := hne (b.toNat % 16 * 4 + c.toNat / 64) (by omega)
    have e4 := hne (c.toNat % 64) (by omega)
    have v1 := b64val_b64char _ (show a.toNat / 4 < 64 by omega)
    have v2 := b64val_b64char _ (show a.toNat % 4 * 16 + b.toNat / 16 < 64 by omega)
    have v3 := b64val_b64char _ (show b.toNat % 16 * 4 + c.toNat / 64 < 64 by omega)
    have v4 := b64val_b64char _ (show c.toNat % 64 < 64 by omega)
    unfold b64decodeSpec
    split
    · rename_i h; simp at h
    · rename_i h; simp only [List.cons.injEq] at h; exact absurd h.2.2.1 e3
    · rename_i h; simp only [List.cons.injEq] at h; exact absurd h.2.2.2.1 e4
    · rename_i h
      simp only [List.cons.injEq] at h
      obtain ⟨h1, h2, h3, h4, h5⟩ := h
      subst h1 h2 h3 h4 h5
      simp only [v1, v2, v3, v4, ih]
      congr 2
      · apply ofNat_eq_of_toNat; omega
      · congr 1
        · apply ofNat_eq_of_toNat; omega
        · congr 1; apply ofNat_eq_of_toNat; omega
    · rename_i h1 h2 h3 h4 h5
      exact (h5 _ _ _ _ _ rfl).elim

theorem b64val_lt {c : Char} {v : Nat} (h : b64val c = some v) : v < 64 := by
  unfold b64val at h
  split at h
  · rename_i hc; simp only [Bool.and_eq_true, decide_eq_true_eq] at hc; simp only [Option.some.injEq] at h; omega
  · split at h
    · rename_i hc; simp only [Bool.and_eq_true, decide_eq_true_eq] at hc; simp only [Option.some.injEq] at h; omega
    · split at h
      · rename_i hc; simp only [Bool.and_eq_true, decide_eq_true_eq] at hc; simp only [Option.some.injEq] at h; omega
      · split at h
        · simp only [Option.some.injEq] at h; omega
        · split at h
          · simp only [Option.some.injEq] at h; omega
          · exact absurd h (by simp)

theorem b64go_val {c : Char} {v : Nat} (h : b64val c = some v) (cs : Str) (buf nbits : Nat) :
    b64go (c :: cs) buf nbits =
      if nbits + 6 ≥ 8 then
        UInt8.ofNat ((buf * 64 + v) / 2 ^ (nbits + 6 - 8)) ::
          b64go cs ((buf * 64 + v) % 2 ^ (nbits + 6 - 8)) (nbits + 6 - 8)
      else b64go cs (buf * 64 + v) (nbits + 6) := by
  simp only [b64go, h]

/-- whatever a strict RFC 4648 decoder accepts, the lenient decoder of the library decodes to the same bytes -/
theorem b64go_of_spec {s : Str} {bs : Bytes} (h : b64decodeSpec s = some bs) : b64go s 0 0 = bs := by
  fun_induction b64decodeSpec s generalizing bs with
  | case1 => simp only [Option.some.injEq] at h; subst h; rfl
  | case2 c1 c2 v1 v2 h2 h1 hz =>
    simp only [Option.some.injEq] at h; subst h
    have := b64val_lt h1
    have := b64val_lt h2
    rw [b64go_val h1, if_neg (by omega), b64go_val h2, if_pos (by omega), b64go_pad, b64go_pad]
    simp only [b64go]
    congr 2; simp; omega
  | case3 => exact absurd h (by simp)
  | case4 => exact absurd h (by simp)
  | case5 c1 c2 c3 hne v1 v2 v3 h3 h2 h1 hz =>
    simp only [Option.some.injEq] at h; subst h
    have := b64val_lt h1
    have := b64val_lt h2
    have := b64val_lt h3
    rw [b64go_val h1, if_neg (by omega), b64go_val h2, if_pos (by omega), b64go_val h3, if_pos (by omega), b64go_pad]
    simp only [b64go]
    congr 1
    · congr 1; simp; omega
    · congr 2; simp; omega
  | case6 => exact absurd h (by simp)
  | case7 => exact absurd h (by simp)
  | case8 c1 c2 c3 c4 rest hn1 hn2 v1 v2 v3 v4 tl htl h4 h3 h2 h1 ih =>
    simp only [Option.some.injEq] at h; subst h
    have := b64val_lt h1
    have := b64val_lt h2
    have := b64val_lt h3
    have := b64val_lt h4
    rw [b64go_val h1, if_neg (by omega), b64go_val h2, if_pos (by omega), b64go_val h3, if_pos (by omega),
      b64go_val h4, if_pos (by omega)]
    simp only [Nat.zero_mul, Nat.zero_add, Nat.pow_zero, Nat.mod_one, Nat.div_one,
      show 6 + 6 - 8 = 4 by rfl, show 4 + 6 - 8 = 2 by rfl, show 2 + 6 - 8 = 0 by rfl]
    rw [ih htl]
    congr 1
    · congr 1; omega
    · congr 1
      · congr 1; omega
      · congr 2; omega
  | case9 => exact absurd h (by simp)
  | case10 => exact absurd h (by simp)
/-! ### date-times -/

theorem msRound_three_a : ∀ n, n < 250 → msRound 3 n = n := by decide +kernel
theorem msRound_three_b : ∀ n, n < 250 → msRound 3 (n + 250) = n + 250 := by decide +kernel
theorem msRound_three_c : ∀ n, n < 250 → msRound 3 (n + 500) = n + 500 := by decide +kernel
theorem msRound_three_d : ∀ n, n < 250 → msRound 3 (n + 750) = n + 750 := by decide +kernel

/-- three fraction digits are read back exactly (Qt's double arithmetic does not disturb them) -/
theorem msRound_three {n : Nat} (h : n < 1000) : msRound 3 n = n := by
  by_cases h1 : n < 250
  · exact msRound_three_a n h1
  · by_cases h2 : n < 500
    · have := msRound_three_b (n - 250) (by omega)
      rwa [show n - 250 + 250 = n by omega] at this
    · by_cases h3 : n < 750
      · have := msRound_three_c (n - 500) (by omega)
        rwa [show n - 500 + 500 = n by omega] at this
      · have := msRound_three_d (n - 750) (by omega)
        rwa [show n - 750 + 750 = n by omega] at this

theorem units_of_small : ∀ {s : Str}, (∀ c ∈ s, c.toNat < 0x10000) → units s = s
  | [], _ => rfl
  | c :: cs, h => by
    have hc : c.toNat < 0x10000 := h c (by simp)
    have ih : units cs = cs := units_of_small (fun x hx => h x (by simp [hx]))
    unfold units at ih ⊢
    rw [List.flatMap_cons, ih, if_pos hc]
    rfl

theorem cToInt_digits {s : Str} (hne : s ≠ []) (hd : ∀ c ∈ s, isDigit c = true) :
    cToInt s = (digitsVal s 0).map fun m => (m : Int) := by
  unfold cToInt
  rw [trim_of_no_space (fun c hc => isDigit_not_space (hd c hc)), signMag_digits hne hd]
  cases digitsVal s 0 <;> simp

theorem readInt_digits {s : Str} (hne : s ≠ []) (hd : ∀ c ∈ s, isDigit c = true) :
    readInt s = (digitsVal s 0).map fun m => (m : Int) := by
  unfold readInt
  have : s.any isSpace = false := by
    rw [List.any_eq_false]
    intro c hc
    simp [isDigit_not_space (hd c hc)]
  rw [this]
  simpa using cToInt_digits hne hd

theorem readInt_two {a b : Nat} (ha : a < 10) (hb : b < 10) :
    readInt [digitChar a, digitChar b] = some ((a * 10 + b : Nat) : Int) := by
  rw [readInt_digits (by simp)]
  · simp [digitsVal, isDigit_digitChar ha, isDigit_digitChar hb, digitVal_digitChar ha, digitVal_digitChar hb]
  · intro c hc
    simp only [List.mem_cons, List.not_mem_nil, or_false] at hc
    rcases hc with hc | hc <;> subst hc
    · exact isDigit_digitChar ha
    · exact isDigit_digitChar hb

theorem readInt_four {a b c e : Nat} (ha : a < 10) (hb : b < 10) (hc : c < 10) (he : e < 10) :
    readInt [digitChar a, digitChar b, digitChar c, digitChar e] =
      some ((((a * 10 + b) * 10 + c) * 10 + e : Nat) : Int) := by
  rw [readInt_digits (by simp)]
  · simp [digitsVal, isDigit_digitChar ha, isDigit_digitChar hb, isDigit_digitChar hc, isDigit_digitChar he,
      digitVal_digitChar ha, digitVal_digitChar hb, digitVal_digitChar hc, digitVal_digitChar he]
  · intro x hx
    simp only [List.mem_cons, List.not_mem_nil, or_false] at hx
    rcases hx with hx | hx | hx | hx <;> subst hx
    · exact isDigit_digitChar ha
    · exact isDigit_digitChar hb
    · exact isDigit_digitChar hc
    · exact isDigit_digitChar he

theorem parseIsoDate_pads {Y M D : Nat} (hY1 : 1 ≤ Y) (hY2 : Y ≤ 9999) (hM : M < 100) (hD : D < 100)
    (hv : validDate (Y : Int) M D) :
    parseIsoDate (pad4 Y ++ '-' :: pad2 M ++ '-' :: pad2 D) = some ((Y : Int), M, D) := by
  have hp : isPunct '-' = true := by decide
  simp only [pad4, pad2, List.cons_append, List.nil_append, parseIsoDate, hp, Bool.and_self, if_true]
  rw [readInt_four (by omega) (by omega) (by omega) (by omega), readInt_two (by omega) (by omega),
    readInt_two (by omega) (by omega)]
  have e1 : ((Y / 1000 * 10 + Y / 100 % 10) * 10 + Y / 10 % 10) * 10 + Y % 10 = Y := by omega
  have e2 : M / 10 * 10 + M % 10 = M := by omega
  have e3 : D / 10 * 10 + D % 10 = D := by omega
  simp only [e1, e2, e3, Int.toNat_natCast]
  rw [if_pos]
  exact ⟨by omega, by omega, by omega, by omega, hv⟩

theorem parseSecPart_plain {h mi sc : Nat} (hs : sc < 100) :
    parseSecPart (pad2 h ++ ':' :: pad2 mi ++ ':' :: pad2 sc) = some ((sc : Int), 0) := by
  have hc : isFracSep ':' = false := by decide
  simp only [pad2, List.cons_append, List.nil_append, parseSecPart, List.drop_succ_cons, List.drop_zero, hc,
    Bool.false_eq_true, if_false, ne_eq, not_true_eq_false, List.take_succ_cons, List.take_zero]
  rw [readInt_two (by omega) (by omega)]
  simp only
  congr; omega

theorem parseSecPart_frac {h mi sc ms : Nat} (hs : sc < 100) (hms : ms < 1000) :
    parseSecPart (pad2 h ++ ':' :: pad2 mi ++ ':' :: pad2 sc ++ '.' :: pad3 ms) = some ((sc : Int), ms) := by
  have hc : isFracSep ':' = false := by decide
  have hdot : isFracSep '.' = true := by decide
  have d1 : ms / 100 < 10 := by omega
  have d2 : ms / 10 % 10 < 10 := by omega
  have d3 : ms % 10 < 10 := by omega
  have htrim : trimEnd [digitChar (ms / 100), digitChar (ms / 10 % 10), digitChar (ms % 10)] =
      [digitChar (ms / 100), digitChar (ms / 10 % 10), digitChar (ms % 10)] := by
    simp [trimEnd, isSpace_digitChar d3]
  simp only [pad2, pad3, List.cons_append, List.nil_append, parseSecPart, List.drop_succ_cons, List.drop_zero, hc,
    Bool.false_eq_true, if_false, ne_eq, not_true_eq_false, List.take_succ_cons, List.take_zero]
  rw [readInt_two (by omega) (by omega)]
  simp only [hdot, if_true, List.take_nil, isDigit_digitChar d1, Bool.not_true, Bool.false_eq_true, if_false, htrim,
    digitsVal, isDigit_digitChar d2, isDigit_digitChar d3, digitVal_digitChar d1, digitVal_digitChar d2,
    digitVal_digitChar d3, List.length_cons, List.length_nil]
  have e : ((0 * 10 + ms / 100) * 10 + ms / 10 % 10) * 10 + ms % 10 = ms := by omega
  rw [e, msRound_three hms]
  congr; omega

/-- the time of day of the library's own output form is read back exactly -/
theorem parseIsoTime_own {h mi sc ms : Nat} {body : Str} (hh : h < 24) (hmi : mi < 60) (hs : sc < 60)
    (hb : body = pad2 h ++ ':' :: pad2 mi ++ ':' :: pad2 sc ∧ ms = 0 ∨
          body = pad2 h ++ ':' :: pad2 mi ++ ':' :: pad2 sc ++ '.' :: pad3 ms ∧ ms < 1000) :
    parseIsoTime body = some ⟨h, mi, sc, ms, false⟩ := by
  have hsec : parseSecPart body = some ((sc : Int), ms) := by
    rcases hb with ⟨hb, h0⟩ | ⟨hb, hms⟩
    · subst hb h0; exact parseSecPart_plain (by omega)
    · subst hb; exact parseSecPart_frac (by omega) hms
  have hshape : ∃ tl, body = digitChar (h / 10) :: digitChar (h % 10) :: ':' :: digitChar (mi / 10) ::
      digitChar (mi % 10) :: tl := by
    rcases hb with ⟨hb, _⟩ | ⟨hb, _⟩ <;> subst hb <;>
      simp only [pad2, List.cons_append, List.nil_append] <;> exact ⟨_, rfl⟩
  obtain ⟨tl, htl⟩ := hshape
  unfold parseIsoTime
  rw [hsec]
  subst htl
  simp only [List.length_cons, List.take_succ_cons, List.take_zero, List.drop_succ_cons, List.drop_zero]
  rw [if_neg (by omega), if_neg (by simp), readInt_two (by omega) (by omega), readInt_two (by omega) (by omega)]
  have e1 : h / 10 * 10 + h % 10 = h := by omega
  have e2 : mi / 10 * 10 + mi % 10 = mi := by omega
  simp only [e1, e2]
  have hmid : decide ((h : Int) = 24 ∧ (mi : Int) = 0 ∧ (sc : Int) = 0 ∧ ms = 0) = false := by
    simp only [decide_eq_false_iff_not]; omega
  simp only [hmid, Bool.false_eq_true, if_false, Int.toNat_natCast]
  rw [if_pos (by omega)]

theorem splitZone_utc (loc : Int) (body : Str) : splitZone loc (body ++ ['Z']) = some (body, 0) := by
  unfold splitZone
  simp

theorem wrap32_zero : wrap32 (0 * 1000) = 0 := by decide

/-- with offset 0 and no 24:00 the civil fields are kept -/
theorem toUtc_zero (date : Int × Nat × Nat) {h mi sc ms : Nat} (hh : h < 24) (hmi : mi < 60) (hs : sc < 60)
    (hms : ms < 1000) :
    toUtc date ⟨h, mi, sc, ms, false⟩ 0 = ⟨date.1, date.2.1, date.2.2, h, mi, sc, ms⟩ := by
  unfold toUtc shiftUtc
  simp only [Bool.false_eq_true, if_false, wrap32_zero, Int.sub_zero]
  have hN : (h * 3600 + mi * 60 + sc) * 1000 + ms < 86400000 := by omega
  have hq : (((h * 3600 + mi * 60 + sc) * 1000 + ms : Nat) : Int) / 86400000 = Int.ofNat 0 := by
    simp only [Int.ofNat_eq_natCast, Int.natCast_zero]; omega
  have hr : ((((h * 3600 + mi * 60 + sc) * 1000 + ms : Nat) : Int) % 86400000).toNat =
      (h * 3600 + mi * 60 + sc) * 1000 + ms := by omega
  rw [hq, hr]
  simp only [addDays, iterDays]
  congr 1 <;> omega

theorem dtParseCode_shape {loc : Int} {y1 y2 y3 y4 p1 m1 m2 p2 d1 d2 : Char} {t tt : Str} {date : Int × Nat × Nat}
    {tm : Tm} {off : Int}
    (hu : units (y1 :: y2 :: y3 :: y4 :: p1 :: m1 :: m2 :: p2 :: d1 :: d2 :: 'T' :: t) =
          y1 :: y2 :: y3 :: y4 :: p1 :: m1 :: m2 :: p2 :: d1 :: d2 :: 'T' :: t)
    (hd : parseIsoDate [y1, y2, y3, y4, p1, m1, m2, p2, d1, d2] = some date)
    (hne : t.isEmpty = false) (hz : splitZone loc t = some (tt, off)) (ht : parseIsoTime tt = some tm) :
    dtParseCodeAt loc (y1 :: y2 :: y3 :: y4 :: p1 :: m1 :: m2 :: p2 :: d1 :: d2 :: 'T' :: t) =
      some (toUtc date tm off) := by
  unfold dtParseCodeAt
  simp only [hu, List.length_cons, List.take_succ_cons, List.take_zero, List.drop_succ_cons, List.drop_zero, hd,
    hne, hz, ht]
  rw [if_neg (by omega)]
  simp

theorem small_digitChar {d : Nat} (h : d < 10) : (digitChar d).toNat < 0x10000 := (digitChar_facts d h).2.2.2.2.2.1

theorem units_of_all {s : Str} (h : s.all (fun c => decide (c.toNat < 0x10000)) = true) : units s = s :=
  units_of_small (by simpa [List.all_eq_true] using h)

/-- the library's own output form `yyyy-MM-ddTHH:mm:ss[.zzz]Z` parses to the fields it was printed from -/
theorem dtParseCode_own (loc : Int) {Y M D h mi sc ms : Nat} {body : Str} (hY1 : 1 ≤ Y) (hY2 : Y ≤ 9999)
    (hv : validDate (Y : Int) M D) (hh : h < 24) (hmi : mi < 60) (hs : sc < 60) (hms : ms < 1000)
    (hb : body = pad2 h ++ ':' :: pad2 mi ++ ':' :: pad2 sc ∧ ms = 0 ∨
          body = pad2 h ++ ':' :: pad2 mi ++ ':' :: pad2 sc ++ '.' :: pad3 ms ∧ ms < 1000) :
    dtParseCodeAt loc (pad4 Y ++ '-' :: pad2 M ++ '-' :: pad2 D ++ 'T' :: (body ++ ['Z'])) =
      some ⟨(Y : Int), M, D, h, mi, sc, ms⟩ := by
  have hM : M ≤ 12 := hv.2.2.1
  have hD : D ≤ 31 := by
    have := hv.2.2.2.2
    unfold daysIn at this
    split at this
    · split at this <;> omega
    · split at this <;> omega
  have hdate := parseIsoDate_pads hY1 hY2 (show M < 100 by omega) (show D < 100 by omega) hv
  simp only [pad4, pad2, List.cons_append, List.nil_append] at hdate
  have htime := parseIsoTime_own hh hmi hs hb
  have hsmall : (body ++ ['Z']).all (fun c => decide (c.toNat < 0x10000)) = true := by
    rcases hb with ⟨hb, _⟩ | ⟨hb, _⟩ <;> subst hb <;>
      simp [pad2, pad3, small_digitChar, show h / 10 < 10 by omega, show h % 10 < 10 by omega,
        show mi / 10 < 10 by omega, show mi % 10 < 10 by omega, show sc / 10 < 10 by omega,
        show sc % 10 < 10 by omega, show ms / 100 < 10 by omega, show ms / 10 % 10 < 10 by omega,
        show ms % 10 < 10 by omega]
  simp only [pad4, pad2, List.cons_append, List.nil_append]
  rw [dtParseCode_shape (loc := loc) (date := ((Y : Int), M, D)) (tt := body) (off := 0) (tm := ⟨h, mi, sc, ms, false⟩)
    ?_ hdate (by simp) (splitZone_utc loc body) htime]
  · rw [toUtc_zero _ hh hmi hs hms]
  · apply units_of_all
    simp [hsmall, small_digitChar, show Y / 1000 < 10 by omega, show Y / 100 % 10 < 10 by omega,
      show Y / 10 % 10 < 10 by omega, show Y % 10 < 10 by omega, show M / 10 < 10 by omega,
      show M % 10 < 10 by omega, show D / 10 < 10 by omega, show D % 10 < 10 by omega]

/-- the empty string is not a date-time, wherever the process runs -/
@[simp] theorem dtParseCodeAt_nil (loc : Int) : dtParseCodeAt loc [] = none := by
  simp [dtParseCodeAt, units]

/-- with offset 0 the instant of a stamp is its wall-clock reading -/
theorem utcOf_utc {w : Dt} (hc : CivilDt w) : utcOf ⟨w, 0⟩ = w := by
  obtain ⟨_, hh, hmi, hs, hms⟩ := hc
  unfold utcOf shiftUtc
  simp only [Bool.false_eq_true, if_false, Int.zero_mul, Int.sub_zero]
  have hq : (((w.hour * 3600 + w.minute * 60 + w.second) * 1000 + w.msec : Nat) : Int) / 86400000 = Int.ofNat 0 := by
    simp only [Int.ofNat_eq_natCast, Int.natCast_zero]; omega
  have hr : ((((w.hour * 3600 + w.minute * 60 + w.second) * 1000 + w.msec : Nat) : Int) % 86400000).toNat =
      (w.hour * 3600 + w.minute * 60 + w.second) * 1000 + w.msec := by omega
  rw [hq, hr]
  simp only [addDays, iterDays]
  cases w
  simp only [Dt.mk.injEq, true_and]
  simp only at hh hmi hs hms
  omega

/-! ### the strict XEP-0082 profile is accepted -/

theorem digitVal_lt {c : Char} (h : isDigit c = true) : digitVal c < 10 := by
  simp only [isDigit, Bool.and_eq_true, decide_eq_true_eq] at h
  unfold digitVal; omega

theorem digitChar_digitVal {c : Char} (h : isDigit c = true) : digitChar (digitVal c) = c := by
  simp only [isDigit, Bool.and_eq_true, decide_eq_true_eq] at h
  unfold digitChar digitVal
  rw [show 48 + (c.toNat - 48) = c.toNat by omega]
  exact Char.ofNat_toNat c

theorem pad2_of_digits {a b : Char} (ha : isDigit a = true) (hb : isDigit b = true) :
    pad2 (digitVal a * 10 + digitVal b) = [a, b] := by
  have := digitVal_lt ha
  have := digitVal_lt hb
  unfold pad2
  rw [show (digitVal a * 10 + digitVal b) / 10 = digitVal a by omega,
    show (digitVal a * 10 + digitVal b) % 10 = digitVal b by omega, digitChar_digitVal ha, digitChar_digitVal hb]

theorem pad3_of_digits {a b c : Char} (ha : isDigit a = true) (hb : isDigit b = true) (hc : isDigit c = true) :
    pad3 (digitVal a * 100 + digitVal b * 10 + digitVal c) = [a, b, c] := by
  have := digitVal_lt ha
  have := digitVal_lt hb
  have := digitVal_lt hc
  unfold pad3
  rw [show (digitVal a * 100 + digitVal b * 10 + digitVal c) / 100 = digitVal a by omega,
    show (digitVal a * 100 + digitVal b * 10 + digitVal c) / 10 % 10 = digitVal b by omega,
    show (digitVal a * 100 + digitVal b * 10 + digitVal c) % 10 = digitVal c by omega,
    digitChar_digitVal ha, digitChar_digitVal hb, digitChar_digitVal hc]

theorem pad4_of_digits {a b c e : Char} (ha : isDigit a = true) (hb : isDigit b = true) (hc : isDigit c = true)
    (he : isDigit e = true) :
    pad4 (digitVal a * 1000 + digitVal b * 100 + digitVal c * 10 + digitVal e) = [a, b, c, e] := by
  have := digitVal_lt ha
  have := digitVal_lt hb
  have := digitVal_lt hc
  have := digitVal_lt he
  unfold pad4
  rw [show (digitVal a * 1000 + digitVal b * 100 + digitVal c * 10 + digitVal e) / 1000 = digitVal a by omega,
    show (digitVal a * 1000 + digitVal b * 100 + digitVal c * 10 + digitVal e) / 100 % 10 = digitVal b by omega,
    show (digitVal a * 1000 + digitVal b * 100 + digitVal c * 10 + digitVal e) / 10 % 10 = digitVal c by omega,
    show (digitVal a * 1000 + digitVal b * 100 + digitVal c * 10 + digitVal e) % 10 = digitVal e by omega,
    digitChar_digitVal ha, digitChar_digitVal hb, digitChar_digitVal hc, digitChar_digitVal he]

theorem dtParseCode_of_spec (loc : Int) {s : Str} {d : Dt} (h : dtParseSpec s = some d) : dtParseCodeAt loc s = some d := by
  unfold dtParseSpec at h
  split at h
  · split at h
    · rename_i _ y1 y2 y3 y4 m1 m2 d1 d2 h1 h2 n1 n2 s1 s2 rest hall
      simp only [List.all_cons, List.all_nil, Bool.and_true, Bool.and_eq_true] at hall
      obtain ⟨g1, g2, g3, g4, g5, g6, g7, g8, g9, g10, g11, g12, g13, g14⟩ := hall
      simp only [] at h
      split at h
      · exact absurd h (by simp)
      · rename_i ms hms
        split at h
        · rename_i hv
          simp only [Option.some.injEq] at h
          subst h
          obtain ⟨hy1, hy2, hm1, hm2, hd1, hd2, hh, hmi, hs, hmsl⟩ := hv
          simp only at hy1 hy2 hm1 hm2 hd1 hd2 hh hmi hs hmsl
          have hvd : validDate ((digitVal y1 * 1000 + digitVal y2 * 100 + digitVal y3 * 10 + digitVal y4 : Nat) : Int)
              (digitVal m1 * 10 + digitVal m2) (digitVal d1 * 10 + digitVal d2) :=
            ⟨by omega, hm1, hm2, hd1, hd2⟩
          have key := fun body hb => dtParseCode_own loc (Y := digitVal y1 * 1000 + digitVal y2 * 100 + digitVal y3 * 10 + digitVal y4)
            (M := digitVal m1 * 10 + digitVal m2) (D := digitVal d1 * 10 + digitVal d2)
            (h := digitVal h1 * 10 + digitVal h2) (mi := digitVal n1 * 10 + digitVal n2)
            (sc := digitVal s1 * 10 + digitVal s2) (ms := ms) (body := body) (by omega) (by omega) hvd hh hmi hs hmsl hb
          split at hms
          · simp only [Option.some.injEq] at hms
            subst hms
            have e := key _ (Or.inl ⟨rfl, rfl⟩)
            rw [pad4_of_digits g1 g2 g3 g4, pad2_of_digits g5 g6, pad2_of_digits g7 g8, pad2_of_digits g9 g10,
              pad2_of_digits g11 g12, pad2_of_digits g13 g14] at e
            simpa using e
          · rename_i f1 f2 f3
            split at hms
            · rename_i hf
              simp only [Bool.and_eq_true] at hf
              simp only [Option.some.injEq] at hms
              subst hms
              have e := key _ (Or.inr ⟨rfl, hmsl⟩)
              rw [pad4_of_digits g1 g2 g3 g4, pad2_of_digits g5 g6, pad2_of_digits g7 g8, pad2_of_digits g9 g10,
                pad2_of_digits g11 g12, pad2_of_digits g13 g14, pad3_of_digits hf.1.1 hf.1.2 hf.2] at e
              simpa using e
            · exact absurd hms (by simp)
          · exact absurd hms (by simp)
        · exact absurd h (by simp)
    · exact absurd h (by simp)
  · exact absurd h (by simp)
/-! ### enumerations, time zone offsets -/

theorem enumFromString_getElem {names : List Str} (hn : names.Nodup) {i : Nat} (hi : i < names.length) :
    enumFromString names names[i] = some i := by
  unfold enumFromString
  rw [List.idxOf?_eq_some_iff]
  refine ⟨hi, rfl, ?_⟩
  intro j hj heq
  have : j = i := (List.getElem_inj hn).mp heq
  omega

theorem tzoAt_form (sg : Char) (hsg : sg = '+' ∨ sg = '-') {H M : Nat} (hH : H < 100) (hM : M < 100) :
    tzoAt (sg :: pad2 H ++ ':' :: pad2 M) =
      some (if sg = '-' then -((H * 3600 + M * 60 : Nat) : Int) else ((H * 3600 + M * 60 : Nat) : Int)) := by
  have h1 : H / 10 < 10 := by omega
  have h2 : H % 10 < 10 := by omega
  have h3 : M / 10 < 10 := by omega
  have h4 : M % 10 < 10 := by omega
  have e1 : H / 10 * 10 + H % 10 = H := by omega
  have e2 : M / 10 * 10 + M % 10 = M := by omega
  rcases hsg with hsg | hsg <;> subst hsg <;>
    simp [tzoAt, pad2, isSignChar, isDigit_digitChar, digitVal_digitChar, h1, h2, h3, h4, e1, e2]

end Qx.Xml.Codec.Scalar
