import Qx.Model.C12Roster
/-!
Helper lemmas for C12 (association lists, the snoc-equations of the history-level specification,
per-step commutation, invariants).  The property theorems are in `Qx/Props/C12.lean`.
-/
namespace Qx.C12

/-! ### association lists -/
section Assoc
variable {α : Type}

theorem keys_eraseKey (k : String) (l : List (String × α)) :
    keys (eraseKey k l) = (keys l).filter (fun x => x != k) := by
  unfold keys eraseKey
  rw [List.filter_map]
  rfl

theorem nodup_keys_eraseKey (k : String) (l : List (String × α)) (h : (keys l).Nodup) :
    (keys (eraseKey k l)).Nodup := by
  rw [keys_eraseKey]
  exact h.sublist List.filter_sublist

theorem not_mem_keys_eraseKey (k : String) (l : List (String × α)) : k ∉ keys (eraseKey k l) := by
  rw [keys_eraseKey]
  simp

theorem nodup_keys_insertKey (k : String) (v : α) (l : List (String × α)) (h : (keys l).Nodup) :
    (keys (insertKey k v l)).Nodup := by
  show (k :: keys (eraseKey k l)).Nodup
  exact List.nodup_cons.mpr ⟨not_mem_keys_eraseKey k l, nodup_keys_eraseKey k l h⟩

theorem lookupKey_eraseKey (k k' : String) (l : List (String × α)) :
    lookupKey k (eraseKey k' l) = if k = k' then none else lookupKey k l := by
  induction l with
  | nil => simp [eraseKey, lookupKey]
  | cons p t ih =>
    simp only [eraseKey, List.filter_cons] at ih ⊢
    by_cases h : p.1 = k'
    · simp only [h, bne_self_eq_false, Bool.false_eq_true, if_false, ih, lookupKey]
      by_cases h2 : k = k'
      · simp [h2]
      · have : ¬ k' = k := fun e => h2 e.symm
        simp [h2, this]
    · have hb : (p.1 != k') = true := by simpa using h
      simp only [hb, if_true, lookupKey, ih]
      by_cases h2 : k = k'
      · simp [h2, h]
      · simp [h2]

theorem lookupKey_insertKey (k k' : String) (v : α) (l : List (String × α)) :
    lookupKey k (insertKey k' v l) = if k = k' then some v else lookupKey k l := by
  simp only [insertKey, lookupKey, lookupKey_eraseKey]
  by_cases h : k = k'
  · simp [h]
  · have : ¬ k' = k := fun e => h e.symm
    simp [h, this]

theorem mem_keys_iff_lookup (k : String) (l : List (String × α)) :
    k ∈ keys l ↔ (lookupKey k l).isSome = true := by
  induction l with
  | nil => simp [keys, lookupKey]
  | cons p t ih =>
    simp only [keys, List.map_cons, List.mem_cons, lookupKey] at ih ⊢
    by_cases h : p.1 = k
    · simp [h]
    · have : ¬ k = p.1 := fun e => h e.symm
      simp [h, this, ih]

theorem lookupKey_nil (k : String) : lookupKey k ([] : List (String × α)) = none := rfl

end Assoc

/-! ### entries -/

theorem applyItems_fst (e : Entries) (items : List Item) :
    (applyItems e items).1 = items.foldl applyItem e := by
  induction items generalizing e with
  | nil => rfl
  | cons it rest ih => simp only [applyItems, List.foldl_cons, ih]

theorem nodup_applyItem (e : Entries) (it : Item) (h : (keys e).Nodup) : (keys (applyItem e it)).Nodup := by
  unfold applyItem
  split
  · exact nodup_keys_eraseKey _ _ h
  · exact nodup_keys_insertKey _ _ _ h

theorem nodup_foldl_applyItem (items : List Item) (e : Entries) (h : (keys e).Nodup) :
    (keys (items.foldl applyItem e)).Nodup := by
  induction items generalizing e with
  | nil => exact h
  | cons it rest ih => exact ih _ (nodup_applyItem e it h)

theorem nodup_fromItems_aux (items : List Item) (e : Entries) (h : (keys e).Nodup) :
    (keys (items.foldl (fun e it => insertKey it.jid it e) e)).Nodup := by
  induction items generalizing e with
  | nil => exact h
  | cons it rest ih => exact ih _ (nodup_keys_insertKey _ _ _ h)

theorem nodup_fromItems (items : List Item) : (keys (fromItems items)).Nodup :=
  nodup_fromItems_aux items [] List.nodup_nil

/-! ### `afterLast` / `lastThat` under appending one element -/
section Last
variable {α : Type}

theorem afterLast_snoc (p : α → Bool) (l : List α) (x : α) :
    afterLast p (l ++ [x]) = if p x then [] else afterLast p l ++ [x] := by
  simp only [afterLast, List.reverse_append, List.reverse_cons, List.reverse_nil, List.nil_append,
    List.singleton_append, List.takeWhile_cons]
  by_cases h : p x = true
  · simp [h]
  · simp [h]

theorem lastThat_snoc (p : α → Bool) (l : List α) (x : α) :
    lastThat p (l ++ [x]) = if p x then some x else lastThat p l := by
  simp only [lastThat, List.reverse_append, List.reverse_cons, List.reverse_nil, List.nil_append,
    List.singleton_append, List.find?_cons]
  by_cases h : p x = true
  · simp [h]
  · simp [h]

end Last

/-! ### the roster view: specification = fold of `evStep` -/

/-- what one event does to the view -/
def evStep (e : Entries) : Ev → Entries
  | .clear => []
  | .full items => fromItems items
  | .push items => items.foldl applyItem e
  | _ => e

theorem specView_nil : specView [] = [] := rfl

theorem specView_snoc (evs : List Ev) (ev : Ev) : specView (evs ++ [ev]) = evStep (specView evs) ev := by
  cases ev with
  | clear => simp [specView, Ev.isClear, evStep, afterLast, lastThat]
  | full items =>
    simp [specView, afterLast_snoc, lastThat_snoc, Ev.isClear, Ev.isFull, evStep]
  | push items =>
    simp [specView, afterLast_snoc, lastThat_snoc, Ev.isClear, Ev.isFull, evStep, Ev.pushItems,
      List.flatMap_append, List.foldl_append]
  | pres b r a st =>
    simp [specView, afterLast_snoc, lastThat_snoc, Ev.isClear, Ev.isFull, evStep, Ev.pushItems,
      List.flatMap_append]
  | other =>
    simp [specView, afterLast_snoc, lastThat_snoc, Ev.isClear, Ev.isFull, evStep, Ev.pushItems,
      List.flatMap_append]

theorem specView_append (pre evs : List Ev) : specView (pre ++ evs) = evs.foldl evStep (specView pre) := by
  induction evs generalizing pre with
  | nil => simp
  | cons ev rest ih =>
    have h : pre ++ ev :: rest = (pre ++ [ev]) ++ rest := by simp
    rw [h, ih, specView_snoc]
    rfl

theorem specView_eq_fold (evs : List Ev) : specView evs = evs.foldl evStep [] := by
  have h := specView_append [] evs
  simpa [specView_nil] using h

/-! ### the presence table: specification = fold of `pairStep` -/

/-- what one event does to the table entry of resource `r` of contact `b` -/
def pairStep (b r : String) (cur : Option String) : Ev → Option String
  | .clear => none
  | .pres b' r' av st => if b' = b ∧ r' = r then (if av then some st else none) else cur
  | _ => cur

theorem specPres_nil (b r : String) : specPres [] b r = none := rfl

theorem specPres_snoc (evs : List Ev) (ev : Ev) (b r : String) :
    specPres (evs ++ [ev]) b r = pairStep b r (specPres evs b r) ev := by
  cases ev with
  | clear => simp [specPres, Ev.isClear, pairStep, afterLast, lastThat]
  | full items => simp [specPres, afterLast_snoc, lastThat_snoc, Ev.isClear, Ev.isPresOf, pairStep]
  | push items => simp [specPres, afterLast_snoc, lastThat_snoc, Ev.isClear, Ev.isPresOf, pairStep]
  | other => simp [specPres, afterLast_snoc, lastThat_snoc, Ev.isClear, Ev.isPresOf, pairStep]
  | pres b' r' a st =>
    simp only [specPres, afterLast_snoc, lastThat_snoc, Ev.isClear, Ev.isPresOf, pairStep,
      Bool.false_eq_true, if_false]
    by_cases h : b' = b ∧ r' = r
    · obtain ⟨h1, h2⟩ := h
      subst h1; subst h2
      cases a <;> simp
    · have : (decide (b' = b) && decide (r' = r)) = false := by
        by_cases h1 : b' = b
        · by_cases h2 : r' = r
          · exact absurd ⟨h1, h2⟩ h
          · simp [h2]
        · simp [h1]
      simp [this, h]

theorem specPres_append (pre evs : List Ev) (b r : String) :
    specPres (pre ++ evs) b r = evs.foldl (pairStep b r) (specPres pre b r) := by
  induction evs generalizing pre with
  | nil => simp
  | cons ev rest ih =>
    have h : pre ++ ev :: rest = (pre ++ [ev]) ++ rest := by simp
    rw [h, ih, specPres_snoc]
    rfl

theorem specPres_eq_fold (evs : List Ev) (b r : String) :
    specPres evs b r = evs.foldl (pairStep b r) none := by
  have h := specPres_append [] evs b r
  simpa [specPres_nil] using h

/-! ### per-step commutation -/

theorem step_entries (own : String) (s : St) (op : Op) :
    (step own s op).1.entries = evStep s.entries (classify own s op) := by
  cases op with
  | connected sm auth =>
    by_cases h : sm = .resumed
    · simp only [step, classify, h, if_true, evStep]; split <;> rfl
    · simp only [step, classify, h, if_false, evStep]; split <;> rfl
  | disconnected en cr =>
    cases hin : s.inSession <;> cases en <;> cases cr <;> simp [step, classify, evStep, St.cleared, hin]
  | response k sender ok items =>
    simp only [step, classify]
    cases hd : delivered s k sender <;> cases ok <;> simp [evStep]
  | rosterIq type sender id items =>
    simp only [step, classify]
    cases ha : authorised own sender <;> cases type <;> simp [evStep, applyItems_fst]
  | presence sender type status =>
    simp only [step, classify]
    by_cases hb : bare sender = ""
    · simp [hb, evStep]
    · cases type <;> simp [hb, evStep]
  | api call tracked =>
    cases call <;> simp only [step, classify, evStep]
    split <;> rfl
  | setJid j => rfl

theorem run_cons (own : String) (s : St) (op : Op) (ops : List Op) :
    (run own s (op :: ops)).1 = (run (nextOwn own op) (step own s op).1 ops).1 := rfl

theorem run_entries (own : String) (s : St) (ops : List Op) :
    (run own s ops).1.entries = (trace own s ops).foldl evStep s.entries := by
  induction ops generalizing s own with
  | nil => rfl
  | cons op rest ih => simp only [run_cons, trace, List.foldl_cons, ih, step_entries]

/-! presence table -/

theorem resTable_nil (b : String) : resTable [] b = [] := rfl

theorem resTable_insertKey (p : PresTable) (b b' : String) (t : ResTable) :
    resTable (insertKey b' t p) b = if b = b' then t else resTable p b := by
  simp only [resTable, lookupKey_insertKey]
  by_cases h : b = b' <;> simp [h]

theorem step_pres (own : String) (s : St) (op : Op) (b r : String) :
    lookupKey r (resTable (step own s op).1.presences b)
      = pairStep b r (lookupKey r (resTable s.presences b)) (classify own s op) := by
  cases op with
  | connected sm auth =>
    by_cases h : sm = .resumed
    · simp only [step, classify, h, if_true, pairStep]; split <;> rfl
    · simp only [step, classify, h, if_false, pairStep]; split <;> rfl
  | disconnected en cr =>
    cases hin : s.inSession <;> cases en <;> cases cr <;>
      simp [step, classify, pairStep, St.cleared, resTable_nil, lookupKey_nil, hin]
  | response k sender ok items =>
    simp only [step, classify]
    cases hd : delivered s k sender <;> cases ok <;> simp [pairStep]
  | rosterIq type sender id items =>
    simp only [step, classify]
    cases ha : authorised own sender <;> cases type <;> simp [pairStep]
  | presence sender type status =>
    simp only [step, classify]
    by_cases hb : bare sender = ""
    · simp [hb, pairStep]
    · cases type with
      | other => simp [hb, pairStep]
      | available =>
        simp only [hb, if_false, pairStep, setRes, resTable_insertKey]
        by_cases h1 : b = bare sender
        · subst h1
          simp only [if_true, lookupKey_insertKey, true_and]
          by_cases h2 : r = resource sender
          · simp [h2]
          · have : ¬ resource sender = r := fun e => h2 e.symm
            simp [h2, this]
        · have : ¬ bare sender = b := fun e => h1 e.symm
          simp [h1, this]
      | unavailable =>
        simp only [hb, if_false, pairStep, delRes, resTable_insertKey]
        by_cases h1 : b = bare sender
        · subst h1
          simp only [if_true, lookupKey_eraseKey, true_and]
          by_cases h2 : r = resource sender
          · simp [h2]
          · have : ¬ resource sender = r := fun e => h2 e.symm
            simp [h2, this]
        · have : ¬ bare sender = b := fun e => h1 e.symm
          simp [h1, this]
  | api call tracked =>
    cases call <;> simp only [step, classify, pairStep]
    split <;> rfl
  | setJid j => rfl

theorem run_pres (own : String) (s : St) (ops : List Op) (b r : String) :
    lookupKey r (resTable (run own s ops).1.presences b)
      = (trace own s ops).foldl (pairStep b r) (lookupKey r (resTable s.presences b)) := by
  induction ops generalizing s own with
  | nil => rfl
  | cons op rest ih => simp only [run_cons, trace, List.foldl_cons, ih, step_pres]

/-! ### invariants -/

structure Inv (s : St) : Prop where
  entries : (keys s.entries).Nodup
  pres : (keys s.presences).Nodup
  inner : ∀ p ∈ s.presences, (keys p.2).Nodup

theorem Inv.init : Inv init := ⟨List.nodup_nil, List.nodup_nil, by intro p hp; cases hp⟩

theorem Inv.cleared {s : St} (_ : Inv s) : Inv s.cleared :=
  ⟨List.nodup_nil, List.nodup_nil, by intro p hp; cases hp⟩

theorem nodup_resTable {p : PresTable} (h : ∀ x ∈ p, (keys x.2).Nodup) (b : String) :
    (keys (resTable p b)).Nodup := by
  induction p with
  | nil => exact List.nodup_nil
  | cons x t ih =>
    simp only [resTable, lookupKey]
    by_cases hx : x.1 = b
    · simp only [hx, if_true]; exact h x (by simp)
    · simp only [hx, if_false]
      exact ih (fun y hy => h y (by simp [hy]))

theorem inner_insertKey {p : PresTable} (h : ∀ x ∈ p, (keys x.2).Nodup) (b : String) (t : ResTable)
    (ht : (keys t).Nodup) : ∀ x ∈ insertKey b t p, (keys x.2).Nodup := by
  intro x hx
  simp only [insertKey, List.mem_cons, eraseKey, List.mem_filter] at hx
  rcases hx with hx | hx
  · rw [hx]; exact ht
  · exact h x hx.1

theorem Inv.step (own : String) {s : St} (hi : Inv s) (op : Op) : Inv (step own s op).1 := by
  cases op with
  | connected sm auth =>
    by_cases h : sm = .resumed
    · simp only [Qx.C12.step, h, if_true]
      split
      · exact ⟨hi.entries, hi.pres, hi.inner⟩
      · exact ⟨hi.entries, hi.pres, hi.inner⟩
    · simp only [Qx.C12.step, h, if_false]
      split
      · exact ⟨List.nodup_nil, List.nodup_nil, by intro p hp; cases hp⟩
      · exact ⟨List.nodup_nil, List.nodup_nil, by intro p hp; cases hp⟩
  | disconnected en cr =>
    cases hin : s.inSession <;> cases en <;> cases cr <;>
      simp only [Qx.C12.step, hin, if_true, if_false, Bool.false_eq_true, Bool.not_false, Bool.not_true] <;>
      first
        | exact hi
        | exact ⟨hi.entries, hi.pres, hi.inner⟩
        | exact ⟨List.nodup_nil, List.nodup_nil, by intro p hp; cases hp⟩
  | response k sender ok items =>
    simp only [Qx.C12.step]
    cases hd : delivered s k sender <;> cases ok <;> simp only [if_true, if_false, Bool.false_eq_true]
    · exact hi
    · exact hi
    · exact ⟨hi.entries, hi.pres, hi.inner⟩
    · exact ⟨nodup_fromItems items, hi.pres, hi.inner⟩
  | rosterIq type sender id items =>
    simp only [Qx.C12.step]
    cases ha : authorised own sender
    · simp only [Bool.false_eq_true, if_false]; exact hi
    · cases type <;> simp only [if_true]
      · exact hi
      · refine ⟨?_, hi.pres, hi.inner⟩
        show (keys (applyItems s.entries items).1).Nodup
        rw [applyItems_fst]
        exact nodup_foldl_applyItem items _ hi.entries
      · exact hi
      · exact hi
  | presence sender type status =>
    simp only [Qx.C12.step]
    by_cases hb : bare sender = ""
    · simp only [hb, if_true]; exact hi
    · cases type <;> simp only [hb, if_false]
      · refine ⟨hi.entries, nodup_keys_insertKey _ _ _ hi.pres, ?_⟩
        exact inner_insertKey hi.inner _ _ (nodup_keys_insertKey _ _ _ (nodup_resTable hi.inner _))
      · refine ⟨hi.entries, nodup_keys_insertKey _ _ _ hi.pres, ?_⟩
        exact inner_insertKey hi.inner _ _ (nodup_keys_eraseKey _ _ (nodup_resTable hi.inner _))
      · exact hi
  | api call tracked =>
    cases call <;> simp only [Qx.C12.step] <;> first
      | exact hi
      | exact ⟨hi.entries, hi.pres, hi.inner⟩
      | (split <;> first | exact hi | exact ⟨hi.entries, hi.pres, hi.inner⟩)
  | setJid j => exact hi

theorem Inv.run (own : String) {s : St} (hi : Inv s) (ops : List Op) : Inv (run own s ops).1 := by
  induction ops generalizing s own with
  | nil => exact hi
  | cons op rest ih => rw [run_cons]; exact ih _ (hi.step own op)

/-! ### a clearing event makes everything before it irrelevant -/

theorem specView_clear_cons (pre rest : List Ev) :
    specView (pre ++ Ev.clear :: rest) = rest.foldl evStep [] := by
  rw [specView_append]
  rfl

theorem specPres_clear_cons (pre rest : List Ev) (b r : String) :
    specPres (pre ++ Ev.clear :: rest) b r = rest.foldl (pairStep b r) none := by
  rw [specPres_append]
  rfl

/-! ### `isRosterReceived` -/

def recStep (c : Bool) : Ev → Bool
  | .clear => false
  | .full _ => true
  | _ => c

theorem specReceived_snoc (evs : List Ev) (ev : Ev) :
    specReceived (evs ++ [ev]) = recStep (specReceived evs) ev := by
  cases ev <;> simp [specReceived, afterLast_snoc, Ev.isClear, Ev.isFull, recStep, List.any_append]

theorem specReceived_append (pre evs : List Ev) :
    specReceived (pre ++ evs) = evs.foldl recStep (specReceived pre) := by
  induction evs generalizing pre with
  | nil => simp
  | cons ev rest ih =>
    have h : pre ++ ev :: rest = (pre ++ [ev]) ++ rest := by simp
    rw [h, ih, specReceived_snoc]
    rfl

theorem step_received (own : String) (s : St) (op : Op) :
    (step own s op).1.received = recStep s.received (classify own s op) := by
  cases op with
  | connected sm auth =>
    by_cases h : sm = .resumed
    · simp only [step, classify, h, if_true, recStep]; split <;> rfl
    · simp only [step, classify, h, if_false, recStep]; split <;> rfl
  | disconnected en cr =>
    cases hin : s.inSession <;> cases en <;> cases cr <;> simp [step, classify, recStep, St.cleared, hin]
  | response k sender ok items =>
    simp only [step, classify]
    cases hd : delivered s k sender <;> cases ok <;> simp [recStep]
  | rosterIq type sender id items =>
    simp only [step, classify]
    cases ha : authorised own sender <;> cases type <;> simp [recStep]
  | presence sender type status =>
    simp only [step, classify]
    by_cases hb : bare sender = ""
    · simp [hb, recStep]
    · cases type <;> simp [hb, recStep]
  | api call tracked =>
    cases call <;> simp only [step, classify, recStep]
    split <;> rfl
  | setJid j => rfl

theorem run_received (own : String) (s : St) (ops : List Op) :
    (run own s ops).1.received = (trace own s ops).foldl recStep s.received := by
  induction ops generalizing s own with
  | nil => rfl
  | cons op rest ih => simp only [run_cons, trace, List.foldl_cons, ih, step_received]

/-! ### acknowledgements -/

def Out.isSentResult : Out → Bool
  | .sentResult _ _ => true
  | _ => false

theorem itemSignal_no_result (e : Entries) (it : Item) : (itemSignal e it).filter Out.isSentResult = [] := by
  unfold itemSignal
  split
  · split <;> simp [Out.isSentResult]
  · split <;> simp [Out.isSentResult]

theorem applyItems_no_result (e : Entries) (items : List Item) :
    (applyItems e items).2.filter Out.isSentResult = [] := by
  induction items generalizing e with
  | nil => rfl
  | cons it rest ih => simp only [applyItems, List.filter_append, itemSignal_no_result, ih, List.append_nil]

/-! ### session-level exactness (the property's own session boundaries, `traceS`) -/

/-- what is carried along a run: the manager's `inSession` is the history's, an established session always
lies on an intact SM chain (by the environment assumption), and on an intact chain the cache is what the
session-level specification prescribes -/
structure SessInv (s : St) (c : Chain) (E : List Ev) : Prop where
  ins : s.inSession = c.inSession
  live : c.inSession = true → c.smChain = true
  view : c.smChain = true →
    s.entries = specView E ∧ ∀ b r, lookupKey r (resTable s.presences b) = specPres E b r

theorem SessInv.init : SessInv init {} [] :=
  ⟨rfl, (by intro h; cases h), fun _ => ⟨rfl, fun _ _ => rfl⟩⟩

/-- ops other than session events: code-level and session-level classification agree, the chain does not move -/
theorem SessInv.step_plain (own : String) {s : St} {c : Chain} {E : List Ev} (h : SessInv s c E) (op : Op)
    (hin : (step own s op).1.inSession = s.inSession) (hc : c.step op = c)
    (hcl : classifyS own s op = classify own s op) :
    SessInv (step own s op).1 (c.step op) (E ++ [classifyS own s op]) := by
  rw [hc]
  refine ⟨hin.trans h.ins, h.live, ?_⟩
  intro hs
  have hv := h.view hs
  constructor
  · rw [step_entries, specView_snoc, hcl, hv.1]
  · intro b r
    rw [step_pres, specPres_snoc, hcl, hv.2]

theorem SessInv.step (own : String) {s : St} {c : Chain} {E : List Ev} (h : SessInv s c E) (op : Op)
    (henv : ∀ a, op = .connected .resumed a → c.smChain = true) :
    SessInv (step own s op).1 (c.step op) (E ++ [classifyS own s op]) := by
  cases op with
  | response k sender ok items =>
    apply h.step_plain own _ _ rfl rfl
    simp only [Qx.C12.step]
    cases delivered s k sender <;> cases ok <;> rfl
  | rosterIq type sender id items =>
    apply h.step_plain own _ _ rfl rfl
    simp only [Qx.C12.step]
    cases authorised own sender <;> cases type <;> rfl
  | presence sender type status =>
    apply h.step_plain own _ _ rfl rfl
    simp only [Qx.C12.step]
    by_cases hb : bare sender = ""
    · simp [hb]
    · cases type <;> simp [hb]
  | api call tracked =>
    apply h.step_plain own _ _ rfl rfl
    cases call <;> simp only [Qx.C12.step]
    split <;> rfl
  | setJid j => exact h.step_plain own _ rfl rfl rfl
  | connected sm auth =>
    have hin : (Qx.C12.step own s (.connected sm auth)).1.inSession = true := by
      simp only [Qx.C12.step]
      by_cases hr : sm = .resumed
      · simp only [hr, if_true]; split <;> rfl
      · simp only [hr, if_false]; split <;> rfl
    by_cases hr : sm = .resumed
    · subst hr
      have hs := henv auth rfl
      have hv := h.view hs
      have hcl : classify own s (.connected .resumed auth) = .other := by simp [classify]
      have hcs : classifyS own s (.connected .resumed auth) = .other := by simp [classifyS, classify]
      refine ⟨by rw [hin]; simp [Chain.step], by intro _; simpa [Chain.step] using hs, ?_⟩
      intro _
      constructor
      · rw [step_entries, specView_snoc, hcl, hcs, hv.1]
      · intro b r
        rw [step_pres, specPres_snoc, hcl, hcs, hv.2]
    · have hcl : classify own s (.connected sm auth) = .clear := by simp [classify, hr]
      have hcs : classifyS own s (.connected sm auth) = .clear := by simp [classifyS, classify, hr]
      refine ⟨by rw [hin]; simp [Chain.step, hr], by intro _; simp [Chain.step, hr], ?_⟩
      intro _
      constructor
      · rw [step_entries, specView_snoc, hcl, hcs]; rfl
      · intro b r
        rw [step_pres, specPres_snoc, hcl, hcs]; rfl
  | disconnected en cr =>
    have hin : (Qx.C12.step own s (.disconnected en cr)).1.inSession = false := by
      cases hi : s.inSession <;> cases en <;> cases cr <;> simp [Qx.C12.step, hi, St.cleared]
    have hcs : classifyS own s (.disconnected en cr) = .other := rfl
    refine ⟨by rw [hin]; simp [Chain.step], by intro hc; simp [Chain.step] at hc, ?_⟩
    intro hs
    have hs' : c.smChain = true ∧ (c.inSession = true → en = true) := by
      have h0 : c.smChain = true ∧ (c.inSession = false ∨ en = true) := by simpa [Chain.step] using hs
      refine ⟨h0.1, fun hci => ?_⟩
      rcases h0.2 with h1 | h1
      · rw [hci] at h1; cases h1
      · exact h1
    have hv := h.view hs'.1
    have hcl : classify own s (.disconnected en cr) = .other := by
      have : (s.inSession && !en) = false := by
        rw [h.ins]
        cases hci : c.inSession
        · rfl
        · simp [hs'.2 hci]
      simp [classify, this]
    constructor
    · rw [step_entries, specView_snoc, hcl, hcs, hv.1]
    · intro b r
      rw [step_pres, specPres_snoc, hcl, hcs, hv.2]

theorem chainFrom_cons (c : Chain) (op : Op) (ops : List Op) :
    chainFrom c (op :: ops) = chainFrom (c.step op) ops := rfl

theorem SessInv.run (own : String) (ops : List Op) {s : St} {c : Chain} {E : List Ev}
    (h : SessInv s c E) (henv : resumesOkFrom c ops = true) :
    SessInv (run own s ops).1 (chainFrom c ops) (E ++ traceS own s ops) := by
  induction ops generalizing s c E own with
  | nil =>
    show SessInv s c (E ++ [])
    rw [List.append_nil]
    exact h
  | cons op rest ih =>
    simp only [resumesOkFrom, Bool.and_eq_true] at henv
    have h1 : ∀ a, op = .connected .resumed a → c.smChain = true := by
      intro a ha; subst ha; exact henv.1
    have h2 := ih (nextOwn own op) (h.step own op h1) henv.2
    rw [run_cons, chainFrom_cons]
    simpa [traceS] using h2

/-- the environment assumption, spelled out: at every resumed connect the chain before it is intact -/
theorem resumesOkFrom_iff (c : Chain) (ops : List Op) :
    resumesOkFrom c ops = true ↔
      ∀ pre a post, ops = pre ++ Op.connected .resumed a :: post → (chainFrom c pre).smChain = true := by
  induction ops generalizing c with
  | nil =>
    constructor
    · intro _ pre a post h; simp at h
    · intro _; rfl
  | cons op rest ih =>
    simp only [resumesOkFrom, Bool.and_eq_true]
    constructor
    · rintro ⟨h1, h2⟩ pre a post heq
      cases pre with
      | nil =>
        simp only [List.nil_append, List.cons.injEq] at heq
        rw [heq.1] at h1
        exact h1
      | cons p pre' =>
        simp only [List.cons_append, List.cons.injEq] at heq
        rw [chainFrom_cons, ← heq.1]
        exact (ih (c.step op)).mp h2 pre' a post heq.2
    · intro h
      constructor
      · cases op with
        | connected sm auth =>
          cases sm with
          | resumed => exact h [] auth rest rfl
          | none_ => rfl
          | new => rfl
        | disconnected en cr => rfl
        | response k sender ok items => rfl
        | rosterIq type sender id items => rfl
        | presence sender type status => rfl
        | api call tracked => rfl
        | setJid j => rfl
      · apply (ih (c.step op)).mpr
        intro pre a post heq
        have := h (op :: pre) a post (by rw [heq]; rfl)
        simpa [chainFrom_cons] using this

/-! ### the observer's events (`wireTrace`) are the model's events (`trace`) -/

theorem askedNow_nil (own : String) : askedNow own [] = [] := rfl

theorem askedNow_itemSignal (own : String) (e : Entries) (it : Item) : askedNow own (itemSignal e it) = [] := by
  unfold itemSignal
  split
  · split <;> rfl
  · split <;> rfl

theorem askedNow_append (own : String) (a b : List Out) :
    askedNow own (a ++ b) = askedNow own a ++ askedNow own b := by
  simp [askedNow, List.filterMap_append]

theorem askedNow_applyItems (own : String) (e : Entries) (items : List Item) :
    askedNow own (applyItems e items).2 = [] := by
  induction items generalizing e with
  | nil => rfl
  | cons it rest ih => simp only [applyItems, askedNow_append, askedNow_itemSignal, ih, List.append_nil]

/-- one step keeps the observer's bookkeeping equal to the model's (outstanding requests, session flag), and on
equal bookkeeping both classify the operation alike -/
theorem wire_step (own : String) (s : St) (w : Wire) (op : Op)
    (h1 : w.asked = s.pending) (h2 : w.inSession = s.inSession) :
    wireEvent own w op = classify own s op
    ∧ (w.step own op (step own s op).2).asked = (step own s op).1.pending
    ∧ (w.step own op (step own s op).2).inSession = (step own s op).1.inSession := by
  cases op with
  | connected sm auth =>
    refine ⟨rfl, ?_, ?_⟩
    · by_cases hr : sm = .resumed
      · simp only [Qx.C12.step, Wire.step, hr, if_true]
        split <;> simp [askedNow, h1]
      · simp only [Qx.C12.step, Wire.step, hr, if_false]
        split <;> simp [askedNow, St.cleared]
    · by_cases hr : sm = .resumed
      · simp only [Qx.C12.step, Wire.step, hr, if_true]; split <;> rfl
      · simp only [Qx.C12.step, Wire.step, hr, if_false]; split <;> rfl
  | disconnected en cr =>
    refine ⟨by simp [wireEvent, classify, h2], ?_, ?_⟩
    · cases hin : s.inSession <;> cases en <;> cases cr <;>
        simp [Qx.C12.step, Wire.step, hin, askedNow, h1, St.cleared]
    · cases hin : s.inSession <;> cases en <;> cases cr <;>
        simp [Qx.C12.step, Wire.step, hin, St.cleared]
  | response k sender ok items =>
    refine ⟨by simp [wireEvent, classify, delivered, h1], ?_, ?_⟩
    · simp only [Qx.C12.step, Wire.step, delivered, h1]
      cases answers s.pending k sender <;> cases ok <;> simp [askedNow, h1]
    · simp only [Qx.C12.step, Wire.step, delivered, h1]
      cases answers s.pending k sender <;> cases ok <;> simp [h2]
  | rosterIq type sender id items =>
    refine ⟨by simp [wireEvent, classify, authorised], ?_, ?_⟩
    · simp only [Qx.C12.step, Wire.step]
      cases authorised own sender
      · cases type <;> simp [askedNow, h1]
      · cases type with
        | set =>
          have hz := askedNow_applyItems own s.entries items
          show w.asked ++ askedNow own ([Out.sentResult id sender] ++ (applyItems s.entries items).2) = s.pending
          rw [askedNow_append, hz]
          simp [askedNow, h1]
        | get => simp [askedNow, h1]
        | result => simp [askedNow, h1]
        | error => simp [askedNow, h1]
    · simp only [Qx.C12.step, Wire.step]
      cases authorised own sender <;> cases type <;> simp [h2]
  | presence sender type status =>
    refine ⟨rfl, ?_, ?_⟩
    · simp only [Qx.C12.step, Wire.step]
      by_cases hb : bare sender = ""
      · simp [hb, askedNow, h1]
      · cases type <;> simp [hb, askedNow, h1]
    · simp only [Qx.C12.step, Wire.step]
      by_cases hb : bare sender = ""
      · simp [hb, h2]
      · cases type <;> simp [hb, h2]
  | api call tracked =>
    refine ⟨rfl, ?_, ?_⟩
    · cases call <;> simp only [Qx.C12.step, Wire.step]
      all_goals (first | (split <;> simp [askedNow, h1]) | simp [askedNow, h1])
    · cases call <;> simp only [Qx.C12.step, Wire.step]
      all_goals (first | (split <;> simp [h2]) | simp [h2])
  | setJid j => exact ⟨rfl, by simp [Qx.C12.step, Wire.step, askedNow, h1], by simp [Qx.C12.step, Wire.step, h2]⟩

theorem wireTrace_eq_trace (own : String) (s : St) (w : Wire) (ops : List Op)
    (h1 : w.asked = s.pending) (h2 : w.inSession = s.inSession) :
    wireTrace own s w ops = trace own s ops := by
  induction ops generalizing s w own with
  | nil => rfl
  | cons op rest ih =>
    have h := wire_step own s w op h1 h2
    simp only [wireTrace, trace]
    rw [h.1, ih _ _ _ h.2.1 h.2.2]

/-! ### only clearing, full-roster and push events matter for the contact list -/

def Ev.isRosterEv : Ev → Bool
  | .clear => true
  | .full _ => true
  | .push _ => true
  | _ => false

theorem foldl_evStep_filter (evs : List Ev) (e : Entries) :
    (evs.filter Ev.isRosterEv).foldl evStep e = evs.foldl evStep e := by
  induction evs generalizing e with
  | nil => rfl
  | cons ev rest ih => cases ev <;> simp [List.filter_cons, Ev.isRosterEv, evStep, ih]

theorem specView_filter (evs : List Ev) : specView (evs.filter Ev.isRosterEv) = specView evs := by
  rw [specView_eq_fold, specView_eq_fold, foldl_evStep_filter]

/-! ### answers -/

theorem answers_iff (asked : List (Nat × String)) (k : Nat) (sender : String) :
    answers asked k sender = true ↔ ∃ to, (k, to) ∈ asked ∧ (sender = "" ∨ sender = to) := by
  simp only [answers, List.any_eq_true, Bool.and_eq_true, Bool.or_eq_true, decide_eq_true_eq]
  constructor
  · rintro ⟨p, hp, hk, hs⟩
    refine ⟨p.2, ?_, hs⟩
    rw [← hk]; exact hp
  · rintro ⟨to, hp, hs⟩
    exact ⟨(k, to), hp, rfl, hs⟩

theorem answers_dropReq (asked : List (Nat × String)) (k : Nat) (sender : String) :
    answers (dropReq asked k) k sender = false := by
  rw [Bool.eq_false_iff]
  intro h
  obtain ⟨to, hm, _⟩ := (answers_iff _ _ _).mp h
  simp [dropReq, List.mem_filter] at hm

/-- request numbers are handed out in order: everything outstanding is below the counter -/
def PendInv (s : St) : Prop := ∀ p ∈ s.pending, p.1 < s.nextReq

theorem PendInv.init : PendInv init := by intro p hp; cases hp

theorem PendInv.step (own : String) {s : St} (hi : PendInv s) (op : Op) : PendInv (step own s op).1 := by
  have hmono : ∀ {l : List (Nat × String)} {n : Nat}, (∀ p ∈ l, p.1 < n) → ∀ p ∈ l, p.1 < n + 1 :=
    fun h p hp => Nat.lt_succ_of_lt (h p hp)
  cases op with
  | connected sm auth =>
    by_cases hr : sm = .resumed
    · simp only [Qx.C12.step, hr, if_true]
      split
      · intro p hp
        simp only [List.mem_append, List.mem_singleton] at hp
        rcases hp with hp | hp
        · exact Nat.lt_succ_of_lt (hi p hp)
        · rw [hp]; exact Nat.lt_succ_self _
      · exact hi
    · simp only [Qx.C12.step, hr, if_false]
      split
      · intro p hp
        simp only [St.cleared, List.nil_append, List.mem_singleton] at hp
        rw [hp]; exact Nat.lt_succ_self _
      · intro p hp; cases hp
  | disconnected en cr =>
    cases hin : s.inSession <;> cases en <;> cases cr <;>
      simp only [Qx.C12.step, hin, if_true, if_false, Bool.false_eq_true, Bool.not_false, Bool.not_true,
        St.cleared] <;>
      first
        | exact hi
        | (intro p hp; cases hp)
  | response k sender ok items =>
    simp only [Qx.C12.step]
    cases delivered s k sender <;> cases ok <;> simp only [if_true, if_false, Bool.false_eq_true]
    · exact hi
    · exact hi
    · intro p hp; exact hi p (List.mem_filter.mp hp).1
    · intro p hp; exact hi p (List.mem_filter.mp hp).1
  | rosterIq type sender id items =>
    simp only [Qx.C12.step]
    cases authorised own sender <;> cases type <;> simp only [if_true, if_false, Bool.false_eq_true] <;> exact hi
  | presence sender type status =>
    simp only [Qx.C12.step]
    by_cases hb : bare sender = ""
    · simp only [hb, if_true]; exact hi
    · cases type <;> simp only [hb, if_false] <;> exact hi
  | api call tracked =>
    cases call <;> simp only [Qx.C12.step] <;> first
      | exact hi
      | exact hmono hi
      | (split <;> first | exact hi | exact hmono hi)
  | setJid j => exact hi

theorem PendInv.run (own : String) {s : St} (hi : PendInv s) (ops : List Op) : PendInv (run own s ops).1 := by
  induction ops generalizing s own with
  | nil => exact hi
  | cons op rest ih => rw [run_cons]; exact ih _ (hi.step own op)

end Qx.C12
