import Qx.Model.C04Negotiation
/-!
# C04 — helper lemmas

`NC s` ("not clear"): nothing the client writes in state `s` can reach the wire unencrypted — the socket is
either not connected or encrypted.  Every building block of the model keeps `NC` and tags its sends with the
link of an `NC` state; only `socketConnected` (a new TCP connection) and nothing else makes a link clear again.
-/
namespace Qx.C04

/-- an output that is a send over the unencrypted wire -/
def Out.isClear : Out → Bool
  | .sent _ .clear => true
  | _ => false

/-- kinds that may be sent before TLS when TLS is required -/
def Kind.preTlsOk : Kind → Bool
  | .streamOpen | .startTls | .streamClose => true
  | _ => false

/-- the property of one output: if it went over the wire in clear it is stream open / starttls / stream close -/
def Out.clearOk : Out → Prop
  | .sent k .clear => k.preTlsOk = true
  | _ => True

def NC (s : St) : Prop := s.conn = .connected → s.encrypted = true

def NCout (os : List Out) : Prop := ∀ o ∈ os, o.isClear = false

theorem NCout.nil : NCout [] := by intro o h; cases h

theorem NCout.append {a b : List Out} (ha : NCout a) (hb : NCout b) : NCout (a ++ b) := by
  intro o h
  rcases List.mem_append.mp h with h | h
  · exact ha o h
  · exact hb o h

theorem NCout.cons {o : Out} {b : List Out} (ho : o.isClear = false) (hb : NCout b) : NCout (o :: b) := by
  intro x h
  rcases List.mem_cons.mp h with h | h
  · subst h; exact ho
  · exact hb x h

theorem NCout.clearOk {os : List Out} (h : NCout os) : ∀ o ∈ os, o.clearOk := by
  intro o ho
  have := h o ho
  cases o with
  | sent k l => cases l <;> simp_all [Out.isClear, Out.clearOk]
  | sig s => simp [Out.clearOk]

theorem send_nc {s : St} (h : NC s) (k : Kind) : (send s k).isClear = false := by
  unfold NC at h
  by_cases hc : s.conn = .connected
  · simp [send, link, Out.isClear, hc, h hc]
  · simp [send, link, Out.isClear, hc]

theorem sig_nc (x : Signal) : (Out.sig x).isClear = false := rfl

theorem iqDones_nc (n : Nat) : NCout (iqDones n) := by
  intro o h
  simp [iqDones, List.mem_replicate] at h
  rw [h.2]; rfl

/-- a function keeps the link non-clear and emits nothing in clear -/
def KeepsNC (f : St → R) : Prop := ∀ s, NC s → NCout (f s).2 ∧ NC (f s).1

theorem sendStanza_nc (k : Kind) (s : St) (h : NC s) : NCout (sendStanza s k).2 ∧ NC (sendStanza s k).1 := by
  unfold sendStanza
  split
  · exact ⟨NCout.cons (send_nc h _) (NCout.cons (send_nc h _) NCout.nil), h⟩
  · exact ⟨NCout.cons (send_nc h _) NCout.nil, h⟩

theorem enableAck_nc : KeepsNC enableAck := by
  intro s h
  unfold enableAck
  refine ⟨?_, h⟩
  dsimp only
  split
  · exact NCout.nil
  · apply NCout.append
    · intro o ho
      rcases List.mem_map.mp ho with ⟨k, _, rfl⟩
      exact send_nc h k
    · exact NCout.cons (send_nc h _) NCout.nil

theorem closeSession_nc : KeepsNC closeSession := by
  intro s h
  unfold closeSession
  exact ⟨NCout.append (iqDones_nc _) (NCout.cons (sig_nc _) NCout.nil), h⟩

/-- after the socket is gone nothing is clear, whatever the state was -/
theorem onSocketDisconnected_down (s : St) (h : s.conn = .disconnected) :
    NCout (onSocketDisconnected s).2 ∧ (onSocketDisconnected s).1.conn ≠ .connected := by
  unfold onSocketDisconnected
  dsimp only
  split
  · refine ⟨NCout.nil, ?_⟩
    dsimp only
    split <;> simp
  · have hnc : NC { s with authenticated := false } := by intro hc; simp [h] at hc
    refine ⟨(closeSession_nc _ hnc).1, ?_⟩
    simp [closeSession, h]

theorem nc_of_not_connected {s : St} (h : s.conn ≠ .connected) : NC s := fun hc => absurd hc h

/-- `socketClose` from ANY state: the only thing it may put on a clear wire is the stream close -/
theorem socketClose_spec (s : St) :
    (∀ o ∈ (socketClose s).2, o.clearOk) ∧ NC (socketClose s).1 ∨
    (s.conn ≠ .connected ∧ socketClose s = (s, [])) := by
  unfold socketClose
  split
  · left
    have hd := onSocketDisconnected_down { s with conn := .disconnected } rfl
    refine ⟨?_, nc_of_not_connected hd.2⟩
    intro o ho
    rcases List.mem_cons.mp ho with ho | ho
    · subst ho
      unfold send link
      split <;> (try split) <;> simp [Out.clearOk, Kind.preTlsOk]
    · exact NCout.clearOk hd.1 o ho
  · right; exact ⟨by assumption, rfl⟩

theorem socketClose_nc : KeepsNC socketClose := by
  intro s h
  unfold socketClose
  split
  · have hd := onSocketDisconnected_down { s with conn := .disconnected } rfl
    exact ⟨NCout.cons (send_nc h _) hd.1, nc_of_not_connected hd.2⟩
  · exact ⟨NCout.nil, h⟩

theorem disconnectFromHost_nc : KeepsNC disconnectFromHost := by
  intro s h
  unfold disconnectFromHost
  exact socketClose_nc _ (by simpa [NC] using h)

theorem reject_nc : KeepsNC reject := by
  intro s h
  unfold reject
  have := disconnectFromHost_nc s h
  exact ⟨NCout.cons (sig_nc _) this.1, this.2⟩

theorem failAuth_nc : KeepsNC failAuth := by
  intro s h
  unfold failAuth
  have := disconnectFromHost_nc s h
  exact ⟨NCout.cons (sig_nc _) this.1, by simpa [NC] using this.2⟩

theorem csiSendState_nc : KeepsNC csiSendState := by
  intro s h
  unfold csiSendState
  split
  · exact ⟨NCout.cons (send_nc h _) NCout.nil, by simpa [NC] using h⟩
  · exact ⟨NCout.nil, by simpa [NC] using h⟩

theorem csiOnSessionOpened_nc (b : Bool) (s : St) (h : NC s) :
    NCout (csiOnSessionOpened s b).2 ∧ NC (csiOnSessionOpened s b).1 := by
  unfold csiOnSessionOpened
  split
  · split
    · exact ⟨NCout.nil, h⟩
    · exact csiSendState_nc s h
  · split
    · exact ⟨NCout.nil, by simpa [NC] using h⟩
    · exact csiSendState_nc s h

theorem openSession_nc : KeepsNC openSession := by
  intro s h
  unfold openSession
  dsimp only
  -- the intermediate states differ from `s` only in fields `NC` does not look at
  generalize hs2 : (if ({ s with sessionStarted := true, bind2Bound := false } : St).smResumed = true
      then ({ s with sessionStarted := true, bind2Bound := false } : St)
      else { ({ s with sessionStarted := true, bind2Bound := false } : St) with pendingIq := 0 }) = s2
  have h2 : NC s2 := by
    subst hs2
    split <;> simpa [NC] using h
  have r3 := csiOnSessionOpened_nc s.bind2Bound s2 h2
  generalize csiOnSessionOpened s2 s.bind2Bound = r3v at r3
  have r4 : NCout (if r3v.1.authenticated = true then sendStanza r3v.1 (.iqRequest true) else (r3v.1, [])).2 ∧
      NC (if r3v.1.authenticated = true then sendStanza r3v.1 (.iqRequest true) else (r3v.1, [])).1 := by
    split
    · exact sendStanza_nc _ _ r3.2
    · exact ⟨NCout.nil, r3.2⟩
  generalize (if r3v.1.authenticated = true then sendStanza r3v.1 (.iqRequest true) else (r3v.1, [])) = r4v at r4
  have r5 : NCout (if r4v.1.authenticated = true ∧ ¬ r4v.1.smResumed = true then sendStanza r4v.1 .presence else (r4v.1, [])).2 ∧
      NC (if r4v.1.authenticated = true ∧ ¬ r4v.1.smResumed = true then sendStanza r4v.1 .presence else (r4v.1, [])).1 := by
    split
    · exact sendStanza_nc _ _ r4.2
    · exact ⟨NCout.nil, r4.2⟩
  refine ⟨?_, r5.2⟩
  refine NCout.append (NCout.append (NCout.append (NCout.append ?_ r3.1) r4.1) (NCout.cons (sig_nc _) NCout.nil)) r5.1
  split
  · exact NCout.nil
  · exact iqDones_nc _

/-- a record update that touches neither `conn` nor `encrypted`, followed by sends in the old state -/
theorem nc_upd {s s' : St} (h : NC s) (hc : s'.conn = s.conn) (he : s'.encrypted = s.encrypted) : NC s' := by
  unfold NC at *; rw [hc, he]; exact h

theorem handleStart_nc : KeepsNC handleStart := by
  intro s h
  unfold handleStart
  have h1 : NC { s with streamIdSet := false, streamVersionSet := false, listener := .idle, smEnabled := false, smResumed := false } :=
    nc_upd h rfl rfl
  exact ⟨NCout.cons (send_nc h1 _) NCout.nil, h1⟩

theorem startNonSaslAuth_nc : KeepsNC startNonSaslAuth := by
  intro s h
  exact ⟨NCout.cons (send_nc h _) NCout.nil, nc_upd h rfl rfl⟩

theorem handleStream_nc (v i : Bool) (s : St) (h : NC s) : NCout (handleStream s v i).2 ∧ NC (handleStream s v i).1 := by
  unfold handleStream
  dsimp only
  split
  · exact ⟨NCout.nil, nc_upd h rfl rfl⟩
  · split
    · exact startNonSaslAuth_nc _ (nc_upd h rfl rfl)
    · exact ⟨NCout.nil, nc_upd h rfl rfl⟩

theorem startSasl_nc (m : Mech) (s : St) (h : NC s) : NCout (startSasl s m).2 ∧ NC (startSasl s m).1 := by
  unfold startSasl
  split
  · exact ⟨NCout.cons (send_nc h _) NCout.nil, nc_upd h rfl rfl⟩
  · have := disconnectFromHost_nc { s with listener := .saslDead } (nc_upd h rfl rfl)
    exact ⟨NCout.cons (sig_nc _) this.1, this.2⟩

theorem startSasl2_nc (z : S2Feat) (s : St) (h : NC s) : NCout (startSasl2 s z).2 ∧ NC (startSasl2 s z).1 := by
  unfold startSasl2
  dsimp only
  have h1 : NC (if z.bind2 = true then { s with bind2InactiveSet := s.cfg.inactive && z.bind2Ext } else s) := by
    split
    · exact nc_upd h rfl rfl
    · exact h
  generalize (if z.bind2 = true then { s with bind2InactiveSet := s.cfg.inactive && z.bind2Ext } else s) = s1 at h1
  split
  · exact ⟨NCout.cons (send_nc (nc_upd h1 rfl rfl) _) NCout.nil, nc_upd h1 rfl rfl⟩
  · have := disconnectFromHost_nc
      { ({ s1 with tokenRequested := (z.fast && s1.cfg.fastUa) && !s1.hasToken } : St) with listener := .sasl2Dead }
      (nc_upd h1 rfl rfl)
    exact ⟨NCout.cons (sig_nc _) this.1, this.2⟩

theorem startBind_nc : KeepsNC startBind := fun _ h => ⟨NCout.cons (send_nc h _) NCout.nil, nc_upd h rfl rfl⟩
theorem startSmEnable_nc : KeepsNC startSmEnable := fun _ h => ⟨NCout.cons (send_nc h _) NCout.nil, nc_upd h rfl rfl⟩
theorem startSmResume_nc : KeepsNC startSmResume := fun _ h => ⟨NCout.cons (send_nc h _) NCout.nil, nc_upd h rfl rfl⟩

theorem handleStarttls_nc (f : Features) (s : St) (h : NC s) :
    ∀ r, handleStarttls s f = some r → NCout r.2 ∧ NC r.1 := by
  intro r hr
  unfold handleStarttls at hr
  split at hr
  · cases hr
  · split at hr
    · cases hr; exact disconnectFromHost_nc s h
    · split at hr
      · cases hr; exact disconnectFromHost_nc s h
      · split at hr
        · cases hr; exact ⟨NCout.cons (send_nc h _) NCout.nil, nc_upd h rfl rfl⟩
        · cases hr

theorem handleFeatures_nc (f : Features) (s : St) (h : NC s) :
    NCout (handleFeatures s f).2 ∧ NC (handleFeatures s f).1 := by
  unfold handleFeatures
  split
  · rename_i r hr; exact handleStarttls_nc f s h r hr
  · split
    · exact startSasl2_nc _ s h
    · split
      · exact startSasl_nc _ s h
      · split
        · exact startNonSaslAuth_nc s h
        · have h1 : NC { s with bindAvail := f.bind, smAvail := f.sm, csiAvail := f.csi } := nc_upd h rfl rfl
          dsimp only
          split
          · exact startSmResume_nc _ h1
          · split
            · exact startBind_nc _ h1
            · split
              · exact startSmEnable_nc _ h1
              · exact openSession_nc _ h1

theorem onSmEnabled_nc (b : Bool) (s : St) (h : NC s) : NCout (onSmEnabled s b).2 ∧ NC (onSmEnabled s b).1 :=
  enableAck_nc _ (nc_upd h rfl rfl)

theorem onSmResumed_nc (s : St) (h : NC s) : NCout (onSmResumed s).2 ∧ NC (onSmResumed s).1 :=
  enableAck_nc _ (nc_upd h rfl rfl)

theorem idleHandle_nc (e : El) (s : St) (h : NC s) : NCout (idleHandle s e).2 ∧ NC (idleHandle s e).1 := by
  unfold idleHandle
  split
  · exact handleFeatures_nc _ s h
  · exact socketClose_nc _ (nc_upd h rfl rfl)
  · exact ⟨NCout.cons (sig_nc _) NCout.nil, h⟩
  · exact sendStanza_nc _ s h
  · exact sendStanza_nc _ s h
  · split
    · exact ⟨NCout.nil, h⟩
    · exact ⟨NCout.cons (sig_nc _) NCout.nil, nc_upd h rfl rfl⟩
  · exact ⟨NCout.nil, h⟩
  · exact ⟨NCout.nil, h⟩
  · exact ⟨NCout.nil, h⟩
  · exact reject_nc s h

theorem starttlsHandle_nc (e : El) (s : St) (h : NC s) : NCout (starttlsHandle s e).2 ∧ NC (starttlsHandle s e).1 := by
  unfold starttlsHandle
  split
  · exact handleStart_nc _ (by intro _; rfl)
  · have hd := onSocketDisconnected_down { s with conn := .disconnected, listener := .idle } rfl
    exact ⟨NCout.cons (sig_nc _) hd.1, nc_of_not_connected hd.2⟩
  · exact reject_nc s h

theorem nonSaslHandle_nc (e : El) (s : St) (h : NC s) : NCout (nonSaslHandle s e).2 ∧ NC (nonSaslHandle s e).1 := by
  unfold nonSaslHandle
  split
  · split
    · exact ⟨NCout.cons (send_nc h _) NCout.nil, nc_upd h rfl rfl⟩
    · have := disconnectFromHost_nc s h
      exact ⟨this.1, nc_upd this.2 rfl rfl⟩
  · have := disconnectFromHost_nc s h
    exact ⟨this.1, nc_upd this.2 rfl rfl⟩
  · exact reject_nc s h

theorem saslHandle_nc (m : Used) (fr : Bool) (e : El) (s : St) (h : NC s) :
    NCout (saslHandle s m fr e).2 ∧ NC (saslHandle s m fr e).1 := by
  unfold saslHandle
  split
  · exact handleStart_nc _ (nc_upd h rfl rfl)
  · split
    · exact ⟨NCout.cons (send_nc h _) NCout.nil, nc_upd h rfl rfl⟩
    · exact failAuth_nc s h
  · exact failAuth_nc s h
  · exact reject_nc s h

theorem sasl2Handle_nc (m : Used) (fr : Bool) (e : El) (s : St) (h : NC s) :
    NCout (sasl2Handle s m fr e).2 ∧ NC (sasl2Handle s m fr e).1 := by
  unfold sasl2Handle
  split
  · split
    · exact ⟨NCout.cons (send_nc h _) NCout.nil, nc_upd h rfl rfl⟩
    · exact failAuth_nc s h
  · rename_i b r tok
    dsimp only
    have h1 : NC { s with authenticated := true, bind2Bound := decide (b ≠ .none),
                          hasToken := s.hasToken || (tok && (s.tokenRequested || s.hasToken)) } := nc_upd h rfl rfl
    generalize ({ s with authenticated := true, bind2Bound := decide (b ≠ .none),
                          hasToken := s.hasToken || (tok && (s.tokenRequested || s.hasToken)) } : St) = s1 at h1
    have r2 : NCout (if r = .resumed then onSmResumed s1 else (s1, [])).2 ∧ NC (if r = .resumed then onSmResumed s1 else (s1, [])).1 := by
      split
      · exact onSmResumed_nc s1 h1
      · exact ⟨NCout.nil, h1⟩
    generalize (if r = .resumed then onSmResumed s1 else (s1, [])) = r2v at r2
    have r3 : NCout (if b = .smEnabled then onSmEnabled r2v.1 true else (r2v.1, [])).2 ∧
        NC (if b = .smEnabled then onSmEnabled r2v.1 true else (r2v.1, [])).1 := by
      split
      · exact onSmEnabled_nc _ _ r2.2
      · exact ⟨NCout.nil, r2.2⟩
    generalize (if b = .smEnabled then onSmEnabled r2v.1 true else (r2v.1, [])) = r3v at r3
    have r4 : NCout (if r = .resumed then openSession r3v.1 else (r3v.1, [])).2 ∧
        NC (if r = .resumed then openSession r3v.1 else (r3v.1, [])).1 := by
      split
      · exact openSession_nc _ r3.2
      · exact ⟨NCout.nil, r3.2⟩
    exact ⟨NCout.append (NCout.append r2.1 r3.1) r4.1, nc_upd r4.2 rfl rfl⟩
  · exact failAuth_nc s h
  · exact ⟨NCout.cons (send_nc h _) NCout.nil, h⟩
  · exact reject_nc s h

theorem smResumeHandle_nc (e : El) (s : St) (h : NC s) : NCout (smResumeHandle s e).2 ∧ NC (smResumeHandle s e).1 := by
  unfold smResumeHandle
  split
  · have r1 := onSmResumed_nc s h
    have r2 := openSession_nc _ r1.2
    exact ⟨NCout.append r1.1 r2.1, nc_upd r2.2 rfl rfl⟩
  · split
    · exact startBind_nc s h
    · have r := openSession_nc s h
      exact ⟨r.1, nc_upd r.2 rfl rfl⟩
  · exact reject_nc s h

theorem smEnableHandle_nc (e : El) (s : St) (h : NC s) : NCout (smEnableHandle s e).2 ∧ NC (smEnableHandle s e).1 := by
  unfold smEnableHandle
  split
  · rename_i resume
    have r1 := onSmEnabled_nc resume s h
    have r2 := openSession_nc _ r1.2
    exact ⟨NCout.append r1.1 r2.1, nc_upd r2.2 rfl rfl⟩
  · have r := openSession_nc s h
    exact ⟨r.1, nc_upd r.2 rfl rfl⟩
  · exact reject_nc s h

theorem bindHandle_nc (e : El) (s : St) (h : NC s) : NCout (bindHandle s e).2 ∧ NC (bindHandle s e).1 := by
  unfold bindHandle
  split
  · split
    · exact startSmEnable_nc s h
    · have r := openSession_nc s h
      exact ⟨r.1, nc_upd r.2 rfl rfl⟩
  · exact failAuth_nc s h
  · exact failAuth_nc s h
  · exact reject_nc s h

theorem dispatch_nc (e : El) (s : St) (h : NC s) : NCout (dispatch s e).2 ∧ NC (dispatch s e).1 := by
  unfold dispatch
  split
  · exact idleHandle_nc e s h
  · exact starttlsHandle_nc e s h
  · exact nonSaslHandle_nc e s h
  · exact saslHandle_nc _ _ e s h
  · exact reject_nc s h
  · exact sasl2Handle_nc _ _ e s h
  · exact reject_nc s h
  · exact smResumeHandle_nc e s h
  · exact smEnableHandle_nc e s h
  · exact bindHandle_nc e s h

theorem recv_nc (e : El) (s : St) (h : NC s) : NCout (recv s e).2 ∧ NC (recv s e).1 := by
  unfold recv
  split
  · exact ⟨NCout.nil, h⟩
  · split
    · exact handleStream_nc _ _ _ (nc_upd h rfl rfl)
    · split
      · exact ⟨NCout.nil, nc_upd h rfl rfl⟩
      · split
        · exact disconnectFromHost_nc s h
        · exact dispatch_nc e s h

theorem sendIq_nc (s : St) (h : NC s) : NCout (sendIq s).2 ∧ NC (sendIq s).1 := by
  unfold sendIq
  have r := sendStanza_nc (.iqRequest false) s h
  dsimp only
  split
  · exact ⟨NCout.append r.1 (NCout.cons (sig_nc _) NCout.nil), r.2⟩
  · exact ⟨r.1, nc_upd r.2 rfl rfl⟩

end Qx.C04
