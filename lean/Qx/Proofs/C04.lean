import Qx.Model.C04Negotiation
/-!
# C04 — helper lemmas

`NC s` ("not clear"): nothing the client writes in state `s` can reach the wire unencrypted — the socket is
either not connected or encrypted.  Every building block of the model keeps `NC` and tags its sends with the
link of an `NC` state; only `socketConnected` (a new TCP connection) and nothing else makes a link clear again.
-/
namespace Qx.C04

/-- an output that is a send over the unencrypted wire -/
def Out.isClear : Out → Bool
  | .sent _ .clear => true
  | _ => false

/-- kinds that may be sent before TLS when TLS is required -/
def Kind.preTlsOk : Kind → Bool
  | .streamOpen | .startTls | .streamClose => true
  | _ => false

/-- the property of one output: if it went over the wire in clear it is stream open / starttls / stream close -/
def Out.clearOk : Out → Prop
  | .sent k .clear => k.preTlsOk = true
  | _ => True

def NC (s : St) : Prop := s.conn = .connected → s.encrypted = true

def NCout (os : List Out) : Prop := ∀ o ∈ os, o.isClear = false

theorem NCout.nil : NCout [] := by intro o h; cases h

theorem NCout.append {a b : List Out} (ha : NCout a) (hb : NCout b) : NCout (a ++ b) := by
  intro o h
  rcases List.mem_append.mp h with h | h
  · exact ha o h
  · exact hb o h

theorem NCout.cons {o : Out} {b : List Out} (ho : o.isClear = false) (hb : NCout b) : NCout (o :: b) := by
  intro x h
  rcases List.mem_cons.mp h with h | h
  · subst h; exact ho
  · exact hb x h

theorem NCout.clearOk {os : List Out} (h : NCout os) : ∀ o ∈ os, o.clearOk := by
  intro o ho
  have := h o ho
  cases o with
  | sent k l => cases l <;> simp_all [Out.isClear, Out.clearOk]
  | sig s => simp [Out.clearOk]

theorem send_nc {s : St} (h : NC s) (k : Kind) : (send s k).isClear = false := by
  unfold NC at h
  by_cases hc : s.conn = .connected
  · simp [send, link, Out.isClear, hc, h hc]
  · simp [send, link, Out.isClear, hc]

theorem sig_nc (x : Signal) : (Out.sig x).isClear = false := rfl

theorem iqDones_nc (n : Nat) : NCout (iqDones n) := by
  intro o h
  simp [iqDones, List.mem_replicate] at h
  rw [h.2]; rfl

/-! ### frame of the request functions: `sendIq` / `retryN` only touch the request counter and the queue of unacknowledged stanzas -/

theorem sendIq_state (s : St) : ∃ p u, (sendIq s).1 = { s with pendingIq := p, unacked := u } := by
  unfold sendIq sendStanza
  dsimp only
  (repeat' split) <;> exact ⟨_, _, rfl⟩

theorem retryN_state (n : Nat) (s : St) : ∃ p u, (retryN n s).1 = { s with pendingIq := p, unacked := u } := by
  induction n generalizing s with
  | zero => exact ⟨_, _, rfl⟩
  | succ n ih =>
    obtain ⟨p1, u1, e1⟩ := sendIq_state s
    obtain ⟨p2, u2, e2⟩ := ih (sendIq s).1
    refine ⟨p2, u2, ?_⟩
    show (retryN n (sendIq s).1).1 = _
    rw [e2, e1]

@[simp] theorem retryN_cfg (n : Nat) (s : St) : (retryN n s).1.cfg = s.cfg := by
  obtain ⟨p, u, e⟩ := retryN_state n s; rw [e]
@[simp] theorem retryN_conn (n : Nat) (s : St) : (retryN n s).1.conn = s.conn := by
  obtain ⟨p, u, e⟩ := retryN_state n s; rw [e]
@[simp] theorem retryN_encrypted (n : Nat) (s : St) : (retryN n s).1.encrypted = s.encrypted := by
  obtain ⟨p, u, e⟩ := retryN_state n s; rw [e]
@[simp] theorem retryN_headerSeen (n : Nat) (s : St) : (retryN n s).1.headerSeen = s.headerSeen := by
  obtain ⟨p, u, e⟩ := retryN_state n s; rw [e]
@[simp] theorem retryN_wedged (n : Nat) (s : St) : (retryN n s).1.wedged = s.wedged := by
  obtain ⟨p, u, e⟩ := retryN_state n s; rw [e]
@[simp] theorem retryN_listener (n : Nat) (s : St) : (retryN n s).1.listener = s.listener := by
  obtain ⟨p, u, e⟩ := retryN_state n s; rw [e]
@[simp] theorem retryN_streamIdSet (n : Nat) (s : St) : (retryN n s).1.streamIdSet = s.streamIdSet := by
  obtain ⟨p, u, e⟩ := retryN_state n s; rw [e]
@[simp] theorem retryN_streamVersionSet (n : Nat) (s : St) : (retryN n s).1.streamVersionSet = s.streamVersionSet := by
  obtain ⟨p, u, e⟩ := retryN_state n s; rw [e]
@[simp] theorem retryN_authenticated (n : Nat) (s : St) : (retryN n s).1.authenticated = s.authenticated := by
  obtain ⟨p, u, e⟩ := retryN_state n s; rw [e]
@[simp] theorem retryN_sessionStarted (n : Nat) (s : St) : (retryN n s).1.sessionStarted = s.sessionStarted := by
  obtain ⟨p, u, e⟩ := retryN_state n s; rw [e]
@[simp] theorem retryN_bindAvail (n : Nat) (s : St) : (retryN n s).1.bindAvail = s.bindAvail := by
  obtain ⟨p, u, e⟩ := retryN_state n s; rw [e]
@[simp] theorem retryN_smAvail (n : Nat) (s : St) : (retryN n s).1.smAvail = s.smAvail := by
  obtain ⟨p, u, e⟩ := retryN_state n s; rw [e]
@[simp] theorem retryN_csiAvail (n : Nat) (s : St) : (retryN n s).1.csiAvail = s.csiAvail := by
  obtain ⟨p, u, e⟩ := retryN_state n s; rw [e]
@[simp] theorem retryN_smEnabled (n : Nat) (s : St) : (retryN n s).1.smEnabled = s.smEnabled := by
  obtain ⟨p, u, e⟩ := retryN_state n s; rw [e]
@[simp] theorem retryN_smResumed (n : Nat) (s : St) : (retryN n s).1.smResumed = s.smResumed := by
  obtain ⟨p, u, e⟩ := retryN_state n s; rw [e]
@[simp] theorem retryN_canResume (n : Nat) (s : St) : (retryN n s).1.canResume = s.canResume := by
  obtain ⟨p, u, e⟩ := retryN_state n s; rw [e]
@[simp] theorem retryN_resumeLoc (n : Nat) (s : St) : (retryN n s).1.resumeLoc = s.resumeLoc := by
  obtain ⟨p, u, e⟩ := retryN_state n s; rw [e]
@[simp] theorem retryN_target (n : Nat) (s : St) : (retryN n s).1.target = s.target := by
  obtain ⟨p, u, e⟩ := retryN_state n s; rw [e]
@[simp] theorem retryN_reconnectArmed (n : Nat) (s : St) : (retryN n s).1.reconnectArmed = s.reconnectArmed := by
  obtain ⟨p, u, e⟩ := retryN_state n s; rw [e]
@[simp] theorem retryN_peerShutdown (n : Nat) (s : St) : (retryN n s).1.peerShutdown = s.peerShutdown := by
  obtain ⟨p, u, e⟩ := retryN_state n s; rw [e]
@[simp] theorem retryN_regForm (n : Nat) (s : St) : (retryN n s).1.regForm = s.regForm := by
  obtain ⟨p, u, e⟩ := retryN_state n s; rw [e]
@[simp] theorem retryN_ackEnabled (n : Nat) (s : St) : (retryN n s).1.ackEnabled = s.ackEnabled := by
  obtain ⟨p, u, e⟩ := retryN_state n s; rw [e]
@[simp] theorem retryN_bind2Bound (n : Nat) (s : St) : (retryN n s).1.bind2Bound = s.bind2Bound := by
  obtain ⟨p, u, e⟩ := retryN_state n s; rw [e]
@[simp] theorem retryN_redirect (n : Nat) (s : St) : (retryN n s).1.redirect = s.redirect := by
  obtain ⟨p, u, e⟩ := retryN_state n s; rw [e]
@[simp] theorem retryN_pendingRetry (n : Nat) (s : St) : (retryN n s).1.pendingRetry = s.pendingRetry := by
  obtain ⟨p, u, e⟩ := retryN_state n s; rw [e]
@[simp] theorem retryN_hasToken (n : Nat) (s : St) : (retryN n s).1.hasToken = s.hasToken := by
  obtain ⟨p, u, e⟩ := retryN_state n s; rw [e]
@[simp] theorem retryN_tokenRequested (n : Nat) (s : St) : (retryN n s).1.tokenRequested = s.tokenRequested := by
  obtain ⟨p, u, e⟩ := retryN_state n s; rw [e]
@[simp] theorem retryN_csiSynced (n : Nat) (s : St) : (retryN n s).1.csiSynced = s.csiSynced := by
  obtain ⟨p, u, e⟩ := retryN_state n s; rw [e]
@[simp] theorem retryN_bind2InactiveSet (n : Nat) (s : St) : (retryN n s).1.bind2InactiveSet = s.bind2InactiveSet := by
  obtain ⟨p, u, e⟩ := retryN_state n s; rw [e]

/-- a function keeps the link non-clear and emits nothing in clear -/
def KeepsNC (f : St → R) : Prop := ∀ s, NC s → NCout (f s).2 ∧ NC (f s).1

theorem sendStanza_nc (k : Kind) (s : St) (h : NC s) : NCout (sendStanza s k).2 ∧ NC (sendStanza s k).1 := by
  unfold sendStanza
  split
  · exact ⟨NCout.cons (send_nc h _) (NCout.cons (send_nc h _) NCout.nil), h⟩
  · exact ⟨NCout.cons (send_nc h _) NCout.nil, h⟩

theorem enableAck_nc : KeepsNC enableAck := by
  intro s h
  unfold enableAck
  refine ⟨?_, h⟩
  dsimp only
  split
  · exact NCout.nil
  · apply NCout.append
    · intro o ho
      rcases List.mem_map.mp ho with ⟨k, _, rfl⟩
      exact send_nc h k
    · exact NCout.cons (send_nc h _) NCout.nil

theorem nc_upd {s s' : St} (h : NC s) (hc : s'.conn = s.conn) (he : s'.encrypted = s.encrypted) : NC s' := by
  unfold NC at *; rw [hc, he]; exact h

theorem sendIq_nc (s : St) (h : NC s) : NCout (sendIq s).2 ∧ NC (sendIq s).1 := by
  unfold sendIq
  have r := sendStanza_nc (.iqRequest false) s h
  dsimp only
  split
  · exact ⟨NCout.append r.1 (NCout.cons (sig_nc _) NCout.nil), r.2⟩
  · exact ⟨r.1, nc_upd r.2 rfl rfl⟩

theorem sendIqRetry_nc (s : St) (h : NC s) : NCout (sendIqRetry s).2 ∧ NC (sendIqRetry s).1 := by
  unfold sendIqRetry
  have r := sendStanza_nc (.iqRequest false) s h
  dsimp only
  split
  · have r2 := sendIq_nc _ r.2
    exact ⟨NCout.append (NCout.append r.1 (NCout.cons (sig_nc _) NCout.nil)) r2.1, r2.2⟩
  · exact ⟨r.1, nc_upd r.2 rfl rfl⟩

theorem retryN_nc (n : Nat) (s : St) (h : NC s) : NCout (retryN n s).2 ∧ NC (retryN n s).1 := by
  induction n generalizing s with
  | zero => exact ⟨NCout.nil, h⟩
  | succ n ih =>
    have r1 := sendIq_nc s h
    have r2 := ih (sendIq s).1 r1.2
    exact ⟨NCout.cons (sig_nc _) (NCout.append r1.1 r2.1), r2.2⟩

theorem closeSession_nc : KeepsNC closeSession := by
  intro s h
  unfold closeSession
  dsimp only
  have r := retryN_nc (if s.canResume then 0 else s.pendingRetry)
    { s with sessionStarted := false, ackEnabled := false, pendingIq := s.pendingIq - (if s.canResume then 0 else s.pendingIq),
             pendingRetry := s.pendingRetry - (if s.canResume then 0 else s.pendingRetry) } (nc_upd h rfl rfl)
  exact ⟨NCout.append (NCout.append (iqDones_nc _) r.1) (NCout.cons (sig_nc _) NCout.nil), r.2⟩

/-- after the socket is gone nothing is clear, whatever the state was -/
theorem onSocketDisconnected_down (s : St) (h : s.conn = .disconnected) :
    NCout (onSocketDisconnected s).2 ∧ (onSocketDisconnected s).1.conn ≠ .connected := by
  have hnc : NC { s with authenticated := false } := by intro hc; simp [h] at hc
  unfold onSocketDisconnected
  dsimp only
  split
  · refine ⟨?_, by simp⟩
    split
    · exact (closeSession_nc _ hnc).1
    · exact NCout.nil
  · refine ⟨(closeSession_nc _ hnc).1, ?_⟩
    simp [closeSession, h]

theorem nc_of_not_connected {s : St} (h : s.conn ≠ .connected) : NC s := fun hc => absurd hc h

/-- `socketClose` from ANY state: the only thing it may put on a clear wire is the stream close -/
theorem socketClose_spec (s : St) :
    (∀ o ∈ (socketClose s).2, o.clearOk) ∧ NC (socketClose s).1 ∨
    (s.conn ≠ .connected ∧ socketClose s = (s, [])) := by
  unfold socketClose
  split
  · left
    have hd := onSocketDisconnected_down { s with conn := .disconnected } rfl
    refine ⟨?_, nc_of_not_connected hd.2⟩
    intro o ho
    rcases List.mem_cons.mp ho with ho | ho
    · subst ho
      unfold send link
      split <;> (try split) <;> simp [Out.clearOk, Kind.preTlsOk]
    · exact NCout.clearOk hd.1 o ho
  · right; exact ⟨by assumption, rfl⟩

theorem socketClose_nc : KeepsNC socketClose := by
  intro s h
  unfold socketClose
  split
  · have hd := onSocketDisconnected_down { s with conn := .disconnected } rfl
    exact ⟨NCout.cons (send_nc h _) hd.1, nc_of_not_connected hd.2⟩
  · exact ⟨NCout.nil, h⟩

theorem disconnectFromHost_nc : KeepsNC disconnectFromHost := by
  intro s h
  unfold disconnectFromHost
  exact socketClose_nc _ (by simpa [NC] using h)

theorem reject_nc : KeepsNC reject := by
  intro s h
  unfold reject
  have := disconnectFromHost_nc s h
  exact ⟨NCout.cons (sig_nc _) this.1, this.2⟩

theorem failAuth_nc : KeepsNC failAuth := by
  intro s h
  unfold failAuth
  have := disconnectFromHost_nc s h
  exact ⟨NCout.cons (sig_nc _) this.1, by simpa [NC] using this.2⟩

theorem csiSendState_nc : KeepsNC csiSendState := by
  intro s h
  unfold csiSendState
  split
  · exact ⟨NCout.cons (send_nc h _) NCout.nil, by simpa [NC] using h⟩
  · exact ⟨NCout.nil, by simpa [NC] using h⟩

theorem csiOnSessionOpened_nc (b : Bool) (s : St) (h : NC s) :
    NCout (csiOnSessionOpened s b).2 ∧ NC (csiOnSessionOpened s b).1 := by
  unfold csiOnSessionOpened
  split
  · split
    · exact ⟨NCout.nil, h⟩
    · exact csiSendState_nc s h
  · split
    · exact ⟨NCout.nil, by simpa [NC] using h⟩
    · exact csiSendState_nc s h

theorem cancelOld_nc (s : St) (h : NC s) : NCout (cancelOld s).2 ∧ NC (cancelOld s).1 := by
  unfold cancelOld
  split
  · exact ⟨NCout.nil, h⟩
  · have r := retryN_nc s.pendingRetry { s with pendingIq := 0, pendingRetry := 0 } (nc_upd h rfl rfl)
    exact ⟨NCout.append (iqDones_nc _) r.1, r.2⟩

theorem openSession_nc : KeepsNC openSession := by
  intro s h
  unfold openSession
  dsimp only
  have r2 := cancelOld_nc { s with sessionStarted := true, bind2Bound := false, canResume := s.smEnabled && s.canResume } (nc_upd h rfl rfl)
  generalize cancelOld { s with sessionStarted := true, bind2Bound := false, canResume := s.smEnabled && s.canResume } = r2v at r2
  have r3 := csiOnSessionOpened_nc s.bind2Bound r2v.1 r2.2
  generalize csiOnSessionOpened r2v.1 s.bind2Bound = r3v at r3
  have r4 : NCout (if r3v.1.authenticated = true then sendStanza r3v.1 (.iqRequest true) else (r3v.1, [])).2 ∧
      NC (if r3v.1.authenticated = true then sendStanza r3v.1 (.iqRequest true) else (r3v.1, [])).1 := by
    split
    · exact sendStanza_nc _ _ r3.2
    · exact ⟨NCout.nil, r3.2⟩
  generalize (if r3v.1.authenticated = true then sendStanza r3v.1 (.iqRequest true) else (r3v.1, [])) = r4v at r4
  have r5 : NCout (if r4v.1.authenticated = true ∧ ¬ r4v.1.smResumed = true then sendStanza r4v.1 .presence else (r4v.1, [])).2 ∧
      NC (if r4v.1.authenticated = true ∧ ¬ r4v.1.smResumed = true then sendStanza r4v.1 .presence else (r4v.1, [])).1 := by
    split
    · exact sendStanza_nc _ _ r4.2
    · exact ⟨NCout.nil, r4.2⟩
  refine ⟨?_, r5.2⟩
  exact NCout.append (NCout.append (NCout.append (NCout.append r2.1 r3.1) r4.1) (NCout.cons (sig_nc _) NCout.nil)) r5.1

/-- a record update that touches neither `conn` nor `encrypted`, followed by sends in the old state -/
theorem armReconnect_nc {s : St} (h : NC s) : NC (armReconnect s) := nc_upd h rfl rfl

theorem handleStart_nc : KeepsNC handleStart := by
  intro s h
  unfold handleStart
  have h1 : NC { s with streamIdSet := false, streamVersionSet := false, listener := .idle, smEnabled := false, smResumed := false } :=
    nc_upd h rfl rfl
  exact ⟨NCout.cons (send_nc h1 _) NCout.nil, h1⟩

theorem startNonSaslAuth_nc : KeepsNC startNonSaslAuth := by
  intro s h
  exact ⟨NCout.cons (send_nc h _) NCout.nil, nc_upd h rfl rfl⟩

theorem handleStream_nc (v i : Bool) (s : St) (h : NC s) : NCout (handleStream s v i).2 ∧ NC (handleStream s v i).1 := by
  unfold handleStream
  dsimp only
  split
  · exact ⟨NCout.nil, nc_upd h rfl rfl⟩
  · split
    · split
      · exact disconnectFromHost_nc _ (nc_upd h rfl rfl)
      · exact startNonSaslAuth_nc _ (nc_upd h rfl rfl)
    · exact ⟨NCout.nil, nc_upd h rfl rfl⟩

theorem startSasl_nc (m : Mech) (s : St) (h : NC s) : NCout (startSasl s m).2 ∧ NC (startSasl s m).1 := by
  unfold startSasl
  split
  · exact ⟨NCout.cons (send_nc h _) NCout.nil, nc_upd h rfl rfl⟩
  · have := disconnectFromHost_nc { s with listener := .saslDead } (nc_upd h rfl rfl)
    exact ⟨NCout.cons (sig_nc _) this.1, this.2⟩

theorem startSasl2_nc (z : S2Feat) (s : St) (h : NC s) : NCout (startSasl2 s z).2 ∧ NC (startSasl2 s z).1 := by
  unfold startSasl2
  dsimp only
  have h1 : NC (if z.bind2 = true then { s with bind2InactiveSet := s.cfg.inactive && z.bind2Ext } else s) := by
    split
    · exact nc_upd h rfl rfl
    · exact h
  generalize (if z.bind2 = true then { s with bind2InactiveSet := s.cfg.inactive && z.bind2Ext } else s) = s1 at h1
  split
  · exact ⟨NCout.cons (send_nc (nc_upd h1 rfl rfl) _) NCout.nil, nc_upd h1 rfl rfl⟩
  · have := disconnectFromHost_nc
      { ({ s1 with tokenRequested := (z.fast && s1.cfg.fastUa) && !s1.hasToken } : St) with listener := .sasl2Dead }
      (nc_upd h1 rfl rfl)
    exact ⟨NCout.cons (sig_nc _) this.1, this.2⟩

theorem startBind_nc : KeepsNC startBind := fun _ h => ⟨NCout.cons (send_nc h _) NCout.nil, nc_upd h rfl rfl⟩
theorem startSmEnable_nc : KeepsNC startSmEnable := fun _ h => ⟨NCout.cons (send_nc h _) NCout.nil, nc_upd h rfl rfl⟩
theorem startSmResume_nc : KeepsNC startSmResume := fun _ h => ⟨NCout.cons (send_nc h _) NCout.nil, nc_upd h rfl rfl⟩

theorem handleStarttls_nc (f : Features) (s : St) (h : NC s) :
    ∀ r, handleStarttls s f = some r → NCout r.2 ∧ NC r.1 := by
  intro r hr
  unfold handleStarttls at hr
  split at hr
  · cases hr
  · split at hr
    · cases hr; exact disconnectFromHost_nc s h
    · split at hr
      · cases hr; exact disconnectFromHost_nc s h
      · split at hr
        · cases hr; exact ⟨NCout.cons (send_nc h _) NCout.nil, nc_upd h rfl rfl⟩
        · cases hr

theorem handleFeaturesOwn_nc (f : Features) (s : St) (h : NC s) :
    NCout (handleFeaturesOwn s f).2 ∧ NC (handleFeaturesOwn s f).1 := by
  unfold handleFeaturesOwn
  split
  · rename_i r hr; exact handleStarttls_nc f s h r hr
  · split
    · exact startSasl2_nc _ s h
    · split
      · exact startSasl_nc _ s h
      · split
        · exact startNonSaslAuth_nc s h
        · have h1 : NC { s with bindAvail := f.bind, smAvail := f.sm, csiAvail := f.csi } := nc_upd h rfl rfl
          dsimp only
          split
          · exact startSmResume_nc _ h1
          · split
            · exact startBind_nc _ h1
            · split
              · exact startSmEnable_nc _ h1
              · exact openSession_nc _ h1

theorem disconnectFromServer_nc (s : St) (h : NC s) :
    NCout (disconnectFromServer s).2 ∧ NC (disconnectFromServer s).1 := by
  unfold disconnectFromServer
  dsimp only
  have h0 : NC { s with reconnectArmed := false } := nc_upd h rfl rfl
  split
  · have r1 := sendStanza_nc .presence _ h0
    have r2 := disconnectFromHost_nc _ r1.2
    exact ⟨NCout.append r1.1 r2.1, r2.2⟩
  · have r2 := disconnectFromHost_nc _ h0
    exact ⟨NCout.append NCout.nil r2.1, r2.2⟩

theorem registerOnFeatures_nc (f : Features) (s : St) (h : NC s) :
    NCout (registerOnFeatures s f).2 ∧ NC (registerOnFeatures s f).1 := by
  unfold registerOnFeatures
  split
  · rename_i r hr; exact handleStarttls_nc f s h r hr
  · split
    · have r := sendStanza_nc (.register s.regForm) s h
      exact ⟨r.1, nc_upd r.2 rfl rfl⟩
    · exact disconnectFromServer_nc s h

theorem handleFeatures_nc (f : Features) (s : St) (h : NC s) :
    NCout (handleFeatures s f).2 ∧ NC (handleFeatures s f).1 := by
  unfold handleFeatures
  split
  · exact registerOnFeatures_nc f s h
  · exact handleFeaturesOwn_nc f s h

theorem onSmEnabled_nc (b l : Bool) (s : St) (h : NC s) : NCout (onSmEnabled s b l).2 ∧ NC (onSmEnabled s b l).1 :=
  enableAck_nc _ (nc_upd h rfl rfl)

theorem sendPing_nc (s : St) (h : NC s) : NCout (sendPing s).2 ∧ NC (sendPing s).1 := by
  unfold sendPing; split <;> exact ⟨NCout.cons (send_nc h _) NCout.nil, h⟩

theorem onSmResumed_nc (s : St) (h : NC s) : NCout (onSmResumed s).2 ∧ NC (onSmResumed s).1 :=
  enableAck_nc _ (nc_upd h rfl rfl)

theorem idleHandle'_nc (e : El) (s : St) (h : NC s) : NCout (idleHandle' s e).2 ∧ NC (idleHandle' s e).1 := by
  unfold idleHandle'
  split
  · exact handleFeatures_nc _ s h
  · exact socketClose_nc _ (nc_upd h rfl rfl)
  · exact ⟨NCout.cons (sig_nc _) NCout.nil, h⟩
  · exact sendStanza_nc _ s h
  · exact sendStanza_nc _ s h
  · (repeat' split) <;> first | exact ⟨NCout.nil, h⟩ | exact ⟨NCout.cons (sig_nc _) NCout.nil, nc_upd h rfl rfl⟩
  · exact ⟨NCout.nil, h⟩
  · exact ⟨NCout.nil, h⟩
  · exact ⟨NCout.nil, h⟩
  · exact reject_nc s h

theorem idleHandle_nc (e : El) (s : St) (h : NC s) : NCout (idleHandle s e).2 ∧ NC (idleHandle s e).1 := by
  unfold idleHandle
  split
  · split
    · exact reject_nc s h
    · exact sendStanza_nc _ s h
  · split
    · exact reject_nc s h
    · split
      · exact reject_nc s h
      · exact ⟨NCout.cons (sig_nc _) NCout.nil, nc_upd h rfl rfl⟩
  · split
    · exact reject_nc s h
    · split
      · exact ⟨NCout.cons (send_nc h _) NCout.nil, h⟩
      · exact ⟨NCout.nil, h⟩
  · split
    · exact reject_nc s h
    · exact ⟨NCout.nil, h⟩
  · unfold idleGuarded
    split
    · exact reject_nc s h
    · exact idleHandle'_nc _ s h

theorem starttlsHandle_nc (e : El) (s : St) (h : NC s) : NCout (starttlsHandle s e).2 ∧ NC (starttlsHandle s e).1 := by
  unfold starttlsHandle
  split
  · exact handleStart_nc _ (by intro _; rfl)
  · have hd := onSocketDisconnected_down { armReconnect s with conn := .disconnected, listener := .idle } rfl
    exact ⟨NCout.cons (sig_nc _) hd.1, nc_of_not_connected hd.2⟩
  · exact reject_nc s h

theorem nonSaslHandle_nc (e : El) (s : St) (h : NC s) : NCout (nonSaslHandle s e).2 ∧ NC (nonSaslHandle s e).1 := by
  unfold nonSaslHandle
  split
  · split
    · exact ⟨NCout.cons (send_nc h _) NCout.nil, nc_upd h rfl rfl⟩
    · have := disconnectFromHost_nc s h
      exact ⟨this.1, nc_upd this.2 rfl rfl⟩
  · have := disconnectFromHost_nc s h
    exact ⟨this.1, nc_upd this.2 rfl rfl⟩
  · exact reject_nc s h

theorem nonSaslResultHandle_nc (e : El) (s : St) (h : NC s) :
    NCout (nonSaslResultHandle s e).2 ∧ NC (nonSaslResultHandle s e).1 := by
  unfold nonSaslResultHandle
  split
  · have r := openSession_nc { s with authenticated := true } (nc_upd h rfl rfl)
    exact ⟨r.1, nc_upd r.2 rfl rfl⟩
  · have r := openSession_nc { s with authenticated := true } (nc_upd h rfl rfl)
    exact ⟨r.1, nc_upd r.2 rfl rfl⟩
  · have := disconnectFromHost_nc s h
    exact ⟨this.1, nc_upd this.2 rfl rfl⟩
  · exact reject_nc s h

theorem saslHandle_nc (m : Used) (fr : Bool) (e : El) (s : St) (h : NC s) :
    NCout (saslHandle s m fr e).2 ∧ NC (saslHandle s m fr e).1 := by
  unfold saslHandle
  split
  · split
    · exact handleStart_nc _ (nc_upd h rfl rfl)
    · exact failAuth_nc s h
  · split
    · exact ⟨NCout.cons (send_nc h _) NCout.nil, nc_upd h rfl rfl⟩
    · exact failAuth_nc s h
  · exact failAuth_nc s h
  · exact reject_nc s h

theorem sasl2Handle_nc (m : Used) (fr : Bool) (e : El) (s : St) (h : NC s) :
    NCout (sasl2Handle s m fr e).2 ∧ NC (sasl2Handle s m fr e).1 := by
  unfold sasl2Handle
  split
  · split
    · exact ⟨NCout.cons (send_nc h _) NCout.nil, nc_upd h rfl rfl⟩
    · exact failAuth_nc s h
  · rename_i b r tok proof
    split
    case isFalse => exact failAuth_nc s h
    dsimp only
    have h1 : NC { s with authenticated := true, bind2Bound := decide (b ≠ .none),
                          hasToken := s.hasToken || (tok && (s.tokenRequested || s.hasToken)) } := nc_upd h rfl rfl
    generalize ({ s with authenticated := true, bind2Bound := decide (b ≠ .none),
                          hasToken := s.hasToken || (tok && (s.tokenRequested || s.hasToken)) } : St) = s1 at h1
    have r2 : NCout (if r = .resumed then onSmResumed s1 else (s1, [])).2 ∧ NC (if r = .resumed then onSmResumed s1 else (s1, [])).1 := by
      split
      · exact onSmResumed_nc s1 h1
      · exact ⟨NCout.nil, h1⟩
    generalize (if r = .resumed then onSmResumed s1 else (s1, [])) = r2v at r2
    have r3 : NCout (if b = .smEnabled then onSmEnabled r2v.1 true else (r2v.1, [])).2 ∧
        NC (if b = .smEnabled then onSmEnabled r2v.1 true else (r2v.1, [])).1 := by
      split
      · exact onSmEnabled_nc _ _ _ r2.2
      · exact ⟨NCout.nil, r2.2⟩
    generalize (if b = .smEnabled then onSmEnabled r2v.1 true else (r2v.1, [])) = r3v at r3
    have r4 : NCout (if r = .resumed then openSession r3v.1 else (r3v.1, [])).2 ∧
        NC (if r = .resumed then openSession r3v.1 else (r3v.1, [])).1 := by
      split
      · exact openSession_nc _ r3.2
      · exact ⟨NCout.nil, r3.2⟩
    exact ⟨NCout.append (NCout.append r2.1 r3.1) r4.1, nc_upd r4.2 rfl rfl⟩
  · exact failAuth_nc s h
  · exact ⟨NCout.cons (send_nc h _) NCout.nil, h⟩
  · exact reject_nc s h

theorem smResumeHandle_nc (e : El) (s : St) (h : NC s) : NCout (smResumeHandle s e).2 ∧ NC (smResumeHandle s e).1 := by
  unfold smResumeHandle
  split
  · have r1 := onSmResumed_nc s h
    have r2 := openSession_nc _ r1.2
    exact ⟨NCout.append r1.1 r2.1, nc_upd r2.2 rfl rfl⟩
  · split
    · exact startBind_nc s h
    · have r := openSession_nc s h
      exact ⟨r.1, nc_upd r.2 rfl rfl⟩
  · exact reject_nc s h

theorem smEnableHandle_nc (e : El) (s : St) (h : NC s) : NCout (smEnableHandle s e).2 ∧ NC (smEnableHandle s e).1 := by
  unfold smEnableHandle
  split
  · rename_i resume loc
    have r1 := onSmEnabled_nc resume loc s h
    have r2 := openSession_nc _ r1.2
    exact ⟨NCout.append r1.1 r2.1, nc_upd r2.2 rfl rfl⟩
  · have r := openSession_nc s h
    exact ⟨r.1, nc_upd r.2 rfl rfl⟩
  · exact reject_nc s h

theorem bindHandle_nc (e : El) (s : St) (h : NC s) : NCout (bindHandle s e).2 ∧ NC (bindHandle s e).1 := by
  unfold bindHandle
  split
  · split
    · exact startSmEnable_nc s h
    · have r := openSession_nc s h
      exact ⟨r.1, nc_upd r.2 rfl rfl⟩
  · exact failAuth_nc s h
  · exact failAuth_nc s h
  · exact reject_nc s h

theorem dispatch_nc (e : El) (s : St) (h : NC s) : NCout (dispatch s e).2 ∧ NC (dispatch s e).1 := by
  unfold dispatch
  split
  · exact idleHandle_nc e s h
  · exact starttlsHandle_nc e s h
  · exact nonSaslHandle_nc _ s h
  · exact nonSaslResultHandle_nc _ s h
  · exact saslHandle_nc _ _ e s h
  · exact reject_nc s h
  · exact sasl2Handle_nc _ _ e s h
  · exact reject_nc s h
  · exact smResumeHandle_nc e s h
  · exact smEnableHandle_nc e s h
  · exact bindHandle_nc e s h

theorem recv_nc (e : El) (s : St) (h : NC s) : NCout (recv s e).2 ∧ NC (recv s e).1 := by
  unfold recv
  split
  · exact ⟨NCout.nil, h⟩
  · split
    · exact handleStream_nc _ _ _ (nc_upd h rfl rfl)
    · split
      · exact ⟨NCout.nil, nc_upd h rfl rfl⟩
      · split
        · exact disconnectFromHost_nc s h
        · exact dispatch_nc e s h

/-! ### the configuration never changes -/

macro "cfg_crush" : tactic => `(tactic| ((repeat' split) <;> simp))

@[simp] theorem armReconnect_cfg (s : St) : (armReconnect s).cfg = s.cfg := rfl

@[simp] theorem sendStanza_cfg (s : St) (k : Kind) : (sendStanza s k).1.cfg = s.cfg := by
  unfold sendStanza; split <;> rfl
@[simp] theorem enableAck_cfg (s : St) : (enableAck s).1.cfg = s.cfg := rfl
@[simp] theorem closeSession_cfg (s : St) : (closeSession s).1.cfg = s.cfg := by unfold closeSession; simp
@[simp] theorem cancelOld_cfg (s : St) : (cancelOld s).1.cfg = s.cfg := by unfold cancelOld; split <;> simp
@[simp] theorem onSocketDisconnected_cfg (s : St) : (onSocketDisconnected s).1.cfg = s.cfg := by
  unfold onSocketDisconnected; dsimp only; cfg_crush
@[simp] theorem socketClose_cfg (s : St) : (socketClose s).1.cfg = s.cfg := by
  unfold socketClose; split <;> simp
@[simp] theorem disconnectFromHost_cfg (s : St) : (disconnectFromHost s).1.cfg = s.cfg := by
  unfold disconnectFromHost; simp
@[simp] theorem reject_cfg (s : St) : (reject s).1.cfg = s.cfg := by unfold reject; simp
@[simp] theorem failAuth_cfg (s : St) : (failAuth s).1.cfg = s.cfg := by unfold failAuth; simp
@[simp] theorem csiSendState_cfg (s : St) : (csiSendState s).1.cfg = s.cfg := by
  unfold csiSendState; split <;> rfl
@[simp] theorem csiOnSessionOpened_cfg (s : St) (b : Bool) : (csiOnSessionOpened s b).1.cfg = s.cfg := by
  unfold csiOnSessionOpened; cfg_crush
@[simp] theorem openSession_cfg (s : St) : (openSession s).1.cfg = s.cfg := by
  unfold openSession; dsimp only; cfg_crush
@[simp] theorem handleStart_cfg (s : St) : (handleStart s).1.cfg = s.cfg := rfl
@[simp] theorem startNonSaslAuth_cfg (s : St) : (startNonSaslAuth s).1.cfg = s.cfg := rfl
@[simp] theorem handleStream_cfg (s : St) (v i : Bool) : (handleStream s v i).1.cfg = s.cfg := by
  unfold handleStream; dsimp only; cfg_crush
@[simp] theorem startSasl_cfg (s : St) (m : Mech) : (startSasl s m).1.cfg = s.cfg := by
  unfold startSasl; split <;> simp
@[simp] theorem startSasl2_cfg (s : St) (z : S2Feat) : (startSasl2 s z).1.cfg = s.cfg := by
  unfold startSasl2; dsimp only; cfg_crush
@[simp] theorem startBind_cfg (s : St) : (startBind s).1.cfg = s.cfg := rfl
@[simp] theorem startSmEnable_cfg (s : St) : (startSmEnable s).1.cfg = s.cfg := rfl
@[simp] theorem startSmResume_cfg (s : St) : (startSmResume s).1.cfg = s.cfg := rfl
theorem handleStarttls_cfg (s : St) (f : Features) : ∀ r, handleStarttls s f = some r → r.1.cfg = s.cfg := by
  intro r hr
  unfold handleStarttls at hr
  repeat' split at hr
  all_goals first | (cases hr; done) | (cases hr; simp)
@[simp] theorem handleFeaturesOwn_cfg (s : St) (f : Features) : (handleFeaturesOwn s f).1.cfg = s.cfg := by
  unfold handleFeaturesOwn
  split
  · rename_i r hr; exact handleStarttls_cfg s f r hr
  · split
    · simp
    · split
      · simp
      · split
        · simp
        · dsimp only
          cfg_crush
@[simp] theorem disconnectFromServer_cfg (s : St) : (disconnectFromServer s).1.cfg = s.cfg := by
  unfold disconnectFromServer; dsimp only; split <;> simp
@[simp] theorem registerOnFeatures_cfg (s : St) (f : Features) : (registerOnFeatures s f).1.cfg = s.cfg := by
  unfold registerOnFeatures
  split
  · rename_i r hr; exact handleStarttls_cfg s f r hr
  · split <;> simp
@[simp] theorem handleFeatures_cfg (s : St) (f : Features) : (handleFeatures s f).1.cfg = s.cfg := by
  unfold handleFeatures; split <;> simp
@[simp] theorem onSmEnabled_cfg (s : St) (b l : Bool) : (onSmEnabled s b l).1.cfg = s.cfg := rfl
@[simp] theorem onSmResumed_cfg (s : St) : (onSmResumed s).1.cfg = s.cfg := rfl
@[simp] theorem idleHandle'_cfg (s : St) (e : El) : (idleHandle' s e).1.cfg = s.cfg := by
  unfold idleHandle'; cfg_crush
@[simp] theorem idleGuarded_cfg (s : St) (e : El) : (idleGuarded s e).1.cfg = s.cfg := by
  unfold idleGuarded; cfg_crush
@[simp] theorem idleHandle_cfg (s : St) (e : El) : (idleHandle s e).1.cfg = s.cfg := by
  unfold idleHandle; cfg_crush
@[simp] theorem starttlsHandle_cfg (s : St) (e : El) : (starttlsHandle s e).1.cfg = s.cfg := by
  unfold starttlsHandle; cfg_crush
@[simp] theorem nonSaslHandle_cfg (s : St) (e : El) : (nonSaslHandle s e).1.cfg = s.cfg := by
  unfold nonSaslHandle; cfg_crush
@[simp] theorem nonSaslResultHandle_cfg (s : St) (e : El) : (nonSaslResultHandle s e).1.cfg = s.cfg := by
  unfold nonSaslResultHandle; cfg_crush
@[simp] theorem saslHandle_cfg (s : St) (m : Used) (fr : Bool) (e : El) : (saslHandle s m fr e).1.cfg = s.cfg := by
  unfold saslHandle; cfg_crush
@[simp] theorem sasl2Handle_cfg (s : St) (m : Used) (fr : Bool) (e : El) : (sasl2Handle s m fr e).1.cfg = s.cfg := by
  unfold sasl2Handle; dsimp only; cfg_crush
@[simp] theorem smResumeHandle_cfg (s : St) (e : El) : (smResumeHandle s e).1.cfg = s.cfg := by
  unfold smResumeHandle; cfg_crush
@[simp] theorem smEnableHandle_cfg (s : St) (e : El) : (smEnableHandle s e).1.cfg = s.cfg := by
  unfold smEnableHandle; cfg_crush
@[simp] theorem bindHandle_cfg (s : St) (e : El) : (bindHandle s e).1.cfg = s.cfg := by
  unfold bindHandle; cfg_crush
@[simp] theorem dispatch_cfg (s : St) (e : El) : (dispatch s e).1.cfg = s.cfg := by
  unfold dispatch; split <;> simp
@[simp] theorem recv_cfg (s : St) (e : El) : (recv s e).1.cfg = s.cfg := by
  unfold recv; cfg_crush
@[simp] theorem socketGone_cfg (s : St) : (socketGone s).1.cfg = s.cfg := by
  unfold socketGone; cfg_crush
@[simp] theorem connectTo_cfg (s : St) : (connectTo s).1.cfg = s.cfg := by
  unfold connectTo; simp
@[simp] theorem sendPing_cfg (s : St) : (sendPing s).1.cfg = s.cfg := by
  unfold sendPing; split <;> rfl
@[simp] theorem sendIq_cfg (s : St) : (sendIq s).1.cfg = s.cfg := by
  unfold sendIq; dsimp only; split <;> simp
@[simp] theorem sendIqRetry_cfg (s : St) : (sendIqRetry s).1.cfg = s.cfg := by
  unfold sendIqRetry; dsimp only; split <;> simp
@[simp] theorem step_cfg (s : St) (e : Ev) : (step s e).1.cfg = s.cfg := by
  unfold step; cfg_crush
@[simp] theorem run_cfg (evs : List Ev) (s : St) : (run s evs).1.cfg = s.cfg := by
  induction evs generalizing s with
  | nil => rfl
  | cons e es ih => simp [run, ih]

/-! ### the unencrypted phase when TLS is required -/

/-- the listener is the idle one or the one waiting for `<proceed/>` -/
def PreTls (s : St) : Prop := s.listener = .idle ∨ s.listener = .starttls

/-- invariant: either nothing can reach the wire in clear, or negotiation has not gone past STARTTLS -/
def Inv (s : St) : Prop := NC s ∨ PreTls s

/-- **Scope of the property (application side)**: the application itself does not send requests over an unencrypted link
(the property quantifies over servers, not over applications).  Nothing is assumed about `connectToServer` any more: since
6235115 a connect on a live socket aborts the old connection first. -/
def appWaits (s : St) : Ev → Prop
  | .sendIq => NC s
  | .sendIqRetry => NC s
  | _ => True

/-- a predicate holds at every step of a run -/
def Along (P : St → Ev → Prop) : St → List Ev → Prop
  | _, [] => True
  | s, e :: es => P s e ∧ Along P (step s e).1 es

theorem nil_ok : ∀ o ∈ ([] : List Out), o.clearOk := by intro o ho; cases ho
theorem sig_ok (x : Signal) : ∀ o ∈ [Out.sig x], o.clearOk := by
  intro o ho; simp only [List.mem_singleton] at ho; subst ho; trivial

theorem allOk_of_NCout {os : List Out} (h : NCout os) : ∀ o ∈ os, o.clearOk := NCout.clearOk h

theorem socketClose_connected (s : St) (hc : s.conn = .connected) :
    (∀ o ∈ (socketClose s).2, o.clearOk) ∧ NC (socketClose s).1 := by
  rcases socketClose_spec s with h | h
  · exact h
  · exact absurd hc h.1

theorem disconnectFromHost_connected (s : St) (hc : s.conn = .connected) :
    (∀ o ∈ (disconnectFromHost s).2, o.clearOk) ∧ NC (disconnectFromHost s).1 := by
  unfold disconnectFromHost
  exact socketClose_connected _ hc

theorem reject_connected (s : St) (hc : s.conn = .connected) :
    (∀ o ∈ (reject s).2, o.clearOk) ∧ NC (reject s).1 := by
  unfold reject
  have h := disconnectFromHost_connected s hc
  refine ⟨?_, h.2⟩
  intro o ho
  rcases List.mem_cons.mp ho with ho | ho
  · subst ho; trivial
  · exact h.1 o ho

theorem send_preTls_ok (s : St) (k : Kind) (hk : k.preTlsOk = true) : (send s k).clearOk := by
  unfold send link
  split <;> (try split) <;> simp [Out.clearOk, hk]

/-- with TLS required and the link unencrypted, `handleStarttls` always acts -/
theorem handleStarttls_required (s : St) (f : Features) (hreq : s.cfg.tls = .required) (he : s.encrypted = false) :
    handleStarttls s f = some (disconnectFromHost s) ∨
    handleStarttls s f = some ({ s with listener := .starttls }, [send s .startTls]) := by
  unfold handleStarttls
  simp only [he, hreq]
  by_cases ha : f.tls = .absent
  · simp [ha]
  · by_cases hl : s.cfg.localTls = true
    · simp [ha, hl]
    · simp [ha, hl]

/-- with TLS required and the link unencrypted a features element leads to `<starttls/>` or to giving up — whoever consumes it
(the client itself, or the registration manager, which calls the client's `handleStarttls` first) -/
theorem features_preTls (s : St) (f : Features) (hreq : s.cfg.tls = .required) (he : s.encrypted = false) :
    handleFeatures s f = disconnectFromHost s ∨
    handleFeatures s f = ({ s with listener := .starttls }, [send s .startTls]) := by
  unfold handleFeatures
  split
  · unfold registerOnFeatures
    rcases handleStarttls_required s f hreq he with h | h <;> rw [h] <;> simp
  · unfold handleFeaturesOwn
    rcases handleStarttls_required s f hreq he with h | h <;> rw [h] <;> simp

theorem idle_clear (s : St) (e : El) (hreq : s.cfg.tls = .required) (hc : s.conn = .connected)
    (he : s.encrypted = false) (hl : s.listener = .idle) :
    (∀ o ∈ (idleHandle s e).2, o.clearOk) ∧ Inv (idleHandle s e).1 := by
  have hpre : s.preTls := ⟨by simp [he], hreq⟩
  have hrej : (∀ o ∈ (reject s).2, o.clearOk) ∧ Inv (reject s).1 := by
    have := reject_connected s hc
    exact ⟨this.1, Or.inl this.2⟩
  have hsame : Inv s := Or.inr (Or.inl hl)
  unfold idleHandle
  split
  · rw [if_pos hpre]; exact hrej
  · rw [if_pos hpre]; exact hrej
  · rw [if_pos hpre]; exact hrej
  · rw [if_pos hpre]; exact hrej
  · unfold idleGuarded
    split
    · exact hrej
    · rename_i hns
      have hst : e.isStreamLevel = true := by
        cases hb : e.isStreamLevel
        · exact absurd ⟨by simp [hb], hpre⟩ hns
        · rfl
      unfold idleHandle'
      split
      · -- features
        rename_i f _ _ _ _
        rcases features_preTls s f hreq he with h | h
        · rw [h]
          have := disconnectFromHost_connected s hc
          exact ⟨this.1, Or.inl this.2⟩
        · rw [h]
          refine ⟨?_, Or.inr (Or.inr rfl)⟩
          intro o ho
          simp only [List.mem_singleton] at ho
          subst ho
          exact send_preTls_ok s _ rfl
      · have := socketClose_connected { s with redirect := true } hc
        exact ⟨this.1, Or.inl this.2⟩
      · exact ⟨sig_ok _, hsame⟩
      all_goals first
        | (simp [El.isStreamLevel] at hst; done)
        | exact hrej

theorem disconnect_any (s : St) : (∀ o ∈ (disconnectFromHost s).2, o.clearOk) ∧ NC (disconnectFromHost s).1 := by
  by_cases hc : s.conn = .connected
  · exact disconnectFromHost_connected s hc
  · have hn : NC s := nc_of_not_connected hc
    have := disconnectFromHost_nc s hn
    exact ⟨NCout.clearOk this.1, this.2⟩

theorem starttls_clear (s : St) (e : El) (hc : s.conn = .connected) :
    (∀ o ∈ (starttlsHandle s e).2, o.clearOk) ∧ Inv (starttlsHandle s e).1 := by
  unfold starttlsHandle
  split
  · have := handleStart_nc { s with encrypted := true, headerSeen := false, listener := .idle } (by intro _; rfl)
    exact ⟨allOk_of_NCout this.1, Or.inl this.2⟩
  · have hd := onSocketDisconnected_down { armReconnect s with conn := .disconnected, listener := .idle } rfl
    exact ⟨allOk_of_NCout (NCout.cons (sig_nc _) hd.1), Or.inl (nc_of_not_connected hd.2)⟩
  · have := reject_connected s hc
    exact ⟨this.1, Or.inl this.2⟩

/-- losing (or aborting) the connection writes nothing and leaves no connected socket -/
theorem socketGone_down (s : St) : NCout (socketGone s).2 ∧ (socketGone s).1.conn ≠ .connected := by
  unfold socketGone
  split
  · exact onSocketDisconnected_down { s with conn := .disconnected } rfl
  · split
    · exact ⟨NCout.nil, by simp⟩
    · rename_i h1 _
      exact ⟨NCout.nil, h1⟩

/-- `connectToHost()` in ANY state: nothing goes over a clear link, and afterwards the socket is not connected -/
theorem connectTo_nc (s : St) : NCout (connectTo s).2 ∧ NC (connectTo s).1 := by
  unfold connectTo
  exact ⟨(socketGone_down s).1, nc_of_not_connected (by simp)⟩

/-- one step keeps the invariant and sends nothing but stream open / starttls / stream close in clear -/
theorem step_safe (s : St) (e : Ev) (hreq : s.cfg.tls = .required) (hinv : Inv s)
    (hs3 : ¬ NC s → s.sessionStarted = false) (h3 : appWaits s e) :
    (∀ o ∈ (step s e).2, o.clearOk) ∧ Inv (step s e).1 := by
  by_cases hnc : NC s
  · -- nothing can be clear, except the stream open of a new connection
    cases e with
    | connectToServer =>
      have := connectTo_nc s
      exact ⟨allOk_of_NCout this.1, Or.inl this.2⟩
    | tlsCloseNotify =>
      simp only [step]
      split
      · exact ⟨sig_ok _, Or.inl (armReconnect_nc hnc)⟩
      · exact ⟨nil_ok, Or.inl hnc⟩
    | reconnectTick =>
      simp only [step]
      split
      · have := connectTo_nc { s with reconnectArmed := false }
        exact ⟨allOk_of_NCout this.1, Or.inl this.2⟩
      · exact ⟨nil_ok, Or.inl hnc⟩
    | socketConnected =>
      simp only [step]
      split
      · refine ⟨?_, Or.inr (Or.inl rfl)⟩
        intro o ho
        simp only [handleStart, List.mem_singleton] at ho
        subst ho
        exact send_preTls_ok _ _ rfl
      · exact ⟨nil_ok, Or.inl hnc⟩
    | socketError =>
      exact ⟨sig_ok _, Or.inl (armReconnect_nc hnc)⟩
    | socketDisconnected =>
      have hd := socketGone_down s
      exact ⟨allOk_of_NCout hd.1, Or.inl (nc_of_not_connected hd.2)⟩
    | recv el =>
      have := recv_nc el s hnc
      exact ⟨allOk_of_NCout this.1, Or.inl this.2⟩
    | sendIq =>
      have := sendIq_nc s hnc
      exact ⟨allOk_of_NCout this.1, Or.inl this.2⟩
    | sendIqRetry =>
      have := sendIqRetry_nc s hnc
      exact ⟨allOk_of_NCout this.1, Or.inl this.2⟩
    | recvWhitespace => exact ⟨nil_ok, Or.inl hnc⟩
    | recvPartial =>
      simp only [step]
      split
      · exact ⟨nil_ok, Or.inl hnc⟩
      · exact ⟨nil_ok, Or.inl (nc_upd hnc rfl rfl)⟩
    | tick =>
      simp only [step]
      split
      · have := sendPing_nc s hnc
        exact ⟨allOk_of_NCout this.1, Or.inl this.2⟩
      · exact ⟨nil_ok, Or.inl hnc⟩
    | closeTail =>
      have := disconnectFromHost_nc s hnc
      exact ⟨allOk_of_NCout this.1, Or.inl this.2⟩
  · -- connected and unencrypted
    have hc : s.conn = .connected := by
      by_cases hc : s.conn = .connected
      · exact hc
      · exact absurd (nc_of_not_connected hc) hnc
    have he : s.encrypted = false := by
      cases hb : s.encrypted
      · rfl
      · exact absurd (fun _ => hb) hnc
    have hpre : PreTls s := by
      rcases hinv with h | h
      · exact absurd h hnc
      · exact h
    cases e with
    | connectToServer =>
      have := connectTo_nc s
      exact ⟨allOk_of_NCout this.1, Or.inl this.2⟩
    | tlsCloseNotify =>
      have e : step s .tlsCloseNotify = (s, []) := by simp [step, he]
      rw [e]
      exact ⟨nil_ok, Or.inr hpre⟩
    | reconnectTick =>
      simp only [step]
      split
      · have := connectTo_nc { s with reconnectArmed := false }
        exact ⟨allOk_of_NCout this.1, Or.inl this.2⟩
      · exact ⟨nil_ok, Or.inr hpre⟩
    | socketConnected =>
      simp only [step, hc]
      exact ⟨nil_ok, Or.inr hpre⟩
    | socketError =>
      exact ⟨sig_ok _, Or.inr hpre⟩
    | socketDisconnected =>
      have hd := socketGone_down s
      exact ⟨allOk_of_NCout hd.1, Or.inl (nc_of_not_connected hd.2)⟩
    | sendIq => exact absurd h3 hnc
    | sendIqRetry => exact absurd h3 hnc
    | recvWhitespace => exact ⟨nil_ok, Or.inr hpre⟩
    | recvPartial =>
      simp only [step]
      split
      · exact ⟨nil_ok, Or.inr hpre⟩
      · exact ⟨nil_ok, Or.inr hpre⟩
    | tick =>
      have hp : s.pingArmed = false := by simp [St.pingArmed, hs3 hnc]
      simp only [step, hp]
      exact ⟨nil_ok, Or.inr hpre⟩
    | closeTail =>
      have := disconnect_any s
      exact ⟨this.1, Or.inl this.2⟩
    | recv el =>
      simp only [step]
      unfold recv
      split
      · exact ⟨nil_ok, Or.inr hpre⟩
      · split
        · -- header: a version-less one makes the client give up (TLS required, link unencrypted)
          rename_i v i
          unfold handleStream
          dsimp only
          split
          · exact ⟨nil_ok, Or.inr hpre⟩
          · split
            · rw [if_pos ⟨hreq, by simp [he]⟩]
              have := disconnectFromHost_connected
                { s with headerSeen := true, streamIdSet := s.streamIdSet || i, streamVersionSet := v } hc
              exact ⟨this.1, Or.inl this.2⟩
            · exact ⟨nil_ok, Or.inr hpre⟩
        · split
          · exact ⟨nil_ok, Or.inr hpre⟩
          · split
            · have := disconnectFromHost_connected s hc
              exact ⟨this.1, Or.inl this.2⟩
            · unfold dispatch
              rcases hpre with hl | hl
              · rw [hl]
                exact idle_clear s el hreq hc he hl
              · rw [hl]
                exact starttls_clear s el hc

theorem init_inv (cfg : Cfg) : Inv (init cfg) := Or.inl (nc_of_not_connected (by simp [init]))

/-! ### `redirect` is consumed in the step that sets it -/

macro "red_crush" : tactic => `(tactic| ((repeat' split) <;> simp_all))

theorem sendStanza_red (s : St) (k : Kind) (h : s.redirect = false) : (sendStanza s k).1.redirect = false := by
  unfold sendStanza; red_crush
theorem enableAck_red (s : St) (h : s.redirect = false) : (enableAck s).1.redirect = false := h
theorem closeSession_red (s : St) (h : s.redirect = false) : (closeSession s).1.redirect = false := by
  unfold closeSession; simp [h]
/-- whatever `redirect` was, it is false afterwards -/
theorem onSocketDisconnected_red (s : St) : (onSocketDisconnected s).1.redirect = false := by
  unfold onSocketDisconnected closeSession; dsimp only; split <;> simp_all
theorem socketClose_red_conn (s : St) (hc : s.conn = .connected) : (socketClose s).1.redirect = false := by
  unfold socketClose; simp [hc, onSocketDisconnected_red]
theorem socketClose_red (s : St) (h : s.redirect = false) : (socketClose s).1.redirect = false := by
  unfold socketClose; split
  · simp [onSocketDisconnected_red]
  · exact h
theorem disconnectFromHost_red (s : St) (h : s.redirect = false) : (disconnectFromHost s).1.redirect = false := by
  unfold disconnectFromHost; exact socketClose_red _ h
theorem reject_red (s : St) (h : s.redirect = false) : (reject s).1.redirect = false := by
  unfold reject; exact disconnectFromHost_red s h
theorem failAuth_red (s : St) (h : s.redirect = false) : (failAuth s).1.redirect = false := by
  unfold failAuth; exact disconnectFromHost_red s h
theorem csiSendState_red (s : St) (h : s.redirect = false) : (csiSendState s).1.redirect = false := by
  unfold csiSendState; red_crush
theorem csiOnSessionOpened_red (s : St) (b : Bool) (h : s.redirect = false) : (csiOnSessionOpened s b).1.redirect = false := by
  unfold csiOnSessionOpened
  split
  · split
    · exact h
    · exact csiSendState_red s h
  · split
    · exact h
    · exact csiSendState_red s h
theorem cancelOld_red (s : St) (h : s.redirect = false) : (cancelOld s).1.redirect = false := by
  unfold cancelOld; split <;> simp [h]
theorem openSession_red (s : St) (h : s.redirect = false) : (openSession s).1.redirect = false := by
  unfold openSession
  dsimp only
  have h2 := cancelOld_red { s with sessionStarted := true, bind2Bound := false, canResume := s.smEnabled && s.canResume } h
  generalize cancelOld { s with sessionStarted := true, bind2Bound := false, canResume := s.smEnabled && s.canResume } = r2 at h2
  have h3 := csiOnSessionOpened_red r2.1 s.bind2Bound h2
  generalize csiOnSessionOpened r2.1 s.bind2Bound = r3 at h3
  have h4 : (if r3.1.authenticated = true then sendStanza r3.1 (.iqRequest true) else (r3.1, [])).1.redirect = false := by
    split
    · exact sendStanza_red _ _ h3
    · exact h3
  generalize (if r3.1.authenticated = true then sendStanza r3.1 (.iqRequest true) else (r3.1, [])) = r4 at h4
  split
  · exact sendStanza_red _ _ h4
  · exact h4
theorem handleStart_red (s : St) (h : s.redirect = false) : (handleStart s).1.redirect = false := h
theorem startNonSaslAuth_red (s : St) (h : s.redirect = false) : (startNonSaslAuth s).1.redirect = false := h
theorem handleStream_red (s : St) (v i : Bool) (h : s.redirect = false) : (handleStream s v i).1.redirect = false := by
  unfold handleStream
  dsimp only
  split
  · exact h
  · split
    · split
      · exact disconnectFromHost_red _ h
      · exact h
    · exact h
theorem startSasl_red (s : St) (m : Mech) (h : s.redirect = false) : (startSasl s m).1.redirect = false := by
  unfold startSasl
  split
  · exact h
  · exact disconnectFromHost_red _ h
theorem startSasl2_red (s : St) (z : S2Feat) (h : s.redirect = false) : (startSasl2 s z).1.redirect = false := by
  unfold startSasl2
  dsimp only
  have h1 : (if z.bind2 = true then { s with bind2InactiveSet := s.cfg.inactive && z.bind2Ext } else s).redirect = false := by
    split <;> exact h
  generalize (if z.bind2 = true then { s with bind2InactiveSet := s.cfg.inactive && z.bind2Ext } else s) = s1 at h1
  split
  · exact h1
  · exact disconnectFromHost_red _ h1
theorem handleStarttls_red (s : St) (f : Features) (h : s.redirect = false) :
    ∀ r, handleStarttls s f = some r → r.1.redirect = false := by
  intro r hr
  unfold handleStarttls at hr
  repeat' split at hr
  all_goals first | (cases hr; done) | (cases hr; first | exact disconnectFromHost_red s h | exact h)
theorem handleFeaturesOwn_red (s : St) (f : Features) (h : s.redirect = false) : (handleFeaturesOwn s f).1.redirect = false := by
  unfold handleFeaturesOwn
  split
  · rename_i r hr; exact handleStarttls_red s f h r hr
  · split
    · exact startSasl2_red _ _ h
    · split
      · exact startSasl_red _ _ h
      · split
        · exact h
        · dsimp only
          split
          · exact h
          · split
            · exact h
            · split
              · exact h
              · exact openSession_red _ h
theorem disconnectFromServer_red (s : St) (h : s.redirect = false) : (disconnectFromServer s).1.redirect = false := by
  unfold disconnectFromServer
  dsimp only
  split
  · exact disconnectFromHost_red _ (sendStanza_red _ _ h)
  · exact disconnectFromHost_red _ h
theorem registerOnFeatures_red (s : St) (f : Features) (h : s.redirect = false) : (registerOnFeatures s f).1.redirect = false := by
  unfold registerOnFeatures
  split
  · rename_i r hr; exact handleStarttls_red s f h r hr
  · split
    · exact sendStanza_red _ _ h
    · exact disconnectFromServer_red s h
theorem handleFeatures_red (s : St) (f : Features) (h : s.redirect = false) : (handleFeatures s f).1.redirect = false := by
  unfold handleFeatures
  split
  · exact registerOnFeatures_red s f h
  · exact handleFeaturesOwn_red s f h
theorem onSmEnabled_red (s : St) (b l : Bool) (h : s.redirect = false) : (onSmEnabled s b l).1.redirect = false := h
theorem onSmResumed_red (s : St) (h : s.redirect = false) : (onSmResumed s).1.redirect = false := h

/-- the idle listener is only run on a connected socket (`recv`) -/
theorem idleHandle'_red (s : St) (e : El) (hc : s.conn = .connected) (h : s.redirect = false) :
    (idleHandle' s e).1.redirect = false := by
  unfold idleHandle'
  split
  · exact handleFeatures_red _ _ h
  · exact socketClose_red_conn _ hc
  · exact h
  · exact sendStanza_red _ _ h
  · exact sendStanza_red _ _ h
  · (repeat' split) <;> exact h
  · exact h
  · exact h
  · exact h
  · exact reject_red s h
theorem idleHandle_red (s : St) (e : El) (hc : s.conn = .connected) (h : s.redirect = false) :
    (idleHandle s e).1.redirect = false := by
  unfold idleHandle
  split
  · split
    · exact reject_red s h
    · exact sendStanza_red _ _ h
  · split
    · exact reject_red s h
    · split
      · exact reject_red s h
      · exact h
  · split
    · exact reject_red s h
    · split <;> exact h
  · split
    · exact reject_red s h
    · exact h
  · unfold idleGuarded
    split
    · exact reject_red s h
    · exact idleHandle'_red s _ hc h
theorem starttlsHandle_red (s : St) (e : El) (h : s.redirect = false) : (starttlsHandle s e).1.redirect = false := by
  unfold starttlsHandle
  split
  · exact h
  · exact onSocketDisconnected_red _
  · exact reject_red s h
theorem nonSaslHandle_red (s : St) (e : El) (h : s.redirect = false) : (nonSaslHandle s e).1.redirect = false := by
  unfold nonSaslHandle
  split
  · split
    · exact h
    · exact disconnectFromHost_red s h
  · exact disconnectFromHost_red s h
  · exact reject_red s h
theorem nonSaslResultHandle_red (s : St) (e : El) (h : s.redirect = false) :
    (nonSaslResultHandle s e).1.redirect = false := by
  unfold nonSaslResultHandle
  split
  · exact openSession_red _ h
  · exact openSession_red _ h
  · exact disconnectFromHost_red s h
  · exact reject_red s h
theorem saslHandle_red (s : St) (m : Used) (fr : Bool) (e : El) (h : s.redirect = false) :
    (saslHandle s m fr e).1.redirect = false := by
  unfold saslHandle
  split
  · split
    · exact h
    · exact failAuth_red s h
  · split
    · exact h
    · exact failAuth_red s h
  · exact failAuth_red s h
  · exact reject_red s h
theorem sasl2Handle_red (s : St) (m : Used) (fr : Bool) (e : El) (h : s.redirect = false) :
    (sasl2Handle s m fr e).1.redirect = false := by
  unfold sasl2Handle
  split
  · split
    · exact h
    · exact failAuth_red s h
  · rename_i b r tok proof
    split
    case isFalse => exact failAuth_red s h
    dsimp only
    have h1 : ({ s with authenticated := true, bind2Bound := decide (b ≠ S2Bound.none),
                          hasToken := s.hasToken || (tok && (s.tokenRequested || s.hasToken)) } : St).redirect = false := h
    generalize ({ s with authenticated := true, bind2Bound := decide (b ≠ S2Bound.none),
                          hasToken := s.hasToken || (tok && (s.tokenRequested || s.hasToken)) } : St) = s1 at h1
    have h2 : (if r = .resumed then onSmResumed s1 else (s1, [])).1.redirect = false := by
      split <;> exact h1
    generalize (if r = .resumed then onSmResumed s1 else (s1, [])) = r2 at h2
    have h3 : (if b = .smEnabled then onSmEnabled r2.1 true else (r2.1, [])).1.redirect = false := by
      split <;> exact h2
    generalize (if b = .smEnabled then onSmEnabled r2.1 true else (r2.1, [])) = r3 at h3
    split
    · exact openSession_red _ h3
    · exact h3
  · exact failAuth_red s h
  · exact h
  · exact reject_red s h
theorem smResumeHandle_red (s : St) (e : El) (h : s.redirect = false) : (smResumeHandle s e).1.redirect = false := by
  unfold smResumeHandle
  split
  · exact openSession_red _ (onSmResumed_red s h)
  · split
    · exact h
    · exact openSession_red _ h
  · exact reject_red s h
theorem smEnableHandle_red (s : St) (e : El) (h : s.redirect = false) : (smEnableHandle s e).1.redirect = false := by
  unfold smEnableHandle
  split
  · exact openSession_red _ (onSmEnabled_red s _ _ h)
  · exact openSession_red _ h
  · exact reject_red s h
theorem bindHandle_red (s : St) (e : El) (h : s.redirect = false) : (bindHandle s e).1.redirect = false := by
  unfold bindHandle
  split
  · split
    · exact h
    · exact openSession_red _ h
  · exact failAuth_red s h
  · exact failAuth_red s h
  · exact reject_red s h
theorem dispatch_red (s : St) (e : El) (hc : s.conn = .connected) (h : s.redirect = false) :
    (dispatch s e).1.redirect = false := by
  unfold dispatch
  split
  · exact idleHandle_red s e hc h
  · exact starttlsHandle_red s e h
  · exact nonSaslHandle_red s _ h
  · exact nonSaslResultHandle_red s _ h
  · exact saslHandle_red s _ _ e h
  · exact reject_red s h
  · exact sasl2Handle_red s _ _ e h
  · exact reject_red s h
  · exact smResumeHandle_red s e h
  · exact smEnableHandle_red s e h
  · exact bindHandle_red s e h
theorem recv_red (s : St) (e : El) (h : s.redirect = false) : (recv s e).1.redirect = false := by
  unfold recv
  split
  · exact h
  · rename_i hcw
    have hc : s.conn = .connected := by
      by_cases hc : s.conn = .connected
      · exact hc
      · exact absurd (Or.inl hc) hcw
    split
    · exact handleStream_red _ _ _ h
    · split
      · exact h
      · split
        · exact disconnectFromHost_red s h
        · exact dispatch_red s e hc h
theorem sendIq_red (s : St) (h : s.redirect = false) : (sendIq s).1.redirect = false := by
  unfold sendIq
  dsimp only
  split
  · exact sendStanza_red _ _ h
  · exact sendStanza_red _ _ h
theorem sendIqRetry_red (s : St) (h : s.redirect = false) : (sendIqRetry s).1.redirect = false := by
  unfold sendIqRetry
  dsimp only
  split
  · exact sendIq_red _ (sendStanza_red _ _ h)
  · exact sendStanza_red _ _ h
theorem socketGone_red (s : St) (h : s.redirect = false) : (socketGone s).1.redirect = false := by
  unfold socketGone
  split
  · exact onSocketDisconnected_red _
  · split <;> exact h
theorem connectTo_red (s : St) (h : s.redirect = false) : (connectTo s).1.redirect = false := socketGone_red s h
theorem step_red (s : St) (e : Ev) (h : s.redirect = false) : (step s e).1.redirect = false := by
  cases e with
  | connectToServer => exact connectTo_red s h
  | tlsCloseNotify => simp only [step]; split <;> exact h
  | reconnectTick => simp only [step]; split
                     · exact connectTo_red _ h
                     · exact h
  | socketConnected => simp only [step]; split <;> exact h
  | socketError => exact h
  | socketDisconnected => exact socketGone_red s h
  | recv el => exact recv_red s el h
  | sendIq => exact sendIq_red s h
  | sendIqRetry => exact sendIqRetry_red s h
  | recvWhitespace => exact h
  | recvPartial => simp only [step]; split <;> exact h
  | tick => simp only [step]; split
            · unfold sendPing; split <;> exact h
            · exact h
  | closeTail => exact disconnectFromHost_red s h
theorem run_red (evs : List Ev) (s : St) (h : s.redirect = false) : (run s evs).1.redirect = false := by
  induction evs generalizing s with
  | nil => exact h
  | cons e es ih => simp only [run]; exact ih _ (step_red s e h)

/-- features that rule out TLS, received by an idle, connected, unencrypted client that requires TLS -/
theorem tls_unavailable_core (s : St) (f : Features) (hreq : s.cfg.tls = .required)
    (hc : s.conn = .connected) (he : s.encrypted = false) (hh : s.headerSeen = true) (hw : s.wedged = false)
    (hl : s.listener = .idle) (hred : s.redirect = false) (hr0 : s.pendingRetry = 0)
    (hf : f.tls = .absent ∨ s.cfg.localTls = false) :
    (step s (.recv (.features f))).2 = .sent .streamClose .clear :: (iqDones s.pendingIq ++ [.sig .disconnected]) ∧
    (step s (.recv (.features f))).1.conn = .disconnected ∧ (step s (.recv (.features f))).1.sessionStarted = false ∧
    (step s (.recv (.features f))).1.authenticated = false ∧ (step s (.recv (.features f))).1.pendingIq = 0 := by
  have hst : handleStarttls s f = some (disconnectFromHost s) := by
    unfold handleStarttls
    simp only [he, hreq]
    rcases hf with hf | hf
    · simp [hf]
    · by_cases ha : f.tls = .absent <;> simp [ha, hf]
  have hr : step s (.recv (.features f)) = disconnectFromHost s := by
    simp only [step, recv, hc, hw, hh, dispatch, hl, idleHandle, idleGuarded, El.isStreamLevel, St.preTls, idleHandle', handleFeatures, handleFeaturesOwn,
      registerOnFeatures, hst]
    simp
  rw [hr]
  simp [disconnectFromHost, socketClose, onSocketDisconnected, closeSession, hc, hred, send, link, he, hr0, retryN]

end Qx.C04
