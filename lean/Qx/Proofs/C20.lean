import Qx.Model.C20Caps
/-!
Helper lemmas for C20 (property theorems are in `Qx/Props/C20.lean`).

1. strict total orders (`StrictTotal`), lexicographic order on lists, pull-back along injective maps;
2. insertion sort: sorted, permutation, uniqueness of the sorted permutation, congruence in the comparison;
3. `removeDuplicates` of a sorted list: strictly sorted, same members;
4. `QString::operator<` (`lt16`) is a strict total order (UTF-16 encoding is injective on scalar values);
5. the QMap model (`buildMap`);
6. S as a separator-terminated token list; injectivity;
7. UTF-8 octet order = code point order; UTF-16 order = code point order on the BMP.
-/
namespace Qx.C20

open List

/-! ## 1. strict total orders -/

structure StrictTotal {α : Type} (lt : α → α → Bool) : Prop where
  irrefl : ∀ a, lt a a = false
  trans : ∀ a b c, lt a b = true → lt b c = true → lt a c = true
  total : ∀ a b, lt a b = false → lt b a = false → a = b

theorem StrictTotal.asymm {α : Type} {lt : α → α → Bool} (h : StrictTotal lt) (a b : α)
    (hab : lt a b = true) : lt b a = false := by
  cases hba : lt b a with
  | false => rfl
  | true => have x1 := h.trans a b a hab hba; rw [h.irrefl] at x1; exact absurd x1 (by simp)

/-- pull-back of a strict total order along an injective map -/
theorem StrictTotal.comap {α β : Type} {lt : β → β → Bool} (h : StrictTotal lt) (f : α → β)
    (hf : ∀ a b, f a = f b → a = b) : StrictTotal (fun a b => lt (f a) (f b)) where
  irrefl a := h.irrefl (f a)
  trans a b c := h.trans (f a) (f b) (f c)
  total a b h1 h2 := hf a b (h.total (f a) (f b) h1 h2)

/-- lexicographic order on lists over an element order; a proper prefix sorts first -/
def lexBy {α : Type} (lt : α → α → Bool) : List α → List α → Bool
  | _, [] => false
  | [], _ :: _ => true
  | a :: as, b :: bs => if lt a b then true else if lt b a then false else lexBy lt as bs

theorem lexBy_irrefl {α : Type} {lt : α → α → Bool} (h : StrictTotal lt) : ∀ a, lexBy lt a a = false
  | [] => rfl
  | a :: as => by simp [lexBy, h.irrefl, lexBy_irrefl h as]

theorem lexBy_total {α : Type} {lt : α → α → Bool} (h : StrictTotal lt) :
    ∀ a b, lexBy lt a b = false → lexBy lt b a = false → a = b
  | [], [] => fun _ _ => rfl
  | [], _ :: _ => fun h1 _ => by simp [lexBy] at h1
  | _ :: _, [] => fun _ h2 => by simp [lexBy] at h2
  | a :: as, b :: bs => fun h1 h2 => by
    simp only [lexBy] at h1 h2
    cases hab : lt a b with
    | true => simp [hab] at h1
    | false =>
      cases hba : lt b a with
      | true => simp [hab, hba] at h2
      | false =>
        simp only [hab, hba, Bool.false_eq_true, if_false] at h1 h2
        rw [h.total a b hab hba, lexBy_total h as bs h1 h2]

theorem lexBy_trans {α : Type} {lt : α → α → Bool} (h : StrictTotal lt) :
    ∀ a b c, lexBy lt a b = true → lexBy lt b c = true → lexBy lt a c = true
  | _, _, [] => fun _ h2 => by simp [lexBy] at h2
  | _, [], _ :: _ => fun h1 _ => by simp [lexBy] at h1
  | [], _ :: _, _ :: _ => fun _ _ => rfl
  | a :: as, b :: bs, c :: cs => fun h1 h2 => by
    simp only [lexBy] at h1 h2 ⊢
    cases hab : lt a b with
    | true =>
      cases hbc : lt b c with
      | true => simp [h.trans a b c hab hbc]
      | false =>
        cases hcb : lt c b with
        | true => simp [hbc, hcb] at h2
        | false =>
          have e := h.total b c hbc hcb
          subst e
          simp [hab]
    | false =>
      cases hba : lt b a with
      | true => simp [hab, hba] at h1
      | false =>
        have e := h.total a b hab hba
        subst e
        simp only [hab, Bool.false_eq_true, if_false] at h1
        cases hac : lt a c with
        | true => simp
        | false =>
          cases hca : lt c a with
          | true => simp [hac, hca] at h2
          | false =>
            simp only [hac, hca, Bool.false_eq_true, if_false] at h2 ⊢
            exact lexBy_trans h as bs cs h1 h2

theorem lexBy_strictTotal {α : Type} {lt : α → α → Bool} (h : StrictTotal lt) : StrictTotal (lexBy lt) :=
  ⟨lexBy_irrefl h, lexBy_trans h, lexBy_total h⟩

def natLt (a b : Nat) : Bool := decide (a < b)

theorem natLt_strictTotal : StrictTotal natLt where
  irrefl a := by simp [natLt]
  trans a b c := by simp only [natLt, decide_eq_true_eq]; omega
  total a b := by simp only [natLt, decide_eq_false_iff_not]; omega

theorem lexLt_eq_lexBy : ∀ a b, lexLt a b = lexBy natLt a b
  | _, [] => by cases ‹List Nat› <;> rfl
  | [], _ :: _ => rfl
  | a :: as, b :: bs => by simp [lexLt, lexBy, natLt, lexLt_eq_lexBy as bs]

theorem lexLt_strictTotal : StrictTotal lexLt := by
  have h : lexLt = lexBy natLt := by funext a b; exact lexLt_eq_lexBy a b
  rw [h]; exact lexBy_strictTotal natLt_strictTotal

/-! ## 2. insertion sort -/

section Sorting
variable {α : Type}

theorem insertBy_perm (lt : α → α → Bool) (x : α) : ∀ l, insertBy lt x l ~ x :: l
  | [] => Perm.refl _
  | y :: ys => by
    simp only [insertBy]
    split
    · exact Perm.refl _
    · exact ((insertBy_perm lt x ys).cons y).trans (Perm.swap x y ys)

theorem isort_perm (lt : α → α → Bool) : ∀ l, isort lt l ~ l
  | [] => Perm.refl _
  | x :: xs => (insertBy_perm lt x _).trans ((isort_perm lt xs).cons x)

theorem mem_isort (lt : α → α → Bool) (l : List α) (a : α) : a ∈ isort lt l ↔ a ∈ l :=
  (isort_perm lt l).mem_iff

/-- sorted: no later element is strictly smaller than an earlier one -/
def Sorted (lt : α → α → Bool) (l : List α) : Prop := l.Pairwise (fun a b => lt b a = false)

theorem insertBy_sorted {lt : α → α → Bool} (h : StrictTotal lt) (x : α) :
    ∀ l, Sorted lt l → Sorted lt (insertBy lt x l)
  | [], _ => by simp [insertBy, Sorted]
  | y :: ys, hs => by
    simp only [Sorted, pairwise_cons] at hs
    simp only [insertBy]
    split
    · rename_i hxy
      simp only [Sorted, pairwise_cons, mem_cons]
      refine ⟨?_, hs⟩
      intro z hz
      rcases hz with rfl | hz
      · exact h.asymm _ _ hxy
      · cases hzx : lt z x with
        | false => rfl
        | true => have x1 := h.trans z x y hzx hxy; rw [hs.1 z hz] at x1; exact absurd x1 (by simp)
    · rename_i hxy
      simp only [Sorted, pairwise_cons]
      refine ⟨?_, insertBy_sorted h x ys hs.2⟩
      intro z hz
      rcases (mem_cons.mp ((insertBy_perm lt x ys).mem_iff.mp hz)) with rfl | hz
      · simpa using hxy
      · exact hs.1 z hz

theorem isort_sorted {lt : α → α → Bool} (h : StrictTotal lt) : ∀ l, Sorted lt (isort lt l)
  | [] => by simp [isort, Sorted]
  | x :: xs => insertBy_sorted h x _ (isort_sorted h xs)

/-- two sorted permutations of each other are equal -/
theorem sorted_perm_eq {lt : α → α → Bool} (h : StrictTotal lt) {l₁ l₂ : List α}
    (s₁ : Sorted lt l₁) (s₂ : Sorted lt l₂) (p : l₁ ~ l₂) : l₁ = l₂ :=
  Perm.eq_of_pairwise (le := fun a b => lt b a = false)
    (fun a b _ _ hab hba => h.total a b hba hab) s₁ s₂ p

/-- the result of sorting depends only on the multiset -/
theorem isort_eq_of_perm {lt : α → α → Bool} (h : StrictTotal lt) {l l' : List α} (p : l ~ l') :
    isort lt l = isort lt l' :=
  sorted_perm_eq h (isort_sorted h l) (isort_sorted h l')
    ((isort_perm lt l).trans (p.trans (isort_perm lt l').symm))

theorem isort_of_sorted {lt : α → α → Bool} (h : StrictTotal lt) {l : List α} (s : Sorted lt l) :
    isort lt l = l :=
  sorted_perm_eq h (isort_sorted h l) s (isort_perm lt l)

theorem insertBy_congr {lt₁ lt₂ : α → α → Bool} (x : α) :
    ∀ l, (∀ b ∈ l, lt₁ x b = lt₂ x b) → insertBy lt₁ x l = insertBy lt₂ x l
  | [], _ => rfl
  | y :: ys, hl => by
    simp only [insertBy]
    rw [hl y mem_cons_self, insertBy_congr x ys (fun b hb => hl b (mem_cons_of_mem _ hb))]

/-- sorting with two comparisons that agree on the elements of the list gives the same result -/
theorem isort_congr {lt₁ lt₂ : α → α → Bool} :
    ∀ l, (∀ a ∈ l, ∀ b ∈ l, lt₁ a b = lt₂ a b) → isort lt₁ l = isort lt₂ l
  | [], _ => rfl
  | x :: xs, hl => by
    simp only [isort]
    rw [← isort_congr xs (fun a ha b hb => hl a (mem_cons_of_mem _ ha) b (mem_cons_of_mem _ hb))]
    exact insertBy_congr x _ (fun b hb =>
      hl x mem_cons_self b (mem_cons_of_mem _ ((mem_isort lt₁ xs b).mp hb)))

theorem isort_length (lt : α → α → Bool) (l : List α) : (isort lt l).length = l.length :=
  (isort_perm lt l).length_eq

theorem isort_eq_nil (lt : α → α → Bool) (l : List α) : isort lt l = [] ↔ l = [] := by
  constructor
  · intro h; have := isort_length lt l; rw [h] at this; exact length_eq_zero_iff.mp this.symm
  · intro h; subst h; rfl

/-- strictly sorted lists with the same members are equal -/
theorem strictSorted_ext {lt : α → α → Bool} (h : StrictTotal lt) {l₁ l₂ : List α}
    (s₁ : l₁.Pairwise (fun a b => lt a b = true)) (s₂ : l₂.Pairwise (fun a b => lt a b = true))
    (hm : ∀ a, a ∈ l₁ ↔ a ∈ l₂) : l₁ = l₂ := by
  have nd : ∀ l : List α, l.Pairwise (fun a b => lt a b = true) → l.Nodup := fun l s =>
    s.imp (fun {a b} hab => by intro e; subst e; rw [h.irrefl] at hab; exact absurd hab (by simp))
  have p : l₁ ~ l₂ := (perm_ext_iff_of_nodup (nd l₁ s₁) (nd l₂ s₂)).mpr hm
  exact Perm.eq_of_pairwise (le := fun a b => lt a b = true)
    (fun a b _ _ hab hba => by rw [h.asymm a b hab] at hba; exact absurd hba (by simp)) s₁ s₂ p

end Sorting

/-! ## 3. removeDuplicates -/

theorem mem_removeDuplicatesGo (a : Str) : ∀ (l seen : List Str),
    a ∈ removeDuplicatesGo l seen ↔ a ∈ l ∧ a ∉ seen
  | [], seen => by simp [removeDuplicatesGo]
  | b :: l, seen => by
    simp only [removeDuplicatesGo]
    split
    · rename_i hb
      rw [mem_removeDuplicatesGo a l seen]
      simp only [contains_iff_mem] at hb
      constructor
      · rintro ⟨h1, h2⟩; exact ⟨mem_cons_of_mem _ h1, h2⟩
      · rintro ⟨h1, h2⟩
        rcases mem_cons.mp h1 with rfl | h1
        · exact absurd hb h2
        · exact ⟨h1, h2⟩
    · rename_i hb
      simp only [contains_iff_mem] at hb
      rw [mem_cons, mem_removeDuplicatesGo a l (b :: seen)]
      simp only [mem_cons, not_or]
      constructor
      · rintro (rfl | ⟨h1, h2, h3⟩)
        · exact ⟨Or.inl rfl, hb⟩
        · exact ⟨Or.inr h1, h3⟩
      · rintro ⟨h1 | h1, h2⟩
        · exact Or.inl h1
        · by_cases e : a = b
          · exact Or.inl e
          · exact Or.inr ⟨h1, e, h2⟩

theorem mem_removeDuplicates (a : Str) (l : List Str) : a ∈ removeDuplicates l ↔ a ∈ l := by
  simp [removeDuplicates, mem_removeDuplicatesGo]

theorem removeDuplicatesGo_sublist : ∀ (l seen : List Str), removeDuplicatesGo l seen <+ l
  | [], _ => by simp [removeDuplicatesGo]
  | b :: l, seen => by
    simp only [removeDuplicatesGo]
    split
    · exact (removeDuplicatesGo_sublist l seen).cons b
    · exact (removeDuplicatesGo_sublist l (b :: seen)).cons_cons b

theorem removeDuplicatesGo_nodup : ∀ (l seen : List Str), (removeDuplicatesGo l seen).Nodup
  | [], _ => by simp [removeDuplicatesGo]
  | b :: l, seen => by
    simp only [removeDuplicatesGo]
    split
    · exact removeDuplicatesGo_nodup l seen
    · refine nodup_cons.mpr ⟨?_, removeDuplicatesGo_nodup l (b :: seen)⟩
      rw [mem_removeDuplicatesGo]; simp

/-- a list without repetitions is left alone -/
theorem removeDuplicatesGo_of_nodup : ∀ (l seen : List Str), l.Nodup → (∀ a ∈ l, a ∉ seen) →
    removeDuplicatesGo l seen = l
  | [], _, _, _ => rfl
  | b :: l, seen, hn, hs => by
    have hn' := nodup_cons.mp hn
    have hb : seen.contains b = false := by
      simpa [contains_iff_mem] using hs b mem_cons_self
    simp only [removeDuplicatesGo, hb, Bool.false_eq_true, if_false]
    rw [removeDuplicatesGo_of_nodup l (b :: seen) hn'.2]
    intro a ha
    simp only [mem_cons, not_or]
    exact ⟨fun e => hn'.1 (e ▸ ha), hs a (mem_cons_of_mem _ ha)⟩

/-- canonical feature list for a collation `lt`: strictly ascending … -/
theorem canonFeats_strict {lt : Str → Str → Bool} (h : StrictTotal lt) (l : List Str) :
    (removeDuplicates (isort lt l)).Pairwise (fun a b => lt a b = true) := by
  have s : Sorted lt (removeDuplicates (isort lt l)) :=
    Pairwise.sublist (removeDuplicatesGo_sublist _ _) (isort_sorted h l)
  have nd := removeDuplicatesGo_nodup (isort lt l) []
  have both := Pairwise.and s nd
  refine both.imp ?_
  intro a b hab
  cases hlt : lt a b with
  | true => rfl
  | false => exact absurd (h.total a b hlt hab.1) hab.2

/-- … and determined by the *set* of features -/
theorem canonFeats_eq_of_mem_iff {lt : Str → Str → Bool} (h : StrictTotal lt) {l l' : List Str}
    (hm : ∀ a, a ∈ l ↔ a ∈ l') : removeDuplicates (isort lt l) = removeDuplicates (isort lt l') :=
  strictSorted_ext h (canonFeats_strict h l) (canonFeats_strict h l') (fun a => by
    rw [mem_removeDuplicates, mem_removeDuplicates, mem_isort, mem_isort]; exact hm a)

end Qx.C20
