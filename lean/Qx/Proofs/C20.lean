import Qx.Model.C20Caps
/-!
Helper lemmas for C20 (property theorems are in `Qx/Props/C20.lean`).

1. strict total orders (`StrictTotal`), lexicographic order on lists, pull-back along injective maps;
2. insertion sort: sorted, permutation, uniqueness of the sorted permutation, congruence in the comparison;
3. `removeDuplicates` of a sorted list: strictly sorted, same members;
4. `QString::operator<` (`lt16`, the QMap's order) is a strict total order (UTF-16 is injective on scalar values);
5. UTF-8 octet order = code point order, hence `lt8` (the collation of the C++ and of the XEP) is a strict total order;
6. the QMap model (`buildMap`) and the key-sorted entries;
7. reordering of the form; S as a separator-terminated token list; injectivity;
8. the C++ string is the XEP string.
-/
namespace Qx.C20

open List

/-! ## 1. strict total orders -/

structure StrictTotal {α : Type} (lt : α → α → Bool) : Prop where
  irrefl : ∀ a, lt a a = false
  trans : ∀ a b c, lt a b = true → lt b c = true → lt a c = true
  total : ∀ a b, lt a b = false → lt b a = false → a = b

theorem StrictTotal.asymm {α : Type} {lt : α → α → Bool} (h : StrictTotal lt) (a b : α)
    (hab : lt a b = true) : lt b a = false := by
  cases hba : lt b a with
  | false => rfl
  | true => have x1 := h.trans a b a hab hba; rw [h.irrefl] at x1; exact absurd x1 (by simp)

/-- pull-back of a strict total order along an injective map -/
theorem StrictTotal.comap {α β : Type} {lt : β → β → Bool} (h : StrictTotal lt) (f : α → β)
    (hf : ∀ a b, f a = f b → a = b) : StrictTotal (fun a b => lt (f a) (f b)) where
  irrefl a := h.irrefl (f a)
  trans a b c := h.trans (f a) (f b) (f c)
  total a b h1 h2 := hf a b (h.total (f a) (f b) h1 h2)

/-- lexicographic order on lists over an element order; a proper prefix sorts first -/
def lexBy {α : Type} (lt : α → α → Bool) : List α → List α → Bool
  | _, [] => false
  | [], _ :: _ => true
  | a :: as, b :: bs => if lt a b then true else if lt b a then false else lexBy lt as bs

theorem lexBy_irrefl {α : Type} {lt : α → α → Bool} (h : StrictTotal lt) : ∀ a, lexBy lt a a = false
  | [] => rfl
  | a :: as => by simp [lexBy, h.irrefl, lexBy_irrefl h as]

theorem lexBy_total {α : Type} {lt : α → α → Bool} (h : StrictTotal lt) :
    ∀ a b, lexBy lt a b = false → lexBy lt b a = false → a = b
  | [], [] => fun _ _ => rfl
  | [], _ :: _ => fun h1 _ => by simp [lexBy] at h1
  | _ :: _, [] => fun _ h2 => by simp [lexBy] at h2
  | a :: as, b :: bs => fun h1 h2 => by
    simp only [lexBy] at h1 h2
    cases hab : lt a b with
    | true => simp [hab] at h1
    | false =>
      cases hba : lt b a with
      | true => simp [hba] at h2
      | false =>
        simp only [hab, hba, Bool.false_eq_true, if_false] at h1 h2
        rw [h.total a b hab hba, lexBy_total h as bs h1 h2]

theorem lexBy_trans {α : Type} {lt : α → α → Bool} (h : StrictTotal lt) :
    ∀ a b c, lexBy lt a b = true → lexBy lt b c = true → lexBy lt a c = true
  | _, _, [] => fun _ h2 => by simp [lexBy] at h2
  | _, [], _ :: _ => fun h1 _ => by simp [lexBy] at h1
  | [], _ :: _, _ :: _ => fun _ _ => rfl
  | a :: as, b :: bs, c :: cs => fun h1 h2 => by
    simp only [lexBy] at h1 h2 ⊢
    cases hab : lt a b with
    | true =>
      cases hbc : lt b c with
      | true => simp [h.trans a b c hab hbc]
      | false =>
        cases hcb : lt c b with
        | true => simp [hbc, hcb] at h2
        | false =>
          have e := h.total b c hbc hcb
          subst e
          simp [hab]
    | false =>
      cases hba : lt b a with
      | true => simp [hab, hba] at h1
      | false =>
        have e := h.total a b hab hba
        subst e
        simp only [hab, Bool.false_eq_true, if_false] at h1
        cases hac : lt a c with
        | true => simp
        | false =>
          cases hca : lt c a with
          | true => simp [hac, hca] at h2
          | false =>
            simp only [hac, hca, Bool.false_eq_true, if_false] at h2 ⊢
            exact lexBy_trans h as bs cs h1 h2

theorem lexBy_strictTotal {α : Type} {lt : α → α → Bool} (h : StrictTotal lt) : StrictTotal (lexBy lt) :=
  ⟨lexBy_irrefl h, lexBy_trans h, lexBy_total h⟩

def natLt (a b : Nat) : Bool := decide (a < b)

theorem natLt_strictTotal : StrictTotal natLt where
  irrefl a := by simp [natLt]
  trans a b c := by simp only [natLt, decide_eq_true_eq]; omega
  total a b := by simp only [natLt, decide_eq_false_iff_not]; omega

theorem lexLt_eq_lexBy : ∀ a b, lexLt a b = lexBy natLt a b
  | _, [] => by cases ‹List Nat› <;> rfl
  | [], _ :: _ => rfl
  | a :: as, b :: bs => by simp [lexLt, lexBy, natLt, lexLt_eq_lexBy as bs]

theorem lexLt_strictTotal : StrictTotal lexLt := by
  have h : lexLt = lexBy natLt := by funext a b; exact lexLt_eq_lexBy a b
  rw [h]; exact lexBy_strictTotal natLt_strictTotal

/-! ## 2. insertion sort -/

section Sorting
variable {α : Type}

theorem insertBy_perm (lt : α → α → Bool) (x : α) : ∀ l, insertBy lt x l ~ x :: l
  | [] => Perm.refl _
  | y :: ys => by
    simp only [insertBy]
    split
    · exact Perm.refl _
    · exact ((insertBy_perm lt x ys).cons y).trans (Perm.swap x y ys)

theorem isort_perm (lt : α → α → Bool) : ∀ l, isort lt l ~ l
  | [] => Perm.refl _
  | x :: xs => (insertBy_perm lt x _).trans ((isort_perm lt xs).cons x)

theorem mem_isort (lt : α → α → Bool) (l : List α) (a : α) : a ∈ isort lt l ↔ a ∈ l :=
  (isort_perm lt l).mem_iff

/-- sorted: no later element is strictly smaller than an earlier one -/
def Sorted (lt : α → α → Bool) (l : List α) : Prop := l.Pairwise (fun a b => lt b a = false)

theorem insertBy_sorted {lt : α → α → Bool} (h : StrictTotal lt) (x : α) :
    ∀ l, Sorted lt l → Sorted lt (insertBy lt x l)
  | [], _ => by simp [insertBy, Sorted]
  | y :: ys, hs => by
    simp only [Sorted, pairwise_cons] at hs
    simp only [insertBy]
    split
    · rename_i hxy
      simp only [Sorted, pairwise_cons, mem_cons]
      refine ⟨?_, hs⟩
      intro z hz
      rcases hz with rfl | hz
      · exact h.asymm _ _ hxy
      · cases hzx : lt z x with
        | false => rfl
        | true => have x1 := h.trans z x y hzx hxy; rw [hs.1 z hz] at x1; exact absurd x1 (by simp)
    · rename_i hxy
      simp only [Sorted, pairwise_cons]
      refine ⟨?_, insertBy_sorted h x ys hs.2⟩
      intro z hz
      rcases (mem_cons.mp ((insertBy_perm lt x ys).mem_iff.mp hz)) with rfl | hz
      · simpa using hxy
      · exact hs.1 z hz

theorem isort_sorted {lt : α → α → Bool} (h : StrictTotal lt) : ∀ l, Sorted lt (isort lt l)
  | [] => by simp [isort, Sorted]
  | x :: xs => insertBy_sorted h x _ (isort_sorted h xs)

/-- two sorted permutations of each other are equal -/
theorem sorted_perm_eq {lt : α → α → Bool} (h : StrictTotal lt) {l₁ l₂ : List α}
    (s₁ : Sorted lt l₁) (s₂ : Sorted lt l₂) (p : l₁ ~ l₂) : l₁ = l₂ :=
  Perm.eq_of_pairwise (le := fun a b => lt b a = false)
    (fun a b _ _ hab hba => h.total a b hba hab) s₁ s₂ p

/-- the result of sorting depends only on the multiset -/
theorem isort_eq_of_perm {lt : α → α → Bool} (h : StrictTotal lt) {l l' : List α} (p : l ~ l') :
    isort lt l = isort lt l' :=
  sorted_perm_eq h (isort_sorted h l) (isort_sorted h l')
    ((isort_perm lt l).trans (p.trans (isort_perm lt l').symm))

theorem isort_of_sorted {lt : α → α → Bool} (h : StrictTotal lt) {l : List α} (s : Sorted lt l) :
    isort lt l = l :=
  sorted_perm_eq h (isort_sorted h l) s (isort_perm lt l)

theorem insertBy_congr {lt₁ lt₂ : α → α → Bool} (x : α) :
    ∀ l, (∀ b ∈ l, lt₁ x b = lt₂ x b) → insertBy lt₁ x l = insertBy lt₂ x l
  | [], _ => rfl
  | y :: ys, hl => by
    simp only [insertBy]
    rw [hl y mem_cons_self, insertBy_congr x ys (fun b hb => hl b (mem_cons_of_mem _ hb))]

/-- sorting with two comparisons that agree on the elements of the list gives the same result -/
theorem isort_congr {lt₁ lt₂ : α → α → Bool} :
    ∀ l, (∀ a ∈ l, ∀ b ∈ l, lt₁ a b = lt₂ a b) → isort lt₁ l = isort lt₂ l
  | [], _ => rfl
  | x :: xs, hl => by
    simp only [isort]
    rw [← isort_congr xs (fun a ha b hb => hl a (mem_cons_of_mem _ ha) b (mem_cons_of_mem _ hb))]
    exact insertBy_congr x _ (fun b hb =>
      hl x mem_cons_self b (mem_cons_of_mem _ ((mem_isort lt₁ xs b).mp hb)))

theorem insertBy_map {β : Type} (f : α → β) (lt : β → β → Bool) (x : α) :
    ∀ l : List α, insertBy lt (f x) (l.map f) = (insertBy (fun a b => lt (f a) (f b)) x l).map f
  | [] => rfl
  | y :: ys => by
    simp only [map_cons, insertBy]
    split
    · rfl
    · simp only [map_cons, insertBy_map f lt x ys]

/-- sorting commutes with a map that is compatible with the comparison -/
theorem isort_map {β : Type} (f : α → β) (lt : β → β → Bool) :
    ∀ l : List α, isort lt (l.map f) = (isort (fun a b => lt (f a) (f b)) l).map f
  | [] => rfl
  | x :: xs => by simp only [map_cons, isort, isort_map f lt xs, insertBy_map]

theorem isort_length (lt : α → α → Bool) (l : List α) : (isort lt l).length = l.length :=
  (isort_perm lt l).length_eq

theorem isort_eq_nil (lt : α → α → Bool) (l : List α) : isort lt l = [] ↔ l = [] := by
  constructor
  · intro h; have := isort_length lt l; rw [h] at this; exact length_eq_zero_iff.mp this.symm
  · intro h; subst h; rfl

/-- strictly sorted lists with the same members are equal -/
theorem strictSorted_ext {lt : α → α → Bool} (h : StrictTotal lt) {l₁ l₂ : List α}
    (s₁ : l₁.Pairwise (fun a b => lt a b = true)) (s₂ : l₂.Pairwise (fun a b => lt a b = true))
    (hm : ∀ a, a ∈ l₁ ↔ a ∈ l₂) : l₁ = l₂ := by
  have nd : ∀ l : List α, l.Pairwise (fun a b => lt a b = true) → l.Nodup := fun l s =>
    s.imp (fun {a b} hab => by intro e; subst e; rw [h.irrefl] at hab; exact absurd hab (by simp))
  have p : l₁ ~ l₂ := (perm_ext_iff_of_nodup (nd l₁ s₁) (nd l₂ s₂)).mpr hm
  exact Perm.eq_of_pairwise (le := fun a b => lt a b = true)
    (fun a b _ _ hab hba => by rw [h.asymm a b hab] at hba; exact absurd hba (by simp)) s₁ s₂ p

end Sorting

/-! ## 3. removeDuplicates -/

theorem mem_removeDuplicatesGo (a : Str) : ∀ (l seen : List Str),
    a ∈ removeDuplicatesGo l seen ↔ a ∈ l ∧ a ∉ seen
  | [], seen => by simp [removeDuplicatesGo]
  | b :: l, seen => by
    simp only [removeDuplicatesGo]
    split
    · rename_i hb
      rw [mem_removeDuplicatesGo a l seen]
      simp only [contains_iff_mem] at hb
      constructor
      · rintro ⟨h1, h2⟩; exact ⟨mem_cons_of_mem _ h1, h2⟩
      · rintro ⟨h1, h2⟩
        rcases mem_cons.mp h1 with rfl | h1
        · exact absurd hb h2
        · exact ⟨h1, h2⟩
    · rename_i hb
      simp only [contains_iff_mem] at hb
      rw [mem_cons, mem_removeDuplicatesGo a l (b :: seen)]
      simp only [mem_cons, not_or]
      constructor
      · rintro (rfl | ⟨h1, h2, h3⟩)
        · exact ⟨Or.inl rfl, hb⟩
        · exact ⟨Or.inr h1, h3⟩
      · rintro ⟨h1 | h1, h2⟩
        · exact Or.inl h1
        · by_cases e : a = b
          · exact Or.inl e
          · exact Or.inr ⟨h1, e, h2⟩

theorem mem_removeDuplicates (a : Str) (l : List Str) : a ∈ removeDuplicates l ↔ a ∈ l := by
  simp [removeDuplicates, mem_removeDuplicatesGo]

theorem removeDuplicatesGo_sublist : ∀ (l seen : List Str), removeDuplicatesGo l seen <+ l
  | [], _ => by simp [removeDuplicatesGo]
  | b :: l, seen => by
    simp only [removeDuplicatesGo]
    split
    · exact (removeDuplicatesGo_sublist l seen).cons b
    · exact (removeDuplicatesGo_sublist l (b :: seen)).cons_cons b

theorem removeDuplicatesGo_nodup : ∀ (l seen : List Str), (removeDuplicatesGo l seen).Nodup
  | [], _ => by simp [removeDuplicatesGo]
  | b :: l, seen => by
    simp only [removeDuplicatesGo]
    split
    · exact removeDuplicatesGo_nodup l seen
    · refine nodup_cons.mpr ⟨?_, removeDuplicatesGo_nodup l (b :: seen)⟩
      rw [mem_removeDuplicatesGo]; simp

/-- a list without repetitions is left alone -/
theorem removeDuplicatesGo_of_nodup : ∀ (l seen : List Str), l.Nodup → (∀ a ∈ l, a ∉ seen) →
    removeDuplicatesGo l seen = l
  | [], _, _, _ => rfl
  | b :: l, seen, hn, hs => by
    have hn' := nodup_cons.mp hn
    have hb : seen.contains b = false := by
      simpa [contains_iff_mem] using hs b mem_cons_self
    simp only [removeDuplicatesGo, hb, Bool.false_eq_true, if_false]
    rw [removeDuplicatesGo_of_nodup l (b :: seen) hn'.2]
    intro a ha
    simp only [mem_cons, not_or]
    exact ⟨fun e => hn'.1 (e ▸ ha), hs a (mem_cons_of_mem _ ha)⟩

/-- canonical feature list for a collation `lt`: strictly ascending … -/
theorem canonFeats_strict {lt : Str → Str → Bool} (h : StrictTotal lt) (l : List Str) :
    (removeDuplicates (isort lt l)).Pairwise (fun a b => lt a b = true) := by
  have s : Sorted lt (removeDuplicates (isort lt l)) :=
    Pairwise.sublist (removeDuplicatesGo_sublist _ _) (isort_sorted h l)
  have nd := removeDuplicatesGo_nodup (isort lt l) []
  have both := Pairwise.and s nd
  refine both.imp ?_
  intro a b hab
  cases hlt : lt a b with
  | true => rfl
  | false => exact absurd (h.total a b hlt hab.1) hab.2

/-- … and determined by the *set* of features -/
theorem canonFeats_eq_of_mem_iff {lt : Str → Str → Bool} (h : StrictTotal lt) {l l' : List Str}
    (hm : ∀ a, a ∈ l ↔ a ∈ l') : removeDuplicates (isort lt l) = removeDuplicates (isort lt l') :=
  strictSorted_ext h (canonFeats_strict h l) (canonFeats_strict h l') (fun a => by
    rw [mem_removeDuplicates, mem_removeDuplicates, mem_isort, mem_isort]; exact hm a)


/-! ## 4. UTF-16 -/

/-- UTF-16 code units of one scalar value -/
def unit16 (c : Nat) : List Nat :=
  if c < 0x10000 then [c]
  else if c < 0x110000 then [0xD800 + (c - 0x10000) / 1024, 0xDC00 + (c - 0x10000) % 1024]
  else [Utf8.replacement]

theorem utf16_eq (s : Str) : utf16 s = s.flatMap (fun c => unit16 c.toNat) := by
  simp [utf16, Utf8.utf16Units, cps, List.flatMap_map, unit16]

theorem char_scalar (c : Char) : c.toNat < 0xD800 ∨ (0xDFFF < c.toNat ∧ c.toNat < 0x110000) := by
  have := c.valid
  simp only [Char.toNat, UInt32.isValidChar, Nat.isValidChar] at *
  omega

theorem unit16_cons_inj (c d : Char) (r s : List Nat)
    (h : unit16 c.toNat ++ r = unit16 d.toNat ++ s) : c = d ∧ r = s := by
  have hc := char_scalar c
  have hd := char_scalar d
  have key : c.toNat = d.toNat ∧ r = s := by
    unfold unit16 at h
    split at h <;> split at h
    all_goals (try split at h)
    all_goals (try split at h)
    all_goals simp at h
    all_goals (first | omega | (refine ⟨?_, ?_⟩ <;> first | omega | exact h.2 | exact h.2.2 | trace_state))
  exact ⟨Char.ext (UInt32.toNat_inj.mp key.1), key.2⟩


theorem utf16_injective : ∀ a b : Str, utf16 a = utf16 b → a = b := by
  intro a b
  rw [utf16_eq, utf16_eq]
  induction a generalizing b with
  | nil =>
    cases b with
    | nil => intro _; rfl
    | cons d ds =>
      intro h
      simp only [flatMap_nil, flatMap_cons] at h
      have : (unit16 d.toNat) ≠ [] := by unfold unit16; split <;> (try split) <;> simp
      cases hu : unit16 d.toNat with
      | nil => exact absurd hu this
      | cons x xs => rw [hu] at h; simp at h
  | cons c cs ih =>
    cases b with
    | nil =>
      intro h
      simp only [flatMap_nil, flatMap_cons] at h
      have : (unit16 c.toNat) ≠ [] := by unfold unit16; split <;> (try split) <;> simp
      cases hu : unit16 c.toNat with
      | nil => exact absurd hu this
      | cons x xs => rw [hu] at h; simp at h
    | cons d ds =>
      intro h
      simp only [flatMap_cons] at h
      have x1 := unit16_cons_inj c d _ _ h
      rw [x1.1, ih ds x1.2]

/-- `QString::operator<` is a strict total order on well-formed strings -/
theorem lt16_strictTotal : StrictTotal lt16 :=
  lexLt_strictTotal.comap utf16 utf16_injective

/-- the four compared attributes of an identity, in comparison order -/
def idKey (d : Identity) : List Str := [d.category, d.type, d.lang, d.name]

theorem idKey_injective (a b : Identity) (h : idKey a = idKey b) : a = b := by
  cases a; cases b; simp [idKey] at h; simp [h]

theorem identityLessThan_eq_lexBy (lt : Str → Str → Bool) (a b : Identity) :
    identityLessThan lt a b = lexBy lt (idKey a) (idKey b) := by
  simp only [identityLessThan, idKey, lexBy]
  repeat' split
  all_goals simp_all

/-- `identityLessThan` is a strict total order on identities whenever the string comparison is one -/
theorem identityLessThan_strictTotal {lt : Str → Str → Bool} (h : StrictTotal lt) :
    StrictTotal (identityLessThan lt) := by
  have e : identityLessThan lt = fun a b => lexBy lt (idKey a) (idKey b) := by
    funext a b; exact identityLessThan_eq_lexBy lt a b
  rw [e]
  exact (lexBy_strictTotal h).comap idKey idKey_injective


/-! ## 5. octet order = code point order; `lt8` is a strict total order -/

theorem flatMap_congr' {α β : Type} {l : List α} {f g : α → List β} (h : ∀ a ∈ l, f a = g a) :
    l.flatMap f = l.flatMap g := by
  rw [flatMap_def, flatMap_def, map_congr_left h]


theorem lexLt_irrefl (a : List Nat) : lexLt a a = false := lexLt_strictTotal.irrefl a

theorem lexLt_append_left : ∀ (p a b : List Nat), lexLt (p ++ a) (p ++ b) = lexLt a b
  | [], _, _ => rfl
  | x :: p, a, b => by
    simp only [cons_append, lexLt, Nat.lt_irrefl, if_false]
    exact lexLt_append_left p a b

/-- UTF-8 octets of one scalar value, as numbers -/
def encN (c : Nat) : List Nat :=
  if c < 0x80 then [c]
  else if c < 0x800 then [0xC0 + c / 64, 0x80 + c % 64]
  else if c < 0x10000 then [0xE0 + c / 4096, 0x80 + c / 64 % 64, 0x80 + c % 64]
  else [0xF0 + c / 262144, 0x80 + c / 4096 % 64, 0x80 + c / 64 % 64, 0x80 + c % 64]

theorem toNat_ofNat8 (n : Nat) (h : n < 256) : (UInt8.ofNat n).toNat = n := by
  simp [UInt8.toNat_ofNat', Nat.mod_eq_of_lt h]

theorem encodeCp_eq (c : Char) : (Utf8.encodeCp c.toNat).map UInt8.toNat = encN c.toNat := by
  have hc := char_scalar c
  unfold Utf8.encodeCp encN
  split
  · simp only [map_cons, map_nil]; rw [toNat_ofNat8 _ (by omega)]
  · split
    · simp only [map_cons, map_nil]; rw [toNat_ofNat8 _ (by omega), toNat_ofNat8 _ (by omega)]
    · split
      · omega
      · split
        · simp only [map_cons, map_nil]
          rw [toNat_ofNat8 _ (by omega), toNat_ofNat8 _ (by omega), toNat_ofNat8 _ (by omega)]
        · split
          · simp only [map_cons, map_nil]
            rw [toNat_ofNat8 _ (by omega), toNat_ofNat8 _ (by omega), toNat_ofNat8 _ (by omega), toNat_ofNat8 _ (by omega)]
          · omega

theorem utf8_eq (s : Str) : utf8 s = s.flatMap (fun c => encN c.toNat) := by
  simp only [utf8, Utf8.encode, cps, flatMap_map, map_flatMap]
  apply flatMap_congr'
  intro c _
  exact encodeCp_eq c

theorem encN_ne_nil (c : Nat) : encN c ≠ [] := by
  unfold encN; split <;> (try split) <;> (try split) <;> simp

/-- a smaller scalar value has the smaller octet sequence, whatever follows -/
theorem encN_mono (c d : Nat) (hd : d < 0x110000) (h : c < d) (A B : List Nat) :
    lexLt (encN c ++ A) (encN d ++ B) = true := by
  unfold encN
  split <;> split <;> (try split) <;> (try split) <;> (try split) <;> (try split)
  all_goals simp only [cons_append, nil_append, lexLt]
  all_goals (repeat' split)
  all_goals first | rfl | omega

/-- an order-embedding, prefix-compatible encoding of the elements carries the lexicographic order over -/
theorem lexLt_flatMap_mono (enc : Nat → List Nat) (P : Nat → Prop)
    (hne : ∀ c, enc c ≠ [])
    (hmono : ∀ c d A B, P c → P d → c < d → lexLt (enc c ++ A) (enc d ++ B) = true) :
    ∀ a b : List Nat, (∀ c ∈ a, P c) → (∀ c ∈ b, P c) → lexLt a b = true →
      lexLt (a.flatMap enc) (b.flatMap enc) = true
  | _, [], _, _, h => by cases ‹List Nat› <;> simp [lexLt] at h
  | [], d :: ds, _, _, _ => by
    simp only [flatMap_nil, flatMap_cons]
    cases he : enc d with
    | nil => exact absurd he (hne d)
    | cons x xs => rfl
  | c :: cs, d :: ds, ha, hb, h => by
    simp only [lexLt] at h
    simp only [flatMap_cons]
    by_cases hcd : c < d
    · exact hmono c d _ _ (ha c mem_cons_self) (hb d mem_cons_self) hcd
    · by_cases hdc : d < c
      · simp [hcd, hdc] at h
      · have e : c = d := by omega
        subst e
        simp only [hcd, if_false] at h
        rw [lexLt_append_left]
        exact lexLt_flatMap_mono enc P hne hmono cs ds (fun x hx => ha x (mem_cons_of_mem _ hx))
          (fun x hx => hb x (mem_cons_of_mem _ hx)) h

theorem lexLt_flatMap_eq (enc : Nat → List Nat) (P : Nat → Prop)
    (hne : ∀ c, enc c ≠ [])
    (hmono : ∀ c d A B, P c → P d → c < d → lexLt (enc c ++ A) (enc d ++ B) = true)
    (a b : List Nat) (ha : ∀ c ∈ a, P c) (hb : ∀ c ∈ b, P c) :
    lexLt (a.flatMap enc) (b.flatMap enc) = lexLt a b := by
  cases hab : lexLt a b with
  | true => exact lexLt_flatMap_mono enc P hne hmono a b ha hb hab
  | false =>
    cases hba : lexLt b a with
    | true =>
      exact lexLt_strictTotal.asymm _ _ (lexLt_flatMap_mono enc P hne hmono b a hb ha hba)
    | false =>
      rw [lexLt_strictTotal.total a b hab hba]
      exact lexLt_irrefl _

theorem cps_scalar (s : Str) : ∀ c ∈ cps s, c < 0x110000 := by
  intro c hc
  simp only [cps, mem_map] at hc
  obtain ⟨ch, _, rfl⟩ := hc
  have := char_scalar ch
  omega

theorem flatMap_cps (s : Str) (f : Nat → List Nat) : s.flatMap (fun c => f c.toNat) = (cps s).flatMap f := by
  simp [cps, flatMap_map]

/-- **i;octet on UTF-8 is code point order** (for all well-formed strings) -/
theorem lt8_eq_cp (a b : Str) : lt8 a b = lexLt (cps a) (cps b) := by
  simp only [lt8, utf8_eq, flatMap_cps]
  exact lexLt_flatMap_eq encN (· < 0x110000) encN_ne_nil
    (fun c d A B _ hd h => encN_mono c d hd h A B) _ _ (cps_scalar a) (cps_scalar b)

theorem cps_injective : ∀ a b : Str, cps a = cps b → a = b
  | [], [], _ => rfl
  | [], _ :: _, h => by simp [cps] at h
  | _ :: _, [], h => by simp [cps] at h
  | c :: cs, d :: ds, h => by
    simp only [cps, map_cons, cons.injEq] at h
    have e : c = d := Char.ext (UInt32.toNat_inj.mp h.1)
    rw [e, cps_injective cs ds (by simpa [cps] using h.2)]

/-- the octet collation is a strict total order on well-formed strings -/
theorem lt8_strictTotal : StrictTotal lt8 := by
  have e : lt8 = fun a b => lexLt (cps a) (cps b) := by funext a b; exact lt8_eq_cp a b
  rw [e]
  exact lexLt_strictTotal.comap cps cps_injective

section Weak
variable {α : Type}
/-- `insertBy`/`isort` keep a list sorted as soon as the comparison is irreflexive and transitive -/
theorem insertBy_sorted' {lt : α → α → Bool} (hi : ∀ a, lt a a = false)
    (ht : ∀ a b c, lt a b = true → lt b c = true → lt a c = true) (x : α) :
    ∀ l, Sorted lt l → Sorted lt (insertBy lt x l)
  | [], _ => by simp [insertBy, Sorted]
  | y :: ys, hs => by
    simp only [Sorted, pairwise_cons] at hs
    simp only [insertBy]
    split
    · rename_i hxy
      simp only [Sorted, pairwise_cons, mem_cons]
      refine ⟨?_, hs⟩
      intro z hz
      rcases hz with rfl | hz
      · cases hzx : lt z x with
        | false => rfl
        | true => have x1 := ht x z x hxy hzx; rw [hi] at x1; exact absurd x1 (by simp)
      · cases hzx : lt z x with
        | false => rfl
        | true => have x1 := ht z x y hzx hxy; rw [hs.1 z hz] at x1; exact absurd x1 (by simp)
    · rename_i hxy
      simp only [Sorted, pairwise_cons]
      refine ⟨?_, insertBy_sorted' hi ht x ys hs.2⟩
      intro z hz
      rcases (mem_cons.mp ((insertBy_perm lt x ys).mem_iff.mp hz)) with rfl | hz
      · simpa using hxy
      · exact hs.1 z hz

theorem isort_sorted' {lt : α → α → Bool} (hi : ∀ a, lt a a = false)
    (ht : ∀ a b c, lt a b = true → lt b c = true → lt a c = true) : ∀ l, Sorted lt (isort lt l)
  | [] => by simp [isort, Sorted]
  | x :: xs => insertBy_sorted' hi ht x _ (isort_sorted' hi ht xs)

/-- a permutation of a list whose members are all equal is the list itself -/
theorem perm_eq_of_all_eq {l₁ l₂ : List α} (p : l₁ ~ l₂) (h : ∀ a ∈ l₁, ∀ b ∈ l₁, a = b) : l₁ = l₂ :=
  Perm.eq_of_pairwise (le := fun _ _ => True)
    (fun a b ha hb _ _ => h a ha b (p.mem_iff.mpr hb))
    (Pairwise.imp (fun _ => trivial) (pairwise_of_forall (R := fun _ _ => True) (fun _ _ => trivial)))
    (pairwise_of_forall (fun _ _ => trivial)) p
end Weak

/-! ## 6. the QMap -/

def keyLt (a b : Field) : Bool := lt16 a.key b.key

theorem keyLt_irrefl (a : Field) : keyLt a a = false := lt16_strictTotal.irrefl _
theorem keyLt_trans (a b c : Field) : keyLt a b = true → keyLt b c = true → keyLt a c = true :=
  lt16_strictTotal.trans _ _ _
theorem keyLt_asymm (a b : Field) : keyLt a b = true → keyLt b a = false := lt16_strictTotal.asymm _ _

theorem mem_mapInsert {w f : Field} : ∀ {m : List Field}, w ∈ mapInsert m f → w = f ∨ w ∈ m
  | [], h => by simp [mapInsert] at h; exact Or.inl h
  | g :: r, h => by
    simp only [mapInsert] at h
    split at h
    · simpa using h
    · split at h
      · rcases mem_cons.mp h with rfl | h
        · exact Or.inr mem_cons_self
        · rcases mem_mapInsert h with e | e
          · exact Or.inl e
          · exact Or.inr (mem_cons_of_mem _ e)
      · rcases mem_cons.mp h with rfl | h
        · exact Or.inl rfl
        · exact Or.inr (mem_cons_of_mem _ h)

/-- the map stays strictly ascending by key -/
theorem mapInsert_sorted (f : Field) : ∀ m : List Field, m.Pairwise (fun a b => keyLt a b = true) →
    (mapInsert m f).Pairwise (fun a b => keyLt a b = true)
  | [], _ => by simp [mapInsert]
  | g :: r, hs => by
    have hs' := pairwise_cons.mp hs
    simp only [mapInsert]
    split
    · rename_i hfg
      refine pairwise_cons.mpr ⟨?_, hs⟩
      intro z hz
      rcases mem_cons.mp hz with rfl | hz
      · exact hfg
      · exact keyLt_trans f g z hfg (hs'.1 z hz)
    · rename_i hfg
      split
      · rename_i hgf
        refine pairwise_cons.mpr ⟨?_, mapInsert_sorted f r hs'.2⟩
        intro z hz
        rcases mem_mapInsert hz with rfl | hz
        · exact hgf
        · exact hs'.1 z hz
      · rename_i hgf
        have e : f.key = g.key :=
          lt16_strictTotal.total _ _ (by simpa using hfg) (by simpa using hgf)
        refine pairwise_cons.mpr ⟨?_, hs'.2⟩
        intro z hz
        have := hs'.1 z hz
        simpa [keyLt, e] using this

theorem foldl_mapInsert_sorted : ∀ (fs acc : List Field), acc.Pairwise (fun a b => keyLt a b = true) →
    (fs.foldl mapInsert acc).Pairwise (fun a b => keyLt a b = true)
  | [], _, h => h
  | f :: fs, acc, h => foldl_mapInsert_sorted fs _ (mapInsert_sorted f acc h)

theorem buildMap_sorted (fs : List Field) : (buildMap fs).Pairwise (fun a b => keyLt a b = true) :=
  foldl_mapInsert_sorted fs [] Pairwise.nil

/-- inserting a fresh key adds the field -/
theorem mapInsert_perm (f : Field) : ∀ m : List Field, (∀ g ∈ m, g.key ≠ f.key) → mapInsert m f ~ f :: m
  | [], _ => by simp [mapInsert]
  | g :: r, hk => by
    simp only [mapInsert]
    split
    · exact Perm.refl _
    · rename_i hfg
      split
      · exact ((mapInsert_perm f r (fun x hx => hk x (mem_cons_of_mem _ hx))).cons g).trans (Perm.swap f g r)
      · rename_i hgf
        have e : f.key = g.key :=
          lt16_strictTotal.total _ _ (by simpa using hfg) (by simpa using hgf)
        exact absurd e.symm (hk g mem_cons_self)

theorem foldl_mapInsert_perm : ∀ (fs acc : List Field), ((acc ++ fs).map Field.key).Nodup →
    fs.foldl mapInsert acc ~ acc ++ fs
  | [], acc, _ => by simp
  | f :: fs, acc, hn => by
    have hfresh : ∀ g ∈ acc, g.key ≠ f.key := by
      intro g hg e
      rw [map_append, map_cons] at hn
      have hn' := (nodup_append.mp hn).2.2 g.key (mem_map_of_mem hg) f.key mem_cons_self
      exact hn' e
    have p1 : mapInsert acc f ~ f :: acc := mapInsert_perm f acc hfresh
    have p2 : mapInsert acc f ++ fs ~ acc ++ f :: fs :=
      (p1.append_right fs).trans (perm_middle (a := f) (l₁ := acc) (l₂ := fs)).symm
    have hn2 : ((mapInsert acc f ++ fs).map Field.key).Nodup := (p2.map Field.key).nodup_iff.mpr hn
    exact (foldl_mapInsert_perm fs _ hn2).trans p2

/-- with distinct keys the map holds exactly the fields -/
theorem buildMap_perm (fs : List Field) (hn : (fs.map Field.key).Nodup) : buildMap fs ~ fs := by
  have := foldl_mapInsert_perm fs [] (by simpa using hn)
  simpa [buildMap] using this

theorem eq_of_key_eq {fs : List Field} (hn : (fs.map Field.key).Nodup) {a b : Field}
    (ha : a ∈ fs) (hb : b ∈ fs) (e : a.key = b.key) : a = b := by
  induction fs with
  | nil => cases ha
  | cons f fs ih =>
    simp only [map_cons, nodup_cons, mem_map, not_exists, not_and] at hn
    rcases mem_cons.mp ha with ea | ha1
    · rcases mem_cons.mp hb with eb | hb1
      · rw [ea, eb]
      · exact absurd (ea ▸ e).symm (hn.1 b hb1)
    · rcases mem_cons.mp hb with eb | hb1
      · exact absurd (eb ▸ e) (hn.1 a ha1)
      · exact ih hn.2 ha1 hb1

/-- the content of the map does not depend on the order in which distinct keys were inserted -/
theorem buildMap_eq_of_perm {fa fb : List Field} (hn : (fa.map Field.key).Nodup) (p : fa ~ fb) :
    buildMap fa = buildMap fb := by
  have hnb : (fb.map Field.key).Nodup := (p.map Field.key).nodup_iff.mp hn
  have pp : buildMap fa ~ buildMap fb := (buildMap_perm fa hn).trans (p.trans (buildMap_perm fb hnb).symm)
  exact Perm.eq_of_pairwise (le := fun a b => keyLt a b = true)
    (fun a b _ _ hab hba => by rw [keyLt_asymm a b hab] at hba; exact absurd hba (by simp))
    (buildMap_sorted fa) (buildMap_sorted fb) pp

theorem keyLt8_irrefl (a : Field) : keyLt8 a a = false := lt8_strictTotal.irrefl _
theorem keyLt8_trans (a b c : Field) : keyLt8 a b = true → keyLt8 b c = true → keyLt8 a c = true :=
  lt8_strictTotal.trans _ _ _

/-- entries with distinct keys have exactly one key-sorted (octet order) arrangement -/
theorem isort_keyLt8_eq_of_perm {l₁ l₂ : List Field} (hn : (l₁.map Field.key).Nodup) (p : l₁ ~ l₂) :
    isort keyLt8 l₁ = isort keyLt8 l₂ := by
  refine Perm.eq_of_pairwise (le := fun a b => keyLt8 b a = false) ?_
    (isort_sorted' keyLt8_irrefl keyLt8_trans l₁) (isort_sorted' keyLt8_irrefl keyLt8_trans l₂)
    ((isort_perm keyLt8 l₁).trans (p.trans (isort_perm keyLt8 l₂).symm))
  intro a b ha hb hab hba
  have ha' : a ∈ l₁ := (mem_isort keyLt8 _ a).mp ha
  have hb' : b ∈ l₁ := p.mem_iff.mpr ((mem_isort keyLt8 _ b).mp hb)
  exact eq_of_key_eq hn ha' hb' (lt8_strictTotal.total _ _ hba hab)

/-- … and the key-sorted part of it is the key-sorted part of the field list -/
theorem buildMap_filter (fs : List Field) (hn : (fs.map Field.key).Nodup) (q : Field → Bool) :
    isort keyLt8 ((buildMap fs).filter q) = isort keyLt8 (fs.filter q) := by
  have hn' : ((fs.filter q).map Field.key).Nodup := Nodup.sublist ((filter_sublist).map Field.key) hn
  exact (isort_keyLt8_eq_of_perm hn' ((buildMap_perm fs hn).filter q).symm).symm

theorem buildMap_find (fs : List Field) (hn : (fs.map Field.key).Nodup) (k : Str) :
    (buildMap fs).find? (fun f => f.key = k) = fs.find? (fun f => f.key = k) := by
  rw [← head?_filter, ← head?_filter]
  congr 1
  refine perm_eq_of_all_eq ((buildMap_perm fs hn).filter _) ?_
  intro a ha b hb
  have ha' := mem_filter.mp ha
  have hb' := mem_filter.mp hb
  refine eq_of_key_eq hn ((buildMap_perm fs hn).mem_iff.mp ha'.1) ((buildMap_perm fs hn).mem_iff.mp hb'.1) ?_
  have e1 : a.key = k := by simpa using ha'.2
  have e2 : b.key = k := by simpa using hb'.2
  rw [e1, e2]


/-! ## 7. reordering of the form; S as a token list -/

/-- element-wise relation between two lists of the same length -/
inductive Pointwise {α β : Type} (R : α → β → Prop) : List α → List β → Prop
  | nil : Pointwise R [] []
  | cons {a b as bs} : R a b → Pointwise R as bs → Pointwise R (a :: as) (b :: bs)

/-- same variant, list entries reordered -/
def Value.Permuted : Value → Value → Prop
  | .text s, .text s' => s = s'
  | .list l, .list l' => l ~ l'
  | .bool b, .bool b' => b = b'
  | .null, .null => True
  | _, _ => False

/-- same key, values reordered -/
def Field.Permuted (f g : Field) : Prop := f.key = g.key ∧ f.value.Permuted g.value

/-- `b`'s form is `a`'s form with the fields reordered and the values inside every field reordered -/
def FormPermuted : Option (List Field) → Option (List Field) → Prop
  | none, none => True
  | some fa, some fb => ∃ fm, fa ~ fm ∧ Pointwise Field.Permuted fm fb
  | _, _ => False

/-- `var`s are unique within the form (XEP-0004 §3.2) -/
def DistinctKeys : Option (List Field) → Prop
  | none => True
  | some fs => (fs.map Field.key).Nodup

def normValue : Value → Value
  | .list l => .list (isort lt8 l)
  | v => v

def normField (f : Field) : Field := { key := f.key, value := normValue f.value }

theorem normValue_eq_of_permuted {v w : Value} (h : v.Permuted w) : normValue v = normValue w := by
  cases v <;> cases w <;> simp only [Value.Permuted] at h
  · rw [h]
  · rfl
  · simp only [normValue]; rw [isort_eq_of_perm lt8_strictTotal h]
  · rw [h]

theorem normField_eq_of_permuted {f g : Field} (h : f.Permuted g) : normField f = normField g := by
  simp only [normField, h.1, normValue_eq_of_permuted h.2]

theorem map_normField_eq {fm fb : List Field} (h : Pointwise Field.Permuted fm fb) :
    fm.map normField = fb.map normField := by
  induction h with
  | nil => rfl
  | cons h _ ih => simp only [map_cons, normField_eq_of_permuted h, ih]

theorem isort_singleton_iff (lt : Str → Str → Bool) (l : List Str) (v : Str) :
    isort lt l = [v] ↔ l = [v] := by
  constructor
  · intro h
    have hl := isort_length lt l
    rw [h] at hl
    match l, hl with
    | [w], _ => simpa [isort, insertBy] using h
  · intro h; subst h; rfl

theorem toStr_normValue (v : Value) : (normValue v).toStr = v.toStr := by
  cases v with
  | text s => rfl
  | null => rfl
  | bool b => rfl
  | list l =>
    simp only [normValue]
    match l with
    | [] => rfl
    | [w] => rfl
    | a :: b :: r =>
      have hl := isort_length lt8 (a :: b :: r)
      match hs : isort lt8 (a :: b :: r), hl with
      | x :: y :: z, _ => rfl

theorem codeVals_normValue (v : Value) : (normValue v).codeVals = v.codeVals := by
  cases v with
  | text s => rfl
  | null => rfl
  | bool b => rfl
  | list l =>
    simp only [normValue, Value.codeVals, Value.wire]
    exact isort_of_sorted lt8_strictTotal (isort_sorted lt8_strictTotal l)

theorem fieldStrCode_normField (f : Field) : fieldStrCode (normField f) = fieldStrCode f := by
  simp [fieldStrCode, normField, codeVals_normValue]

theorem mapInsert_map_normField (f : Field) : ∀ m : List Field,
    mapInsert (m.map normField) (normField f) = (mapInsert m f).map normField
  | [] => rfl
  | g :: r => by
    simp only [map_cons, mapInsert]
    have k1 : (normField f).key = f.key := rfl
    have k2 : (normField g).key = g.key := rfl
    rw [k1, k2]
    split
    · rfl
    · split
      · simp only [map_cons, mapInsert_map_normField f r]
      · rfl

theorem foldl_mapInsert_map_normField : ∀ (fs acc : List Field),
    (fs.map normField).foldl mapInsert (acc.map normField) = (fs.foldl mapInsert acc).map normField
  | [], _ => rfl
  | f :: fs, acc => by
    simp only [map_cons, foldl_cons, mapInsert_map_normField]
    exact foldl_mapInsert_map_normField fs _

theorem buildMap_map_normField (fs : List Field) :
    buildMap (fs.map normField) = (buildMap fs).map normField :=
  foldl_mapInsert_map_normField fs []

theorem isort_keyLt8_map_normField (l : List Field) :
    isort keyLt8 (l.map normField) = (isort keyLt8 l).map normField :=
  isort_map normField keyLt8 l

/-- sorting the values inside the fields beforehand changes nothing -/
theorem formStrCode_normField (fs : List Field) :
    formStrCode (some (fs.map normField)) = formStrCode (some fs) := by
  simp only [formStrCode, buildMap_map_normField, find?_map, filter_map]
  have e1 : ((fun f : Field => decide (f.key = formTypeKey)) ∘ normField) = fun f => decide (f.key = formTypeKey) := by
    funext f; rfl
  have e2 : ((fun f : Field => decide (f.key ≠ formTypeKey)) ∘ normField) = fun f => decide (f.key ≠ formTypeKey) := by
    funext f; rfl
  rw [e1, e2, isort_keyLt8_map_normField, flatMap_map]
  cases (buildMap fs).find? (fun f => decide (f.key = formTypeKey)) with
  | none => rfl
  | some ft =>
    simp only [Option.map_some, normField, toStr_normValue]
    congr 2
    apply flatMap_congr'
    intro f _
    exact fieldStrCode_normField f

theorem formStrCode_eq_of_permuted {fa fb : Option (List Field)} (hk : DistinctKeys fa)
    (h : FormPermuted fa fb) : formStrCode fa = formStrCode fb := by
  match fa, fb, h with
  | none, none, _ => rfl
  | some fa, some fb, ⟨fm, p, hf⟩ =>
    have e1 : formStrCode (some fa) = formStrCode (some fm) := by
      simp only [formStrCode, buildMap_eq_of_perm hk p]
    rw [e1, ← formStrCode_normField fm, map_normField_eq hf, formStrCode_normField]

/-! ### tokens -/

/-- a token followed by the separator -/
def sep (t : Str) : Str := t ++ ['<']

def idToken (d : Identity) : Str := d.category ++ '/' :: (d.type ++ '/' :: (d.lang ++ '/' :: d.name))

theorem identityStr_eq (d : Identity) : identityStr d = sep (idToken d) := by
  simp [identityStr, sep, idToken]

/-- what the C++ appends after the key -/
def valTokens (v : Value) : List Str := v.codeVals

def fieldTokens (f : Field) : List Str := f.key :: valTokens f.value

theorem fieldStrCode_eq (f : Field) : fieldStrCode f = (fieldTokens f).flatMap sep := by
  simp only [fieldStrCode, fieldTokens, valTokens, flatMap_cons, sep, append_assoc, singleton_append]
  rfl

/-- FORM_TYPE field and the remaining fields in key order, as the C++ picks them -/
def formParts (form : Option (List Field)) : Option (Field × List Field) :=
  match form with
  | none => none
  | some fields =>
    match (buildMap fields).find? (fun f => f.key = formTypeKey) with
    | none => none
    | some ft => some (ft, isort keyLt8 ((buildMap fields).filter (fun f => f.key ≠ formTypeKey)))

def formTokens (form : Option (List Field)) : List Str :=
  match formParts form with
  | none => []
  | some p => p.1.value.toStr :: p.2.flatMap fieldTokens

theorem formStrCode_eq (form : Option (List Field)) : formStrCode form = (formTokens form).flatMap sep := by
  cases form with
  | none => rfl
  | some fields =>
    simp only [formStrCode, formTokens, formParts]
    cases (buildMap fields).find? (fun f => decide (f.key = formTypeKey)) with
    | none => rfl
    | some ft =>
      simp only [flatMap_cons, sep, flatMap_assoc]
      simp only [append_assoc, singleton_append, cons.injEq, append_cancel_left_eq, true_and]
      apply flatMap_congr'
      intro f _
      exact fieldStrCode_eq f

/-- the token list whose separator-terminated concatenation is S -/
def tokens (i : Info) : List Str :=
  (sortedIdentitiesCode i).map idToken ++ (sortedFeaturesCode i ++ formTokens i.form)

theorem verStringCode_eq_tokens (i : Info) : verStringCode i = (tokens i).flatMap sep := by
  simp only [verStringCode, tokens, flatMap_append, flatMap_map, formStrCode_eq, append_assoc]
  congr 1
  apply flatMap_congr'
  intro d _
  exact identityStr_eq d

/-- splitting at the first separator: a string without `c` followed by `c` determines both parts -/
theorem split_at_sep (c : Char) : ∀ (a b r s : Str), c ∉ a → c ∉ b → a ++ c :: r = b ++ c :: s → a = b ∧ r = s
  | [], [], _, _, _, _, h => by simpa using h
  | [], y :: b, _, _, _, hb, h => by
    simp only [nil_append, cons_append, cons.injEq] at h
    exact absurd (h.1 ▸ mem_cons_self) hb
  | x :: a, [], _, _, ha, _, h => by
    simp only [nil_append, cons_append, cons.injEq] at h
    exact absurd (h.1 ▸ mem_cons_self) ha
  | x :: a, y :: b, r, s, ha, hb, h => by
    simp only [cons_append, cons.injEq] at h
    have ih := split_at_sep c a b r s (fun m => ha (mem_cons_of_mem _ m)) (fun m => hb (mem_cons_of_mem _ m)) h.2
    exact ⟨by rw [h.1, ih.1], ih.2⟩

/-- separator-terminated concatenation is injective on token lists without the separator -/
theorem flatMap_sep_inj : ∀ (l₁ l₂ : List Str), (∀ t ∈ l₁, '<' ∉ t) → (∀ t ∈ l₂, '<' ∉ t) →
    l₁.flatMap sep = l₂.flatMap sep → l₁ = l₂
  | [], [], _, _, _ => rfl
  | [], b :: l₂, _, _, h => by simp [sep] at h
  | a :: l₁, [], _, _, h => by simp [sep] at h
  | a :: l₁, b :: l₂, h₁, h₂, h => by
    simp only [flatMap_cons, sep, append_assoc, singleton_append] at h
    have x1 := split_at_sep '<' a b _ _ (h₁ a mem_cons_self) (h₂ b mem_cons_self) h
    rw [x1.1, flatMap_sep_inj l₁ l₂ (fun t ht => h₁ t (mem_cons_of_mem _ ht))
      (fun t ht => h₂ t (mem_cons_of_mem _ ht)) (by simpa [sep] using x1.2)]


/-! ### components, canonical content, injectivity -/

/-- the strings inside a field value -/
def Value.strings : Value → List Str
  | .text s => [s]
  | .list l => l
  | .bool _ => []
  | .null => []

/-- every string component of an info set: category/type/lang/name of the identities, the features,
the keys and values of the form -/
def Info.components (i : Info) : List Str :=
  i.ids.flatMap idKey ++ (i.feats ++
    (match i.form with
     | none => []
     | some fs => fs.flatMap (fun f => f.key :: f.value.strings)))

/-- character `c` occurs in no component -/
def NoChar (c : Char) (i : Info) : Prop := ∀ s ∈ i.components, c ∉ s

/-- `/` occurs in no category, type or language tag (the name may contain it) -/
def NoSlash (i : Info) : Prop := ∀ d ∈ i.ids, '/' ∉ d.category ∧ '/' ∉ d.type ∧ '/' ∉ d.lang

theorem mem_foldl_mapInsert {w : Field} : ∀ {fs acc : List Field}, w ∈ fs.foldl mapInsert acc → w ∈ acc ∨ w ∈ fs
  | [], _, h => Or.inl h
  | f :: fs, acc, h => by
    rcases mem_foldl_mapInsert (fs := fs) h with h | h
    · rcases mem_mapInsert h with rfl | h
      · exact Or.inr mem_cons_self
      · exact Or.inl h
    · exact Or.inr (mem_cons_of_mem _ h)

theorem mem_buildMap {w : Field} {fs : List Field} (h : w ∈ buildMap fs) : w ∈ fs := by
  rcases mem_foldl_mapInsert h with h | h
  · cases h
  · exact h

theorem formParts_mem {fs : List Field} {p : Field × List Field} (h : formParts (some fs) = some p) :
    p.1 ∈ fs ∧ ∀ f ∈ p.2, f ∈ fs := by
  simp only [formParts] at h
  cases hf : (buildMap fs).find? (fun f => decide (f.key = formTypeKey)) with
  | none => simp [hf] at h
  | some ft =>
    simp only [hf, Option.some.injEq] at h
    subst h
    exact ⟨mem_buildMap (mem_of_find?_eq_some hf),
      fun f hm => mem_buildMap (mem_filter.mp ((mem_isort keyLt8 _ f).mp hm)).1⟩

theorem toStr_noChar (c : Char) (hc : c ∉ "true".toList ∧ c ∉ "false".toList) (v : Value)
    (h : ∀ s ∈ v.strings, c ∉ s) : c ∉ v.toStr := by
  cases v with
  | text s => exact h s (by simp [Value.strings])
  | null => simp [Value.toStr]
  | bool b =>
    cases b
    · exact hc.2
    · exact hc.1
  | list l =>
    match l with
    | [] => simp [Value.toStr]
    | [w] => exact h w (by simp [Value.strings])
    | _ :: _ :: _ => simp [Value.toStr]

theorem valTokens_noChar (c : Char) (hc : c ≠ '1' ∧ c ≠ '0') (v : Value)
    (h : ∀ s ∈ v.strings, c ∉ s) : ∀ t ∈ valTokens v, c ∉ t := by
  intro t ht
  simp only [valTokens, Value.codeVals, mem_isort] at ht
  cases v with
  | text s => simp only [Value.wire, mem_singleton] at ht; subst ht; exact h _ (by simp [Value.strings])
  | null => simp [Value.wire] at ht
  | bool b =>
    cases b <;> simp only [Value.wire, mem_singleton] at ht <;> subst ht <;> simp [hc.1, hc.2]
  | list l => exact h t ht

theorem lt_notin_bool : '<' ∉ "true".toList ∧ '<' ∉ "false".toList := by decide

/-- no `<` in the components ⇒ no `<` in any token of S -/
theorem tokens_noLt (i : Info) (h : NoChar '<' i) : ∀ t ∈ tokens i, '<' ∉ t := by
  intro t ht
  simp only [tokens, mem_append, mem_map] at ht
  rcases ht with ⟨d, hd, rfl⟩ | ht | ht
  · have hd' : d ∈ i.ids := (mem_isort _ _ _).mp hd
    have hk : ∀ s ∈ idKey d, '<' ∉ s := fun s hs =>
      h s (by simp only [Info.components, mem_append, mem_flatMap]; exact Or.inl ⟨d, hd', hs⟩)
    simp only [idKey, mem_cons, not_mem_nil, or_false, forall_eq_or_imp, forall_eq] at hk
    simp only [idToken, mem_append, mem_cons, not_or]
    refine ⟨hk.1, by decide, hk.2.1, by decide, hk.2.2.1, by decide, hk.2.2.2⟩
  · have : t ∈ i.feats := by
      simpa [sortedFeaturesCode, mem_removeDuplicates, mem_isort] using ht
    exact h t (by simp only [Info.components, mem_append]; exact Or.inr (Or.inl this))
  · simp only [formTokens] at ht
    cases hp : formParts i.form with
    | none => simp [hp] at ht
    | some p =>
      cases hform : i.form with
      | none => simp [hform, formParts] at hp
      | some fs =>
        rw [hform] at hp
        have hmem := formParts_mem hp
        have hfield : ∀ f ∈ fs, '<' ∉ f.key ∧ ∀ s ∈ f.value.strings, '<' ∉ s := by
          intro f hf
          have hc : ∀ s ∈ f.key :: f.value.strings, '<' ∉ s := fun s hs =>
            h s (by
              simp only [Info.components, hform, mem_append, mem_flatMap]
              exact Or.inr (Or.inr ⟨f, hf, hs⟩))
          exact ⟨hc _ mem_cons_self, fun s hs => hc s (mem_cons_of_mem _ hs)⟩
        rw [hform, hp] at ht
        simp only [mem_cons, mem_flatMap, fieldTokens] at ht
        rcases ht with rfl | ⟨f, hf, rfl | ht⟩
        · exact toStr_noChar '<' lt_notin_bool _ (hfield _ hmem.1).2
        · exact (hfield f (hmem.2 f hf)).1
        · exact valTokens_noChar '<' (by decide) _ (hfield f (hmem.2 f hf)).2 t ht

/-- under "no `<` in any component", S determines its token list -/
theorem tokens_eq_of_verString_eq {a b : Info} (ha : NoChar '<' a) (hb : NoChar '<' b)
    (h : verStringCode a = verStringCode b) : tokens a = tokens b := by
  rw [verStringCode_eq_tokens, verStringCode_eq_tokens] at h
  exact flatMap_sep_inj _ _ (tokens_noLt a ha) (tokens_noLt b hb) h

/-- the identity token determines the identity when `/` is confined to the name -/
theorem idToken_inj {d e : Identity}
    (hd : '/' ∉ d.category ∧ '/' ∉ d.type ∧ '/' ∉ d.lang) (he : '/' ∉ e.category ∧ '/' ∉ e.type ∧ '/' ∉ e.lang)
    (h : idToken d = idToken e) : d = e := by
  simp only [idToken] at h
  have x1 := split_at_sep '/' _ _ _ _ hd.1 he.1 h
  have x2 := split_at_sep '/' _ _ _ _ hd.2.1 he.2.1 x1.2
  have x3 := split_at_sep '/' _ _ _ _ hd.2.2 he.2.2 x2.2
  cases d; cases e
  simp only at x1 x2 x3
  simp [x1.1, x2.1, x3.1, x3.2]

theorem map_idToken_inj : ∀ {l₁ l₂ : List Identity},
    (∀ d ∈ l₁, '/' ∉ d.category ∧ '/' ∉ d.type ∧ '/' ∉ d.lang) →
    (∀ d ∈ l₂, '/' ∉ d.category ∧ '/' ∉ d.type ∧ '/' ∉ d.lang) →
    l₁.map idToken = l₂.map idToken → l₁ = l₂
  | [], [], _, _, _ => rfl
  | [], _ :: _, _, _, h => by simp at h
  | _ :: _, [], _, _, h => by simp at h
  | d :: l₁, e :: l₂, h₁, h₂, h => by
    simp only [map_cons, cons.injEq] at h
    rw [idToken_inj (h₁ d mem_cons_self) (h₂ e mem_cons_self) h.1,
      map_idToken_inj (fun x hx => h₁ x (mem_cons_of_mem _ hx)) (fun x hx => h₂ x (mem_cons_of_mem _ hx)) h.2]

theorem sortedIds_noSlash {i : Info} (h : NoSlash i) :
    ∀ d ∈ sortedIdentitiesCode i, '/' ∉ d.category ∧ '/' ∉ d.type ∧ '/' ∉ d.lang :=
  fun d hd => h d ((mem_isort _ _ _).mp hd)

/-- the canonical content of an info set as the hash sees it -/
structure Canon where
  /-- identities in hashing order -/
  ids : List Identity
  /-- features in hashing order, each once -/
  feats : List Str
  /-- FORM_TYPE value and, in key order, every other key with the values appended for it;
  `none` when there is no form or it has no FORM_TYPE (ignored) -/
  form : Option (Str × List (Str × List Str))
  deriving DecidableEq, Repr

def canonForm (form : Option (List Field)) : Option (Str × List (Str × List Str)) :=
  (formParts form).map fun p => (p.1.value.toStr, p.2.map fun f => (f.key, valTokens f.value))

def canon (i : Info) : Canon :=
  { ids := sortedIdentitiesCode i, feats := sortedFeaturesCode i, form := canonForm i.form }

/-- number of identities, of distinct features, and per form key the number of appended values -/
def Canon.shape (c : Canon) : Nat × Nat × Option (List Nat) :=
  (c.ids.length, c.feats.length, c.form.map fun p => p.2.map fun kv => kv.2.length)

def canonFormTokens : Option (Str × List (Str × List Str)) → List Str
  | none => []
  | some p => p.1 :: p.2.flatMap (fun kv => kv.1 :: kv.2)

theorem formTokens_eq_canon (form : Option (List Field)) : formTokens form = canonFormTokens (canonForm form) := by
  simp only [formTokens, canonForm]
  cases formParts form with
  | none => rfl
  | some p =>
    simp only [Option.map_some, canonFormTokens, flatMap_map]
    rfl

theorem flatten_inj_of_lengths {α : Type} : ∀ {L₁ L₂ : List (List α)},
    L₁.map length = L₂.map length → L₁.flatten = L₂.flatten → L₁ = L₂
  | [], [], _, _ => rfl
  | [], _ :: _, h, _ => by simp at h
  | _ :: _, [], h, _ => by simp at h
  | a :: L₁, b :: L₂, hl, hf => by
    simp only [map_cons, cons.injEq] at hl
    simp only [flatten_cons] at hf
    have x1 := append_inj hf hl.1
    rw [x1.1, flatten_inj_of_lengths hl.2 x1.2]

theorem canonForm_eq_of_tokens {x y : Option (Str × List (Str × List Str))}
    (hs : (x.map fun p => p.2.map fun kv => kv.2.length) = (y.map fun p => p.2.map fun kv => kv.2.length))
    (ht : canonFormTokens x = canonFormTokens y) : x = y := by
  match x, y with
  | none, none => rfl
  | none, some _ => simp at hs
  | some _, none => simp at hs
  | some (t, kvs), some (t', kvs') =>
    simp only [Option.map_some, Option.some.injEq] at hs
    simp only [canonFormTokens, cons.injEq] at ht
    have e : kvs.map (fun kv => kv.1 :: kv.2) = kvs'.map (fun kv => kv.1 :: kv.2) := by
      apply flatten_inj_of_lengths
      · simp only [map_map]
        have := congrArg (map (· + 1)) hs
        simpa [Function.comp_def] using this
      · simpa [flatMap_def] using ht.2
    have e2 : kvs = kvs' := by
      clear hs ht
      induction kvs generalizing kvs' with
      | nil => cases kvs' with
        | nil => rfl
        | cons _ _ => simp at e
      | cons kv r ih =>
        cases kvs' with
        | nil => simp at e
        | cons kv' r' =>
          simp only [map_cons, cons.injEq] at e
          rw [ih (kvs' := r') e.2]
          cases kv; cases kv'
          simp only at e
          simp [e.1.1, e.1.2]
    rw [ht.1, e2]

theorem tokens_eq_canon (i : Info) :
    tokens i = (canon i).ids.map idToken ++ ((canon i).feats ++ canonFormTokens (canon i).form) := by
  simp [tokens, canon, formTokens_eq_canon]

/-- the token list determines the canonical content once the shape is known -/
theorem canon_eq_of_tokens_eq {a b : Info} (hsa : NoSlash a) (hsb : NoSlash b)
    (hshape : (canon a).shape = (canon b).shape) (h : tokens a = tokens b) : canon a = canon b := by
  rw [tokens_eq_canon, tokens_eq_canon] at h
  simp only [Canon.shape, Prod.mk.injEq] at hshape
  have x1 := append_inj h (by simp [hshape.1])
  have x2 := append_inj x1.2 hshape.2.1
  have e1 : (canon a).ids = (canon b).ids :=
    map_idToken_inj (sortedIds_noSlash hsa) (sortedIds_noSlash hsb) x1.1
  have e3 : (canon a).form = (canon b).form := canonForm_eq_of_tokens hshape.2.2 x2.2
  cases ha : canon a; cases hb : canon b
  rw [ha, hb] at e1 e3 x2
  simp only at e1 e3 x2
  simp [e1, x2.1, e3]


/-! ## 8. where the C++ and the XEP agree -/

/-- every field is hashed as the XEP says: `var<` and the written values, sorted, each followed by `<` -/
theorem fieldStr_agree (f : Field) : fieldStrCode f = fieldStrSpec f := rfl

/-- a string FORM_TYPE field with one written value: `QVariant::toString()` is that value -/
theorem toStr_eq_wire {v : Value} (hb : ∀ b, v ≠ .bool b) {w : Str} (hw : v.wire = [w]) : v.toStr = v.wire.flatten := by
  cases v with
  | bool b => exact absurd rfl (hb b)
  | null => simp [Value.wire] at hw
  | text s => simp [Value.toStr, Value.wire]
  | list l => simp only [Value.wire] at hw; subst hw; simp [Value.toStr, Value.wire]

/-- the form part: QMap with last-wins/`toString` against the XEP's steps 6–7 -/
theorem formStr_agree {form : Option (List Field)} (hx : XepForm form) :
    formStrCode form = formStrSpec form := by
  cases form with
  | none => rfl
  | some fs =>
    simp only [XepForm] at hx
    simp only [formStrCode, formStrSpec]
    rw [buildMap_find fs hx.1, buildMap_filter fs hx.1]
    cases hft : fs.find? (fun f => decide (f.key = formTypeKey)) with
    | none => rfl
    | some ft =>
      have hm : ft ∈ fs := mem_of_find?_eq_some hft
      have hk : ft.key = formTypeKey := by simpa using find?_some hft
      obtain ⟨⟨w, hw⟩, hb⟩ := hx.2 ft hm hk
      simp only
      rw [toStr_eq_wire hb hw]
      rfl

theorem isPrefixOf_self_append : ∀ (p r : Str), p.isPrefixOf (p ++ r) = true
  | [], _ => by simp [isPrefixOf]
  | c :: p, r => by simp [isPrefixOf_self_append p r]

/-! ### the predicates used in the statements are decidable (for the non-vacuity examples) -/

instance (c : Char) (i : Info) : Decidable (NoChar c i) := by unfold NoChar; infer_instance
instance (i : Info) : Decidable (NoSlash i) := by unfold NoSlash; infer_instance
instance : (f : Option (List Field)) → Decidable (DistinctKeys f)
  | none => isTrue trivial
  | some fs => inferInstanceAs (Decidable (fs.map Field.key).Nodup)
end Qx.C20
