import Qx.Model.C07Iq
/-! Helper lemmas for C07 (property theorems live in Qx/Props/C07.lean). -/
namespace Qx.C07

def ids (t : List Entry) : List Id := t.map (·.id)
def treqs (t : List Entry) : List Nat := t.map (·.req)

@[simp] theorem reqs_nil : reqs [] = [] := rfl
@[simp] theorem reqs_cons (d : Done) (l : List Done) : reqs (d :: l) = d.req :: reqs l := rfl
theorem reqs_append (a b : List Done) : reqs (a ++ b) = reqs a ++ reqs b := by simp [reqs]
theorem mem_reqs {r : Nat} {l : List Done} : r ∈ reqs l ↔ ∃ d ∈ l, d.req = r := by simp [reqs]

/-! ### the table as a list -/

theorem lookup_some {t : List Entry} {id : Id} {e : Entry} (h : lookup t id = some e) :
    e ∈ t ∧ e.id = id := by
  unfold lookup at h
  have h1 := List.mem_of_find?_eq_some h
  have h2 := List.find?_some h
  exact ⟨h1, by simpa using h2⟩

theorem lookup_none {t : List Entry} {id : Id} (h : lookup t id = none) : ∀ e ∈ t, e.id ≠ id := by
  unfold lookup at h
  intro e he
  have := List.find?_eq_none.mp h e he
  simpa using this

/-- with distinct ids, looking an entry's id up finds that entry -/
theorem lookup_of_mem {t : List Entry} {e : Entry} (hn : (ids t).Nodup) (he : e ∈ t) :
    lookup t e.id = some e := by
  induction t with
  | nil => cases he
  | cons x xs ih =>
    simp only [ids, List.map_cons, List.nodup_cons] at hn
    rcases List.mem_cons.mp he with h | h
    · subst h; simp [lookup]
    · have hne : x.id ≠ e.id := by
        intro heq
        apply hn.1
        rw [heq]
        exact List.mem_map.mpr ⟨e, h, rfl⟩
      have := ih hn.2 h
      unfold lookup at this ⊢
      simp [hne, this]

theorem erase_sublist (t : List Entry) (id : Id) : List.Sublist (erase t id) t := by
  unfold erase; exact List.filter_sublist

theorem erase_nodup {t : List Entry} (id : Id) (hn : (ids t).Nodup) : (ids (erase t id)).Nodup :=
  List.Nodup.sublist ((erase_sublist t id).map _) hn

theorem mem_erase {t : List Entry} {id : Id} {e : Entry} : e ∈ erase t id ↔ e ∈ t ∧ e.id ≠ id := by
  simp [erase]

theorem erase_of_not_mem {t : List Entry} {id : Id} (h : ∀ e ∈ t, e.id ≠ id) : erase t id = t := by
  unfold erase
  apply List.filter_eq_self.mpr
  intro e he
  simpa using h e he

/-- removing the entry found for `id` from a table with distinct ids removes exactly that entry -/
theorem perm_erase {t : List Entry} {id : Id} {e : Entry} (hn : (ids t).Nodup)
    (h : lookup t id = some e) : (treqs (erase t id) ++ [e.req]).Perm (treqs t) := by
  induction t with
  | nil => simp [lookup] at h
  | cons x xs ih =>
    simp only [ids, List.map_cons, List.nodup_cons] at hn
    by_cases hx : x.id = id
    · have hxe : x = e := by
        unfold lookup at h
        simpa [List.find?_cons, hx] using h
      subst hxe
      have hnot : ∀ e' ∈ xs, e'.id ≠ id := by
        intro e' he' heq
        apply hn.1
        rw [hx, ← heq]
        exact List.mem_map.mpr ⟨e', he', rfl⟩
      have h1 : erase (x :: xs) id = xs := by
        have e1 : erase (x :: xs) id = erase xs id := by simp [erase, hx]
        rw [e1, erase_of_not_mem hnot]
      rw [h1]
      simp [treqs]
    · have h' : lookup xs id = some e := by
        unfold lookup at h ⊢
        simpa [List.find?_cons, hx] using h
      have h1 : erase (x :: xs) id = x :: erase xs id := by
        simp [erase, hx]
      rw [h1]
      have := ih hn.2 h'
      simpa [treqs] using List.Perm.cons x.req this

/-! ### the bookkeeping invariant: every request issued so far is pending exactly once or completed
exactly once (`treqs tbl ++ reqs log` is a permutation of `0 … nreq-1`), and table ids are distinct -/

structure Inv (t : List Entry) (n : Nat) (log : List Done) : Prop where
  nodup : (ids t).Nodup
  perm : (treqs t ++ reqs log).Perm (List.range n)

theorem Inv.init : Inv [] 0 [] := ⟨by simp [ids], by simp [treqs]⟩

/-- moving the entry found for `id` from the table to the log keeps the invariant -/
theorem Inv.complete {t : List Entry} {n : Nat} {log : List Done} {id : Id} {e : Entry} (how : How)
    (h : Inv t n log) (hl : lookup t id = some e) :
    Inv (erase t id) n (log ++ [⟨e.req, e.id, how⟩]) := by
  refine ⟨erase_nodup id h.nodup, ?_⟩
  have p1 := perm_erase h.nodup hl
  rw [reqs_append]
  simp only [reqs_cons, reqs_nil]
  have p2 : (treqs (erase t id) ++ (reqs log ++ [e.req])).Perm (treqs t ++ reqs log) := by
    have p3 : (treqs (erase t id) ++ (reqs log ++ [e.req])).Perm ((treqs (erase t id) ++ [e.req]) ++ reqs log) := by
      rw [List.append_assoc]
      exact List.Perm.append_left _ List.perm_append_comm
    exact p3.trans (List.Perm.append_right _ p1)
  exact p2.trans h.perm

theorem finish_inv (s : St) (id : Id) (how : How) {log : List Done} (h : Inv s.tbl s.nreq log) :
    Inv (finish s id how).1.tbl (finish s id how).1.nreq (log ++ (finish s id how).2) := by
  unfold finish
  split
  · rename_i e he; exact h.complete how he
  · simpa using h

@[simp] theorem finish_nreq (s : St) (id : Id) (how : How) : (finish s id how).1.nreq = s.nreq := by
  unfold finish; split <;> rfl
@[simp] theorem finish_dead (s : St) (id : Id) (how : How) : (finish s id how).1.dead = s.dead := by
  unfold finish; split <;> rfl
@[simp] theorem finish_unacked (s : St) (id : Id) (how : How) : (finish s id how).1.unacked = s.unacked := by
  unfold finish; split <;> rfl

theorem cancelAll_inv (s : St) {log : List Done} (h : Inv s.tbl s.nreq log) :
    Inv (cancelAll s).1.tbl (cancelAll s).1.nreq (log ++ (cancelAll s).2) := by
  unfold cancelAll
  refine ⟨by simp [ids], ?_⟩
  simp only [reqs_append]
  have e1 : reqs (s.tbl.map fun e => Done.mk e.req e.id .cancelled) = treqs s.tbl := by
    simp [reqs, treqs, List.map_map, Function.comp_def]
  rw [e1]
  have p : (treqs ([] : List Entry) ++ (reqs log ++ treqs s.tbl)).Perm (treqs s.tbl ++ reqs log) := by
    simpa [treqs] using (List.perm_append_comm : (reqs log ++ treqs s.tbl).Perm _)
  exact p.trans h.perm

theorem failList_inv (l : List Id) : ∀ (s : St) {log : List Done}, Inv s.tbl s.nreq log →
    Inv (failList s l).1.tbl (failList s l).1.nreq (log ++ (failList s l).2) := by
  induction l with
  | nil => intro s log h; simpa [failList] using h
  | cons id rest ih =>
    intro s log h
    simp only [failList]
    have h1 := finish_inv s id .sendError h
    have h2 := ih (finish s id .sendError).1 h1
    simpa [List.append_assoc] using h2

@[simp] theorem failList_dead (l : List Id) : ∀ (s : St), (failList s l).1.dead = s.dead := by
  induction l with
  | nil => intro s; rfl
  | cons id rest ih => intro s; simp [failList, ih]

theorem sendRaw_inv (s : St) (id : Id) (to : String) {log : List Done} (h : Inv s.tbl s.nreq log) :
    Inv (sendRaw s id to).1.tbl (sendRaw s id to).1.nreq (log ++ (sendRaw s id to).2) := by
  have hr : (List.range (s.nreq + 1)) = List.range s.nreq ++ [s.nreq] := List.range_succ
  -- a request that is refused at once: its number goes straight into the log
  have refused : ∀ how, Inv s.tbl (s.nreq + 1) (log ++ [⟨s.nreq, id, how⟩]) := by
    intro how
    refine ⟨h.nodup, ?_⟩
    rw [reqs_append, hr, ← List.append_assoc]
    exact List.Perm.append_right _ h.perm
  unfold sendRaw
  simp only
  split
  · exact refused _
  · rename_i hid
    split
    · exact refused _
    · -- registered
      have hid' : id ≠ .named "" ∧ (lookup s.tbl id).isSome = false := by
        simpa [St.hasId, not_or] using hid
      have hnone : lookup s.tbl id = none := by
        cases hl : lookup s.tbl id with
        | none => rfl
        | some e => simp [hl] at hid'
      have hfresh := lookup_none hnone
      have hreg : Inv (s.tbl ++ [Entry.mk id to s.nreq]) (s.nreq + 1) log := by
        refine ⟨?_, ?_⟩
        · simp only [ids, List.map_append, List.map_cons, List.map_nil]
          rw [List.nodup_append]
          refine ⟨h.nodup, by simp, ?_⟩
          intro a ha b hb
          simp only [List.mem_singleton] at hb
          subst hb
          obtain ⟨e, he, rfl⟩ := List.mem_map.mp ha
          exact hfresh e he
        · rw [hr]
          simp only [treqs, List.map_append, List.map_cons, List.map_nil]
          have p1 : (List.map (·.req) s.tbl ++ [s.nreq] ++ reqs log).Perm
              ((List.map (·.req) s.tbl ++ reqs log) ++ [s.nreq]) := by
            rw [List.append_assoc, List.append_assoc]
            exact List.Perm.append_left _ List.perm_append_comm
          exact p1.trans (List.Perm.append_right _ h.perm)
      split
      · simpa using hreg
      · split
        · simpa using hreg
        · exact finish_inv _ id .sendError hreg

theorem send_inv (s : St) (id : Id) (to : String) {log : List Done} (h : Inv s.tbl s.nreq log) :
    Inv (send s id to).1.tbl (send s id to).1.nreq (log ++ (send s id to).2) := by
  unfold send
  exact sendRaw_inv _ _ _ h

theorem recv_inv (s : St) (st : Stanza) {log : List Done} (h : Inv s.tbl s.nreq log) :
    Inv (recv s st).1.tbl (recv s st).1.nreq (log ++ (recv s st).2) := by
  unfold recv
  split
  · simpa using h
  · split
    · simpa using h
    · split
      · simpa using h
      · rename_i e he
        split
        · simpa using h
        · exact h.complete _ he

theorem streamError_inv (s : St) {log : List Done} (h : Inv s.tbl s.nreq log) :
    Inv (streamError s).1.tbl (streamError s).1.nreq (log ++ (streamError s).2) := by
  unfold streamError
  split
  · exact cancelAll_inv _ h
  · simpa using h

theorem step_inv (s : St) (op : Op) {log : List Done} (h : Inv s.tbl s.nreq log) :
    Inv (step s op).1.tbl (step s op).1.nreq (log ++ (step s op).2) := by
  unfold step
  split
  · simpa using h
  · cases op with
    | send id to => exact send_inv s id to h
    | sendRaw id to => exact sendRaw_inv s id to h
    | sendFails id => exact finish_inv s id _ h
    | failAll => exact failList_inv _ s h
    | ackAll => simp only; split <;> simpa using h
    | enableSm => simpa using h
    | recv st =>
      simp only
      split
      · exact streamError_inv s h
      · exact recv_inv s st h
    | sessionOpened r =>
      simp only
      split
      · simpa using h
      · exact cancelAll_inv s h
    | sessionClosed c =>
      simp only
      split
      · simpa using h
      · exact cancelAll_inv { s with sm := false } h
    | destroy =>
      simp only
      have h1 := failList_inv s.unacked s h
      have h2 := cancelAll_inv { (failList s s.unacked).1 with unacked := [] } h1
      simpa [List.append_assoc] using h2

theorem run_inv (ops : List Op) : ∀ (s : St) {log : List Done}, Inv s.tbl s.nreq log →
    Inv (run s ops).1.tbl (run s ops).1.nreq (log ++ (run s ops).2) := by
  induction ops with
  | nil => intro s log h; simpa [run] using h
  | cons op rest ih =>
    intro s log h
    simp only [run]
    have h1 := step_inv s op h
    have h2 := ih (step s op).1 h1
    simpa [List.append_assoc] using h2

theorem reachable_inv (own : String) (sock sm : Bool) (ops : List Op) :
    Inv (run (init own sock sm) ops).1.tbl (run (init own sock sm) ops).1.nreq (run (init own sock sm) ops).2 := by
  have := run_inv ops (init own sock sm) (log := []) (by simpa [init] using Inv.init)
  simpa using this

/-! ### what each primitive may output -/

theorem finish_out {s : St} {id : Id} {how : How} {d : Done} (hd : d ∈ (finish s id how).2) :
    d.how = how ∧ ∃ e ∈ s.tbl, e.id = id ∧ d.req = e.req ∧ d.id = e.id := by
  unfold finish at hd
  split at hd
  · rename_i e he
    simp only [List.mem_singleton] at hd
    subst hd
    exact ⟨rfl, e, (lookup_some he).1, (lookup_some he).2, rfl, rfl⟩
  · cases hd

theorem cancelAll_out {s : St} {d : Done} (hd : d ∈ (cancelAll s).2) : d.how = .cancelled := by
  unfold cancelAll at hd
  obtain ⟨e, _, rfl⟩ := List.mem_map.mp hd
  rfl

theorem failList_out (l : List Id) : ∀ {s : St} {d : Done}, d ∈ (failList s l).2 → d.how = .sendError := by
  induction l with
  | nil => intro s d hd; cases hd
  | cons id rest ih =>
    intro s d hd
    simp only [failList, List.mem_append] at hd
    rcases hd with h | h
    · exact (finish_out h).1
    · exact ih h

theorem sendRaw_out {s : St} {id : Id} {to : String} {d : Done} (hd : d ∈ (sendRaw s id to).2) :
    d.how = .refusedId ∨ d.how = .refusedTo ∨ d.how = .sendError := by
  unfold sendRaw at hd
  simp only at hd
  split at hd
  · simp only [List.mem_singleton] at hd; subst hd; exact Or.inl rfl
  · split at hd
    · simp only [List.mem_singleton] at hd; subst hd; exact Or.inr (Or.inl rfl)
    · split at hd
      · cases hd
      · split at hd
        · cases hd
        · exact Or.inr (Or.inr (finish_out hd).1)

theorem streamError_out {s : St} {d : Done} (hd : d ∈ (streamError s).2) : d.how = .cancelled := by
  unfold streamError at hd
  split at hd
  · exact cancelAll_out hd
  · cases hd

/-- the only way a `reply` completion is produced -/
theorem recv_out {s : St} {st : Stanza} {d : Done} (hd : d ∈ (recv s st).2) :
    st.kind = .iq ∧ (st.ty = .result ∨ st.ty = .error) ∧ d.how = .reply st.ty st.frm ∧
    ∃ e ∈ s.tbl, e.id = st.id ∧ d.id = e.id ∧ d.req = e.req ∧ (st.frm = "" ∨ st.frm = e.to) := by
  unfold recv at hd
  split at hd
  · cases hd
  · rename_i hk
    split at hd
    · cases hd
    · rename_i ht
      split at hd
      · cases hd
      · rename_i e he
        split at hd
        · cases hd
        · rename_i hf
          simp only [List.mem_singleton] at hd
          subst hd
          refine ⟨by simpa using hk, ?_, rfl, e, (lookup_some he).1, (lookup_some he).2, rfl, rfl, ?_⟩
          · cases hty : st.ty <;> simp [hty] at ht ⊢
          · by_cases h1 : st.frm = ""
            · exact Or.inl h1
            · right
              simp only [not_and, Decidable.not_not] at hf
              exact hf h1

theorem step_reply {s : St} {op : Op} {d : Done} {ty : Ty} {frm : String}
    (hd : d ∈ (step s op).2) (hh : d.how = .reply ty frm) :
    ∃ st, op = .recv st ∧ st.kind = .iq ∧ (st.ty = .result ∨ st.ty = .error) ∧ st.ty = ty ∧ st.frm = frm ∧
      ∃ e ∈ s.tbl, e.id = st.id ∧ d.id = e.id ∧ d.req = e.req ∧ (st.frm = "" ∨ st.frm = e.to) := by
  unfold step at hd
  split at hd
  · cases hd
  · cases op with
    | send id to =>
      exfalso
      have := sendRaw_out (show d ∈ (sendRaw _ _ _).2 from hd)
      rw [hh] at this
      simp at this
    | sendRaw id to =>
      exfalso
      have := sendRaw_out hd
      rw [hh] at this
      simp at this
    | sendFails id => exfalso; have := (finish_out hd).1; rw [hh] at this; cases this
    | failAll => exfalso; have := failList_out _ hd; rw [hh] at this; cases this
    | ackAll => exfalso; simp only at hd; split at hd <;> cases hd
    | enableSm => cases hd
    | recv st =>
      simp only at hd
      split at hd
      · exfalso; have := streamError_out hd; rw [hh] at this; cases this
      · obtain ⟨hk, ht, hhow, e, he, h1, h2, h3, h4⟩ := recv_out hd
        rw [hh] at hhow
        injection hhow with e1 e2
        exact ⟨st, rfl, hk, ht, e1.symm, e2.symm, e, he, h1, h2, h3, h4⟩
    | sessionOpened r =>
      exfalso
      simp only at hd
      split at hd
      · cases hd
      · have := cancelAll_out hd; rw [hh] at this; cases this
    | sessionClosed c =>
      exfalso
      simp only at hd
      split at hd
      · cases hd
      · have := cancelAll_out hd; rw [hh] at this; cases this
    | destroy =>
      exfalso
      simp only [List.mem_append] at hd
      rcases hd with h | h
      · have := failList_out _ h; rw [hh] at this; cases this
      · have := cancelAll_out h; rw [hh] at this; cases this

/-- an output of a run is the output of one of its steps -/
theorem run_mem_split (ops : List Op) : ∀ (s : St) {d : Done}, d ∈ (run s ops).2 →
    ∃ pre op post, ops = pre ++ op :: post ∧ d ∈ (step (run s pre).1 op).2 := by
  induction ops with
  | nil => intro s d hd; cases hd
  | cons op rest ih =>
    intro s d hd
    simp only [run, List.mem_append] at hd
    rcases hd with h | h
    · exact ⟨[], op, rest, rfl, by simpa [run] using h⟩
    · obtain ⟨pre, op', post, e1, e2⟩ := ih _ h
      exact ⟨op :: pre, op', post, by simp [e1], by simpa [run] using e2⟩

/-! ### liveness-shaped lemmas: a pending entry is kept or completed by every step -/

theorem finish_keeps {s : St} {id : Id} {how : How} {e : Entry} (hn : (ids s.tbl).Nodup) (he : e ∈ s.tbl) :
    (e ∈ (finish s id how).1.tbl ∧ e.id ≠ id) ∨ (e.req ∈ reqs (finish s id how).2 ∧ e.id = id) := by
  by_cases hid : e.id = id
  · right
    have hl := lookup_of_mem hn he
    rw [hid] at hl
    unfold finish
    simp [hl, hid]
  · left
    unfold finish
    split
    · exact ⟨mem_erase.mpr ⟨he, hid⟩, hid⟩
    · exact ⟨he, hid⟩

theorem finish_tbl_nodup {s : St} (id : Id) (how : How) (hn : (ids s.tbl).Nodup) :
    (ids (finish s id how).1.tbl).Nodup := by
  unfold finish
  split
  · exact erase_nodup id hn
  · exact hn

theorem failList_keeps (l : List Id) : ∀ {s : St} {e : Entry}, (ids s.tbl).Nodup → e ∈ s.tbl →
    e ∈ (failList s l).1.tbl ∨ e.req ∈ reqs (failList s l).2 := by
  induction l with
  | nil => intro s e _ he; exact Or.inl he
  | cons id rest ih =>
    intro s e hn he
    simp only [failList, reqs_append, List.mem_append]
    rcases finish_keeps (id := id) (how := .sendError) hn he with h | h
    · rcases ih (finish_tbl_nodup id .sendError hn) h.1 with h2 | h2
      · exact Or.inl h2
      · exact Or.inr (Or.inr h2)
    · exact Or.inr (Or.inl h.1)

theorem cancelAll_completes {s : St} {e : Entry} (he : e ∈ s.tbl) : e.req ∈ reqs (cancelAll s).2 := by
  unfold cancelAll
  exact mem_reqs.mpr ⟨⟨e.req, e.id, .cancelled⟩, List.mem_map.mpr ⟨e, he, rfl⟩, rfl⟩

theorem sendRaw_keeps {s : St} {id : Id} {to : String} {e : Entry} (he : e ∈ s.tbl) :
    e ∈ (sendRaw s id to).1.tbl := by
  unfold sendRaw
  simp only
  split
  · exact he
  · rename_i hid
    split
    · exact he
    · have hid' : id ≠ .named "" ∧ (lookup s.tbl id).isSome = false := by
        simpa [St.hasId, not_or] using hid
      have hnone : lookup s.tbl id = none := by
        cases hl : lookup s.tbl id with
        | none => rfl
        | some e => simp [hl] at hid'
      have hne : e.id ≠ id := lookup_none hnone e he
      have he' : e ∈ s.tbl ++ [Entry.mk id to s.nreq] := List.mem_append.mpr (Or.inl he)
      split
      · exact he'
      · split
        · exact he'
        · unfold finish
          split
          · exact mem_erase.mpr ⟨he', hne⟩
          · exact he'

theorem recv_keeps {s : St} {st : Stanza} {e : Entry} (hn : (ids s.tbl).Nodup) (he : e ∈ s.tbl) :
    e ∈ (recv s st).1.tbl ∨ e.req ∈ reqs (recv s st).2 := by
  unfold recv
  split
  · exact Or.inl he
  · split
    · exact Or.inl he
    · split
      · exact Or.inl he
      · rename_i e' he'
        split
        · exact Or.inl he
        · by_cases hid : e.id = st.id
          · right
            have hl := lookup_of_mem hn he
            rw [hid, he'] at hl
            injection hl with hee
            subst hee
            simp
          · exact Or.inl (mem_erase.mpr ⟨he, hid⟩)

end Qx.C07
