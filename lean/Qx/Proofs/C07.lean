import Qx.Model.C07Iq
import Qx.Props.C13
/-! Helper lemmas for C07 (property theorems live in Qx/Props/C07.lean). -/
namespace Qx.C07

def ids (t : List Entry) : List Id := t.map (·.id)
def treqs (t : List Entry) : List Nat := t.map (·.req)

@[simp] theorem reqs_nil : reqs [] = [] := rfl
@[simp] theorem reqs_cons (d : Done) (l : List Done) : reqs (d :: l) = d.req :: reqs l := rfl
theorem reqs_append (a b : List Done) : reqs (a ++ b) = reqs a ++ reqs b := by simp [reqs]
theorem mem_reqs {r : Nat} {l : List Done} : r ∈ reqs l ↔ ∃ d ∈ l, d.req = r := by simp [reqs]

/-! ### the table as a list -/

theorem lookup_some {t : List Entry} {id : Id} {e : Entry} (h : lookup t id = some e) :
    e ∈ t ∧ e.id = id := by
  unfold lookup at h
  have h1 := List.mem_of_find?_eq_some h
  have h2 := List.find?_some h
  exact ⟨h1, by simpa using h2⟩

theorem lookup_none {t : List Entry} {id : Id} (h : lookup t id = none) : ∀ e ∈ t, e.id ≠ id := by
  unfold lookup at h
  intro e he
  have := List.find?_eq_none.mp h e he
  simpa using this

/-- with distinct ids, looking an entry's id up finds that entry -/
theorem lookup_of_mem {t : List Entry} {e : Entry} (hn : (ids t).Nodup) (he : e ∈ t) :
    lookup t e.id = some e := by
  induction t with
  | nil => cases he
  | cons x xs ih =>
    simp only [ids, List.map_cons, List.nodup_cons] at hn
    rcases List.mem_cons.mp he with h | h
    · subst h; simp [lookup]
    · have hne : x.id ≠ e.id := by
        intro heq
        apply hn.1
        rw [heq]
        exact List.mem_map.mpr ⟨e, h, rfl⟩
      have := ih hn.2 h
      unfold lookup at this ⊢
      simp [hne, this]

theorem erase_sublist (t : List Entry) (id : Id) : List.Sublist (erase t id) t := by
  unfold erase; exact List.filter_sublist

theorem erase_nodup {t : List Entry} (id : Id) (hn : (ids t).Nodup) : (ids (erase t id)).Nodup :=
  List.Nodup.sublist ((erase_sublist t id).map _) hn

theorem mem_erase {t : List Entry} {id : Id} {e : Entry} : e ∈ erase t id ↔ e ∈ t ∧ e.id ≠ id := by
  simp [erase]

theorem erase_of_not_mem {t : List Entry} {id : Id} (h : ∀ e ∈ t, e.id ≠ id) : erase t id = t := by
  unfold erase
  apply List.filter_eq_self.mpr
  intro e he
  simpa using h e he

/-- removing the entry found for `id` from a table with distinct ids removes exactly that entry -/
theorem perm_erase {t : List Entry} {id : Id} {e : Entry} (hn : (ids t).Nodup)
    (h : lookup t id = some e) : (treqs (erase t id) ++ [e.req]).Perm (treqs t) := by
  induction t with
  | nil => simp [lookup] at h
  | cons x xs ih =>
    simp only [ids, List.map_cons, List.nodup_cons] at hn
    by_cases hx : x.id = id
    · have hxe : x = e := by
        unfold lookup at h
        simpa [List.find?_cons, hx] using h
      subst hxe
      have hnot : ∀ e' ∈ xs, e'.id ≠ id := by
        intro e' he' heq
        apply hn.1
        rw [hx, ← heq]
        exact List.mem_map.mpr ⟨e', he', rfl⟩
      have h1 : erase (x :: xs) id = xs := by
        have e1 : erase (x :: xs) id = erase xs id := by simp [erase, hx]
        rw [e1, erase_of_not_mem hnot]
      rw [h1]
      simp [treqs]
    · have h' : lookup xs id = some e := by
        unfold lookup at h ⊢
        simpa [List.find?_cons, hx] using h
      have h1 : erase (x :: xs) id = x :: erase xs id := by
        simp [erase, hx]
      rw [h1]
      have := ih hn.2 h'
      simpa [treqs] using List.Perm.cons x.req this

/-! ### the bookkeeping invariant: every request issued so far is pending exactly once or completed
exactly once (`treqs tbl ++ reqs log` is a permutation of `0 … nreq-1`), and table ids are distinct -/

structure Inv (t : List Entry) (n : Nat) (log : List Done) : Prop where
  nodup : (ids t).Nodup
  perm : (treqs t ++ reqs log).Perm (List.range n)

theorem Inv.init : Inv [] 0 [] := ⟨by simp [ids], by simp [treqs]⟩

/-- moving the entry found for `id` from the table to the log keeps the invariant -/
theorem Inv.complete {t : List Entry} {n : Nat} {log : List Done} {id : Id} {e : Entry} (how : How)
    (h : Inv t n log) (hl : lookup t id = some e) :
    Inv (erase t id) n (log ++ [⟨e.req, e.id, how⟩]) := by
  refine ⟨erase_nodup id h.nodup, ?_⟩
  have p1 := perm_erase h.nodup hl
  rw [reqs_append]
  simp only [reqs_cons, reqs_nil]
  have p2 : (treqs (erase t id) ++ (reqs log ++ [e.req])).Perm (treqs t ++ reqs log) := by
    have p3 : (treqs (erase t id) ++ (reqs log ++ [e.req])).Perm ((treqs (erase t id) ++ [e.req]) ++ reqs log) := by
      rw [List.append_assoc]
      exact List.Perm.append_left _ List.perm_append_comm
    exact p3.trans (List.Perm.append_right _ p1)
  exact p2.trans h.perm

theorem finish_inv (s : St) (id : Id) (how : How) {log : List Done} (h : Inv s.tbl s.nreq log) :
    Inv (finish s id how).1.tbl (finish s id how).1.nreq (log ++ (finish s id how).2) := by
  unfold finish
  split
  · rename_i e he; exact h.complete how he
  · simpa using h

@[simp] theorem finish_nreq (s : St) (id : Id) (how : How) : (finish s id how).1.nreq = s.nreq := by
  unfold finish; split <;> rfl
@[simp] theorem finish_dead (s : St) (id : Id) (how : How) : (finish s id how).1.dead = s.dead := by
  unfold finish; split <;> rfl
@[simp] theorem finish_unacked (s : St) (id : Id) (how : How) : (finish s id how).1.unacked = s.unacked := by
  unfold finish; split <;> rfl

theorem cancelAll_inv (s : St) {log : List Done} (h : Inv s.tbl s.nreq log) :
    Inv (cancelAll s).1.tbl (cancelAll s).1.nreq (log ++ (cancelAll s).2) := by
  unfold cancelAll
  refine ⟨by simp [ids], ?_⟩
  simp only [reqs_append]
  have e1 : reqs (s.tbl.map fun e => Done.mk e.req e.id .cancelled) = treqs s.tbl := by
    simp [reqs, treqs, List.map_map, Function.comp_def]
  rw [e1]
  have p : (treqs ([] : List Entry) ++ (reqs log ++ treqs s.tbl)).Perm (treqs s.tbl ++ reqs log) := by
    simpa [treqs] using (List.perm_append_comm : (reqs log ++ treqs s.tbl).Perm _)
  exact p.trans h.perm

theorem failList_inv (l : List Id) : ∀ (s : St) {log : List Done}, Inv s.tbl s.nreq log →
    Inv (failList s l).1.tbl (failList s l).1.nreq (log ++ (failList s l).2) := by
  induction l with
  | nil => intro s log h; simpa [failList] using h
  | cons id rest ih =>
    intro s log h
    simp only [failList]
    have h1 := finish_inv s id .sendError h
    have h2 := ih (finish s id .sendError).1 h1
    simpa [List.append_assoc] using h2

@[simp] theorem failList_dead (l : List Id) : ∀ (s : St), (failList s l).1.dead = s.dead := by
  induction l with
  | nil => intro s; rfl
  | cons id rest ih => intro s; simp [failList, ih]

theorem sendRaw_inv (s : St) (id : Id) (to : String) {log : List Done} (h : Inv s.tbl s.nreq log) :
    Inv (sendRaw s id to).1.tbl (sendRaw s id to).1.nreq (log ++ (sendRaw s id to).2) := by
  have hr : (List.range (s.nreq + 1)) = List.range s.nreq ++ [s.nreq] := List.range_succ
  -- a request that is refused at once: its number goes straight into the log
  have refused : ∀ how, Inv s.tbl (s.nreq + 1) (log ++ [⟨s.nreq, id, how⟩]) := by
    intro how
    refine ⟨h.nodup, ?_⟩
    rw [reqs_append, hr, ← List.append_assoc]
    exact List.Perm.append_right _ h.perm
  unfold sendRaw
  simp only
  split
  · exact refused _
  · rename_i hid
    split
    · exact refused _
    · -- registered
      have hid' : id ≠ .named "" ∧ (lookup s.tbl id).isSome = false := by
        simpa [St.hasId, not_or] using hid
      have hnone : lookup s.tbl id = none := by
        cases hl : lookup s.tbl id with
        | none => rfl
        | some e => simp [hl] at hid'
      have hfresh := lookup_none hnone
      have hreg : Inv (s.tbl ++ [Entry.mk id to s.nreq]) (s.nreq + 1) log := by
        refine ⟨?_, ?_⟩
        · simp only [ids, List.map_append, List.map_cons, List.map_nil]
          rw [List.nodup_append]
          refine ⟨h.nodup, by simp, ?_⟩
          intro a ha b hb
          simp only [List.mem_singleton] at hb
          subst hb
          obtain ⟨e, he, rfl⟩ := List.mem_map.mp ha
          exact hfresh e he
        · rw [hr]
          simp only [treqs, List.map_append, List.map_cons, List.map_nil]
          have p1 : (List.map (·.req) s.tbl ++ [s.nreq] ++ reqs log).Perm
              ((List.map (·.req) s.tbl ++ reqs log) ++ [s.nreq]) := by
            rw [List.append_assoc, List.append_assoc]
            exact List.Perm.append_left _ List.perm_append_comm
          exact p1.trans (List.Perm.append_right _ h.perm)
      split
      · simpa using hreg
      · split
        · simpa using hreg
        · exact finish_inv _ id .sendError hreg

theorem send_inv (s : St) (id : Id) (to : String) {log : List Done} (h : Inv s.tbl s.nreq log) :
    Inv (send s id to).1.tbl (send s id to).1.nreq (log ++ (send s id to).2) := by
  unfold send
  exact sendRaw_inv _ _ _ h

theorem recv_inv (s : St) (st : Stanza) {log : List Done} (h : Inv s.tbl s.nreq log) :
    Inv (recv s st).1.tbl (recv s st).1.nreq (log ++ (recv s st).2) := by
  unfold recv
  split
  · simpa using h
  · split
    · simpa using h
    · split
      · simpa using h
      · rename_i e he
        split
        · simpa using h
        · exact h.complete _ he

theorem streamError_inv (s : St) {log : List Done} (h : Inv s.tbl s.nreq log) :
    Inv (streamError s).1.tbl (streamError s).1.nreq (log ++ (streamError s).2) := by
  unfold streamError
  split
  · exact cancelAll_inv _ h
  · simpa using h

theorem step_inv (s : St) (op : Op) {log : List Done} (h : Inv s.tbl s.nreq log) :
    Inv (step s op).1.tbl (step s op).1.nreq (log ++ (step s op).2) := by
  unfold step
  split
  · simpa using h
  · cases op with
    | send id to => exact send_inv s id to h
    | sendRaw id to => exact sendRaw_inv s id to h
    | sendFails id => exact finish_inv s id _ h
    | failAll => exact failList_inv _ s h
    | ackAll => simp only; split <;> simpa using h
    | enableSm => simpa using h
    | setSock b => simpa using h
    | recv st =>
      simp only
      split
      · exact streamError_inv s h
      · exact recv_inv s st h
    | sessionOpened r _e =>
      simp only
      split
      · simpa using h
      · exact cancelAll_inv s h
    | sessionClosed c =>
      simp only
      split
      · simpa using h
      · exact cancelAll_inv { s with sm := false } h
    | destroy =>
      simp only
      have h1 := failList_inv s.unacked s h
      have h2 := cancelAll_inv { (failList s s.unacked).1 with unacked := [] } h1
      simpa [List.append_assoc] using h2

theorem run_inv (ops : List Op) : ∀ (s : St) {log : List Done}, Inv s.tbl s.nreq log →
    Inv (run s ops).1.tbl (run s ops).1.nreq (log ++ (run s ops).2) := by
  induction ops with
  | nil => intro s log h; simpa [run] using h
  | cons op rest ih =>
    intro s log h
    simp only [run]
    have h1 := step_inv s op h
    have h2 := ih (step s op).1 h1
    simpa [List.append_assoc] using h2

theorem reachable_inv (own : String) (sock sm : Bool) (ops : List Op) :
    Inv (run (init own sock sm) ops).1.tbl (run (init own sock sm) ops).1.nreq (run (init own sock sm) ops).2 := by
  have := run_inv ops (init own sock sm) (log := []) (by simpa [init] using Inv.init)
  simpa using this

/-! ### what each primitive may output -/

theorem finish_out {s : St} {id : Id} {how : How} {d : Done} (hd : d ∈ (finish s id how).2) :
    d.how = how ∧ ∃ e ∈ s.tbl, e.id = id ∧ d.req = e.req ∧ d.id = e.id := by
  unfold finish at hd
  split at hd
  · rename_i e he
    simp only [List.mem_singleton] at hd
    subst hd
    exact ⟨rfl, e, (lookup_some he).1, (lookup_some he).2, rfl, rfl⟩
  · cases hd

theorem cancelAll_out {s : St} {d : Done} (hd : d ∈ (cancelAll s).2) : d.how = .cancelled := by
  unfold cancelAll at hd
  obtain ⟨e, _, rfl⟩ := List.mem_map.mp hd
  rfl

theorem failList_out (l : List Id) : ∀ {s : St} {d : Done}, d ∈ (failList s l).2 → d.how = .sendError := by
  induction l with
  | nil => intro s d hd; cases hd
  | cons id rest ih =>
    intro s d hd
    simp only [failList, List.mem_append] at hd
    rcases hd with h | h
    · exact (finish_out h).1
    · exact ih h

theorem sendRaw_out {s : St} {id : Id} {to : String} {d : Done} (hd : d ∈ (sendRaw s id to).2) :
    d.how = .refusedId ∨ d.how = .refusedTo ∨ d.how = .sendError := by
  unfold sendRaw at hd
  simp only at hd
  split at hd
  · simp only [List.mem_singleton] at hd; subst hd; exact Or.inl rfl
  · split at hd
    · simp only [List.mem_singleton] at hd; subst hd; exact Or.inr (Or.inl rfl)
    · split at hd
      · cases hd
      · split at hd
        · cases hd
        · exact Or.inr (Or.inr (finish_out hd).1)

theorem streamError_out {s : St} {d : Done} (hd : d ∈ (streamError s).2) : d.how = .cancelled := by
  unfold streamError at hd
  split at hd
  · exact cancelAll_out hd
  · cases hd

/-- the only way a `reply` completion is produced -/
theorem recv_out {s : St} {st : Stanza} {d : Done} (hd : d ∈ (recv s st).2) :
    st.kind = .iq ∧ (st.ty = .result ∨ st.ty = .error) ∧ d.how = .reply st.ty st.frm ∧
    ∃ e ∈ s.tbl, e.id = st.id ∧ d.id = e.id ∧ d.req = e.req ∧ (st.frm = "" ∨ st.frm = e.to) := by
  unfold recv at hd
  split at hd
  · cases hd
  · rename_i hk
    split at hd
    · cases hd
    · rename_i ht
      split at hd
      · cases hd
      · rename_i e he
        split at hd
        · cases hd
        · rename_i hf
          simp only [List.mem_singleton] at hd
          subst hd
          refine ⟨by simpa using hk, ?_, rfl, e, (lookup_some he).1, (lookup_some he).2, rfl, rfl, ?_⟩
          · cases hty : st.ty <;> simp [hty] at ht ⊢
          · by_cases h1 : st.frm = ""
            · exact Or.inl h1
            · right
              simp only [not_and, Decidable.not_not] at hf
              exact hf h1

theorem step_reply {s : St} {op : Op} {d : Done} {ty : Ty} {frm : String}
    (hd : d ∈ (step s op).2) (hh : d.how = .reply ty frm) :
    ∃ st, op = .recv st ∧ st.kind = .iq ∧ (st.ty = .result ∨ st.ty = .error) ∧ st.ty = ty ∧ st.frm = frm ∧
      ∃ e ∈ s.tbl, e.id = st.id ∧ d.id = e.id ∧ d.req = e.req ∧ (st.frm = "" ∨ st.frm = e.to) := by
  unfold step at hd
  split at hd
  · cases hd
  · cases op with
    | send id to =>
      exfalso
      have := sendRaw_out (show d ∈ (sendRaw _ _ _).2 from hd)
      rw [hh] at this
      simp at this
    | sendRaw id to =>
      exfalso
      have := sendRaw_out hd
      rw [hh] at this
      simp at this
    | sendFails id => exfalso; have := (finish_out hd).1; rw [hh] at this; cases this
    | failAll => exfalso; have := failList_out _ hd; rw [hh] at this; cases this
    | ackAll => exfalso; simp only at hd; split at hd <;> cases hd
    | enableSm => cases hd
    | setSock b => cases hd
    | recv st =>
      simp only at hd
      split at hd
      · exfalso; have := streamError_out hd; rw [hh] at this; cases this
      · obtain ⟨hk, ht, hhow, e, he, h1, h2, h3, h4⟩ := recv_out hd
        rw [hh] at hhow
        injection hhow with e1 e2
        exact ⟨st, rfl, hk, ht, e1.symm, e2.symm, e, he, h1, h2, h3, h4⟩
    | sessionOpened r _e =>
      exfalso
      simp only at hd
      split at hd
      · cases hd
      · have := cancelAll_out hd; rw [hh] at this; cases this
    | sessionClosed c =>
      exfalso
      simp only at hd
      split at hd
      · cases hd
      · have := cancelAll_out hd; rw [hh] at this; cases this
    | destroy =>
      exfalso
      simp only [List.mem_append] at hd
      rcases hd with h | h
      · have := failList_out _ h; rw [hh] at this; cases this
      · have := cancelAll_out h; rw [hh] at this; cases this

/-- an output of a run is the output of one of its steps -/
theorem run_mem_split (ops : List Op) : ∀ (s : St) {d : Done}, d ∈ (run s ops).2 →
    ∃ pre op post, ops = pre ++ op :: post ∧ d ∈ (step (run s pre).1 op).2 := by
  induction ops with
  | nil => intro s d hd; cases hd
  | cons op rest ih =>
    intro s d hd
    simp only [run, List.mem_append] at hd
    rcases hd with h | h
    · exact ⟨[], op, rest, rfl, by simpa [run] using h⟩
    · obtain ⟨pre, op', post, e1, e2⟩ := ih _ h
      exact ⟨op :: pre, op', post, by simp [e1], by simpa [run] using e2⟩

/-! ### liveness-shaped lemmas: a pending entry is kept or completed by every step -/

theorem finish_keeps {s : St} {id : Id} {how : How} {e : Entry} (hn : (ids s.tbl).Nodup) (he : e ∈ s.tbl) :
    (e ∈ (finish s id how).1.tbl ∧ e.id ≠ id) ∨ (e.req ∈ reqs (finish s id how).2 ∧ e.id = id) := by
  by_cases hid : e.id = id
  · right
    have hl := lookup_of_mem hn he
    rw [hid] at hl
    unfold finish
    simp [hl, hid]
  · left
    unfold finish
    split
    · exact ⟨mem_erase.mpr ⟨he, hid⟩, hid⟩
    · exact ⟨he, hid⟩

theorem finish_tbl_nodup {s : St} (id : Id) (how : How) (hn : (ids s.tbl).Nodup) :
    (ids (finish s id how).1.tbl).Nodup := by
  unfold finish
  split
  · exact erase_nodup id hn
  · exact hn

theorem failList_keeps (l : List Id) : ∀ {s : St} {e : Entry}, (ids s.tbl).Nodup → e ∈ s.tbl →
    e ∈ (failList s l).1.tbl ∨ e.req ∈ reqs (failList s l).2 := by
  induction l with
  | nil => intro s e _ he; exact Or.inl he
  | cons id rest ih =>
    intro s e hn he
    simp only [failList, reqs_append, List.mem_append]
    rcases finish_keeps (id := id) (how := .sendError) hn he with h | h
    · rcases ih (finish_tbl_nodup id .sendError hn) h.1 with h2 | h2
      · exact Or.inl h2
      · exact Or.inr (Or.inr h2)
    · exact Or.inr (Or.inl h.1)

theorem cancelAll_completes {s : St} {e : Entry} (he : e ∈ s.tbl) : e.req ∈ reqs (cancelAll s).2 := by
  unfold cancelAll
  exact mem_reqs.mpr ⟨⟨e.req, e.id, .cancelled⟩, List.mem_map.mpr ⟨e, he, rfl⟩, rfl⟩

theorem sendRaw_keeps {s : St} {id : Id} {to : String} {e : Entry} (he : e ∈ s.tbl) :
    e ∈ (sendRaw s id to).1.tbl := by
  unfold sendRaw
  simp only
  split
  · exact he
  · rename_i hid
    split
    · exact he
    · have hid' : id ≠ .named "" ∧ (lookup s.tbl id).isSome = false := by
        simpa [St.hasId, not_or] using hid
      have hnone : lookup s.tbl id = none := by
        cases hl : lookup s.tbl id with
        | none => rfl
        | some e => simp [hl] at hid'
      have hne : e.id ≠ id := lookup_none hnone e he
      have he' : e ∈ s.tbl ++ [Entry.mk id to s.nreq] := List.mem_append.mpr (Or.inl he)
      split
      · exact he'
      · split
        · exact he'
        · unfold finish
          split
          · exact mem_erase.mpr ⟨he', hne⟩
          · exact he'

theorem recv_keeps {s : St} {st : Stanza} {e : Entry} (hn : (ids s.tbl).Nodup) (he : e ∈ s.tbl) :
    e ∈ (recv s st).1.tbl ∨ e.req ∈ reqs (recv s st).2 := by
  unfold recv
  split
  · exact Or.inl he
  · split
    · exact Or.inl he
    · split
      · exact Or.inl he
      · rename_i e' he'
        split
        · exact Or.inl he
        · by_cases hid : e.id = st.id
          · right
            have hl := lookup_of_mem hn he
            rw [hid, he'] at hl
            injection hl with hee
            subst hee
            simp
          · exact Or.inl (mem_erase.mpr ⟨he, hid⟩)

end Qx.C07

namespace Qx.C07

/-- `dead → table empty` (the destructor cancels everything) -/
def DeadEmpty (s : St) : Prop := s.dead = true → s.tbl = []

@[simp] theorem cancelAll_dead (s : St) : (cancelAll s).1.dead = s.dead := rfl
@[simp] theorem cancelAll_tbl (s : St) : (cancelAll s).1.tbl = [] := rfl

theorem sendRaw_dead (s : St) (id : Id) (to : String) : (sendRaw s id to).1.dead = s.dead := by
  unfold sendRaw
  simp only
  split
  · rfl
  · split
    · rfl
    · split
      · rfl
      · split
        · rfl
        · simp

theorem recv_dead (s : St) (st : Stanza) : (recv s st).1.dead = s.dead := by
  unfold recv
  split
  · rfl
  · split
    · rfl
    · split
      · rfl
      · split <;> rfl

theorem step_deadEmpty (s : St) (op : Op) (h : DeadEmpty s) : DeadEmpty (step s op).1 := by
  unfold step
  split
  · exact h
  · rename_i hd
    have hd' : s.dead = false := by simpa using hd
    intro hdead
    cases op with
    | send id to => simp only [send] at hdead; rw [sendRaw_dead] at hdead; simp [hd'] at hdead
    | sendRaw id to => simp only at hdead; rw [sendRaw_dead] at hdead; simp [hd'] at hdead
    | sendFails id => simp [hd'] at hdead
    | failAll => simp [hd'] at hdead
    | ackAll => simp only at hdead; split at hdead <;> simp [hd'] at hdead
    | enableSm => simp [hd'] at hdead
    | setSock b => simp [hd'] at hdead
    | recv st =>
      simp only at hdead
      split at hdead
      · unfold streamError at hdead; split at hdead <;> simp [hd'] at hdead
      · rw [recv_dead] at hdead; simp [hd'] at hdead
    | sessionOpened r _e => simp only at hdead; split at hdead <;> simp [hd'] at hdead
    | sessionClosed c => simp only at hdead; split at hdead <;> simp [hd'] at hdead
    | destroy => rfl

theorem run_deadEmpty (ops : List Op) : ∀ (s : St), DeadEmpty s → DeadEmpty (run s ops).1 := by
  induction ops with
  | nil => intro s h; exact h
  | cons op rest ih => intro s h; simp only [run]; exact ih _ (step_deadEmpty s op h)

/-- every step keeps a pending entry or completes it -/
theorem step_keeps {s : St} {op : Op} {e : Entry} (hn : (ids s.tbl).Nodup) (he : e ∈ s.tbl) :
    e ∈ (step s op).1.tbl ∨ e.req ∈ reqs (step s op).2 := by
  unfold step
  split
  · exact Or.inl he
  · cases op with
    | send id to => exact Or.inl (sendRaw_keeps (s := { s with fresh := _ }) he)
    | sendRaw id to => exact Or.inl (sendRaw_keeps he)
    | sendFails id =>
      rcases finish_keeps (id := id) (how := .sendError) hn he with h | h
      · exact Or.inl h.1
      · exact Or.inr h.1
    | failAll => exact failList_keeps _ hn he
    | ackAll => simp only; split <;> exact Or.inl he
    | enableSm => exact Or.inl he
    | setSock b => exact Or.inl he
    | recv st =>
      simp only
      split
      · unfold streamError
        split
        · exact Or.inr (cancelAll_completes (s := { s with sm := false, sock := false }) he)
        · exact Or.inl he
      · exact recv_keeps hn he
    | sessionOpened r _e =>
      simp only
      split
      · exact Or.inl he
      · exact Or.inr (cancelAll_completes he)
    | sessionClosed c =>
      simp only
      split
      · exact Or.inl he
      · exact Or.inr (cancelAll_completes (s := { s with sm := false }) he)
    | destroy =>
      simp only [reqs_append, List.mem_append]
      rcases failList_keeps s.unacked hn he with h | h
      · exact Or.inr (Or.inr (cancelAll_completes (s := { (failList s s.unacked).1 with unacked := [] }) h))
      · exact Or.inr (Or.inl h)

/-- a trigger completes the pending entry in that very step -/
theorem step_trigger {s : St} {op : Op} {e : Entry} (hn : (ids s.tbl).Nodup) (hd : s.dead = false)
    (he : e ∈ s.tbl) (ht : Trigger e op) : e.req ∈ reqs (step s op).2 := by
  unfold step
  simp only [hd, Bool.false_eq_true, if_false]
  cases op with
  | send id to => cases ht
  | sendRaw id to => cases ht
  | sendFails id =>
    simp only [Trigger] at ht
    rcases finish_keeps (id := id) (how := .sendError) hn he with h | h
    · exact absurd ht.symm h.2
    · exact h.1
  | failAll => cases ht
  | ackAll => cases ht
  | enableSm => cases ht
  | setSock b => cases ht
  | recv st =>
    simp only [Trigger, Stanza.answers] at ht
    obtain ⟨hk, hty, hid, hfrm⟩ := ht
    have hnot : ¬ (st.kind = .iq ∧ st.ty = .other) := by
      intro h; rcases hty with h1 | h1 <;> simp [h1] at h
    simp only [hnot, if_false]
    have hl := lookup_of_mem hn he
    unfold recv
    have h1 : ¬ st.kind ≠ .iq := by simp [hk]
    have h2 : ¬ (st.ty ≠ .result ∧ st.ty ≠ .error) := by
      rcases hty with h | h <;> simp [h]
    have h3 : ¬ (st.frm ≠ "" ∧ st.frm ≠ e.to) := by
      rcases hfrm with h | h <;> simp [h]
    simp [h1, h2, hid, hl, h3]
  | sessionOpened r _e =>
    simp only [Trigger] at ht
    subst ht
    exact cancelAll_completes he
  | sessionClosed c =>
    simp only [Trigger] at ht
    subst ht
    exact cancelAll_completes (s := { s with sm := false }) he
  | destroy =>
    simp only [reqs_append, List.mem_append]
    rcases failList_keeps s.unacked hn he with h | h
    · exact Or.inr (cancelAll_completes (s := { (failList s s.unacked).1 with unacked := [] }) h)
    · exact Or.inl h

theorem eventually_aux (e : Entry) (ops : List Op) : ∀ (s : St) (log : List Done),
    Inv s.tbl s.nreq log → DeadEmpty s → e ∈ s.tbl → (∃ op ∈ ops, Trigger e op) →
    e.req ∈ reqs (run s ops).2 := by
  induction ops with
  | nil => intro s log _ _ _ ht; obtain ⟨op, hop, _⟩ := ht; cases hop
  | cons op rest ih =>
    intro s log hinv hde he ht
    have hdead : s.dead = false := by
      cases hd : s.dead with
      | false => rfl
      | true => have := hde hd; rw [this] at he; cases he
    simp only [run, reqs_append, List.mem_append]
    by_cases hop : Trigger e op
    · exact Or.inl (step_trigger hinv.nodup hdead he hop)
    · rcases step_keeps (op := op) hinv.nodup he with h | h
      · right
        obtain ⟨op', hmem, htr⟩ := ht
        rcases List.mem_cons.mp hmem with h1 | h1
        · subst h1; exact absurd htr hop
        · exact ih _ _ (step_inv s op hinv) (step_deadEmpty s op hde) h ⟨op', h1, htr⟩
      · exact Or.inl h

/-- recorded addressees are never empty -/
def ToNonempty (t : List Entry) : Prop := ∀ e ∈ t, e.to ≠ ""

theorem finish_sub {s : St} {id : Id} {how : How} {e : Entry} (he : e ∈ (finish s id how).1.tbl) : e ∈ s.tbl := by
  unfold finish at he
  split at he
  · exact (mem_erase.mp he).1
  · exact he

theorem failList_sub (l : List Id) : ∀ {s : St} {e : Entry}, e ∈ (failList s l).1.tbl → e ∈ s.tbl := by
  induction l with
  | nil => intro s e he; exact he
  | cons id rest ih => intro s e he; simp only [failList] at he; exact finish_sub (ih he)

theorem recv_sub {s : St} {st : Stanza} {e : Entry} (he : e ∈ (recv s st).1.tbl) : e ∈ s.tbl := by
  unfold recv at he
  split at he
  · exact he
  · split at he
    · exact he
    · split at he
      · exact he
      · split at he
        · exact he
        · exact (mem_erase.mp he).1

/-- an entry of the table after `sendRaw` is an old one or the one just registered -/
theorem sendRaw_new {s : St} {id : Id} {to : String} {e : Entry} (he : e ∈ (sendRaw s id to).1.tbl) :
    e ∈ s.tbl ∨ (e = ⟨id, to, s.nreq⟩ ∧ to ≠ "" ∧ id ≠ .named "") := by
  unfold sendRaw at he
  simp only at he
  split at he
  · exact Or.inl he
  · rename_i hid
    split at he
    · exact Or.inl he
    · rename_i hto
      have hid' : id ≠ .named "" := by
        intro h; exact hid (Or.inl h)
      have key : ∀ e, e ∈ s.tbl ++ [Entry.mk id to s.nreq] → e ∈ s.tbl ∨ (e = ⟨id, to, s.nreq⟩ ∧ to ≠ "" ∧ id ≠ .named "") := by
        intro e he
        rcases List.mem_append.mp he with h | h
        · exact Or.inl h
        · simp only [List.mem_singleton] at h; exact Or.inr ⟨h, hto, hid'⟩
      split at he
      · exact key e he
      · split at he
        · exact key e he
        · exact key e (finish_sub he)

theorem step_new {s : St} {op : Op} {e : Entry} (he : e ∈ (step s op).1.tbl) :
    e ∈ s.tbl ∨ (e.req = s.nreq ∧ e.to ≠ "" ∧ e.id ≠ .named "" ∧
      ((∃ id to, op = .send id to ∧ e.to = (if to = "" then s.own else to)) ∨
       (∃ to, op = .sendRaw e.id to ∧ e.to = to))) := by
  unfold step at he
  split at he
  · exact Or.inl he
  · cases op with
    | send id to =>
      simp only [send] at he
      rcases sendRaw_new he with h | ⟨h1, h2, h3⟩
      · exact Or.inl h
      · right
        subst h1
        exact ⟨rfl, h2, h3, Or.inl ⟨id, to, rfl, rfl⟩⟩
    | sendRaw id to =>
      rcases sendRaw_new he with h | ⟨h1, h2, h3⟩
      · exact Or.inl h
      · right
        subst h1
        exact ⟨rfl, h2, h3, Or.inr ⟨to, rfl, rfl⟩⟩
    | sendFails id => exact Or.inl (finish_sub he)
    | failAll => exact Or.inl (failList_sub _ he)
    | ackAll => simp only at he; split at he <;> exact Or.inl he
    | enableSm => exact Or.inl he
    | setSock b => exact Or.inl he
    | recv st =>
      simp only at he
      split at he
      · unfold streamError at he
        split at he
        · cases he
        · exact Or.inl he
      · exact Or.inl (recv_sub he)
    | sessionOpened r _e =>
      simp only at he
      split at he
      · exact Or.inl he
      · cases he
    | sessionClosed c =>
      simp only at he
      split at he
      · exact Or.inl he
      · cases he
    | destroy => cases he

theorem run_toNonempty (ops : List Op) : ∀ (s : St), ToNonempty s.tbl → ToNonempty (run s ops).1.tbl := by
  induction ops with
  | nil => intro s h; exact h
  | cons op rest ih =>
    intro s h
    simp only [run]
    apply ih
    intro e he
    rcases step_new he with h1 | h1
    · exact h e h1
    · exact h1.2.1

end Qx.C07

namespace Qx.C07.Mam

theorem finishes_append (a b : List Ev) : finishes (a ++ b) = finishes a + finishes b := by
  simp [finishes, List.filter_append]

@[simp] theorem finishes_nil : finishes [] = 0 := rfl

theorem removeIdx_sublist (w : List Nat) (i : Nat) : List.Sublist (removeIdx w i) w := by
  unfold removeIdx; exact List.filter_sublist

theorem removeIdx_length {w : List Nat} {i : Nat} (hn : w.Nodup) (hi : i ∈ w) :
    (removeIdx w i).length + 1 = w.length := by
  induction w with
  | nil => cases hi
  | cons x xs ih =>
    simp only [List.nodup_cons] at hn
    by_cases hx : x = i
    · subst hx
      have h0 : removeIdx xs x = xs := by
        unfold removeIdx
        apply List.filter_eq_self.mpr
        intro a ha
        have : a ≠ x := by intro h; subst h; exact hn.1 ha
        simpa using this
      have h1 : removeIdx (x :: xs) x = xs := by
        have e1 : removeIdx (x :: xs) x = removeIdx xs x := by simp [removeIdx]
        rw [e1, h0]
      rw [h1]; simp
    · have hi' : i ∈ xs := by
        rcases List.mem_cons.mp hi with h | h
        · exact absurd h.symm hx
        · exact h
      have h1 : removeIdx (x :: xs) i = x :: removeIdx xs i := by simp [removeIdx, hx]
      rw [h1]
      have := ih hn.2 hi'
      simp only [List.length_cons]
      omega

/-- configuration and flags that neither `jobDone` nor `loop` touch -/
structure Same (s s' : St) : Prop where
  e2ee : s'.e2ee = s.e2ee
  answered : s'.answered = s.answered
  started : s'.started = s.started
  page : s'.page = s.page

theorem Same.rfl' (s : St) : Same s s := ⟨rfl, rfl, rfl, rfl⟩

theorem Same.trans {a b c : St} (h1 : Same a b) (h2 : Same b c) : Same a c :=
  ⟨h2.e2ee.trans h1.e2ee, h2.answered.trans h1.answered,
   h2.started.trans h1.started, h2.page.trans h1.page⟩

/-- the `for` loop: indices of deferred jobs are appended to `waiting`; the promise is finished
(once) exactly when the page was not empty and nothing is left waiting -/
theorem loop_spec (l : List Bool) : ∀ (s : St) (i : Nat),
    s.jobs = l.length + s.waiting.length → s.active = true →
    (loop s l i).1.jobs = (loop s l i).1.waiting.length ∧
    (∃ extra, (loop s l i).1.waiting = s.waiting ++ extra ∧ (∀ w ∈ extra, i ≤ w) ∧ extra.Nodup) ∧
    Same s (loop s l i).1 ∧
    (((loop s l i).1.waiting = [] ∧ l ≠ []) → finishes (loop s l i).2 = 1 ∧ (loop s l i).1.active = false) ∧
    (((loop s l i).1.waiting ≠ [] ∨ l = []) → finishes (loop s l i).2 = 0 ∧ (loop s l i).1.active = true) := by
  induction l with
  | nil =>
    intro s i hj ha
    simp only [loop]
    refine ⟨by simpa using hj, ⟨[], by simp⟩, Same.rfl' s, ?_, ?_⟩
    · intro h; exact absurd rfl h.2
    · intro _; exact ⟨rfl, ha⟩
  | cons enc rest ih =>
    intro s i hj ha
    simp only [loop]
    split
    · -- deferred decryption
      have hj' : ({ s with waiting := s.waiting ++ [i] } : St).jobs = rest.length + (s.waiting ++ [i]).length := by
        simp only [List.length_append, List.length_cons, List.length_nil] at hj ⊢; omega
      obtain ⟨h1, ⟨extra, h2, h3, h4⟩, h5, h6, h7⟩ := ih { s with waiting := s.waiting ++ [i] } (i + 1) hj' ha
      have hne : (loop { s with waiting := s.waiting ++ [i] } rest (i + 1)).1.waiting ≠ [] := by
        rw [h2]; simp
      refine ⟨h1, ⟨i :: extra, by rw [h2]; simp, ?_, ?_⟩, ⟨h5.e2ee, h5.answered, h5.started, h5.page⟩, ?_, ?_⟩
      · intro w hw
        rcases List.mem_cons.mp hw with h | h
        · omega
        · have := h3 w h; omega
      · rw [List.nodup_cons]
        refine ⟨?_, h4⟩
        intro hi
        have := h3 i hi
        omega
      · intro h; exact absurd h.1 hne
      · intro _; exact h7 (Or.inl hne)
    · -- plain message, or decryption that reports at once
      unfold jobDone
      simp only
      split
      · -- this was the last job
        rename_i hz
        have hz' : s.jobs - 1 = 0 := hz
        have hrest : rest = [] := by
          simp only [List.length_cons] at hj
          cases rest with
          | nil => rfl
          | cons _ _ => simp only [List.length_cons] at hj; omega
        have hw : s.waiting = [] := by
          simp only [List.length_cons] at hj
          cases hw : s.waiting with
          | nil => rfl
          | cons _ _ => rw [hw] at hj; simp only [List.length_cons] at hj; omega
        subst hrest
        simp only [loop, List.append_nil]
        refine ⟨by simp [hw, hz'], ⟨[], by simp⟩, ⟨rfl, rfl, rfl, rfl⟩, ?_, ?_⟩
        · intro _; constructor <;> first | rfl | trivial
        · intro h
          rcases h with h | h
          · exact absurd hw h
          · cases h
      · rename_i hz
        have hz' : s.jobs - 1 ≠ 0 := hz
        have hj' : ({ s with jobs := s.jobs - 1 } : St).jobs = rest.length + s.waiting.length := by
          simp only [List.length_cons] at hj
          show s.jobs - 1 = _
          omega
        obtain ⟨h1, ⟨extra, h2, h3, h4⟩, h5, h6, h7⟩ := ih { s with jobs := s.jobs - 1 } (i + 1) hj' ha
        simp only [List.nil_append]
        refine ⟨h1, ⟨extra, h2, ?_, h4⟩, ⟨h5.e2ee, h5.answered, h5.started, h5.page⟩, ?_, ?_⟩
        · intro w hw; have := h3 w hw; omega
        · intro h
          apply h6
          refine ⟨h.1, ?_⟩
          intro hr
          subst hr
          rw [h2] at h
          have : s.waiting = [] := by
            have := h.1
            simp only [List.append_eq_nil_iff] at this
            exact this.1
          rw [this] at hj'
          simp only [List.length_nil] at hj'
          exact hz' hj'
        · intro h
          apply h7
          rcases h with h | h
          · exact Or.inl h
          · cases h

/-- invariant of the retrieval machine; `n` = number of times the promise has been finished -/
structure MInv (s : St) (n : Nat) : Prop where
  jobs_eq : s.jobs = s.waiting.length
  nodup : s.waiting.Nodup
  act : s.active = true → s.started = true
  ans : s.answered = true → s.started = true
  fresh : s.answered = false → s.waiting = [] ∧ n = 0
  state : s.answered = true →
    (s.waiting ≠ [] ∧ n = 0 ∧ s.active = true) ∨
    (s.waiting = [] ∧ n = 1 ∧ s.active = false)

theorem MInv.init (e i : Bool) : MInv (Mam.init e i) 0 := by
  refine ⟨rfl, by simp [Mam.init], ?_, ?_, ?_, ?_⟩ <;> simp [Mam.init]

theorem step_minv (s : St) (n : Nat) (op : Op) (h : MInv s n) :
    MInv (step s op).1 (n + finishes (step s op).2) := by
  cases op with
  | start =>
    simp only [step]
    split
    · simpa using h
    · rename_i hs
      have hs' : s.started = false := by simpa using hs
      have hna : s.answered = false := by
        cases ha : s.answered with
        | false => rfl
        | true => have := h.ans ha; rw [hs'] at this; cases this
      refine ⟨h.jobs_eq, h.nodup, by simp, by simp, ?_, ?_⟩
      · intro _; simpa using h.fresh hna
      · intro ha; simp only at ha; rw [hna] at ha; cases ha
  | collect mine enc =>
    simp only [step]
    split
    · exact ⟨h.jobs_eq, h.nodup, h.act, h.ans, by simpa using h.fresh, by simpa using h.state⟩
    · have : finishes [Ev.signalled] = 0 := rfl
      rw [this]; simpa using h
  | iqError =>
    simp only [step]
    split
    · simpa using h
    · rename_i hc
      have hc' : s.active = true ∧ s.answered = false := by simpa [not_or] using hc
      have hfr := h.fresh hc'.2
      have : finishes [Ev.finishedErr] = 1 := rfl
      rw [this]
      refine ⟨h.jobs_eq, h.nodup, by simp, fun _ => h.act hc'.1, by simp, ?_⟩
      intro _
      right
      exact ⟨hfr.1, by omega, rfl⟩
  | iqResult =>
    simp only [step]
    split
    · simpa using h
    · rename_i hc
      have hc' : s.active = true ∧ s.answered = false := by simpa [not_or] using hc
      have hfr := h.fresh hc'.2
      have hst := h.act hc'.1
      split
      · split
        · -- empty page: finished at once
          have : finishes [Ev.finishedOk 0] = 1 := rfl
          rw [this]
          refine ⟨h.jobs_eq, h.nodup, by simp, fun _ => hst, by simp, ?_⟩
          intro _; right; exact ⟨hfr.1, by omega, rfl⟩
        · rename_i hm
          -- the loop
          have hj : ({ s with answered := true, jobs := s.msgs.length, page := s.msgs.length } : St).jobs
              = s.msgs.length + ({ s with answered := true, jobs := s.msgs.length, page := s.msgs.length } : St).waiting.length := by
            simp [hfr.1]
          obtain ⟨h1, ⟨extra, h2, _, h4⟩, h5, h6, h7⟩ :=
            loop_spec s.msgs { s with answered := true, jobs := s.msgs.length, page := s.msgs.length } 0 hj hc'.1
          have h2' := h2.trans (show s.waiting ++ extra = extra by rw [hfr.1]; rfl)
          refine ⟨h1, by rw [h2']; exact h4, ?_, ?_, ?_, ?_⟩
          · intro _; rw [h5.started]; exact hst
          · intro _; rw [h5.started]; exact hst
          · intro ha; rw [h5.answered] at ha; cases ha
          · intro _
            by_cases hw : (loop { s with answered := true, jobs := s.msgs.length, page := s.msgs.length } s.msgs 0).1.waiting = []
            · have := h6 ⟨hw, hm⟩
              right
              exact ⟨hw, by omega, this.2⟩
            · have := h7 (Or.inl hw)
              left
              exact ⟨hw, by omega, this.2⟩
      · have : finishes [Ev.finishedOk s.msgs.length] = 1 := rfl
        rw [this]
        refine ⟨h.jobs_eq, h.nodup, by simp, fun _ => hst, by simp, ?_⟩
        intro _; right; exact ⟨hfr.1, by omega, rfl⟩
  | decrypted i =>
    simp only [step]
    split
    · rename_i hi
      have hans : s.answered = true := by
        cases ha : s.answered with
        | true => rfl
        | false => have := (h.fresh ha).1; rw [this] at hi; cases hi
      have hcase : n = 0 ∧ s.active = true := by
        rcases h.state hans with h1 | h1
        · exact ⟨h1.2.1, h1.2.2⟩
        · rw [h1.1] at hi; cases hi
      have hlen := removeIdx_length h.nodup hi
      have hnd : (removeIdx s.waiting i).Nodup := List.Nodup.sublist (removeIdx_sublist _ _) h.nodup
      unfold jobDone
      simp only
      split
      · rename_i hz
        have hz' : s.jobs - 1 = 0 := hz
        have hw : removeIdx s.waiting i = [] := by
          apply List.eq_nil_of_length_eq_zero
          have := h.jobs_eq
          omega
        have : finishes [Ev.finishedOk s.page] = 1 := rfl
        rw [this]
        refine ⟨by simp [hw, hz'], by simp [hw], by simp, fun _ => h.ans hans, ?_, ?_⟩
        · intro ha; simp only at ha; rw [hans] at ha; cases ha
        · intro _; right; exact ⟨hw, by omega, rfl⟩
      · rename_i hz
        have hz' : s.jobs - 1 ≠ 0 := hz
        have hw : removeIdx s.waiting i ≠ [] := by
          intro hw
          rw [hw] at hlen
          have := h.jobs_eq
          simp only [List.length_nil] at hlen
          omega
        refine ⟨?_, hnd, fun _ => h.ans hans, fun _ => h.ans hans, ?_, ?_⟩
        · show s.jobs - 1 = (removeIdx s.waiting i).length
          have := h.jobs_eq
          omega
        · intro ha; simp only at ha; rw [hans] at ha; cases ha
        · intro _; left; exact ⟨hw, by simpa using hcase.1, hcase.2⟩
    · simpa using h

theorem run_minv (ops : List Op) : ∀ (s : St) (n : Nat), MInv s n →
    MInv (run s ops).1 (n + finishes (run s ops).2) := by
  induction ops with
  | nil => intro s n h; simpa [run] using h
  | cons op rest ih =>
    intro s n h
    simp only [run, finishes_append]
    have := ih _ _ (step_minv s n op h)
    simpa [Nat.add_assoc] using this

theorem reachable_minv (e i : Bool) (ops : List Op) :
    MInv (run (Mam.init e i) ops).1 (finishes (run (Mam.init e i) ops).2) := by
  have := run_minv ops _ _ (MInv.init e i)
  simpa using this

end Qx.C07.Mam

namespace Qx.C07

theorem run_append (a b : List Op) : ∀ (s : St),
    run s (a ++ b) = ((run (run s a).1 b).1, (run s a).2 ++ (run (run s a).1 b).2) := by
  induction a with
  | nil => intro s; simp [run]
  | cons op rest ih => intro s; simp [run, ih, List.append_assoc]

/-- a table entry of a later state is an entry of the earlier state or was registered by one of
the operations in between, which fixes its request number and its addressee -/
theorem run_new (ops : List Op) : ∀ (s : St) {e : Entry}, e ∈ (run s ops).1.tbl →
    e ∈ s.tbl ∨ (e.to ≠ "" ∧ e.id ≠ .named "" ∧ ∃ pre op post, ops = pre ++ op :: post ∧
      e.req = (run s pre).1.nreq ∧
      ((∃ id to, op = .send id to ∧ e.to = (if to = "" then (run s pre).1.own else to)) ∨
       (∃ to, op = .sendRaw e.id to ∧ e.to = to))) := by
  induction ops with
  | nil => intro s e he; exact Or.inl he
  | cons op rest ih =>
    intro s e he
    simp only [run] at he
    rcases ih (step s op).1 he with h | ⟨h1, h2, pre, op', post, h3, h4, h5⟩
    · rcases step_new h with h' | ⟨g1, g2, g3, g4⟩
      · exact Or.inl h'
      · exact Or.inr ⟨g2, g3, [], op, rest, rfl, by simpa [run] using g1, by simpa [run] using g4⟩
    · right
      exact ⟨h1, h2, op :: pre, op', post, by simp [h3], by simpa [run] using h4, by simpa [run] using h5⟩

theorem finish_own (s : St) (id : Id) (how : How) : (finish s id how).1.own = s.own := by
  unfold finish; split <;> rfl

theorem failList_own (l : List Id) : ∀ (s : St), (failList s l).1.own = s.own := by
  induction l with
  | nil => intro s; rfl
  | cons id rest ih => intro s; simp [failList, ih, finish_own]

theorem sendRaw_own (s : St) (id : Id) (to : String) : (sendRaw s id to).1.own = s.own := by
  unfold sendRaw
  simp only
  split
  · rfl
  · split
    · rfl
    · split
      · rfl
      · split
        · rfl
        · simp [finish_own]

theorem recv_own (s : St) (st : Stanza) : (recv s st).1.own = s.own := by
  unfold recv
  split
  · rfl
  · split
    · rfl
    · split
      · rfl
      · split <;> rfl

theorem step_own (s : St) (op : Op) : (step s op).1.own = s.own := by
  unfold step
  split
  · rfl
  · cases op with
    | send id to => simp [send, sendRaw_own]
    | sendRaw id to => simp [sendRaw_own]
    | sendFails id => simp [finish_own]
    | failAll => simp [failList_own]
    | ackAll => simp only; split <;> rfl
    | enableSm => rfl
    | setSock b => rfl
    | recv st =>
      simp only
      split
      · unfold streamError; split <;> rfl
      · exact recv_own s st
    | sessionOpened r _e => simp only; split <;> rfl
    | sessionClosed c => simp only; split <;> rfl
    | destroy => simp [cancelAll, failList_own]

theorem run_own (ops : List Op) : ∀ (s : St), (run s ops).1.own = s.own := by
  induction ops with
  | nil => intro s; rfl
  | cons op rest ih => intro s; simp [run, ih, step_own]

/-- for a permutation of `0 … n-1`, every number below `n` occurs exactly once -/
theorem count_of_perm_range {l : List Nat} {n q : Nat} (h : l.Perm (List.range n)) (hq : q < n) :
    l.count q = 1 := by
  rw [h.count_eq]
  have h1 : (List.range n).count q ≤ 1 := List.nodup_iff_count.mp List.nodup_range q
  have h2 : 0 < (List.range n).count q := List.count_pos_iff.mpr (List.mem_range.mpr hq)
  omega

end Qx.C07

/-! ### `chain` on the task model of C13

`chain(source, context, convert)` creates a promise and attaches one continuation (empty re-entrant
body) to `source`; the new promise is finished each time that continuation runs.  The continuation
gets the id `s.nextId` of the source's state `s` at the moment of the call. -/
namespace Qx.C07Chain
open Qx.C13

/-- how many times the promise returned by `chain` is finished, given the events of the source task
from the `then` call on; `k` = id of the continuation `chain` attached -/
def finishes (evs : List Ev) (k : Nat) : Nat := (ranIds evs).count k

/-- what may happen to the source between the `chain` call and its `finish`, given `refs` handles at
the start: handle copies, handle drops that leave at least one handle (the request table keeps the
promise until it finishes it), destruction of contexts other than the chain's.  Excluded: another
`then` on the same task (it would replace the chain's continuation — `chain` consumes its task
handle), destruction of the chain's own context, and dropping the last handle. -/
def Interlude (ctx : Nat) : Nat → List Op → Prop
  | _, [] => True
  | refs, .copyHandle :: rest => Interlude ctx (refs + 1) rest
  | refs, .dropHandle :: rest => 2 ≤ refs ∧ Interlude ctx (refs - 1) rest
  | refs, .destroyCtx c :: rest => c ≠ ctx ∧ Interlude ctx refs rest
  | _, _ :: _ => False

theorem run_append (a b : List Op) : ∀ (s : St),
    C13.run s (a ++ b) = ((C13.run (C13.run s a).1 b).1, (C13.run s a).2 ++ (C13.run (C13.run s a).1 b).2) := by
  induction a with
  | nil => intro s; simp [C13.run]
  | cons op rest ih => intro s; simp [C13.run, ih, List.append_assoc]

theorem step_fst (s : St) (op : Op) : (C13.step s op).1 = (C13.stepCore s op).1 := by
  unfold C13.step; simp only; split <;> rfl

theorem mem_step_of_mem_core {s : St} {op : Op} {e : Ev} (h : e ∈ (C13.stepCore s op).2) :
    e ∈ (C13.step s op).2 := by
  unfold C13.step; simp only; split
  · exact List.mem_append.mpr (Or.inl h)
  · exact h

/-- a step that leaves a handle alive reports exactly the events of its core -/
theorem step_snd_of_refs {s : St} {op : Op} (h : (C13.stepCore s op).1.refs ≠ 0) :
    (C13.step s op).2 = (C13.stepCore s op).2 := by
  unfold C13.step; simp only; split
  · rename_i hc; exact absurd hc.2 h
  · rfl

/-- the attached, not yet run continuation waits: source unfinished, referenced, context alive -/
structure Waiting (s : St) (c : Cont) : Prop where
  refs : s.refs ≠ 0
  unfinished : s.finished = false
  cont : s.cont = some c
  alive : s.alive c.ctx = true

theorem quiet_run (quiet : List Op) : ∀ {s : St} {c : Cont}, Waiting s c → Interlude c.ctx s.refs quiet →
    Waiting (C13.run s quiet).1 c ∧ (C13.run s quiet).2 = [] := by
  induction quiet with
  | nil => intro s c h _; exact ⟨h, rfl⟩
  | cons op rest ih =>
    intro s c h hq
    simp only [C13.run]
    have hr := h.refs
    cases op with
    | copyHandle =>
      simp only [Interlude] at hq
      have hcore : C13.stepCore s .copyHandle = ({ s with refs := s.refs + 1 }, []) := by
        simp [C13.stepCore, hr]
      have hrefs : (C13.stepCore s .copyHandle).1.refs ≠ 0 := by rw [hcore]; simp
      have hw : Waiting (C13.step s .copyHandle).1 c := by
        rw [step_fst, hcore]; exact ⟨by simp, h.unfinished, h.cont, h.alive⟩
      have hq' : Interlude c.ctx (C13.step s .copyHandle).1.refs rest := by
        rw [step_fst, hcore]; exact hq
      obtain ⟨h2, e2⟩ := ih hw hq'
      exact ⟨h2, by rw [step_snd_of_refs hrefs, hcore, e2]; rfl⟩
    | dropHandle =>
      simp only [Interlude] at hq
      have h2le := hq.1
      have hcore : C13.stepCore s .dropHandle = ({ s with refs := s.refs - 1 }, []) := by
        have h1 : s.refs ≠ 1 := by omega
        simp [C13.stepCore, hr, h1]
      have hrefs : (C13.stepCore s .dropHandle).1.refs ≠ 0 := by rw [hcore]; show s.refs - 1 ≠ 0; omega
      have hw : Waiting (C13.step s .dropHandle).1 c := by
        rw [step_fst, hcore]; exact ⟨by show s.refs - 1 ≠ 0; omega, h.unfinished, h.cont, h.alive⟩
      have hq' : Interlude c.ctx (C13.step s .dropHandle).1.refs rest := by
        rw [step_fst, hcore]; exact hq.2
      obtain ⟨h2, e2⟩ := ih hw hq'
      exact ⟨h2, by rw [step_snd_of_refs hrefs, hcore, e2]; rfl⟩
    | destroyCtx c' =>
      simp only [Interlude] at hq
      have hne := hq.1
      have hcore : C13.stepCore s (.destroyCtx c') =
          ({ s with dead := if c' = 0 then s.dead else c' :: s.dead }, []) := by
        simp [C13.stepCore]
      have hrefs : (C13.stepCore s (.destroyCtx c')).1.refs ≠ 0 := by rw [hcore]; exact hr
      have hw : Waiting (C13.step s (.destroyCtx c')).1 c := by
        rw [step_fst, hcore]
        refine ⟨hr, h.unfinished, h.cont, ?_⟩
        have ha := h.alive
        simp only [St.alive] at ha ⊢
        split
        · exact ha
        · simp only [List.contains_cons, Bool.not_or, Bool.and_eq_true]
          refine ⟨?_, ha⟩
          simp only [Bool.not_eq_true', beq_eq_false_iff_ne, ne_eq]
          exact fun h' => hne h'.symm
      have hq' : Interlude c.ctx (C13.step s (.destroyCtx c')).1.refs rest := by
        rw [step_fst, hcore]; exact hq.2
      obtain ⟨h2, e2⟩ := ih hw hq'
      exact ⟨h2, by rw [step_snd_of_refs hrefs, hcore, e2]; rfl⟩
    | _ => exact absurd hq (by simp [Interlude])

/-- the chain's continuation runs when the source is finished after any quiet interlude -/
theorem runs_at_finish {s : St} {ctx : Nat} (quiet post : List Op) (v : Nat)
    (hr : s.refs ≠ 0) (hf : s.finished = false) (ha : s.alive ctx = true)
    (hq : Interlude ctx s.refs quiet) :
    s.nextId ∈ ranIds (C13.run s (.thenOp ctx [] :: (quiet ++ .finish v :: post))).2 := by
  have heff : s.effCtx ctx = ctx := by simp [St.effCtx, ha]
  have hcore : C13.stepCore s (.thenOp ctx []) =
      ({ s with nextId := s.nextId + 1, cont := some { id := s.nextId, ctx := ctx, body := [] } }, []) := by
    simp [C13.stepCore, hr, hf, heff]
  have hrefs : (C13.stepCore s (.thenOp ctx [])).1.refs ≠ 0 := by rw [hcore]; exact hr
  have hstep1 : (C13.step s (.thenOp ctx [])).1 =
      { s with nextId := s.nextId + 1, cont := some { id := s.nextId, ctx := ctx, body := [] } } := by
    rw [step_fst, hcore]
  have hstep2 : (C13.step s (.thenOp ctx [])).2 = [] := by
    rw [step_snd_of_refs hrefs, hcore]
  have hw : Waiting (C13.step s (.thenOp ctx [])).1 { id := s.nextId, ctx := ctx, body := [] } := by
    rw [hstep1]
    exact ⟨hr, hf, rfl, ha⟩
  obtain ⟨hw2, e2⟩ := quiet_run quiet hw (by rw [hstep1]; exact hq)
  have hfin := Qx.C13.finish_delivers_to_attached (C13.run (C13.step s (.thenOp ctx [])).1 quiet).1
    { id := s.nextId, ctx := ctx, body := [] } v hw2.refs hw2.unfinished hw2.cont hw2.alive
  have hmem := mem_step_of_mem_core (List.mem_of_mem_head? hfin.1)
  simp only [C13.run, run_append, hstep2, List.nil_append]
  rw [e2, List.nil_append, ranIds_append, List.mem_append]
  left
  simp only [ranIds, List.mem_filterMap]
  exact ⟨_, hmem, rfl⟩

end Qx.C07Chain

namespace Qx.C07.Neg

theorem run_append (a b : List Op) : ∀ (s : St),
    run s (a ++ b) = ((run (run s a).1 b).1, (run s a).2 ++ (run (run s a).1 b).2) := by
  induction a with
  | nil => intro s; simp [run]
  | cons op rest ih => intro s; simp [run, ih, List.append_assoc]

theorem step_deadEmpty (s : St) (op : Op) (h : DeadEmpty s.base) : DeadEmpty (step s op).1.base := by
  cases op with
  | base op => exact C07.step_deadEmpty s.base op h
  | connect sm rn r => exact C07.run_deadEmpty _ s.base h
  | loss => exact C07.run_deadEmpty _ s.base h
  | disconnect => exact C07.run_deadEmpty _ s.base h

theorem run_deadEmpty (ops : List Op) : ∀ (s : St), DeadEmpty s.base → DeadEmpty (run s ops).1.base := by
  induction ops with
  | nil => intro s h; exact h
  | cons op rest ih => intro s h; simp only [run]; exact ih _ (step_deadEmpty s op h)

/-- request-table operations inside a session do not touch the client's belief -/
theorem run_base_canResume (mid : List C07.Op) : ∀ (s : St),
    (run s (mid.map .base)).1.canResume = s.canResume := by
  induction mid with
  | nil => intro s; rfl
  | cons op rest ih => intro s; simp only [List.map_cons, run]; rw [ih]; rfl

/-- a loss the client does not believe resumable empties the table -/
theorem loss_empties (s : St) (hde : DeadEmpty s.base) (hc : s.canResume = false) :
    (step s .loss).1.base.tbl = [] := by
  cases hd : s.base.dead with
  | true =>
    have := hde hd
    simp [step, C07.run, C07.step, hd, this]
  | false => simp [step, C07.run, C07.step, hd, hc, cancelAll]

end Qx.C07.Neg

namespace Qx.C07.Blocklist

theorem calls_append (a b : List Ev) : calls (a ++ b) = calls a ++ calls b := by simp [calls]

/-- every call made so far is waiting exactly once or has completed exactly once -/
def Inv (s : St) (log : List Ev) : Prop := (s.waiting ++ calls log).Perm (List.range s.ncalls)

theorem step_inv (s : St) (op : Op) {log : List Ev} (h : Inv s log) :
    Inv (step s op).1 (log ++ (step s op).2) := by
  unfold Inv at h ⊢
  have hmap : ∀ (w : List Nat) (ok : Bool), calls (w.map fun n => (⟨n, ok⟩ : Ev)) = w := by
    intro w ok; simp [calls, List.map_map, Function.comp_def]
  cases op with
  | fetch =>
    simp only [step]
    split
    · rw [calls_append, List.range_succ, ← List.append_assoc]
      exact List.Perm.append_right _ h
    · simp only [List.append_nil]
      rw [List.range_succ]
      have p1 : (s.waiting ++ [s.ncalls] ++ calls log).Perm ((s.waiting ++ calls log) ++ [s.ncalls]) := by
        rw [List.append_assoc, List.append_assoc]
        exact List.Perm.append_left _ List.perm_append_comm
      exact p1.trans (List.Perm.append_right _ h)
  | iqDone ok =>
    simp only [step]
    split
    · simpa using h
    · simp only [calls_append, hmap, List.nil_append]
      exact List.perm_append_comm.trans h
  | newSession =>
    simp only [step, calls_append, hmap, List.nil_append]
    exact List.perm_append_comm.trans h
  | resumedSession => simpa [step] using h

theorem run_inv (ops : List Op) : ∀ (s : St) {log : List Ev}, Inv s log →
    Inv (run s ops).1 (log ++ (run s ops).2) := by
  induction ops with
  | nil => intro s log h; simpa [run] using h
  | cons op rest ih =>
    intro s log h
    simp only [run]
    have := ih _ (step_inv s op h)
    simpa [List.append_assoc] using this

theorem reachable_inv (ops : List Op) : Inv (run init ops).1 (run init ops).2 := by
  have := run_inv ops init (log := []) (by simp [Inv, init, calls])
  simpa using this

end Qx.C07.Blocklist

namespace Qx.C07.Sensitive

def isFinish : Ev → Bool := fun _ => true
def finishes (l : List Ev) : Nat := l.length

/-- finished exactly when the pipeline has ended -/
def Inv (s : St) (n : Nat) : Prop := (s.stage = .done → n = 1) ∧ (s.stage ≠ .done → n = 0)

theorem step_inv (s : St) (n : Nat) (op : Op) (h : Inv s n) :
    Inv (step s op).1 (n + finishes (step s op).2) := by
  unfold Inv at h ⊢
  cases op with
  | start =>
    simp only [step]
    split
    · rename_i hc
      have : s.stage ≠ .done := by rw [hc.1]; decide
      exact ⟨(by intro h'; cases h'), fun _ => by simpa [finishes] using h.2 this⟩
    · simpa [finishes] using h
  | encDone ok =>
    simp only [step]
    split
    · simpa [finishes] using h
    · rename_i hc
      have hs : s.stage = .encrypting := by simpa using hc
      have h0 : n = 0 := h.2 (by rw [hs]; decide)
      split
      · exact ⟨(by intro h'; cases h'), fun _ => by simp [finishes, h0]⟩
      · exact ⟨fun _ => by simp [finishes, h0], fun h' => absurd rfl h'⟩
  | iqDone r =>
    simp only [step]
    split
    · simpa [finishes] using h
    · rename_i hc
      have hs : s.stage = .sent := by simpa using hc
      have h0 : n = 0 := h.2 (by rw [hs]; decide)
      split
      · exact ⟨(by intro h'; cases h'), fun _ => by simp [finishes, h0]⟩
      · exact ⟨fun _ => by simp [finishes, h0], fun h' => absurd rfl h'⟩
  | decDone r =>
    simp only [step]
    split
    · simpa [finishes] using h
    · rename_i hc
      have hs : s.stage = .decrypting := by simpa using hc
      have h0 : n = 0 := h.2 (by rw [hs]; decide)
      exact ⟨fun _ => by simp [finishes, h0], fun h' => absurd rfl h'⟩
  | dropExtension => simpa [step, finishes] using h

theorem run_inv (ops : List Op) : ∀ (s : St) (n : Nat), Inv s n →
    Inv (run s ops).1 (n + finishes (run s ops).2) := by
  induction ops with
  | nil => intro s n h; simpa [run, finishes] using h
  | cons op rest ih =>
    intro s n h
    simp only [run]
    have := ih _ _ (step_inv s n op h)
    simpa [finishes, Nat.add_assoc] using this

end Qx.C07.Sensitive
