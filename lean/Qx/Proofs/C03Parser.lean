/-
C03 — the Lean XML parser (`Qx/Model/C03Xml.lean`) on the language of `Qx/Model/C03Wf.lean`: completeness with an
arbitrary continuation (`elem_ok`, `kids_ok`) and for whole stream texts (`parse_streamText`).
-/
import Qx.Model.C03Wf
namespace Qx.C03.Xml

/-! character facts -/
theorem nc_sp : isNameChar ' ' = false := by decide
theorem nc_sl : isNameChar '/' = false := by decide
theorem nc_gt : isNameChar '>' = false := by decide
theorem nc_lt : isNameChar '<' = false := by decide
theorem nc_eq : isNameChar '=' = false := by decide
theorem ns_imp_nc (c : Char) (h : isNameStart c = true) : isNameChar c = true := by simp [isNameChar, h]
theorem ws_sl : isXmlWs '/' = false := by decide
theorem ws_gt : isXmlWs '>' = false := by decide
theorem ws_eq : isXmlWs '=' = false := by decide
theorem ws_q : isXmlWs '\'' = false := by decide
theorem ws_lt : isXmlWs '<' = false := by decide
theorem ws_not_nc (c : Char) (h : isNameChar c = true) : isXmlWs c = false := by
  cases hw : isXmlWs c with
  | false => rfl
  | true =>
    simp only [isXmlWs, Bool.or_eq_true, decide_eq_true_eq] at hw
    rcases hw with ((h1 | h1) | h1) | h1 <;> (subst h1; revert h; decide)

theorem takeWhile_all {α} (p : α → Bool) (l r : List α) (h : l.all p = true) (hr : ∀ x r', r = x :: r' → p x = false) :
    (l ++ r).takeWhile p = l ∧ (l ++ r).dropWhile p = r := by
  induction l with
  | nil =>
    cases r with
    | nil => simp
    | cons x r' => simp [List.takeWhile_cons, List.dropWhile_cons, hr x r' rfl]
  | cons x l ih =>
    simp only [List.all_cons, Bool.and_eq_true] at h
    simp [List.takeWhile_cons, List.dropWhile_cons, h.1, ih h.2]

/-- a valid name followed by a non-name character is read back exactly -/
theorem parseName_ok (n r : Str) (hn : okName n = true) (hr : ∀ x r', r = x :: r' → isNameChar x = false) :
    parseName (n ++ r) = some (n, r) := by
  cases n with
  | nil => simp [okName] at hn
  | cons c n =>
    simp only [okName, Bool.and_eq_true] at hn
    obtain ⟨e1, e2⟩ := takeWhile_all isNameChar n r hn.2 hr
    simp [parseName, hn.1, e1, e2]

theorem okName_head (n : Str) (hn : okName n = true) : ∃ c r, n = c :: r ∧ isNameStart c = true := by
  cases n with
  | nil => simp [okName] at hn
  | cons c r => simp only [okName, Bool.and_eq_true] at hn; exact ⟨c, r, rfl, hn.1⟩

theorem skipWs_nonws (c : Char) (r : Str) (h : isXmlWs c = false) : skipWs (c :: r) = c :: r := by
  simp [skipWs, List.dropWhile_cons, h]

/-- attribute value: plain characters up to the closing quote -/
theorem parseAttValue_ok (v : Str) : ∀ (f : Nat) (rest acc : Str), okAttrVal v = true → v.length < f →
    parseAttValue '\'' f (v ++ '\'' :: rest) acc = some (acc.reverse ++ v, rest) := by
  induction v with
  | nil => intro f rest acc _ hf; cases f with
    | zero => omega
    | succ f => simp [parseAttValue]
  | cons c v ih =>
    intro f rest acc hv hf
    cases f with
    | zero => omega
    | succ f =>
      simp only [okAttrVal, List.all_cons, Bool.and_eq_true, bne_iff_ne, ne_eq] at hv
      obtain ⟨⟨⟨⟨h1, h2⟩, h3⟩, h4⟩, hv'⟩ := hv
      have := ih f rest (c :: acc) (by simpa [okAttrVal] using hv') (by simp at hf; omega)
      simp only [List.cons_append, parseAttValue, h4, h1, h2, if_false]
      rw [this]; simp

/-- attributes in the canonical layout ` k='v'`, then `>` or `/>` -/
theorem parseAttrs_ok (as : List (Str × Str)) : ∀ (f : Nat) (acc : List (Str × Str)) (sc : Bool) (z : Str),
    okAttrs as = true → as.length < f →
    parseAttrs f (renderAttrs as ++ (if sc then '/' :: '>' :: z else '>' :: z)) acc = some (acc.reverse ++ as, sc, z) := by
  induction as with
  | nil =>
    intro f acc sc z _ hf
    cases f with
    | zero => omega
    | succ f =>
      cases sc
      · simp [renderAttrs, parseAttrs, skipWs_nonws _ _ ws_gt]
      · simp [renderAttrs, parseAttrs, skipWs_nonws _ _ ws_sl]
  | cons a as ih =>
    intro f acc sc z hok hf
    obtain ⟨k, v⟩ := a
    cases f with
    | zero => omega
    | succ f =>
      simp only [okAttrs, List.all_cons, Bool.and_eq_true] at hok
      obtain ⟨⟨hk, hv⟩, hrest⟩ := hok
      obtain ⟨c, kr, hkc, hc⟩ := okName_head k hk
      subst hkc
      have hcw : isXmlWs c = false := ws_not_nc c (ns_imp_nc c hc)
      have hcs : c ≠ '/' := by intro h; subst h; revert hc; decide
      have hcg : c ≠ '>' := by intro h; subst h; revert hc; decide
      generalize htail : (renderAttrs as ++ (if sc then '/' :: '>' :: z else '>' :: z)) = tail at *
      have hrender : renderAttrs ((c :: kr, v) :: as) ++ (if sc then '/' :: '>' :: z else '>' :: z) =
          ' ' :: c :: (kr ++ ('=' :: '\'' :: (v ++ '\'' :: tail))) := by
        rw [← htail]; simp [renderAttrs, List.flatMap_cons]
      rw [hrender]
      have hsk : skipWs (' ' :: c :: (kr ++ ('=' :: '\'' :: (v ++ '\'' :: tail))))
          = c :: (kr ++ ('=' :: '\'' :: (v ++ '\'' :: tail))) := by
        simp only [skipWs, List.dropWhile_cons]
        rw [if_pos (by decide)]
        simp [hcw]
      have hpn := parseName_ok (c :: kr) ('=' :: '\'' :: (v ++ '\'' :: tail)) hk
        (by intro x r' h; simp only [List.cons.injEq] at h; rw [← h.1]; exact nc_eq)
      have hpv := parseAttValue_ok v ((v ++ '\'' :: tail).length + 1) tail [] hv (by simp; omega)
      have hih := ih f ((c :: kr, v) :: acc) sc z (by simpa [okAttrs] using hrest) (by simp at hf; omega)
      rw [htail] at hih
      unfold parseAttrs
      rw [hsk]
      simp only [List.cons_append] at hpn
      split
      · rename_i heq; simp only [List.cons.injEq] at heq; exact absurd heq.1 hcs
      · rename_i heq; simp only [List.cons.injEq] at heq; exact absurd heq.1 hcg
      · rw [hpn]
        simp only [skipWs_nonws _ _ ws_eq, skipWs_nonws _ _ ws_q]
        simp only [List.nil_append, List.reverse_nil] at hpv
        simp only [Bool.or_eq_true, decide_eq_true_eq, true_or, if_true, hpv]
        rw [hih]
        simp

theorem parseContent_char (f : Nat) (scope : List (Str × Str)) (q : Str) (c : Char) (r : Str) (acc : List Node) (txt : Str)
    (h : okTextChar c = true) :
    parseContent (f + 1) scope q (c :: r) acc txt = parseContent f scope q r acc (c :: txt) := by
  simp only [okTextChar, Bool.and_eq_true, bne_iff_ne, ne_eq] at h
  obtain ⟨⟨h1, h2⟩, h3⟩ := h
  conv => lhs; unfold parseContent
  split <;> simp_all

theorem parseContent_text (s : Str) : ∀ (f : Nat) (scope : List (Str × Str)) (q r : Str) (acc : List Node) (txt : Str),
    s.all okTextChar = true →
    parseContent (f + s.length) scope q (s ++ r) acc txt = parseContent f scope q r acc (s.reverse ++ txt) := by
  induction s with
  | nil => intro f scope q r acc txt _; simp
  | cons c s ih =>
    intro f scope q r acc txt h
    simp only [List.all_cons, Bool.and_eq_true] at h
    have : f + (c :: s).length = (f + s.length) + 1 := by simp; omega
    rw [this, List.cons_append, parseContent_char _ _ _ _ _ _ _ h.1, ih _ _ _ _ _ _ h.2]
    simp

theorem parseContent_end (f : Nat) (scope : List (Str × Str)) (q z : Str) (acc : List Node) (txt : Str)
    (hq : okName q = true) :
    parseContent (f + 1) scope q ('<' :: '/' :: (q ++ '>' :: z)) acc txt = some ((flushText acc txt).reverse, z) := by
  have hpn := parseName_ok q ('>' :: z) hq (by intro x r' h; simp only [List.cons.injEq] at h; rw [← h.1]; exact nc_gt)
  unfold parseContent
  simp [hpn, skipWs_nonws _ _ ws_gt]

theorem parseContent_child (f : Nat) (scope : List (Str × Str)) (q : Str) (c : Char) (r : Str) (acc : List Node) (txt : Str)
    (hc : c ≠ '/') (n : Node) (r1 : Str) (h : parseElem f scope (c :: r) = some (n, r1)) :
    parseContent (f + 1) scope q ('<' :: c :: r) acc txt = parseContent f scope q r1 (n :: flushText acc txt) [] := by
  rw [parseContent]
  · simp [h]
  · intro r' hr; simp only [List.cons.injEq] at hr; exact hc hr.1

theorem parseContent_child_none (f : Nat) (scope : List (Str × Str)) (q : Str) (c : Char) (r : Str) (acc : List Node) (txt : Str)
    (hc : c ≠ '/') (h : parseElem f scope (c :: r) = none) :
    parseContent (f + 1) scope q ('<' :: c :: r) acc txt = none := by
  rw [parseContent]
  · simp [h]
  · intro r' hr; simp only [List.cons.injEq] at hr; exact hc hr.1

theorem renderAttrs_head (as : List (Str × Str)) (tail : Str) (ht : ∀ x r', tail = x :: r' → isNameChar x = false) :
    ∀ x r', renderAttrs as ++ tail = x :: r' → isNameChar x = false := by
  cases as with
  | nil => simpa [renderAttrs] using ht
  | cons a as =>
    intro x r' h
    simp only [renderAttrs, List.flatMap_cons, List.cons_append, List.cons.injEq] at h
    rw [← h.1]; exact nc_sp

theorem attrs_len (as : List (Str × Str)) : as.length ≤ (renderAttrs as).length := by
  induction as with
  | nil => simp
  | cons a as ih => simp [renderAttrs, List.flatMap_cons] at ih ⊢; omega

mutual
/-- **Completeness of the Lean parser on rendered elements**, with an arbitrary continuation `z` -/
theorem elem_ok (n : Str) (as : List (Str × Str)) (ks : List X) (sc : Bool) (h : wf (.elem n as ks sc) = true)
    (scope : List (Str × Str)) (z : Str) (f : Nat) (hf : ((render (.elem n as ks sc)).tail ++ z).length ≤ f) :
    parseElem f scope ((render (.elem n as ks sc)).tail ++ z) = some (toNode scope (.elem n as ks sc), z) := by
  simp only [wf, Bool.and_eq_true, Bool.or_eq_true, Bool.not_eq_true', List.isEmpty_iff] at h
  obtain ⟨⟨⟨hn, has⟩, hks⟩, hsc⟩ := h
  obtain ⟨c0, nr0, hn0, _⟩ := okName_head n hn
  cases f with
  | zero => subst hn0; simp [render] at hf; split at hf <;> simp at hf
  | succ f =>
    cases sc with
    | true =>
      have hk : ks = [] := by simpa using hsc
      subst hk
      have e : (render (.elem n as [] true)).tail ++ z = n ++ (renderAttrs as ++ (if true then '/' :: '>' :: z else '>' :: z)) := by
        simp [render]
      rw [e]
      have hpn := parseName_ok n (renderAttrs as ++ (if true then '/' :: '>' :: z else '>' :: z)) hn
        (renderAttrs_head as _ (by intro x r' hx; simp only [if_true, List.cons.injEq] at hx; rw [← hx.1]; exact nc_sl))
      have hpa := parseAttrs_ok as ((renderAttrs as ++ (if true then '/' :: '>' :: z else '>' :: z)).length + 1) [] true z has
        (by have := attrs_len as; simp; omega)
      simp only [if_true] at hpn hpa
      unfold parseElem
      simp only [if_true, hpn, hpa]
      simp [toNode, kidNodes, flushText, allSpace]
    | false =>
      have e : (render (.elem n as ks false)).tail ++ z =
          n ++ (renderAttrs as ++ (if false then '/' :: '>' :: (renderList ks ++ '<' :: '/' :: (n ++ '>' :: z)) else '>' :: (renderList ks ++ '<' :: '/' :: (n ++ '>' :: z)))) := by
        simp [render]
      rw [e]
      have hpn := parseName_ok n (renderAttrs as ++ (if false then '/' :: '>' :: (renderList ks ++ '<' :: '/' :: (n ++ '>' :: z)) else '>' :: (renderList ks ++ '<' :: '/' :: (n ++ '>' :: z)))) hn
        (renderAttrs_head as _ (by intro x r' hx; simp only [Bool.false_eq_true, if_false, List.cons.injEq] at hx; rw [← hx.1]; exact nc_gt))
      have hpa := parseAttrs_ok as ((renderAttrs as ++ (if false then '/' :: '>' :: (renderList ks ++ '<' :: '/' :: (n ++ '>' :: z)) else '>' :: (renderList ks ++ '<' :: '/' :: (n ++ '>' :: z)))).length + 1) [] false
        (renderList ks ++ '<' :: '/' :: (n ++ '>' :: z)) has (by have := attrs_len as; simp; omega)
      have hk := kids_ok ks hks (pushDecls scope as) n [] [] z f hn (by
        simp [render] at hf; simp; omega)
      simp only [Bool.false_eq_true, if_false] at hpn hpa
      unfold parseElem
      simp only [Bool.false_eq_true, if_false, hpn, hpa]
      simp only [List.reverse_nil, List.nil_append, Bool.false_eq_true, if_false]
      rw [hk]
      simp [toNode]
termination_by sizeOf (X.elem n as ks sc)
decreasing_by all_goals (simp_wf; try omega)

/-- … and on rendered content up to the end tag of the enclosing element `q` -/
theorem kids_ok : (ks : List X) → wfList ks = true → ∀ (scope : List (Str × Str)) (q : Str) (acc : List Node) (txt z : Str) (f : Nat),
    okName q = true → (renderList ks ++ '<' :: '/' :: (q ++ '>' :: z)).length ≤ f →
    parseContent f scope q (renderList ks ++ '<' :: '/' :: (q ++ '>' :: z)) acc txt = some (kidNodes scope ks acc txt, z)
  | [], _, scope, q, acc, txt, z, f, hq, hf => by
    cases f with
    | zero => simp at hf
    | succ f => simp only [renderList, List.nil_append, kidNodes]; exact parseContent_end f scope q z acc txt hq
  | .text s :: ks, h, scope, q, acc, txt, z, f, hq, hf => by
    simp only [wfList, wf, Bool.and_eq_true] at h
    simp only [renderList, render, List.append_assoc, List.length_append] at hf ⊢
    obtain ⟨f', rfl⟩ : ∃ f', f = f' + s.length := ⟨f - s.length, by omega⟩
    rw [parseContent_text s f' scope q _ acc txt h.1]
    simp only [kidNodes]
    exact kids_ok ks h.2 scope q acc (s.reverse ++ txt) z f' hq (by simp only [List.length_append]; omega)
  | .elem n as ks' sc :: ks, h, scope, q, acc, txt, z, f, hq, hf => by
    simp only [wfList, Bool.and_eq_true] at h
    have hwf := h.1
    simp only [wf, Bool.and_eq_true] at hwf
    obtain ⟨c, nr, hnc, hc⟩ := okName_head n hwf.1.1.1
    have hcs : c ≠ '/' := by intro h'; subst h'; revert hc; decide
    have hr : ∃ t, render (.elem n as ks' sc) = '<' :: c :: t ∧ (render (.elem n as ks' sc)).tail = c :: t := by
      subst hnc; simp only [render]; split <;> exact ⟨_, rfl, rfl⟩
    obtain ⟨t, hr1, hr2⟩ := hr
    have hlen : (renderList (X.elem n as ks' sc :: ks) ++ '<' :: '/' :: (q ++ '>' :: z)).length =
        t.length + 2 + (renderList ks ++ '<' :: '/' :: (q ++ '>' :: z)).length := by
      simp only [renderList, List.append_assoc, hr1, List.cons_append, List.length_cons, List.length_append]; omega
    rw [hlen] at hf
    cases f with
    | zero => omega
    | succ f =>
      have he := elem_ok n as ks' sc h.1 scope (renderList ks ++ '<' :: '/' :: (q ++ '>' :: z)) f (by
        rw [List.length_append, hr2]; simp only [List.length_cons]; omega)
      rw [hr2] at he
      simp only [renderList, List.append_assoc]
      rw [hr1]
      simp only [List.cons_append] at he ⊢
      rw [parseContent_child f scope q c _ acc txt hcs _ _ he]
      simp only [kidNodes]
      have hf2 : (renderList ks ++ ('<' :: '/' :: (q ++ '>' :: z))).length ≤ f := by
        omega
      exact kids_ok ks h.2 scope q _ [] z f hq hf2
termination_by ks => sizeOf ks
decreasing_by all_goals (simp_wf; try omega)
end

def streamName : Str := "stream:stream".toList

theorem streamName_ok : okName streamName = true := by decide
theorem streamName_eq : streamName = 's' :: "tream:stream".toList := by decide
theorem decl_not_prefix (t : Str) : ("<?xml".toList).isPrefixOf ('<' :: 's' :: t) = false := rfl

/-- the text of a whole stream (or of any prefix that ends on an item boundary, closed by the synthetic or the real
closing tag): header with attributes `hattrs`, top-level nodes `body`, `</stream:stream>` -/
def streamText (hattrs : List (Str × Str)) (body : List X) : Str :=
  render (.elem streamName hattrs body false)

/-- **Completeness of the Lean parser at item boundaries.**  For every header (well-formed attributes) and every
list of well-formed top-level nodes, the parser accepts header ++ nodes ++ `</stream:stream>` and returns exactly the
canonical root and the canonical forms of the top-level ELEMENTS, in order (white-space-only character data between
them is dropped). -/
theorem parse_streamText (hattrs : List (Str × Str)) (body : List X)
    (hh : okAttrs hattrs = true) (hb : wfList body = true) :
    parse (streamText hattrs body) =
      some { root := String.ofList (canon false (toNode [] (.elem streamName hattrs body false))),
             children := ((kidNodes (pushDecls [] hattrs) body [] []).filter isElem).map
               fun k => String.ofList (canon true k) } := by
  have hwf : wf (.elem streamName hattrs body false) = true := by
    simp [wf, streamName_ok, hh, hb]
  have hr : streamText hattrs body = '<' :: 's' :: ((render (.elem streamName hattrs body false)).tail.tail) := by
    simp [streamText, render, streamName_eq]
  have hok := elem_ok streamName hattrs body false hwf [] [] (2 * (streamText hattrs body).tail.length + 2)
    (by simp [streamText]; omega)
  simp only [List.append_nil] at hok
  have htail : (streamText hattrs body).tail = 's' :: ((render (.elem streamName hattrs body false)).tail.tail) := by
    rw [hr]; rfl
  unfold parse
  rw [hr]
  simp only [parseDecl, decl_not_prefix, Bool.false_eq_true, if_false]
  rw [skipWs_nonws _ _ ws_lt]
  simp only []
  rw [← htail]
  simp only [streamText] at hok ⊢
  rw [hok]
  simp [skipWs, toNode, kidsOf]
end Qx.C03.Xml
