/-
C03 — facts about the transcription of the stream-open regular expression (`matchOpen`): stability under more
data, shape of the match (exactly one quote-aware open tag).
-/
import Qx.Model.C03Framing
namespace Qx.C03

theorem scanOpenRest_bound : ∀ (l : List Char) (q : Option Char) (n k : Nat),
    scanOpenRest q l n = some k → n < k ∧ k ≤ n + l.length := by
  intro l
  induction l with
  | nil => intro q n k h; cases q <;> simp [scanOpenRest] at h
  | cons c r ih =>
    intro q n k h
    cases q with
    | none =>
      simp only [scanOpenRest] at h
      split at h
      · simp at h; subst h; simp
      · split at h
        · have := ih _ _ _ h; simp; omega
        · have := ih _ _ _ h; simp; omega
    | some q =>
      simp only [scanOpenRest] at h
      split at h
      · have := ih _ _ _ h; simp; omega
      · have := ih _ _ _ h; simp; omega

theorem scanOpenRest_append : ∀ (l m : List Char) (q : Option Char) (n k : Nat),
    scanOpenRest q l n = some k → scanOpenRest q (l ++ m) n = some k := by
  intro l
  induction l with
  | nil => intro m q n k h; cases q <;> simp [scanOpenRest] at h
  | cons c r ih =>
    intro m q n k h
    cases q with
    | none =>
      simp only [scanOpenRest, List.cons_append] at h ⊢
      split
      · rename_i hc; simpa [hc] using h
      · rename_i hc
        simp only [hc, if_false] at h
        split
        · rename_i hq; simp only [hq, if_true] at h; exact ih _ _ _ _ h
        · rename_i hq; simp only [hq, if_false] at h; exact ih _ _ _ _ h
    | some q =>
      simp only [scanOpenRest, List.cons_append] at h ⊢
      split
      · rename_i hc; simp only [hc, if_true] at h; exact ih _ _ _ _ h
      · rename_i hc; simp only [hc, if_false] at h; exact ih _ _ _ _ h

theorem dropWhile_append_of_ne_nil {α} (p : α → Bool) (l m : List α) (h : l.dropWhile p ≠ []) :
    (l ++ m).dropWhile p = l.dropWhile p ++ m ∧ (l ++ m).takeWhile p = l.takeWhile p := by
  induction l with
  | nil => simp at h
  | cons x l ih =>
    by_cases hx : p x = true
    · simp only [List.dropWhile_cons, hx, if_true] at h
      have := ih h
      simp [List.dropWhile_cons, List.takeWhile_cons, hx, this]
    · simp [List.dropWhile_cons, List.takeWhile_cons, hx]

theorem isPrefixOf_append (a l m : List Char) (h : a.isPrefixOf l = true) : a.isPrefixOf (l ++ m) = true := by
  rw [List.isPrefixOf_iff_prefix] at h ⊢
  exact List.IsPrefix.trans h (List.prefix_append l m)

theorem openLit_len : openLit.length = 14 := by decide
theorem declLit_len : declLit.length = 5 := by decide
theorem openLit_not_prefix_nil : openLit.isPrefixOf ([] : List Char) = false := by decide

theorem isPrefixOf_append_iff (a l m : List Char) (hl : a.length ≤ l.length) :
    a.isPrefixOf (l ++ m) = a.isPrefixOf l := by
  rw [Bool.eq_iff_iff, List.isPrefixOf_iff_prefix, List.isPrefixOf_iff_prefix]
  constructor
  · intro h; exact List.prefix_of_prefix_length_le h (List.prefix_append l m) hl
  · intro h; exact List.IsPrefix.trans h (List.prefix_append l m)

theorem matchOpenTag_append (l m : List Char) (k : Nat) (h : matchOpenTag l = some k) :
    matchOpenTag (l ++ m) = some k ∧ k ≤ l.length ∧ 15 ≤ k := by
  simp only [matchOpenTag] at h ⊢
  split at h
  · rename_i hp
    have hne : l.dropWhile reSpace ≠ [] := by
      intro h0; rw [h0, openLit_not_prefix_nil] at hp; cases hp
    obtain ⟨e1, e2⟩ := dropWhile_append_of_ne_nil reSpace l m hne
    have hlen : openLit.length ≤ (l.dropWhile reSpace).length := by
      rw [List.isPrefixOf_iff_prefix] at hp
      exact hp.length_le
    rw [e1, e2, if_pos (isPrefixOf_append _ _ m hp)]
    have hd : (l.dropWhile reSpace ++ m).drop openLit.length = (l.dropWhile reSpace).drop openLit.length ++ m := by
      rw [List.drop_append_of_le_length hlen]
    rw [hd]
    split at h
    · rename_i k' hs
      rw [scanOpenRest_append _ m _ _ _ hs]
      refine ⟨h, ?_⟩
      have hb := (scanOpenRest_bound _ _ _ _ hs).2
      have hb0 := (scanOpenRest_bound _ _ _ _ hs).1
      rw [openLit_len] at hlen
      simp only [List.length_drop, openLit_len] at hb
      have hl : (l.takeWhile reSpace).length + (l.dropWhile reSpace).length = l.length := by
        rw [← List.length_append, List.takeWhile_append_dropWhile]
      simp only [Option.some.injEq, openLit_len] at h
      omega
    · simp at h
  · simp at h

theorem matchDecl_append (l m : List Char) (d : Nat) (h : matchDecl l = some d) :
    matchDecl (l ++ m) = some d ∧ d ≤ declLit.length + l.length := by
  simp only [matchDecl] at h ⊢
  split at h
  · rename_i hc
    simp only [Bool.and_eq_true, decide_eq_true_eq] at hc
    have hne : l.dropWhile (fun c => c != '>') ≠ [] := by
      intro h0
      have : (l.takeWhile (fun c => c != '>')).length + (l.dropWhile (fun c => c != '>')).length = l.length := by
        rw [← List.length_append, List.takeWhile_append_dropWhile]
      rw [h0] at this; simp at this; omega
    obtain ⟨_, e2⟩ := dropWhile_append_of_ne_nil (fun c => c != '>') l m hne
    rw [e2]
    have : (l.takeWhile (fun c => c != '>')).length < (l ++ m).length := by simp; omega
    simp only [this, hc.2, decide_true, Bool.and_self, if_true]
    simp only [Option.some.injEq] at h
    exact ⟨by rw [h], by omega⟩
  · simp at h

/-- **The header match is stable under more data.**  Once the stream-open regex has matched the buffer, appending
any further text leaves the match — and the captured open tag — unchanged.  (This is what makes the header's
detection independent of how much of the following stanzas arrives in the same read.) -/
theorem matchOpen_append_stable (buf more t : List Char) (h : matchOpen buf = some t) :
    matchOpen (buf ++ more) = some t := by
  simp only [matchOpen] at h ⊢
  by_cases hd : declLit.isPrefixOf buf = true
  · rw [if_pos hd] at h
    rw [if_pos (isPrefixOf_append _ _ more hd)]
    have hlen : declLit.length ≤ buf.length := by
      rw [List.isPrefixOf_iff_prefix] at hd; exact hd.length_le
    rw [List.drop_append_of_le_length hlen]
    cases hm : matchDecl (buf.drop declLit.length) with
    | none => simp [hm] at h
    | some d =>
      obtain ⟨e1, b1⟩ := matchDecl_append _ more d hm
      simp only [hm] at h
      simp only [e1]
      have hdl : d ≤ buf.length := by simp only [List.length_drop] at b1; omega
      rw [List.drop_append_of_le_length hdl]
      cases ht : matchOpenTag (buf.drop d) with
      | none => simp [ht] at h
      | some n =>
        obtain ⟨e2, b2, _⟩ := matchOpenTag_append _ more n ht
        simp only [ht] at h
        simp only [e2]
        simp only [List.length_drop] at b2
        simp only [Option.some.injEq] at h ⊢
        rw [List.take_append_of_le_length (by omega)]
        exact h
  · rw [if_neg hd] at h
    cases ht : matchOpenTag buf with
    | none => simp [ht] at h
    | some n =>
      obtain ⟨e2, b2, b3⟩ := matchOpenTag_append _ more n ht
      have hl : declLit.length ≤ buf.length := by rw [declLit_len]; omega
      rw [isPrefixOf_append_iff _ _ more hl, if_neg hd]
      simp only [ht] at h
      simp only [e2, Option.some.injEq] at h ⊢
      rw [List.take_append_of_le_length b2]
      exact h

theorem scanOpenRest_take : ∀ (l : List Char) (q : Option Char) (n k : Nat),
    scanOpenRest q l n = some k →
    ∃ a, l.take (k - n) = a ++ ['>'] ∧ scanOpenRest q (a ++ ['>']) n = some k ∧ a.length + 1 = k - n := by
  intro l
  induction l with
  | nil => intro q n k h; cases q <;> simp [scanOpenRest] at h
  | cons c r ih =>
    intro q n k h
    have hb := scanOpenRest_bound _ _ _ _ h
    cases q with
    | none =>
      by_cases hc : c = '>'
      · simp only [scanOpenRest, hc, if_true, Option.some.injEq] at h
        subst h
        exact ⟨[], by simp [hc], by simp [scanOpenRest], by simp⟩
      · simp only [scanOpenRest, hc, if_false] at h
        have key : ∀ q', scanOpenRest q' r (n + 1) = some k →
            (scanOpenRest none (c :: r) n = scanOpenRest q' r (n + 1)) →
            (∀ a, scanOpenRest none (c :: (a ++ ['>'])) n = scanOpenRest q' (a ++ ['>']) (n + 1)) →
            ∃ a, (c :: r).take (k - n) = a ++ ['>'] ∧ scanOpenRest none (a ++ ['>']) n = some k ∧ a.length + 1 = k - n := by
          intro q' h' _ hstep
          obtain ⟨a, e1, e2, e3⟩ := ih q' (n + 1) k h'
          have hb' := scanOpenRest_bound _ _ _ _ h'
          refine ⟨c :: a, ?_, ?_, ?_⟩
          · have : k - n = (k - (n + 1)) + 1 := by omega
            rw [this, List.take_succ_cons, e1]; rfl
          · rw [List.cons_append, hstep a, e2]
          · simp; omega
        by_cases hq : (c = '\'' || c = '"') = true
        · simp only [hq, if_true] at h
          exact key (some c) h (by simp [scanOpenRest, hc, hq]) (fun a => by simp [scanOpenRest, hc, hq])
        · simp only [hq] at h
          exact key none h (by simp [scanOpenRest, hc, hq]) (fun a => by simp [scanOpenRest, hc, hq])
    | some q0 =>
      have key : ∀ q', scanOpenRest q' r (n + 1) = some k →
          (∀ a, scanOpenRest (some q0) (c :: (a ++ ['>'])) n = scanOpenRest q' (a ++ ['>']) (n + 1)) →
          ∃ a, (c :: r).take (k - n) = a ++ ['>'] ∧ scanOpenRest (some q0) (a ++ ['>']) n = some k ∧ a.length + 1 = k - n := by
        intro q' h' hstep
        obtain ⟨a, e1, e2, e3⟩ := ih q' (n + 1) k h'
        have hb' := scanOpenRest_bound _ _ _ _ h'
        refine ⟨c :: a, ?_, ?_, ?_⟩
        · have : k - n = (k - (n + 1)) + 1 := by omega
          rw [this, List.take_succ_cons, e1]; rfl
        · rw [List.cons_append, hstep a, e2]
        · simp; omega
      by_cases hc : c = q0
      · simp only [scanOpenRest, hc, if_true] at h
        exact key none h (fun a => by simp [scanOpenRest, hc])
      · simp only [scanOpenRest, hc, if_false] at h
        exact key (some q0) h (fun a => by simp [scanOpenRest, hc])

/-- **The match is exactly one quote-aware open tag.**  What `\\s*<stream:stream(?:…)*>` matched at the start of `l` is:
white space, the literal `<stream:stream`, a body `a`, and `>` — where `>` is the FIRST `>` outside quotes (scanning
`a ++ ">"` quote-aware ends exactly at its last character, not earlier), so the tag is neither cut short at a `>`
inside a quoted attribute value nor extended over a following tag. -/
theorem matchOpenTag_shape (l : List Char) (k : Nat) (h : matchOpenTag l = some k) :
    ∃ ws a, l.take k = ws ++ openLit ++ a ++ ['>'] ∧ ws.all reSpace = true ∧
      scanOpenRest none (a ++ ['>']) 0 = some (a.length + 1) := by
  simp only [matchOpenTag] at h
  split at h
  · rename_i hp
    split at h
    · rename_i k' hs
      simp only [Option.some.injEq] at h
      obtain ⟨a, e1, e2, e3⟩ := scanOpenRest_take _ _ _ _ hs
      refine ⟨l.takeWhile reSpace, a, ?_, ?_, ?_⟩
      · rw [List.isPrefixOf_iff_prefix] at hp
        obtain ⟨t, ht⟩ := hp
        have hl : l = l.takeWhile reSpace ++ (openLit ++ t) := by
          rw [ht, List.takeWhile_append_dropWhile]
        have ht' : (l.dropWhile reSpace).drop openLit.length = t := by rw [← ht]; simp
        rw [ht'] at e1
        simp only [Nat.sub_zero] at e1 e3
        rw [← h]
        generalize l.takeWhile reSpace = w at hl ⊢
        rw [hl]
        rw [List.take_append, List.take_of_length_le (by omega)]
        rw [List.take_append, List.take_of_length_le (by omega)]
        have : w.length + openLit.length + k' - w.length - openLit.length = k' := by omega
        rw [this, e1]; simp [List.append_assoc]
      · exact List.all_takeWhile
      · simp only [Nat.sub_zero] at e3; rw [e2]; congr 1; omega
    · simp at h
  · simp at h

theorem matchOpen_prefix (buf t : List Char) (h : matchOpen buf = some t) : t <+: buf := by
  simp only [matchOpen] at h
  split at h
  · simp only [Option.some.injEq] at h; rw [← h]; exact List.take_prefix _ _
  · simp at h
end Qx.C03
