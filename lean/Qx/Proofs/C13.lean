import Qx.Model.C13Task
/-! Helper lemmas for C13 (property theorems live in Qx/Props/C13.lean). -/
namespace Qx.C13

/-- every `ran` id in `evs` lies in `[lo, hi)` -/
def IdsIn (evs : List Ev) (lo hi : Nat) : Prop := ∀ k ∈ ranIds evs, lo ≤ k ∧ k < hi

theorem ranIds_append (a b : List Ev) : ranIds (a ++ b) = ranIds a ++ ranIds b := by
  simp [ranIds, List.filterMap_append]

@[simp] theorem ranIds_nil : ranIds [] = [] := rfl
@[simp] theorem ranIds_ran (k c v) (l : List Ev) : ranIds (.ran k c v :: l) = k :: ranIds l := by
  simp [ranIds]
@[simp] theorem ranIds_released (l : List Ev) : ranIds (.released :: l) = ranIds l := by
  simp [ranIds]

/-- what a sub-computation may change: ids only from the fresh range, bookkeeping fields kept -/
structure Frame (s s' : St) (evs : List Ev) : Prop where
  next_le : s.nextId ≤ s'.nextId
  cont_sub : ∀ c, s'.cont = some c → s.cont = some c
  fin_eq : s'.finished = s.finished
  kind_eq : s'.kind = s.kind
  nodup : (ranIds evs).Nodup
  ids : IdsIn evs s.nextId s'.nextId
  dead_mono : ∀ c, c ∈ s.dead → c ∈ s'.dead

theorem thenFinishedSimple_frame (s : St) (ctx : Nat) :
    Frame s (thenFinishedSimple s ctx).1 (thenFinishedSimple s ctx).2 := by
  unfold thenFinishedSimple
  split
  · constructor <;> simp [IdsIn]
  · cases hk : s.kind <;> simp only
    · constructor <;> simp [IdsIn, hk]
    · cases hr : s.result <;> simp only
      · constructor <;> simp [IdsIn, hk]
      · constructor <;> simp [IdsIn, hk]

theorem Frame.trans {s s1 s2 : St} {e1 e2 : List Ev} (h1 : Frame s s1 e1) (h2 : Frame s1 s2 e2) :
    Frame s s2 (e1 ++ e2) where
  next_le := Nat.le_trans h1.next_le h2.next_le
  cont_sub := fun c hc => h1.cont_sub c (h2.cont_sub c hc)
  fin_eq := by rw [h2.fin_eq, h1.fin_eq]
  kind_eq := by rw [h2.kind_eq, h1.kind_eq]
  nodup := by
    rw [ranIds_append, List.nodup_append]
    refine ⟨h1.nodup, h2.nodup, ?_⟩
    intro a ha b hb hab
    have x1 : a < s1.nextId := (h1.ids a ha).2
    have x2 : s1.nextId ≤ b := (h2.ids b hb).1
    omega
  ids := by
    intro k hk
    rw [ranIds_append, List.mem_append] at hk
    have x1 := h1.next_le
    have x2 := h2.next_le
    rcases hk with h | h
    · have x3 : s.nextId ≤ k ∧ k < s1.nextId := h1.ids k h; omega
    · have x3 : s1.nextId ≤ k ∧ k < s2.nextId := h2.ids k h; omega
  dead_mono := fun c hc => h2.dead_mono c (h1.dead_mono c hc)

theorem runInner_frame (body : List Inner) : ∀ (s : St), Frame s (runInner s body).1 (runInner s body).2 := by
  induction body with
  | nil => intro s; constructor <;> simp [runInner, IdsIn]
  | cons i rest ih =>
    intro s
    cases i with
    | thenI ctx =>
      simp only [runInner]
      exact (thenFinishedSimple_frame s ctx).trans (ih _)
    | destroyCtx c =>
      simp only [runInner]
      have h2 := ih { s with dead := if c = 0 then s.dead else c :: s.dead }
      exact { h2 with dead_mono := fun c' hc' => h2.dead_mono c' (by simp only; split <;> simp [hc']) }
    | dropAll =>
      simp only [runInner]
      have h2 := ih { s with refs := 0, result := none, cont := none }
      exact { h2 with cont_sub := fun c hc => by have := h2.cont_sub c hc; simp at this }

end Qx.C13

namespace Qx.C13

/-- one-step facts used for "at most once" -/
structure StepFacts (s s' : St) (evs : List Ev) : Prop where
  next_le : s.nextId ≤ s'.nextId
  nodup : (ranIds evs).Nodup
  ids : ∀ k ∈ ranIds evs, (s.nextId ≤ k ∧ k < s'.nextId) ∨
          (∃ c, s.cont = some c ∧ c.id = k ∧ s'.cont = none)
  cont : ∀ c', s'.cont = some c' → s.cont = some c' ∨
          (s.nextId ≤ c'.id ∧ c'.id < s'.nextId ∧ c'.id ∉ ranIds evs)

theorem StepFacts.refl (s : St) : StepFacts s s [] :=
  ⟨Nat.le_refl _, by simp, by simp, fun c' h => Or.inl h⟩

/-- a step that leaves `nextId` and `cont` alone and emits no `ran` -/
theorem StepFacts.silent {s s' : St} {evs : List Ev} (hn : s'.nextId = s.nextId)
    (hc : s'.cont = s.cont ∨ s'.cont = none) (he : ranIds evs = []) : StepFacts s s' evs := by
  refine ⟨by omega, by simp [he], by simp [he], ?_⟩
  intro c' h
  rcases hc with hc | hc
  · left; rw [← hc]; exact h
  · rw [hc] at h; cases h

theorem facts_fresh (s t s' : St) (body : List Inner) (c : Nat) (v : Delivered)
    (ht : t.nextId = s.nextId + 1) (htc : t.cont = s.cont)
    (hn : s'.nextId = (runInner t body).1.nextId) (hc : s'.cont = (runInner t body).1.cont) :
    StepFacts s s' (.ran s.nextId c v :: (runInner t body).2) := by
  have f := runInner_frame body t
  have x1 := f.next_le
  refine ⟨by omega, ?_, ?_, ?_⟩
  · simp only [ranIds_ran, List.nodup_cons]
    refine ⟨?_, f.nodup⟩
    intro hm; have x : t.nextId ≤ s.nextId ∧ _ := f.ids _ hm; omega
  · intro k hk'
    simp only [ranIds_ran, List.mem_cons] at hk'
    left
    rcases hk' with h | h
    · omega
    · have x : t.nextId ≤ k ∧ k < (runInner t body).1.nextId := f.ids _ h; omega
  · intro c' hc'; left; rw [hc] at hc'; have := f.cont_sub c' hc'; rw [htc] at this; exact this

theorem facts_invoke (s t s' : St) (c : Cont) (v : Delivered)
    (hsc : s.cont = some c) (hid : c.id < s.nextId)
    (ht : t.nextId = s.nextId)
    (hn : s'.nextId = (runInner t c.body).1.nextId) (hc : s'.cont = none) :
    StepFacts s s' (.ran c.id c.ctx v :: (runInner t c.body).2) := by
  have f := runInner_frame c.body t
  have x1 := f.next_le
  refine ⟨by omega, ?_, ?_, ?_⟩
  · simp only [ranIds_ran, List.nodup_cons]
    refine ⟨?_, f.nodup⟩
    intro hm; have x : t.nextId ≤ c.id ∧ _ := f.ids _ hm; omega
  · intro k hk'
    simp only [ranIds_ran, List.mem_cons] at hk'
    rcases hk' with h | h
    · right; exact ⟨c, hsc, h.symm, hc⟩
    · left; have x : t.nextId ≤ k ∧ k < (runInner t c.body).1.nextId := f.ids _ h; omega
  · intro c' hc'; rw [hc] at hc'; cases hc'

theorem invokeCont_facts (s t : St) (c : Cont) (v : Delivered)
    (hsc : s.cont = some c) (hid : c.id < s.nextId) (ht : t.nextId = s.nextId) :
    StepFacts s (invokeCont t c v).1 (invokeCont t c v).2 := by
  unfold invokeCont
  split
  · exact facts_invoke s t _ c v hsc hid ht rfl rfl
  · exact StepFacts.silent ht (Or.inr rfl) rfl

theorem finishCore_facts (s : St) (c v : Nat) (hinv : ∀ k, s.cont = some k → k.id < s.nextId) :
    StepFacts s (finishCore s c v).1 (finishCore s c v).2 := by
  simp only [finishCore]
  split
  · exact StepFacts.refl s
  · split
    · rename_i k hk
      split
      · exact invokeCont_facts s _ k _ hk (hinv k hk) rfl
      · exact StepFacts.silent rfl (Or.inl rfl) rfl
    · split
      · exact StepFacts.silent rfl (Or.inl rfl) rfl
      · exact StepFacts.silent rfl (Or.inl rfl) rfl

theorem step_factsCore (s : St) (op : Op) (hinv : ∀ c, s.cont = some c → c.id < s.nextId) :
    StepFacts s (stepCore s op).1 (stepCore s op).2 := by
  cases op with
  | thenOp ctx body =>
    simp only [stepCore]
    split
    · exact StepFacts.refl s
    · split
      · -- finished
        split
        · exact facts_fresh s _ _ body _ _ rfl rfl rfl rfl
        · split
          · exact facts_fresh s _ _ body _ _ rfl rfl rfl rfl
          · exact ⟨by simp, by simp, by simp, fun c' h => Or.inl h⟩
      · -- not finished: store
        refine ⟨by simp, by simp, by simp, ?_⟩
        intro c' hc'
        simp only [Option.some.injEq] at hc'
        right; subst hc'; simp
  | finish v => exact finishCore_facts s 0 v hinv
  | finishK c v => exact finishCore_facts s c v hinv
  | take =>
    simp only [stepCore]; split
    · exact StepFacts.refl s
    · exact StepFacts.silent rfl (Or.inl rfl) rfl
  | destroyCtx c => exact StepFacts.silent rfl (Or.inl rfl) rfl
  | copyHandle =>
    simp only [stepCore]; split
    · exact StepFacts.refl s
    · exact StepFacts.silent rfl (Or.inl rfl) rfl
  | dropHandle =>
    simp only [stepCore]; split
    · exact StepFacts.refl s
    · split
      · exact StepFacts.silent rfl (Or.inr rfl) (by simp)
      · exact StepFacts.silent rfl (Or.inl rfl) rfl

end Qx.C13

namespace Qx.C13

theorem step_fst (s : St) (op : Op) : (step s op).1 = (stepCore s op).1 := by
  unfold step; simp only; split <;> rfl

theorem step_ranIds (s : St) (op : Op) : ranIds (step s op).2 = ranIds (stepCore s op).2 := by
  unfold step; simp only; split
  · simp [ranIds_append, ranIds]
  · rfl

theorem step_facts (s : St) (op : Op) (hinv : ∀ c, s.cont = some c → c.id < s.nextId) :
    StepFacts s (step s op).1 (step s op).2 := by
  have f := step_factsCore s op hinv
  rw [step_fst]
  exact ⟨f.next_le, by rw [step_ranIds]; exact f.nodup, by rw [step_ranIds]; exact f.ids,
    by rw [step_ranIds]; exact f.cont⟩

/-- invariant tying the state to the log of everything emitted so far -/
structure Inv (s : St) (log : List Ev) : Prop where
  nodup : (ranIds log).Nodup
  below : ∀ k ∈ ranIds log, k < s.nextId
  cont : ∀ c, s.cont = some c → c.id < s.nextId ∧ c.id ∉ ranIds log

theorem Inv.init (k : Kind) : Inv (init k) [] :=
  ⟨by simp, by simp, by simp [Qx.C13.init]⟩

theorem Inv.step {s : St} {log : List Ev} (h : Inv s log) (op : Op) :
    Inv (step s op).1 (log ++ (step s op).2) := by
  have f := step_facts s op (fun c hc => (h.cont c hc).1)
  refine ⟨?_, ?_, ?_⟩
  · rw [ranIds_append, List.nodup_append]
    refine ⟨h.nodup, f.nodup, ?_⟩
    intro a ha b hb hab
    subst hab
    rcases f.ids a hb with x | ⟨c, hc, hid, _⟩
    · have := h.below a ha; omega
    · exact (h.cont c hc).2 (hid ▸ ha)
  · intro k hk
    rw [ranIds_append, List.mem_append] at hk
    have x0 := f.next_le
    rcases hk with hk | hk
    · have := h.below k hk; omega
    · rcases f.ids k hk with x | ⟨c, hc, hid, _⟩
      · exact x.2
      · have := (h.cont c hc).1; omega
  · intro c' hc'
    have x0 := f.next_le
    rcases f.cont c' hc' with hold | ⟨hlo, hhi, hnot⟩
    · have ⟨y1, y2⟩ := h.cont c' hold
      refine ⟨by omega, ?_⟩
      rw [ranIds_append, List.mem_append]
      rintro (hm | hm)
      · exact y2 hm
      · rcases f.ids _ hm with x | ⟨c, hc, _, hnone⟩
        · omega
        · rw [hnone] at hc'; cases hc'
    · refine ⟨hhi, ?_⟩
      rw [ranIds_append, List.mem_append]
      rintro (hm | hm)
      · have := h.below _ hm; omega
      · exact hnot hm

theorem Inv.run {s : St} {log : List Ev} (h : Inv s log) (ops : List Op) :
    Inv (run s ops).1 (log ++ (run s ops).2) := by
  induction ops generalizing s log with
  | nil => simpa [Qx.C13.run] using h
  | cons op ops ih =>
    simp only [Qx.C13.run]
    have := ih (h.step op)
    rwa [List.append_assoc] at this

/-! ### context death -/

/-- contexts of the `ran` events -/
def ranCtxs (evs : List Ev) : List Nat :=
  evs.filterMap fun | .ran _ c _ => some c | _ => none

theorem ranCtxs_append (a b : List Ev) : ranCtxs (a ++ b) = ranCtxs a ++ ranCtxs b := by
  simp [ranCtxs, List.filterMap_append]

theorem effCtx_alive (s : St) (c : Nat) : s.effCtx c = 0 ∨ s.effCtx c ∉ s.dead := by
  unfold St.effCtx St.alive
  split
  · rename_i h; right; simpa using h
  · left; rfl

theorem thenFinishedSimple_ctx (s : St) (ctx : Nat) :
    (∀ c ∈ ranCtxs (thenFinishedSimple s ctx).2, c = 0 ∨ c ∉ s.dead) ∧
    (thenFinishedSimple s ctx).1.dead = s.dead := by
  unfold thenFinishedSimple
  split
  · exact ⟨by simp [ranCtxs], rfl⟩
  · simp only
    split
    · exact ⟨by simpa [ranCtxs] using effCtx_alive { s with nextId := s.nextId + 1 } ctx, rfl⟩
    · split
      · exact ⟨by simpa [ranCtxs] using effCtx_alive { s with nextId := s.nextId + 1 } ctx, rfl⟩
      · exact ⟨by simp [ranCtxs], rfl⟩

theorem runInner_ctx (body : List Inner) : ∀ s : St,
    ∀ c ∈ ranCtxs (runInner s body).2, c = 0 ∨ c ∉ s.dead := by
  induction body with
  | nil => intro s; simp [runInner, ranCtxs]
  | cons i rest ih =>
    intro s
    cases i with
    | thenI ctx =>
      simp only [runInner]
      intro c hc
      rw [ranCtxs_append, List.mem_append] at hc
      rcases hc with hc | hc
      · exact (thenFinishedSimple_ctx s ctx).1 c hc
      · have := ih _ c hc
        rwa [(thenFinishedSimple_ctx s ctx).2] at this
    | destroyCtx d =>
      simp only [runInner]
      intro c hc
      rcases ih _ c hc with h | h
      · exact Or.inl h
      · right; intro hm; apply h; simp only; split <;> simp [hm]
    | dropAll =>
      simp only [runInner]
      intro c hc
      exact ih { s with refs := 0, result := none, cont := none } c hc

end Qx.C13

namespace Qx.C13

@[simp] theorem ranCtxs_ran (k c v) (l : List Ev) : ranCtxs (.ran k c v :: l) = c :: ranCtxs l := by
  simp [ranCtxs]

@[simp] theorem alive_mk (k f r c d rf n) (x : Nat) :
    St.alive ⟨k, f, r, c, d, rf, n⟩ x = !d.contains x := rfl

theorem alive_not_dead {s : St} {c : Nat} (h : s.alive c = true) : c ∉ s.dead := by
  simpa [St.alive] using h

theorem invokeCont_ctx (t : St) (k : Cont) (v : Delivered) :
    ∀ c ∈ ranCtxs (invokeCont t k v).2, c = 0 ∨ c ∉ t.dead := by
  unfold invokeCont
  split
  · rename_i halive
    intro c' hc'
    simp only [ranCtxs_ran, List.mem_cons] at hc'
    rcases hc' with hc' | hc'
    · subst hc'; right; exact alive_not_dead halive
    · exact runInner_ctx k.body _ c' hc'
  · simp [ranCtxs]

theorem finishCore_ctx (s : St) (c v : Nat) :
    ∀ c' ∈ ranCtxs (finishCore s c v).2, c' = 0 ∨ c' ∉ s.dead := by
  simp only [finishCore]
  split
  · simp [ranCtxs]
  · split
    · rename_i k hk
      split
      · intro c' hc'
        rcases invokeCont_ctx _ k _ c' hc' with h | h
        · exact Or.inl h
        · right; intro hm; apply h; simp only; split <;> simp [hm]
      · simp [ranCtxs]
    · split <;> simp [ranCtxs]

theorem step_ctxCore (s : St) (op : Op) : ∀ c ∈ ranCtxs (stepCore s op).2, c = 0 ∨ c ∉ s.dead := by
  cases op with
  | thenOp ctx body =>
    simp only [stepCore]
    split
    · simp [ranCtxs]
    · split
      · split
        · intro c hc
          simp only [ranCtxs_ran, List.mem_cons] at hc
          rcases hc with hc | hc
          · subst hc; exact effCtx_alive s ctx
          · have h2 := runInner_ctx body _ c hc; exact h2
        · split
          · intro c hc
            simp only [ranCtxs_ran, List.mem_cons] at hc
            rcases hc with hc | hc
            · subst hc; exact effCtx_alive s ctx
            · have h2 := runInner_ctx body _ c hc; exact h2
          · simp [ranCtxs]
      · simp [ranCtxs]
  | finish v => exact finishCore_ctx s 0 v
  | finishK c v => exact finishCore_ctx s c v
  | take => simp only [stepCore]; split <;> simp [ranCtxs]
  | destroyCtx c => simp [stepCore, ranCtxs]
  | copyHandle => simp only [stepCore]; split <;> simp [ranCtxs]
  | dropHandle =>
    simp only [stepCore]; split
    · simp [ranCtxs]
    · split <;> simp [ranCtxs]

theorem invokeCont_dead_mono (t : St) (k : Cont) (v : Delivered) :
    ∀ c ∈ t.dead, c ∈ (invokeCont t k v).1.dead := by
  intro c hc
  unfold invokeCont
  split
  · exact (runInner_frame k.body _).dead_mono c hc
  · exact hc

theorem finishCore_dead_mono (s : St) (c0 v : Nat) : ∀ c ∈ s.dead, c ∈ (finishCore s c0 v).1.dead := by
  intro c hc
  simp only [finishCore]
  split
  · exact hc
  · split
    · split
      · apply invokeCont_dead_mono; simp only; split <;> simp [hc]
      · exact hc
    · split
      · exact hc
      · simp only; split <;> simp [hc]

theorem step_dead_monoCore (s : St) (op : Op) : ∀ c ∈ s.dead, c ∈ (stepCore s op).1.dead := by
  intro c hc
  cases op with
  | thenOp ctx body =>
    simp only [stepCore]
    split
    · exact hc
    · split
      · split
        · exact (runInner_frame body _).dead_mono c hc
        · split
          · exact (runInner_frame body _).dead_mono c hc
          · exact hc
      · exact hc
  | finish v => exact finishCore_dead_mono s 0 v c hc
  | finishK c0 v => exact finishCore_dead_mono s c0 v c hc
  | take => simp only [stepCore]; split <;> exact hc
  | destroyCtx d => simp only [stepCore]; split <;> simp [hc]
  | copyHandle => simp only [stepCore]; split <;> exact hc
  | dropHandle =>
    simp only [stepCore]; split
    · exact hc
    · split <;> exact hc

theorem step_ranCtxs (s : St) (op : Op) : ranCtxs (step s op).2 = ranCtxs (stepCore s op).2 := by
  unfold step; simp only; split
  · simp [ranCtxs_append, ranCtxs]
  · rfl

theorem step_ctx (s : St) (op : Op) : ∀ c ∈ ranCtxs (step s op).2, c = 0 ∨ c ∉ s.dead := by
  rw [step_ranCtxs]; exact step_ctxCore s op

theorem step_dead_mono (s : St) (op : Op) : ∀ c ∈ s.dead, c ∈ (step s op).1.dead := by
  rw [step_fst]; exact step_dead_monoCore s op

theorem run_ctx (ops : List Op) : ∀ s : St, ∀ c ∈ ranCtxs (run s ops).2, c = 0 ∨ c ∉ s.dead := by
  induction ops with
  | nil => intro s; simp [Qx.C13.run, ranCtxs]
  | cons op ops ih =>
    intro s c hc
    simp only [Qx.C13.run] at hc
    rw [ranCtxs_append, List.mem_append] at hc
    rcases hc with hc | hc
    · exact step_ctx s op c hc
    · rcases ih _ c hc with h | h
      · exact Or.inl h
      · right; intro hm; exact h (step_dead_mono s op c hm)

/-! ### release -/

def Released (s : St) : Prop := s.refs = 0 → s.result = none ∧ s.cont = none

theorem released_of_refs_ne {s : St} (h : s.refs ≠ 0) : Released s := fun h0 => absurd h0 h

theorem thenFinishedSimple_released (s : St) (ctx : Nat) (h : Released s) :
    Released (thenFinishedSimple s ctx).1 := by
  unfold thenFinishedSimple
  split
  · exact h
  · rename_i hr
    simp only
    split
    · exact released_of_refs_ne hr
    · split
      · exact released_of_refs_ne hr
      · exact released_of_refs_ne hr

theorem runInner_released (body : List Inner) : ∀ s : St, Released s → Released (runInner s body).1 := by
  induction body with
  | nil => intro s h; exact h
  | cons i rest ih =>
    intro s h
    cases i with
    | thenI ctx => simp only [runInner]; exact ih _ (thenFinishedSimple_released s ctx h)
    | destroyCtx c => simp only [runInner]; exact ih _ h
    | dropAll => simp only [runInner]; exact ih _ (fun _ => ⟨rfl, rfl⟩)

theorem invokeCont_released (t : St) (k : Cont) (v : Delivered) (hr : t.refs ≠ 0) :
    Released (invokeCont t k v).1 := by
  unfold invokeCont
  split
  · have h1 := runInner_released k.body t (released_of_refs_ne hr)
    intro h0
    exact ⟨(h1 h0).1, rfl⟩
  · exact released_of_refs_ne hr

theorem finishCore_released (s : St) (c v : Nat) (h : Released s) : Released (finishCore s c v).1 := by
  simp only [finishCore]
  split
  · exact h
  · rename_i hr
    have hr' : ¬ s.refs = 0 := fun x => hr (Or.inl x)
    split
    · split
      · exact invokeCont_released _ _ _ hr'
      · exact released_of_refs_ne hr'
    · split
      · exact released_of_refs_ne hr'
      · exact released_of_refs_ne hr'

theorem step_releasedCore (s : St) (op : Op) (h : Released s) : Released (stepCore s op).1 := by
  cases op with
  | thenOp ctx body =>
    simp only [stepCore]
    split
    · exact h
    · rename_i hr
      split
      · split
        · exact runInner_released body _ (released_of_refs_ne hr)
        · split
          · have h1 := runInner_released body { s with nextId := s.nextId + 1, result := none } (released_of_refs_ne hr)
            intro h0
            exact ⟨rfl, (h1 h0).2⟩
          · exact released_of_refs_ne hr
      · exact released_of_refs_ne hr
  | finish v => exact finishCore_released s 0 v h
  | finishK c v => exact finishCore_released s c v h
  | take =>
    simp only [stepCore]; split
    · exact h
    · rename_i hr; exact released_of_refs_ne hr
  | destroyCtx d => exact h
  | copyHandle =>
    simp only [stepCore]
    split
    · exact h
    · intro h0; simp only at h0; omega
  | dropHandle =>
    simp only [stepCore]
    split
    · exact h
    · split
      · exact fun _ => ⟨rfl, rfl⟩
      · rename_i hr h1; intro h0; simp only at h0; omega

theorem step_released (s : St) (op : Op) (h : Released s) : Released (step s op).1 := by
  rw [step_fst]; exact step_releasedCore s op h

theorem run_released (ops : List Op) : ∀ s : St, Released s → Released (run s ops).1 := by
  induction ops with
  | nil => intro s h; exact h
  | cons op ops ih => intro s h; simp only [Qx.C13.run]; exact ih _ (step_released s op h)

end Qx.C13

namespace Qx.C13

/-! ### delivered values -/

/-- every delivered value is what `finish v` hands over -/
def AllDeliveredAre (kind : Kind) (v : Nat) (evs : List Ev) : Prop :=
  ∀ k c d, Ev.ran k c d ∈ evs → d = deliveredOf kind v

/-- a stored result, if any, is `v`; nothing is stored before finish -/
structure DInv (s : St) (v : Nat) : Prop where
  unfinished : s.finished = false → s.result = none
  stored : ∀ r, s.result = some r → r = v

theorem AllDeliveredAre.nil (kind v) : AllDeliveredAre kind v [] := by
  intro k c d h; cases h

theorem AllDeliveredAre.append {kind v a b} (ha : AllDeliveredAre kind v a) (hb : AllDeliveredAre kind v b) :
    AllDeliveredAre kind v (a ++ b) := by
  intro k c d h
  rcases List.mem_append.mp h with h | h
  · exact ha k c d h
  · exact hb k c d h

theorem AllDeliveredAre.cons {kind v k c d l} (hd : d = deliveredOf kind v) (hl : AllDeliveredAre kind v l) :
    AllDeliveredAre kind v (.ran k c d :: l) := by
  intro k' c' d' h
  rcases List.mem_cons.mp h with h | h
  · cases h; exact hd
  · exact hl k' c' d' h

theorem thenFinishedSimple_deliv (s : St) (ctx v : Nat) (h : DInv s v) (hf : s.finished = true) :
    AllDeliveredAre s.kind v (thenFinishedSimple s ctx).2 ∧ DInv (thenFinishedSimple s ctx).1 v ∧
    (thenFinishedSimple s ctx).1.finished = true ∧ (thenFinishedSimple s ctx).1.kind = s.kind := by
  unfold thenFinishedSimple
  split
  · exact ⟨AllDeliveredAre.nil _ _, h, hf, rfl⟩
  · simp only
    split
    · rename_i hk
      refine ⟨AllDeliveredAre.cons (by simp [deliveredOf, hk]) (AllDeliveredAre.nil _ _), ⟨?_, h.stored⟩, hf, rfl⟩
      intro hnf; simp [hf] at hnf
    · rename_i hk
      split
      · rename_i r hr
        refine ⟨AllDeliveredAre.cons (by simp [deliveredOf, hk, h.stored r hr]) (AllDeliveredAre.nil _ _), ⟨fun _ => rfl, ?_⟩, hf, rfl⟩
        intro r' hr'; cases hr'
      · exact ⟨AllDeliveredAre.nil _ _, ⟨fun hnf => by simp [hf] at hnf, h.stored⟩, hf, rfl⟩

theorem runInner_deliv (body : List Inner) : ∀ (s : St) (v : Nat), DInv s v → s.finished = true →
    AllDeliveredAre s.kind v (runInner s body).2 ∧ DInv (runInner s body).1 v := by
  induction body with
  | nil => intro s v h _; exact ⟨AllDeliveredAre.nil _ _, h⟩
  | cons i rest ih =>
    intro s v h hf
    cases i with
    | thenI ctx =>
      simp only [runInner]
      obtain ⟨h1, h2, h3, h4⟩ := thenFinishedSimple_deliv s ctx v h hf
      obtain ⟨h5, h6⟩ := ih _ v h2 h3
      rw [h4] at h5
      exact ⟨h1.append h5, h6⟩
    | destroyCtx c =>
      simp only [runInner]
      exact ih { s with dead := if c = 0 then s.dead else c :: s.dead } v ⟨h.unfinished, h.stored⟩ hf
    | dropAll =>
      simp only [runInner]
      exact ih { s with refs := 0, result := none, cont := none } v ⟨fun _ => rfl, fun r hr => by cases hr⟩ hf

/-- the value an operation finishes the promise with, if it is a `finish` -/
def Op.finishVal : Op → Option Nat
  | .finish v => some v
  | .finishK _ v => some v
  | _ => none

theorem invokeCont_deliv (t : St) (k : Cont) (v : Nat) (h : DInv t v) (hf : t.finished = true) :
    AllDeliveredAre t.kind v (invokeCont t k (deliveredOf t.kind v)).2 ∧
    DInv (invokeCont t k (deliveredOf t.kind v)).1 v ∧
    (invokeCont t k (deliveredOf t.kind v)).1.kind = t.kind := by
  unfold invokeCont
  split
  · obtain ⟨h1, h2⟩ := runInner_deliv k.body t v h hf
    exact ⟨AllDeliveredAre.cons rfl h1, ⟨h2.unfinished, h2.stored⟩, (runInner_frame k.body _).kind_eq⟩
  · exact ⟨AllDeliveredAre.nil _ _, ⟨h.unfinished, h.stored⟩, rfl⟩

theorem finishCore_deliv (s : St) (c v : Nat) (h : DInv s v) :
    AllDeliveredAre s.kind v (finishCore s c v).2 ∧ DInv (finishCore s c v).1 v ∧
    (finishCore s c v).1.kind = s.kind := by
  simp only [finishCore]
  split
  · exact ⟨AllDeliveredAre.nil _ _, h, rfl⟩
  · rename_i hcond
    have hnf : s.finished = false := by
      cases hfin : s.finished
      · rfl
      · exact absurd (Or.inr hfin) hcond
    have hres : s.result = none := h.unfinished hnf
    split
    · rename_i k hk
      split
      · exact invokeCont_deliv _ k v ⟨fun hx => by simp at hx, h.stored⟩ rfl
      · exact ⟨AllDeliveredAre.nil _ _, ⟨fun hx => by simp at hx, h.stored⟩, rfl⟩
    · split
      · exact ⟨AllDeliveredAre.nil _ _, ⟨fun hx => by simp at hx, h.stored⟩, rfl⟩
      · exact ⟨AllDeliveredAre.nil _ _, ⟨fun hx => by simp at hx, fun r hr => by cases hr; rfl⟩, rfl⟩

theorem step_delivCore (s : St) (op : Op) (v : Nat) (h : DInv s v)
    (hop : ∀ v', op.finishVal = some v' → v' = v) :
    AllDeliveredAre s.kind v (stepCore s op).2 ∧ DInv (stepCore s op).1 v ∧ (stepCore s op).1.kind = s.kind := by
  cases op with
  | thenOp ctx body =>
    simp only [stepCore]
    split
    · exact ⟨AllDeliveredAre.nil _ _, h, rfl⟩
    · split
      · rename_i hf
        split
        · rename_i hk
          have hd : DInv { s with nextId := s.nextId + 1 } v := ⟨h.unfinished, h.stored⟩
          obtain ⟨h1, h2⟩ := runInner_deliv body _ v hd hf
          exact ⟨AllDeliveredAre.cons (by simp [deliveredOf, hk]) h1, h2, (runInner_frame body _).kind_eq⟩
        · rename_i hk
          split
          · rename_i r hr
            have hd : DInv { s with nextId := s.nextId + 1, result := none } v :=
              ⟨fun _ => rfl, fun r' hr' => by cases hr'⟩
            obtain ⟨h1, h2⟩ := runInner_deliv body _ v hd hf
            refine ⟨AllDeliveredAre.cons (by simp [deliveredOf, hk, h.stored r hr]) h1,
              ⟨fun _ => rfl, fun r' hr' => by cases hr'⟩, (runInner_frame body _).kind_eq⟩
          · exact ⟨AllDeliveredAre.nil _ _, ⟨h.unfinished, h.stored⟩, rfl⟩
      · exact ⟨AllDeliveredAre.nil _ _, ⟨h.unfinished, h.stored⟩, rfl⟩
  | finish v' =>
    have hv : v' = v := hop v' rfl
    subst hv
    exact finishCore_deliv s 0 v' h
  | finishK c v' =>
    have hv : v' = v := hop v' rfl
    subst hv
    exact finishCore_deliv s c v' h
  | take =>
    simp only [stepCore]; split
    · exact ⟨AllDeliveredAre.nil _ _, h, rfl⟩
    · exact ⟨AllDeliveredAre.nil _ _, ⟨fun _ => rfl, fun r hr => by cases hr⟩, rfl⟩
  | destroyCtx c => exact ⟨AllDeliveredAre.nil _ _, ⟨h.unfinished, h.stored⟩, rfl⟩
  | copyHandle =>
    simp only [stepCore]; split
    · exact ⟨AllDeliveredAre.nil _ _, h, rfl⟩
    · exact ⟨AllDeliveredAre.nil _ _, ⟨h.unfinished, h.stored⟩, rfl⟩
  | dropHandle =>
    simp only [stepCore]; split
    · exact ⟨AllDeliveredAre.nil _ _, h, rfl⟩
    · split
      · refine ⟨?_, ⟨fun _ => rfl, fun r hr => by cases hr⟩, rfl⟩
        intro k c d hm; simp at hm
      · exact ⟨AllDeliveredAre.nil _ _, ⟨h.unfinished, h.stored⟩, rfl⟩

theorem step_deliv (s : St) (op : Op) (v : Nat) (h : DInv s v)
    (hop : ∀ v', op.finishVal = some v' → v' = v) :
    AllDeliveredAre s.kind v (step s op).2 ∧ DInv (step s op).1 v ∧ (step s op).1.kind = s.kind := by
  obtain ⟨h1, h2, h3⟩ := step_delivCore s op v h hop
  rw [step_fst]
  refine ⟨?_, h2, h3⟩
  unfold step; simp only; split
  · exact h1.append (by intro k c d hm; simp at hm)
  · exact h1

theorem run_deliv (ops : List Op) : ∀ (s : St) (v : Nat), DInv s v →
    (∀ op ∈ ops, ∀ v', op.finishVal = some v' → v' = v) →
    AllDeliveredAre s.kind v (run s ops).2 := by
  induction ops with
  | nil => intro s v _ _; exact AllDeliveredAre.nil _ _
  | cons op ops ih =>
    intro s v h hops
    simp only [Qx.C13.run]
    obtain ⟨h1, h2, h3⟩ := step_deliv s op v h (hops op (by simp))
    have h4 := ih _ v h2 (fun op' hm => hops op' (by simp [hm]))
    rw [h3] at h4
    exact h1.append h4

end Qx.C13
