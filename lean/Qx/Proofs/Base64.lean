/-
Canonicity of the strict Base64 decoder (`Qx.Crypto.Base64.decode?`): it accepts exactly the encoder's image.
Together with `decode?_encode` (Proofs/C06) this is the header claim of Qx/Crypto/Base64.lean:
`decode? s = some b ↔ s = encode b`.  Used by the C06 server-side model (client proof decoding): two different
texts can never decode to the same proof bytes under the strict decoder, and the lenient decoder agrees with the
strict one wherever the strict one accepts.
-/
import Qx.Proofs.C06

namespace Qx.Crypto.Base64
open Qx Qx.Bytes Qx.C06

private def chk (n : Nat) : Bool :=
  match decChar (UInt8.ofNat n) with
  | some v => encChar v == UInt8.ofNat n && decide (v < 64)
  | none => true

private theorem chk_all : ∀ n, n < 256 → chk n = true := by decide +kernel

theorem encChar_decChar {c : UInt8} {v : Nat} (h : decChar c = some v) : encChar v = c ∧ v < 64 := by
  have t := chk_all c.toNat c.toNat_lt
  have hc : UInt8.ofNat c.toNat = c := by apply UInt8.toNat_inj.mp; simp
  unfold chk at t
  rw [hc, h] at t
  simpa using t

private theorem toNat_ofNat_lt {n : Nat} (h : n < 256) : (UInt8.ofNat n).toNat = n := by
  simp [UInt8.toNat_ofNat']; omega

/-- a full group of four alphabet characters is the encoding of the three bytes it decodes to -/
theorem encode_group {c0 c1 c2 c3 : UInt8} {v0 v1 v2 v3 : Nat}
    (h0 : decChar c0 = some v0) (h1 : decChar c1 = some v1) (h2 : decChar c2 = some v2) (h3 : decChar c3 = some v3)
    (t : Bytes) :
    encode (UInt8.ofNat (v0 * 4 + v1 / 16) :: UInt8.ofNat (v1 % 16 * 16 + v2 / 4) :: UInt8.ofNat (v2 % 4 * 64 + v3) :: t)
      = c0 :: c1 :: c2 :: c3 :: encode t := by
  obtain ⟨e0, l0⟩ := encChar_decChar h0
  obtain ⟨e1, l1⟩ := encChar_decChar h1
  obtain ⟨e2, l2⟩ := encChar_decChar h2
  obtain ⟨e3, l3⟩ := encChar_decChar h3
  rw [encode]
  rw [toNat_ofNat_lt (show v0 * 4 + v1 / 16 < 256 by omega), toNat_ofNat_lt (show v1 % 16 * 16 + v2 / 4 < 256 by omega),
    toNat_ofNat_lt (show v2 % 4 * 64 + v3 < 256 by omega)]
  have q0 : ((v0 * 4 + v1 / 16) * 65536 + (v1 % 16 * 16 + v2 / 4) * 256 + (v2 % 4 * 64 + v3)) / 262144 = v0 := by omega
  have q1 : ((v0 * 4 + v1 / 16) * 65536 + (v1 % 16 * 16 + v2 / 4) * 256 + (v2 % 4 * 64 + v3)) / 4096 % 64 = v1 := by omega
  have q2 : ((v0 * 4 + v1 / 16) * 65536 + (v1 % 16 * 16 + v2 / 4) * 256 + (v2 % 4 * 64 + v3)) / 64 % 64 = v2 := by omega
  have q3 : ((v0 * 4 + v1 / 16) * 65536 + (v1 % 16 * 16 + v2 / 4) * 256 + (v2 % 4 * 64 + v3)) % 64 = v3 := by omega
  simp only [q0, q1, q2, q3, e0, e1, e2, e3]

theorem encode_pad1 {c0 c1 c2 : UInt8} {v0 v1 v2 : Nat}
    (h0 : decChar c0 = some v0) (h1 : decChar c1 = some v1) (h2 : decChar c2 = some v2) (hz : v2 % 4 = 0) :
    encode [UInt8.ofNat (v0 * 4 + v1 / 16), UInt8.ofNat (v1 % 16 * 16 + v2 / 4)] = [c0, c1, c2, padChar] := by
  obtain ⟨e0, l0⟩ := encChar_decChar h0
  obtain ⟨e1, l1⟩ := encChar_decChar h1
  obtain ⟨e2, l2⟩ := encChar_decChar h2
  rw [encode]
  rw [toNat_ofNat_lt (show v0 * 4 + v1 / 16 < 256 by omega), toNat_ofNat_lt (show v1 % 16 * 16 + v2 / 4 < 256 by omega)]
  have q0 : ((v0 * 4 + v1 / 16) * 65536 + (v1 % 16 * 16 + v2 / 4) * 256) / 262144 = v0 := by omega
  have q1 : ((v0 * 4 + v1 / 16) * 65536 + (v1 % 16 * 16 + v2 / 4) * 256) / 4096 % 64 = v1 := by omega
  have q2 : ((v0 * 4 + v1 / 16) * 65536 + (v1 % 16 * 16 + v2 / 4) * 256) / 64 % 64 = v2 := by omega
  simp only [q0, q1, q2, e0, e1, e2]

theorem encode_pad2 {c0 c1 : UInt8} {v0 v1 : Nat}
    (h0 : decChar c0 = some v0) (h1 : decChar c1 = some v1) (hz : v1 % 16 = 0) :
    encode [UInt8.ofNat (v0 * 4 + v1 / 16)] = [c0, c1, padChar, padChar] := by
  obtain ⟨e0, l0⟩ := encChar_decChar h0
  obtain ⟨e1, l1⟩ := encChar_decChar h1
  rw [encode]
  rw [toNat_ofNat_lt (show v0 * 4 + v1 / 16 < 256 by omega)]
  have q0 : ((v0 * 4 + v1 / 16) * 65536) / 262144 = v0 := by omega
  have q1 : ((v0 * 4 + v1 / 16) * 65536) / 4096 % 64 = v1 := by omega
  simp only [q0, q1, e0, e1]

/-- the strict decoder accepts only canonical encodings -/
theorem eq_encode_of_decode? : ∀ (s b : Bytes), decode? s = some b → s = encode b
  | [], b, h => by simp [decode?] at h; subst h; rfl
  | [_], b, h => by simp [decode?] at h
  | [_, _], b, h => by simp [decode?] at h
  | [_, _, _], b, h => by simp [decode?] at h
  | [c0, c1, c2, c3], b, h => by
    simp only [decode?] at h
    split at h
    · rename_i v0 v1 h0 h1
      split at h
      · rename_i hp2
        split at h
        · rename_i hc
          cases h
          rw [encode_pad2 h0 h1 hc.2, hp2, hc.1]
        · cases h
      · split at h
        · cases h
        · rename_i v2 h2
          split at h
          · rename_i hp3
            split at h
            · rename_i hz
              cases h
              rw [encode_pad1 h0 h1 h2 hz, hp3]
            · cases h
          · split at h
            · cases h
            · rename_i v3 h3
              cases h
              rw [encode_group h0 h1 h2 h3]; rfl
    · cases h
  | c0 :: c1 :: c2 :: c3 :: c4 :: rest, b, h => by
    simp only [decode?] at h
    split at h
    · rename_i v0 v1 v2 v3 h0 h1 h2 h3
      cases hr : decode? (c4 :: rest) with
      | none => simp [hr] at h
      | some t =>
        simp only [hr, Option.map_some, Option.some.injEq] at h
        subst h
        rw [encode_group h0 h1 h2 h3, ← eq_encode_of_decode? (c4 :: rest) t hr]
    · cases h

/-- header claim of Qx/Crypto/Base64.lean: the strict decoder's graph is exactly the encoder's -/
theorem decode?_eq_some_iff (s b : Bytes) : decode? s = some b ↔ s = encode b :=
  ⟨eq_encode_of_decode? s b, fun h => h ▸ decode?_encode b⟩

/-- the strict decoder is injective on what it accepts: no two texts carry the same bytes -/
theorem decode?_inj {s₁ s₂ b : Bytes} (h₁ : decode? s₁ = some b) (h₂ : decode? s₂ = some b) : s₁ = s₂ := by
  rw [eq_encode_of_decode? _ _ h₁, eq_encode_of_decode? _ _ h₂]

/-- wherever the strict decoder accepts, Qt's lenient `fromBase64` returns the same bytes -/
theorem decodeLenient_of_decode? {s b : Bytes} (h : decode? s = some b) : decodeLenient s = b := by
  rw [eq_encode_of_decode? _ _ h, decodeLenient_encode]

/-- the encoder is injective -/
theorem encode_inj {a b : Bytes} (h : encode a = encode b) : a = b := by
  have := decode?_encode a
  rw [h, decode?_encode] at this
  exact (Option.some.inj this).symm

example : decode? [81, 85, 73, 61] = some [65, 66] := by decide
example : decode? [81, 85, 74, 61] = none := by decide   -- non-zero trailing bits rejected

end Qx.Crypto.Base64
