import Qx.Model.C06Sasl
import Qx.Proofs.Bytes
/-!
Helper lemmas for C06 (`Qx/Props/C06.lean`): base64 and decimal round trips, `splitOn` / `parseGS2` on messages
built by concatenation, the DIGEST-MD5 quoting lemmas, manager invariants.
-/
set_option linter.unusedSimpArgs false
namespace Qx.C06
open Qx Qx.Bytes Qx.Crypto

/-! ## Base64 -/
section b64
open Qx.Crypto.Base64

theorem decChar_encChar : ∀ v, v < 64 → decChar (encChar v) = some v := by decide

theorem decChar_pad : decChar padChar = none := by decide

theorem encChar_ne_comma : ∀ v, v < 64 → encChar v ≠ 44 := by decide

private theorem ofNat_toNat (a : UInt8) : UInt8.ofNat a.toNat = a := by
  apply UInt8.toNat_inj.mp; simp

private theorem ofNat_eq (a : UInt8) (n : Nat) (h : n = a.toNat) : UInt8.ofNat n = a := by
  subst h; exact ofNat_toNat a

theorem lg_skip {c : UInt8} (h : decChar c = none) (rest : Bytes) (buf nb : Nat) :
    lenientGo (c :: rest) buf nb = lenientGo rest buf nb := by
  simp [lenientGo, h]

theorem lg0 {c : UInt8} {d : Nat} (h : decChar c = some d) (rest : Bytes) (buf : Nat) :
    lenientGo (c :: rest) buf 0 = lenientGo rest (buf * 64 + d) 6 := by
  simp [lenientGo, h]

theorem lg6 {c : UInt8} {d : Nat} (h : decChar c = some d) (rest : Bytes) (buf : Nat) :
    lenientGo (c :: rest) buf 6
      = UInt8.ofNat ((buf * 64 + d) / 16) :: lenientGo rest ((buf * 64 + d) % 16) 4 := by
  simp [lenientGo, h]

theorem lg4 {c : UInt8} {d : Nat} (h : decChar c = some d) (rest : Bytes) (buf : Nat) :
    lenientGo (c :: rest) buf 4
      = UInt8.ofNat ((buf * 64 + d) / 4) :: lenientGo rest ((buf * 64 + d) % 4) 2 := by
  simp [lenientGo, h]

theorem lg2 {c : UInt8} {d : Nat} (h : decChar c = some d) (rest : Bytes) (buf : Nat) :
    lenientGo (c :: rest) buf 2
      = UInt8.ofNat (buf * 64 + d) :: lenientGo rest 0 0 := by
  simp [lenientGo, h, Nat.mod_one]

theorem lenient_group (a b c : UInt8) (tail : Bytes) :
    lenientGo (encChar ((a.toNat * 65536 + b.toNat * 256 + c.toNat) / 262144)
      :: encChar ((a.toNat * 65536 + b.toNat * 256 + c.toNat) / 4096 % 64)
      :: encChar ((a.toNat * 65536 + b.toNat * 256 + c.toNat) / 64 % 64)
      :: encChar ((a.toNat * 65536 + b.toNat * 256 + c.toNat) % 64) :: tail) 0 0
      = a :: b :: c :: lenientGo tail 0 0 := by
  have ha := a.toNat_lt
  have hb := b.toNat_lt
  have hc := c.toNat_lt
  rw [lg0 (decChar_encChar _ (by omega)), lg6 (decChar_encChar _ (by omega)),
    lg4 (decChar_encChar _ (by omega)), lg2 (decChar_encChar _ (by omega))]
  rw [ofNat_eq a _ (by omega), ofNat_eq b _ (by omega), ofNat_eq c _ (by omega)]

/-- the lenient decoder (`QByteArray::fromBase64`) inverts the encoder -/
theorem decodeLenient_encode (x : Bytes) : decodeLenient (encode x) = x := by
  unfold decodeLenient
  induction x using encode.induct with
  | case1 a b c rest ih =>
    rw [encode]
    rw [lenient_group, ih]
  | case2 a b =>
    have ha := a.toNat_lt
    have hb := b.toNat_lt
    rw [encode]
    rw [lg0 (decChar_encChar _ (by omega)), lg6 (decChar_encChar _ (by omega)),
      lg4 (decChar_encChar _ (by omega)), lg_skip decChar_pad]
    rw [ofNat_eq a _ (by omega), ofNat_eq b _ (by omega)]
    simp [lenientGo]
  | case3 a =>
    have ha := a.toNat_lt
    rw [encode]
    rw [lg0 (decChar_encChar _ (by omega)), lg6 (decChar_encChar _ (by omega)),
      lg_skip decChar_pad, lg_skip decChar_pad]
    rw [ofNat_eq a _ (by omega)]
    simp [lenientGo]
  | case4 => simp [encode, lenientGo]

theorem encChar_ne_pad : ∀ v, v < 64 → encChar v ≠ padChar := by decide

theorem encode_eq_nil {x : Bytes} (h : encode x = []) : x = [] := by
  match x, h with
  | [], _ => rfl
  | [_], h => simp [encode] at h
  | [_, _], h => simp [encode] at h
  | _ :: _ :: _ :: _, h => simp [encode] at h

/-- the strict RFC 4648 decoder inverts the encoder -/
theorem decode?_encode (x : Bytes) : decode? (encode x) = some x := by
  induction x using encode.induct with
  | case1 a b c rest ih =>
    have ha := a.toNat_lt
    have hb := b.toNat_lt
    have hc := c.toNat_lt
    rw [encode]
    cases hr : encode rest with
    | nil =>
      have hrest := encode_eq_nil hr
      subst hrest
      simp only [decode?]
      rw [decChar_encChar _ (by omega), decChar_encChar _ (by omega)]
      simp only [encChar_ne_pad _ (show (a.toNat * 65536 + b.toNat * 256 + c.toNat) / 64 % 64 < 64 by omega),
        encChar_ne_pad _ (show (a.toNat * 65536 + b.toNat * 256 + c.toNat) % 64 < 64 by omega), if_false]
      rw [decChar_encChar _ (by omega), decChar_encChar _ (by omega)]
      simp only []
      rw [ofNat_eq a _ (by omega), ofNat_eq b _ (by omega), ofNat_eq c _ (by omega)]
    | cons y ys =>
      simp only [decode?]
      rw [decChar_encChar _ (by omega), decChar_encChar _ (by omega), decChar_encChar _ (by omega),
        decChar_encChar _ (by omega)]
      simp only []
      rw [← hr, ih]
      simp only [Option.map_some]
      rw [ofNat_eq a _ (by omega), ofNat_eq b _ (by omega), ofNat_eq c _ (by omega)]
  | case2 a b =>
    have ha := a.toNat_lt
    have hb := b.toNat_lt
    rw [encode]
    simp only [decode?]
    rw [decChar_encChar _ (by omega), decChar_encChar _ (by omega)]
    simp only [encChar_ne_pad _ (show (a.toNat * 65536 + b.toNat * 256) / 64 % 64 < 64 by omega), if_false]
    rw [decChar_encChar _ (by omega)]
    simp only [if_true]
    rw [if_pos (by omega)]
    rw [ofNat_eq a _ (by omega), ofNat_eq b _ (by omega)]
  | case3 a =>
    have ha := a.toNat_lt
    rw [encode]
    simp only [decode?]
    rw [decChar_encChar _ (by omega), decChar_encChar _ (by omega)]
    simp only [if_true, true_and]
    rw [if_pos (by omega)]
    rw [ofNat_eq a _ (by omega)]
  | case4 => simp [encode, decode?]

/-- no comma in base64 text -/
theorem comma_not_mem_encode (x : Bytes) : (44 : UInt8) ∉ encode x := by
  induction x using encode.induct with
  | case1 a b c rest ih =>
    have ha := a.toNat_lt
    have hb := b.toNat_lt
    have hc := c.toNat_lt
    rw [encode]
    simp only [List.mem_cons, not_or]
    exact ⟨(encChar_ne_comma _ (by omega)).symm, (encChar_ne_comma _ (by omega)).symm,
      (encChar_ne_comma _ (by omega)).symm, (encChar_ne_comma _ (by omega)).symm, ih⟩
  | case2 a b =>
    have ha := a.toNat_lt
    have hb := b.toNat_lt
    rw [encode]
    simp only [List.mem_cons, not_or, List.not_mem_nil, not_false_eq_true, and_true]
    exact ⟨(encChar_ne_comma _ (by omega)).symm, (encChar_ne_comma _ (by omega)).symm,
      (encChar_ne_comma _ (by omega)).symm, by decide⟩
  | case3 a =>
    have ha := a.toNat_lt
    rw [encode]
    simp only [List.mem_cons, not_or, List.not_mem_nil, not_false_eq_true, and_true]
    exact ⟨(encChar_ne_comma _ (by omega)).symm, (encChar_ne_comma _ (by omega)).symm, by decide, by decide⟩
  | case4 => simp [encode]

end b64

/-! ## decimal text and `QByteArray::toInt` -/

theorem takeWhile_all {α} {p : α → Bool} {l : List α} (h : ∀ a ∈ l, p a = true) : l.takeWhile p = l := by
  have := List.takeWhile_append_of_pos (p := p) (l₁ := l) (l₂ := []) h
  simpa using this

theorem dropWhile_all {α} {p : α → Bool} {l : List α} (h : ∀ a ∈ l, p a = true) : l.dropWhile p = [] := by
  have := List.dropWhile_append_of_pos (p := p) (l₁ := l) (l₂ := []) h
  simpa using this

theorem isDigit_iff (c : UInt8) : isDigit c = true ↔ 48 ≤ c.toNat ∧ c.toNat ≤ 57 := by
  simp [isDigit, UInt8.le_iff_toNat_le]

theorem isSpace_iff (c : UInt8) : isSpace c = true ↔ c.toNat = 32 ∨ (9 ≤ c.toNat ∧ c.toNat ≤ 13) := by
  simp [isSpace, UInt8.le_iff_toNat_le, ← UInt8.toNat_inj]

theorem digit_ofNat (n : Nat) (h : n < 10) : isDigit (UInt8.ofNat (48 + n)) = true ∧ (UInt8.ofNat (48 + n)).toNat - 48 = n := by
  rw [isDigit_iff]
  have : (UInt8.ofNat (48 + n)).toNat = 48 + n := by simp [UInt8.toNat_ofNat']; omega
  omega

theorem natDecGo_digits (fuel n : Nat) (acc : Bytes) (h : ∀ c ∈ acc, isDigit c = true) :
    ∀ c ∈ Ref.natDecGo fuel n acc, isDigit c = true := by
  induction fuel generalizing n acc with
  | zero => simpa [Ref.natDecGo] using h
  | succ f ih =>
    unfold Ref.natDecGo
    split
    · rename_i hlt
      intro c hc
      rcases List.mem_cons.mp hc with rfl | hc
      · exact (digit_ofNat n hlt).1
      · exact h c hc
    · apply ih
      intro c hc
      rcases List.mem_cons.mp hc with rfl | hc
      · exact (digit_ofNat (n % 10) (by omega)).1
      · exact h c hc

theorem natDecGo_ne_nil (fuel n : Nat) (acc : Bytes) (h : acc ≠ [] ∨ 0 < fuel) : Ref.natDecGo fuel n acc ≠ [] := by
  induction fuel generalizing n acc with
  | zero => rcases h with h | h; · simpa [Ref.natDecGo] using h
            · omega
  | succ f ih =>
    unfold Ref.natDecGo
    split
    · simp
    · exact ih _ _ (Or.inl (by simp))

theorem digitsFold (l : Bytes) (a : Nat) :
    l.foldl (fun a d => a * 10 + (d.toNat - 48)) a = a * 10 ^ l.length + digitsVal l := by
  induction l generalizing a with
  | nil => simp [digitsVal]
  | cons d t ih =>
    simp only [List.foldl_cons, digitsVal, List.length_cons]
    rw [ih, ih (0 * 10 + (d.toNat - 48))]
    simp only [Nat.zero_mul, Nat.zero_add, digitsVal, Nat.pow_succ]
    rw [Nat.add_mul, Nat.mul_assoc, Nat.mul_comm 10 (10 ^ t.length)]
    omega

theorem digitsVal_natDecGo (fuel n : Nat) (acc : Bytes) (h : n < fuel) :
    digitsVal (Ref.natDecGo fuel n acc) = n * 10 ^ acc.length + digitsVal acc := by
  induction fuel generalizing n acc with
  | zero => omega
  | succ f ih =>
    unfold Ref.natDecGo
    split
    · rename_i hlt
      rw [digitsVal, List.foldl_cons, digitsFold, (digit_ofNat n hlt).2]
      simp
    · rw [ih _ _ (by omega)]
      rw [digitsVal, List.foldl_cons, digitsFold, (digit_ofNat (n % 10) (by omega)).2]
      simp only [Nat.zero_mul, Nat.zero_add, List.length_cons, Nat.pow_succ]
      have hdm : n / 10 * 10 + n % 10 = n := Nat.div_add_mod' n 10
      calc n / 10 * (10 ^ acc.length * 10) + (n % 10 * 10 ^ acc.length + digitsVal acc)
          = (n / 10 * 10 + n % 10) * 10 ^ acc.length + digitsVal acc := by
            rw [Nat.add_mul, Nat.mul_comm (10 ^ acc.length) 10, ← Nat.mul_assoc]; omega
        _ = n * 10 ^ acc.length + digitsVal acc := by rw [hdm]

theorem natDec_digits (n : Nat) : ∀ c ∈ Ref.natDec n, isDigit c = true :=
  natDecGo_digits _ _ _ (by simp)

theorem natDec_ne_nil (n : Nat) : Ref.natDec n ≠ [] := natDecGo_ne_nil _ _ _ (Or.inr (by omega))

theorem digitsVal_natDec (n : Nat) : digitsVal (Ref.natDec n) = n := by
  rw [Ref.natDec, digitsVal_natDecGo _ _ _ (by omega)]; simp [digitsVal]

theorem comma_not_mem_natDec (n : Nat) : (44 : UInt8) ∉ Ref.natDec n := by
  intro h
  have := (isDigit_iff _).mp (natDec_digits n _ h)
  simp at this

/-- on a non-empty string of digits `toInt` is the decimal value (when it fits an `int`) -/
theorem toInt_digits (ds : Bytes) (hne : ds ≠ []) (hd : ∀ c ∈ ds, isDigit c = true)
    (hv : digitsVal ds ≤ 2147483647) : toInt ds = (digitsVal ds : Int) := by
  obtain ⟨d, t, rfl⟩ := List.exists_cons_of_ne_nil hne
  have hdd := (isDigit_iff d).mp (hd d (by simp))
  have h1 : (d :: t).takeWhile (· != 0) = d :: t := by
    apply takeWhile_all
    intro c hc
    have := (isDigit_iff c).mp (hd c hc)
    have hne : c ≠ 0 := by intro h0; subst h0; simp at this
    simpa using hne
  have h2 : (d :: t).dropWhile isSpace = d :: t := by
    apply List.dropWhile_cons_of_neg
    intro hs
    have := (isSpace_iff d).mp hs
    omega
  have h3 : (d :: t).takeWhile isDigit = d :: t := takeWhile_all hd
  have h4 : (d :: t).dropWhile isDigit = [] := dropWhile_all hd
  have h45 : d ≠ 45 := by intro h; subst h; simp at hdd
  have h43 : d ≠ 43 := by intro h; subst h; simp at hdd
  simp only [toInt, h1, h2]
  simp [h45, h43, h3, h4, hv]

theorem toInt_natDec (n : Nat) (h : n ≤ 2147483647) : toInt (Ref.natDec n) = (n : Int) := by
  rw [toInt_digits _ (natDec_ne_nil n) (natDec_digits n) (by rw [digitsVal_natDec]; exact h), digitsVal_natDec]

/-- a value without any digit is not a number: `toInt` gives 0 -/
theorem toInt_no_digit (v : Bytes) (h : ∀ c ∈ v, isDigit c = false) : toInt v = 0 := by
  unfold toInt
  simp only []
  have key : ∀ l : Bytes, (∀ c ∈ l, c ∈ v) → l.takeWhile isDigit = [] := by
    intro l hl
    cases l with
    | nil => rfl
    | cons x xs => simp [List.takeWhile, h x (hl x (by simp))]
  have hsub : ∀ c ∈ (v.takeWhile (· != 0)).dropWhile isSpace, c ∈ v := fun c hc =>
    (List.takeWhile_sublist _).subset ((List.dropWhile_sublist _).subset hc)
  split
  · rename_i hsign
    rw [key _ (fun c hc => hsub c (List.mem_of_mem_tail hc))]; simp
  · rw [key _ hsub]; simp

/-! ## `split`, `parseGS2` -/

theorem splitOn_no_sep (sep : UInt8) (a : Bytes) (h : sep ∉ a) : splitOn sep a = [a] := by
  induction a with
  | nil => rfl
  | cons x xs ih =>
    have hx : x ≠ sep := fun e => h (by simp [e])
    have hxs : sep ∉ xs := fun e => h (by simp [e])
    simp [splitOn, hx, ih hxs]

theorem splitOn_append (sep : UInt8) (a b : Bytes) (h : sep ∉ a) :
    splitOn sep (a ++ sep :: b) = a :: splitOn sep b := by
  induction a with
  | nil => simp [splitOn]
  | cons x xs ih =>
    have hx : x ≠ sep := fun e => h (by simp [e])
    have hxs : sep ∉ xs := fun e => h (by simp [e])
    simp [splitOn, hx, ih hxs]

/-- what the client reads out of an RFC 5802 server-first message -/
theorem parseGS2_serverFirst (nonce s64 dec : Bytes) (hn : (44 : UInt8) ∉ nonce) (hs : (44 : UInt8) ∉ s64)
    (hd : (44 : UInt8) ∉ dec) :
    parseGS2 ([114, 61] ++ nonce ++ ([44, 115, 61] ++ s64) ++ ([44, 105, 61] ++ dec))
      = [(114, nonce), (115, s64), (105, dec)] := by
  have e : ([114, 61] ++ nonce ++ ([44, 115, 61] ++ s64) ++ ([44, 105, 61] ++ dec) : Bytes)
      = (114 :: 61 :: nonce) ++ 44 :: ((115 :: 61 :: s64) ++ 44 :: (105 :: 61 :: dec)) := by simp
  rw [parseGS2, e, splitOn_append _ _ _ (by simpa using hn), splitOn_append _ _ _ (by simpa using hs),
    splitOn_no_sep _ _ (by simpa using hd)]
  simp [gs2Field]

theorem parseGS2_serverFinal (v64 : Bytes) (hv : (44 : UInt8) ∉ v64) :
    parseGS2 (118 :: 61 :: v64) = [(118, v64)] := by
  rw [parseGS2, splitOn_no_sep _ _ (by simpa using hv)]
  simp [gs2Field]

theorem gs2Get_nil (k : UInt8) : gs2Get [] k = [] := rfl

/-- a key that does not occur reads as the empty array -/
theorem gs2Get_absent (m : List (UInt8 × Bytes)) (k : UInt8) (h : ∀ p ∈ m, p.1 ≠ k) : gs2Get m k = [] := by
  unfold gs2Get
  suffices ∀ acc, m.foldl (fun acc p => if p.1 = k then p.2 else acc) acc = acc from this []
  induction m with
  | nil => intro acc; rfl
  | cons p t ih =>
    intro acc
    simp only [List.foldl_cons, if_neg (h p (by simp))]
    exact ih (fun q hq => h q (by simp [hq])) acc

/-! ## `stripPrefix` -/

theorem stripPrefix_append (p l : Bytes) : Ref.stripPrefix p (p ++ l) = some l := by
  induction p with
  | nil => simp [Ref.stripPrefix]
  | cons a t ih => simp [Ref.stripPrefix, ih]

theorem stripPrefix_some {p l r : Bytes} (h : Ref.stripPrefix p l = some r) : l = p ++ r := by
  induction p generalizing l with
  | nil => simp [Ref.stripPrefix] at h; simp [h]
  | cons a t ih =>
    cases l with
    | nil => simp [Ref.stripPrefix] at h
    | cons b l' =>
      simp only [Ref.stripPrefix] at h
      split at h
      · rename_i hab; subst hab; simp [ih h]
      · simp at h

theorem encode_gs2Header : Base64.encode sGs2Header = [98, 105, 119, 115] := by decide

/-! ## the SCRAM exchange -/

/-- `client-first-message-bare` as the client builds it -/
def scramBare (cr : Cred) : Bytes := sNEq ++ scramSaslName cr.user ++ sCommaREq ++ cr.cnonce

/-- the AuthMessage as the client computes it for server-first message `sf` carrying nonce `nonce` -/
def scramAuthMessage (cr : Cred) (sf nonce : Bytes) : Bytes :=
  scramBare cr ++ 44 :: (sf ++ 44 :: scramFinalBare nonce)

/-- the client's state after the client-first message -/
def scramSt1 (cr : Cred) : ScramSt := { step := 1, firstBare := scramBare cr }

theorem scram_step0 (C : Crypto) (cr : Cred) (ch : Bytes) :
    scramStep C cr {} ch = (scramSt1 cr, some (sGs2Header ++ scramBare cr)) := by
  simp [scramStep, scramSt1, scramBare]

/-- what step 1 does once the three checks pass -/
theorem scram_step1_ok (C : Crypto) (cr : Cred) (s : ScramSt) (ch : Bytes) (hstep : s.step = 1)
    (hm : gs2Has (parseGS2 ch) 109 = false)
    (hn : cr.cnonce.isPrefixOf (gs2Get (parseGS2 ch) 114) = true)
    (hs : Base64.decodeLenient (gs2Get (parseGS2 ch) 115) ≠ [])
    (hi : 1 ≤ toInt (gs2Get (parseGS2 ch) 105)) :
    scramStep C cr s ch =
      (let nonce := gs2Get (parseGS2 ch) 114
       let salted := C.Hi cr.pass (Base64.decodeLenient (gs2Get (parseGS2 ch) 115)) (toInt (gs2Get (parseGS2 ch) 105)).toNat
       let am := s.firstBare ++ 44 :: (ch ++ 44 :: scramFinalBare nonce)
       ({ s with step := 2, serverSig := C.HMAC (C.HMAC salted sServerKey) am },
        some (scramFinalBare nonce ++ sCommaPEq ++
          Base64.encode (xorBytes (C.HMAC (C.H (C.HMAC salted sClientKey)) am) (C.HMAC salted sClientKey))))) := by
  have hs' : (Base64.decodeLenient (gs2Get (parseGS2 ch) 115)).isEmpty = false := by
    cases h : Base64.decodeLenient (gs2Get (parseGS2 ch) 115) with
    | nil => exact absurd h hs
    | cons _ _ => rfl
  have hi' : ¬ toInt (gs2Get (parseGS2 ch) 105) < 1 := by omega
  simp [scramStep, hstep, hm, hn, hs', hi']

theorem scramFinalBare_eq (nonce : Bytes) : scramFinalBare nonce = Ref.clientFinalWithoutProof nonce := by
  simp [scramFinalBare, encode_gs2Header, Ref.clientFinalWithoutProof, sCEq, sCommaREq]

theorem isPrefixOf_append (a b : Bytes) : a.isPrefixOf (a ++ b) = true := by
  induction a with
  | nil => simp [List.isPrefixOf]
  | cons x xs ih => simp [ih]

/-- reading an RFC-built server-first message -/
theorem scram_reads_serverFirst (cnonce snonce salt : Bytes) (i : Nat) (hc : (44 : UInt8) ∉ cnonce)
    (hsn : (44 : UInt8) ∉ snonce) (hi : i ≤ 2147483647) :
    gs2Has (parseGS2 (Ref.serverFirst cnonce snonce salt i)) 109 = false
    ∧ gs2Get (parseGS2 (Ref.serverFirst cnonce snonce salt i)) 114 = cnonce ++ snonce
    ∧ Base64.decodeLenient (gs2Get (parseGS2 (Ref.serverFirst cnonce snonce salt i)) 115) = salt
    ∧ toInt (gs2Get (parseGS2 (Ref.serverFirst cnonce snonce salt i)) 105) = (i : Int) := by
  have hp := parseGS2_serverFirst (cnonce ++ snonce) (Base64.encode salt) (Ref.natDec i)
    (by simp [hc, hsn]) (comma_not_mem_encode salt) (comma_not_mem_natDec i)
  unfold Ref.serverFirst
  rw [hp]
  refine ⟨by simp [gs2Has], by simp [gs2Get], ?_, ?_⟩
  · simp [gs2Get, decodeLenient_encode]
  · simp [gs2Get, toInt_natDec i hi]

/-- the two `replace` calls of the client are the RFC 5802 §5.1 `saslname` transformation -/
theorem scramSaslName_eq (u : Bytes) : scramSaslName u = Ref.saslName u := by
  unfold scramSaslName
  induction u with
  | nil => rfl
  | cons x xs ih =>
    by_cases h61 : x = 61
    · subst h61; simp [replace1, Ref.saslName, ih]
    · by_cases h44 : x = 44
      · subst h44; simp [replace1, Ref.saslName, ih]
      · simp [replace1, Ref.saslName, h61, h44, ih]

/-- the client's state after it answered the RFC-built server-first message -/
def scramSt2 (C : Crypto) (cr : Cred) (salt snonce : Bytes) (i : Nat) : ScramSt :=
  { step := 2, firstBare := scramBare cr,
    serverSig := C.HMAC (C.HMAC (C.Hi cr.pass salt i) sServerKey)
      (scramAuthMessage cr (Ref.serverFirst cr.cnonce snonce salt i) (cr.cnonce ++ snonce)),
    verified := false }

/-- the client's answer to an RFC-built server-first message -/
theorem scram_step1_honest (C : Crypto) (cr : Cred) (salt snonce : Bytes) (i : Nat)
    (hsalt : salt ≠ []) (hi : 1 ≤ i ∧ i ≤ 2147483647)
    (hc : (44 : UInt8) ∉ cr.cnonce) (hs : (44 : UInt8) ∉ snonce) :
    scramStep C cr (scramSt1 cr) (Ref.serverFirst cr.cnonce snonce salt i) =
      (scramSt2 C cr salt snonce i,
       some (scramFinalBare (cr.cnonce ++ snonce) ++ sCommaPEq ++
         Base64.encode (xorBytes
           (C.HMAC (C.H (C.HMAC (C.Hi cr.pass salt i) sClientKey))
             (scramAuthMessage cr (Ref.serverFirst cr.cnonce snonce salt i) (cr.cnonce ++ snonce)))
           (C.HMAC (C.Hi cr.pass salt i) sClientKey)))) := by
  obtain ⟨hm, hr, hsl, hit⟩ := scram_reads_serverFirst cr.cnonce snonce salt i hc hs hi.2
  rw [scram_step1_ok C cr (scramSt1 cr) _ rfl hm (by rw [hr]; exact isPrefixOf_append _ _) (by rw [hsl]; exact hsalt)
    (by rw [hit]; omega)]
  simp only [hr, hsl, hit, Int.toNat_natCast, scramAuthMessage, scramSt1, scramSt2]

/-- the reference server on a client-final message of the shape the client produces, for an arbitrary record -/
theorem refServer_on_client_final (C : Crypto) (rec : Ref.ScramRecord) (cr : Cred) (sf nonce proof : Bytes) :
    Ref.scramServerFinal C rec (sGs2Header ++ scramBare cr) sf nonce
        (scramFinalBare nonce ++ sCommaPEq ++ Base64.encode proof)
      = if proof.length = (C.HMAC rec.storedKey (scramAuthMessage cr sf nonce)).length
            ∧ C.H (xorBytes proof (C.HMAC rec.storedKey (scramAuthMessage cr sf nonce))) = rec.storedKey
        then some ([118, 61] ++ Base64.encode (C.HMAC rec.serverKey (scramAuthMessage cr sf nonce)))
        else none := by
  have e1 : Ref.stripPrefix [110, 44, 44] (sGs2Header ++ scramBare cr) = some (scramBare cr) :=
    stripPrefix_append [110, 44, 44] (scramBare cr)
  have e2 : Ref.stripPrefix (Ref.clientFinalWithoutProof nonce ++ [44, 112, 61])
      (scramFinalBare nonce ++ sCommaPEq ++ Base64.encode proof) = some (Base64.encode proof) := by
    rw [scramFinalBare_eq]
    exact stripPrefix_append _ _
  have e3 : scramBare cr ++ [44] ++ sf ++ [44] ++ Ref.clientFinalWithoutProof nonce = scramAuthMessage cr sf nonce := by
    simp [scramAuthMessage, scramFinalBare_eq]
  simp only [Ref.scramServerFinal, e1, e2, decode?_encode, e3]

/-- the RFC server-final message carrying the expected signature is accepted -/
theorem scram_step2_honest (C : Crypto) (cr : Cred) (s : ScramSt) (hstep : s.step = 2) :
    scramStep C cr s ([118, 61] ++ Base64.encode s.serverSig) = ({ s with step := 3, verified := true }, some []) := by
  have hp : parseGS2 ([118, 61] ++ Base64.encode s.serverSig) = [(118, Base64.encode s.serverSig)] :=
    parseGS2_serverFinal _ (comma_not_mem_encode _)
  simp only [scramStep, hstep, hp]
  simp [gs2Get, gs2Has, decodeLenient_encode]

theorem scram_full_exchange (C : Crypto) (n : Nat) (hM : ∀ k m, (C.HMAC k m).length = n)
    (cr : Cred) (salt snonce : Bytes) (i : Nat)
    (hsalt : salt ≠ []) (hi : 1 ≤ i ∧ i ≤ 2147483647)
    (hc : (44 : UInt8) ∉ cr.cnonce) (hs : (44 : UInt8) ∉ snonce) :
    ∃ cf1 cf sfin,
      (scramStep C cr {} []).2 = some cf1
      ∧ (scramStep C cr (scramStep C cr {} []).1 (Ref.serverFirst cr.cnonce snonce salt i)).2 = some cf
      ∧ Ref.scramServerFinal C (Ref.scramRecordOf C cr.pass salt i) cf1
          (Ref.serverFirst cr.cnonce snonce salt i) (cr.cnonce ++ snonce) cf = some sfin
      ∧ (scramStep C cr (scramStep C cr (scramStep C cr {} []).1 (Ref.serverFirst cr.cnonce snonce salt i)).1 sfin).2 = some []
      ∧ (scramStep C cr (scramStep C cr (scramStep C cr {} []).1 (Ref.serverFirst cr.cnonce snonce salt i)).1 sfin).1.verified = true := by
  rw [scram_step0, scram_step1_honest C cr salt snonce i hsalt hi hc hs]
  refine ⟨_, _, [118, 61] ++ Base64.encode (C.HMAC (C.HMAC (C.Hi cr.pass salt i) sServerKey)
    (scramAuthMessage cr (Ref.serverFirst cr.cnonce snonce salt i) (cr.cnonce ++ snonce))), rfl, rfl, ?_, ?_, ?_⟩
  · rw [refServer_on_client_final]
    apply if_pos
    constructor
    · rw [xorBytes_length, hM, hM, hM]; exact Nat.min_self n
    · show C.H (xorBytes (xorBytes (C.HMAC (C.H (C.HMAC (C.Hi cr.pass salt i) sClientKey)) _)
          (C.HMAC (C.Hi cr.pass salt i) sClientKey)) (C.HMAC (C.H (C.HMAC (C.Hi cr.pass salt i) sClientKey)) _))
        = C.H (C.HMAC (C.Hi cr.pass salt i) sClientKey)
      rw [xorBytes_comm (C.HMAC _ _) (C.HMAC (C.Hi cr.pass salt i) sClientKey),
        xorBytes_self_cancel _ _ (by rw [hM, hM])]
  · exact congrArg Prod.snd (scram_step2_honest C cr (scramSt2 C cr salt snonce i) rfl)
  · exact congrArg (fun r => r.1.verified) (scram_step2_honest C cr (scramSt2 C cr salt snonce i) rfl)

theorem scram_other_record (C : Crypto) (n : Nat) (hM : ∀ k m, (C.HMAC k m).length = n)
    (cr : Cred) (salt snonce : Bytes) (i : Nat) (rec : Ref.ScramRecord)
    (hsalt : salt ≠ []) (hi : 1 ≤ i ∧ i ≤ 2147483647)
    (hc : (44 : UInt8) ∉ cr.cnonce) (hs : (44 : UInt8) ∉ snonce) :
    ∃ cf1 cf am,
      (scramStep C cr {} []).2 = some cf1
      ∧ (scramStep C cr (scramStep C cr {} []).1 (Ref.serverFirst cr.cnonce snonce salt i)).2 = some cf
      ∧ (Ref.scramServerVerify C rec cf1 (Ref.serverFirst cr.cnonce snonce salt i) (cr.cnonce ++ snonce) cf = true ↔
          C.H (xorBytes (xorBytes (C.HMAC (Ref.storedKey C (Ref.saltedPassword C cr.pass salt i)) am)
                  (Ref.clientKey C (Ref.saltedPassword C cr.pass salt i)))
                (C.HMAC rec.storedKey am)) = rec.storedKey) := by
  rw [scram_step0, scram_step1_honest C cr salt snonce i hsalt hi hc hs]
  refine ⟨_, _, scramAuthMessage cr (Ref.serverFirst cr.cnonce snonce salt i) (cr.cnonce ++ snonce), rfl, rfl, ?_⟩
  rw [Ref.scramServerVerify, refServer_on_client_final]
  simp only [Ref.storedKey, Ref.clientKey, Ref.saltedPassword]
  have hl : (xorBytes (C.HMAC (C.H (C.HMAC (C.Hi cr.pass salt i) sClientKey))
        (scramAuthMessage cr (Ref.serverFirst cr.cnonce snonce salt i) (cr.cnonce ++ snonce)))
      (C.HMAC (C.Hi cr.pass salt i) sClientKey)).length
      = (C.HMAC rec.storedKey (scramAuthMessage cr (Ref.serverFirst cr.cnonce snonce salt i) (cr.cnonce ++ snonce))).length := by
    rw [xorBytes_length, hM, hM, hM]; exact Nat.min_self n
  simp [hl]

/-! ## DIGEST-MD5 quoting: `parseMessage (serializeMessage m) = m` -/

/-- one-pass form of `escape` -/
def escd : Bytes → Bytes
  | [] => []
  | c :: t => if c = 92 then 92 :: 92 :: escd t else if c = 34 then 92 :: 34 :: escd t else c :: escd t

theorem escape_eq_escd (v : Bytes) : escape v = escd v := by
  unfold escape
  induction v with
  | nil => rfl
  | cons c t ih =>
    by_cases h92 : c = 92
    · subst h92; simp [replace1, escd, ih]
    · by_cases h34 : c = 34
      · subst h34; simp [replace1, escd, ih]
      · simp [replace1, escd, h92, h34, ih]

/-- the quoted-pair scanner reads an escaped value back, whatever the value -/
theorem scanQuoted_escd (v rest : Bytes) : scanQuoted (escd v ++ 34 :: rest) = some (v, rest) := by
  induction v with
  | nil => cases rest <;> simp [escd, scanQuoted]
  | cons c t ih =>
    by_cases h92 : c = 92
    · subst h92
      simp only [escd, if_true, List.cons_append]
      rw [scanQuoted]
      simp [ih]
    · by_cases h34 : c = 34
      · subst h34
        simp only [escd, if_neg h92, if_true, List.cons_append]
        rw [scanQuoted]
        simp [ih]
      · simp only [escd, if_neg h92, if_neg h34, List.cons_append]
        cases he : escd t ++ 34 :: rest with
        | nil => simp at he
        | cons d r =>
          rw [scanQuoted]
          simp only [if_neg h34, if_neg h92]
          rw [← he, ih]
          rfl

theorem splitAt1_append (c : UInt8) (a b : Bytes) (h : c ∉ a) : splitAt1 c (a ++ c :: b) = some (a, b) := by
  induction a with
  | nil => simp [splitAt1]
  | cons x xs ih =>
    have hx : x ≠ c := fun e => h (by simp [e])
    simp [splitAt1, hx, ih (fun e => h (by simp [e]))]

theorem idxOrEnd_append (c : UInt8) (a tailS : Bytes) (h : c ∉ a) (ht : tailS = [] ∨ tailS.head? = some c) :
    idxOrEnd c (a ++ tailS) = a.length := by
  induction a with
  | nil =>
    rcases ht with rfl | ht
    · rfl
    · cases tailS with
      | nil => rfl
      | cons y t => simp at ht; simp [idxOrEnd, ht]
  | cons x xs ih =>
    have hx : x ≠ c := fun e => h (by simp [e])
    simp [idxOrEnd, hx, ih (fun e => h (by simp [e]))]

theorem parseGo_nil (fuel : Nat) (acc : DMap) : parseGo fuel [] acc = acc := by
  cases fuel <;> simp [parseGo, splitAt1]

theorem seps_facts (v : Bytes) (h : needsQuote v = false) : (34 : UInt8) ∉ v ∧ (44 : UInt8) ∉ v := by
  simp only [needsQuote, List.any_eq_false] at h
  constructor
  · intro hm; exact absurd (h _ hm) (by decide)
  · intro hm; exact absurd (h _ hm) (by decide)

/-- the value part of one serialized entry -/
def valEnc (v : Bytes) : Bytes := if needsQuote v then 34 :: (escape v ++ [34]) else v

theorem serEntry_eq (kv : Bytes × Bytes) : serEntry kv = kv.1 ++ 61 :: valEnc kv.2 := rfl

/-- one round of the parse loop on one serialized entry followed by nothing or by `,…` -/
theorem parseGo_entry (fuel : Nat) (k v tailS : Bytes) (acc : DMap)
    (hk : (61 : UInt8) ∉ k) (hkt : trim k = k)
    (ht : tailS = [] ∨ tailS.head? = some 44) :
    parseGo (fuel + 1) (k ++ 61 :: (valEnc v ++ tailS)) acc = parseGo fuel (tailS.drop 1) (mapInsert acc k v) := by
  rw [parseGo, splitAt1_append 61 k _ hk]
  simp only [hkt]
  unfold valEnc
  by_cases hq : needsQuote v = true
  · -- quoted
    simp only [hq, if_true, List.cons_append, List.append_assoc, List.isEmpty_cons, List.head?_cons, List.tail_cons,
      Bool.false_eq_true, if_false]
    rw [escape_eq_escd]
    simp only [List.nil_append]
    rw [scanQuoted_escd]
  · -- not quoted
    have hq' : needsQuote v = false := by simpa using hq
    obtain ⟨h34, h44⟩ := seps_facts v hq'
    simp only [hq', Bool.false_eq_true, if_false]
    cases v with
    | nil =>
      rcases ht with rfl | ht
      · simp [parseGo_nil]
      · cases tailS with
        | nil => simp [parseGo_nil]
        | cons y t =>
          have hy : y = 44 := by simpa using ht
          subst hy
          simp [idxOrEnd]
    | cons x xs =>
      have hx : x ≠ 34 := fun e => h34 (by simp [e])
      have hidx := idxOrEnd_append 44 (x :: xs) tailS h44 ht
      simp only [List.cons_append] at hidx
      simp only [List.cons_append, List.isEmpty_cons, Bool.false_eq_true, if_false, List.head?_cons, Option.some.injEq, hx]
      rw [hidx]
      have htake : (x :: (xs ++ tailS)).take (x :: xs).length = x :: xs := by
        rw [← List.cons_append]; simp
      have hdrop : (x :: (xs ++ tailS)).drop ((x :: xs).length + 1) = tailS.drop 1 := by
        rw [← List.cons_append, ← List.drop_drop]; simp
      rw [htake, hdrop]

/-- everything `serializeMessage` appends after the first entry -/
def restS (m : DMap) : Bytes := m.flatMap fun e => 44 :: serEntry e

theorem foldl_serOne (ba : Bytes) (m : DMap) (h : ba ≠ []) : m.foldl serOne ba = ba ++ restS m := by
  induction m generalizing ba with
  | nil => simp [restS]
  | cons e t ih =>
    have hne : ba.isEmpty = false := by cases ba <;> simp_all
    simp only [List.foldl_cons, serOne, hne, Bool.false_eq_true, if_false]
    rw [ih _ (by simp)]
    simp [restS]

theorem serializeMessage_cons (kv : Bytes × Bytes) (m : DMap) :
    serializeMessage (kv :: m) = serEntry kv ++ restS m := by
  simp only [serializeMessage, List.foldl_cons, serOne, List.isEmpty_nil, if_true, List.nil_append]
  exact foldl_serOne _ _ (by simp [serEntry])

theorem parseGo_entries (m : DMap) (kv : Bytes × Bytes) (acc : DMap) (fuel : Nat)
    (hfuel : (serEntry kv ++ restS m).length < fuel)
    (hkeys : ∀ e ∈ kv :: m, (61 : UInt8) ∉ e.1 ∧ trim e.1 = e.1) :
    parseGo fuel (serEntry kv ++ restS m) acc = (kv :: m).foldl (fun a e => mapInsert a e.1 e.2) acc := by
  induction m generalizing kv acc fuel with
  | nil =>
    cases fuel with
    | zero => omega
    | succ f =>
      have := parseGo_entry f kv.1 kv.2 [] acc (hkeys kv (by simp)).1 (hkeys kv (by simp)).2 (Or.inl rfl)
      simp only [List.append_nil] at this
      simp [restS, serEntry_eq, this, parseGo_nil]
  | cons e t ih =>
    cases fuel with
    | zero => omega
    | succ f =>
      have hr : restS (e :: t) = 44 :: (serEntry e ++ restS t) := by simp [restS]
      have := parseGo_entry f kv.1 kv.2 (44 :: (serEntry e ++ restS t)) acc (hkeys kv (by simp)).1 (hkeys kv (by simp)).2
        (Or.inr rfl)
      rw [hr, serEntry_eq kv, List.append_assoc, List.cons_append, this]
      simp only [List.drop_one, List.tail_cons]
      rw [ih e _ f (by
            rw [hr] at hfuel
            simp only [List.length_append, List.length_cons] at hfuel ⊢
            omega)
          (fun x hx => hkeys x (by simp [List.mem_cons] at hx ⊢; rcases hx with h | h <;> simp [h]))]
      simp

theorem bytesLt_irrefl (a : Bytes) : bytesLt a a = false := by
  induction a with
  | nil => rfl
  | cons x xs ih => simp [bytesLt, ih]

theorem mapInsert_append (acc : DMap) (k v : Bytes) (h : ∀ a ∈ acc, bytesLt a.1 k = true) :
    mapInsert acc k v = acc ++ [(k, v)] := by
  induction acc with
  | nil => rfl
  | cons e t ih =>
    have he := h e (by simp)
    have hne : e.1 ≠ k := by intro e'; rw [e', bytesLt_irrefl] at he; simp at he
    simp [mapInsert, hne, he, ih (fun a ha => h a (by simp [ha]))]

theorem foldl_insert_sorted (m acc : DMap) (hacc : ∀ a ∈ acc, ∀ e ∈ m, bytesLt a.1 e.1 = true)
    (hs : m.Pairwise fun a b => bytesLt a.1 b.1 = true) :
    m.foldl (fun a e => mapInsert a e.1 e.2) acc = acc ++ m := by
  induction m generalizing acc with
  | nil => simp
  | cons e t ih =>
    rw [List.pairwise_cons] at hs
    simp only [List.foldl_cons]
    rw [mapInsert_append acc e.1 e.2 (fun a ha => hacc a ha e (by simp))]
    rw [ih _ ?_ hs.2]
    · simp
    · intro a ha x hx
      rcases List.mem_append.mp ha with ha | ha
      · exact hacc a ha x (by simp [hx])
      · simp only [List.mem_singleton] at ha
        subst ha
        exact hs.1 x hx

theorem parse_serialize (m : DMap)
    (hs : m.Pairwise fun a b => bytesLt a.1 b.1 = true)
    (hkeys : ∀ e ∈ m, (61 : UInt8) ∉ e.1 ∧ trim e.1 = e.1) :
    parseMessage (serializeMessage m) = m := by
  cases m with
  | nil => simp [serializeMessage, parseMessage, parseGo_nil]
  | cons kv t =>
    rw [parseMessage, serializeMessage_cons, parseGo_entries t kv [] _ (by omega) hkeys,
      foldl_insert_sorted _ [] (by simp) hs]
    simp

/-! ## the managers -/

theorem mgrRun_append (C : Crypto) (md5 : Bytes → Bytes) (cr : Cred) (st : MgrSt) (a b : List El) :
    (mgrRun C md5 cr st (a ++ b)).1 = (mgrRun C md5 cr (mgrRun C md5 cr st a).1 b).1 := by
  induction a generalizing st with
  | nil => rfl
  | cons e t ih => simp [mgrRun, ih]

/-- once the task is finished every further element is rejected and nothing changes -/
theorem mgrRun_not_pending (C : Crypto) (md5 : Bytes → Bytes) (cr : Cred) (st : MgrSt) (els : List El)
    (h : st.pending = false) : (mgrRun C md5 cr st els).1 = st := by
  induction els with
  | nil => rfl
  | cons e t ih => simp [mgrRun, mgrStep, h, ih]

/-- invariant of every manager state: success is never recorded while the task is pending, and once recorded the
mechanism reports the server as verified -/
def MgrInv (st : MgrSt) : Prop :=
  (st.pending = true → st.result ≠ some .success)
  ∧ (st.result = some .success → mechVerified st.mech = true)

theorem mgrInv_start (C : Crypto) (md5 : Bytes → Bytes) (cr : Cred) (sasl2 : Bool) (k : MechKind) :
    MgrInv (mgrStart C md5 cr sasl2 k).1 := by
  unfold mgrStart
  dsimp only
  split <;> simp [MgrInv]

theorem mgrInv_step (C : Crypto) (md5 : Bytes → Bytes) (cr : Cred) (st : MgrSt) (el : El) (hinv : MgrInv st) :
    MgrInv (mgrStep C md5 cr st el).1 := by
  obtain ⟨hp, hr⟩ := hinv
  by_cases hpend : st.pending = true
  · have hns := hp hpend
    cases el with
    | success d =>
      simp only [mgrStep, hpend, Bool.not_true, Bool.false_eq_true, if_false]
      by_cases hv : mechVerified st.mech = true
      · simp [hv, MgrInv]
      · simp only [hv, Bool.false_eq_true, if_false]
        split
        · simp [MgrInv]
        · split
          · rename_i hc
            simp only [Bool.and_eq_true] at hc
            simp [MgrInv, hc.2]
          · simp [MgrInv]
    | challenge data =>
      simp only [mgrStep, hpend, Bool.not_true, Bool.false_eq_true, if_false]
      split
      · exact ⟨fun _ => hns, fun h => absurd h hns⟩
      · simp [MgrInv]
    | failure a =>
      simp only [mgrStep, hpend, Bool.not_true, Bool.false_eq_true, if_false]
      split <;> simp [MgrInv]
    | continue_ =>
      simp only [mgrStep, hpend, Bool.not_true, Bool.false_eq_true, if_false]
      split
      · exact ⟨fun _ => hns, fun h => absurd h hns⟩
      · exact ⟨hp, hr⟩
    | unknown =>
      simp only [mgrStep, hpend, Bool.not_true, Bool.false_eq_true, if_false]
      exact ⟨hp, hr⟩
  · have hpf : st.pending = false := by simpa using hpend
    have : (mgrStep C md5 cr st el).1 = st := by simp [mgrStep, hpf]
    rw [this]
    exact ⟨hp, hr⟩

theorem mgrInv_run (C : Crypto) (md5 : Bytes → Bytes) (cr : Cred) (st : MgrSt) (els : List El) (hinv : MgrInv st) :
    MgrInv (mgrRun C md5 cr st els).1 := by
  induction els generalizing st with
  | nil => exact hinv
  | cons e t ih => exact ih _ (mgrInv_step C md5 cr st e hinv)

/-- which mechanism a state belongs to; never changes during an exchange -/
def mechKindOf : MechSt → MechKind
  | .scram _ => .scram
  | .digest _ => .digest
  | .plain _ => .plain
  | .ht _ => .ht

theorem mechRespond_kind (C : Crypto) (md5 : Bytes → Bytes) (cr : Cred) (m : MechSt) (ch : Bytes) :
    mechKindOf (mechRespond C md5 cr m ch).1 = mechKindOf m := by
  cases m <;> rfl

theorem mgrStep_kind (C : Crypto) (md5 : Bytes → Bytes) (cr : Cred) (st : MgrSt) (el : El) :
    mechKindOf (mgrStep C md5 cr st el).1.mech = mechKindOf st.mech := by
  unfold mgrStep
  split
  · rfl
  · cases el with
    | success d =>
      dsimp only
      split
      · rfl
      · split
        · rfl
        · split <;> exact mechRespond_kind C md5 cr _ _
    | challenge data =>
      dsimp only
      split <;> exact mechRespond_kind C md5 cr _ _
    | failure a => dsimp only; split <;> rfl
    | continue_ => dsimp only; split <;> rfl
    | unknown => rfl

theorem mgr_mech_kind (C : Crypto) (md5 : Bytes → Bytes) (cr : Cred) (sasl2 : Bool) (k : MechKind) (els : List El) :
    mechKindOf (mgrRun C md5 cr (mgrStart C md5 cr sasl2 k).1 els).1.mech = k := by
  have hstart : mechKindOf (mgrStart C md5 cr sasl2 k).1.mech = k := by
    unfold mgrStart
    dsimp only
    split <;> (rw [show ∀ x : MgrSt × List Out, x.1.mech = x.1.mech from fun _ => rfl]; simp only []; rw [mechRespond_kind]; cases k <;> rfl)
  generalize (mgrStart C md5 cr sasl2 k).1 = st at hstart
  induction els generalizing st with
  | nil => exact hstart
  | cons e t ih => exact ih _ (by rw [mgrStep_kind]; exact hstart)

/-! ## PLAIN, DIGEST bits -/

theorem splitOn_plain (user pass : Bytes) (hu : (0 : UInt8) ∉ user) (hp : (0 : UInt8) ∉ pass) :
    splitOn 0 (Ref.plainMessage user pass) = [[], user, pass] := by
  have e : Ref.plainMessage user pass = [] ++ 0 :: (user ++ 0 :: pass) := by simp [Ref.plainMessage]
  rw [e, splitOn_append 0 [] _ (by simp), splitOn_append 0 user _ hu, splitOn_no_sep 0 pass hp]

theorem mapGet?_insert_self (m : DMap) (k v : Bytes) : mapGet? (mapInsert m k v) k = some v := by
  induction m with
  | nil => simp [mapInsert, mapGet?]
  | cons e t ih =>
    unfold mapInsert
    split
    · simp [mapGet?]
    · rename_i hne
      split
      · simp [mapGet?, hne, ih]
      · simp [mapGet?]

theorem mapGet?_insert_ne (m : DMap) (k k' v : Bytes) (h : k' ≠ k) : mapGet? (mapInsert m k v) k' = mapGet? m k' := by
  induction m with
  | nil => simp [mapInsert, mapGet?, Ne.symm h]
  | cons e t ih =>
    unfold mapInsert
    split
    · rename_i he
      simp [mapGet?, Ne.symm h, he]
    · split
      · simp [mapGet?, ih]
      · simp [mapGet?, Ne.symm h]

/-- the directives of the client's digest-response -/
theorem digestOutput_gets (md5 : Bytes → Bytes) (cr : Cred) (realm nonce secret : Bytes) :
    mapGet? (digestOutput md5 cr realm nonce secret) kUsername = some cr.user
    ∧ (mapGet? (digestOutput md5 cr realm nonce secret) kRealm).getD [] = realm
    ∧ mapGet? (digestOutput md5 cr realm nonce secret) kNonce = some nonce
    ∧ mapGet? (digestOutput md5 cr realm nonce secret) kQop = some sAuth
    ∧ mapGet? (digestOutput md5 cr realm nonce secret) kDigestUri = some (digestUriOf cr)
    ∧ mapGet? (digestOutput md5 cr realm nonce secret) kNc = some sNc1
    ∧ mapGet? (digestOutput md5 cr realm nonce secret) kCnonce = some cr.cnonce
    ∧ mapGet? (digestOutput md5 cr realm nonce secret) kResponse
        = some (calculateDigest md5 sAuthenticate (digestUriOf cr) secret nonce cr.cnonce sNc1) := by
  have d1 : kUsername ≠ kRealm := by decide
  have d2 : kUsername ≠ kNonce := by decide
  have d3 : kUsername ≠ kQop := by decide
  have d4 : kUsername ≠ kCnonce := by decide
  have d5 : kUsername ≠ kNc := by decide
  have d6 : kUsername ≠ kDigestUri := by decide
  have d7 : kUsername ≠ kResponse := by decide
  have d8 : kUsername ≠ kCharset := by decide
  have e2 : kRealm ≠ kNonce := by decide
  have e3 : kRealm ≠ kQop := by decide
  have e4 : kRealm ≠ kCnonce := by decide
  have e5 : kRealm ≠ kNc := by decide
  have e6 : kRealm ≠ kDigestUri := by decide
  have e7 : kRealm ≠ kResponse := by decide
  have e8 : kRealm ≠ kCharset := by decide
  have f3 : kNonce ≠ kQop := by decide
  have f4 : kNonce ≠ kCnonce := by decide
  have f5 : kNonce ≠ kNc := by decide
  have f6 : kNonce ≠ kDigestUri := by decide
  have f7 : kNonce ≠ kResponse := by decide
  have f8 : kNonce ≠ kCharset := by decide
  have g4 : kQop ≠ kCnonce := by decide
  have g5 : kQop ≠ kNc := by decide
  have g6 : kQop ≠ kDigestUri := by decide
  have g7 : kQop ≠ kResponse := by decide
  have g8 : kQop ≠ kCharset := by decide
  have h5 : kCnonce ≠ kNc := by decide
  have h6 : kCnonce ≠ kDigestUri := by decide
  have h7 : kCnonce ≠ kResponse := by decide
  have h8 : kCnonce ≠ kCharset := by decide
  have i6 : kNc ≠ kDigestUri := by decide
  have i7 : kNc ≠ kResponse := by decide
  have i8 : kNc ≠ kCharset := by decide
  have j7 : kDigestUri ≠ kResponse := by decide
  have j8 : kDigestUri ≠ kCharset := by decide
  have k8 : kResponse ≠ kCharset := by decide
  unfold digestOutput
  by_cases hr : realm.isEmpty = true
  · have hre : realm = [] := by simpa using hr
    simp only [hr, if_true]
    refine ⟨?_, ?_, ?_, ?_, ?_, ?_, ?_, ?_⟩ <;>
      simp [mapGet?_insert_self, mapGet?_insert_ne, mapGet?, hre, d1, d2, d3, d4, d5, d6, d7, d8, e2, e3, e4, e5, e6, e7, e8, f3, f4, f5, f6, f7, f8, g4, g5, g6, g7, g8, h5, h6, h7, h8, i6, i7, i8, j7, j8, k8, d1.symm, d2.symm, d3.symm, d4.symm, d5.symm, d6.symm, d7.symm, d8.symm, e2.symm, e3.symm, e4.symm, e5.symm, e6.symm, e7.symm, e8.symm, f3.symm, f4.symm, f5.symm, f6.symm, f7.symm, f8.symm, g4.symm, g5.symm, g6.symm, g7.symm, g8.symm, h5.symm, h6.symm, h7.symm, h8.symm, i6.symm, i7.symm, i8.symm, j7.symm, j8.symm, k8.symm]
  · simp only [hr, Bool.false_eq_true, if_false]
    refine ⟨?_, ?_, ?_, ?_, ?_, ?_, ?_, ?_⟩ <;>
      simp [mapGet?_insert_self, mapGet?_insert_ne, mapGet?, d1, d2, d3, d4, d5, d6, d7, d8, e2, e3, e4, e5, e6, e7, e8, f3, f4, f5, f6, f7, f8, g4, g5, g6, g7, g8, h5, h6, h7, h8, i6, i7, i8, j7, j8, k8, d1.symm, d2.symm, d3.symm, d4.symm, d5.symm, d6.symm, d7.symm, d8.symm, e2.symm, e3.symm, e4.symm, e5.symm, e6.symm, e7.symm, e8.symm, f3.symm, f4.symm, f5.symm, f6.symm, f7.symm, f8.symm, g4.symm, g5.symm, g6.symm, g7.symm, g8.symm, h5.symm, h6.symm, h7.symm, h8.symm, i6.symm, i7.symm, i8.symm, j7.symm, j8.symm, k8.symm]

/-- an ASCII string is its own ISO 8859-1 form -/
theorem digestEnc_ascii (b : Bytes) (h : ∀ c ∈ b, c < 128) : Ref.digestEnc b = b := by
  have key : Ref.latin1? b = some b := by
    induction b using Ref.latin1?.induct with
    | case1 => rfl
    | case2 c hc => simp [Ref.latin1?, hc]
    | case3 c hc => exact absurd (h c (by simp)) hc
    | case4 c d rest hc ih =>
      rw [Ref.latin1?, if_pos hc, ih (fun x hx => h x (by simp [hx]))]; rfl
    | case5 c d rest hc _ _ => exact absurd (h c (by simp)) hc
    | case6 c d rest hc _ => exact absurd (h c (by simp)) hc
  simp [Ref.digestEnc, key]

/-! ## FAST tokens across connections -/

/-- invariant of the client object between operations -/
def FastInv (st : FastSt) : Prop :=
  (∀ m s i, st.token = some (m, s) → st.issued = some i → m = i)
  ∧ (∀ r u, st.cur = some (r, u) → st.requested = r ∧ ∀ h, u = some h → ∃ s, st.token = some (h, s))

theorem fastInv_init (u p : Bytes) : FastInv { user := u, pass := p } := by
  constructor
  · intro m s i h; simp at h
  · intro r u h; simp at h

theorem fastInv_step (fam : Nat → Crypto) (st : FastSt) (op : FastOp) (hinv : FastInv st)
    (hw : ∀ a b, op = .setCreds a b → st.cur = none) : FastInv (fastStep fam st op).1 := by
  obtain ⟨hA, hB⟩ := hinv
  cases op with
  | setCreds hasPw token =>
    have hc := hw hasPw token rfl
    simp only [fastStep]
    constructor
    · intro m s i ht hi
      simp only at ht hi
      rw [ht] at hi
      simpa using hi
    · intro r u h
      simp only [hc] at h
      cases h
  | login en offer =>
    simp only [fastStep]
    cases htok : st.token with
    | none =>
      simp only []
      split
      · refine ⟨?_, ?_⟩
        · intro m s i ht; simp [htok] at ht
        · intro r u h
          simp only [Option.some.injEq, Prod.mk.injEq] at h
          obtain ⟨h1, h2⟩ := h
          exact ⟨h1, fun hh hu => by rw [← h2] at hu; cases hu⟩
      · refine ⟨?_, ?_⟩
        · intro m s i ht; simp [htok] at ht
        · intro r u h; simp at h
    | some tok =>
      simp only []
      split
      · split
        · refine ⟨?_, ?_⟩
          · intro m s i ht hi; exact hA m s i (by simpa [htok] using ht) hi
          · intro r u h
            simp only [Option.some.injEq, Prod.mk.injEq] at h
            obtain ⟨h1, h2⟩ := h
            refine ⟨h1, fun hh hu => ?_⟩
            rw [← h2] at hu
            simp only [Option.some.injEq] at hu
            exact ⟨tok.2, by simp [htok, ← hu]⟩
        · refine ⟨?_, ?_⟩
          · intro m s i ht hi; exact hA m s i (by simpa [htok] using ht) hi
          · intro r u h; simp at h
      · split
        · refine ⟨?_, ?_⟩
          · intro m s i ht hi; exact hA m s i (by simpa [htok] using ht) hi
          · intro r u h
            simp only [Option.some.injEq, Prod.mk.injEq] at h
            obtain ⟨h1, h2⟩ := h
            exact ⟨h1, fun hh hu => by rw [← h2] at hu; cases hu⟩
        · refine ⟨?_, ?_⟩
          · intro m s i ht hi; exact hA m s i (by simpa [htok] using ht) hi
          · intro r u h; simp at h
  | success tok =>
    simp only [fastStep]
    cases hcur : st.cur with
    | none => exact ⟨hA, fun r u h => hB r u h⟩
    | some c =>
      obtain ⟨hreq, hused⟩ := hB c.1 c.2 (by rw [hcur])
      cases tok with
      | none =>
        simp only []
        exact ⟨hA, fun r u h => by simp at h⟩
      | some sec =>
        simp only []
        cases hr : st.requested with
        | some r =>
          simp only []
          refine ⟨?_, fun r' u h => by simp at h⟩
          intro m s i ht hi
          simp only [Option.some.injEq, Prod.mk.injEq] at ht
          rw [← hreq, hr] at hi
          have h2 : r = i := by simpa using hi
          have h1 := ht.1
          omega
        | none =>
          cases htok : st.token with
          | none =>
            simp only []
            exact ⟨fun m s i ht => by simp [htok] at ht, fun r u h => by simp at h⟩
          | some old =>
            simp only []
            refine ⟨?_, fun r' u h => by simp at h⟩
            intro m s i ht hi
            simp only [Option.some.injEq, Prod.mk.injEq] at ht
            rw [← hreq, hr] at hi
            have hi' : c.2 = some i := by simpa using hi
            obtain ⟨s', hs'⟩ := hused i hi'
            rw [htok] at hs'
            have h3 : old.1 = i := by
              have := congrArg (fun o => o.map Prod.fst) hs'
              simpa using this
            have h1 := ht.1
            omega
  | fail =>
    simp only [fastStep]
    exact ⟨hA, fun r u h => by simp at h⟩

theorem fastInv_run (fam : Nat → Crypto) (st : FastSt) (ops : List FastOp) (hinv : FastInv st)
    (hw : wellTimed fam st ops = true) : FastInv (fastRun fam st ops) := by
  induction ops generalizing st with
  | nil => exact hinv
  | cons op t ih =>
    simp only [wellTimed, Bool.and_eq_true] at hw
    apply ih _ _ hw.2
    apply fastInv_step fam st op hinv
    intro a b hop
    subst hop
    simpa using hw.1

/-! ## a toy hash family for the non-vacuity examples (fixed output length 2, not constant) -/

def toyCrypto : Crypto :=
  ⟨fun x => x, fun k m => [UInt8.ofNat k.length, UInt8.ofNat (m.length % 7)], fun p s i => p ++ s ++ [UInt8.ofNat i]⟩

/-- user `u`, password `p`, client nonce `x` -/
def toyCred : Cred := { user := [117], pass := [112], cnonce := [120], host := [104], service := [120, 109, 112, 112] }

def toyFam (_ : Nat) : Crypto := toyCrypto

end Qx.C06
