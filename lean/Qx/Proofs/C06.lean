import Qx.Model.C06Sasl
import Qx.Proofs.Bytes
/-!
Helper lemmas for C06 (`Qx/Props/C06.lean`): base64 and decimal round trips, `splitOn` / `parseGS2` on messages
built by concatenation, the DIGEST-MD5 quoting lemmas, manager invariants.
-/
namespace Qx.C06
open Qx Qx.Bytes Qx.Crypto

/-! ## Base64 -/
section b64
open Qx.Crypto.Base64

theorem decChar_encChar : ∀ v, v < 64 → decChar (encChar v) = some v := by decide

theorem decChar_pad : decChar padChar = none := by decide

theorem encChar_ne_comma : ∀ v, v < 64 → encChar v ≠ 44 := by decide

private theorem ofNat_toNat (a : UInt8) : UInt8.ofNat a.toNat = a := by
  apply UInt8.toNat_inj.mp; simp

private theorem ofNat_eq (a : UInt8) (n : Nat) (h : n = a.toNat) : UInt8.ofNat n = a := by
  subst h; exact ofNat_toNat a

theorem lg_skip {c : UInt8} (h : decChar c = none) (rest : Bytes) (buf nb : Nat) :
    lenientGo (c :: rest) buf nb = lenientGo rest buf nb := by
  simp [lenientGo, h]

theorem lg0 {c : UInt8} {d : Nat} (h : decChar c = some d) (rest : Bytes) (buf : Nat) :
    lenientGo (c :: rest) buf 0 = lenientGo rest (buf * 64 + d) 6 := by
  simp [lenientGo, h]

theorem lg6 {c : UInt8} {d : Nat} (h : decChar c = some d) (rest : Bytes) (buf : Nat) :
    lenientGo (c :: rest) buf 6
      = UInt8.ofNat ((buf * 64 + d) / 16) :: lenientGo rest ((buf * 64 + d) % 16) 4 := by
  simp [lenientGo, h]

theorem lg4 {c : UInt8} {d : Nat} (h : decChar c = some d) (rest : Bytes) (buf : Nat) :
    lenientGo (c :: rest) buf 4
      = UInt8.ofNat ((buf * 64 + d) / 4) :: lenientGo rest ((buf * 64 + d) % 4) 2 := by
  simp [lenientGo, h]

theorem lg2 {c : UInt8} {d : Nat} (h : decChar c = some d) (rest : Bytes) (buf : Nat) :
    lenientGo (c :: rest) buf 2
      = UInt8.ofNat (buf * 64 + d) :: lenientGo rest 0 0 := by
  simp [lenientGo, h, Nat.mod_one]

theorem lenient_group (a b c : UInt8) (tail : Bytes) :
    lenientGo (encChar ((a.toNat * 65536 + b.toNat * 256 + c.toNat) / 262144)
      :: encChar ((a.toNat * 65536 + b.toNat * 256 + c.toNat) / 4096 % 64)
      :: encChar ((a.toNat * 65536 + b.toNat * 256 + c.toNat) / 64 % 64)
      :: encChar ((a.toNat * 65536 + b.toNat * 256 + c.toNat) % 64) :: tail) 0 0
      = a :: b :: c :: lenientGo tail 0 0 := by
  have ha := a.toNat_lt
  have hb := b.toNat_lt
  have hc := c.toNat_lt
  rw [lg0 (decChar_encChar _ (by omega)), lg6 (decChar_encChar _ (by omega)),
    lg4 (decChar_encChar _ (by omega)), lg2 (decChar_encChar _ (by omega))]
  rw [ofNat_eq a _ (by omega), ofNat_eq b _ (by omega), ofNat_eq c _ (by omega)]

/-- the lenient decoder (`QByteArray::fromBase64`) inverts the encoder -/
theorem decodeLenient_encode (x : Bytes) : decodeLenient (encode x) = x := by
  unfold decodeLenient
  induction x using encode.induct with
  | case1 a b c rest ih =>
    rw [encode]
    rw [lenient_group, ih]
  | case2 a b =>
    have ha := a.toNat_lt
    have hb := b.toNat_lt
    rw [encode]
    rw [lg0 (decChar_encChar _ (by omega)), lg6 (decChar_encChar _ (by omega)),
      lg4 (decChar_encChar _ (by omega)), lg_skip decChar_pad]
    rw [ofNat_eq a _ (by omega), ofNat_eq b _ (by omega)]
    simp [lenientGo]
  | case3 a =>
    have ha := a.toNat_lt
    rw [encode]
    rw [lg0 (decChar_encChar _ (by omega)), lg6 (decChar_encChar _ (by omega)),
      lg_skip decChar_pad, lg_skip decChar_pad]
    rw [ofNat_eq a _ (by omega)]
    simp [lenientGo]
  | case4 => simp [encode, lenientGo]

theorem encChar_ne_pad : ∀ v, v < 64 → encChar v ≠ padChar := by decide

theorem encode_eq_nil {x : Bytes} (h : encode x = []) : x = [] := by
  match x, h with
  | [], _ => rfl
  | [_], h => simp [encode] at h
  | [_, _], h => simp [encode] at h
  | _ :: _ :: _ :: _, h => simp [encode] at h

/-- the strict RFC 4648 decoder inverts the encoder -/
theorem decode?_encode (x : Bytes) : decode? (encode x) = some x := by
  induction x using encode.induct with
  | case1 a b c rest ih =>
    have ha := a.toNat_lt
    have hb := b.toNat_lt
    have hc := c.toNat_lt
    rw [encode]
    cases hr : encode rest with
    | nil =>
      have hrest := encode_eq_nil hr
      subst hrest
      simp only [decode?]
      rw [decChar_encChar _ (by omega), decChar_encChar _ (by omega)]
      simp only [encChar_ne_pad _ (show (a.toNat * 65536 + b.toNat * 256 + c.toNat) / 64 % 64 < 64 by omega),
        encChar_ne_pad _ (show (a.toNat * 65536 + b.toNat * 256 + c.toNat) % 64 < 64 by omega), if_false]
      rw [decChar_encChar _ (by omega), decChar_encChar _ (by omega)]
      simp only []
      rw [ofNat_eq a _ (by omega), ofNat_eq b _ (by omega), ofNat_eq c _ (by omega)]
    | cons y ys =>
      simp only [decode?]
      rw [decChar_encChar _ (by omega), decChar_encChar _ (by omega), decChar_encChar _ (by omega),
        decChar_encChar _ (by omega)]
      simp only []
      rw [← hr, ih]
      simp only [Option.map_some]
      rw [ofNat_eq a _ (by omega), ofNat_eq b _ (by omega), ofNat_eq c _ (by omega)]
  | case2 a b =>
    have ha := a.toNat_lt
    have hb := b.toNat_lt
    rw [encode]
    simp only [decode?]
    rw [decChar_encChar _ (by omega), decChar_encChar _ (by omega)]
    simp only [encChar_ne_pad _ (show (a.toNat * 65536 + b.toNat * 256) / 64 % 64 < 64 by omega), if_false]
    rw [decChar_encChar _ (by omega)]
    simp only [if_true]
    rw [if_pos (by omega)]
    rw [ofNat_eq a _ (by omega), ofNat_eq b _ (by omega)]
  | case3 a =>
    have ha := a.toNat_lt
    rw [encode]
    simp only [decode?]
    rw [decChar_encChar _ (by omega), decChar_encChar _ (by omega)]
    simp only [if_true, true_and]
    rw [if_pos (by omega)]
    rw [ofNat_eq a _ (by omega)]
  | case4 => simp [encode, decode?]

/-- no comma in base64 text -/
theorem comma_not_mem_encode (x : Bytes) : (44 : UInt8) ∉ encode x := by
  induction x using encode.induct with
  | case1 a b c rest ih =>
    have ha := a.toNat_lt
    have hb := b.toNat_lt
    have hc := c.toNat_lt
    rw [encode]
    simp only [List.mem_cons, not_or]
    exact ⟨(encChar_ne_comma _ (by omega)).symm, (encChar_ne_comma _ (by omega)).symm,
      (encChar_ne_comma _ (by omega)).symm, (encChar_ne_comma _ (by omega)).symm, ih⟩
  | case2 a b =>
    have ha := a.toNat_lt
    have hb := b.toNat_lt
    rw [encode]
    simp only [List.mem_cons, not_or, List.not_mem_nil, not_false_eq_true, and_true]
    exact ⟨(encChar_ne_comma _ (by omega)).symm, (encChar_ne_comma _ (by omega)).symm,
      (encChar_ne_comma _ (by omega)).symm, by decide⟩
  | case3 a =>
    have ha := a.toNat_lt
    rw [encode]
    simp only [List.mem_cons, not_or, List.not_mem_nil, not_false_eq_true, and_true]
    exact ⟨(encChar_ne_comma _ (by omega)).symm, (encChar_ne_comma _ (by omega)).symm, by decide, by decide⟩
  | case4 => simp [encode]

end b64

/-! ## decimal text and `QByteArray::toInt` -/

theorem takeWhile_all {α} {p : α → Bool} {l : List α} (h : ∀ a ∈ l, p a = true) : l.takeWhile p = l := by
  have := List.takeWhile_append_of_pos (p := p) (l₁ := l) (l₂ := []) h
  simpa using this

theorem dropWhile_all {α} {p : α → Bool} {l : List α} (h : ∀ a ∈ l, p a = true) : l.dropWhile p = [] := by
  have := List.dropWhile_append_of_pos (p := p) (l₁ := l) (l₂ := []) h
  simpa using this

theorem isDigit_iff (c : UInt8) : isDigit c = true ↔ 48 ≤ c.toNat ∧ c.toNat ≤ 57 := by
  simp [isDigit, UInt8.le_iff_toNat_le]

theorem isSpace_iff (c : UInt8) : isSpace c = true ↔ c.toNat = 32 ∨ (9 ≤ c.toNat ∧ c.toNat ≤ 13) := by
  simp [isSpace, UInt8.le_iff_toNat_le, ← UInt8.toNat_inj]

theorem digit_ofNat (n : Nat) (h : n < 10) : isDigit (UInt8.ofNat (48 + n)) = true ∧ (UInt8.ofNat (48 + n)).toNat - 48 = n := by
  rw [isDigit_iff]
  have : (UInt8.ofNat (48 + n)).toNat = 48 + n := by simp [UInt8.toNat_ofNat']; omega
  omega

theorem natDecGo_digits (fuel n : Nat) (acc : Bytes) (h : ∀ c ∈ acc, isDigit c = true) :
    ∀ c ∈ Ref.natDecGo fuel n acc, isDigit c = true := by
  induction fuel generalizing n acc with
  | zero => simpa [Ref.natDecGo] using h
  | succ f ih =>
    unfold Ref.natDecGo
    split
    · rename_i hlt
      intro c hc
      rcases List.mem_cons.mp hc with rfl | hc
      · exact (digit_ofNat n hlt).1
      · exact h c hc
    · apply ih
      intro c hc
      rcases List.mem_cons.mp hc with rfl | hc
      · exact (digit_ofNat (n % 10) (by omega)).1
      · exact h c hc

theorem natDecGo_ne_nil (fuel n : Nat) (acc : Bytes) (h : acc ≠ [] ∨ 0 < fuel) : Ref.natDecGo fuel n acc ≠ [] := by
  induction fuel generalizing n acc with
  | zero => rcases h with h | h; · simpa [Ref.natDecGo] using h
            · omega
  | succ f ih =>
    unfold Ref.natDecGo
    split
    · simp
    · exact ih _ _ (Or.inl (by simp))

theorem digitsFold (l : Bytes) (a : Nat) :
    l.foldl (fun a d => a * 10 + (d.toNat - 48)) a = a * 10 ^ l.length + digitsVal l := by
  induction l generalizing a with
  | nil => simp [digitsVal]
  | cons d t ih =>
    simp only [List.foldl_cons, digitsVal, List.length_cons]
    rw [ih, ih (0 * 10 + (d.toNat - 48))]
    simp only [Nat.zero_mul, Nat.zero_add, digitsVal, Nat.pow_succ]
    rw [Nat.add_mul, Nat.mul_assoc, Nat.mul_comm 10 (10 ^ t.length)]
    omega

theorem digitsVal_natDecGo (fuel n : Nat) (acc : Bytes) (h : n < fuel) :
    digitsVal (Ref.natDecGo fuel n acc) = n * 10 ^ acc.length + digitsVal acc := by
  induction fuel generalizing n acc with
  | zero => omega
  | succ f ih =>
    unfold Ref.natDecGo
    split
    · rename_i hlt
      rw [digitsVal, List.foldl_cons, digitsFold, (digit_ofNat n hlt).2]
      simp
    · rw [ih _ _ (by omega)]
      rw [digitsVal, List.foldl_cons, digitsFold, (digit_ofNat (n % 10) (by omega)).2]
      simp only [Nat.zero_mul, Nat.zero_add, List.length_cons, Nat.pow_succ]
      have hdm : n / 10 * 10 + n % 10 = n := Nat.div_add_mod' n 10
      calc n / 10 * (10 ^ acc.length * 10) + (n % 10 * 10 ^ acc.length + digitsVal acc)
          = (n / 10 * 10 + n % 10) * 10 ^ acc.length + digitsVal acc := by
            rw [Nat.add_mul, Nat.mul_comm (10 ^ acc.length) 10, ← Nat.mul_assoc]; omega
        _ = n * 10 ^ acc.length + digitsVal acc := by rw [hdm]

theorem natDec_digits (n : Nat) : ∀ c ∈ Ref.natDec n, isDigit c = true :=
  natDecGo_digits _ _ _ (by simp)

theorem natDec_ne_nil (n : Nat) : Ref.natDec n ≠ [] := natDecGo_ne_nil _ _ _ (Or.inr (by omega))

theorem digitsVal_natDec (n : Nat) : digitsVal (Ref.natDec n) = n := by
  rw [Ref.natDec, digitsVal_natDecGo _ _ _ (by omega)]; simp [digitsVal]

theorem comma_not_mem_natDec (n : Nat) : (44 : UInt8) ∉ Ref.natDec n := by
  intro h
  have := (isDigit_iff _).mp (natDec_digits n _ h)
  simp at this

/-- on a non-empty string of digits `toInt` is the decimal value (when it fits an `int`) -/
theorem toInt_digits (ds : Bytes) (hne : ds ≠ []) (hd : ∀ c ∈ ds, isDigit c = true)
    (hv : digitsVal ds ≤ 2147483647) : toInt ds = (digitsVal ds : Int) := by
  obtain ⟨d, t, rfl⟩ := List.exists_cons_of_ne_nil hne
  have hdd := (isDigit_iff d).mp (hd d (by simp))
  have h1 : (d :: t).takeWhile (· != 0) = d :: t := by
    apply takeWhile_all
    intro c hc
    have := (isDigit_iff c).mp (hd c hc)
    have hne : c ≠ 0 := by intro h0; subst h0; simp at this
    simpa using hne
  have h2 : (d :: t).dropWhile isSpace = d :: t := by
    apply List.dropWhile_cons_of_neg
    intro hs
    have := (isSpace_iff d).mp hs
    omega
  have h3 : (d :: t).takeWhile isDigit = d :: t := takeWhile_all hd
  have h4 : (d :: t).dropWhile isDigit = [] := dropWhile_all hd
  have h45 : d ≠ 45 := by intro h; subst h; simp at hdd
  have h43 : d ≠ 43 := by intro h; subst h; simp at hdd
  simp only [toInt, h1, h2]
  simp [h45, h43, h3, h4, hv]

theorem toInt_natDec (n : Nat) (h : n ≤ 2147483647) : toInt (Ref.natDec n) = (n : Int) := by
  rw [toInt_digits _ (natDec_ne_nil n) (natDec_digits n) (by rw [digitsVal_natDec]; exact h), digitsVal_natDec]

/-- a value without any digit is not a number: `toInt` gives 0 -/
theorem toInt_no_digit (v : Bytes) (h : ∀ c ∈ v, isDigit c = false) : toInt v = 0 := by
  unfold toInt
  simp only []
  have key : ∀ l : Bytes, (∀ c ∈ l, c ∈ v) → l.takeWhile isDigit = [] := by
    intro l hl
    cases l with
    | nil => rfl
    | cons x xs => simp [List.takeWhile, h x (hl x (by simp))]
  have hsub : ∀ c ∈ (v.takeWhile (· != 0)).dropWhile isSpace, c ∈ v := fun c hc =>
    (List.takeWhile_sublist _).subset ((List.dropWhile_sublist _).subset hc)
  split
  · rename_i hsign
    rw [key _ (fun c hc => hsub c (List.mem_of_mem_tail hc))]; simp
  · rw [key _ hsub]; simp

/-! ## `split`, `parseGS2` -/

theorem splitOn_no_sep (sep : UInt8) (a : Bytes) (h : sep ∉ a) : splitOn sep a = [a] := by
  induction a with
  | nil => rfl
  | cons x xs ih =>
    have hx : x ≠ sep := fun e => h (by simp [e])
    have hxs : sep ∉ xs := fun e => h (by simp [e])
    simp [splitOn, hx, ih hxs]

theorem splitOn_append (sep : UInt8) (a b : Bytes) (h : sep ∉ a) :
    splitOn sep (a ++ sep :: b) = a :: splitOn sep b := by
  induction a with
  | nil => simp [splitOn]
  | cons x xs ih =>
    have hx : x ≠ sep := fun e => h (by simp [e])
    have hxs : sep ∉ xs := fun e => h (by simp [e])
    simp [splitOn, hx, ih hxs]

/-- what the client reads out of an RFC 5802 server-first message -/
theorem parseGS2_serverFirst (nonce s64 dec : Bytes) (hn : (44 : UInt8) ∉ nonce) (hs : (44 : UInt8) ∉ s64)
    (hd : (44 : UInt8) ∉ dec) :
    parseGS2 ([114, 61] ++ nonce ++ ([44, 115, 61] ++ s64) ++ ([44, 105, 61] ++ dec))
      = [(114, nonce), (115, s64), (105, dec)] := by
  have e : ([114, 61] ++ nonce ++ ([44, 115, 61] ++ s64) ++ ([44, 105, 61] ++ dec) : Bytes)
      = (114 :: 61 :: nonce) ++ 44 :: ((115 :: 61 :: s64) ++ 44 :: (105 :: 61 :: dec)) := by simp
  rw [parseGS2, e, splitOn_append _ _ _ (by simpa using hn), splitOn_append _ _ _ (by simpa using hs),
    splitOn_no_sep _ _ (by simpa using hd)]
  simp [gs2Field]

theorem parseGS2_serverFinal (v64 : Bytes) (hv : (44 : UInt8) ∉ v64) :
    parseGS2 ([118, 61] ++ v64) = [(118, v64)] := by
  rw [parseGS2, show ([118, 61] ++ v64 : Bytes) = 118 :: 61 :: v64 by simp, splitOn_no_sep _ _ (by simpa using hv)]
  simp [gs2Field]

theorem gs2Get_nil (k : UInt8) : gs2Get [] k = [] := rfl

/-- a key that does not occur reads as the empty array -/
theorem gs2Get_absent (m : List (UInt8 × Bytes)) (k : UInt8) (h : ∀ p ∈ m, p.1 ≠ k) : gs2Get m k = [] := by
  unfold gs2Get
  suffices ∀ acc, m.foldl (fun acc p => if p.1 = k then p.2 else acc) acc = acc from this []
  induction m with
  | nil => intro acc; rfl
  | cons p t ih =>
    intro acc
    simp only [List.foldl_cons, if_neg (h p (by simp))]
    exact ih (fun q hq => h q (by simp [hq])) acc

/-! ## `stripPrefix` -/

theorem stripPrefix_append (p l : Bytes) : Ref.stripPrefix p (p ++ l) = some l := by
  induction p with
  | nil => simp [Ref.stripPrefix]
  | cons a t ih => simp [Ref.stripPrefix, ih]

theorem stripPrefix_some {p l r : Bytes} (h : Ref.stripPrefix p l = some r) : l = p ++ r := by
  induction p generalizing l with
  | nil => simp [Ref.stripPrefix] at h; simp [h]
  | cons a t ih =>
    cases l with
    | nil => simp [Ref.stripPrefix] at h
    | cons b l' =>
      simp only [Ref.stripPrefix] at h
      split at h
      · rename_i hab; subst hab; simp [ih h]
      · simp at h

theorem encode_gs2Header : Base64.encode sGs2Header = [98, 105, 119, 115] := by decide

/-! ## the SCRAM exchange -/

/-- `client-first-message-bare` as the client builds it -/
def scramBare (cr : Cred) : Bytes := sNEq ++ cr.user ++ sCommaREq ++ cr.cnonce

/-- the AuthMessage as the client computes it for server-first message `sf` carrying nonce `nonce` -/
def scramAuthMessage (cr : Cred) (sf nonce : Bytes) : Bytes :=
  scramBare cr ++ 44 :: (sf ++ 44 :: scramFinalBare nonce)

/-- the client's state after the client-first message -/
def scramSt1 (cr : Cred) : ScramSt := { step := 1, firstBare := scramBare cr }

theorem scram_step0 (C : Crypto) (cr : Cred) (ch : Bytes) :
    scramStep C cr {} ch = (scramSt1 cr, some (sGs2Header ++ scramBare cr)) := by
  simp [scramStep, scramSt1, scramBare]

/-- what step 1 does once the three checks pass -/
theorem scram_step1_ok (C : Crypto) (cr : Cred) (s : ScramSt) (ch : Bytes) (hstep : s.step = 1)
    (hn : cr.cnonce.isPrefixOf (gs2Get (parseGS2 ch) 114) = true)
    (hs : Base64.decodeLenient (gs2Get (parseGS2 ch) 115) ≠ [])
    (hi : 1 ≤ toInt (gs2Get (parseGS2 ch) 105)) :
    scramStep C cr s ch =
      (let nonce := gs2Get (parseGS2 ch) 114
       let salted := C.Hi cr.pass (Base64.decodeLenient (gs2Get (parseGS2 ch) 115)) (toInt (gs2Get (parseGS2 ch) 105)).toNat
       let am := s.firstBare ++ 44 :: (ch ++ 44 :: scramFinalBare nonce)
       ({ s with step := 2, serverSig := C.HMAC (C.HMAC salted sServerKey) am },
        some (scramFinalBare nonce ++ sCommaPEq ++
          Base64.encode (xorBytes (C.HMAC (C.H (C.HMAC salted sClientKey)) am) (C.HMAC salted sClientKey))))) := by
  have hs' : (Base64.decodeLenient (gs2Get (parseGS2 ch) 115)).isEmpty = false := by
    cases h : Base64.decodeLenient (gs2Get (parseGS2 ch) 115) with
    | nil => exact absurd h hs
    | cons _ _ => rfl
  have hi' : ¬ toInt (gs2Get (parseGS2 ch) 105) < 1 := by omega
  simp [scramStep, hstep, hn, hs', hi']

theorem scramFinalBare_eq (nonce : Bytes) : scramFinalBare nonce = Ref.clientFinalWithoutProof nonce := by
  simp [scramFinalBare, encode_gs2Header, Ref.clientFinalWithoutProof, sCEq, sCommaREq]

theorem isPrefixOf_append (a b : Bytes) : a.isPrefixOf (a ++ b) = true := by
  induction a with
  | nil => simp [List.isPrefixOf]
  | cons x xs ih => simp [ih]

/-- reading an RFC-built server-first message -/
theorem scram_reads_serverFirst (cnonce snonce salt : Bytes) (i : Nat) (hc : (44 : UInt8) ∉ cnonce)
    (hsn : (44 : UInt8) ∉ snonce) (hi : i ≤ 2147483647) :
    gs2Get (parseGS2 (Ref.serverFirst cnonce snonce salt i)) 114 = cnonce ++ snonce
    ∧ Base64.decodeLenient (gs2Get (parseGS2 (Ref.serverFirst cnonce snonce salt i)) 115) = salt
    ∧ toInt (gs2Get (parseGS2 (Ref.serverFirst cnonce snonce salt i)) 105) = (i : Int) := by
  have hp := parseGS2_serverFirst (cnonce ++ snonce) (Base64.encode salt) (Ref.natDec i)
    (by simp [hc, hsn]) (comma_not_mem_encode salt) (comma_not_mem_natDec i)
  unfold Ref.serverFirst
  rw [hp]
  refine ⟨by simp [gs2Get], ?_, ?_⟩
  · simp [gs2Get, decodeLenient_encode]
  · simp [gs2Get, toInt_natDec i hi]

theorem saslName_id (u : Bytes) (h1 : (44 : UInt8) ∉ u) (h2 : (61 : UInt8) ∉ u) : Ref.saslName u = u := by
  induction u with
  | nil => rfl
  | cons x xs ih =>
    have hx1 : x ≠ 44 := fun e => h1 (by simp [e])
    have hx2 : x ≠ 61 := fun e => h2 (by simp [e])
    simp [Ref.saslName, hx1, hx2, ih (fun e => h1 (by simp [e])) (fun e => h2 (by simp [e]))]

/-- the client's answer to an RFC-built server-first message -/
theorem scram_step1_honest (C : Crypto) (cr : Cred) (salt snonce : Bytes) (i : Nat)
    (hsalt : salt ≠ []) (hi : 1 ≤ i ∧ i ≤ 2147483647)
    (hc : (44 : UInt8) ∉ cr.cnonce) (hs : (44 : UInt8) ∉ snonce) :
    scramStep C cr (scramSt1 cr) (Ref.serverFirst cr.cnonce snonce salt i) =
      ({ scramSt1 cr with
          step := 2,
          serverSig := C.HMAC (C.HMAC (C.Hi cr.pass salt i) sServerKey)
            (scramAuthMessage cr (Ref.serverFirst cr.cnonce snonce salt i) (cr.cnonce ++ snonce)) },
       some (scramFinalBare (cr.cnonce ++ snonce) ++ sCommaPEq ++
         Base64.encode (xorBytes
           (C.HMAC (C.H (C.HMAC (C.Hi cr.pass salt i) sClientKey))
             (scramAuthMessage cr (Ref.serverFirst cr.cnonce snonce salt i) (cr.cnonce ++ snonce)))
           (C.HMAC (C.Hi cr.pass salt i) sClientKey)))) := by
  obtain ⟨hr, hsl, hit⟩ := scram_reads_serverFirst cr.cnonce snonce salt i hc hs hi.2
  rw [scram_step1_ok C cr (scramSt1 cr) _ rfl (by rw [hr]; exact isPrefixOf_append _ _) (by rw [hsl]; exact hsalt)
    (by rw [hit]; omega)]
  simp only [hr, hsl, hit, Int.toNat_natCast, scramAuthMessage, scramSt1]

/-- the reference server on a client-final message of the shape the client produces, for an arbitrary record -/
theorem refServer_on_client_final (C : Crypto) (rec : Ref.ScramRecord) (cr : Cred) (sf nonce proof : Bytes) :
    Ref.scramServerFinal C rec (sGs2Header ++ scramBare cr) sf nonce
        (scramFinalBare nonce ++ sCommaPEq ++ Base64.encode proof)
      = if proof.length = (C.HMAC rec.storedKey (scramAuthMessage cr sf nonce)).length
            ∧ C.H (xorBytes proof (C.HMAC rec.storedKey (scramAuthMessage cr sf nonce))) = rec.storedKey
        then some ([118, 61] ++ Base64.encode (C.HMAC rec.serverKey (scramAuthMessage cr sf nonce)))
        else none := by
  have e1 : Ref.stripPrefix [110, 44, 44] (sGs2Header ++ scramBare cr) = some (scramBare cr) :=
    stripPrefix_append [110, 44, 44] (scramBare cr)
  have e2 : Ref.stripPrefix (Ref.clientFinalWithoutProof nonce ++ [44, 112, 61])
      (scramFinalBare nonce ++ sCommaPEq ++ Base64.encode proof) = some (Base64.encode proof) := by
    rw [scramFinalBare_eq]
    exact stripPrefix_append _ _
  have e3 : scramBare cr ++ [44] ++ sf ++ [44] ++ Ref.clientFinalWithoutProof nonce = scramAuthMessage cr sf nonce := by
    simp [scramAuthMessage, scramFinalBare_eq]
  simp only [Ref.scramServerFinal, e1, e2, decode?_encode, e3]

theorem scram_full_exchange (C : Crypto) (n : Nat) (hM : ∀ k m, (C.HMAC k m).length = n)
    (cr : Cred) (salt snonce : Bytes) (i : Nat)
    (hsalt : salt ≠ []) (hi : 1 ≤ i ∧ i ≤ 2147483647)
    (hc : (44 : UInt8) ∉ cr.cnonce) (hs : (44 : UInt8) ∉ snonce) :
    ∃ cf1 cf sfin,
      (scramStep C cr {} []).2 = some cf1
      ∧ (scramStep C cr (scramStep C cr {} []).1 (Ref.serverFirst cr.cnonce snonce salt i)).2 = some cf
      ∧ Ref.scramServerFinal C (Ref.scramRecordOf C cr.pass salt i) cf1
          (Ref.serverFirst cr.cnonce snonce salt i) (cr.cnonce ++ snonce) cf = some sfin
      ∧ (scramStep C cr (scramStep C cr (scramStep C cr {} []).1 (Ref.serverFirst cr.cnonce snonce salt i)).1 sfin).2 = some []
      ∧ (scramStep C cr (scramStep C cr (scramStep C cr {} []).1 (Ref.serverFirst cr.cnonce snonce salt i)).1 sfin).1.verified = true := by
  rw [scram_step0, scram_step1_honest C cr salt snonce i hsalt hi hc hs]
  refine ⟨_, _, [118, 61] ++ Base64.encode (C.HMAC (C.HMAC (C.Hi cr.pass salt i) sServerKey)
    (scramAuthMessage cr (Ref.serverFirst cr.cnonce snonce salt i) (cr.cnonce ++ snonce))), rfl, rfl, ?_, ?_, ?_⟩
  · rw [refServer_on_client_final]
    simp only [Ref.scramRecordOf, Ref.storedKey, Ref.clientKey, Ref.saltedPassword, Ref.serverKey]
    rw [if_pos]
    constructor
    · rw [xorBytes_length, hM, hM, hM]; exact Nat.min_self n
    · rw [xorBytes_comm (C.HMAC _ _) (C.HMAC (C.Hi cr.pass salt i) sClientKey),
        xorBytes_self_cancel _ _ (by rw [hM, hM])]
  · simp only [Ref.scramRecordOf, Ref.serverKey, Ref.saltedPassword]
    simp [scramStep, parseGS2_serverFinal _ (comma_not_mem_encode _), gs2Get, decodeLenient_encode]
  · simp only [Ref.scramRecordOf, Ref.serverKey, Ref.saltedPassword]
    simp [scramStep, parseGS2_serverFinal _ (comma_not_mem_encode _), gs2Get, decodeLenient_encode]

theorem scram_other_record (C : Crypto) (n : Nat) (hM : ∀ k m, (C.HMAC k m).length = n)
    (cr : Cred) (salt snonce : Bytes) (i : Nat) (rec : Ref.ScramRecord)
    (hsalt : salt ≠ []) (hi : 1 ≤ i ∧ i ≤ 2147483647)
    (hc : (44 : UInt8) ∉ cr.cnonce) (hs : (44 : UInt8) ∉ snonce) :
    ∃ cf1 cf am,
      (scramStep C cr {} []).2 = some cf1
      ∧ (scramStep C cr (scramStep C cr {} []).1 (Ref.serverFirst cr.cnonce snonce salt i)).2 = some cf
      ∧ (Ref.scramServerVerify C rec cf1 (Ref.serverFirst cr.cnonce snonce salt i) (cr.cnonce ++ snonce) cf = true ↔
          C.H (xorBytes (xorBytes (C.HMAC (Ref.storedKey C (Ref.saltedPassword C cr.pass salt i)) am)
                  (Ref.clientKey C (Ref.saltedPassword C cr.pass salt i)))
                (C.HMAC rec.storedKey am)) = rec.storedKey) := by
  rw [scram_step0, scram_step1_honest C cr salt snonce i hsalt hi hc hs]
  refine ⟨_, _, scramAuthMessage cr (Ref.serverFirst cr.cnonce snonce salt i) (cr.cnonce ++ snonce), rfl, rfl, ?_⟩
  rw [Ref.scramServerVerify, refServer_on_client_final]
  simp only [Ref.storedKey, Ref.clientKey, Ref.saltedPassword]
  have hl : (xorBytes (C.HMAC (C.H (C.HMAC (C.Hi cr.pass salt i) sClientKey))
        (scramAuthMessage cr (Ref.serverFirst cr.cnonce snonce salt i) (cr.cnonce ++ snonce)))
      (C.HMAC (C.Hi cr.pass salt i) sClientKey)).length
      = (C.HMAC rec.storedKey (scramAuthMessage cr (Ref.serverFirst cr.cnonce snonce salt i) (cr.cnonce ++ snonce))).length := by
    rw [xorBytes_length, hM, hM, hM]; exact Nat.min_self n
  simp [hl]

end Qx.C06
