import Qx.Proofs.C13
/-! Helper lemmas for the history-level "runs at least once" theorems of C13
(property theorems live in Qx/Props/C13.lean). -/
namespace Qx.C13

/-- operations that neither attach nor finish -/
def Op.quiet : Op → Bool
  | .destroyCtx _ | .copyHandle | .dropHandle => true
  | _ => false

theorem run_append (a b : List Op) : ∀ s : St,
    run s (a ++ b) = ((run (run s a).1 b).1, (run s a).2 ++ (run (run s a).1 b).2) := by
  induction a with
  | nil => intro s; simp [run]
  | cons op a ih => intro s; simp [run, ih, List.append_assoc]

theorem invokeCont_kind (s : St) (c : Cont) (v : Delivered) : (invokeCont s c v).1.kind = s.kind := by
  unfold invokeCont
  split
  · exact (runInner_frame _ _).kind_eq
  · rfl

theorem finishCore_kind (s : St) (c v : Nat) : (finishCore s c v).1.kind = s.kind := by
  simp only [finishCore]
  split
  · rfl
  · split
    · split
      · exact invokeCont_kind _ _ _
      · rfl
    · split <;> rfl

theorem stepCore_kind (s : St) (op : Op) : (stepCore s op).1.kind = s.kind := by
  cases op with
  | thenOp ctx body =>
    simp only [stepCore]
    split
    · rfl
    · split
      · split
        · exact (runInner_frame body _).kind_eq
        · split
          · show (runInner _ body).1.kind = s.kind
            exact (runInner_frame body _).kind_eq
          · rfl
      · rfl
  | finish v => exact finishCore_kind s 0 v
  | finishK c v => exact finishCore_kind s c v
  | take => simp only [stepCore]; split <;> rfl
  | destroyCtx c => rfl
  | copyHandle => simp only [stepCore]; split <;> rfl
  | dropHandle =>
    simp only [stepCore]
    split
    · rfl
    · split <;> rfl

theorem step_kind (s : St) (op : Op) : (step s op).1.kind = s.kind := by
  rw [step_fst]; exact stepCore_kind s op

theorem run_kind (ops : List Op) : ∀ s : St, (run s ops).1.kind = s.kind := by
  induction ops with
  | nil => intro s; rfl
  | cons op ops ih => intro s; simp only [run]; rw [ih, step_kind]

/-- what a stretch of quiet operations preserves: not finished, ids, and the attached
continuation as long as a handle is left -/
structure Waiting (s : St) (c : Cont) : Prop where
  nf : s.finished = false
  cont : s.refs ≠ 0 → s.cont = some c

theorem quiet_step_waiting (s : St) (c : Cont) (op : Op) (hq : op.quiet = true)
    (h : Waiting s c) : Waiting (step s op).1 c ∧ ranIds (step s op).2 = [] := by
  rw [step_fst, step_ranIds]
  cases op with
  | thenOp ctx body => simp [Op.quiet] at hq
  | finish v => simp [Op.quiet] at hq
  | finishK c v => simp [Op.quiet] at hq
  | take => simp [Op.quiet] at hq
  | destroyCtx x => exact ⟨⟨h.nf, h.cont⟩, rfl⟩
  | copyHandle =>
    simp only [stepCore]
    split
    · exact ⟨h, rfl⟩
    · next hr => exact ⟨⟨h.nf, fun _ => h.cont hr⟩, rfl⟩
  | dropHandle =>
    simp only [stepCore]
    split
    · exact ⟨h, rfl⟩
    · next hr =>
      split
      · exact ⟨⟨h.nf, fun hx => absurd rfl hx⟩, rfl⟩
      · exact ⟨⟨h.nf, fun _ => h.cont hr⟩, rfl⟩

theorem quiet_run_waiting (mid : List Op) : ∀ (s : St) (c : Cont),
    (∀ op ∈ mid, op.quiet = true) → Waiting s c →
    Waiting (run s mid).1 c ∧ ranIds (run s mid).2 = [] := by
  induction mid with
  | nil => intro s c _ h; exact ⟨h, rfl⟩
  | cons op mid ih =>
    intro s c hq h
    have h1 := quiet_step_waiting s c op (hq op (by simp)) h
    have h2 := ih (step s op).1 c (fun o ho => hq o (by simp [ho])) h1.1
    simp only [run]
    refine ⟨h2.1, ?_⟩
    rw [ranIds_append, h1.2, h2.2]; rfl

end Qx.C13

namespace Qx.C13

theorem stepCore_sub_step (s : St) (op : Op) : ∀ e ∈ (stepCore s op).2, e ∈ (step s op).2 := by
  intro e he
  unfold step
  simp only
  split
  · exact List.mem_append_left _ he
  · exact he

theorem mem_ranIds_of_mem {k c d} {evs : List Ev} (h : Ev.ran k c d ∈ evs) : k ∈ ranIds evs := by
  simp only [ranIds, List.mem_filterMap]
  exact ⟨_, h, rfl⟩

/-- decomposition of the events of `pre ++ op :: (mid ++ op' :: post)` -/
theorem run_split (s : St) (pre mid post : List Op) (op op' : Op) :
    (run s (pre ++ op :: (mid ++ op' :: post))).2 =
      (run s pre).2 ++ ((step (run s pre).1 op).2 ++
        ((run (step (run s pre).1 op).1 mid).2 ++
          ((step (run (step (run s pre).1 op).1 mid).1 op').2 ++
            (run (step (run (step (run s pre).1 op).1 mid).1 op').1 post).2))) := by
  rw [run_append]; simp only [run]; rw [run_append]; simp only [run]

end Qx.C13
