import Qx.Model.C18Atm
/-!
Helper lemmas for C18 (property theorems are in `Qx/Props/C18.lean`).
-/
namespace Qx.C18

/-! ### trust map -/

theorem lookup_setOne_same (t : List ((Nat × Nat) × Level)) (r : Nat × Nat) (l : Level) :
    lookup (setOne t r l) r = l := by
  induction t with
  | nil => simp [setOne, lookup]
  | cons x rest ih =>
    obtain ⟨r', l'⟩ := x
    by_cases h : r' = r
    · simp [setOne, lookup, h]
    · simp [setOne, lookup, h, ih]

theorem lookup_setOne_other (t : List ((Nat × Nat) × Level)) (r r2 : Nat × Nat) (l : Level) (h : r2 ≠ r) :
    lookup (setOne t r l) r2 = lookup t r2 := by
  induction t with
  | nil =>
    have : ¬ r = r2 := fun e => h e.symm
    simp [setOne, lookup, this]
  | cons x rest ih =>
    obtain ⟨r', l'⟩ := x
    by_cases h1 : r' = r
    · subst h1
      have : ¬ r' = r2 := fun e => h e.symm
      simp [setOne, lookup, this]
    · by_cases h2 : r' = r2
      · subst h2
        simp [setOne, lookup, h]
      · simp [setOne, lookup, h1, h2, ih]

theorem lookup_setMany_not_mem (keys : List (Nat × Nat)) (t : List ((Nat × Nat) × Level)) (r : Nat × Nat) (l : Level)
    (h : r ∉ keys) : lookup (setMany t keys l) r = lookup t r := by
  induction keys generalizing t with
  | nil => simp [setMany]
  | cons k rest ih =>
    simp only [List.mem_cons, not_or] at h
    simp only [setMany]
    rw [ih _ h.2, lookup_setOne_other _ _ _ _ h.1]

theorem lookup_setMany_mem (keys : List (Nat × Nat)) (t : List ((Nat × Nat) × Level)) (r : Nat × Nat) (l : Level)
    (h : r ∈ keys) : lookup (setMany t keys l) r = l := by
  induction keys generalizing t with
  | nil => simp at h
  | cons k rest ih =>
    simp only [setMany]
    by_cases h2 : r ∈ rest
    · exact ih _ h2
    · have : r = k := by
        rcases List.mem_cons.mp h with h3 | h3
        · exact h3
        · exact absurd h3 h2
      subst this
      rw [lookup_setMany_not_mem _ _ _ _ h2, lookup_setOne_same]

theorem lookup_autoDistrust (t : List ((Nat × Nat) × Level)) (owners : List Nat) (r : Nat × Nat) :
    lookup (autoDistrust t owners) r =
      if r.1 ∈ owners ∧ lookup t r = .autoTrusted then .autoDistrusted else lookup t r := by
  induction t with
  | nil => simp [autoDistrust, lookup]
  | cons x rest ih =>
    obtain ⟨r', l'⟩ := x
    simp only [autoDistrust, List.map_cons] at ih ⊢
    by_cases h : r' = r
    · subst h
      by_cases h2 : r'.1 ∈ owners ∧ l' = .autoTrusted
      · simp [lookup, h2]
      · simp only [h2, if_false, lookup, if_true]
    · by_cases h2 : r'.1 ∈ owners ∧ l' = .autoTrusted
      · simp only [h2, and_self, if_true, lookup, h, if_false]; exact ih
      · simp only [h2, if_false, lookup, h]; exact ih

/-! ### store-level projections -/

@[simp] theorem setLevels_postponed (s : Store) (keys : List (Nat × Nat)) (l : Level) :
    (s.setLevels keys l).postponed = s.postponed := rfl
@[simp] theorem setLevels_policy (s : Store) (keys : List (Nat × Nat)) (l : Level) :
    (s.setLevels keys l).policy = s.policy := rfl
@[simp] theorem distrustAuto_postponed (s : Store) (o : List Nat) : (s.distrustAuto o).postponed = s.postponed := rfl
@[simp] theorem distrustAuto_policy (s : Store) (o : List Nat) : (s.distrustAuto o).policy = s.policy := rfl
@[simp] theorem removeDecided_trust (s : Store) (a d : List Nat) : (s.removeDecided a d).trust = s.trust := rfl
@[simp] theorem removeDecided_policy (s : Store) (a d : List Nat) : (s.removeDecided a d).policy = s.policy := rfl
@[simp] theorem removeBySender_trust (s : Store) (a : List Nat) : (s.removeBySender a).trust = s.trust := rfl
@[simp] theorem removeBySender_policy (s : Store) (a : List Nat) : (s.removeBySender a).policy = s.policy := rfl
@[simp] theorem addPostponed_trust (s : Store) (es : List Entry) : (s.addPostponed es).trust = s.trust := rfl
@[simp] theorem addPostponed_policy (s : Store) (es : List Entry) : (s.addPostponed es).policy = s.policy := rfl
@[simp] theorem takeFired_trust (s : Store) (f : List Entry) : (s.takeFired f).trust = s.trust := rfl
@[simp] theorem takeFired_policy (s : Store) (f : List Entry) : (s.takeFired f).policy = s.policy := rfl

theorem level_setLevels_mem (s : Store) (keys : List (Nat × Nat)) (l : Level) (o k : Nat) (h : (o, k) ∈ keys) :
    (s.setLevels keys l).level o k = l := lookup_setMany_mem _ _ _ _ h

theorem level_setLevels_not_mem (s : Store) (keys : List (Nat × Nat)) (l : Level) (o k : Nat) (h : (o, k) ∉ keys) :
    (s.setLevels keys l).level o k = s.level o k := lookup_setMany_not_mem _ _ _ _ h

theorem level_distrustAuto (s : Store) (owners : List Nat) (o k : Nat) :
    (s.distrustAuto owners).level o k =
      if o ∈ owners ∧ s.level o k = .autoTrusted then .autoDistrusted else s.level o k :=
  lookup_autoDistrust _ _ _

@[simp] theorem level_removeDecided (s : Store) (a d : List Nat) (o k : Nat) :
    (s.removeDecided a d).level o k = s.level o k := rfl
@[simp] theorem level_removeBySender (s : Store) (a : List Nat) (o k : Nat) :
    (s.removeBySender a).level o k = s.level o k := rfl
@[simp] theorem level_addPostponed (s : Store) (es : List Entry) (o k : Nat) :
    (s.addPostponed es).level o k = s.level o k := rfl
@[simp] theorem level_takeFired (s : Store) (f : List Entry) (o k : Nat) :
    (s.takeFired f).level o k = s.level o k := rfl

/-! ### beginAuth, distrust, takeFired -/

@[simp] theorem beginAuth_postponed (s : Store) (keys : List (Nat × Nat)) :
    (s.beginAuth keys).postponed = s.postponed := by
  simp only [Store.beginAuth]; split <;> rfl

@[simp] theorem beginAuth_policy (s : Store) (keys : List (Nat × Nat)) :
    (s.beginAuth keys).policy = s.policy := by
  simp only [Store.beginAuth]; split <;> rfl

theorem level_beginAuth_mem (s : Store) (keys : List (Nat × Nat)) (o k : Nat) (h : (o, k) ∈ keys) :
    (s.beginAuth keys).level o k = .authenticated := by
  simp only [Store.beginAuth]
  split
  · rw [level_distrustAuto, level_setLevels_mem _ _ _ _ _ h]; simp
  · exact level_setLevels_mem _ _ _ _ _ h

theorem level_beginAuth_not_mem (s : Store) (keys : List (Nat × Nat)) (o k : Nat) (h : (o, k) ∉ keys) :
    (s.beginAuth keys).level o k =
      if s.policy = .toakafa ∧ o ∈ keys.map (·.1) ∧ s.level o k = .autoTrusted then .autoDistrusted
      else s.level o k := by
  simp only [Store.beginAuth, setLevels_policy]
  by_cases hp : s.policy = .toakafa
  · simp only [hp, if_true, true_and]
    rw [level_distrustAuto, level_setLevels_not_mem _ _ _ _ _ h]
  · simp only [hp, if_false, false_and]
    exact level_setLevels_not_mem _ _ _ _ _ h

@[simp] theorem distrust_nil (s : Store) : s.distrust [] = s := by simp [Store.distrust]
@[simp] theorem distrustEvs_nil (s : Store) : s.distrustEvs [] = [] := by simp [Store.distrustEvs]

@[simp] theorem distrust_policy (s : Store) (keys : List (Nat × Nat)) : (s.distrust keys).policy = s.policy := by
  simp only [Store.distrust]; split <;> rfl

theorem level_distrust_mem (s : Store) (keys : List (Nat × Nat)) (o k : Nat) (h : (o, k) ∈ keys) :
    (s.distrust keys).level o k = .manDistrusted := by
  have hne : keys ≠ [] := by intro e; simp [e] at h
  simp only [Store.distrust, hne, if_false, level_removeBySender]
  exact level_setLevels_mem _ _ _ _ _ h

theorem level_distrust_not_mem (s : Store) (keys : List (Nat × Nat)) (o k : Nat) (h : (o, k) ∉ keys) :
    (s.distrust keys).level o k = s.level o k := by
  simp only [Store.distrust]
  split
  · rfl
  · simp only [level_removeBySender]; exact level_setLevels_not_mem _ _ _ _ _ h

theorem distrust_postponed (s : Store) (keys : List (Nat × Nat)) (h : keys ≠ []) :
    (s.distrust keys).postponed = s.postponed.filter fun e => !decide (e.sender ∈ keys.map (·.2)) := by
  simp [Store.distrust, h, Store.removeBySender]

theorem distrust_postponed_subset (s : Store) (keys : List (Nat × Nat)) (e : Entry)
    (h : e ∈ (s.distrust keys).postponed) : e ∈ s.postponed := by
  by_cases hk : keys = []
  · simpa [hk] using h
  · rw [distrust_postponed _ _ hk] at h; exact (List.mem_filter.mp h).1

theorem takeFired_postponed_subset (s : Store) (f : List Entry) (e : Entry)
    (h : e ∈ (s.takeFired f).postponed) : e ∈ s.postponed := by
  simp only [Store.takeFired, Store.removeDecided] at h; exact (List.mem_filter.mp h).1

theorem mem_fetch (s : Store) (ids : List Nat) (e : Entry) :
    e ∈ s.fetch ids ↔ e ∈ s.postponed ∧ e.sender ∈ ids := by
  simp [Store.fetch, List.mem_filter]

theorem mem_targets (f : List Entry) (v : Bool) (r : Nat × Nat) :
    r ∈ targets f v ↔ ∃ e ∈ f, e.trust = v ∧ (e.owner, e.key) = r := by
  simp [targets, List.mem_map, List.mem_filter, and_assoc]

/-- every fetched entry is removed by `takeFired` (the removal is by verdict and key id, so it
covers the fetched entries and possibly more) -/
theorem takeFired_removes (s : Store) (f : List Entry) (e : Entry) (h : e ∈ f) :
    e ∉ (s.takeFired f).postponed := by
  intro hm
  simp only [Store.takeFired, Store.removeDecided, List.mem_filter] at hm
  have h2 := hm.2
  cases ht : e.trust
  · have : e.key ∈ (targets f false).map (·.2) :=
      List.mem_map.mpr ⟨(e.owner, e.key), (mem_targets _ _ _).mpr ⟨e, h, ht, rfl⟩, rfl⟩
    simp [ht, this] at h2
  · have : e.key ∈ (targets f true).map (·.2) :=
      List.mem_map.mpr ⟨(e.owner, e.key), (mem_targets _ _ _).mpr ⟨e, h, ht, rfl⟩, rfl⟩
    simp [ht, this] at h2

/-- an entry that `takeFired` removes has the same verdict and key id as some fetched entry -/
theorem takeFired_removed_only (s : Store) (f : List Entry) (e : Entry) (h : e ∈ s.postponed)
    (h2 : e ∉ (s.takeFired f).postponed) : ∃ e' ∈ f, e'.key = e.key ∧ e'.trust = e.trust := by
  simp only [Store.takeFired, Store.removeDecided, List.mem_filter, h, true_and] at h2
  cases ht : e.trust
  · simp only [ht, Bool.false_and, Bool.not_false, Bool.true_and, Bool.false_or, Bool.not_eq_true',
      Bool.not_eq_false, decide_eq_true_eq, Bool.not_not] at h2
    obtain ⟨r, hr, hk⟩ := List.mem_map.mp h2
    obtain ⟨e', he', ht', hr'⟩ := (mem_targets _ _ _).mp hr
    refine ⟨e', he', ?_, ht'⟩
    rw [← hk, ← hr']
  · simp only [ht, Bool.true_and, Bool.not_true, Bool.false_and, Bool.or_false, Bool.not_eq_true',
      Bool.not_eq_false, decide_eq_true_eq, Bool.not_not] at h2
    obtain ⟨r, hr, hk⟩ := List.mem_map.mp h2
    obtain ⟨e', he', ht', hr'⟩ := (mem_targets _ _ _).mp hr
    refine ⟨e', he', ?_, ht'⟩
    rw [← hk, ← hr']

/-! ### frame: which owners' levels may move -/

/-- between `s` and `s'` only keys whose owner satisfies `P` changed their level -/
def Within (P : Nat → Prop) (s s' : Store) : Prop := ∀ o k, s'.level o k ≠ s.level o k → P o

theorem Within.refl (P : Nat → Prop) (s : Store) : Within P s s := fun _ _ h => absurd rfl h

theorem Within.of_eq {P : Nat → Prop} {s s' : Store} (h : ∀ o k, s'.level o k = s.level o k) : Within P s s' :=
  fun o k hne => absurd (h o k) hne

theorem Within.trans {P : Nat → Prop} {s s' s'' : Store} (h1 : Within P s s') (h2 : Within P s' s'') :
    Within P s s'' := by
  intro o k hne
  by_cases h : s'.level o k = s.level o k
  · exact h2 o k (by rw [h]; exact hne)
  · exact h1 o k h

theorem within_beginAuth (P : Nat → Prop) (s : Store) (keys : List (Nat × Nat)) (h : ∀ r ∈ keys, P r.1) :
    Within P s (s.beginAuth keys) := by
  intro o k hne
  by_cases hm : (o, k) ∈ keys
  · exact h _ hm
  · rw [level_beginAuth_not_mem _ _ _ _ hm] at hne
    split at hne
    · rename_i hc
      obtain ⟨r, hr, hro⟩ := List.mem_map.mp hc.2.1
      rw [← hro]; exact h r hr
    · exact absurd rfl hne

theorem within_distrust (P : Nat → Prop) (s : Store) (keys : List (Nat × Nat)) (h : ∀ r ∈ keys, P r.1) :
    Within P s (s.distrust keys) := by
  intro o k hne
  by_cases hm : (o, k) ∈ keys
  · exact h _ hm
  · exact absurd (level_distrust_not_mem _ _ _ _ hm) hne

/-! ### the cascade -/

theorem authF_nil (n : Nat) (s : Store) : authF n s [] = (s, []) := by
  cases n <;> simp [authF]

theorem authF_succ (n : Nat) (s : Store) (keys : List (Nat × Nat)) (h : keys ≠ []) :
    authF (n + 1) s keys =
      ((authF n ((s.beginAuth keys).takeFired ((s.beginAuth keys).fetch (keys.map (·.2))))
          (targets ((s.beginAuth keys).fetch (keys.map (·.2))) true)).1.distrust
          (targets ((s.beginAuth keys).fetch (keys.map (·.2))) false),
       s.beginAuthEvs keys ++ ((s.beginAuth keys).fetch (keys.map (·.2))).map .fired ++
         (authF n ((s.beginAuth keys).takeFired ((s.beginAuth keys).fetch (keys.map (·.2))))
          (targets ((s.beginAuth keys).fetch (keys.map (·.2))) true)).2 ++
         (authF n ((s.beginAuth keys).takeFired ((s.beginAuth keys).fetch (keys.map (·.2))))
          (targets ((s.beginAuth keys).fetch (keys.map (·.2))) true)).1.distrustEvs
            (targets ((s.beginAuth keys).fetch (keys.map (·.2))) false)) := by
  simp [authF, h]

@[simp] theorem fetch_beginAuth (s : Store) (keys : List (Nat × Nat)) (ids : List Nat) :
    (s.beginAuth keys).fetch ids = s.fetch ids := by
  simp [Store.fetch]

theorem authF_policy (n : Nat) (s : Store) (keys : List (Nat × Nat)) : (authF n s keys).1.policy = s.policy := by
  induction n generalizing s keys with
  | zero => simp only [authF]; split <;> rfl
  | succ n ih =>
    by_cases h : keys = []
    · simp [h, authF_nil]
    · rw [authF_succ _ _ _ h]; simp [ih]

theorem authF_postponed_subset (n : Nat) (s : Store) (keys : List (Nat × Nat)) (e : Entry)
    (h : e ∈ (authF n s keys).1.postponed) : e ∈ s.postponed := by
  induction n generalizing s keys with
  | zero => simp only [authF] at h; split at h <;> exact h
  | succ n ih =>
    by_cases hk : keys = []
    · simpa [hk, authF_nil] using h
    · rw [authF_succ _ _ _ hk] at h
      have h1 := distrust_postponed_subset _ _ _ h
      have h2 := ih _ _ h1
      have h3 := takeFired_postponed_subset _ _ _ h2
      simpa using h3

/-- Generic frame lemma for the whole cascade.  `P` = owners whose keys may move, `G` = key ids that
may become authenticated on the way.  If the requested keys are fine and every held-back entry whose
sender id may become authenticated names a fine owner and a fine key id, only fine owners move. -/
theorem authF_within (P G : Nat → Prop) (n : Nat) (s : Store) (keys : List (Nat × Nat))
    (h1 : ∀ r ∈ keys, P r.1 ∧ G r.2)
    (h2 : ∀ e ∈ s.postponed, G e.sender → P e.owner ∧ G e.key) :
    Within P s (authF n s keys).1 := by
  induction n generalizing s keys with
  | zero => simp only [authF]; split <;> exact Within.refl _ _
  | succ n ih =>
    by_cases hk : keys = []
    · simp only [hk, authF_nil]; exact Within.refl _ _
    · rw [authF_succ _ _ _ hk]
      simp only [fetch_beginAuth]
      have hf : ∀ e ∈ s.fetch (keys.map (·.2)), P e.owner ∧ G e.key := by
        intro e he
        obtain ⟨hep, hes⟩ := (mem_fetch _ _ _).mp he
        obtain ⟨r, hr, hrs⟩ := List.mem_map.mp hes
        exact h2 e hep (by rw [← hrs]; exact (h1 r hr).2)
      have ht : ∀ v, ∀ r ∈ targets (s.fetch (keys.map (·.2))) v, P r.1 ∧ G r.2 := by
        intro v r hr
        obtain ⟨e, he, _, her⟩ := (mem_targets _ _ _).mp hr
        rw [← her]; exact hf e he
      have w1 : Within P s (s.beginAuth keys) := within_beginAuth P s keys fun r hr => (h1 r hr).1
      have w2 : Within P (s.beginAuth keys) ((s.beginAuth keys).takeFired (s.fetch (keys.map (·.2)))) :=
        Within.of_eq fun _ _ => rfl
      have w3 := ih ((s.beginAuth keys).takeFired (s.fetch (keys.map (·.2)))) (targets (s.fetch (keys.map (·.2))) true)
        (ht true)
        (by
          intro e he hg
          have := takeFired_postponed_subset _ _ _ he
          exact h2 e (by simpa using this) hg)
      have w4 := within_distrust P
        (authF n ((s.beginAuth keys).takeFired (s.fetch (keys.map (·.2)))) (targets (s.fetch (keys.map (·.2))) true)).1
        (targets (s.fetch (keys.map (·.2))) false) fun r hr => (ht false r hr).1
      exact (w1.trans w2).trans (w3.trans w4)

end Qx.C18
