import Qx.Model.C18Atm
/-!
Helper lemmas for C18 (property theorems are in `Qx/Props/C18.lean`).
-/
namespace Qx.C18

/-! ### trust map -/

theorem lookup_setOne_same (t : List ((Nat × Nat) × Level)) (r : Nat × Nat) (l : Level) :
    lookup (setOne t r l) r = l := by
  induction t with
  | nil => simp [setOne, lookup]
  | cons x rest ih =>
    obtain ⟨r', l'⟩ := x
    by_cases h : r' = r
    · simp [setOne, lookup, h]
    · simp [setOne, lookup, h, ih]

theorem lookup_setOne_other (t : List ((Nat × Nat) × Level)) (r r2 : Nat × Nat) (l : Level) (h : r2 ≠ r) :
    lookup (setOne t r l) r2 = lookup t r2 := by
  induction t with
  | nil =>
    have : ¬ r = r2 := fun e => h e.symm
    simp [setOne, lookup, this]
  | cons x rest ih =>
    obtain ⟨r', l'⟩ := x
    by_cases h1 : r' = r
    · subst h1
      have : ¬ r' = r2 := fun e => h e.symm
      simp [setOne, lookup, this]
    · by_cases h2 : r' = r2
      · subst h2
        simp [setOne, lookup, h]
      · simp [setOne, lookup, h1, h2, ih]

theorem lookup_setMany_not_mem (keys : List (Nat × Nat)) (t : List ((Nat × Nat) × Level)) (r : Nat × Nat) (l : Level)
    (h : r ∉ keys) : lookup (setMany t keys l) r = lookup t r := by
  induction keys generalizing t with
  | nil => simp [setMany]
  | cons k rest ih =>
    simp only [List.mem_cons, not_or] at h
    simp only [setMany]
    rw [ih _ h.2, lookup_setOne_other _ _ _ _ h.1]

theorem lookup_setMany_mem (keys : List (Nat × Nat)) (t : List ((Nat × Nat) × Level)) (r : Nat × Nat) (l : Level)
    (h : r ∈ keys) : lookup (setMany t keys l) r = l := by
  induction keys generalizing t with
  | nil => simp at h
  | cons k rest ih =>
    simp only [setMany]
    by_cases h2 : r ∈ rest
    · exact ih _ h2
    · have : r = k := by
        rcases List.mem_cons.mp h with h3 | h3
        · exact h3
        · exact absurd h3 h2
      subst this
      rw [lookup_setMany_not_mem _ _ _ _ h2, lookup_setOne_same]

theorem lookup_autoDistrust (t : List ((Nat × Nat) × Level)) (owners : List Nat) (r : Nat × Nat) :
    lookup (autoDistrust t owners) r =
      if r.1 ∈ owners ∧ lookup t r = .autoTrusted then .autoDistrusted else lookup t r := by
  induction t with
  | nil => simp [autoDistrust, lookup]
  | cons x rest ih =>
    obtain ⟨r', l'⟩ := x
    simp only [autoDistrust, List.map_cons] at ih ⊢
    by_cases h : r' = r
    · subst h
      by_cases h2 : r'.1 ∈ owners ∧ l' = .autoTrusted
      · simp [lookup, h2]
      · simp only [h2, if_false, lookup, if_true]
    · by_cases h2 : r'.1 ∈ owners ∧ l' = .autoTrusted
      · simp only [h2, and_self, if_true, lookup, h, if_false]; exact ih
      · simp only [h2, if_false, lookup, h]; exact ih

/-! ### store-level projections -/

@[simp] theorem setLevels_postponed (s : Store) (keys : List (Nat × Nat)) (l : Level) :
    (s.setLevels keys l).postponed = s.postponed := rfl
@[simp] theorem setLevels_policy (s : Store) (keys : List (Nat × Nat)) (l : Level) :
    (s.setLevels keys l).policy = s.policy := rfl
@[simp] theorem distrustAuto_postponed (s : Store) (o : List Nat) : (s.distrustAuto o).postponed = s.postponed := rfl
@[simp] theorem distrustAuto_policy (s : Store) (o : List Nat) : (s.distrustAuto o).policy = s.policy := rfl
@[simp] theorem removeDecided_trust (s : Store) (a d : List Nat) : (s.removeDecided a d).trust = s.trust := rfl
@[simp] theorem removeDecided_policy (s : Store) (a d : List Nat) : (s.removeDecided a d).policy = s.policy := rfl
@[simp] theorem removeBySender_trust (s : Store) (a : List Nat) : (s.removeBySender a).trust = s.trust := rfl
@[simp] theorem removeBySender_policy (s : Store) (a : List Nat) : (s.removeBySender a).policy = s.policy := rfl
@[simp] theorem addPostponed_trust (s : Store) (es : List Entry) : (s.addPostponed es).trust = s.trust := rfl
@[simp] theorem addPostponed_policy (s : Store) (es : List Entry) : (s.addPostponed es).policy = s.policy := rfl
@[simp] theorem takeFired_trust (s : Store) (f : List Entry) : (s.takeFired f).trust = s.trust := rfl
@[simp] theorem takeFired_policy (s : Store) (f : List Entry) : (s.takeFired f).policy = s.policy := rfl

theorem level_setLevels_mem (s : Store) (keys : List (Nat × Nat)) (l : Level) (o k : Nat) (h : (o, k) ∈ keys) :
    (s.setLevels keys l).level o k = l := lookup_setMany_mem _ _ _ _ h

theorem level_setLevels_not_mem (s : Store) (keys : List (Nat × Nat)) (l : Level) (o k : Nat) (h : (o, k) ∉ keys) :
    (s.setLevels keys l).level o k = s.level o k := lookup_setMany_not_mem _ _ _ _ h

theorem level_distrustAuto (s : Store) (owners : List Nat) (o k : Nat) :
    (s.distrustAuto owners).level o k =
      if o ∈ owners ∧ s.level o k = .autoTrusted then .autoDistrusted else s.level o k :=
  lookup_autoDistrust _ _ _

@[simp] theorem level_removeDecided (s : Store) (a d : List Nat) (o k : Nat) :
    (s.removeDecided a d).level o k = s.level o k := rfl
@[simp] theorem level_removeBySender (s : Store) (a : List Nat) (o k : Nat) :
    (s.removeBySender a).level o k = s.level o k := rfl
@[simp] theorem level_removeBySenderQ (s : Store) (own : Nat) (a : List (Nat × Nat)) (o k : Nat) :
    (s.removeBySenderQ own a).level o k = s.level o k := rfl
@[simp] theorem level_addPostponed (s : Store) (es : List Entry) (o k : Nat) :
    (s.addPostponed es).level o k = s.level o k := rfl
@[simp] theorem level_takeFired (s : Store) (f : List Entry) (o k : Nat) :
    (s.takeFired f).level o k = s.level o k := rfl

/-! ### beginAuth, distrust, takeFired -/

variable {own : Nat}

/-- entry `e` is in the scope of key set `K` (the rule re-applied by `makePostponedTrustDecisions` and
`removePostponedTrustDecisions`): an own key is in `K`, or a key of `e`'s owner is -/
def InScopeOf (own : Nat) (K : List (Nat × Nat)) (e : Entry) : Prop :=
  own ∈ K.map (·.1) ∨ e.owner ∈ K.map (·.1)

@[simp] theorem beginAuth_postponed (s : Store) (keys : List (Nat × Nat)) :
    (s.beginAuth keys).postponed = s.postponed := by
  simp only [Store.beginAuth]; split <;> rfl

@[simp] theorem beginAuth_policy (s : Store) (keys : List (Nat × Nat)) :
    (s.beginAuth keys).policy = s.policy := by
  simp only [Store.beginAuth]; split <;> rfl

theorem level_beginAuth_mem (s : Store) (keys : List (Nat × Nat)) (o k : Nat) (h : (o, k) ∈ keys) :
    (s.beginAuth keys).level o k = .authenticated := by
  simp only [Store.beginAuth]
  split
  · rw [level_distrustAuto, level_setLevels_mem _ _ _ _ _ h]; simp
  · exact level_setLevels_mem _ _ _ _ _ h

theorem level_beginAuth_not_mem (s : Store) (keys : List (Nat × Nat)) (o k : Nat) (h : (o, k) ∉ keys) :
    (s.beginAuth keys).level o k =
      if s.policy = .toakafa ∧ o ∈ keys.map (·.1) ∧ s.level o k = .autoTrusted then .autoDistrusted
      else s.level o k := by
  simp only [Store.beginAuth, setLevels_policy]
  by_cases hp : s.policy = .toakafa
  · simp only [hp, if_true, true_and]
    rw [level_distrustAuto, level_setLevels_not_mem _ _ _ _ _ h]
  · simp only [hp, if_false, false_and]
    exact level_setLevels_not_mem _ _ _ _ _ h

@[simp] theorem distrust_nil (s : Store) : s.distrust own [] = s := by simp [Store.distrust]
@[simp] theorem distrustEvs_nil (s : Store) : s.distrustEvs [] = [] := by simp [Store.distrustEvs]

@[simp] theorem distrust_policy (s : Store) (keys : List (Nat × Nat)) : (s.distrust own keys).policy = s.policy := by
  simp only [Store.distrust]; split <;> rfl

theorem level_distrust_mem (s : Store) (keys : List (Nat × Nat)) (o k : Nat) (h : (o, k) ∈ keys) :
    (s.distrust own keys).level o k = .manDistrusted := by
  have hne : keys ≠ [] := by intro e; simp [e] at h
  simp only [Store.distrust, hne, if_false, level_removeBySenderQ]
  exact level_setLevels_mem _ _ _ _ _ h

theorem level_distrust_not_mem (s : Store) (keys : List (Nat × Nat)) (o k : Nat) (h : (o, k) ∉ keys) :
    (s.distrust own keys).level o k = s.level o k := by
  simp only [Store.distrust]
  split
  · rfl
  · simp only [level_removeBySenderQ]; exact level_setLevels_not_mem _ _ _ _ _ h

/-- what `distrust` leaves held: everything except the entries held under one of the distrusted key ids that
are in the scope of the accounts these keys were distrusted for -/
theorem mem_distrust_postponed (s : Store) (K : List (Nat × Nat)) (e : Entry) :
    e ∈ (s.distrust own K).postponed ↔ e ∈ s.postponed ∧ ¬ (e.sender ∈ K.map (·.2) ∧ InScopeOf own K e) := by
  by_cases hK : K = []
  · simp [hK]
  · simp only [Store.distrust, hK, if_false, Store.removeBySenderQ, setLevels_postponed, List.mem_filter, InScopeOf,
      Bool.not_eq_true', Bool.and_eq_false_iff, Bool.or_eq_false_iff, decide_eq_false_iff_not, decide_eq_true_eq]
    constructor
    · rintro ⟨h1, h2⟩
      refine ⟨h1, ?_⟩
      rintro ⟨a, b⟩
      rcases h2 with h2 | h2
      · exact h2 a
      · rcases b with b | b
        · exact h2.1 b
        · exact h2.2 b
    · rintro ⟨h1, h2⟩
      refine ⟨h1, ?_⟩
      by_cases a : e.sender ∈ K.map (·.2)
      · right
        exact ⟨fun b => h2 ⟨a, Or.inl b⟩, fun b => h2 ⟨a, Or.inr b⟩⟩
      · exact Or.inl a

theorem distrust_postponed_subset (s : Store) (keys : List (Nat × Nat)) (e : Entry)
    (h : e ∈ (s.distrust own keys).postponed) : e ∈ s.postponed :=
  ((mem_distrust_postponed _ _ _).mp h).1

theorem takeFired_postponed_subset (s : Store) (f : List Entry) (e : Entry)
    (h : e ∈ (s.takeFired f).postponed) : e ∈ s.postponed := by
  simp only [Store.takeFired, Store.removeDecided] at h; exact (List.mem_filter.mp h).1

theorem mem_fetch (s : Store) (ids : List Nat) (e : Entry) :
    e ∈ s.fetch ids ↔ e ∈ s.postponed ∧ e.sender ∈ ids := by
  simp [Store.fetch, List.mem_filter]

theorem mem_targets (f : List Entry) (v : Bool) (r : Nat × Nat) :
    r ∈ targets f v ↔ ∃ e ∈ f, e.trust = v ∧ (e.owner, e.key) = r := by
  simp [targets, List.mem_map, List.mem_filter, and_assoc]

/-- every fetched entry is removed by `takeFired` (the removal is by verdict and key id, so it
covers the fetched entries and possibly more) -/
theorem takeFired_removes (s : Store) (f : List Entry) (e : Entry) (h : e ∈ f) :
    e ∉ (s.takeFired f).postponed := by
  intro hm
  simp only [Store.takeFired, Store.removeDecided, List.mem_filter] at hm
  have h2 := hm.2
  cases ht : e.trust
  · have : e.key ∈ (targets f false).map (·.2) :=
      List.mem_map.mpr ⟨(e.owner, e.key), (mem_targets _ _ _).mpr ⟨e, h, ht, rfl⟩, rfl⟩
    simp [ht, this] at h2
  · have : e.key ∈ (targets f true).map (·.2) :=
      List.mem_map.mpr ⟨(e.owner, e.key), (mem_targets _ _ _).mpr ⟨e, h, ht, rfl⟩, rfl⟩
    simp [ht, this] at h2

/-- an entry that `takeFired` removes has the same verdict and key id as some fetched entry -/
theorem takeFired_removed_only (s : Store) (f : List Entry) (e : Entry) (h : e ∈ s.postponed)
    (h2 : e ∉ (s.takeFired f).postponed) : ∃ e' ∈ f, e'.key = e.key ∧ e'.trust = e.trust := by
  simp only [Store.takeFired, Store.removeDecided, List.mem_filter, h, true_and] at h2
  cases ht : e.trust
  · simp only [ht, Bool.false_and, Bool.not_false, Bool.true_and, Bool.false_or, Bool.not_eq_true',
      Bool.not_eq_false, decide_eq_true_eq] at h2
    obtain ⟨r, hr, hk⟩ := List.mem_map.mp h2
    obtain ⟨e', he', ht', hr'⟩ := (mem_targets _ _ _).mp hr
    refine ⟨e', he', ?_, ht'⟩
    rw [← hk, ← hr']
  · simp only [ht, Bool.true_and, Bool.not_true, Bool.false_and, Bool.or_false, Bool.not_eq_true',
      Bool.not_eq_false, decide_eq_true_eq] at h2
    obtain ⟨r, hr, hk⟩ := List.mem_map.mp h2
    obtain ⟨e', he', ht', hr'⟩ := (mem_targets _ _ _).mp hr
    refine ⟨e', he', ?_, ht'⟩
    rw [← hk, ← hr']

/-! ### frame: which owners' levels may move -/

/-- between `s` and `s'` only keys whose owner satisfies `P` changed their level -/
def Within (P : Nat → Prop) (s s' : Store) : Prop := ∀ o k, s'.level o k ≠ s.level o k → P o

theorem Within.refl (P : Nat → Prop) (s : Store) : Within P s s := fun _ _ h => absurd rfl h

theorem Within.of_eq {P : Nat → Prop} {s s' : Store} (h : ∀ o k, s'.level o k = s.level o k) : Within P s s' :=
  fun o k hne => absurd (h o k) hne

theorem Within.trans {P : Nat → Prop} {s s' s'' : Store} (h1 : Within P s s') (h2 : Within P s' s'') :
    Within P s s'' := by
  intro o k hne
  by_cases h : s'.level o k = s.level o k
  · exact h2 o k (by rw [h]; exact hne)
  · exact h1 o k h

theorem within_beginAuth (P : Nat → Prop) (s : Store) (keys : List (Nat × Nat)) (h : ∀ r ∈ keys, P r.1) :
    Within P s (s.beginAuth keys) := by
  intro o k hne
  by_cases hm : (o, k) ∈ keys
  · exact h _ hm
  · rw [level_beginAuth_not_mem _ _ _ _ hm] at hne
    split at hne
    · rename_i hc
      obtain ⟨r, hr, hro⟩ := List.mem_map.mp hc.2.1
      rw [← hro]; exact h r hr
    · exact absurd rfl hne

theorem within_distrust (P : Nat → Prop) (s : Store) (keys : List (Nat × Nat)) (h : ∀ r ∈ keys, P r.1) :
    Within P s (s.distrust own keys) := by
  intro o k hne
  by_cases hm : (o, k) ∈ keys
  · exact h _ hm
  · exact absurd (level_distrust_not_mem _ _ _ _ hm) hne

/-! ### the cascade -/

theorem authF_nil (n : Nat) (s : Store) : authF n own s [] = (s, []) := by
  cases n <;> simp [authF]

theorem authF_succ (n : Nat) (s : Store) (keys : List (Nat × Nat)) (h : keys ≠ []) :
    authF (n + 1) own s keys =
      ((authF n own ((s.beginAuth keys).takeFired ((s.beginAuth keys).fetchQ own keys))
          (targets ((s.beginAuth keys).fetchQ own keys) true)).1.distrust own
          (targets ((s.beginAuth keys).fetchQ own keys) false),
       s.beginAuthEvs keys ++ ((s.beginAuth keys).fetchQ own keys).map .fired ++
         (authF n own ((s.beginAuth keys).takeFired ((s.beginAuth keys).fetchQ own keys))
          (targets ((s.beginAuth keys).fetchQ own keys) true)).2 ++
         (authF n own ((s.beginAuth keys).takeFired ((s.beginAuth keys).fetchQ own keys))
          (targets ((s.beginAuth keys).fetchQ own keys) true)).1.distrustEvs
            (targets ((s.beginAuth keys).fetchQ own keys) false)) := by
  simp [authF, h]

@[simp] theorem fetch_beginAuth (s : Store) (keys : List (Nat × Nat)) (ids : List Nat) :
    (s.beginAuth keys).fetch ids = s.fetch ids := by
  simp [Store.fetch]

@[simp] theorem fetchQ_beginAuth (s : Store) (keys K : List (Nat × Nat)) :
    (s.beginAuth keys).fetchQ own K = s.fetchQ own K := by
  simp [Store.fetchQ]

/-- what `makePostponedTrustDecisions` applies: held under one of the sender key ids just authenticated AND
in the scope of the accounts they were authenticated for (own account: everything; else: that account's keys) -/
theorem mem_fetchQ (s : Store) (keys : List (Nat × Nat)) (e : Entry) :
    e ∈ s.fetchQ own keys ↔ e ∈ s.postponed ∧ e.sender ∈ keys.map (·.2) ∧
      (own ∈ keys.map (·.1) ∨ e.owner ∈ keys.map (·.1)) := by
  simp only [Store.fetchQ, List.mem_filter, mem_fetch, Bool.or_eq_true, decide_eq_true_eq, and_assoc]

theorem authF_policy (n : Nat) (s : Store) (keys : List (Nat × Nat)) : (authF n own s keys).1.policy = s.policy := by
  induction n generalizing s keys with
  | zero => simp only [authF]; split <;> rfl
  | succ n ih =>
    by_cases h : keys = []
    · simp [h, authF_nil]
    · rw [authF_succ _ _ _ h]; simp [ih]

theorem authF_postponed_subset (n : Nat) (s : Store) (keys : List (Nat × Nat)) (e : Entry)
    (h : e ∈ (authF n own s keys).1.postponed) : e ∈ s.postponed := by
  induction n generalizing s keys with
  | zero => simp only [authF] at h; split at h <;> exact h
  | succ n ih =>
    by_cases hk : keys = []
    · simpa [hk, authF_nil] using h
    · rw [authF_succ _ _ _ hk] at h
      have h1 := distrust_postponed_subset _ _ _ h
      have h2 := ih _ _ h1
      have h3 := takeFired_postponed_subset _ _ _ h2
      simpa using h3

/-- Frame lemma for the whole cascade.  `P` = owners whose keys may move; if `P` holds of the own account it
must hold of everybody (an own key may decide about all accounts).  If the requested keys have fine owners,
only fine owners move: a fired entry names an owner for whom a key is being authenticated in that round, unless
an own key is. -/
theorem authF_within (P : Nat → Prop) (hown : P own → ∀ o, P o) (n : Nat) (s : Store) (keys : List (Nat × Nat))
    (h1 : ∀ r ∈ keys, P r.1) :
    Within P s (authF n own s keys).1 := by
  induction n generalizing s keys with
  | zero => simp only [authF]; split <;> exact Within.refl _ _
  | succ n ih =>
    by_cases hk : keys = []
    · simp only [hk, authF_nil]; exact Within.refl _ _
    · rw [authF_succ _ _ _ hk]
      simp only [fetchQ_beginAuth]
      have hf : ∀ e ∈ s.fetchQ own keys, P e.owner := by
        intro e he
        obtain ⟨_, _, hq⟩ := (mem_fetchQ _ _ _).mp he
        rcases hq with hq | hq
        · obtain ⟨r, hr, hro⟩ := List.mem_map.mp hq
          exact hown (by rw [← hro]; exact h1 r hr) _
        · obtain ⟨r, hr, hro⟩ := List.mem_map.mp hq
          rw [← hro]; exact h1 r hr
      have ht : ∀ v, ∀ r ∈ targets (s.fetchQ own keys) v, P r.1 := by
        intro v r hr
        obtain ⟨e, he, _, her⟩ := (mem_targets _ _ _).mp hr
        rw [← her]; exact hf e he
      have w1 : Within P s (s.beginAuth keys) := within_beginAuth P s keys h1
      have w2 : Within P (s.beginAuth keys) ((s.beginAuth keys).takeFired (s.fetchQ own keys)) :=
        Within.of_eq fun _ _ => rfl
      have w3 := ih ((s.beginAuth keys).takeFired (s.fetchQ own keys)) (targets (s.fetchQ own keys) true) (ht true)
      have w4 := within_distrust (own := own) P
        (authF n own ((s.beginAuth keys).takeFired (s.fetchQ own keys)) (targets (s.fetchQ own keys) true)).1
        (targets (s.fetchQ own keys) false) (ht false)
      exact (w1.trans w2).trans (w3.trans w4)

/-! ### termination: the fuel `postponed.length + 1` never runs out -/

theorem takeFired_length_lt (s : Store) (f : List Entry) (hf : ∀ e ∈ f, e ∈ s.postponed) (hne : f ≠ []) :
    (s.takeFired f).postponed.length < s.postponed.length := by
  obtain ⟨e, he⟩ := List.exists_mem_of_ne_nil f hne
  have h1 := takeFired_removes s f e he
  simp only [Store.takeFired, Store.removeDecided] at h1 ⊢
  apply List.length_filter_lt_length_iff_exists.mpr
  refine ⟨e, hf e he, ?_⟩
  intro hp
  exact h1 (List.mem_filter.mpr ⟨hf e he, hp⟩)

theorem targets_ne_nil_imp (f : List Entry) (v : Bool) (h : targets f v ≠ []) : f ≠ [] := by
  intro e; simp [e, targets] at h

/-- the state handed to the nested round is strictly smaller whenever the nested round does anything -/
theorem round_decreases (s : Store) (keys : List (Nat × Nat))
    (h : targets (s.fetchQ own keys) true ≠ []) :
    ((s.beginAuth keys).takeFired (s.fetchQ own keys)).postponed.length < s.postponed.length := by
  have := takeFired_length_lt (s.beginAuth keys) (s.fetchQ own keys)
    (by intro e he; simpa using ((mem_fetchQ _ _ _).mp he).1) (targets_ne_nil_imp _ _ h)
  simpa using this

/-- **Termination.** Any two amounts of fuel above `postponed.length` give the same result. -/
theorem authF_fuel_irrelevant (n m : Nat) (s : Store) (keys : List (Nat × Nat))
    (hn : s.postponed.length < n) (hm : s.postponed.length < m) : authF n own s keys = authF m own s keys := by
  induction n generalizing m s keys with
  | zero => omega
  | succ n ih =>
    cases m with
    | zero => omega
    | succ m =>
      by_cases hk : keys = []
      · simp [hk, authF_nil]
      · rw [authF_succ _ _ _ hk, authF_succ _ _ _ hk]
        simp only [fetchQ_beginAuth]
        by_cases ha : targets (s.fetchQ own keys) true = []
        · simp [ha, authF_nil]
        · have hd := round_decreases s keys ha
          rw [ih m _ _ (by omega) (by omega)]

/-! ### what a cascade does, event by event -/

/-- authenticated or manually distrusted: the two levels ATM decisions produce -/
def AM (l : Level) : Prop := l = .authenticated ∨ l = .manDistrusted

/-- per key: unchanged, or decided, or (TOAKAFA) automatically trusted → automatically distrusted -/
def Moves (s s' : Store) : Prop :=
  ∀ o k, s'.level o k = s.level o k ∨ AM (s'.level o k) ∨
    (s'.level o k = .autoDistrusted ∧ s.level o k = .autoTrusted ∧ s.policy = .toakafa)

theorem Moves.refl (s : Store) : Moves s s := fun _ _ => Or.inl rfl

theorem Moves.of_eq {s s' : Store} (h : ∀ o k, s'.level o k = s.level o k) : Moves s s' := fun o k => Or.inl (h o k)

theorem Moves.trans {s s' s'' : Store} (h1 : Moves s s') (h2 : Moves s' s'') (hp : s'.policy = s.policy) :
    Moves s s'' := by
  intro o k
  rcases h2 o k with h | h | ⟨ha, hb, hc⟩
  · rw [h]; exact h1 o k
  · exact Or.inr (Or.inl h)
  · rcases h1 o k with g | g | ⟨ga, _, _⟩
    · exact Or.inr (Or.inr ⟨ha, by rw [← g]; exact hb, by rw [← hp]; exact hc⟩)
    · rcases g with g | g <;> rw [g] at hb <;> cases hb
    · rw [ga] at hb; cases hb

theorem Moves.am {s s' : Store} (h : Moves s s') {o k : Nat} (ha : AM (s.level o k)) : AM (s'.level o k) := by
  rcases h o k with g | g | ⟨_, gb, _⟩
  · rw [g]; exact ha
  · exact g
  · rcases ha with ha | ha <;> rw [ha] at gb <;> cases gb

theorem Moves.notAuto {s s' : Store} (h : Moves s s') {o k : Nat} (ha : s.level o k ≠ .autoTrusted) :
    s'.level o k ≠ .autoTrusted := by
  rcases h o k with g | g | ⟨ga, _, _⟩
  · rw [g]; exact ha
  · rcases g with g | g <;> rw [g] <;> simp
  · rw [ga]; simp

theorem moves_beginAuth (s : Store) (keys : List (Nat × Nat)) : Moves s (s.beginAuth keys) := by
  intro o k
  by_cases hm : (o, k) ∈ keys
  · exact Or.inr (Or.inl (Or.inl (level_beginAuth_mem _ _ _ _ hm)))
  · rw [level_beginAuth_not_mem _ _ _ _ hm]
    split
    · rename_i hc; exact Or.inr (Or.inr ⟨rfl, hc.2.2, hc.1⟩)
    · exact Or.inl rfl

theorem moves_distrust (s : Store) (keys : List (Nat × Nat)) : Moves s (s.distrust own keys) := by
  intro o k
  by_cases hm : (o, k) ∈ keys
  · exact Or.inr (Or.inl (Or.inr (level_distrust_mem _ _ _ _ hm)))
  · exact Or.inl (level_distrust_not_mem _ _ _ _ hm)

theorem distrust_keeps_manDistrusted (s : Store) (keys : List (Nat × Nat)) (o k : Nat)
    (h : s.level o k = .manDistrusted) : (s.distrust own keys).level o k = .manDistrusted := by
  by_cases hm : (o, k) ∈ keys
  · exact level_distrust_mem _ _ _ _ hm
  · rw [level_distrust_not_mem _ _ _ _ hm]; exact h

/-! membership of the ghost events in the pieces of an event list -/

theorem fired_mem_beginAuthEvs (s : Store) (keys : List (Nat × Nat)) (e : Entry) :
    Ev.fired e ∉ s.beginAuthEvs keys := by
  simp only [Store.beginAuthEvs]; split <;> simp
theorem dis_mem_beginAuthEvs (s : Store) (keys : List (Nat × Nat)) (K : List (Nat × Nat)) :
    Ev.dis K ∉ s.beginAuthEvs keys := by
  simp only [Store.beginAuthEvs]; split <;> simp
theorem exh_mem_beginAuthEvs (s : Store) (keys : List (Nat × Nat)) :
    Ev.fuelExhausted ∉ s.beginAuthEvs keys := by
  simp only [Store.beginAuthEvs]; split <;> simp
theorem auth_mem_beginAuthEvs (s : Store) (keys : List (Nat × Nat)) (K : List (Nat × Nat)) :
    Ev.auth K ∈ s.beginAuthEvs keys ↔ K = keys := by
  simp only [Store.beginAuthEvs]; split <;> simp

theorem fired_mem_map (f : List Entry) (e : Entry) : Ev.fired e ∈ f.map Ev.fired ↔ e ∈ f := by
  simp [List.mem_map]
theorem auth_mem_map (f : List Entry) (K : List (Nat × Nat)) : Ev.auth K ∉ f.map Ev.fired := by
  simp [List.mem_map]
theorem dis_mem_map (f : List Entry) (K : List (Nat × Nat)) : Ev.dis K ∉ f.map Ev.fired := by
  simp [List.mem_map]
theorem exh_mem_map (f : List Entry) : Ev.fuelExhausted ∉ f.map Ev.fired := by
  simp [List.mem_map]

theorem fired_mem_distrustEvs (s : Store) (D : List (Nat × Nat)) (e : Entry) : Ev.fired e ∉ s.distrustEvs D := by
  simp only [Store.distrustEvs]; split <;> simp
theorem auth_mem_distrustEvs (s : Store) (D : List (Nat × Nat)) (K : List (Nat × Nat)) : Ev.auth K ∉ s.distrustEvs D := by
  simp only [Store.distrustEvs]; split <;> simp
theorem exh_mem_distrustEvs (s : Store) (D : List (Nat × Nat)) : Ev.fuelExhausted ∉ s.distrustEvs D := by
  simp only [Store.distrustEvs]; split <;> simp
theorem dis_mem_distrustEvs (s : Store) (D : List (Nat × Nat)) (K : List (Nat × Nat)) :
    Ev.dis K ∈ s.distrustEvs D ↔ D ≠ [] ∧ K = D := by
  simp only [Store.distrustEvs]; split <;> simp_all

/-- `e` is superseded in `evs`: another fired entry carries the same verdict for the same key id -/
def Superseded (evs : List Ev) (e : Entry) : Prop :=
  ∃ e', Ev.fired e' ∈ evs ∧ e' ≠ e ∧ e'.key = e.key ∧ e'.trust = e.trust

/-- Everything we know about a run of the decision machinery from `s` to `s'` emitting `evs`;
`pend` = distrust decisions of fired entries that the caller still has to carry out. -/
structure Good (own : Nat) (s s' : Store) (evs : List Ev) (pend : List (Nat × Nat)) : Prop where
  policy : s'.policy = s.policy
  sub : ∀ e ∈ s'.postponed, e ∈ s.postponed
  moves : Moves s s'
  fired : ∀ e, Ev.fired e ∈ evs →
    e ∈ s.postponed ∧ e ∉ s'.postponed ∧
    (∃ K, Ev.auth K ∈ evs ∧ e.sender ∈ K.map (·.2) ∧ InScopeOf own K e) ∧
    (e.trust = false → s'.level e.owner e.key = .manDistrusted ∨ (e.owner, e.key) ∈ pend) ∧
    (e.trust = true → AM (s'.level e.owner e.key))
  auth : ∀ K, Ev.auth K ∈ evs →
    (∀ e ∈ s'.postponed, e.sender ∈ K.map (·.2) → ¬ InScopeOf own K e) ∧ (∀ r ∈ K, AM (s'.level r.1 r.2)) ∧
    (s.policy = .toakafa → ∀ r ∈ K, ∀ k', s'.level r.1 k' ≠ .autoTrusted) ∧
    (∀ e ∈ s.postponed, e.sender ∈ K.map (·.2) → InScopeOf own K e → Ev.fired e ∈ evs ∨ Superseded evs e)
  dis : ∀ K, Ev.dis K ∈ evs →
    (∀ e ∈ s'.postponed, e.sender ∈ K.map (·.2) → ¬ InScopeOf own K e) ∧ ∀ r ∈ K, s'.level r.1 r.2 = .manDistrusted
  removed : ∀ e ∈ s.postponed, e ∉ s'.postponed →
    Ev.fired e ∈ evs ∨ Superseded evs e ∨ ∃ K, Ev.dis K ∈ evs ∧ e.sender ∈ K.map (·.2) ∧ InScopeOf own K e
  noExhaust : Ev.fuelExhausted ∉ evs

theorem Good.nil (s : Store) : Good own s s [] [] where
  policy := rfl
  sub := fun _ h => h
  moves := Moves.refl s
  fired := by simp
  auth := by simp
  dis := by simp
  removed := fun e h h2 => absurd h h2
  noExhaust := by simp

theorem Superseded.mono {evs evs' : List Ev} {e : Entry} (h : Superseded evs e) (hs : ∀ x ∈ evs, x ∈ evs') :
    Superseded evs' e := by
  obtain ⟨e', h1, h2⟩ := h; exact ⟨e', hs _ h1, h2⟩

/-- the caller carries out the pending distrust decisions (`QXmppAtmManager::distrust`) -/
theorem Good.distrust {s s' : Store} {evs : List Ev} {pend : List (Nat × Nat)} (g : Good own s s' evs pend)
    (D : List (Nat × Nat)) (hD : ∀ r ∈ pend, r ∈ D) :
    Good own s (s'.distrust own D) (evs ++ s'.distrustEvs D) [] where
  policy := by rw [distrust_policy]; exact g.policy
  sub := fun e h => g.sub e (distrust_postponed_subset _ _ _ h)
  moves := g.moves.trans (moves_distrust _ _) g.policy
  fired := by
    intro e he
    have he' : Ev.fired e ∈ evs := by
      rcases List.mem_append.mp he with h | h
      · exact h
      · exact absurd h (fired_mem_distrustEvs _ _ _)
    obtain ⟨a, b, ⟨K, hK, hs⟩, d, f⟩ := g.fired e he'
    refine ⟨a, fun h => b (distrust_postponed_subset _ _ _ h), ⟨K, List.mem_append.mpr (Or.inl hK), hs⟩, ?_, ?_⟩
    · intro ht
      rcases d ht with h | h
      · exact Or.inl (distrust_keeps_manDistrusted _ _ _ _ h)
      · exact Or.inl (level_distrust_mem _ _ _ _ (hD _ h))
    · intro ht; exact (moves_distrust _ _).am (f ht)
  auth := by
    intro K hK
    have hK' : Ev.auth K ∈ evs := by
      rcases List.mem_append.mp hK with h | h
      · exact h
      · exact absurd h (auth_mem_distrustEvs _ _ _)
    obtain ⟨a, b, c, d⟩ := g.auth K hK'
    refine ⟨fun e h => a e (distrust_postponed_subset _ _ _ h), fun r hr => (moves_distrust _ _).am (b r hr),
      fun hp r hr k' => (moves_distrust _ _).notAuto (c hp r hr k'), ?_⟩
    intro e he hs hq
    rcases d e he hs hq with h | h
    · exact Or.inl (List.mem_append.mpr (Or.inl h))
    · exact Or.inr (h.mono fun x hx => List.mem_append.mpr (Or.inl hx))
  dis := by
    intro K hK
    rcases List.mem_append.mp hK with h | h
    · obtain ⟨a, b⟩ := g.dis K h
      exact ⟨fun e he => a e (distrust_postponed_subset _ _ _ he),
        fun r hr => distrust_keeps_manDistrusted _ _ _ _ (b r hr)⟩
    · obtain ⟨hne, rfl⟩ := (dis_mem_distrustEvs _ _ _).mp h
      refine ⟨?_, fun r hr => level_distrust_mem _ _ _ _ hr⟩
      intro e he hs hq
      exact ((mem_distrust_postponed _ _ _).mp he).2 ⟨hs, hq⟩
  removed := by
    intro e he hne
    by_cases h1 : e ∈ s'.postponed
    · have hDne : D ≠ [] := by
        intro hD0; rw [hD0] at hne; simp at hne; exact hne h1
      have hx : e.sender ∈ D.map (·.2) ∧ InScopeOf own D e := by
        by_cases hx : e.sender ∈ D.map (·.2) ∧ InScopeOf own D e
        · exact hx
        · exact absurd ((mem_distrust_postponed _ _ _).mpr ⟨h1, hx⟩) hne
      exact Or.inr (Or.inr ⟨D, List.mem_append.mpr (Or.inr ((dis_mem_distrustEvs _ _ _).mpr ⟨hDne, rfl⟩)), hx.1, hx.2⟩)
    · rcases g.removed e he h1 with h | h | ⟨K, hK, hs⟩
      · exact Or.inl (List.mem_append.mpr (Or.inl h))
      · exact Or.inr (Or.inl (h.mono fun x hx => List.mem_append.mpr (Or.inl hx)))
      · exact Or.inr (Or.inr ⟨K, List.mem_append.mpr (Or.inl hK), hs⟩)
  noExhaust := by
    intro h
    rcases List.mem_append.mp h with h | h
    · exact g.noExhaust h
    · exact exh_mem_distrustEvs _ _ h

theorem mem_append3 {α : Type} (x : α) (a b c : List α) : x ∈ a ++ b ++ c ↔ x ∈ a ∨ x ∈ b ∨ x ∈ c := by
  simp [List.mem_append]

/-- one round of `authenticate` in front of a run that starts from the state after the fetch -/
theorem Good.round (s : Store) (keys : List (Nat × Nat)) {s' : Store} {evs : List Ev}
    (g : Good own ((s.beginAuth keys).takeFired (s.fetchQ own keys)) s' evs [])
    (hA : targets (s.fetchQ own keys) true ≠ [] →
      Ev.auth (targets (s.fetchQ own keys) true) ∈ evs) :
    Good own s s' (s.beginAuthEvs keys ++ (s.fetchQ own keys).map Ev.fired ++ evs)
      (targets (s.fetchQ own keys) false) := by
  have hsub4 : ∀ e ∈ ((s.beginAuth keys).takeFired (s.fetchQ own keys)).postponed, e ∈ s.postponed := by
    intro e he; simpa using takeFired_postponed_subset _ _ _ he
  have hpol4 : ((s.beginAuth keys).takeFired (s.fetchQ own keys)).policy = s.policy := by simp
  have hmoves4 : Moves s ((s.beginAuth keys).takeFired (s.fetchQ own keys)) :=
    (moves_beginAuth s keys).trans (Moves.of_eq fun _ _ => rfl) (by simp)
  have hsup : ∀ e ∈ s.postponed, e ∉ ((s.beginAuth keys).takeFired (s.fetchQ own keys)).postponed →
      Ev.fired e ∈ (s.beginAuthEvs keys ++ (s.fetchQ own keys).map Ev.fired ++ evs) ∨
      Superseded (s.beginAuthEvs keys ++ (s.fetchQ own keys).map Ev.fired ++ evs) e := by
    intro e he hne
    obtain ⟨e', he', hk⟩ := takeFired_removed_only (s.beginAuth keys) _ e (by simpa using he) hne
    have hm : Ev.fired e' ∈ (s.beginAuthEvs keys ++ (s.fetchQ own keys).map Ev.fired ++ evs) :=
      (mem_append3 _ _ _ _).mpr (Or.inr (Or.inl ((fired_mem_map _ _).mpr he')))
    by_cases hee : e' = e
    · subst hee; exact Or.inl hm
    · exact Or.inr ⟨e', hm, hee, hk⟩
  refine ⟨g.policy.trans hpol4, fun e he => hsub4 e (g.sub e he), hmoves4.trans g.moves hpol4, ?_, ?_, ?_, ?_, ?_⟩
  · -- fired
    intro e he
    rcases (mem_append3 _ _ _ _).mp he with h | h | h
    · exact absurd h (fired_mem_beginAuthEvs _ _ _)
    · have hef := (fired_mem_map _ _).mp h
      obtain ⟨hep, hes, heq⟩ := (mem_fetchQ _ _ _).mp hef
      refine ⟨hep, fun hc => takeFired_removes (s.beginAuth keys) _ e hef (g.sub e hc),
        ⟨keys, (mem_append3 _ _ _ _).mpr (Or.inl ((auth_mem_beginAuthEvs _ _ _).mpr rfl)), hes, heq⟩, ?_, ?_⟩
      · intro ht; exact Or.inr ((mem_targets _ _ _).mpr ⟨e, hef, ht, rfl⟩)
      · intro ht
        have hr : (e.owner, e.key) ∈ targets (s.fetchQ own keys) true :=
          (mem_targets _ _ _).mpr ⟨e, hef, ht, rfl⟩
        have hne : targets (s.fetchQ own keys) true ≠ [] := by intro h0; rw [h0] at hr; simp at hr
        exact (g.auth _ (hA hne)).2.1 _ hr
    · obtain ⟨a, b, ⟨K, hK, hs⟩, d, f⟩ := g.fired e h
      refine ⟨hsub4 e a, b, ⟨K, (mem_append3 _ _ _ _).mpr (Or.inr (Or.inr hK)), hs⟩, ?_, f⟩
      intro ht
      rcases d ht with h | h
      · exact Or.inl h
      · simp at h
  · -- auth
    intro K hK
    rcases (mem_append3 _ _ _ _).mp hK with h | h | h
    · have hKk := (auth_mem_beginAuthEvs _ _ _).mp h
      subst hKk
      refine ⟨?_, ?_, ?_, ?_⟩
      · intro e he hs hq
        have h4 := g.sub e he
        have hf : e ∈ s.fetchQ own K := (mem_fetchQ _ _ _).mpr ⟨hsub4 e h4, hs, hq⟩
        exact takeFired_removes (s.beginAuth K) _ e hf h4
      · intro r hr
        apply g.moves.am
        have : (r.1, r.2) ∈ K := hr
        rw [level_takeFired, level_beginAuth_mem _ _ _ _ this]; exact Or.inl rfl
      · intro hp r hr k'
        apply g.moves.notAuto
        rw [level_takeFired]
        by_cases hm : (r.1, k') ∈ K
        · rw [level_beginAuth_mem _ _ _ _ hm]; simp
        · rw [level_beginAuth_not_mem _ _ _ _ hm]
          split
          · simp
          · rename_i hc
            intro hl
            exact hc ⟨hp, List.mem_map.mpr ⟨r, hr, rfl⟩, hl⟩
      · intro e he hs hq
        exact Or.inl ((mem_append3 _ _ _ _).mpr (Or.inr (Or.inl
          ((fired_mem_map _ _).mpr ((mem_fetchQ _ _ _).mpr ⟨he, hs, hq⟩)))))
    · exact absurd h (auth_mem_map _ _)
    · obtain ⟨a, b, c, d⟩ := g.auth K h
      refine ⟨a, b, fun hp => c (by rw [hpol4]; exact hp), ?_⟩
      intro e he hs hq
      by_cases h4 : e ∈ ((s.beginAuth keys).takeFired (s.fetchQ own keys)).postponed
      · rcases d e h4 hs hq with x | x
        · exact Or.inl ((mem_append3 _ _ _ _).mpr (Or.inr (Or.inr x)))
        · exact Or.inr (x.mono fun y hy => (mem_append3 _ _ _ _).mpr (Or.inr (Or.inr hy)))
      · exact hsup e he h4
  · -- dis
    intro K hK
    rcases (mem_append3 _ _ _ _).mp hK with h | h | h
    · exact absurd h (dis_mem_beginAuthEvs _ _ _)
    · exact absurd h (dis_mem_map _ _)
    · exact g.dis K h
  · -- removed
    intro e he hne
    by_cases h4 : e ∈ ((s.beginAuth keys).takeFired (s.fetchQ own keys)).postponed
    · rcases g.removed e h4 hne with x | x | ⟨K, hK, hs⟩
      · exact Or.inl ((mem_append3 _ _ _ _).mpr (Or.inr (Or.inr x)))
      · exact Or.inr (Or.inl (x.mono fun y hy => (mem_append3 _ _ _ _).mpr (Or.inr (Or.inr hy))))
      · exact Or.inr (Or.inr ⟨K, (mem_append3 _ _ _ _).mpr (Or.inr (Or.inr hK)), hs⟩)
    · rcases hsup e he h4 with x | x
      · exact Or.inl x
      · exact Or.inr (Or.inl x)
  · -- noExhaust
    intro h
    rcases (mem_append3 _ _ _ _).mp h with h | h | h
    · exact exh_mem_beginAuthEvs _ _ h
    · exact exh_mem_map _ h
    · exact g.noExhaust h

theorem authF_auth_head (n : Nat) (s : Store) (keys : List (Nat × Nat)) (hk : keys ≠ []) :
    Ev.auth keys ∈ (authF (n + 1) own s keys).2 := by
  rw [authF_succ _ _ _ hk]
  simp only [List.append_assoc, List.mem_append]
  exact Or.inl ((auth_mem_beginAuthEvs _ _ _).mpr rfl)

/-- **The cascade, with enough fuel, is `Good`.** -/
theorem authF_good (n : Nat) (s : Store) (keys : List (Nat × Nat)) (hn : s.postponed.length < n) :
    Good own s (authF n own s keys).1 (authF n own s keys).2 [] := by
  induction n generalizing s keys with
  | zero => omega
  | succ n ih =>
    by_cases hk : keys = []
    · simp only [hk, authF_nil]; exact Good.nil s
    · rw [authF_succ _ _ _ hk]
      simp only [fetchQ_beginAuth]
      by_cases ha : targets (s.fetchQ own keys) true = []
      · simp only [ha, authF_nil, List.append_nil]
        have g0 := Good.round s keys (Good.nil _) (fun h => absurd ha h)
        have g1 := g0.distrust (targets (s.fetchQ own keys) false) (fun _ h => h)
        simpa using g1
      · have hd := round_decreases s keys ha
        have gi := ih ((s.beginAuth keys).takeFired (s.fetchQ own keys))
          (targets (s.fetchQ own keys) true) (by omega)
        have hhead : Ev.auth (targets (s.fetchQ own keys) true) ∈
            (authF n own ((s.beginAuth keys).takeFired (s.fetchQ own keys))
              (targets (s.fetchQ own keys) true)).2 := by
          cases n with
          | zero => omega
          | succ m => exact authF_auth_head m _ _ ha
        have g0 := Good.round s keys gi (fun _ => hhead)
        exact g0.distrust (targets (s.fetchQ own keys) false) (fun _ h => h)

theorem authenticate_good (s : Store) (keys : List (Nat × Nat)) :
    Good own s (s.authenticate own keys).1 (s.authenticate own keys).2 [] :=
  authF_good _ s keys (Nat.lt_succ_self _)

theorem makeTrustDecisions_good (s : Store) (a d : List (Nat × Nat)) :
    Good own s (s.makeTrustDecisions own a d).1 (s.makeTrustDecisions own a d).2 [] := by
  simp only [Store.makeTrustDecisions]
  exact (authenticate_good s a).distrust d (by simp)

/-! ### holding back -/

theorem mem_addOne_self (p : List Entry) (e : Entry) : e ∈ addOne p e := by
  induction p with
  | nil => simp [addOne]
  | cons x rest ih =>
    simp only [addOne]
    split
    · rename_i h
      have : ({ x with trust := e.trust } : Entry) = e := by
        cases x; cases e; simp_all
      rw [this]; exact List.mem_cons_self
    · exact List.mem_cons_of_mem _ ih

theorem mem_addOne (p : List Entry) (e x : Entry) (h : x ∈ addOne p e) : x = e ∨ x ∈ p := by
  induction p with
  | nil => simp [addOne] at h; exact Or.inl h
  | cons y rest ih =>
    simp only [addOne] at h
    split at h
    · rename_i hc
      rcases List.mem_cons.mp h with h | h
      · left; rw [h]; cases y; cases e; simp_all
      · exact Or.inr (List.mem_cons_of_mem _ h)
    · rcases List.mem_cons.mp h with h | h
      · exact Or.inr (h ▸ List.mem_cons_self)
      · rcases ih h with h | h
        · exact Or.inl h
        · exact Or.inr (List.mem_cons_of_mem _ h)

/-- an old entry survives unless the new one has the same (sender key, owner, key) -/
theorem mem_addOne_of_mem (p : List Entry) (e x : Entry) (h : x ∈ p) :
    x ∈ addOne p e ∨ (x.key = e.key ∧ x.owner = e.owner ∧ x.sender = e.sender) := by
  induction p with
  | nil => simp at h
  | cons y rest ih =>
    simp only [addOne]
    split
    · rename_i hc
      rcases List.mem_cons.mp h with h | h
      · right; rw [h]; exact hc
      · exact Or.inl (List.mem_cons_of_mem _ h)
    · rcases List.mem_cons.mp h with h | h
      · exact Or.inl (h ▸ List.mem_cons_self)
      · rcases ih h with h | h
        · exact Or.inl (List.mem_cons_of_mem _ h)
        · exact Or.inr h

theorem mem_foldl_addOne (es : List Entry) (p : List Entry) (x : Entry) (h : x ∈ es.foldl addOne p) :
    x ∈ es ∨ x ∈ p := by
  induction es generalizing p with
  | nil => exact Or.inr h
  | cons e rest ih =>
    rcases ih _ h with h | h
    · exact Or.inl (List.mem_cons_of_mem _ h)
    · rcases mem_addOne _ _ _ h with h | h
      · exact Or.inl (h ▸ List.mem_cons_self)
      · exact Or.inr h

/-- whatever is in the list keeps a slot (the verdict may be overwritten by later additions) -/
theorem foldl_addOne_keeps (es : List Entry) (p : List Entry) (x : Entry) (h : x ∈ p) :
    ∃ t, (⟨x.sender, x.owner, x.key, t⟩ : Entry) ∈ es.foldl addOne p := by
  induction es generalizing p x with
  | nil => exact ⟨x.trust, h⟩
  | cons e rest ih =>
    simp only [List.foldl_cons]
    rcases mem_addOne_of_mem p e x h with h1 | ⟨hk, ho, hs⟩
    · exact ih _ _ h1
    · have := ih (addOne p e) e (mem_addOne_self p e)
      rw [← hk, ← ho, ← hs] at this; exact this

theorem foldl_addOne_holds (es : List Entry) (p : List Entry) (x : Entry) (h : x ∈ es) :
    ∃ t, (⟨x.sender, x.owner, x.key, t⟩ : Entry) ∈ es.foldl addOne p := by
  induction es generalizing p with
  | nil => simp at h
  | cons e rest ih =>
    simp only [List.foldl_cons]
    rcases List.mem_cons.mp h with h | h
    · subst h; exact foldl_addOne_keeps rest _ x (mem_addOne_self p x)
    · exact ih _ h

/-- an old entry is still there afterwards, or a new entry with the same (sender key, owner, key) replaced it -/
theorem foldl_addOne_old (es : List Entry) (p : List Entry) (x : Entry) (h : x ∈ p) :
    x ∈ es.foldl addOne p ∨ ∃ e ∈ es, x.key = e.key ∧ x.owner = e.owner ∧ x.sender = e.sender := by
  induction es generalizing p with
  | nil => exact Or.inl h
  | cons e rest ih =>
    simp only [List.foldl_cons]
    rcases mem_addOne_of_mem p e x h with h1 | h1
    · rcases ih _ h1 with h2 | ⟨e', he', h2⟩
      · exact Or.inl h2
      · exact Or.inr ⟨e', List.mem_cons_of_mem _ he', h2⟩
    · exact Or.inr ⟨e, List.mem_cons_self, h1⟩

theorem mem_inScope (c : Cfg) (m : Msg) (ko : KeyOwner) :
    ko ∈ inScope c m ↔ ko ∈ m.owners ∧ (m.fromAcc = c.own ∨ m.fromAcc = ko.jid) := by
  simp [inScope, qualified, List.mem_filter]

theorem mem_namedTrusted (kos : List KeyOwner) (r : Nat × Nat) :
    r ∈ namedTrusted kos ↔ ∃ ko ∈ kos, ∃ k ∈ ko.trusted, (ko.jid, k) = r := by
  simp [namedTrusted, List.mem_flatMap, List.mem_map]

theorem mem_namedDistrusted (kos : List KeyOwner) (r : Nat × Nat) :
    r ∈ namedDistrusted kos ↔ ∃ ko ∈ kos, ∃ k ∈ ko.distrusted, (ko.jid, k) = r := by
  simp [namedDistrusted, List.mem_flatMap, List.mem_map]

theorem mem_holdEntries (sk : Nat) (kos : List KeyOwner) (x : Entry) :
    x ∈ holdEntries sk kos ↔
      ∃ ko ∈ kos, (∃ k ∈ ko.trusted, (⟨sk, ko.jid, k, true⟩ : Entry) = x) ∨
                  (∃ k ∈ ko.distrusted, (⟨sk, ko.jid, k, false⟩ : Entry) = x) := by
  simp [holdEntries, List.mem_flatMap, List.mem_map]

/-! ### one received message -/

theorem handleMessage_not_processed (c : Cfg) (s : Store) (m : Msg) (h : processed c m = false) :
    s.handleMessage c m = (s, []) := by
  simp [Store.handleMessage, h]

theorem handleMessage_unauth (c : Cfg) (s : Store) (m : Msg) (hp : processed c m = true)
    (h : s.level m.fromAcc m.senderKey ≠ .authenticated) :
    s.handleMessage c m = (s.addPostponed (holdEntries m.senderKey (inScope c m)), []) := by
  simp [Store.handleMessage, hp, h]

theorem handleMessage_auth (c : Cfg) (s : Store) (m : Msg) (hp : processed c m = true)
    (h : s.level m.fromAcc m.senderKey = .authenticated) :
    s.handleMessage c m =
      s.makeTrustDecisions c.own (namedTrusted (inScope c m)) (namedDistrusted (inScope c m)) := by
  simp [Store.handleMessage, hp, h]

/-- levels move only when the message is processed and its sender key is authenticated -/
theorem handleMessage_level_change (c : Cfg) (s : Store) (m : Msg) (o k : Nat)
    (h : (s.handleMessage c m).1.level o k ≠ s.level o k) :
    processed c m = true ∧ s.level m.fromAcc m.senderKey = .authenticated := by
  cases hp : processed c m
  · rw [handleMessage_not_processed _ _ _ hp] at h; exact absurd rfl h
  · by_cases ha : s.level m.fromAcc m.senderKey = .authenticated
    · exact ⟨rfl, ha⟩
    · rw [handleMessage_unauth _ _ _ hp ha] at h; exact absurd rfl h

/-- frame for the decisions of one authorised message, parametrised like `authF_within` -/
theorem makeTrustDecisions_within (P : Nat → Prop) (hown : P own → ∀ o, P o) (s : Store) (a d : List (Nat × Nat))
    (ha : ∀ r ∈ a, P r.1) (hd : ∀ r ∈ d, P r.1) :
    Within P s (s.makeTrustDecisions own a d).1 := by
  simp only [Store.makeTrustDecisions, Store.authenticate]
  exact (authF_within P hown _ s a ha).trans (within_distrust P _ d hd)

theorem manual_postponed_subset (s : Store) (o : Nat) (a d : List Nat) (e : Entry)
    (h : e ∈ (s.manual own o a d).1.postponed) : e ∈ s.postponed := by
  simp only [Store.manual] at h
  split at h
  · exact h
  · exact (makeTrustDecisions_good s _ _).sub e h

/-- **Scope, every state.**  A message moves only keys of the sender's account, unless the sender's account is
the own account — including everything that fires in cascade. -/
theorem handleMessage_scope (c : Cfg) (s : Store) (m : Msg) :
    Within (fun o => m.fromAcc = c.own ∨ o = m.fromAcc) s (s.handleMessage c m).1 := by
  cases hp : processed c m
  · rw [handleMessage_not_processed _ _ _ hp]; exact Within.refl _ _
  · by_cases ha : s.level m.fromAcc m.senderKey = .authenticated
    · rw [handleMessage_auth _ _ _ hp ha]
      have hjid : ∀ ko ∈ inScope c m, m.fromAcc = c.own ∨ ko.jid = m.fromAcc := by
        intro ko hko
        rcases ((mem_inScope _ _ _).mp hko).2 with h | h
        · exact Or.inl h
        · exact Or.inr h.symm
      apply makeTrustDecisions_within (fun o => m.fromAcc = c.own ∨ o = m.fromAcc)
      · intro h o
        rcases h with h | h
        · exact Or.inl h
        · exact Or.inl h.symm
      · intro r hr
        obtain ⟨ko, hko, k, hk, rfl⟩ := (mem_namedTrusted _ _).mp hr
        exact hjid ko hko
      · intro r hr
        obtain ⟨ko, hko, k, hk, rfl⟩ := (mem_namedDistrusted _ _).mp hr
        exact hjid ko hko
    · rw [handleMessage_unauth _ _ _ hp ha]; exact Within.of_eq fun _ _ => rfl

/-! ### whole steps -/

/-- only `trustLevelsChanged` emissions, none of the ghost events -/
def Quiet (evs : List Ev) : Prop := ∀ ev ∈ evs, ∃ ks, ev = Ev.changed ks

theorem Quiet.nil : Quiet [] := by intro ev h; simp at h

theorem manual_good (s : Store) (o : Nat) (a d : List Nat) :
    Good own s (s.manual own o a d).1 (s.manual own o a d).2 [] := by
  simp only [Store.manual]
  split
  · exact Good.nil s
  · exact makeTrustDecisions_good s _ _

/-- every step either is a run of the decision machinery (`Good`) or emits no ghost event at all -/
theorem step_good_or_quiet (c : Cfg) (s : Store) (op : Op) :
    Good c.own s (stepStore c s op).1 (stepStore c s op).2 [] ∨ Quiet (stepStore c s op).2 := by
  cases op with
  | setPolicy p => exact Or.inr Quiet.nil
  | seed o k l => right; intro ev h; simp [stepStore] at h; exact ⟨_, h⟩
  | manual o a d => exact Or.inl (manual_good s o a d)
  | message m =>
    simp only [stepStore]
    cases hp : processed c m
    · rw [handleMessage_not_processed _ _ _ hp]; exact Or.inr Quiet.nil
    · by_cases ha : s.level m.fromAcc m.senderKey = .authenticated
      · rw [handleMessage_auth _ _ _ hp ha]; exact Or.inl (makeTrustDecisions_good s _ _)
      · rw [handleMessage_unauth _ _ _ hp ha]; exact Or.inr Quiet.nil

theorem Quiet.no_fired {evs : List Ev} (h : Quiet evs) (e : Entry) : Ev.fired e ∉ evs := by
  intro hm; obtain ⟨ks, hk⟩ := h _ hm; cases hk
theorem Quiet.no_auth {evs : List Ev} (h : Quiet evs) (K : List (Nat × Nat)) : Ev.auth K ∉ evs := by
  intro hm; obtain ⟨ks, hk⟩ := h _ hm; cases hk
theorem Quiet.no_dis {evs : List Ev} (h : Quiet evs) (K : List (Nat × Nat)) : Ev.dis K ∉ evs := by
  intro hm; obtain ⟨ks, hk⟩ := h _ hm; cases hk
theorem Quiet.no_exh {evs : List Ev} (h : Quiet evs) : Ev.fuelExhausted ∉ evs := by
  intro hm; obtain ⟨ks, hk⟩ := h _ hm; cases hk

/-- the recursion equation of `authenticate` as it reads in the C++ (the nested call again gets the
fuel that belongs to *its* state) -/
theorem authenticate_unfold (s : Store) (keys : List (Nat × Nat)) (hk : keys ≠ []) :
    s.authenticate own keys =
      ((((s.beginAuth keys).takeFired (s.fetchQ own keys)).authenticate own
            (targets (s.fetchQ own keys) true)).1.distrust own (targets (s.fetchQ own keys) false),
       s.beginAuthEvs keys ++ (s.fetchQ own keys).map Ev.fired ++
       (((s.beginAuth keys).takeFired (s.fetchQ own keys)).authenticate own
            (targets (s.fetchQ own keys) true)).2 ++
       (((s.beginAuth keys).takeFired (s.fetchQ own keys)).authenticate own
            (targets (s.fetchQ own keys) true)).1.distrustEvs (targets (s.fetchQ own keys) false)) := by
  simp only [Store.authenticate]
  rw [authF_succ _ _ _ hk]
  simp only [fetchQ_beginAuth]
  by_cases ha : targets (s.fetchQ own keys) true = []
  · simp [ha, authF_nil]
  · have hd := round_decreases s keys ha
    rw [authF_fuel_irrelevant s.postponed.length
      (((s.beginAuth keys).takeFired (s.fetchQ own keys)).postponed.length + 1) _ _ hd (by omega)]

/-- the keys handed to `authenticate` directly: their held-back entries are fetched in the first round -/
theorem authenticate_fires_direct (s : Store) (keys : List (Nat × Nat)) (hk : keys ≠ []) (e : Entry)
    (he : e ∈ s.postponed) (hs : e.sender ∈ keys.map (·.2)) (hq : InScopeOf own keys e) :
    Ev.auth keys ∈ (s.authenticate own keys).2 ∧ Ev.fired e ∈ (s.authenticate own keys).2 := by
  rw [authenticate_unfold _ _ hk]
  simp only [List.append_assoc, List.mem_append]
  exact ⟨Or.inl ((auth_mem_beginAuthEvs _ _ _).mpr rfl),
    Or.inr (Or.inl ((fired_mem_map _ _).mpr ((mem_fetchQ _ _ _).mpr ⟨he, hs, hq⟩)))⟩

theorem authenticate_auth_event (s : Store) (keys : List (Nat × Nat)) (hk : keys ≠ []) :
    Ev.auth keys ∈ (s.authenticate own keys).2 := by
  rw [authenticate_unfold _ _ hk]
  simp only [List.append_assoc, List.mem_append]
  exact Or.inl ((auth_mem_beginAuthEvs _ _ _).mpr rfl)

theorem makeTrustDecisions_events (s : Store) (a d : List (Nat × Nat)) :
    (a ≠ [] → Ev.auth a ∈ (s.makeTrustDecisions own a d).2) ∧ (d ≠ [] → Ev.dis d ∈ (s.makeTrustDecisions own a d).2) := by
  simp only [Store.makeTrustDecisions, List.mem_append]
  exact ⟨fun h => Or.inl (authenticate_auth_event s a h),
    fun h => Or.inr ((dis_mem_distrustEvs _ _ _).mpr ⟨h, rfl⟩)⟩

theorem makeTrustDecisions_fires_direct (s : Store) (a d : List (Nat × Nat)) (e : Entry)
    (he : e ∈ s.postponed) (hs : e.sender ∈ a.map (·.2)) (hq : InScopeOf own a e) :
    Ev.fired e ∈ (s.makeTrustDecisions own a d).2 := by
  have hne : a ≠ [] := by intro h; simp [h] at hs
  simp only [Store.makeTrustDecisions, List.mem_append]
  exact Or.inl (authenticate_fires_direct s a hne e he hs hq).2

/-- the public manual call: a key that is not yet authenticated reaches `authenticate` -/
theorem manual_auth_event (s : Store) (o : Nat) (a d : List Nat) (k : Nat) (hk : k ∈ a)
    (hl : s.level o k ≠ .authenticated) :
    ∃ K, Ev.auth K ∈ (s.manual own o a d).2 ∧ (o, k) ∈ K ∧
      ∀ e ∈ s.postponed, e.sender = k → (o = own ∨ e.owner = o) → Ev.fired e ∈ (s.manual own o a d).2 := by
  have hma : k ∈ a.filter fun k => decide (s.level o k ≠ .authenticated) := by
    simp [List.mem_filter, hk, hl]
  have hne : (a.filter fun k => decide (s.level o k ≠ .authenticated)) ≠ [] := by
    intro h; rw [h] at hma; simp at hma
  have hmem : (o, k) ∈ (a.filter fun k => decide (s.level o k ≠ .authenticated)).map fun k => (o, k) :=
    List.mem_map.mpr ⟨k, hma, rfl⟩
  have hne2 : ((a.filter fun k => decide (s.level o k ≠ .authenticated)).map fun k => (o, k)) ≠ [] := by
    intro h; rw [h] at hmem; simp at hmem
  simp only [Store.manual]
  rw [if_neg (by intro h; exact hne h.1)]
  refine ⟨_, (makeTrustDecisions_events s _ _).1 hne2, hmem, ?_⟩
  intro e he hs hq
  apply makeTrustDecisions_fires_direct _ _ _ _ he
  · exact List.mem_map.mpr ⟨(o, k), hmem, hs.symm⟩
  · rcases hq with hq | hq
    · exact Or.inl (List.mem_map.mpr ⟨(o, k), hmem, hq⟩)
    · exact Or.inr (List.mem_map.mpr ⟨(o, k), hmem, hq.symm⟩)

theorem manual_dis_event (s : Store) (o : Nat) (a d : List Nat) (k : Nat) (hk : k ∈ d)
    (hl : s.level o k ≠ .manDistrusted) :
    ∃ K, Ev.dis K ∈ (s.manual own o a d).2 ∧ (o, k) ∈ K := by
  have hmd : k ∈ d.filter fun k => decide (s.level o k ≠ .manDistrusted) := by
    simp [List.mem_filter, hk, hl]
  have hne : (d.filter fun k => decide (s.level o k ≠ .manDistrusted)) ≠ [] := by
    intro h; rw [h] at hmd; simp at hmd
  have hmem : (o, k) ∈ (d.filter fun k => decide (s.level o k ≠ .manDistrusted)).map fun k => (o, k) :=
    List.mem_map.mpr ⟨k, hmd, rfl⟩
  have hne2 : ((d.filter fun k => decide (s.level o k ≠ .manDistrusted)).map fun k => (o, k)) ≠ [] := by
    intro h; rw [h] at hmem; simp at hmem
  simp only [Store.manual]
  rw [if_neg (by intro h; exact hne h.2)]
  exact ⟨_, (makeTrustDecisions_events s _ _).2 hne2, hmem⟩

/-- an authorised message: every in-scope key it names as trusted reaches `authenticate`, every one it
names as distrusted reaches `distrust` -/
theorem message_events (c : Cfg) (s : Store) (m : Msg) (hp : processed c m = true)
    (ha : s.level m.fromAcc m.senderKey = .authenticated) (ko : KeyOwner) (hko : ko ∈ m.owners)
    (hq : m.fromAcc = c.own ∨ m.fromAcc = ko.jid) (k : Nat) :
    (k ∈ ko.trusted → ∃ K, Ev.auth K ∈ (s.handleMessage c m).2 ∧ (ko.jid, k) ∈ K ∧
        ∀ e ∈ s.postponed, e.sender = k → (ko.jid = c.own ∨ e.owner = ko.jid) →
          Ev.fired e ∈ (s.handleMessage c m).2) ∧
    (k ∈ ko.distrusted → ∃ K, Ev.dis K ∈ (s.handleMessage c m).2 ∧ (ko.jid, k) ∈ K) := by
  rw [handleMessage_auth _ _ _ hp ha]
  have hin : ko ∈ inScope c m := (mem_inScope _ _ _).mpr ⟨hko, hq⟩
  constructor
  · intro hk
    have hmem : (ko.jid, k) ∈ namedTrusted (inScope c m) := (mem_namedTrusted _ _).mpr ⟨ko, hin, k, hk, rfl⟩
    have hne : namedTrusted (inScope c m) ≠ [] := by intro h; rw [h] at hmem; simp at hmem
    refine ⟨_, (makeTrustDecisions_events s _ _).1 hne, hmem, ?_⟩
    intro e he hs hq
    apply makeTrustDecisions_fires_direct _ _ _ _ he
    · exact List.mem_map.mpr ⟨(ko.jid, k), hmem, hs.symm⟩
    · rcases hq with hq | hq
      · exact Or.inl (List.mem_map.mpr ⟨(ko.jid, k), hmem, hq⟩)
      · exact Or.inr (List.mem_map.mpr ⟨(ko.jid, k), hmem, hq.symm⟩)
  · intro hk
    have hmem : (ko.jid, k) ∈ namedDistrusted (inScope c m) := (mem_namedDistrusted _ _).mpr ⟨ko, hin, k, hk, rfl⟩
    have hne : namedDistrusted (inScope c m) ≠ [] := by intro h; rw [h] at hmem; simp at hmem
    exact ⟨_, (makeTrustDecisions_events s _ _).2 hne, hmem⟩

/-! ### after a distrust: nothing from that sender key id, for ever (until it sends again) -/

def NoneFrom (ks : Nat) (s : Store) : Prop := ∀ e ∈ s.postponed, e.sender ≠ ks

/-- the operation is not a trust message carrying sender key id `ks` -/
def NotFromKey (ks : Nat) : Op → Prop
  | .message m => m.senderKey ≠ ks
  | _ => True

theorem noneFrom_step (c : Cfg) (ks : Nat) (s : Store) (op : Op) (h : NoneFrom ks s) (hop : NotFromKey ks op) :
    NoneFrom ks (stepStore c s op).1 ∧ ∀ e, Ev.fired e ∈ (stepStore c s op).2 → e.sender ≠ ks := by
  constructor
  · cases op with
    | setPolicy p => exact h
    | seed o k l => exact h
    | manual o a d => exact fun e he => h e (manual_postponed_subset _ _ _ _ _ he)
    | message m =>
      simp only [stepStore]
      cases hp : processed c m
      · rw [handleMessage_not_processed _ _ _ hp]; exact h
      · by_cases ha : s.level m.fromAcc m.senderKey = .authenticated
        · rw [handleMessage_auth _ _ _ hp ha]
          exact fun e he => h e ((makeTrustDecisions_good s _ _).sub e he)
        · rw [handleMessage_unauth _ _ _ hp ha]
          intro e he
          rcases mem_foldl_addOne _ _ _ he with h1 | h1
          · obtain ⟨ko, _, hx⟩ := (mem_holdEntries _ _ _).mp h1
            rcases hx with ⟨k, _, rfl⟩ | ⟨k, _, rfl⟩ <;> exact hop
          · exact h e h1
  · intro e he
    rcases step_good_or_quiet c s op with g | q
    · exact h e (g.fired e he).1
    · exact absurd he (q.no_fired e)

theorem noneFrom_run (c : Cfg) (ks : Nat) (ops : List Op) (s : Store) (h : NoneFrom ks s)
    (hops : ∀ op ∈ ops, NotFromKey ks op) :
    NoneFrom ks (runStore c s ops).1 ∧
      ∀ evs ∈ (runStore c s ops).2, ∀ e, Ev.fired e ∈ evs → e.sender ≠ ks := by
  induction ops generalizing s with
  | nil => exact ⟨h, by simp [runStore]⟩
  | cons op rest ih =>
    simp only [runStore]
    have h1 := noneFrom_step c ks s op h (hops op List.mem_cons_self)
    have h2 := ih _ h1.1 (fun op' hm => hops op' (List.mem_cons_of_mem _ hm))
    refine ⟨h2.1, ?_⟩
    intro evs hm
    rcases List.mem_cons.mp hm with hm | hm
    · subst hm; exact h1.2
    · exact h2.2 evs hm

/-! ### who is named by the events of a cascade -/

/-- every `authenticate()` / `distrust()` call of a cascade, and every held-back entry it applies, is about an
owner satisfying `P`, if the requested keys are (and `P own` implies `P` of everybody) -/
theorem authF_event_owners (P : Nat → Prop) (hown : P own → ∀ o, P o) (n : Nat) (s : Store) (keys : List (Nat × Nat))
    (h1 : ∀ r ∈ keys, P r.1) :
    (∀ K, Ev.auth K ∈ (authF n own s keys).2 → ∀ r ∈ K, P r.1) ∧
    (∀ K, Ev.dis K ∈ (authF n own s keys).2 → ∀ r ∈ K, P r.1) ∧
    (∀ e, Ev.fired e ∈ (authF n own s keys).2 → P e.owner) := by
  induction n generalizing s keys with
  | zero =>
    simp only [authF]; split <;> simp
  | succ n ih =>
    by_cases hk : keys = []
    · simp [hk, authF_nil]
    · rw [authF_succ _ _ _ hk]
      simp only [fetchQ_beginAuth]
      have hf : ∀ e ∈ s.fetchQ own keys, P e.owner := by
        intro e he
        obtain ⟨_, _, hq⟩ := (mem_fetchQ _ _ _).mp he
        rcases hq with hq | hq
        · obtain ⟨r, hr, hro⟩ := List.mem_map.mp hq
          exact hown (by rw [← hro]; exact h1 r hr) _
        · obtain ⟨r, hr, hro⟩ := List.mem_map.mp hq
          rw [← hro]; exact h1 r hr
      have ht : ∀ v, ∀ r ∈ targets (s.fetchQ own keys) v, P r.1 := by
        intro v r hr
        obtain ⟨e, he, _, her⟩ := (mem_targets _ _ _).mp hr
        rw [← her]; exact hf e he
      obtain ⟨ia, id, ifi⟩ := ih ((s.beginAuth keys).takeFired (s.fetchQ own keys)) (targets (s.fetchQ own keys) true) (ht true)
      refine ⟨?_, ?_, ?_⟩
      · intro K hK
        rcases List.mem_append.mp hK with h | h
        · rcases (mem_append3 _ _ _ _).mp h with h | h | h
          · rw [(auth_mem_beginAuthEvs _ _ _).mp h]; exact h1
          · exact absurd h (auth_mem_map _ _)
          · exact ia K h
        · exact absurd h (auth_mem_distrustEvs _ _ _)
      · intro K hK
        rcases List.mem_append.mp hK with h | h
        · rcases (mem_append3 _ _ _ _).mp h with h | h | h
          · exact absurd h (dis_mem_beginAuthEvs _ _ _)
          · exact absurd h (dis_mem_map _ _)
          · exact id K h
        · rw [((dis_mem_distrustEvs _ _ _).mp h).2]; exact ht false
      · intro e he
        rcases List.mem_append.mp he with h | h
        · rcases (mem_append3 _ _ _ _).mp h with h | h | h
          · exact absurd h (fired_mem_beginAuthEvs _ _ _)
          · exact hf e ((fired_mem_map _ _).mp h)
          · exact ifi e h
        · exact absurd h (fired_mem_distrustEvs _ _ _)

theorem makeTrustDecisions_event_owners (P : Nat → Prop) (hown : P own → ∀ o, P o) (s : Store) (a d : List (Nat × Nat))
    (ha : ∀ r ∈ a, P r.1) (hd : ∀ r ∈ d, P r.1) :
    (∀ K, Ev.dis K ∈ (s.makeTrustDecisions own a d).2 → ∀ r ∈ K, P r.1) ∧
    (∀ e, Ev.fired e ∈ (s.makeTrustDecisions own a d).2 → P e.owner) := by
  simp only [Store.makeTrustDecisions, Store.authenticate]
  obtain ⟨_, id, ifi⟩ := authF_event_owners P hown (s.postponed.length + 1) s a ha
  refine ⟨?_, ?_⟩
  · intro K hK
    rcases List.mem_append.mp hK with h | h
    · exact id K h
    · rw [((dis_mem_distrustEvs _ _ _).mp h).2]; exact hd
  · intro e he
    rcases List.mem_append.mp he with h | h
    · exact ifi e h
    · exact absurd h (fired_mem_distrustEvs _ _ _)

/-! ### the cascade depends on sets, not on the order of lists -/

/-- same stored levels, same set of held-back entries, same policy -/
def Store.Equiv (s t : Store) : Prop :=
  (∀ o k, s.level o k = t.level o k) ∧ (∀ e, e ∈ s.postponed ↔ e ∈ t.postponed) ∧ s.policy = t.policy

def SameKeys (a b : List (Nat × Nat)) : Prop := ∀ r, r ∈ a ↔ r ∈ b

theorem SameKeys.nil_iff {a b : List (Nat × Nat)} (h : SameKeys a b) : a = [] ↔ b = [] := by
  constructor
  · intro ha; subst ha
    cases b with
    | nil => rfl
    | cons x _ => exact absurd ((h x).mpr List.mem_cons_self) (by simp)
  · intro hb; subst hb
    cases a with
    | nil => rfl
    | cons x _ => exact absurd ((h x).mp List.mem_cons_self) (by simp)

theorem SameKeys.map_fst {a b : List (Nat × Nat)} (h : SameKeys a b) (o : Nat) :
    o ∈ a.map (·.1) ↔ o ∈ b.map (·.1) := by
  simp only [List.mem_map]
  exact ⟨fun ⟨r, hr, e⟩ => ⟨r, (h r).mp hr, e⟩, fun ⟨r, hr, e⟩ => ⟨r, (h r).mpr hr, e⟩⟩

theorem SameKeys.map_snd {a b : List (Nat × Nat)} (h : SameKeys a b) (k : Nat) :
    k ∈ a.map (·.2) ↔ k ∈ b.map (·.2) := by
  simp only [List.mem_map]
  exact ⟨fun ⟨r, hr, e⟩ => ⟨r, (h r).mp hr, e⟩, fun ⟨r, hr, e⟩ => ⟨r, (h r).mpr hr, e⟩⟩

theorem equiv_beginAuth {s t : Store} {a b : List (Nat × Nat)} (hs : s.Equiv t) (hk : SameKeys a b) :
    (s.beginAuth a).Equiv (t.beginAuth b) := by
  refine ⟨?_, by simpa using hs.2.1, by simpa using hs.2.2⟩
  intro o k
  by_cases hm : (o, k) ∈ a
  · rw [level_beginAuth_mem _ _ _ _ hm, level_beginAuth_mem _ _ _ _ ((hk _).mp hm)]
  · have hm' : (o, k) ∉ b := fun h => hm ((hk _).mpr h)
    rw [level_beginAuth_not_mem _ _ _ _ hm, level_beginAuth_not_mem _ _ _ _ hm', hs.1 o k, hs.2.2]
    by_cases ho : o ∈ a.map (·.1)
    · simp [ho, (hk.map_fst o).mp ho]
    · have ho' : o ∉ b.map (·.1) := fun h => ho ((hk.map_fst o).mpr h)
      simp [ho, ho']

theorem mem_takeFired (s : Store) (f : List Entry) (e : Entry) :
    e ∈ (s.takeFired f).postponed ↔ e ∈ s.postponed ∧ ¬ ∃ e' ∈ f, e'.key = e.key ∧ e'.trust = e.trust := by
  constructor
  · intro h
    refine ⟨takeFired_postponed_subset _ _ _ h, ?_⟩
    rintro ⟨e', he', hk, ht⟩
    simp only [Store.takeFired, Store.removeDecided, List.mem_filter] at h
    have h2 := h.2
    cases hv : e.trust
    · have : e.key ∈ (targets f false).map (·.2) :=
        List.mem_map.mpr ⟨(e'.owner, e'.key), (mem_targets _ _ _).mpr ⟨e', he', by rw [ht, hv], rfl⟩, hk⟩
      simp [hv, this] at h2
    · have : e.key ∈ (targets f true).map (·.2) :=
        List.mem_map.mpr ⟨(e'.owner, e'.key), (mem_targets _ _ _).mpr ⟨e', he', by rw [ht, hv], rfl⟩, hk⟩
      simp [hv, this] at h2
  · rintro ⟨h1, h2⟩
    by_cases hin : e ∈ (s.takeFired f).postponed
    · exact hin
    · exact absurd (takeFired_removed_only s f e h1 hin) h2

theorem equiv_distrust {s t : Store} {a b : List (Nat × Nat)} (hs : s.Equiv t) (hk : SameKeys a b) :
    (s.distrust own a).Equiv (t.distrust own b) := by
  refine ⟨?_, ?_, by simpa using hs.2.2⟩
  · intro o k
    by_cases hm : (o, k) ∈ a
    · rw [level_distrust_mem _ _ _ _ hm, level_distrust_mem _ _ _ _ ((hk _).mp hm)]
    · have hm' : (o, k) ∉ b := fun h => hm ((hk _).mpr h)
      rw [level_distrust_not_mem _ _ _ _ hm, level_distrust_not_mem _ _ _ _ hm', hs.1]
  · intro e
    rw [mem_distrust_postponed, mem_distrust_postponed, hs.2.1 e, hk.map_snd e.sender]
    simp only [InScopeOf, hk.map_fst]

theorem fetchQ_congr {s t : Store} {a b : List (Nat × Nat)} (hs : s.Equiv t) (hk : SameKeys a b) (e : Entry) :
    e ∈ s.fetchQ own a ↔ e ∈ t.fetchQ own b := by
  rw [mem_fetchQ, mem_fetchQ, hs.2.1 e, hk.map_snd, hk.map_fst, hk.map_fst]

theorem targets_congr {f g : List Entry} (h : ∀ e, e ∈ f ↔ e ∈ g) (v : Bool) : SameKeys (targets f v) (targets g v) := by
  intro r
  rw [mem_targets, mem_targets]
  exact ⟨fun ⟨e, he, x⟩ => ⟨e, (h e).mp he, x⟩, fun ⟨e, he, x⟩ => ⟨e, (h e).mpr he, x⟩⟩

theorem equiv_takeFired {s t : Store} {f g : List Entry} (hs : s.Equiv t) (h : ∀ e, e ∈ f ↔ e ∈ g) :
    (s.takeFired f).Equiv (t.takeFired g) := by
  refine ⟨fun o k => hs.1 o k, ?_, hs.2.2⟩
  intro e
  rw [mem_takeFired, mem_takeFired, hs.2.1 e]
  have : (∃ e' ∈ f, e'.key = e.key ∧ e'.trust = e.trust) ↔ (∃ e' ∈ g, e'.key = e.key ∧ e'.trust = e.trust) :=
    ⟨fun ⟨e', he', x⟩ => ⟨e', (h e').mp he', x⟩, fun ⟨e', he', x⟩ => ⟨e', (h e').mpr he', x⟩⟩
  rw [this]

/-- **The cascade is a function of sets.**  Equivalent stores and key lists with the same elements give
equivalent results, whatever the (sufficient) fuel. -/
theorem authF_equiv (n n' : Nat) (s t : Store) (a b : List (Nat × Nat)) (hs : s.Equiv t) (hk : SameKeys a b)
    (hn : s.postponed.length < n) (hn' : t.postponed.length < n') :
    (authF n own s a).1.Equiv (authF n' own t b).1 := by
  induction n generalizing n' s t a b with
  | zero => omega
  | succ n ih =>
    cases n' with
    | zero => omega
    | succ n' =>
      by_cases ha : a = []
      · have hb : b = [] := hk.nil_iff.mp ha
        simp only [ha, hb, authF_nil]; exact hs
      · have hb : b ≠ [] := fun h => ha (hk.nil_iff.mpr h)
        rw [authF_succ _ _ _ ha, authF_succ _ _ _ hb]
        simp only [fetchQ_beginAuth]
        have hf : ∀ e, e ∈ s.fetchQ own a ↔ e ∈ t.fetchQ own b := fetchQ_congr hs hk
        have h4 : ((s.beginAuth a).takeFired (s.fetchQ own a)).Equiv ((t.beginAuth b).takeFired (t.fetchQ own b)) :=
          equiv_takeFired (equiv_beginAuth hs hk) hf
        apply equiv_distrust _ (targets_congr hf false)
        by_cases hA : targets (s.fetchQ own a) true = []
        · have hB : targets (t.fetchQ own b) true = [] := (targets_congr hf true).nil_iff.mp hA
          simp only [hA, hB, authF_nil]; exact h4
        · have hB : targets (t.fetchQ own b) true ≠ [] := fun h => hA ((targets_congr hf true).nil_iff.mpr h)
          have d1 := round_decreases (own := own) s a hA
          have d2 := round_decreases (own := own) t b hB
          exact ih n' _ _ _ _ h4 (targets_congr hf true) (by omega) (by omega)

theorem makeTrustDecisions_equiv (s t : Store) (a b d d' : List (Nat × Nat)) (hs : s.Equiv t)
    (ha : SameKeys a b) (hd : SameKeys d d') :
    (s.makeTrustDecisions own a d).1.Equiv (t.makeTrustDecisions own b d').1 := by
  simp only [Store.makeTrustDecisions, Store.authenticate]
  exact equiv_distrust (authF_equiv _ _ s t a b hs ha (Nat.lt_succ_self _) (Nat.lt_succ_self _)) hd

theorem processed_iff (c : Cfg) (m : Msg) :
    processed c m = true ↔ m.atm = true ∧ ¬ (m.fromAcc = c.own ∧ m.fromRes = c.ownRes) := by
  simp only [processed, Bool.and_eq_true, Bool.not_eq_true', Bool.and_eq_false_iff, decide_eq_false_iff_not]
  constructor
  · rintro ⟨h1, h2⟩
    exact ⟨h1, fun ⟨a, b⟩ => h2.elim (fun h => h a) (fun h => h b)⟩
  · rintro ⟨h1, h2⟩
    refine ⟨h1, ?_⟩
    by_cases a : m.fromAcc = c.own
    · exact Or.inr fun b => h2 ⟨a, b⟩
    · exact Or.inl a

end Qx.C18
