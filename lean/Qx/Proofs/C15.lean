import Qx.Model.C15Ice
/-!
Helper lemmas for C15 (model: `Qx/Model/C15Ice.lean`, property theorems: `Qx/Props/C15.lean`).
-/
namespace Qx.C15

/-- the two log-only outputs an unauthenticated datagram may cause -/
def isIntegrityWarning : Out → Bool
  | .warnBadMi => true
  | .warnNoMi => true
  | _ => false

/-- A STUN datagram whose MESSAGE-INTEGRITY is not the valid one for its class (absent, wrong key, other password,
truncated) is dropped: the state is returned unchanged and the only possible outputs are the two warnings. -/
theorem react_unauthenticated (s : St) (d : Datagram) (h : d.unauthenticated = true) :
    (react s d).1 = s ∧ ∀ o ∈ (react s d).2, o = Out.warnBadMi ∨ o = Out.warnNoMi := by
  obtain ⟨src, kind⟩ := d
  cases kind with
  | nonStun p => simp [Datagram.unauthenticated] at h
  | stun m =>
    obtain ⟨cls, method, txid, mi, uc, role, prio, user⟩ := m
    cases cls <;> cases mi <;> simp [Datagram.unauthenticated, validFor] at h <;>
      simp only [react] <;> (repeat' split) <;> simp_all [decodeMi]

/-- one unauthenticated operation: state unchanged, outputs are only integrity warnings -/
theorem step_unauthenticated (s : St) (op : Op) (h : op.unauthenticated = true) :
    (step s op).1 = s ∧ ∀ o ∈ (step s op).2, isIntegrityWarning o = true := by
  cases op with
  | dgram d =>
    have h1 := react_unauthenticated s d h
    refine ⟨h1.1, ?_⟩
    intro o ho
    rcases h1.2 o ho with h2 | h2 <;> rw [h2] <;> rfl
  | _ => simp [Op.unauthenticated] at h

theorem filter_eq_nil_of_all_warn (l : List Out) (h : ∀ o ∈ l, isIntegrityWarning o = true) :
    l.filter (fun o => !isIntegrityWarning o) = [] := by
  rw [List.filter_eq_nil_iff]
  intro o ho
  simp [h o ho]

/-- erasing the unauthenticated operations from a history changes neither the final state nor any output other than the
integrity warnings -/
theorem run_erase_unauthenticated (ops : List Op) (s : St) :
    (run s ops).1 = (run s (ops.filter fun o => !o.unauthenticated)).1 ∧
    (run s ops).2.filter (fun o => !isIntegrityWarning o)
      = (run s (ops.filter fun o => !o.unauthenticated)).2.filter (fun o => !isIntegrityWarning o) := by
  induction ops generalizing s with
  | nil => simp [run]
  | cons op ops ih =>
    cases hf : op.unauthenticated with
    | true =>
      have h1 := step_unauthenticated s op hf
      simp only [run, List.filter_cons, hf, Bool.not_true, Bool.false_eq_true, if_false, List.filter_append]
      rw [h1.1, filter_eq_nil_of_all_warn _ h1.2, List.nil_append]
      exact ih s
    | false =>
      simp only [run, List.filter_cons, hf, Bool.not_false, if_true, List.filter_append]
      have h2 := ih (step s op).1
      exact ⟨h2.1, by rw [h2.2]⟩

/-- a history of unauthenticated operations only -/
theorem run_all_unauthenticated (ops : List Op) (s : St) (h : ∀ op ∈ ops, op.unauthenticated = true) :
    (run s ops).1 = s ∧ ∀ o ∈ (run s ops).2, isIntegrityWarning o = true := by
  induction ops generalizing s with
  | nil => simp [run]
  | cons op ops ih =>
    have h1 := step_unauthenticated s op (h op (by simp))
    have h2 := ih (step s op).1 (fun o ho => h o (by simp [ho]))
    simp only [run]
    refine ⟨h2.1.trans h1.1, ?_⟩
    intro o ho
    rcases List.mem_append.mp ho with ho | ho
    · exact h1.2 o ho
    · exact h2.2 o ho

end Qx.C15
