import Qx.Model.C15Ice
/-!
Helper lemmas for C15 (model: `Qx/Model/C15Ice.lean`, property theorems: `Qx/Props/C15.lean`).
-/
namespace Qx.C15

/-- A STUN datagram that carries a MESSAGE-INTEGRITY attribute which is not the valid one for its class is dropped:
the state is returned unchanged and the only possible output is the "Bad message integrity" warning. -/
theorem react_forged (s : St) (d : Datagram) (h : d.forged = true) :
    (react s d).1 = s ∧ ∀ o ∈ (react s d).2, o = Out.warnBadMi := by
  obtain ⟨src, kind⟩ := d
  cases kind with
  | nonStun p => simp [Datagram.forged] at h
  | stun m =>
    obtain ⟨cls, method, txid, mi, uc, role, prio, user⟩ := m
    cases cls <;> cases mi <;> simp [Datagram.forged, validFor] at h <;>
      simp only [react] <;> (repeat' split) <;> simp_all [decodeMi]

/-- with the fix, the same holds for every unauthenticated STUN datagram, and the only outputs are warnings -/
theorem react_unauthenticated_fixed (s : St) (hfix : s.requireMi = true) (d : Datagram) (h : d.unauthenticated = true) :
    (react s d).1 = s ∧ ∀ o ∈ (react s d).2, o = Out.warnBadMi ∨ o = Out.warnNoMi := by
  obtain ⟨src, kind⟩ := d
  cases kind with
  | nonStun p => simp [Datagram.unauthenticated] at h
  | stun m =>
    obtain ⟨cls, method, txid, mi, uc, role, prio, user⟩ := m
    cases cls <;> cases mi <;> simp [Datagram.unauthenticated, validFor] at h <;>
      simp only [react] <;> (repeat' split) <;> simp_all [decodeMi]

/-- one forged operation: state unchanged, outputs are only bad-integrity warnings -/
theorem step_forged (s : St) (op : Op) (h : op.forged = true) :
    (step s op).1 = s ∧ ∀ o ∈ (step s op).2, o = Out.warnBadMi := by
  cases op with
  | dgram d => exact react_forged s d h
  | _ => simp [Op.forged] at h

theorem filter_eq_nil_of_all_warn (l : List Out) (h : ∀ o ∈ l, o = Out.warnBadMi) :
    l.filter (fun o => o != Out.warnBadMi) = [] := by
  rw [List.filter_eq_nil_iff]
  intro o ho
  simp [h o ho]

/-- erasing the forged operations from a history changes neither the final state nor any output other than the
bad-integrity warnings -/
theorem run_erase_forged (ops : List Op) (s : St) :
    (run s ops).1 = (run s (ops.filter fun o => !o.forged)).1 ∧
    (run s ops).2.filter (fun o => o != Out.warnBadMi)
      = (run s (ops.filter fun o => !o.forged)).2.filter (fun o => o != Out.warnBadMi) := by
  induction ops generalizing s with
  | nil => simp [run]
  | cons op ops ih =>
    cases hf : op.forged with
    | true =>
      have h1 := step_forged s op hf
      simp only [run, List.filter_cons, hf, Bool.not_true, Bool.false_eq_true, if_false, List.filter_append]
      rw [h1.1, filter_eq_nil_of_all_warn _ h1.2, List.nil_append]
      exact ih s
    | false =>
      simp only [run, List.filter_cons, hf, Bool.not_false, if_true, List.filter_append]
      have h2 := ih (step s op).1
      exact ⟨h2.1, by rw [h2.2]⟩

/-- a history of forged operations only -/
theorem run_all_forged (ops : List Op) (s : St) (h : ∀ op ∈ ops, op.forged = true) :
    (run s ops).1 = s ∧ ∀ o ∈ (run s ops).2, o = Out.warnBadMi := by
  induction ops generalizing s with
  | nil => simp [run]
  | cons op ops ih =>
    have h1 := step_forged s op (h op (by simp))
    have h2 := ih (step s op).1 (fun o ho => h o (by simp [ho]))
    simp only [run]
    refine ⟨h2.1.trans h1.1, ?_⟩
    intro o ho
    rcases List.mem_append.mp ho with ho | ho
    · exact h1.2 o ho
    · exact h2.2 o ho

end Qx.C15
