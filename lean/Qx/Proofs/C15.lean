import Qx.Model.C15Ice
/-!
Helper lemmas for C15 (model: `Qx/Model/C15Ice.lean`, property theorems: `Qx/Props/C15.lean`).
-/
namespace Qx.C15

/-- the log-only outputs an unauthenticated datagram may cause -/
def isIntegrityWarning : Out → Bool
  | .warnBadMi => true
  | .warnNoMi => true
  | .warnBadFp => true
  | .warnTruncAttr => true
  | .warnMissingMi => true
  | _ => false

/-- the integrity status that passes `miCheck` is exactly the one under the key handed to `decode` -/
theorem miCheck_ok (k : Bool) (st : MiSt) :
    miCheck k st = .ok ↔ st = (if k then .validRemote else .validLocal) := by
  cases k <;> cases st <;> simp [miCheck]

/-- **The two walks together.**  If the pre-scan of handleDatagram finds a MESSAGE-INTEGRITY and `decode` returns success, then
the attribute that protects the message by the RFC's rules (`protectingMi`: the first MESSAGE-INTEGRITY, not behind a
FINGERPRINT) exists and is the one `decode` verified under its key. -/
theorem accept_implies_protected (k : Bool) (attrs : List Attr)
    (h1 : prescan attrs = true) (h2 : decodeWalk k false attrs = .ok) :
    ∃ st, protectingMi attrs = some st ∧ miCheck k st = .ok := by
  induction attrs with
  | nil => simp [prescan] at h1
  | cons a rest ih =>
    cases a with
    | mi st =>
      refine ⟨st, rfl, ?_⟩
      simp only [decodeWalk, Bool.false_eq_true, if_false] at h2
      cases hc : miCheck k st <;> simp [hc] at h2 ⊢
    | fingerprint g => simp [prescan] at h1
    | overrun => simp [prescan] at h1
    | other =>
      simp only [prescan] at h1
      simp only [decodeWalk] at h2
      exact ih h1 h2
    | useCandidate =>
      simp only [prescan] at h1
      simp only [decodeWalk] at h2
      exact ih h1 h2
    | priority n =>
      simp only [prescan] at h1
      simp only [decodeWalk] at h2
      exact ih h1 h2

/-- `decode`'s own bookkeeping and the pre-scan of handleDatagram agree -/
theorem decodeSawMi_eq_prescan (attrs : List Attr) : decodeSawMi attrs = prescan attrs := by
  induction attrs with
  | nil => rfl
  | cons a rest ih => cases a <;> simp [decodeSawMi, prescan, ih]

/-- the attribute loop itself never reports a missing MESSAGE-INTEGRITY (that is the separate final test) -/
theorem decodeWalk_ne_missingMi (k : Bool) (attrs : List Attr) (ai : Bool) : decodeWalk k ai attrs ≠ .missingMi := by
  induction attrs generalizing ai with
  | nil => simp [decodeWalk]
  | cons a rest ih =>
    cases a with
    | mi st =>
      cases ai with
      | true => simpa [decodeWalk] using ih true
      | false =>
        simp only [decodeWalk, Bool.false_eq_true, if_false]
        cases hc : miCheck k st <;> simp
        · exact ih true
        · cases k <;> cases st <;> simp [miCheck] at hc
    | fingerprint g => cases g <;> simp [decodeWalk]
    | other => simpa [decodeWalk] using ih ai
    | overrun => simp [decodeWalk]
    | useCandidate => simpa [decodeWalk] using ih ai
    | priority n => simpa [decodeWalk] using ih ai

/-- `decodeKeyed … = ok` implies the attribute loop succeeded -/
theorem decodeKeyed_ok (k n : Bool) (attrs : List Attr) (h : decodeKeyed k n attrs = .ok) : decodeWalk k false attrs = .ok := by
  unfold decodeKeyed at h
  cases hd : decodeWalk k false attrs <;> simp [hd] at h ⊢

/-- the pre-scan is exactly "some MESSAGE-INTEGRITY protects the message" -/
theorem prescan_iff_protected (attrs : List Attr) : prescan attrs = true ↔ (protectingMi attrs).isSome = true := by
  induction attrs with
  | nil => simp [prescan, protectingMi]
  | cons a rest ih => cases a <;> simp [prescan, protectingMi, ih]

/-- the key handed to `decode` for a message of class `cls` accepts exactly `validFor cls` -/
theorem key_for_class (cls : Cls) :
    (if (cls == .response || cls == .error) then MiSt.validRemote else MiSt.validLocal) = validFor cls := by
  cases cls <;> rfl

/-- Peer path: a STUN message without a valid protecting MESSAGE-INTEGRITY (none at all, only behind a FINGERPRINT, wrong key,
other or superseded password, truncated) is dropped: the state is returned unchanged and the only possible outputs are warnings. -/
theorem reactPeer_unauthenticated (s : St) (src : Nat) (m : Stun) (h : protectingMi m.attrs ≠ some (validFor m.cls)) :
    (reactPeer s src m).1 = s ∧ ∀ o ∈ (reactPeer s src m).2, isIntegrityWarning o = true := by
  simp only [reactPeer]
  split
  · simp
  · split
    · simp [isIntegrityWarning]
    · rename_i hpre
      split
      · simp [isIntegrityWarning]
      · simp [isIntegrityWarning]
      · simp [isIntegrityWarning]
      · simp
      · simp [isIntegrityWarning]
      · rename_i hdec
        exfalso
        have hpre' : prescan m.attrs = true := by simpa using hpre
        obtain ⟨st, hp, hc⟩ := accept_implies_protected _ m.attrs hpre' (decodeKeyed_ok _ _ _ hdec)
        rw [miCheck_ok, key_for_class] at hc
        exact h (by rw [hp, hc])

/-- outputs that neither answer the sender nor touch connectivity: log lines and STUN-server discovery results -/
def isHarmlessOut : Out → Bool
  | .accepted => true
  | .warnBadMi => true
  | .warnNoMi => true
  | .warnBadFp => true
  | .warnTruncAttr => true
  | .warnMissingMi => true
  | .warnNoReflexive => true
  | .localCandidate _ => true
  | .gatheringComplete => true
  | _ => false

/-- STUN-server path: only the discovery bookkeeping changes -/
theorem reactServer_view (s : St) (m : Stun) :
    connView (reactServer s m).1 = connView s ∧ (reactServer s m).1.fallback = s.fallback ∧
    (reactServer s m).1.active = s.active ∧ ∀ o ∈ (reactServer s m).2, isHarmlessOut o = true := by
  simp only [reactServer]
  repeat' split
  all_goals simp [connView, St.connected, isHarmlessOut]
  all_goals (try (intro o ho; rcases ho with rfl | rfl <;> rfl))

/-- Every unauthenticated datagram, in every state: the connectivity view, the selected and the fallback pair are unchanged and
the outputs are harmless (nothing is sent, no pair changes, no `connected`). -/
theorem react_unauthenticated_view (s : St) (d : Datagram) (h : d.unauthenticated = true) :
    connView (react s d).1 = connView s ∧ (react s d).1.fallback = s.fallback ∧
    ∀ o ∈ (react s d).2, isHarmlessOut o = true := by
  obtain ⟨src, kind⟩ := d
  cases kind with
  | nonStun p => simp [Datagram.unauthenticated] at h
  | stun m =>
    simp only [Datagram.unauthenticated, bne_iff_ne, ne_eq] at h
    simp only [react]
    split
    · simp
    split
    · have h1 := reactServer_view s m
      exact ⟨h1.1, h1.2.1, h1.2.2.2⟩
    · have h1 := reactPeer_unauthenticated s src m h
      refine ⟨by rw [h1.1], by rw [h1.1], ?_⟩
      intro o ho
      have h2 := h1.2 o ho
      cases o <;> simp_all [isIntegrityWarning, isHarmlessOut]

/-- … and when the datagram does not carry the id of an outstanding STUN-server transaction the state is literally unchanged and
the only outputs are warnings -/
theorem react_unauthenticated (s : St) (d : Datagram) (h : d.unauthenticated = true)
    (hs : ∀ m, d.kind = .stun m → s.stunTx.contains m.txid = false) :
    (react s d).1 = s ∧ ∀ o ∈ (react s d).2, isIntegrityWarning o = true := by
  obtain ⟨src, kind⟩ := d
  cases kind with
  | nonStun p => simp [Datagram.unauthenticated] at h
  | stun m =>
    simp only [Datagram.unauthenticated, bne_iff_ne, ne_eq] at h
    simp only [react, hs m rfl]
    split
    · simp
    · exact reactPeer_unauthenticated s src m h

/-- a STUN message that does not belong to a STUN-server transaction takes the peer path -/
theorem react_stun_peer (s : St) (src : Nat) (m : Stun) (hs : s.stunTx.contains m.txid = false) :
    react s { src := src, kind := .stun m } = if s.closed then (s, []) else reactPeer s src m := by
  simp only [react, hs, Bool.false_eq_true, if_false]

/-! ### no STUN server configured (or discovery finished): `stunTx = []` is invariant -/

theorem completion_stunTx (s : St) (r : Nat) : (completion s r).1.stunTx = s.stunTx := by
  unfold completion
  repeat' split
  all_goals simp_all

theorem checkCandidates_stunTx (s : St) : (checkCandidates s).1.stunTx = s.stunTx := by
  unfold checkCandidates
  repeat' split
  all_goals simp_all [performCheck]

theorem handleRequest_stunTx (s : St) (src : Nat) (m : Stun) : (handleRequest s src m).1.stunTx = s.stunTx := by
  unfold handleRequest
  split
  · rfl
  split
  · rfl
  simp only []
  rw [completion_stunTx]
  repeat' split
  all_goals simp_all [performCheck, St.addPair]

theorem handleResponse_stunTx (s : St) (src : Nat) (m : Stun) : (handleResponse s src m).1.stunTx = s.stunTx := by
  unfold handleResponse
  repeat' split
  all_goals first | rfl | (rw [completion_stunTx]) | simp_all

theorem reactPeer_stunTx (s : St) (src : Nat) (m : Stun) : (reactPeer s src m).1.stunTx = s.stunTx := by
  simp only [reactPeer]
  split
  · rfl
  split
  · rfl
  cases decodeKeyed (m.cls == .response || m.cls == .error) (m.cls == .request || m.cls == .response) m.attrs with
  | badMi => rfl
  | missingMi => rfl
  | badFp => rfl
  | truncAttr => rfl
  | silent => rfl
  | ok =>
    simp only []
    split
    · rfl
    cases m.cls with
    | request => exact handleRequest_stunTx _ _ _
    | indication => rfl
    | response => exact handleResponse_stunTx _ _ _
    | error => exact handleResponse_stunTx _ _ _

theorem completion_fallback (s : St) (r : Nat) : (completion s r).1.fallback = s.fallback := by
  unfold completion
  repeat' split
  all_goals simp_all

theorem checkCandidates_fallback (s : St) : (checkCandidates s).1.fallback = s.fallback := by
  unfold checkCandidates
  repeat' split
  all_goals simp_all [performCheck]

theorem handleRequest_fallback (s : St) (src : Nat) (m : Stun) : (handleRequest s src m).1.fallback = s.fallback := by
  unfold handleRequest
  split
  · rfl
  split
  · rfl
  simp only []
  rw [completion_fallback]
  repeat' split
  all_goals simp_all [performCheck, St.addPair]

theorem handleResponse_fallback (s : St) (src : Nat) (m : Stun) : (handleResponse s src m).1.fallback = s.fallback := by
  unfold handleResponse
  repeat' split
  all_goals first | rfl | (rw [completion_fallback]) | simp_all

theorem reactPeer_fallback (s : St) (src : Nat) (m : Stun) : (reactPeer s src m).1.fallback = s.fallback := by
  simp only [reactPeer]
  split
  · rfl
  split
  · rfl
  cases decodeKeyed (m.cls == .response || m.cls == .error) (m.cls == .request || m.cls == .response) m.attrs with
  | badMi => rfl
  | missingMi => rfl
  | badFp => rfl
  | truncAttr => rfl
  | silent => rfl
  | ok =>
    simp only []
    split
    · rfl
    cases m.cls with
    | request => exact handleRequest_fallback _ _ _
    | indication => rfl
    | response => exact handleResponse_fallback _ _ _
    | error => exact handleResponse_fallback _ _ _

theorem completion_localSrflx (s : St) (r : Nat) : (completion s r).1.localSrflx = s.localSrflx := by
  unfold completion
  repeat' split
  all_goals simp_all

theorem checkCandidates_localSrflx (s : St) : (checkCandidates s).1.localSrflx = s.localSrflx := by
  unfold checkCandidates
  repeat' split
  all_goals simp_all [performCheck]

theorem handleRequest_localSrflx (s : St) (src : Nat) (m : Stun) : (handleRequest s src m).1.localSrflx = s.localSrflx := by
  unfold handleRequest
  split
  · rfl
  split
  · rfl
  simp only []
  rw [completion_localSrflx]
  repeat' split
  all_goals simp_all [performCheck, St.addPair]

theorem handleResponse_localSrflx (s : St) (src : Nat) (m : Stun) : (handleResponse s src m).1.localSrflx = s.localSrflx := by
  unfold handleResponse
  repeat' split
  all_goals first | rfl | (rw [completion_localSrflx]) | simp_all

theorem reactPeer_localSrflx (s : St) (src : Nat) (m : Stun) : (reactPeer s src m).1.localSrflx = s.localSrflx := by
  simp only [reactPeer]
  split
  · rfl
  split
  · rfl
  cases decodeKeyed (m.cls == .response || m.cls == .error) (m.cls == .request || m.cls == .response) m.attrs with
  | badMi => rfl
  | missingMi => rfl
  | badFp => rfl
  | truncAttr => rfl
  | silent => rfl
  | ok =>
    simp only []
    split
    · rfl
    cases m.cls with
    | request => exact handleRequest_localSrflx _ _ _
    | indication => rfl
    | response => exact handleResponse_localSrflx _ _ _
    | error => exact handleResponse_localSrflx _ _ _

theorem completion_remoteCands (s : St) (r : Nat) : (completion s r).1.remoteCands = s.remoteCands := by
  unfold completion
  repeat' split
  all_goals simp_all

/-- the fallback pair changes only through `addRemoteCandidate` or a non-STUN datagram from the address of an existing pair -/
theorem step_fallback (s : St) (op : Op) :
    (step s op).1.fallback = s.fallback ∨
    (∃ a pr, op = .addRemote a pr ∧ (step s op).1.fallback = some a) ∨
    (∃ a p, op = .dgram { src := a, kind := .nonStun p } ∧ (findPair s.pairs a).isSome = true ∧ (step s op).1.fallback = some a) := by
  cases op with
  | dgram d =>
    obtain ⟨src, kind⟩ := d
    cases kind with
    | nonStun p =>
      simp only [step, react]
      split
      · exact Or.inl rfl
      · cases hf : findPair s.pairs src with
        | none => exact Or.inl rfl
        | some q => exact Or.inr (Or.inr ⟨src, p, rfl, by simp [hf], rfl⟩)
    | stun m =>
      refine Or.inl ?_
      simp only [step, react]
      split
      · rfl
      split
      · exact (reactServer_view s m).2.1
      · exact reactPeer_fallback s src m
  | tick => refine Or.inl ?_; simp only [step, tick]; split; exact checkCandidates_fallback s; rfl
  | connect => refine Or.inl ?_; simp only [step, connect]; split; rfl; simp [checkCandidates_fallback]
  | addRemote a pr =>
    simp only [step, addRemote]
    split
    · exact Or.inl rfl
    · cases hf : s.fallback with
      | some f => exact Or.inl (by simp [St.addPair, hf])
      | none => exact Or.inr (Or.inl ⟨a, pr, rfl, by simp [St.addPair, hf]⟩)
  | txTimeout t => refine Or.inl ?_; simp only [step, txFinished]; split <;> rfl
  | retransmit t => refine Or.inl ?_; simp only [step, retransmit, txFinished]; (repeat' split) <;> rfl
  | sendApp p => refine Or.inl ?_; simp only [step, sendApp]; (repeat' split) <;> rfl
  | close => exact Or.inl rfl
  | setRemoteCreds => exact Or.inl rfl
  | setRemoteUser => exact Or.inl rfl
  | setRemotePassword => exact Or.inl rfl

/-- a local server-reflexive candidate can only be added on the STUN-server path, by a Binding success response, and the
transaction it answers is forgotten -/
theorem react_localSrflx (s : St) (d : Datagram) (h : (react s d).1.localSrflx ≠ s.localSrflx) :
    ∃ m, d.kind = .stun m ∧ s.stunTx.contains m.txid = true ∧ m.cls = .response ∧ m.method = .binding ∧
      (react s d).1.stunTx.contains m.txid = false := by
  obtain ⟨src, kind⟩ := d
  cases kind with
  | nonStun p =>
    exfalso; apply h
    simp only [react]
    split
    · rfl
    · split <;> rfl
  | stun m =>
    by_cases hc : s.closed = true
    · exfalso; apply h; simp [react, hc]
    by_cases ht : s.stunTx.contains m.txid = true
    · refine ⟨m, rfl, ht, ?_⟩
      have hc' : s.closed = false := Bool.eq_false_iff.mpr hc
      have hr : react s { src := src, kind := .stun m } = reactServer s m := by
        simp only [react, hc', ht, Bool.false_eq_true, if_false, if_true]
      rw [hr] at h ⊢
      simp only [reactServer] at h ⊢
      cases hd : decodeNoKey false m.attrs <;> simp only [hd] at h ⊢ <;> try (exact absurd rfl h)
      by_cases hm : m.method = .binding
      · cases hcl : m.cls <;> simp [hm, hcl] at h ⊢
        cases hmap : m.mapped <;> simp [hmap] at h ⊢
        split <;> simp_all
      · exfalso; apply h; simp [hm]
    · exfalso; apply h
      have hc' : s.closed = false := Bool.eq_false_iff.mpr hc
      have ht' : s.stunTx.contains m.txid = false := Bool.eq_false_iff.mpr ht
      have hr : react s { src := src, kind := .stun m } = reactPeer s src m := by
        simp only [react, hc', ht', Bool.false_eq_true, if_false]
      rw [hr]; exact reactPeer_localSrflx s src m

theorem step_stunTx_nil (s : St) (op : Op) (h : s.stunTx = []) : (step s op).1.stunTx = [] := by
  cases op with
  | dgram d =>
    obtain ⟨src, kind⟩ := d
    simp only [step, react]
    split
    · exact h
    cases kind with
    | nonStun p => simp only []; split <;> exact h
    | stun m => simp only [h, List.contains_nil, Bool.false_eq_true, if_false]; rw [reactPeer_stunTx]; exact h
  | tick => simp only [step, tick]; split; rw [checkCandidates_stunTx]; exact h; exact h
  | connect => simp only [step, connect]; split; exact h; simp [checkCandidates_stunTx, h]
  | addRemote a p => simp only [step, addRemote]; split <;> simp_all [St.addPair]
  | txTimeout t => simp only [step, txFinished]; split <;> simp_all
  | retransmit t => simp only [step, retransmit, txFinished]; repeat' split; all_goals simp_all
  | sendApp p => simp only [step, sendApp]; (repeat' split) <;> exact h
  | close => exact h
  | setRemoteCreds => exact h
  | setRemoteUser => exact h
  | setRemotePassword => exact h

/-- one unauthenticated operation, no STUN-server transaction outstanding: state unchanged, outputs are only warnings -/
theorem step_unauthenticated (s : St) (hs : s.stunTx = []) (op : Op) (h : op.unauthenticated = true) :
    (step s op).1 = s ∧ ∀ o ∈ (step s op).2, isIntegrityWarning o = true := by
  cases op with
  | dgram d => exact react_unauthenticated s d h (fun m _ => by simp [hs])
  | _ => simp [Op.unauthenticated] at h

theorem filter_eq_nil_of_all_warn (l : List Out) (h : ∀ o ∈ l, isIntegrityWarning o = true) :
    l.filter (fun o => !isIntegrityWarning o) = [] := by
  rw [List.filter_eq_nil_iff]
  intro o ho
  simp [h o ho]

/-- erasing the unauthenticated operations from a history changes neither the final state nor any output other than the
integrity warnings -/
theorem run_erase_unauthenticated (ops : List Op) (s : St) (hs : s.stunTx = []) :
    (run s ops).1 = (run s (ops.filter fun o => !o.unauthenticated)).1 ∧
    (run s ops).2.filter (fun o => !isIntegrityWarning o)
      = (run s (ops.filter fun o => !o.unauthenticated)).2.filter (fun o => !isIntegrityWarning o) := by
  induction ops generalizing s with
  | nil => simp [run]
  | cons op ops ih =>
    cases hf : op.unauthenticated with
    | true =>
      have h1 := step_unauthenticated s hs op hf
      simp only [run, List.filter_cons, hf, Bool.not_true, Bool.false_eq_true, if_false, List.filter_append]
      rw [h1.1, filter_eq_nil_of_all_warn _ h1.2, List.nil_append]
      exact ih s hs
    | false =>
      simp only [run, List.filter_cons, hf, Bool.not_false, if_true, List.filter_append]
      have h2 := ih (step s op).1 (step_stunTx_nil s op hs)
      exact ⟨h2.1, by rw [h2.2]⟩

/-- a history of unauthenticated operations only -/
theorem run_all_unauthenticated (ops : List Op) (s : St) (hs : s.stunTx = []) (h : ∀ op ∈ ops, op.unauthenticated = true) :
    (run s ops).1 = s ∧ ∀ o ∈ (run s ops).2, isIntegrityWarning o = true := by
  induction ops generalizing s with
  | nil => simp [run]
  | cons op ops ih =>
    have h1 := step_unauthenticated s hs op (h op (by simp))
    have h2 := ih (step s op).1 (by rw [h1.1]; exact hs) (fun o ho => h o (by simp [ho]))
    simp only [run]
    refine ⟨h2.1.trans h1.1, ?_⟩
    intro o ho
    rcases List.mem_append.mp ho with ho | ho
    · exact h1.2 o ho
    · exact h2.2 o ho

/-! ### connected is stable -/
theorem completion_active (s : St) (r : Nat) (h : s.active.isSome = true) : (completion s r).1.active.isSome = true := by
  unfold completion
  repeat' split
  all_goals simp_all

theorem performCheck_active (s : St) (r : Nat) (b : Bool) : (performCheck s r b).1.active = s.active := rfl

theorem checkCandidates_active (s : St) : (checkCandidates s).1.active = s.active := by
  unfold checkCandidates
  repeat' split
  all_goals simp_all [performCheck]


theorem handleRequest_active (s : St) (src : Nat) (m : Stun) (h : s.active.isSome = true) :
    (handleRequest s src m).1.active.isSome = true := by
  unfold handleRequest
  split
  · exact h
  split
  · exact h
  simp only []
  apply completion_active
  repeat' split
  all_goals simp_all [performCheck, St.addPair]

theorem handleResponse_active (s : St) (src : Nat) (m : Stun) (h : s.active.isSome = true) :
    (handleResponse s src m).1.active.isSome = true := by
  unfold handleResponse
  repeat' split
  all_goals first | exact h | (apply completion_active; exact h) | simp_all

theorem reactPeer_active (s : St) (src : Nat) (m : Stun) (h : s.active.isSome = true) :
    (reactPeer s src m).1.active.isSome = true := by
  simp only [reactPeer]
  split
  · exact h
  split
  · exact h
  cases decodeKeyed (m.cls == .response || m.cls == .error) (m.cls == .request || m.cls == .response) m.attrs with
  | badMi => exact h
  | missingMi => exact h
  | badFp => exact h
  | truncAttr => exact h
  | silent => exact h
  | ok =>
    simp only []
    split
    · exact h
    cases m.cls with
    | request => exact handleRequest_active _ _ _ h
    | indication => exact h
    | response => exact handleResponse_active _ _ _ h
    | error => exact handleResponse_active _ _ _ h

theorem react_active (s : St) (d : Datagram) (h : s.active.isSome = true) : (react s d).1.active.isSome = true := by
  obtain ⟨src, kind⟩ := d
  simp only [react]
  split
  · exact h
  cases kind with
  | nonStun p => simp only []; split <;> exact h
  | stun m =>
    simp only []
    split
    · rw [(reactServer_view s m).2.2.1]; exact h
    · exact reactPeer_active s src m h

/-- **Connected is stable:** no operation other than `close()` makes a connected component unconnected again. -/
theorem step_active (s : St) (op : Op) (hop : op ≠ .close) (h : s.active.isSome = true) : (step s op).1.active.isSome = true := by
  cases op with
  | dgram d => exact react_active s d h
  | tick => simp only [step, tick]; split; rw [checkCandidates_active]; exact h; exact h
  | connect => simp [step, connect, h]
  | addRemote a p => simp only [step, addRemote]; split <;> simp_all [St.addPair]
  | txTimeout t => simp only [step, txFinished]; split <;> simp_all
  | retransmit t => simp only [step, retransmit, txFinished]; repeat' split; all_goals simp_all
  | sendApp p => simp only [step, sendApp]; (repeat' split) <;> exact h
  | close => exact absurd rfl hop
  | setRemoteCreds => exact h
  | setRemoteUser => exact h
  | setRemotePassword => exact h

theorem run_active (ops : List Op) (s : St) (hops : ∀ op ∈ ops, op ≠ .close) (h : s.active.isSome = true) :
    (run s ops).1.active.isSome = true := by
  induction ops generalizing s with
  | nil => exact h
  | cons op ops ih =>
    exact ih _ (fun o ho => hops o (by simp [ho])) (step_active s op (hops op (by simp)) h)

/-! ### attributes behind MESSAGE-INTEGRITY -/
theorem decodeWalk_after_ok (k : Bool) (post : List Attr) (h : ∀ a ∈ post, a.harmless = true) :
    decodeWalk k true post = .ok := by
  induction post with
  | nil => rfl
  | cons a r ih =>
    have ha := h a (by simp)
    have hr : ∀ b ∈ r, b.harmless = true := fun b hb => h b (by simp [hb])
    cases a with
    | mi st => simp [decodeWalk, ih hr]
    | fingerprint g => cases g <;> simp_all [decodeWalk, Attr.harmless]
    | other => simp [decodeWalk, ih hr]
    | overrun => simp [Attr.harmless] at ha
    | useCandidate => simp [decodeWalk, ih hr]
    | priority n => simp [decodeWalk, ih hr]

theorem prescan_trailer (pre post : List Attr) (st : MiSt) :
    prescan (pre ++ .mi st :: post) = prescan (pre ++ [.mi st]) := by
  induction pre with
  | nil => rfl
  | cons a r ih => cases a <;> simp [prescan, ih]

theorem decodeWalk_trailer (k : Bool) (pre post : List Attr) (st : MiSt) (h : ∀ a ∈ post, a.harmless = true) (ai : Bool) :
    decodeWalk k ai (pre ++ .mi st :: post) = decodeWalk k ai (pre ++ [.mi st]) := by
  induction pre generalizing ai with
  | nil =>
    cases ai with
    | true => simp [decodeWalk, decodeWalk_after_ok k post h]
    | false =>
      simp only [List.nil_append, decodeWalk, Bool.false_eq_true, if_false]
      cases miCheck k st <;> simp [decodeWalk_after_ok k post h]
  | cons a r ih =>
    cases a with
    | mi st' =>
      cases ai with
      | true => simp [decodeWalk, ih]
      | false =>
        simp only [List.cons_append, decodeWalk, Bool.false_eq_true, if_false]
        cases miCheck k st' <;> simp [ih]
    | fingerprint g => simp [decodeWalk]
    | other => simp [decodeWalk, ih]
    | overrun => simp [decodeWalk]
    | useCandidate => simp [decodeWalk, ih]
    | priority n => simp [decodeWalk, ih]

theorem decodeSawMi_trailer (pre post : List Attr) (st : MiSt) :
    decodeSawMi (pre ++ .mi st :: post) = decodeSawMi (pre ++ [.mi st]) := by
  rw [decodeSawMi_eq_prescan, decodeSawMi_eq_prescan, prescan_trailer]

theorem decodeKeyed_trailer (k n : Bool) (pre post : List Attr) (st : MiSt) (h : ∀ a ∈ post, a.harmless = true) :
    decodeKeyed k n (pre ++ .mi st :: post) = decodeKeyed k n (pre ++ [.mi st]) := by
  simp only [decodeKeyed, decodeWalk_trailer k pre post st h false, decodeSawMi_trailer]

theorem parsedUc_trailer (pre post : List Attr) (st : MiSt) :
    parsedUc (pre ++ .mi st :: post) = parsedUc (pre ++ [.mi st]) := by
  induction pre with
  | nil => rfl
  | cons a r ih => cases a <;> simp [parsedUc, ih]

theorem parsedPrio_trailer (pre post : List Attr) (st : MiSt) (cur : Nat) :
    parsedPrio cur (pre ++ .mi st :: post) = parsedPrio cur (pre ++ [.mi st]) := by
  induction pre generalizing cur with
  | nil => rfl
  | cons a r ih => cases a <;> simp [parsedPrio, ih]

/-- `handleRequest` looks at four fields of the decoded message only -/
theorem handleRequest_congr (s : St) (src : Nat) (m1 m2 : Stun) (h1 : m1.roleAttr = m2.roleAttr)
    (h2 : m1.useCandidate = m2.useCandidate) (h3 : m1.txid = m2.txid) (h4 : m1.priority = m2.priority) :
    handleRequest s src m1 = handleRequest s src m2 := by
  obtain ⟨c1, me1, t1, a1, u1, r1, p1, n1⟩ := m1
  obtain ⟨c2, me2, t2, a2, u2, r2, p2, n2⟩ := m2
  simp only at h1 h2 h3 h4
  subst h1 h2 h3 h4
  rfl

/-! ### application datagrams -/


/-- a connected sender writes every payload to the selected pair's remote address, untouched, and its state does not change -/
theorem run_sendApp (a : St) (dst : Nat) (h : a.active = some dst) (ps : List (List UInt8)) :
    run a (ps.map .sendApp) = (a, ps.map (Out.appSent dst)) := by
  induction ps with
  | nil => rfl
  | cons p r ih => simp [run, step, sendApp, h, ih]

/-- what arrives at `dst` from those writes: the payloads as non-STUN datagrams from the sender's address, in order -/
theorem route_appSent (a : St) (from_ dst : Nat) (ps : List (List UInt8)) :
    route a from_ dst (ps.map (Out.appSent dst)) = ps.map (fun p => ({ src := from_, kind := .nonStun p } : Datagram)) := by
  induction ps with
  | nil => rfl
  | cons p r ih => simp [route, wire, ih]

/-- a receiver hands every non-STUN datagram up unchanged and in order; its connectivity view does not change -/
theorem run_nonStun (b : St) (hc : b.closed = false) (src : Nat) (ps : List (List UInt8)) :
    (run b (ps.map fun p => .dgram { src := src, kind := .nonStun p })).2 = ps.map Out.appData ∧
    connView (run b (ps.map fun p => .dgram { src := src, kind := .nonStun p })).1 = connView b := by
  induction ps generalizing b with
  | nil => exact ⟨rfl, rfl⟩
  | cons p r ih =>
    have hs : connView (react b { src := src, kind := .nonStun p }).1 = connView b := by
      simp only [react, hc, Bool.false_eq_true, if_false]; split <;> rfl
    have hcl : (react b { src := src, kind := .nonStun p }).1.closed = false := by
      simp only [react, hc, Bool.false_eq_true, if_false]; split <;> first | exact hc | rfl
    have ho : (react b { src := src, kind := .nonStun p }).2 = [Out.appData p] := by
      simp only [react, hc, Bool.false_eq_true, if_false]
    have h2 := ih (react b { src := src, kind := .nonStun p }).1 hcl
    simp only [List.map_cons, run, step]
    exact ⟨by rw [ho, h2.1]; rfl, by rw [h2.2, hs]⟩

/-! the 1024 combinations of {role assignment, who starts, whether the first check arrives before the other side starts, an extra
unreachable candidate on either side, its position, loss of each of the four first transmissions}, in four kernel-evaluated parts -/
theorem lossy_ff : ∀ g da db df l1 l2 l3 l4 : Bool,
    bothConnected (Net.periods 3 (lossyStart false false g da db df 1, ⟨l1, l2, l3, l4⟩)).1 = true := by decide +kernel
theorem lossy_ft : ∀ g da db df l1 l2 l3 l4 : Bool,
    bothConnected (Net.periods 3 (lossyStart false true g da db df 1, ⟨l1, l2, l3, l4⟩)).1 = true := by decide +kernel
theorem lossy_tf : ∀ g da db df l1 l2 l3 l4 : Bool,
    bothConnected (Net.periods 3 (lossyStart true false g da db df 1, ⟨l1, l2, l3, l4⟩)).1 = true := by decide +kernel
theorem lossy_tt : ∀ g da db df l1 l2 l3 l4 : Bool,
    bothConnected (Net.periods 3 (lossyStart true true g da db df 1, ⟨l1, l2, l3, l4⟩)).1 = true := by decide +kernel

end Qx.C15
