import Qx.Model.C15Ice
/-!
Helper lemmas for C15 (model: `Qx/Model/C15Ice.lean`, property theorems: `Qx/Props/C15.lean`).
-/
namespace Qx.C15

/-- the log-only outputs an unauthenticated datagram may cause -/
def isIntegrityWarning : Out → Bool
  | .warnBadMi => true
  | .warnNoMi => true
  | .warnBadFp => true
  | .warnTruncAttr => true
  | _ => false

/-- the integrity status that passes `miCheck` is exactly the one under the key handed to `decode` -/
theorem miCheck_ok (k : Bool) (st : MiSt) :
    miCheck k st = .ok ↔ st = (if k then .validRemote else .validLocal) := by
  cases k <;> cases st <;> simp [miCheck]

/-- **The two walks together.**  If the pre-scan of handleDatagram finds a MESSAGE-INTEGRITY and `decode` returns success, then
the attribute that protects the message by the RFC's rules (`protectingMi`: the first MESSAGE-INTEGRITY, not behind a
FINGERPRINT) exists and is the one `decode` verified under its key. -/
theorem accept_implies_protected (k : Bool) (attrs : List Attr)
    (h1 : prescan attrs = true) (h2 : decodeWalk k false attrs = .ok) :
    ∃ st, protectingMi attrs = some st ∧ miCheck k st = .ok := by
  induction attrs with
  | nil => simp [prescan] at h1
  | cons a rest ih =>
    cases a with
    | mi st =>
      refine ⟨st, rfl, ?_⟩
      simp only [decodeWalk, Bool.false_eq_true, if_false] at h2
      cases hc : miCheck k st <;> simp [hc] at h2 ⊢
    | fingerprint g => simp [prescan] at h1
    | overrun => simp [prescan] at h1
    | other =>
      simp only [prescan] at h1
      simp only [decodeWalk] at h2
      exact ih h1 h2
    | useCandidate =>
      simp only [prescan] at h1
      simp only [decodeWalk] at h2
      exact ih h1 h2
    | priority n =>
      simp only [prescan] at h1
      simp only [decodeWalk] at h2
      exact ih h1 h2

/-- the pre-scan is exactly "some MESSAGE-INTEGRITY protects the message" -/
theorem prescan_iff_protected (attrs : List Attr) : prescan attrs = true ↔ (protectingMi attrs).isSome = true := by
  induction attrs with
  | nil => simp [prescan, protectingMi]
  | cons a rest ih => cases a <;> simp [prescan, protectingMi, ih]

/-- the key handed to `decode` for a message of class `cls` accepts exactly `validFor cls` -/
theorem key_for_class (cls : Cls) :
    (if (cls == .response || cls == .error) then MiSt.validRemote else MiSt.validLocal) = validFor cls := by
  cases cls <;> rfl

/-- A STUN datagram without a valid protecting MESSAGE-INTEGRITY (none at all, only behind a FINGERPRINT, wrong key, other
password, truncated) is dropped: the state is returned unchanged and the only possible outputs are warnings. -/
theorem react_unauthenticated (s : St) (d : Datagram) (h : d.unauthenticated = true) :
    (react s d).1 = s ∧ ∀ o ∈ (react s d).2, isIntegrityWarning o = true := by
  obtain ⟨src, kind⟩ := d
  cases kind with
  | nonStun p => simp [Datagram.unauthenticated] at h
  | stun m =>
    simp only [Datagram.unauthenticated, bne_iff_ne, ne_eq] at h
    simp only [react]
    split
    · simp
    · split
      · simp [isIntegrityWarning]
      · rename_i hpre
        split
        · simp [isIntegrityWarning]
        · simp [isIntegrityWarning]
        · simp [isIntegrityWarning]
        · simp
        · rename_i hdec
          exfalso
          have hpre' : prescan m.attrs = true := by simpa using hpre
          obtain ⟨st, hp, hc⟩ := accept_implies_protected _ m.attrs hpre' hdec
          rw [miCheck_ok, key_for_class] at hc
          exact h (by rw [hp, hc])

/-- one unauthenticated operation: state unchanged, outputs are only integrity warnings -/
theorem step_unauthenticated (s : St) (op : Op) (h : op.unauthenticated = true) :
    (step s op).1 = s ∧ ∀ o ∈ (step s op).2, isIntegrityWarning o = true := by
  cases op with
  | dgram d => exact react_unauthenticated s d h
  | _ => simp [Op.unauthenticated] at h

theorem filter_eq_nil_of_all_warn (l : List Out) (h : ∀ o ∈ l, isIntegrityWarning o = true) :
    l.filter (fun o => !isIntegrityWarning o) = [] := by
  rw [List.filter_eq_nil_iff]
  intro o ho
  simp [h o ho]

/-- erasing the unauthenticated operations from a history changes neither the final state nor any output other than the
integrity warnings -/
theorem run_erase_unauthenticated (ops : List Op) (s : St) :
    (run s ops).1 = (run s (ops.filter fun o => !o.unauthenticated)).1 ∧
    (run s ops).2.filter (fun o => !isIntegrityWarning o)
      = (run s (ops.filter fun o => !o.unauthenticated)).2.filter (fun o => !isIntegrityWarning o) := by
  induction ops generalizing s with
  | nil => simp [run]
  | cons op ops ih =>
    cases hf : op.unauthenticated with
    | true =>
      have h1 := step_unauthenticated s op hf
      simp only [run, List.filter_cons, hf, Bool.not_true, Bool.false_eq_true, if_false, List.filter_append]
      rw [h1.1, filter_eq_nil_of_all_warn _ h1.2, List.nil_append]
      exact ih s
    | false =>
      simp only [run, List.filter_cons, hf, Bool.not_false, if_true, List.filter_append]
      have h2 := ih (step s op).1
      exact ⟨h2.1, by rw [h2.2]⟩

/-- a history of unauthenticated operations only -/
theorem run_all_unauthenticated (ops : List Op) (s : St) (h : ∀ op ∈ ops, op.unauthenticated = true) :
    (run s ops).1 = s ∧ ∀ o ∈ (run s ops).2, isIntegrityWarning o = true := by
  induction ops generalizing s with
  | nil => simp [run]
  | cons op ops ih =>
    have h1 := step_unauthenticated s op (h op (by simp))
    have h2 := ih (step s op).1 (fun o ho => h o (by simp [ho]))
    simp only [run]
    refine ⟨h2.1.trans h1.1, ?_⟩
    intro o ho
    rcases List.mem_append.mp ho with ho | ho
    · exact h1.2 o ho
    · exact h2.2 o ho

end Qx.C15
