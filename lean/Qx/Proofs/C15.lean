import Qx.Model.C15Ice
/-!
Helper lemmas for C15 (model: `Qx/Model/C15Ice.lean`, property theorems: `Qx/Props/C15.lean`).
-/
namespace Qx.C15

/-- the log-only outputs an unauthenticated datagram may cause -/
def isIntegrityWarning : Out → Bool
  | .warnBadMi => true
  | .warnNoMi => true
  | .warnBadFp => true
  | .warnTruncAttr => true
  | _ => false

/-- the integrity status that passes `miCheck` is exactly the one under the key handed to `decode` -/
theorem miCheck_ok (k : Bool) (st : MiSt) :
    miCheck k st = .ok ↔ st = (if k then .validRemote else .validLocal) := by
  cases k <;> cases st <;> simp [miCheck]

/-- **The two walks together.**  If the pre-scan of handleDatagram finds a MESSAGE-INTEGRITY and `decode` returns success, then
the attribute that protects the message by the RFC's rules (`protectingMi`: the first MESSAGE-INTEGRITY, not behind a
FINGERPRINT) exists and is the one `decode` verified under its key. -/
theorem accept_implies_protected (k : Bool) (attrs : List Attr)
    (h1 : prescan attrs = true) (h2 : decodeWalk k false attrs = .ok) :
    ∃ st, protectingMi attrs = some st ∧ miCheck k st = .ok := by
  induction attrs with
  | nil => simp [prescan] at h1
  | cons a rest ih =>
    cases a with
    | mi st =>
      refine ⟨st, rfl, ?_⟩
      simp only [decodeWalk, Bool.false_eq_true, if_false] at h2
      cases hc : miCheck k st <;> simp [hc] at h2 ⊢
    | fingerprint g => simp [prescan] at h1
    | overrun => simp [prescan] at h1
    | other =>
      simp only [prescan] at h1
      simp only [decodeWalk] at h2
      exact ih h1 h2
    | useCandidate =>
      simp only [prescan] at h1
      simp only [decodeWalk] at h2
      exact ih h1 h2
    | priority n =>
      simp only [prescan] at h1
      simp only [decodeWalk] at h2
      exact ih h1 h2

/-- the pre-scan is exactly "some MESSAGE-INTEGRITY protects the message" -/
theorem prescan_iff_protected (attrs : List Attr) : prescan attrs = true ↔ (protectingMi attrs).isSome = true := by
  induction attrs with
  | nil => simp [prescan, protectingMi]
  | cons a rest ih => cases a <;> simp [prescan, protectingMi, ih]

/-- the key handed to `decode` for a message of class `cls` accepts exactly `validFor cls` -/
theorem key_for_class (cls : Cls) :
    (if (cls == .response || cls == .error) then MiSt.validRemote else MiSt.validLocal) = validFor cls := by
  cases cls <;> rfl

/-- A STUN datagram without a valid protecting MESSAGE-INTEGRITY (none at all, only behind a FINGERPRINT, wrong key, other
password, truncated) is dropped: the state is returned unchanged and the only possible outputs are warnings. -/
theorem react_unauthenticated (s : St) (d : Datagram) (h : d.unauthenticated = true) :
    (react s d).1 = s ∧ ∀ o ∈ (react s d).2, isIntegrityWarning o = true := by
  obtain ⟨src, kind⟩ := d
  cases kind with
  | nonStun p => simp [Datagram.unauthenticated] at h
  | stun m =>
    simp only [Datagram.unauthenticated, bne_iff_ne, ne_eq] at h
    simp only [react]
    split
    · simp
    · split
      · simp [isIntegrityWarning]
      · rename_i hpre
        split
        · simp [isIntegrityWarning]
        · simp [isIntegrityWarning]
        · simp [isIntegrityWarning]
        · simp
        · rename_i hdec
          exfalso
          have hpre' : prescan m.attrs = true := by simpa using hpre
          obtain ⟨st, hp, hc⟩ := accept_implies_protected _ m.attrs hpre' hdec
          rw [miCheck_ok, key_for_class] at hc
          exact h (by rw [hp, hc])

/-- one unauthenticated operation: state unchanged, outputs are only integrity warnings -/
theorem step_unauthenticated (s : St) (op : Op) (h : op.unauthenticated = true) :
    (step s op).1 = s ∧ ∀ o ∈ (step s op).2, isIntegrityWarning o = true := by
  cases op with
  | dgram d => exact react_unauthenticated s d h
  | _ => simp [Op.unauthenticated] at h

theorem filter_eq_nil_of_all_warn (l : List Out) (h : ∀ o ∈ l, isIntegrityWarning o = true) :
    l.filter (fun o => !isIntegrityWarning o) = [] := by
  rw [List.filter_eq_nil_iff]
  intro o ho
  simp [h o ho]

/-- erasing the unauthenticated operations from a history changes neither the final state nor any output other than the
integrity warnings -/
theorem run_erase_unauthenticated (ops : List Op) (s : St) :
    (run s ops).1 = (run s (ops.filter fun o => !o.unauthenticated)).1 ∧
    (run s ops).2.filter (fun o => !isIntegrityWarning o)
      = (run s (ops.filter fun o => !o.unauthenticated)).2.filter (fun o => !isIntegrityWarning o) := by
  induction ops generalizing s with
  | nil => simp [run]
  | cons op ops ih =>
    cases hf : op.unauthenticated with
    | true =>
      have h1 := step_unauthenticated s op hf
      simp only [run, List.filter_cons, hf, Bool.not_true, Bool.false_eq_true, if_false, List.filter_append]
      rw [h1.1, filter_eq_nil_of_all_warn _ h1.2, List.nil_append]
      exact ih s
    | false =>
      simp only [run, List.filter_cons, hf, Bool.not_false, if_true, List.filter_append]
      have h2 := ih (step s op).1
      exact ⟨h2.1, by rw [h2.2]⟩

/-- a history of unauthenticated operations only -/
theorem run_all_unauthenticated (ops : List Op) (s : St) (h : ∀ op ∈ ops, op.unauthenticated = true) :
    (run s ops).1 = s ∧ ∀ o ∈ (run s ops).2, isIntegrityWarning o = true := by
  induction ops generalizing s with
  | nil => simp [run]
  | cons op ops ih =>
    have h1 := step_unauthenticated s op (h op (by simp))
    have h2 := ih (step s op).1 (fun o ho => h o (by simp [ho]))
    simp only [run]
    refine ⟨h2.1.trans h1.1, ?_⟩
    intro o ho
    rcases List.mem_append.mp ho with ho | ho
    · exact h1.2 o ho
    · exact h2.2 o ho

/-! ### connected is stable -/
theorem completion_active (s : St) (r : Nat) (h : s.active.isSome = true) : (completion s r).1.active.isSome = true := by
  unfold completion
  repeat' split
  all_goals simp_all

theorem performCheck_active (s : St) (r : Nat) (b : Bool) : (performCheck s r b).1.active = s.active := rfl

theorem checkCandidates_active (s : St) : (checkCandidates s).1.active = s.active := by
  unfold checkCandidates
  repeat' split
  all_goals simp_all [performCheck]


theorem handleRequest_active (s : St) (src : Nat) (m : Stun) (h : s.active.isSome = true) :
    (handleRequest s src m).1.active.isSome = true := by
  unfold handleRequest
  split
  · exact h
  split
  · exact h
  simp only []
  apply completion_active
  repeat' split
  all_goals simp_all [performCheck, St.addPair]

theorem handleResponse_active (s : St) (src : Nat) (m : Stun) (h : s.active.isSome = true) :
    (handleResponse s src m).1.active.isSome = true := by
  unfold handleResponse
  repeat' split
  all_goals first | exact h | (apply completion_active; exact h) | simp_all

theorem react_active (s : St) (d : Datagram) (h : s.active.isSome = true) : (react s d).1.active.isSome = true := by
  obtain ⟨src, kind⟩ := d
  cases kind with
  | nonStun p => simp only [react]; split <;> exact h
  | stun m =>
    simp only [react]
    split
    · exact h
    split
    · exact h
    cases decodeWalk (m.cls == .response || m.cls == .error) false m.attrs with
    | badMi => exact h
    | badFp => exact h
    | truncAttr => exact h
    | silent => exact h
    | ok =>
      simp only []
      split
      · exact h
      cases m.cls with
      | request => exact handleRequest_active _ _ _ h
      | indication => exact h
      | response => exact handleResponse_active _ _ _ h
      | error => exact handleResponse_active _ _ _ h

/-- **Connected is stable:** no operation whatsoever makes a connected component unconnected again. -/
theorem step_active (s : St) (op : Op) (h : s.active.isSome = true) : (step s op).1.active.isSome = true := by
  cases op with
  | dgram d => exact react_active s d h
  | tick => simp only [step, tick]; split; rw [checkCandidates_active]; exact h; exact h
  | connect => simp [step, connect, h]
  | addRemote a p => simp only [step, addRemote]; split <;> simp_all [St.addPair]
  | txTimeout t => simp only [step, txFinished]; split <;> simp_all
  | retransmit t => simp only [step, retransmit, txFinished]; repeat' split; all_goals simp_all
  | sendApp p => simp only [step, sendApp]; repeat' split; all_goals simp_all
  | setRemoteCreds => exact h
  | setRemoteUser => exact h
  | setRemotePassword => exact h

theorem run_active (ops : List Op) (s : St) (h : s.active.isSome = true) : (run s ops).1.active.isSome = true := by
  induction ops generalizing s with
  | nil => exact h
  | cons op ops ih => exact ih _ (step_active s op h)

/-! ### attributes behind MESSAGE-INTEGRITY -/
theorem decodeWalk_after_ok (k : Bool) (post : List Attr) (h : ∀ a ∈ post, a.harmless = true) :
    decodeWalk k true post = .ok := by
  induction post with
  | nil => rfl
  | cons a r ih =>
    have ha := h a (by simp)
    have hr : ∀ b ∈ r, b.harmless = true := fun b hb => h b (by simp [hb])
    cases a with
    | mi st => simp [decodeWalk, ih hr]
    | fingerprint g => cases g <;> simp_all [decodeWalk, Attr.harmless]
    | other => simp [decodeWalk, ih hr]
    | overrun => simp [Attr.harmless] at ha
    | useCandidate => simp [decodeWalk, ih hr]
    | priority n => simp [decodeWalk, ih hr]

theorem prescan_trailer (pre post : List Attr) (st : MiSt) :
    prescan (pre ++ .mi st :: post) = prescan (pre ++ [.mi st]) := by
  induction pre with
  | nil => rfl
  | cons a r ih => cases a <;> simp [prescan, ih]

theorem decodeWalk_trailer (k : Bool) (pre post : List Attr) (st : MiSt) (h : ∀ a ∈ post, a.harmless = true) (ai : Bool) :
    decodeWalk k ai (pre ++ .mi st :: post) = decodeWalk k ai (pre ++ [.mi st]) := by
  induction pre generalizing ai with
  | nil =>
    cases ai with
    | true => simp [decodeWalk, decodeWalk_after_ok k post h]
    | false =>
      simp only [List.nil_append, decodeWalk, Bool.false_eq_true, if_false]
      cases miCheck k st <;> simp [decodeWalk_after_ok k post h]
  | cons a r ih =>
    cases a with
    | mi st' =>
      cases ai with
      | true => simp [decodeWalk, ih]
      | false =>
        simp only [List.cons_append, decodeWalk, Bool.false_eq_true, if_false]
        cases miCheck k st' <;> simp [ih]
    | fingerprint g => simp [decodeWalk]
    | other => simp [decodeWalk, ih]
    | overrun => simp [decodeWalk]
    | useCandidate => simp [decodeWalk, ih]
    | priority n => simp [decodeWalk, ih]

theorem parsedUc_trailer (pre post : List Attr) (st : MiSt) :
    parsedUc (pre ++ .mi st :: post) = parsedUc (pre ++ [.mi st]) := by
  induction pre with
  | nil => rfl
  | cons a r ih => cases a <;> simp [parsedUc, ih]

theorem parsedPrio_trailer (pre post : List Attr) (st : MiSt) (cur : Nat) :
    parsedPrio cur (pre ++ .mi st :: post) = parsedPrio cur (pre ++ [.mi st]) := by
  induction pre generalizing cur with
  | nil => rfl
  | cons a r ih => cases a <;> simp [parsedPrio, ih]

/-- `handleRequest` looks at four fields of the decoded message only -/
theorem handleRequest_congr (s : St) (src : Nat) (m1 m2 : Stun) (h1 : m1.roleAttr = m2.roleAttr)
    (h2 : m1.useCandidate = m2.useCandidate) (h3 : m1.txid = m2.txid) (h4 : m1.priority = m2.priority) :
    handleRequest s src m1 = handleRequest s src m2 := by
  obtain ⟨c1, me1, t1, a1, u1, r1, p1, n1⟩ := m1
  obtain ⟨c2, me2, t2, a2, u2, r2, p2, n2⟩ := m2
  simp only at h1 h2 h3 h4
  subst h1 h2 h3 h4
  rfl

/-! ### application datagrams -/


/-- a connected sender writes every payload to the selected pair's remote address, untouched, and its state does not change -/
theorem run_sendApp (a : St) (dst : Nat) (h : a.active = some dst) (ps : List (List UInt8)) :
    run a (ps.map .sendApp) = (a, ps.map (Out.appSent dst)) := by
  induction ps with
  | nil => rfl
  | cons p r ih => simp [run, step, sendApp, h, ih]

/-- what arrives at `dst` from those writes: the payloads as non-STUN datagrams from the sender's address, in order -/
theorem route_appSent (a : St) (from_ dst : Nat) (ps : List (List UInt8)) :
    route a from_ dst (ps.map (Out.appSent dst)) = ps.map (fun p => ({ src := from_, kind := .nonStun p } : Datagram)) := by
  induction ps with
  | nil => rfl
  | cons p r ih => simp [route, wire, ih]

/-- a receiver hands every non-STUN datagram up unchanged and in order; its connectivity view does not change -/
theorem run_nonStun (b : St) (src : Nat) (ps : List (List UInt8)) :
    (run b (ps.map fun p => .dgram { src := src, kind := .nonStun p })).2 = ps.map Out.appData ∧
    connView (run b (ps.map fun p => .dgram { src := src, kind := .nonStun p })).1 = connView b := by
  induction ps generalizing b with
  | nil => exact ⟨rfl, rfl⟩
  | cons p r ih =>
    have hs : connView (react b { src := src, kind := .nonStun p }).1 = connView b := by
      simp only [react]; split <;> rfl
    have ho : (react b { src := src, kind := .nonStun p }).2 = [Out.appData p] := by
      simp only [react]
    have h2 := ih (react b { src := src, kind := .nonStun p }).1
    simp only [List.map_cons, run, step]
    exact ⟨by rw [ho, h2.1]; rfl, by rw [h2.2, hs]⟩

/-! the 1024 combinations of {role assignment, who starts, whether the first check arrives before the other side starts, an extra
unreachable candidate on either side, its position, loss of each of the four first transmissions}, in four kernel-evaluated parts -/
theorem lossy_ff : ∀ g da db df l1 l2 l3 l4 : Bool,
    bothConnected (Net.periods 3 (lossyStart false false g da db df 1, ⟨l1, l2, l3, l4⟩)).1 = true := by decide +kernel
theorem lossy_ft : ∀ g da db df l1 l2 l3 l4 : Bool,
    bothConnected (Net.periods 3 (lossyStart false true g da db df 1, ⟨l1, l2, l3, l4⟩)).1 = true := by decide +kernel
theorem lossy_tf : ∀ g da db df l1 l2 l3 l4 : Bool,
    bothConnected (Net.periods 3 (lossyStart true false g da db df 1, ⟨l1, l2, l3, l4⟩)).1 = true := by decide +kernel
theorem lossy_tt : ∀ g da db df l1 l2 l3 l4 : Bool,
    bothConnected (Net.periods 3 (lossyStart true true g da db df 1, ⟨l1, l2, l3, l4⟩)).1 = true := by decide +kernel

end Qx.C15
