import Qx.Model.C11Carbons
/-!
Helper lemmas for C11 (carbon copies only from the own account).
-/
namespace Qx.C11

/-! ### strings -/

theorem append_ne_self_right (a x : String) (hx : x ≠ "") : a ++ x ≠ a := by
  intro h
  have hl : (a ++ x).length = a.length := by rw [h]
  rw [String.length_append] at hl
  have h0 : x.length = 0 := by omega
  exact hx (String.length_eq_zero_iff.mp h0)

theorem append_ne_self_left (a x : String) (hx : x ≠ "") : x ++ a ≠ a := by
  intro h
  have hl : (x ++ a).length = a.length := by rw [h]
  rw [String.length_append] at hl
  have h0 : x.length = 0 := by omega
  exact hx (String.length_eq_zero_iff.mp h0)

theorem takeWhile_noslash_append (l : List Char) (hl : '/' ∉ l) (t : List Char) :
    (l ++ '/' :: t).takeWhile (fun c => c != '/') = l := by
  induction l with
  | nil => simp
  | cons a l ih =>
    have ha : a ≠ '/' := fun h => hl (by simp [h])
    have hl' : '/' ∉ l := fun h => hl (by simp [h])
    simp [ha, ih hl']

theorem takeWhile_noslash (l : List Char) (hl : '/' ∉ l) :
    l.takeWhile (fun c => c != '/') = l := by
  induction l with
  | nil => simp
  | cons a l ih =>
    have ha : a ≠ '/' := fun h => hl (by simp [h])
    have hl' : '/' ∉ l := fun h => hl (by simp [h])
    simp [ha, ih hl']

/-! ### the verdicts, characterised -/

theorem verdictV2_accepted_iff (own sender : String) (kids : List Child) (sent : Bool) (m : Msg) :
    verdictV2 own sender kids = .accepted sent m ↔
      sender = own ∧ ∃ c n, wrapperV2 kids = some c ∧ innerOf c = some n ∧
        sent = (c.tag == "sent") ∧ m = forwardedMsg n := by
  unfold verdictV2
  cases hw : wrapperV2 kids with
  | none => simp
  | some c =>
    by_cases hs : sender = own
    · subst hs
      cases hi : innerOf c with
      | none => simp [hi]
      | some n =>
        simp only [hi, ne_eq, not_true_eq_false, if_false, true_and, Option.some.injEq]
        constructor
        · intro hv
          injection hv with h1 h2
          exact ⟨c, n, rfl, hi, h1.symm, h2.symm⟩
        · rintro ⟨c', n', hc, hn, h1, h2⟩
          subst hc
          rw [hi] at hn; injection hn with hn; subst hn
          rw [h1, h2]
    · simp [hs]

theorem verdictV1_accepted_iff (own sender : String) (kids : List Child) (sent : Bool) (m : Msg) :
    verdictV1 own sender kids = .accepted sent m ↔
      sender = own ∧ ∃ sc n, wrapperV1 kids = some sc ∧ innerOf sc.2 = some n ∧
        sent = sc.1 ∧ m = forwardedMsg n := by
  unfold verdictV1
  cases hw : wrapperV1 kids with
  | none => simp
  | some sc =>
    by_cases hs : sender = own
    · subst hs
      cases hi : innerOf sc.2 with
      | none =>
        simp only [hi, ne_eq, not_true_eq_false, if_false, true_and, Option.some.injEq]
        constructor
        · intro hv; cases hv
        · rintro ⟨sc', n', hc, hn, _, _⟩
          subst hc
          rw [hi] at hn; cases hn
      | some n =>
        simp only [hi, ne_eq, not_true_eq_false, if_false, true_and, Option.some.injEq]
        constructor
        · intro hv
          injection hv with h1 h2
          exact ⟨sc, n, rfl, hi, h1.symm, h2.symm⟩
        · rintro ⟨sc', n', hc, hn, h1, h2⟩
          subst hc
          rw [hi] at hn; injection hn with hn; subst hn
          rw [h1, h2]
    · simp [hs]

theorem msg?_eq_some (v : Verdict) (m : Msg) : v.msg? = some m ↔ ∃ sent, v = .accepted sent m := by
  cases v <;> simp [Verdict.msg?]

theorem msg?_eq_none (v : Verdict) : v.msg? = none ↔ ∀ sent m, v ≠ .accepted sent m := by
  cases v <;> simp [Verdict.msg?]

theorem verdictV2_foreign (own sender : String) (kids : List Child) (h : sender ≠ own) :
    verdictV2 own sender kids = .notCarbon ∨ verdictV2 own sender kids = .foreign := by
  unfold verdictV2
  split
  · exact Or.inl rfl
  · simp [h]

theorem verdictV1_foreign (own sender : String) (kids : List Child) (h : sender ≠ own) :
    verdictV1 own sender kids = .notCarbon ∨ verdictV1 own sender kids = .foreign := by
  unfold verdictV1
  split
  · exact Or.inl rfl
  · simp [h]

/-! ### where the wrapper lookups land -/

theorem wrapperV2_spec (kids : List Child) (c : Child) (h : wrapperV2 kids = some c) :
    c ∈ kids ∧ c.ns = nsCarbons ∧ (c.tag = "sent" ∨ c.tag = "received") := by
  unfold wrapperV2 at h
  split at h
  · cases h
  · rename_i c' hf
    split at h
    · rename_i ht
      injection h with h; subst h
      have hp := List.find?_some hf
      exact ⟨List.mem_of_find?_eq_some hf, by simpa using hp, ht⟩
    · cases h

theorem wrapperV1_spec (kids : List Child) (sc : Bool × Child) (h : wrapperV1 kids = some sc) :
    sc.2 ∈ kids ∧ sc.2.ns = nsCarbons ∧ sc.2.tag = (if sc.1 then "sent" else "received") := by
  unfold wrapperV1 at h
  split at h
  · rename_i c hf
    injection h with h; subst h
    have hp := List.find?_some hf
    simp only [Bool.and_eq_true, beq_iff_eq] at hp
    exact ⟨List.mem_of_find?_eq_some hf, hp.1, by simpa using hp.2⟩
  · split at h
    · rename_i c hf
      injection h with h; subst h
      have hp := List.find?_some hf
      simp only [Bool.and_eq_true, beq_iff_eq] at hp
      exact ⟨List.mem_of_find?_eq_some hf, hp.1, by simpa using hp.2⟩
    · cases h

theorem innerOf_spec (c : Child) (n : MsgNode) (h : innerOf c = some n) :
    ∃ f ∈ c.kids, n ∈ f.kids ∧ f.ns = nsForwarding ∧ f.tag = "forwarded" ∧
      n.ns = nsClient ∧ n.tag = "message" := by
  unfold innerOf at h
  split at h
  · cases h
  · rename_i f hf
    have hpf := List.find?_some hf
    have hpn := List.find?_some h
    simp only [Bool.and_eq_true, beq_iff_eq] at hpf hpn
    exact ⟨f, List.mem_of_find?_eq_some hf, List.mem_of_find?_eq_some h, hpf.1, hpf.2, hpn.1, hpn.2⟩

/-! ### handle -/

theorem handle_of_not_accepted (g : Gen) (own : String) (o : Outer) (ht : o.tag = "message")
    (h : (verdict g own o).msg? = none) :
    (handle g own o).consumed = false ∧ (handle g own o).events = ordinary o := by
  unfold handle
  simp only [ht, ne_eq, not_true_eq_false, if_false]
  cases hv : verdict g own o <;> simp_all [Verdict.msg?]

theorem handle_of_accepted (g : Gen) (own : String) (o : Outer) (ht : o.tag = "message")
    (sent : Bool) (m : Msg) (h : verdict g own o = .accepted sent m) :
    (handle g own o).consumed = true ∧ (handle g own o).warned = false ∧
    (handle g own o).events =
      (match g with
       | .v2 => [.handler m, .clientReceived m]
       | .v1 => [if sent then .v1Sent m else .v1Received m]) := by
  unfold handle
  simp only [ht, ne_eq, not_true_eq_false, if_false, h]
  cases g <;> simp

theorem verdict_accepted_sender (g : Gen) (own : String) (o : Outer) (sent : Bool) (m : Msg)
    (h : verdict g own o = .accepted sent m) : attrVal o.sender = own := by
  cases g
  · exact ((verdictV1_accepted_iff _ _ _ _ _).mp h).1
  · exact ((verdictV2_accepted_iff _ _ _ _ _).mp h).1

theorem verdict_accepted_flag (g : Gen) (own : String) (o : Outer) (sent : Bool) (m : Msg)
    (h : verdict g own o = .accepted sent m) : m.carbonForwarded = true := by
  cases g
  · obtain ⟨_, _, n, _, _, _, hm⟩ := (verdictV1_accepted_iff _ _ _ _ _).mp h
    rw [hm]; rfl
  · obtain ⟨_, _, n, _, _, _, hm⟩ := (verdictV2_accepted_iff _ _ _ _ _).mp h
    rw [hm]; rfl

/-- every event of one stanza: either the outer stanza as it stands, or the accepted inner message -/
theorem handle_events (g : Gen) (own : String) (o : Outer) (ev : Ev) (hev : ev ∈ (handle g own o).events) :
    (ev.msg = parseOuter o ∧ (verdict g own o).msg? = none) ∨
    (∃ sent, verdict g own o = .accepted sent ev.msg) := by
  by_cases ht : o.tag = "message"
  · cases hm : (verdict g own o).msg? with
    | none =>
      left
      rw [(handle_of_not_accepted g own o ht hm).2] at hev
      simp only [ordinary, List.mem_cons, List.not_mem_nil, or_false] at hev
      rcases hev with rfl | rfl <;> exact ⟨rfl, rfl⟩
    | some m =>
      right
      obtain ⟨sent, hv⟩ := (msg?_eq_some _ _).mp hm
      refine ⟨sent, ?_⟩
      rw [(handle_of_accepted g own o ht sent m hv).2.2] at hev
      cases g
      · simp only [List.mem_cons, List.not_mem_nil, or_false] at hev
        subst hev
        cases sent <;> simpa [Ev.msg] using hv
      · simp only [List.mem_cons, List.not_mem_nil, or_false] at hev
        rcases hev with rfl | rfl <;> simpa [Ev.msg] using hv
  · unfold handle at hev
    simp [ht] at hev

/-! ### histories -/

theorem run_append (s : St) (a b : List Op) :
    run s (a ++ b) = ((run (run s a).1 b).1, (run s a).2 ++ (run (run s a).1 b).2) := by
  induction a generalizing s with
  | nil => simp [run]
  | cons op a ih => simp [run, ih, List.append_assoc]

theorem presented_append (a b : List Res) : presented (a ++ b) = presented a ++ presented b := by
  simp [presented]

end Qx.C11
